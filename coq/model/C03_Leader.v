(* C03 — executable model of server/election/{leadership,lease}.go and the leader-guarded
   writes, over one etcd store with leases.  Definitions only.
   Time: one global monotone clock `now` (no drift between members and etcd: trusted-base assumption);
   a lease has a member-side expiry (request start + ttl) and an etcd-side expiry (processing time + ttl).
   Every label is one atomic section: one etcd request, or one local read/write of the lease state. *)
From Coq Require Import NArith String.
From PDV Require Import lib.Base.
Local Open Scope N_scope.

Inductive outcome := Ok | ErrNotApplied | ErrApplied.

Inductive lstate :=
| NoLease                                  (* Leadership.lease == nil *)
| Ungranted                                (* lease object set, expireTime == nil: Grant not (yet) successful *)
| Granted (id : nat) (exp_local : N)
| Closed.                                  (* expireTime == zero time *)

Record mem := Mem {
  lease : lstate;
  won : bool;                    (* campaign succeeded; cached "leader = me" (EnableLeader .. ResetLeader) *)
  campaigning : bool;            (* between a successful Grant and the campaign txn *)
  g_start : option (N * N);      (* Grant in flight: (request start, ttl) *)
  ka_start : option N;           (* KeepAliveOnce in flight: request start *)
  saw : option (nat * nat);      (* CheckLeader read a leader record equal to this member: the record (= its revision) *)
  ttl_of : N;
  has_value : bool               (* Leadership.leaderValue is set (only Campaign sets it; a fresh object has "") *)
}.

Definition mem0 : mem := Mem NoLease false false None None None 0 false.

Record state := State {
  now : N;
  key : option (nat * nat);          (* leader key: (member value, attached lease id) *)
  leases : nat -> option (N * N);    (* live leases on etcd: (expiry, ttl) *)
  owner : nat -> nat;                (* ghost: which member a lease id was granted to *)
  next_lease : nat;
  data : nat -> option (nat * Z);    (* leader-guarded keys (kind) -> (writer, payload) *)
  mems : nat -> mem;
  served : list (N * nat)            (* ghost: (time, member) of every request served as leader *)
}.

Definition init : state := State 0 None (fun _ => None) (fun _ => 0%nat) 0 (fun _ => None) (fun _ => mem0) [].

Inductive label :=
| LTick (d : N)
| LGrantStart (m : nat) (ttl : N)
| LGrantDone (m : nat) (ok : bool)
| LCampaignTxn (m : nat) (o : outcome) (revoked : bool)
| LKeepStart (m : nat)
| LKeepDone (m : nat)
| LExpire (l : nat)
| LReset (m : nat) (revoked : bool)
| LObserve (m : nat)
| LDeleteKey (m : nat) (o : outcome) (revoked : bool)
| LWrite (m : nat) (k : nat) (v : option Z) (o : outcome)   (* guarded put (Some) or delete (None) *)
| LEnvPut (k : nat) (v : option (nat * Z))                  (* environment writes a data key directly *)
| LCrash (m : nat)
| LServe (m : nat).

(* Leadership.Check(): lease != nil && !IsExpired(); IsExpired is false when expireTime == nil *)
Definition check (t : N) (l : lstate) : bool :=
  match l with
  | Ungranted => true
  | Granted _ e => t <=? e
  | NoLease | Closed => false
  end.

(* Member.IsLeader(): Check() && cached leader == me *)
Definition is_leader (s : state) (m : nat) : bool :=
  check (now s) (lease (mems s m)) && won (mems s m).

Definition key_value (s : state) : option nat := match key s with Some (v, _) => Some v | None => None end.

Definition upd {A} (f : nat -> A) (i : nat) (x : A) : nat -> A := fun j => if Nat.eqb j i then x else f j.

Definition set_mem (s : state) (m : nat) (x : mem) : state :=
  State (now s) (key s) (leases s) (owner s) (next_lease s) (data s) (upd (mems s) m x) (served s).

(* lease revocation / expiry on etcd: the lease disappears together with the keys attached to it *)
Definition revoke (s : state) (l : nat) : state :=
  State (now s)
        (match key s with Some (v, l') => if Nat.eqb l' l then None else Some (v, l') | None => None end)
        (upd (leases s) l None) (owner s) (next_lease s) (data s) (mems s) (served s).

Definition lease_id (l : lstate) : option nat := match l with Granted id _ => Some id | _ => None end.

Definition close_mem (x : mem) : mem := Mem Closed false false None None (saw x) (ttl_of x) (has_value x).

(* lease.Close(): expireTime := zero; Revoke (may fail: revoked = false) *)
Definition do_close (s : state) (m : nat) (revoked : bool) : state :=
  let x := mems s m in
  let s1 := set_mem s m (close_mem x) in
  match lease_id (lease x) with
  | Some id => if revoked then revoke s1 id else s1
  | None => s1
  end.

Definition nat_opt_eqb (a : option nat) (b : nat) : bool :=
  match a with Some x => Nat.eqb x b | None => false end.

Definition pair_opt_eqb (a : option (nat * nat)) (b : nat * nat) : bool :=
  match a with Some (x, y) => Nat.eqb x (fst b) && Nat.eqb y (snd b) | None => false end.

Definition step (s : state) (l : label) : option state :=
  match l with
  | LTick d =>
      Some (State (now s + d) (key s) (leases s) (owner s) (next_lease s) (data s) (mems s) (served s))
  | LGrantStart m ttl =>
      let x := mems s m in
      match lease x with
      | Granted _ _ => None            (* the server loop resets before it campaigns again *)
      | _ => if won x then None
             else Some (set_mem s m (Mem Ungranted false false (Some (now s, ttl)) None (saw x) (ttl_of x) true))
      end
  | LGrantDone m ok =>
      let x := mems s m in
      match lease x, g_start x with
      | Ungranted, Some (st, ttl) =>
          if ok then
            let id := next_lease s in
            Some (State (now s) (key s) (upd (leases s) id (Some (now s + ttl, ttl))) (upd (owner s) id m)
                        (S id) (data s)
                        (upd (mems s) m (Mem (Granted id (st + ttl)) false true None None (saw x) ttl (has_value x)))
                        (served s))
          else Some (set_mem s m (Mem Ungranted false false None None (saw x) (ttl_of x) (has_value x)))
      | _, _ => None
      end
  | LCampaignTxn m o revoked =>
      let x := mems s m in
      match lease x with
      | Granted id e =>
          if campaigning x then
            let alive := match leases s id with Some _ => true | None => false end in
            let cmp := match key s with None => true | Some _ => false end in
            let applied := match o with ErrNotApplied => false | _ => cmp && alive end in
            let acked := match o with Ok => applied | _ => false end in
            let s1 := State (now s) (if applied then Some (m, id) else key s) (leases s) (owner s)
                            (next_lease s) (data s) (mems s) (served s) in
            if acked then Some (set_mem s1 m (Mem (Granted id e) true false None None (saw x) (ttl_of x) (has_value x)))
            else Some (do_close s1 m revoked)
          else None
      | _ => None
      end
  | LKeepStart m =>
      let x := mems s m in
      match lease x with
      | Granted id e => if won x then Some (set_mem s m (Mem (Granted id e) true false None (Some (now s)) (saw x) (ttl_of x) (has_value x)))
                        else None
      | _ => None
      end
  | LKeepDone m =>
      let x := mems s m in
      match lease x, ka_start x with
      | Granted id e, Some st =>
          match leases s id with
          | Some (e', ttl) =>
              if now s <=? e' then   (* etcd renews only a lease that has not expired; the response carries its TTL *)
                Some (State (now s) (key s) (upd (leases s) id (Some (now s + ttl, ttl))) (owner s) (next_lease s) (data s)
                            (upd (mems s) m (Mem (Granted id (N.max e (st + ttl))) (won x) (campaigning x) None None (saw x) (ttl_of x) (has_value x)))
                            (served s))
              else Some (set_mem s m (Mem (Granted id e) (won x) (campaigning x) None None (saw x) (ttl_of x) (has_value x)))
          | None => Some (set_mem s m (Mem (Granted id e) (won x) (campaigning x) None None (saw x) (ttl_of x) (has_value x)))
          end
      | Closed, _ => Some s   (* the response of a renewal arrives after lease.Close(): it must not touch the zeroed expiry *)
      | _, _ => None
      end
  | LExpire l =>
      match leases s l with
      | Some (e, _) => if e <? now s then Some (revoke s l) else None
      | None => None
      end
  | LReset m revoked =>
      match lease (mems s m) with
      | NoLease => None
      | _ => Some (do_close s m revoked)
      end
  | LObserve m =>
      let x := mems s m in
      if won x then None
      else Some (set_mem s m (Mem (lease x) (won x) (campaigning x) (g_start x) (ka_start x) (if nat_opt_eqb (key_value s) m then key s else None) (ttl_of x) (has_value x)))
  | LDeleteKey m o revoked =>
      (* DeleteLeaderKey(ModRevision(leaderKey) = rev read by CheckLeader): deletes only the record it read *)
      let x := mems s m in
      match saw x with
      | Some kv =>
          if negb (won x) then
            let cmp := pair_opt_eqb (key s) kv in
            let applied := match o with ErrNotApplied => false | _ => cmp end in
            let s1 := State (now s) (if applied then None else key s) (leases s) (owner s) (next_lease s) (data s)
                            (upd (mems s) m (Mem (lease x) (won x) (campaigning x) (g_start x) (ka_start x) None (ttl_of x) (has_value x)))
                            (served s) in
            match o, lease x with
            | Ok, NoLease => Some s1                      (* Reset() is a no-op without a lease *)
            | Ok, _ => if cmp then Some (do_close s1 m revoked) else Some s1   (* txn conflict: no Reset *)
            | _, _ => Some s1
            end
          else None
      | None => None
      end
  | LWrite m k v o =>
      (* kind 2 = the id window: id.go compares the record with the member value it was constructed
         with, not with Leadership.leaderValue, so it does not depend on a campaign of this object *)
      let cmp := (has_value (mems s m) || Nat.eqb k 2) && nat_opt_eqb (key_value s) m in
      let applied := match o with ErrNotApplied => false | _ => cmp end in
      Some (State (now s) (key s) (leases s) (owner s) (next_lease s)
                  (if applied then upd (data s) k (match v with Some z => Some (m, z) | None => None end) else data s) (mems s) (served s))
  | LEnvPut k v =>
      Some (State (now s) (key s) (leases s) (owner s) (next_lease s) (upd (data s) k v) (mems s) (served s))
  | LCrash m => Some (set_mem s m mem0)
  | LServe m =>
      if is_leader s m then Some (State (now s) (key s) (leases s) (owner s) (next_lease s) (data s) (mems s) ((now s, m) :: served s))
      else None
  end.

(* ---------------- operation-level wrapper for the correspondence check ---------------- *)
Inductive op :=
| OCampaign (m : nat) (ttl : N)        (* CampaignLeader to completion (+ EnableLeader on success) *)
| OCampaignBegin (m : nat) (ttl : N)   (* lease granted, campaign txn parked *)
| OCampaignEnd (m : nat) (o : outcome)
| OReset (m : nat)                     (* ResetLeader *)
| OCheckLeader (m : nat)               (* CheckLeader to completion: read; delete when the record is mine *)
| OCheckBegin (m : nat)                (* read; the delete (if any) is parked *)
| OCheckEnd (m : nat) (o : outcome)
| OExpire (l : nat)                    (* wait until lease number l is gone on etcd *)
| OCrash (m : nat)                     (* drop the Member object, create a new one with the same identity *)
| OWrite (m : nat) (k : nat) (v : option Z)
| OEnvPut (k : nat) (v : option Z)
| OIsLeader (m : nat)
| OKeepBegin (m : nat)                 (* Keep started; etcd has processed the first renewal, its response is held *)
| OKeepEnd (m : nat)                   (* the held response is delivered *)
| ORead.

Inductive obs :=
| BOk | BConflict | BErr | BUnit | BStarted | BRejected | BBad
| BSeen (v : option nat)
| BBool (b : bool)
| BStore (leader : option nat) (d0 d1 d2 : option Z).

Definition stepd (s : state) (l : label) : state := match step s l with Some s2 => s2 | None => s end.

Definition payload (s : state) (k : nat) : option Z := match data s k with Some (_, z) => Some z | None => None end.

Definition campaign_end (s : state) (m : nat) (o : outcome) : state * obs :=
  match step s (LCampaignTxn m o true) with
  | Some s2 => (s2, if won (mems s2 m) then BOk
                    else match o with Ok => BConflict | _ => BErr end)
  | None => (s, BBad)
  end.

Definition run_op (s : state) (o : op) : state * obs :=
  match o with
  | OCampaign m ttl =>
      match step s (LGrantStart m ttl) with
      | Some s1 => campaign_end (stepd s1 (LGrantDone m true)) m Ok
      | None => (s, BBad)
      end
  | OCampaignBegin m ttl =>
      match step s (LGrantStart m ttl) with
      | Some s1 => (stepd s1 (LGrantDone m true), BStarted)
      | None => (s, BBad)
      end
  | OCampaignEnd m o => campaign_end s m o
  | OReset m => (stepd s (LReset m true), BUnit)
  | OCheckLeader m =>
      match step s (LObserve m) with
      | Some s1 =>
          match saw (mems s1 m) with
          | Some _ => (stepd s1 (LDeleteKey m Ok true), BSeen None)
          | None => (s1, BSeen (key_value s))
          end
      | None => (s, BBad)
      end
  | OCheckBegin m =>
      match step s (LObserve m) with
      | Some s1 => match saw (mems s1 m) with Some _ => (s1, BStarted) | None => (s1, BSeen (key_value s)) end
      | None => (s, BBad)
      end
  | OCheckEnd m o =>
      match saw (mems s m), step s (LDeleteKey m o true) with
      | Some kv, Some s2 => (s2, match o with Ok => if pair_opt_eqb (key s) kv then BSeen None else BErr | _ => BErr end)
      | _, _ => (s, BBad)
      end
  | OExpire l =>
      match leases s l with
      | Some (e, _) =>
          let s1 := if now s <=? e then stepd s (LTick (e + 1 - now s)) else s in
          (stepd s1 (LExpire l), BUnit)
      | None => (s, BUnit)
      end
  | OCrash m => (stepd s (LCrash m), BUnit)
  | OWrite m k v =>
      (* kind 2 is the id-allocator window: the value written is the stored end + 1000 *)
      let v2 := match k, v with
                | 2%nat, Some _ => Some (match payload s 2 with Some z => z | None => 0%Z end + 1000)%Z
                | _, _ => v
                end in
      let applied := (has_value (mems s m) || Nat.eqb k 2) && nat_opt_eqb (key_value s) m in
      (stepd s (LWrite m k v2 Ok), if applied then BOk else BRejected)
  | OEnvPut k v => (stepd s (LEnvPut k (match v with Some z => Some (99%nat, z) | None => None end)), BUnit)
  | OIsLeader m => (s, BBool (is_leader s m))
  | OKeepBegin m => match step s (LKeepStart m) with Some s1 => (s1, BStarted) | None => (s, BBad) end
  | OKeepEnd m => match step s (LKeepDone m) with Some s1 => (s1, BUnit) | None => (s, BBad) end
  | ORead => (s, BStore (key_value s) (payload s 0) (payload s 1) (payload s 2))
  end.

Definition optnat_eqb := opt_eqb Nat.eqb.
Definition optZ_eqb := opt_eqb Z.eqb.

Definition obs_eqb (a b : obs) : bool :=
  match a, b with
  | BOk, BOk | BConflict, BConflict | BErr, BErr | BUnit, BUnit | BStarted, BStarted
  | BRejected, BRejected | BBad, BBad => true
  | BSeen x, BSeen y => optnat_eqb x y
  | BBool x, BBool y => Bool.eqb x y
  | BStore l a0 a1 a2, BStore l2 b0 b1 b2 => optnat_eqb l l2 && optZ_eqb a0 b0 && optZ_eqb a1 b1 && optZ_eqb a2 b2
  | _, _ => false
  end.

Definition model_obs (ops : list op) : list obs := run run_op init ops.

Definition check_case (c : list op * list obs) := diff_at obs_eqb 0 (model_obs (fst c)) (snd c).

Fixpoint mismatches_from (n : nat) (cs : list (list op * list obs)) :=
  match cs with
  | [] => []
  | c :: r => match check_case c with
              | [] => mismatches_from (S n) r
              | d => (n, d) :: mismatches_from (S n) r
              end
  end.
Definition mismatches := mismatches_from 0.

(* ---- monitor: the property on an implementation trace, independent of the model ----
   walks the trace remembering: the last store snapshot (valid while no op that may change etcd
   intervened), the last member that answered IsLeader = true with nothing in between, and the
   members that were reset or whose lease was waited out since their last successful campaign *)
Local Open Scope string_scope.

Fixpoint mon (last_store : option obs) (last_true : option nat) (dead : list nat)
             (lease_of : list (nat * nat)) (nleases : nat)
             (ops : list op) (obs_l : list obs) : option string :=
  match ops, obs_l with
  | o :: r, b :: br =>
      match o, b with
      | ORead, BStore _ _ _ _ => mon (Some b) last_true dead lease_of nleases r br
      | OIsLeader m, BBool true =>
          if existsb (Nat.eqb m) dead then Some "C03:expired-or-resigned-still-leader"
          else match last_true with
               | Some m2 => if Nat.eqb m m2 then mon last_store (Some m) dead lease_of nleases r br
                            else Some "C03:two-leaders-at-once"
               | None => mon last_store (Some m) dead lease_of nleases r br
               end
      | OIsLeader _, _ => mon last_store last_true dead lease_of nleases r br
      | OWrite m _ _, res =>
          match last_store, r, br with
          | Some (BStore ld a0 a1 a2), ORead :: _, (BStore ld2 b0 b1 b2) :: _ =>
              if optnat_eqb ld (Some m) then mon None None dead lease_of nleases r br
              else if negb (obs_eqb res BRejected) then Some "C03:non-owner-write-acknowledged"
              else if negb (optZ_eqb a0 b0 && optZ_eqb a1 b1 && optZ_eqb a2 b2) then Some "C03:non-owner-write-changed-store"
              else mon None None dead lease_of nleases r br
          | _, _, _ => mon None None dead lease_of nleases r br
          end
      | OCampaign m _, BOk =>
          match last_store with
          | Some (BStore (Some _) _ _ _) => Some "C03:campaign-succeeded-over-existing-record"
          | _ => mon None None (filter (fun x => negb (Nat.eqb x m)) dead) ((nleases, m) :: lease_of) (S nleases) r br
          end
      | OCampaignEnd m _, BOk =>
          match last_store with
          | Some (BStore (Some _) _ _ _) => Some "C03:campaign-succeeded-over-existing-record"
          | _ => mon None None (filter (fun x => negb (Nat.eqb x m)) dead) lease_of nleases r br
          end
      | OCampaign m _, _ => mon None None dead ((nleases, m) :: lease_of) (S nleases) r br
      | OCampaignBegin m _, _ => mon None None dead ((nleases, m) :: lease_of) (S nleases) r br
      | OReset m, _ => mon None None (m :: dead) lease_of nleases r br
      | OCrash m, _ => mon None None (m :: dead) lease_of nleases r br
      | OExpire l, _ =>
          let latest m := match find (fun p => Nat.eqb (snd p) m) lease_of with Some (l2, _) => Nat.eqb l2 l | None => false end in
          let ms := filter latest (map snd (filter (fun p => Nat.eqb (fst p) l) lease_of)) in
          mon None None (ms ++ dead) lease_of nleases r br
      | _, _ => mon None None dead lease_of nleases r br
      end
  | _, _ => None
  end.

Definition monitor (c : list op * list obs) : option string := mon None None [] [] 0 (fst c) (snd c).

Fixpoint monitor_fails_from (n : nat) (cs : list (list op * list obs)) : list (nat * string) :=
  match cs with
  | [] => []
  | c :: r => match monitor c with
              | None => monitor_fails_from (S n) r
              | Some sg => (n, sg) :: monitor_fails_from (S n) r
              end
  end.
Definition monitor_fails := monitor_fails_from 0.
