(* C05 — datacenters joining later, allocator leaders moving between members, the PD leadership moving: the
   suffix / suffix-width layer of Local TSO (server/tso/allocator_manager.go ClusterDCLocationChecker,
   getOrCreateLocalTSOSuffix, compareAndSetMaxSuffix, GetSuffixBits, campaignAllocatorLeader, GetMaxLocalTSO;
   server/grpc_service.go GetDCLocationInfo).  Definitions only.

   Every member keeps its own am.mu.maxSuffix ("view"): the PD leader raises it when it assigns a suffix, a member
   that becomes allocator leader raises it to that dc's suffix, and every member refreshes it from etcd when its
   ClusterDCLocationChecker runs (once a minute, and on a few events).  A Local timestamp is differentiated with the
   width the serving member currently believes in.  The Global request is one atomic label here: its interleavings
   are the business of model/C05_TsoGlobal.v. *)
From Coq Require Import ZArith List Bool.
From PDV Require Import lib.Base gen.Gen_C05 model.C05_TsoGlobal.
Import ListNotations.
Local Open Scope Z_scope.

Record jrec := JRec {
  jwho : option nat;        (* None = Global allocator, Some dc = Local allocator of dc *)
  jmem : nat;               (* member that answered *)
  jP : Z; jraw : Z;         (* physical, raw logical of the (last) timestamp of the answer *)
  jcnt : Z;                 (* the answer stands for jcnt timestamps: raw logicals jraw - jcnt + 1 .. jraw *)
  jsfx : Z; jw : Z          (* suffix used, width used and reported (SuffixBits) *)
}.

Definition jlogical (r : jrec) : Z := differentiate (jraw r) (jw r) (jsfx r).
(* every (physical, logical) value the answer stands for, as the client derives them (client_batch_value) *)
Definition jvalues (r : jrec) : list (Z * Z) :=
  map (fun i => (jP r, differentiate (jraw r - Z.of_nat i) (jw r) (jsfx r))) (seq 0 (Z.to_nat (jcnt r))).

Record jstate := JState {
  jstore : sfx_store;            (* etcd: local-tso-suffix/<dc> *)
  jview : nat -> Z;              (* member -> am.mu.maxSuffix *)
  jhost : nat -> option nat;     (* dc -> member whose Local TSO Allocator leads it *)
  jpdl : nat;                    (* the PD leader (its Global allocator answers Global requests) *)
  jg : ts;                       (* Global allocator memory (raw) *)
  jl : nat -> ts;                (* Local allocator memories (raw) *)
  jlastg : ts;                   (* ghost: raw value of the last Global timestamp handed out *)
  jout : list jrec;              (* ghost: answers, newest first *)
  jreq : option (Z * list nat)   (* Global request in flight (it holds syncMu): its count and the dcs it synchronises *)
}.

Definition jinit (leader : nat) (g0 : ts) : jstate :=
  JState [] (fun _ => 0) (fun _ => None) leader g0 (fun _ => (0, 0)) g0 [] None.   (* nothing handed out above g0 *)

Inductive jlabel :=
| JCheckLeader (dc : nat)            (* the PD leader's checker meets dc: create-if-absent suffix, own view raised *)
| JCheckFollower (m : nat)           (* a member's checker: view := max(view, largest suffix in etcd) *)
| JStart (dc m : nat) (clockp : Z)   (* m wins the allocator leadership of dc (first leader, or a move) *)
| JStop (dc : nat)                   (* dc loses its allocator leader *)
| JLeaderMove (m : nat)              (* PD leadership moves to m: its checker runs at once (server.go campaignLeader) *)
| JLocal (dc : nat) (c : Z)
| JTick (dc : nat) (p : Z)
| JGTick (p : Z)
| JGlobal (c : Z)                    (* a whole Global request (= JGBegin; JGEnd) *)
| JGBegin (c : Z)                    (* the request takes syncMu and fixes the dc-locations it synchronises *)
| JGEnd.                             (* collect, write back, persist, answer; syncMu released *)

Definition width_of (s : jstate) (m : nat) : Z := cal_suffix_bits (jview s m).

Definition hosted (s : jstate) : list nat := filter (fun dc => match jhost s dc with Some _ => true | None => false end) (map fst (jstore s)).

(* GetMaxLocalTSO as repaired: every dc that has an allocator leader, and the Global allocator's own memory *)
Definition max_known (s : jstate) : ts := fold_left (fun a dc => ts_max a (jl s dc)) (hosted s) (jg s).

Definition all_hosted (s : jstate) : bool := forallb (fun dc => match jhost s dc with Some _ => true | None => false end) (map fst (jstore s)).

(* what a Global request does when it runs: above every memory of the dcs it synchronises and its own, written back *)
Definition max_over (s : jstate) (set : list nat) : ts := fold_left (fun a dc => ts_max a (jl s dc)) set (jg s).
Definition global_end (s : jstate) (c : Z) (set : list nat) : jstate :=
  let top := max_over s set in
  let x := (fst top, snd top + c) in
  JState (jstore s) (jview s) (jhost s) (jpdl s) x
         (fun dc => if existsb (Nat.eqb dc) set then write_ts (jl s dc) x else jl s dc) x
         (JRec None (jpdl s) (fst x) (snd x) c 0 (width_of s (jpdl s)) :: jout s) None.

(* `excl` = GetMaxLocalTSO (the read of a starting allocator) and the Global request exclude each other (syncMu), as in
   the repaired code; jstep_gen false is the code before that repair, kept for the theorem that says why it is needed *)
Definition jstep_gen (excl : bool) (s : jstate) (l : jlabel) : option jstate :=
  match l with
  | JCheckLeader dc =>
      let (st, v) := sfx_assign (jstore s) dc in
      Some (JState st (upd_f (jview s) (jpdl s) (Z.max (jview s (jpdl s)) v)) (jhost s) (jpdl s) (jg s) (jl s) (jlastg s) (jout s) (jreq s))
  | JCheckFollower m =>
      Some (JState (jstore s) (upd_f (jview s) m (Z.max (jview s m) (sfx_max (jstore s)))) (jhost s) (jpdl s) (jg s) (jl s) (jlastg s) (jout s) (jreq s))
  | JStart dc m clockp =>
      match sfx_lookup (jstore s) dc, jhost s dc, (if excl then jreq s else None) with
      | Some v, None, None =>
          (* Initialize: above this dc's own history (C02) and the clock; then WriteTSO(GetDCLocationInfo.MaxTs) *)
          let own := tick (jl s dc) clockp in
          let m0 := write_ts own (max_known s) in
          Some (JState (jstore s) (upd_f (jview s) m (Z.max (jview s m) v)) (upd_f (jhost s) dc (Some m)) (jpdl s) (jg s)
                       (upd_f (jl s) dc m0) (jlastg s) (jout s) (jreq s))
      | _, _, _ => None
      end
  | JStop dc =>
      Some (JState (jstore s) (jview s) (upd_f (jhost s) dc None) (jpdl s) (jg s) (jl s) (jlastg s) (jout s) (jreq s))
  | JLeaderMove m =>
      Some (JState (jstore s) (upd_f (jview s) m (Z.max (jview s m) (sfx_max (jstore s)))) (jhost s) m (jg s) (jl s) (jlastg s) (jout s) (jreq s))
  | JLocal dc c =>
      match jhost s dc, sfx_lookup (jstore s) dc with
      | Some m, Some v =>
          if 0 <? c then
            let x := (fst (jl s dc), snd (jl s dc) + c) in
            Some (JState (jstore s) (jview s) (jhost s) (jpdl s) (jg s) (upd_f (jl s) dc x) (jlastg s)
                         (JRec (Some dc) m (fst x) (snd x) c v (width_of s m) :: jout s) (jreq s))
          else None
      | _, _ => None
      end
  | JTick dc p =>
      Some (JState (jstore s) (jview s) (jhost s) (jpdl s) (jg s) (upd_f (jl s) dc (tick (jl s dc) p)) (jlastg s) (jout s) (jreq s))
  | JGTick p =>
      Some (JState (jstore s) (jview s) (jhost s) (jpdl s) (tick (jg s) p) (jl s) (jlastg s) (jout s) (jreq s))
  | JGlobal c =>
      (* refused unless every known dc has an allocator leader; the answer is above every memory, and every
         Local memory is raised to it (model/C05_TsoGlobal.v proves that of the protocol) *)
      match jreq s with
      | None => if all_hosted s && (0 <? c) then Some (global_end s c (hosted s)) else None
      | Some _ => None
      end
  | JGBegin c =>
      match jreq s with
      | None => if all_hosted s && (0 <? c)
                then Some (JState (jstore s) (jview s) (jhost s) (jpdl s) (jg s) (jl s) (jlastg s) (jout s) (Some (c, hosted s)))
                else None
      | Some _ => None
      end
  | JGEnd =>
      match jreq s with
      | Some (c, set) => Some (global_end s c set)
      | None => None
      end
  end.

Definition jstep := jstep_gen true.

Definition jreach leader g0 (ls : list jlabel) : jstate := exec jstep (jinit leader g0) ls.

(* nobody lags: every member that serves something (a Local allocator, or the Global one) knows every suffix in use *)
Definition no_lag (s : jstate) : Prop :=
  (forall dc m, jhost s dc = Some m -> sfx_max (jstore s) <= jview s m) /\ sfx_max (jstore s) <= jview s (jpdl s).

(* ---- the history of the cluster phase of the driver (harness/cmd/c05/cluster.go), dcs 1..5, members 0 (T), 1 (L), 2 ---- *)
Definition cluster_history : list jlabel :=
  [JCheckLeader 1; JCheckLeader 2; JCheckLeader 3;
   JStart 1 1 1000; JStart 2 1 1000; JStart 3 2 1000; JCheckFollower 1; JCheckFollower 2;
   JLeaderMove 0; JGlobal 1; JGTick 3601000; JGlobal 1;
   JCheckLeader 4; JCheckLeader 5; JStart 4 0 1002; JStart 5 0 1002;
   JLocal 4 1; JGlobal 1; JLocal 1 1; JLocal 1 24; JLocal 5 24].
