(* C06 — executable model of region heartbeat processing: RaftCluster.processRegionHeartbeat
   (server/cluster/cluster.go) over BasicCluster.PreCheckPutRegion / PutRegion (server/core/basic_cluster.go)
   and the region part of core.Storage (direct backend, or RegionStorage with its write-back batch).
   The cache is the RegionsInfo model of C07 (model/C07_Region.v).  Definitions only.

   A heartbeat thread is cut at the places where other threads can interleave:
     L1  PreCheckPutRegion under the read lock of the BasicCluster; flags computed from *that* origin
     L2  c.Lock(); if saveCache { PreCheckPutRegion again; PutRegion }; c.Unlock()        (one atomic section)
     L3  one storage operation at a time: DeleteRegion of every displaced region, then SaveRegion if saveKV
   (gen/Gen_C06.v: the skeleton of processRegionHeartbeat shows exactly these positions). *)
From Coq Require Import String.
From PDV Require Import lib.Base lib.C07_Key gen.Gen_C06 model.C07_BTreeSpec model.C07_Region.
Local Open Scope Z_scope.

(* ---------------------------------------------------------------------------------------- *)
(* BasicCluster.getRelevantRegions / PreCheckPutRegion                                        *)
Definition relevant (c : rinfo) (r : region) : option region * list region :=
  let origin := get_region c (r_id r) in
  let ov := match origin with
            | Some o => if negb (key_eqb (r_start o) (r_start r)) || negb (key_eqb (r_end o) (r_end r))
                        then get_overlaps (tree c) r else []
            | None => get_overlaps (tree c) r
            end in
  (origin, ov).

(* (origin returned to the caller, error?) *)
Definition precheck (c : rinfo) (r : region) : option region * bool :=
  let '(origin, ov) := relevant c r in
  if existsb (fun item => r_ver r <? r_ver item) ov then (None, true)
  else match origin with
       | None => (None, false)
       | Some o =>
           let term_behind := (0 <? r_term r) && (r_term r <? r_term o) in
           if term_behind || (r_ver r <? r_ver o) || (r_confver r <? r_confver o) then (Some o, true) else (Some o, false)
       end.

(* the flags of processRegionHeartbeat, from the origin seen by the FIRST precheck
   (down peers, flow statistics and replication status are not varied by the driver: equal) *)
Record flags := Flags { f_kv : bool; f_cache : bool; f_new : bool }.

Definition compute_flags (r : region) (origin : option region) : flags :=
  match origin with
  | None => Flags true true true
  | Some o =>
      let ver_up := r_ver o <? r_ver r in
      let conf_up := r_confver o <? r_confver r in
      let leader_changed := negb (r_leader r =? r_leader o) in
      let pending_changed := negb (sorted_peers_equal (r_pending r) (r_pending o)) in
      let peers_len := negb (Nat.eqb (length (r_peers r)) (length (r_peers o))) in
      let stats := negb (r_size r =? r_size o) || negb (r_stamp r =? r_stamp o) in
      let term_up := r_term o <? r_term r in         (* a higher reported term is remembered even if nothing else changed *)
      Flags (ver_up || conf_up || peers_len)
            (ver_up || conf_up || leader_changed || pending_changed || peers_len || stats || term_up)
            (leader_changed && (r_leader o =? 0))
  end.

(* ---------------------------------------------------------------------------------------- *)
(* storage: key raft/r/<id> -> region meta; RegionStorage adds the write-back batch            *)
Definition kvmap := list (Z * region).

Record storage := Storage {
  s_wb : bool;              (* use-region-storage: SaveRegion goes to the batch *)
  s_kv : kvmap;             (* etcd / leveldb contents *)
  s_batch : kvmap;          (* RegionStorage.batchRegions *)
  s_count : Z               (* RegionStorage.cacheSize: saves since the last flush *)
}.

Definition batch_size : Z := Gen_C06.defaultBatchSize.

Definition kv_put (m : kvmap) (r : region) : kvmap := regs_put m (r_id r) r.
Definition kv_del (m : kvmap) (id : Z) : kvmap := regs_del m id.

Definition flush (s : storage) : storage :=
  Storage (s_wb s) (fold_left (fun m kv => kv_put m (snd kv)) (s_batch s) (s_kv s)) [] 0.

Definition save_region (s : storage) (r : region) : storage :=
  if s_wb s then
    if s_count s <? batch_size - 1
    then Storage true (s_kv s) (kv_put (s_batch s) r) (s_count s + 1)
    else flush (Storage true (s_kv s) (kv_put (s_batch s) r) (s_count s))
  else Storage false (kv_put (s_kv s) r) (s_batch s) (s_count s).

(* DeleteRegion: kv.Base.Remove of the key.  On the region-storage backend that is the Remove method of RegionStorage:
   the pending entry of the write-back batch is dropped first (cacheSize is left alone), then leveldb. *)
Definition delete_region (s : storage) (r : region) : storage :=
  Storage (s_wb s) (kv_del (s_kv s) (r_id r))
          (if s_wb s then kv_del (s_batch s) (r_id r) else s_batch s) (s_count s).

Definition load_region (s : storage) (id : Z) : option region := regs_get (s_kv s) id.

(* ---------------------------------------------------------------------------------------- *)
(* threads                                                                                    *)
Inductive sop := SDel (r : region) | SSave (r : region).

Inductive pc :=
| PLock (r : region) (fl : flags)        (* passed L1, waiting for c.Lock() *)
| PStore (todo : list sop).              (* passed L2, storage operations left *)

Record hstate := HState {
  h_cache : rinfo;
  h_store : storage;
  h_threads : list (Z * pc)
}.

Definition h_init (wb : bool) : hstate := HState ri_empty (Storage wb [] [] 0) [].

Fixpoint th_get (l : list (Z * pc)) (t : Z) : option pc :=
  match l with [] => None | (k, v) :: r => if k =? t then Some v else th_get r t end.
Fixpoint th_del (l : list (Z * pc)) (t : Z) : list (Z * pc) :=
  match l with [] => [] | (k, v) :: r => if k =? t then r else (k, v) :: th_del r t end.
Definition th_set (l : list (Z * pc)) (t : Z) (p : pc) : list (Z * pc) := (t, p) :: th_del l t.

Inductive hres := HOk | HErr | HParked | HBad.

(* L1 *)
Definition begin (h : hstate) (t : Z) (r : region) : hstate * hres :=
  match th_get (h_threads h) t with
  | Some _ => (h, HBad)
  | None =>
      let '(origin, err) := precheck (h_cache h) r in
      if err then (h, HErr)
      else
        let fl := compute_flags r origin in
        if negb (f_kv fl) && negb (f_cache fl) && negb (f_new fl) then (h, HOk)
        else (HState (h_cache h) (h_store h) (th_set (h_threads h) t (PLock r fl)), HParked)
  end.

(* BasicCluster.PutRegion: a region that reports no term (term 0: TiKV before 3.0) takes the term of the cached region of
   its id, then RegionsInfo.SetRegion *)
Definition with_term (r : region) (t : Z) : region :=
  Region (r_id r) (r_start r) (r_end r) (r_peers r) (r_leader r) (r_pending r) (r_size r) (r_ver r) (r_confver r) t (r_stamp r).
Definition keep_term (c : rinfo) (r : region) : region :=
  if r_term r =? 0
  then match get_region c (r_id r) with Some o => with_term r (r_term o) | None => r end
  else r.
Definition put_region (c : rinfo) (r : region) : rinfo * list region := set_region c (keep_term c r).

Definition store_ops (ov : list region) (r : region) (fl : flags) : list sop :=
  map SDel ov ++ (if f_kv fl then [SSave r] else []).

Definition apply_sop (s : storage) (o : sop) : storage :=
  match o with SDel x => delete_region s x | SSave x => save_region s x end.

(* one label of thread t: L2 if it waits for the lock, else its next storage operation *)
Definition step (h : hstate) (t : Z) : hstate * hres :=
  match th_get (h_threads h) t with
  | None => (h, HBad)
  | Some (PLock r fl) =>
      if f_cache fl then
        let '(_, err) := precheck (h_cache h) r in
        if err then (HState (h_cache h) (h_store h) (th_del (h_threads h) t), HErr)
        else
          let '(c', ov) := put_region (h_cache h) r in
          match store_ops ov r fl with
          | [] => (HState c' (h_store h) (th_del (h_threads h) t), HOk)
          | todo => (HState c' (h_store h) (th_set (h_threads h) t (PStore todo)), HParked)
          end
      else
        match store_ops [] r fl with
        | [] => (HState (h_cache h) (h_store h) (th_del (h_threads h) t), HOk)
        | todo => (HState (h_cache h) (h_store h) (th_set (h_threads h) t (PStore todo)), HParked)
        end
  | Some (PStore []) => (HState (h_cache h) (h_store h) (th_del (h_threads h) t), HOk)
  | Some (PStore (o :: rest)) =>
      let s' := apply_sop (h_store h) o in
      match rest with
      | [] => (HState (h_cache h) s' (th_del (h_threads h) t), HOk)
      | _ => (HState (h_cache h) s' (th_set (h_threads h) t (PStore rest)), HParked)
      end
  end.

(* run thread t to completion (fuel = number of labels it can still have) *)
Fixpoint finish (fuel : nat) (h : hstate) (t : Z) : hstate * hres :=
  match fuel with
  | O => (h, HBad)
  | S n => let '(h', res) := step h t in
           match res with HParked => finish n h' t | _ => (h', res) end
  end.

Definition fuel_of (h : hstate) (t : Z) : nat :=
  match th_get (h_threads h) t with
  | Some (PLock _ _) => S (S (length (items (tree (h_cache h)))))
  | Some (PStore todo) => S (length todo)
  | None => 1
  end.

(* a complete, un-parked heartbeat on a fresh thread id *)
Definition heartbeat (h : hstate) (r : region) : hstate * hres :=
  let t := -1 in
  let '(h1, res) := begin h t r in
  match res with
  | HParked => finish (S (fuel_of h1 t)) h1 t
  | _ => (h1, res)
  end.

(* ---------------------------------------------------------------------------------------- *)
(* operations / observations                                                                  *)
Inductive hop :=
| OHb (r : region)               (* sequential heartbeat *)
| OBegin (t : Z) (r : region)    (* thread t runs L1 and parks at c.Lock() *)
| OStep (t : Z)                  (* thread t runs its next label *)
| ORun (t : Z)                   (* thread t runs all its remaining labels *)
| OFlush                         (* Storage.Flush() *)
| OSnap (ids : list Z)           (* the whole cache in key order + LoadRegion of these ids *)
| OSaveRaw (r : region)          (* Storage.SaveRegion called by the harness itself (ballast in the write-back batch) *)
| OReportSplit (rs : list region) (* HandleBatchReportSplit: the report of a split; it is logged and answered, the cache only learns from heartbeats *)
| OReload.                       (* PD restarts: a fresh cache filled by Storage.LoadRegions (regions without leader, term, statistics) *)

Record cdig := CDig { d_id : Z; d_start : key; d_end : key; d_ver : Z; d_conf : Z; d_term : Z; d_leader : Z; d_stamp : Z }.
Record sdig := SDig { sd_id : Z; sd_start : key; sd_end : key; sd_ver : Z; sd_conf : Z }.

Inductive hobs :=
| HoRes (r : hres)
| HoUnit
| HoSnap (cache : list cdig) (stor : list sdig).

Definition cdig_of (r : region) : cdig :=
  CDig (r_id r) (r_start r) (r_end r) (r_ver r) (r_confver r) (r_term r) (r_leader r) (r_stamp r).
Definition sdig_of (r : region) : sdig := SDig (r_id r) (r_start r) (r_end r) (r_ver r) (r_confver r).

Definition snapshot (h : hstate) (ids : list Z) : hobs :=
  HoSnap (map (fun o => match o with
                        | Some x => cdig_of x
                        | None => CDig 0 [] [] 0 0 0 0 (-1)      (* a nil element in ScanRegions' result *)
                        end) (scan (h_cache h) [] [] 0))
         (flat_map (fun id => match load_region (h_store h) id with Some x => [sdig_of x] | None => [] end) ids).

(* a restart: NewRegionInfo(meta, nil) for every record of the kv in key (= id) order, through CheckAndPutLoadedRegion into an
   empty cache; what that returns (the regions the loaded one displaced, or the loaded region itself when it is stale) is
   deleted from storage by the load *)
Definition loaded (r : region) : region :=
  Region (r_id r) (r_start r) (r_end r) (r_peers r) 0 [] 0 (r_ver r) (r_confver r) 0 0.
Fixpoint ins_by_id (x : Z * region) (l : kvmap) : kvmap :=
  match l with [] => [x] | y :: t => if fst x <? fst y then x :: y :: t else y :: ins_by_id x t end.
Definition sort_kv (l : kvmap) : kvmap := fold_right ins_by_id [] l.
Definition reload (s : storage) : rinfo * storage :=
  fold_left (fun (acc : rinfo * storage) (kv : Z * region) =>
               let '(c, st) := acc in
               let r := loaded (snd kv) in
               let '(_, err) := precheck c r in
               if err then (c, delete_region st r)
               else let '(c', ov) := put_region c r in (c', fold_left delete_region ov st))
            (sort_kv (s_kv s)) (ri_empty, s).

Definition h_step (h : hstate) (o : hop) : hstate * hobs :=
  match o with
  | OHb r => let '(h', res) := heartbeat h r in (h', HoRes res)
  | OBegin t r => let '(h', res) := begin h t r in (h', HoRes res)
  | OStep t => let '(h', res) := step h t in (h', HoRes res)
  | ORun t => let '(h', res) := finish (S (fuel_of h t)) h t in (h', HoRes res)
  | OFlush => (HState (h_cache h) (flush (h_store h)) (h_threads h), HoUnit)
  | OSnap ids => (h, snapshot h ids)
  | OSaveRaw r => (HState (h_cache h) (save_region (h_store h) r) (h_threads h), HoUnit)
  | OReportSplit _ => (h, HoUnit)
  | OReload => match h_threads h with
               | [] => let '(c, st) := reload (h_store h) in (HState c st [], HoUnit)
               | _ => (h, HoRes HBad)          (* the harness restarts only when no heartbeat is in flight *)
               end
  end.

Fixpoint h_run (h : hstate) (ops : list hop) : list hobs :=
  match ops with
  | [] => []
  | o :: r => let '(h', b) := h_step h o in b :: h_run h' r
  end.
Fixpoint h_state (h : hstate) (ops : list hop) : hstate :=
  match ops with [] => h | o :: r => h_state (fst (h_step h o)) r end.

Definition hres_eqb (a b : hres) : bool :=
  match a, b with HOk, HOk | HErr, HErr | HParked, HParked | HBad, HBad => true | _, _ => false end.
Definition cdig_eqb (a b : cdig) : bool :=
  (d_id a =? d_id b) && key_eqb (d_start a) (d_start b) && key_eqb (d_end a) (d_end b) && (d_ver a =? d_ver b)
  && (d_conf a =? d_conf b) && (d_term a =? d_term b) && (d_leader a =? d_leader b) && (d_stamp a =? d_stamp b).
Definition sdig_eqb (a b : sdig) : bool :=
  (sd_id a =? sd_id b) && key_eqb (sd_start a) (sd_start b) && key_eqb (sd_end a) (sd_end b)
  && (sd_ver a =? sd_ver b) && (sd_conf a =? sd_conf b).
Definition hobs_eqb (a b : hobs) : bool :=
  match a, b with
  | HoRes x, HoRes y => hres_eqb x y
  | HoUnit, HoUnit => true
  | HoSnap c s, HoSnap c' s' => list_eqb cdig_eqb c c' && list_eqb sdig_eqb s s'
  | _, _ => false
  end.

(* ---------------------------------------------------------------------------------------- *)
(* Monitor: the property evaluated on an implementation trace.  The driver takes a snapshot after
   every operation, so consecutive snapshots bracket exactly one label.                        *)
Local Open Scope string_scope.
Local Open Scope Z_scope.

(* no two served regions overlap: the key-ordered scan is a chain *)
Fixpoint chain_ok (l : list cdig) : bool :=
  match l with
  | a :: ((b :: _) as rest) => negb (is_nil (d_end a)) && key_leb (d_end a) (d_start b) && chain_ok rest
  | _ => true
  end.
Definition ranges_ok (l : list cdig) : bool :=
  forallb (fun a => is_nil (d_end a) || key_ltb (d_start a) (d_end a)) l.

Definition find_dig (l : list cdig) (id : Z) : option cdig := List.find (fun d => d_id d =? id) l.

(* version / conf_ver / term of every id served before and after one label do not decrease (a heartbeat without
   term keeps the served term) *)
Definition epoch_step_ok (before after : list cdig) : option string :=
  match List.find (fun a => match find_dig before (d_id a) with
                            | Some b => (d_ver a <? d_ver b) || (d_conf a <? d_conf b)
                            | None => false end) after with
  | Some _ => Some "C06:version-or-conf-ver-regressed"
  | None =>
    match List.find (fun a => match find_dig before (d_id a) with
                              | Some b => d_term a <? d_term b
                              | None => false end) after with
    | Some _ => Some "C06:reported-term-regressed"
    | None => None
    end
  end.

(* the statement's notion of a stale heartbeat, as a linear scan over the served regions *)
Definition dig_overlaps (d : cdig) (r : region) : bool :=
  (is_nil (d_end d) || key_ltb (r_start r) (d_end d)) && (is_nil (r_end r) || key_ltb (d_start d) (r_end r)).
Definition stale_wrt (cache : list cdig) (r : region) : bool :=
  existsb (fun d => if d_id d =? r_id r
                    then ((0 <? r_term r) && (r_term r <? d_term d)) || (r_ver r <? d_ver d) || (r_confver r <? d_conf d)
                    else dig_overlaps d r && (r_ver r <? d_ver d)) cache.

Definition snap_eqb (c1 : list cdig) (s1 : list sdig) (c2 : list cdig) (s2 : list sdig) : bool :=
  list_eqb cdig_eqb c1 c2 && list_eqb sdig_eqb s1 s2.

(* ids that were served before the label and are not served after it *)
Definition displaced_ids (before after : list cdig) : list Z :=
  flat_map (fun b => match find_dig after (d_id b) with Some _ => [] | None => [d_id b] end) before.

Record mon := Mon {
  m_cache : list cdig; m_stor : list sdig;            (* last snapshot *)
  m_pending : list (Z * region);                      (* threads between L1 and L2 *)
  m_sequential : bool;                                (* no thread was ever parked so far *)
  m_gone : list Z;                                    (* ids displaced so far (sequential prefix) and not served again *)
  m_maxterm : list (Z * Z);                           (* per id: largest term reported since it is continuously served *)
  m_last : option (hop * hobs);                       (* the label the next snapshot closes *)
  m_accepted : list sdig;                             (* storage image of every heartbeat that was not rejected so far *)
  m_ever : list (Z * (Z * Z))                         (* per id: largest version and term it was ever served with (kept across displacement) *)
}.

Fixpoint zz_get (l : list (Z * Z)) (k : Z) : Z :=
  match l with [] => 0 | (a, b) :: r => if a =? k then b else zz_get r k end.

Fixpoint regs_get2 {X} (l : list (Z * X)) (k : Z) : option X :=
  match l with [] => None | (a, b) :: r => if a =? k then Some b else regs_get2 r k end.
Fixpoint regs_put2 {X} (l : list (Z * X)) (k : Z) (v : X) : list (Z * X) :=
  match l with [] => [(k, v)] | (a, b) :: r => if a =? k then (a, v) :: r else (a, b) :: regs_put2 r k v end.

Definition remove_all (ids : list Z) (l : list Z) : list Z := filter (fun x => negb (existsb (Z.eqb x) ids)) l.

(* judge the label (o, b) between snapshot (c0, s0) and snapshot (c1, s1) *)
Definition judge (wb : bool) (m : mon) (o : hop) (b : hobs) (c1 : list cdig) (s1 : list sdig) : option string :=
  let c0 := m_cache m in let s0 := m_stor m in
  if negb (chain_ok c1 && ranges_ok c1) then Some "C06:overlapping-regions-served"
  else match (match o with OReload => None | _ => epoch_step_ok c0 c1 end) with
  | Some sg => Some sg
  | None =>
    let region_of := match o with
                     | OHb r | OBegin _ r => Some r
                     | OStep t | ORun t => regs_get (m_pending m) t
                     | _ => None end in
    let at_check := match o with
                    | OHb _ | OBegin _ _ => true
                    | OStep t | ORun t => match regs_get (m_pending m) t with Some _ => true | None => false end
                    | _ => false end in
    match b, region_of with
    | HoRes HErr, _ =>
        if snap_eqb c0 s0 c1 s1 then None else Some "C06:rejected-heartbeat-changed-cache-or-storage"
    | HoRes _, Some r =>
        (* a heartbeat that is stale w.r.t. the regions served at its check must have been rejected;
           for OStep/ORun of a thread waiting at the lock the second check is the one that counts *)
        if at_check && stale_wrt c0 r then Some "C06:stale-heartbeat-accepted" else None
    | _, _ => None
    end
  end.

Definition mon_step (wb : bool) (m : mon) (o : hop) (b : hobs) : mon * option string :=
  match o, b with
  | OSnap _, HoSnap c1 s1 =>
      match m_last m with
      | None => (Mon c1 s1 (m_pending m) (m_sequential m) (m_gone m) (map (fun a => (d_id a, d_term a)) c1) None (m_accepted m) (m_ever m), None)
      | Some (o0, b0) =>
          let verdict := judge wb m o0 b0 c1 s1 in
          let pend := match o0, b0 with
                      | OBegin t r, HoRes HParked => (t, r) :: m_pending m
                      | OStep t, _ | ORun t, _ => regs_del (m_pending m) t
                      | _, _ => m_pending m end in
          let seq := m_sequential m && match o0 with OBegin _ _ | OStep _ | ORun _ => false | _ => true end in
          let gone := remove_all (map d_id c1) (displaced_ids (m_cache m) c1 ++ m_gone m) in
          (* storage clause: sequential histories only; with the write-back backend judged right after a flush *)
          let judge_storage := seq && (negb wb || match o0 with OFlush => true | _ => false end) in
          let bad_storage := judge_storage && existsb (fun s => existsb (Z.eqb (sd_id s)) gone) s1 in
          let restart := match o0 with OReload => true | _ => false end in   (* the raft terms are not persisted *)
          let term_back := negb restart && existsb (fun a => d_term a <? zz_get (m_maxterm m) (d_id a)) c1 in
          let maxterm := if restart then map (fun a => (d_id a, d_term a)) c1
                         else map (fun a => (d_id a, Z.max (d_term a) (zz_get (m_maxterm m) (d_id a)))) c1 in
          (* storage never holds the record of a heartbeat that was rejected, or not (yet) accepted: the storage writes of a
             heartbeat come after its locked section *)
          let ok_res := match b0 with HoRes HErr | HoRes HBad => false | _ => true end in
          let accepted := match o0 with
                          | OHb r | OSaveRaw r => if ok_res then sdig_of r :: m_accepted m else m_accepted m
                          | OBegin _ r => match b0 with HoRes HOk => sdig_of r :: m_accepted m | _ => m_accepted m end
                          | OStep t | ORun t => match regs_get (m_pending m) t with
                                                | Some r => if ok_res then sdig_of r :: m_accepted m else m_accepted m
                                                | None => m_accepted m end
                          | _ => m_accepted m end in
          let unaccepted := existsb (fun s => negb (existsb (sdig_eqb s) accepted)) s1 in
          (* an acknowledged reported term is remembered *)
          let acked := match o0 with
                       | OHb r | OBegin _ r => match b0 with HoRes HOk => Some r | _ => None end
                       | OStep t | ORun t => if ok_res then regs_get (m_pending m) t else None
                       | _ => None end in
          let forgotten := match acked with
                           | Some r => (0 <? r_term r) && negb (existsb (fun a => (d_id a =? r_id r) && (r_term r <=? d_term a)) c1)
                           | None => false end in
          (* a restart never serves keys at an older version than the old process served them: a stale record left in storage
             (a save that was overtaken, a delete that failed) is pruned by the load, not served *)
          let cdig_overlaps (a b : cdig) := (is_nil (d_end a) || key_ltb (d_start b) (d_end a)) && (is_nil (d_end b) || key_ltb (d_start a) (d_end b)) in
          let restart_older := restart && existsb (fun a => existsb (fun b => cdig_overlaps a b && (d_ver a <? d_ver b)) (m_cache m)) c1 in
          let verdict := match verdict with
                         | Some sg => Some sg
                         | None => if restart_older then Some "C06:restart-serves-keys-at-an-older-version-than-before" else
                                   if forgotten then Some "C06:acknowledged-term-not-remembered" else
                                   if unaccepted then Some "C06:storage-holds-a-record-of-a-heartbeat-that-was-not-accepted" else
                                   if term_back then Some "C06:reported-term-below-an-earlier-reported-term"
                                   else if bad_storage
                                   then Some (if wb then "C06:displaced-region-back-in-storage-after-region-storage-flush"
                                              else "C06:displaced-region-still-in-storage")
                                   else None end in
          (Mon c1 s1 pend seq gone maxterm None accepted (m_ever m), verdict)
      end
  | _, _ =>
      (* several labels may run between two snapshots: a heartbeat handled in one piece is recorded at once *)
      let accepted := match o, b with
                      | OHb r, HoRes HOk | OSaveRaw r, _ | OBegin _ r, HoRes HOk => sdig_of r :: m_accepted m
                      | _, _ => m_accepted m end in
      (Mon (m_cache m) (m_stor m) (m_pending m) (m_sequential m) (m_gone m) (m_maxterm m) (Some (o, b)) accepted (m_ever m), None)
  end.

Fixpoint mon_run (wb : bool) (m : mon) (ops : list hop) (obs : list hobs) : option string :=
  match ops, obs with
  | o :: ro, b :: rb =>
      let '(m', v) := mon_step wb m o b in
      match v with Some sg => Some sg | None => mon_run wb m' ro rb end
  | _, _ => None
  end.

(* the domain of the property: heartbeats of regions with a valid key range and a well-formed peer list *)
Definition hop_wf (o : hop) : bool :=
  match o with OHb r | OBegin _ r => wf_region r | _ => true end.

Definition h_monitor (wb : bool) (ops : list hop) (obs : list hobs) : option string :=
  if forallb hop_wf ops then mon_run wb (Mon [] [] [] true [] [] None [] []) ops obs else None.

(* A second, independent monitor (known finding, see KNOWN_FINDINGS.txt): version / term an id was EVER served with, also
   across a displacement from the cache.  It is kept apart so that its verdict never hides a verdict of h_monitor. *)
Definition ever_older (ever : list (Z * (Z * Z))) (c1 : list cdig) : bool :=
  existsb (fun a => match regs_get2 ever (d_id a) with
                    | Some (v, t) => (d_ver a <? v) || (d_term a <? t)
                    | None => false end) c1.
Definition ever_upd (ever : list (Z * (Z * Z))) (c1 : list cdig) : list (Z * (Z * Z)) :=
  fold_left (fun acc a => match regs_get2 acc (d_id a) with
                          | Some (v, t) => regs_put2 acc (d_id a) (Z.max v (d_ver a), Z.max t (d_term a))
                          | None => (d_id a, (d_ver a, d_term a)) :: acc end) c1 ever.
Fixpoint gap_run (ever : list (Z * (Z * Z))) (ops : list hop) (obs : list hobs) : bool :=
  match ops, obs with
  | OReload :: ro, _ :: r => gap_run [] ro r       (* a restart: what the old process served is not remembered by design *)
  | _ :: ro, HoSnap c1 _ :: r => if ever_older ever c1 then true else gap_run (ever_upd ever c1) ro r
  | _ :: ro, _ :: r => gap_run ever ro r
  | _, _ => false
  end.
Definition h_gap_monitor (ops : list hop) (obs : list hobs) : option string :=
  if forallb hop_wf ops && gap_run [] ops obs
  then Some "C06:region-served-again-older-than-it-was-served-before-its-displacement" else None.

(* ---------------------------------------------------------------------------------------- *)
Inductive hcase := CaseHB (wb : bool) (ops : list hop) (obs : list hobs).

Definition check_case (c : hcase) :=
  match c with CaseHB wb ops obs => diff_at hobs_eqb 0 (h_run (h_init wb) ops) obs end.

Fixpoint mismatches_from (n : nat) (cs : list hcase) :=
  match cs with
  | [] => []
  | c :: r => match check_case c with
              | [] => mismatches_from (S n) r
              | d => (n, d) :: mismatches_from (S n) r
              end
  end.
Definition mismatches := mismatches_from 0.

Definition monitor (c : hcase) : option string :=
  match c with CaseHB wb ops obs => h_monitor wb ops obs end.

Fixpoint monitor_fails_from (n : nat) (cs : list hcase) : list (nat * string) :=
  match cs with
  | [] => []
  | c :: r => (match monitor c with None => [] | Some sg => [(n, sg)] end)
              ++ (match c with CaseHB _ ops obs => match h_gap_monitor ops obs with None => [] | Some sg => [(n, sg)] end end)
              ++ monitor_fails_from (S n) r
  end.
Definition monitor_fails := monitor_fails_from 0.
