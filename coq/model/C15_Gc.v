(* C15 — executable model of the GC safe point handlers
     server/grpc_service.go : GetGCSafePoint, UpdateGCSafePoint, UpdateServiceGCSafePoint
     server/core/storage.go : Save/LoadGCSafePoint, Save/RemoveServiceGCSafePoint, LoadMinServiceGCSafePoint
     server/api/service_gc_safepoint.go : Delete
   Definitions only; proofs live in proof/C15_GcProof.v.

   UpdateGCSafePoint is two labels per request thread, exactly its two storage operations
   (LoadGCSafePoint ; compare ; save): whether anything excludes two requests of one member from
   interleaving there is read off the regenerated skeleton (gc_locked below), and whether the save is
   a compare-and-swap on the value that was loaded is read off its comparison list (gc_cas): with
   it, request threads of different members (a deposed leader whose write arrives late) are ordinary
   threads of the model.
   UpdateServiceGCSafePoint is one label: the skeleton shows it runs under serviceSafePointLock
   from entry to return.

   Service ids are byte strings in the code and the storage key is path.Join(gc, safe_point,
   service, id), which *cleans* the path.  The model keeps the two things the code derives from an
   id apart: its text (what is compared with "gc_worker" / "" and what is stored in the JSON
   value) and the storage key it lands on.  An id whose key is not "its own" (".." lands on the
   cluster safe point key gc/safe_point, "x/../gc_worker" lands on gc_worker's key) is an ordinary
   input of the model; since the fix "reject service ids that are not a single path element" such an
   id is refused by Save/RemoveServiceGCSafePoint (id_ok). *)
From Coq Require Import String.
From PDV Require Import lib.Base lib.Skel gen.Gen_C15.
Local Open Scope Z_scope.

Definition maxU64 : Z := 18446744073709551615.   (* math.MaxUint64 *)
Definition maxI64 : Z := 9223372036854775807.    (* math.MaxInt64 *)

(* ---------- storage ---------- *)
Inductive stext := TGcw | TEmpty | TName (z : Z).     (* "gc_worker", "", any other text *)
Inductive skey := KGc | KSvc (n : Z) | KOther.        (* gc/safe_point ; gc/safe_point/service/<n> ; anything else *)
(* a service id as the code sees it: text and the key path.Join sends it to.
   "gc_worker" always lands on KSvc 0, "" on gc/safe_point/service (outside the scanned prefix). *)
Inductive sid := IGcw | IEmpty | IName (text : Z) (key : skey).

Definition text_of (i : sid) : stext := match i with IGcw => TGcw | IEmpty => TEmpty | IName z _ => TName z end.
Definition key_of (i : sid) : skey := match i with IGcw => KSvc 0 | IEmpty => KOther | IName _ k => k end.

Record entry := Entry { e_text : stext; e_exp : Z; e_sp : Z }.   (* core.ServiceSafePoint *)
Inductive gcv := GAbsent | GVal (z : Z) | GBad.                  (* value under gc/safe_point: none, hex number, unparsable *)

Record store := Store { gc : gcv; svcs : list (Z * entry) }.     (* svcs in key order, as LoadRange returns them *)

Definition text_eqb (a b : stext) : bool :=
  match a, b with TGcw, TGcw | TEmpty, TEmpty => true | TName x, TName y => x =? y | _, _ => false end.
Definition is_gcw (t : stext) : bool := match t with TGcw => true | _ => false end.

Fixpoint sv_get (k : Z) (l : list (Z * entry)) : option entry :=
  match l with [] => None | (k', e) :: r => if k =? k' then Some e else sv_get k r end.
Fixpoint sv_put (k : Z) (e : entry) (l : list (Z * entry)) : list (Z * entry) :=
  match l with
  | [] => [(k, e)]
  | (k', e') :: r => if k <? k' then (k, e) :: l else if k =? k' then (k, e) :: r else (k', e') :: sv_put k e r
  end.
Fixpoint sv_del (k : Z) (l : list (Z * entry)) : list (Z * entry) :=
  match l with [] => [] | (k', e') :: r => if k =? k' then sv_del k r else (k', e') :: sv_del k r end.

(* kv.Base Save / Remove of a service-safe-point value under key k *)
Definition st_save (k : skey) (e : entry) (st : store) : store :=
  match k with
  | KGc => Store GBad (svcs st)                    (* a JSON object where a hex number is expected *)
  | KSvc n => Store (gc st) (sv_put n e (svcs st))
  | KOther => st
  end.
Definition st_remove (k : skey) (st : store) : store :=
  match k with
  | KGc => Store GAbsent (svcs st)
  | KSvc n => Store (gc st) (sv_del n (svcs st))
  | KOther => st
  end.

(* checkServiceID (storage.go): the id must be a single path element (no '/', not "." or ".."). For such an
   id path.Join keeps it as the last element, so the id is stored under its own key; every other id is
   refused by Save/RemoveServiceGCSafePoint. In the model: the ids that pass are exactly the clean ones. *)
Definition is_clean (i : sid) : bool :=
  match i with IGcw | IEmpty => true | IName z (KSvc n) => (z =? n) && negb (z =? 0) | IName _ _ => false end.
Definition id_ok (i : sid) : bool := is_clean i.

(* Storage.SaveServiceGCSafePoint of a request with id i: None = error *)
Definition save_service (i : sid) (e : entry) (st : store) : option store :=
  match e_text e with
  | TEmpty => None
  | TGcw => if negb (id_ok i) then None else if e_exp e =? maxI64 then Some (st_save (key_of i) e st) else None
  | TName _ => if negb (id_ok i) then None else Some (st_save (key_of i) e st)
  end.
(* Storage.RemoveServiceGCSafePoint *)
Definition remove_service (i : sid) (st : store) : option store :=
  match text_of i with
  | TGcw => None
  | _ => if id_ok i then Some (st_remove (key_of i) st) else None
  end.

(* Storage.LoadGCSafePoint: None = error *)
Definition gc_read (g : gcv) : option Z := match g with GAbsent => Some 0 | GVal z => Some z | GBad => None end.

(* ---------- LoadMinServiceGCSafePoint ---------- *)
Definition init_gcw (v : Z) (st : store) : store * entry :=
  let e := Entry TGcw maxI64 v in (st_save (KSvc 0) e st, e).

Definition min_sp (m : option entry) : Z := match m with Some e => e_sp e | None => maxU64 end.

(* the loop over the snapshot (keys, values); st is the store being modified on the way *)
Fixpoint scan (now : Z) (es : list (Z * entry)) (st : store) (has : bool) (mn : option entry)
  : store * bool * option entry :=
  match es with
  | [] => (st, has, mn)
  | (k, e) :: r =>
      let fix_it := is_gcw (e_text e) && negb (e_exp e =? maxI64) in
      let e1 := if fix_it then Entry (e_text e) maxI64 (e_sp e) else e in
      let st1 := if fix_it then st_save (KSvc 0) e1 st else st in
      let has1 := has || is_gcw (e_text e) in
      if e_exp e1 <? now then scan now r (st_remove (KSvc k) st1) has1 mn
      else scan now r st1 has1 (if e_sp e1 <? min_sp mn then Some e1 else mn)
  end.

Definition load_min (now : Z) (st : store) : store * entry :=
  match svcs st with
  | [] => init_gcw 0 st
  | es =>
      let '(st1, has, mn) := scan now es st false None in
      match mn with
      | None => init_gcw 0 st1                        (* min.SafePoint == math.MaxUint64 *)
      | Some m => if has then (st1, m) else init_gcw (e_sp m) st1
      end
  end.

(* ---------- UpdateServiceGCSafePoint (one locked block) ---------- *)
Record resp := Resp { r_text : stext; r_ttl : Z; r_sp : Z }.
Definition resp_of (m : entry) (now : Z) : resp := Resp (e_text m) (e_exp m - now) (e_sp m).

Definition svc_update (st : store) (i : sid) (ttl sp now : Z) : store * option resp :=
  match (if ttl <=? 0 then remove_service i st else Some st) with
  | None => (st, None)
  | Some st0 =>
      let '(st1, mn) := load_min now st0 in
      if (0 <? ttl) && (e_sp mn <=? sp) then
        let exp := if maxI64 - now <=? ttl then maxI64 else now + ttl in
        match save_service i (Entry (text_of i) exp sp) st1 with
        | None => (st1, None)
        | Some st2 =>
            if text_eqb (text_of i) (e_text mn)
            then let '(st3, mn') := load_min now st2 in (st3, Some (resp_of mn' now))
            else (st2, Some (resp_of mn now))
        end
      else (st1, Some (resp_of mn now))
  end.

(* ---------- UpdateServiceGCSafePoint with what can slip into its locked section ----------
   The REST delete (server/api/service_gc_safepoint.go) calls RemoveServiceGCSafePoint without the server lock, so it
   can run between LoadMinServiceGCSafePoint and the request's own SaveServiceGCSafePoint; and that save can fail
   (ErrNotApplied) or be applied although the handler sees an error (ErrApplied).  d1 = the keys of the (clean,
   non-gc_worker) services deleted in that window, o = the storage outcome of the request's save. *)
Inductive outcome := Ok | ErrNotApplied | ErrApplied.

Fixpoint rest_dels (ks : list Z) (st : store) : store :=
  match ks with
  | [] => st
  | k :: r => rest_dels r (if k =? 0 then st else st_remove (KSvc k) st)     (* gc_worker's entry is refused *)
  end.

Definition svc_update_il (st : store) (i : sid) (ttl sp now : Z) (d1 : list Z) (o : outcome) : store * option resp :=
  match (if ttl <=? 0 then remove_service i st else Some st) with
  | None => (st, None)
  | Some st0 =>
      let '(st1, mn) := load_min now st0 in
      if (0 <? ttl) && (e_sp mn <=? sp) then
        let exp := if maxI64 - now <=? ttl then maxI64 else now + ttl in
        let E := Entry (text_of i) exp sp in
        match save_service i E st1 with
        | None => (st1, None)                                  (* refused before any storage operation *)
        | Some _ =>
            let st1' := rest_dels d1 st1 in
            match o with
            | ErrNotApplied => (st1', None)
            | ErrApplied => (st_save (key_of i) E st1', None)
            | Ok =>
                let st2 := st_save (key_of i) E st1' in
                if text_eqb (text_of i) (e_text mn)
                then let '(st3, mn') := load_min now st2 in (st3, Some (resp_of mn' now))
                else (st2, Some (resp_of mn now))
            end
        end
      else (st1, Some (resp_of mn now))
  end.

(* ---------- LoadMinServiceGCSafePoint at the granularity of its single storage operations ----------
   What can happen between and to the storage operations of one LoadMin call: the LoadRange can fail; before the loop
   looks at the entry under key k, REST deletes (no server lock) can have removed other services (pre_dels); the repair
   save of a finite gc_worker entry can fail (then LoadMin returns the error) or be applied although it reports an error;
   the Remove of an expired entry can fail - its error is ignored by the code, the loop goes on; the final (re)creation of
   gc_worker's entry can fail.  None = LoadMin returned an error. *)
Record lm_step := LmStep { pre_dels : list Z; rep_o : outcome; rem_o : outcome }.
Record lm_env := LmEnv { lr_o : outcome; at_key : Z -> lm_step; init_o : outcome }.
Definition quiet_step : lm_step := LmStep [] Ok Ok.
Definition quiet_env : lm_env := LmEnv Ok (fun _ => quiet_step) Ok.

Definition init_gcw_x (o : outcome) (v : Z) (st : store) : store * option entry :=
  match o with
  | Ok => (fst (init_gcw v st), Some (snd (init_gcw v st)))
  | ErrNotApplied => (st, None)
  | ErrApplied => (fst (init_gcw v st), None)
  end.

Fixpoint scan_x (env : Z -> lm_step) (now : Z) (es : list (Z * entry)) (st : store) (has : bool) (mn : option entry)
  : store * option (bool * option entry) :=
  match es with
  | [] => (st, Some (has, mn))
  | (k, e) :: r =>
      let x := env k in
      let st0 := rest_dels (pre_dels x) st in
      let fix_it := is_gcw (e_text e) && negb (e_exp e =? maxI64) in
      let e1 := if fix_it then Entry (e_text e) maxI64 (e_sp e) else e in
      let has1 := has || is_gcw (e_text e) in
      let go st1 :=
        if e_exp e1 <? now
        then scan_x env now r (match rem_o x with ErrNotApplied => st1 | _ => st_remove (KSvc k) st1 end) has1 mn
        else scan_x env now r st1 has1 (if e_sp e1 <? min_sp mn then Some e1 else mn) in
      if fix_it then
        match rep_o x with
        | Ok => go (st_save (KSvc 0) e1 st0)
        | ErrNotApplied => (st0, None)
        | ErrApplied => (st_save (KSvc 0) e1 st0, None)
        end
      else go st0
  end.

Definition load_min_x (x : lm_env) (now : Z) (st : store) : store * option entry :=
  match lr_o x with
  | Ok =>
      match svcs st with
      | [] => init_gcw_x (init_o x) 0 st
      | es =>
          match scan_x (at_key x) now es st false None with
          | (st1, None) => (st1, None)
          | (st1, Some (has, mn)) =>
              match mn with
              | None => init_gcw_x (init_o x) 0 st1
              | Some m => if has then (st1, Some m) else init_gcw_x (init_o x) (e_sp m) st1
              end
          end
      end
  | _ => (st, None)
  end.

(* UpdateServiceGCSafePoint with all of it: x = what happens to the first LoadMin, d1/o as in svc_update_il *)
Definition svc_update_x (st : store) (i : sid) (ttl sp now : Z) (x : lm_env) (d1 : list Z) (o : outcome) : store * option resp :=
  match (if ttl <=? 0 then remove_service i st else Some st) with
  | None => (st, None)
  | Some st0 =>
      match load_min_x x now st0 with
      | (st1, None) => (st1, None)
      | (st1, Some mn) =>
          if (0 <? ttl) && (e_sp mn <=? sp) then
            let exp := if maxI64 - now <=? ttl then maxI64 else now + ttl in
            let E := Entry (text_of i) exp sp in
            match save_service i E st1 with
            | None => (st1, None)
            | Some _ =>
                let st1' := rest_dels d1 st1 in
                match o with
                | ErrNotApplied => (st1', None)
                | ErrApplied => (st_save (key_of i) E st1', None)
                | Ok =>
                    let st2 := st_save (key_of i) E st1' in
                    if text_eqb (text_of i) (e_text mn)
                    then let '(st3, mn') := load_min now st2 in (st3, Some (resp_of mn' now))
                    else (st2, Some (resp_of mn now))
                end
            end
          else (st1, Some (resp_of mn now))
      end
  end.

(* ---------- is UpdateGCSafePoint's load..save section mutually exclusive? read off the skeleton ---------- *)
Fixpoint locked_before (f : string) (held : bool) (l : list ev) : bool :=
  match l with
  | [] => false
  | Lock _ :: r => locked_before f true r
  | Unlock _ :: r => locked_before f false r
  | Call g :: r => if String.eqb g f then held else locked_before f held r
  | _ :: r => locked_before f held r
  end.
Fixpoint has_defer_unlock (l : list ev) : bool :=
  match l with [] => false | DeferUnlock _ :: _ => true | _ :: r => has_defer_unlock r end.
Definition gc_locked : bool :=
  locked_before "LoadGCSafePoint" false skel_UpdateGCSafePoint && has_defer_unlock skel_UpdateGCSafePoint.

(* is the write of the cluster safe point a compare-and-swap on the value the request was compared with?  read off the
   comparison list of saveGCSafePointAsLeader: CreateRevision(key) = 0 for "nothing stored", Value(key) = <old> otherwise
   (Leadership.LeaderTxn adds the comparison of the leader key, which the model does not need) *)
Definition gc_cas : bool :=
  existsb (String.prefix "clientv3.CreateRevision(") gc_save_cmps && existsb (String.prefix "clientv3.Value(") gc_save_cmps.

(* the comparison of that transaction against what is stored: old = 0 means the request saw no stored value *)
Definition cas_ok (g : gcv) (old : Z) : bool :=
  match g with
  | GAbsent => old =? 0
  | GVal z => negb (old =? 0) && (z =? old)
  | GBad => false
  end.

(* ---------- the interleaving model ---------- *)

Record thread := Thread { t_new : Z; t_old : Z; t_before : list Z }.

Record state := State {
  sto   : store;
  thr   : nat -> option thread;      (* requests between their Load and their Save *)
  npend : nat;                       (* how many of them *)
  acks  : list Z;                    (* ghost: every cluster safe point acknowledged so far, newest first *)
  resps : list (Z * list Z)          (* ghost: (response, the values acknowledged before that request began) *)
}.

Definition init : state := State (Store GAbsent []) (fun _ => None) 0 [] [].

Inductive label :=
| LLoad (t : nat) (v : Z)              (* UpdateGCSafePoint(v): validate, LoadGCSafePoint *)
| LSave (t : nat) (o : outcome)        (* compare; SaveGCSafePoint if greater (with storage outcome o); respond *)
| LGet                                 (* GetGCSafePoint *)
| LSvc (i : sid) (ttl sp now : Z)      (* UpdateServiceGCSafePoint *)
| LApiDel (i : sid)                    (* DELETE /gc/safepoint/{id} : RemoveServiceGCSafePoint, no lock *)
| LSeed (i : sid) (exp sp : Z).        (* a raw entry found below the service prefix (written by another leader / an older version) *)

Definition set_sto (s : state) (st : store) : state := State st (thr s) (npend s) (acks s) (resps s).

(* the model with the locking discipline given as a parameter *)
Definition step_gen (locked cas : bool) (s : state) (l : label) : option state :=
  match l with
  | LLoad t v =>
      match thr s t with
      | Some _ => None
      | None =>
          if locked && negb (Nat.eqb (npend s) 0) then None      (* blocked on the mutex *)
          else
            match gc_read (gc (sto s)) with
            | None => Some s                                      (* error response, nothing pending *)
            | Some old =>
                Some (State (sto s) (fun j => if Nat.eqb j t then Some (Thread v old (acks s)) else thr s j)
                            (S (npend s)) (acks s) (resps s))
            end
      end
  | LSave t o =>
      match thr s t with
      | None => None
      | Some p =>
          let thr' := fun j => if Nat.eqb j t then None else thr s j in
          if t_old p <? t_new p then
            if cas && negb (cas_ok (gc (sto s)) (t_old p))
            then Some (State (sto s) thr' (pred (npend s)) (acks s) (resps s))     (* the stored value moved meanwhile: refused *)
            else
            let st' := match o with ErrNotApplied => sto s | _ => Store (GVal (t_new p)) (svcs (sto s)) end in
            match o with
            | Ok => Some (State st' thr' (pred (npend s)) (t_new p :: acks s) ((t_new p, t_before p) :: resps s))
            | _ => Some (State st' thr' (pred (npend s)) (acks s) (resps s))
            end
          else
            let r := if t_new p <? t_old p then t_old p else t_new p in
            Some (State (sto s) thr' (pred (npend s)) (r :: acks s) ((r, t_before p) :: resps s))
      end
  | LGet =>
      match gc_read (gc (sto s)) with
      | None => Some s
      | Some v => Some (State (sto s) (thr s) (npend s) (v :: acks s) ((v, acks s) :: resps s))
      end
  | LSvc i ttl sp now => Some (set_sto s (fst (svc_update (sto s) i ttl sp now)))
  | LApiDel i => match remove_service i (sto s) with Some st => Some (set_sto s st) | None => Some s end
  | LSeed i exp sp =>
      match key_of i with
      | KSvc _ => Some (set_sto s (st_save (key_of i) (Entry (text_of i) exp sp) (sto s)))
      | _ => Some s                                   (* raw entries are only ever found below the service prefix *)
      end
  end.

(* the code as it is now *)
Definition step : state -> label -> option state := step_gen gc_locked gc_cas.

(* ---------- operation-level wrapper used by the correspondence check ---------- *)
Inductive op :=
| OUpd (t : nat) (v : Z)                 (* complete UpdateGCSafePoint *)
| OBegin (t : nat) (v : Z)               (* UpdateGCSafePoint whose SaveGCSafePoint (if any) is parked *)
| OFinish (t : nat) (o : outcome)        (* release the parked save with this storage outcome *)
| OWake (t : nat)                        (* a request that was blocked on the mutex proceeds *)
| OGet                                   (* GetGCSafePoint *)
| OSvc (i : sid) (ttl sp now lo hi : Z)  (* UpdateServiceGCSafePoint; now = the TSO time the call used (inferred), [lo,hi] = wall clock bracket *)
| OSvcIl (i : sid) (ttl sp now lo hi : Z) (d1 : list Z) (o : outcome)
                                         (* UpdateServiceGCSafePoint whose own save is parked: REST deletes of d1 run, then the save gets outcome o *)
| OSvcX (i : sid) (ttl sp now lo hi : Z) (x : lm_env) (d1 : list Z) (o : outcome)
                                         (* the same with storage faults / REST deletes at the single storage operations of its first LoadMin *)
| OApiDel (i : sid)
| OSeed (i : sid) (exp sp : Z)            (* raw JSON entry put under the id's key, bypassing the handlers *)
| OSeedMany (l : list (sid * (Z * Z)))
| OMembers.                                (* first op of a case whose requests are served by SEVERAL members (the leadership moves):
                                             gcSafePointLock is per member, so the case is replayed without the mutex *)  (* many such entries at once (hundreds of registrations found in storage) *)

Inductive obs :=
| BResp (v : Z) | BStarted | BErr | BBlocked | BUnit
| BMin (t : stext) (ttl sp : Z)
| BBad.

(* what the driver reads from storage after every operation *)
Record view := View { v_gc : gcv; v_svcs : list entry }.
Definition view_of (s : state) : view := View (gc (sto s)) (map snd (svcs (sto s))).

Definition last_resp (s : state) : Z := match resps s with (r, _) :: _ => r | [] => -1 end.

Section Wrapper.
(* lk: are the requests of the case serialised by one member's mutex *)
Variable lk : bool.
Let stepL : state -> label -> option state := step_gen lk gc_cas.

Definition finish (s : state) (t : nat) (o : outcome) : state * obs :=
  match thr s t with
  | None => (s, BBad)
  | Some p =>
      match stepL s (LSave t o) with
      | None => (s, BBad)
      | Some s' =>
          if t_old p <? t_new p
          then if gc_cas && negb (cas_ok (gc (sto s)) (t_old p)) then (s', BErr)
               else match o with Ok => (s', BResp (last_resp s')) | _ => (s', BErr) end
          else (s', BResp (last_resp s'))
      end
  end.

Definition clock_slack : Z := 3.

(* the run state of the wrapper: the model state plus the requests that are blocked on the mutex
   (only ever non-empty when gc_locked = true) *)
Definition rstate := (state * list (nat * (Z * bool)))%type.
Definition rinit : rstate := (init, []).

(* a request enters: None = blocked *)
Definition start_req (s : state) (t : nat) (v : Z) (park : bool) : option (state * obs) :=
  match stepL s (LLoad t v) with
  | None => None
  | Some s1 =>
      Some (match thr s1 t with
            | None => (s1, BErr)                               (* LoadGCSafePoint failed *)
            | Some p => if park && (t_old p <? t_new p) then (s1, BStarted) else finish s1 t Ok
            end)
  end.

Definition enter (rs : rstate) (t : nat) (v : Z) (park : bool) : rstate * obs :=
  let '(s, q) := rs in
  match thr s t with
  | Some _ => (rs, BBad)
  | None =>
      match start_req s t v park with
      | Some (s', b) => ((s', q), b)
      | None => ((s, app q [(t, (v, true))]), BBlocked)     (* once through the mutex it is observed at its save (the driver parks it there) *)
      end
  end.

Definition lift (rs : rstate) (r : state * obs) : rstate * obs := ((fst r, snd rs), snd r).

Definition run_op1 (rs : rstate) (o : op) : rstate * obs :=
  let s := fst rs in
  match o with
  | OUpd t v => enter rs t v false
  | OBegin t v => enter rs t v true
  | OWake t =>
      match find (fun x => Nat.eqb (fst x) t) (snd rs) with
      | None => (rs, BBad)
      | Some (_, (v, park)) =>
          match start_req s t v park with
          | Some (s', b) => ((s', filter (fun x => negb (Nat.eqb (fst x) t)) (snd rs)), b)
          | None => (rs, BBad)
          end
      end
  | OFinish t oc => lift rs (finish s t oc)
  | OGet =>
      match gc_read (gc (sto s)) with
      | None => (rs, BErr)
      | Some v => match stepL s LGet with Some s' => lift rs (s', BResp v) | None => (rs, BBad) end
      end
  | OSvc i ttl sp now lo hi =>
      if (now <? lo - clock_slack) || (hi + clock_slack <? now) then (rs, BBad)
      else
        let '(st', r) := svc_update (sto s) i ttl sp now in
        lift rs (set_sto s st', match r with Some x => BMin (r_text x) (r_ttl x) (r_sp x) | None => BErr end)
  | OSvcIl i ttl sp now lo hi d1 oc =>
      if (now <? lo - clock_slack) || (hi + clock_slack <? now) then (rs, BBad)
      else
        let '(st', r) := svc_update_il (sto s) i ttl sp now d1 oc in
        lift rs (set_sto s st', match r with Some x => BMin (r_text x) (r_ttl x) (r_sp x) | None => BErr end)
  | OSvcX i ttl sp now lo hi x d1 oc =>
      if (now <? lo - clock_slack) || (hi + clock_slack <? now) then (rs, BBad)
      else
        let '(st', r) := svc_update_x (sto s) i ttl sp now x d1 oc in
        lift rs (set_sto s st', match r with Some x => BMin (r_text x) (r_ttl x) (r_sp x) | None => BErr end)
  | OApiDel i =>
      match remove_service i (sto s) with Some st => lift rs (set_sto s st, BUnit) | None => (rs, BErr) end
  | OSeed i exp sp =>
      match key_of i with
      | KSvc _ => lift rs (set_sto s (st_save (key_of i) (Entry (text_of i) exp sp) (sto s)), BUnit)
      | _ => (rs, BUnit)
      end
  | OSeedMany l =>
      lift rs (set_sto s (fold_left (fun st x => match key_of (fst x) with
                                                | KSvc _ => st_save (key_of (fst x)) (Entry (text_of (fst x)) (fst (snd x)) (snd (snd x))) st
                                                | _ => st
                                                end) l (sto s)), BUnit)
  | OMembers => (rs, BBad)          (* only meaningful as the first op of a case: see model_obs *)
  end.

Definition run_op (rs : rstate) (o : op) : rstate * (obs * view) :=
  let '(rs', b) := run_op1 rs o in (rs', (b, view_of (fst rs'))).
End Wrapper.

(* ---------- equality of observations ---------- *)
Definition entry_eqb (a b : entry) : bool :=
  text_eqb (e_text a) (e_text b) && (e_exp a =? e_exp b) && (e_sp a =? e_sp b).
Definition gcv_eqb (a b : gcv) : bool :=
  match a, b with GAbsent, GAbsent | GBad, GBad => true | GVal x, GVal y => x =? y | _, _ => false end.
Definition obs_eqb (a b : obs) : bool :=
  match a, b with
  | BResp x, BResp y => x =? y
  | BStarted, BStarted | BErr, BErr | BBlocked, BBlocked | BUnit, BUnit | BBad, BBad => true
  | BMin t x y, BMin t' x' y' => text_eqb t t' && (x =? x') && (y =? y')
  | _, _ => false
  end.
Definition view_eqb (a b : view) : bool := gcv_eqb (v_gc a) (v_gc b) && list_eqb entry_eqb (v_svcs a) (v_svcs b).
Definition ov_eqb (a b : obs * view) : bool := obs_eqb (fst a) (fst b) && view_eqb (snd a) (snd b).

Definition case := (list op * list (obs * view))%type.
Definition model_obs (ops : list op) : list (obs * view) :=
  match ops with
  | OMembers :: r => (BUnit, view_of init) :: run (run_op false) rinit r
  | _ => run (run_op gc_locked) rinit ops
  end.
Definition check_case (c : case) := diff_at ov_eqb 0 (model_obs (fst c)) (snd c).

Fixpoint mismatches_from (n : nat) (cs : list case) :=
  match cs with
  | [] => []
  | c :: r => match check_case c with
              | [] => mismatches_from (S n) r
              | d => (n, d) :: mismatches_from (S n) r
              end
  end.
Definition mismatches := mismatches_from 0.

(* ---------- monitor: the property evaluated on an implementation trace ---------- *)
Local Open Scope string_scope.

Definition gc_le_b (a b : gcv) : bool :=
  match gc_read a, gc_read b with Some x, Some y => (x <=? y)%Z | _, _ => false end.

Definition escapes_to_gc (o : op) : bool :=
  match o with
  | OSvc i _ _ _ _ _ | OApiDel i => match key_of i with KGc => true | _ => false end
  | _ => false
  end.

(* clause 1a: the stored cluster safe point (read after every operation) never goes down *)
Fixpoint mon_stored (prev : gcv) (ops : list op) (obl : list (obs * view)) : option string :=
  match ops, obl with
  | o :: r, (_, v) :: br =>
      if gc_le_b prev (v_gc v) then mon_stored (v_gc v) r br
      else Some (match o with
                 | OFinish _ _ => "C15:gc-safe-point-decreased:overlapping-updates"
                 | _ => if escapes_to_gc o then "C15:gc-safe-point-clobbered:service-id-path-escape"
                        else "C15:gc-safe-point-decreased"
                 end)
  | _, _ => None
  end.

Definition all_le (l : list Z) (r : Z) : bool := forallb (fun a => (a <=? r)%Z) l.

(* clause 1b: a response is >= every value acknowledged before the request began.
   The signature says what preceded in the trace: a released parked update (the known interleaving), a
   service id that escaped onto the cluster key, or neither. *)
Definition resp_sig (fin esc : bool) : string :=
  if esc then "C15:response-below-acknowledged:after-service-id-path-escape"
  else if fin then "C15:response-below-acknowledged:after-overlapping-updates"
  else "C15:response-below-acknowledged".

Fixpoint mon_resp (fin esc : bool) (acked : list Z) (pend : list (nat * list Z)) (ops : list op) (obl : list (obs * view)) : option string :=
  match ops, obl with
  | o :: r, (b, _) :: br =>
      let esc1 := esc || (escapes_to_gc o && negb (match b with BErr => true | _ => false end)) in   (* an escaping id that was not refused *)
      match o, b with
      | OUpd _ _, BResp x | OGet, BResp x | OBegin _ _, BResp x | OWake _, BResp x =>
          if all_le acked x then mon_resp fin esc1 (x :: acked) pend r br else Some (resp_sig fin esc1)
      | OBegin t _, BStarted => mon_resp fin esc1 acked ((t, acked) :: pend) r br
      | OFinish t _, BResp x =>
          let before := match find (fun p => Nat.eqb (fst p) t) pend with Some p => snd p | None => [] end in
          if all_le before x then mon_resp true esc1 (x :: acked) (filter (fun p => negb (Nat.eqb (fst p) t)) pend) r br
          else Some (resp_sig true esc1)
      | OFinish _ _, _ => mon_resp true esc1 acked pend r br
      | _, _ => mon_resp fin esc1 acked pend r br
      end
  | _, _ => None
  end.

Definition live_b (now : Z) (e : entry) : bool := (now <=? e_exp e)%Z.
Definition find_text (t : stext) (l : list entry) : option entry := find (fun e => text_eqb (e_text e) t) l.
Definition opt_entry_eqb := opt_eqb entry_eqb.

(* clauses 2-5 on every answered UpdateServiceGCSafePoint, from the storage views before and after it *)
Definition mon_svc1 (pre : list entry) (o : op) (b : obs) (post : list entry) : option string :=
  match o, b with
  | OSvc i ttl sp now lo hi, BMin mt mttl msp =>
      (* `now` is recovered from the answered TTL and the stored expiry of the reported service: it must
         lie in the wall-clock bracket of the call *)
      if ((now <? lo - clock_slack) || (hi + clock_slack <? now))%Z
      then Some "C15:answered-ttl-inconsistent-with-stored-expiry"
      else if negb (forallb (fun e => negb (live_b now e) || (msp <=? e_sp e)%Z) post)
      then Some "C15:min-above-live-service"
      else if (0 <? ttl)%Z && (sp <? msp)%Z
              && match find_text (text_of i) post with
                 | Some e => (e_sp e =? sp)%Z && negb (opt_entry_eqb (Some e) (find_text (text_of i) pre))
                 | None => false
                 end
      then Some "C15:registration-below-min-recorded"
      (* an answered registration at or above the reported minimum has been stored (safe point MaxUint64 apart: LoadMin
         does not see such an entry and, if it is the only one, re-creates gc_worker's entry with 0 over it) *)
      else if (0 <? ttl)%Z && (msp <=? sp)%Z && (sp <? maxU64)%Z && is_clean i
              && negb (match find_text (text_of i) post with Some e => (e_sp e =? sp)%Z | None => false end)
      then Some "C15:acknowledged-registration-not-stored"
      else if negb (existsb (fun e => is_gcw (e_text e) && (e_exp e =? maxI64)%Z) post)
      then Some (if is_clean i then "C15:gc-worker-entry-missing-or-finite" else "C15:gc-worker-entry-clobbered:service-id-path-escape")
      else if negb (forallb (live_b now) post)
      then Some "C15:expired-entry-survived"
      else if (ttl <=? 0)%Z && is_clean i && match find_text (text_of i) post with Some _ => true | None => false end
      then Some "C15:nonpositive-ttl-entry-survived"
      else None
  | OSvcIl i ttl sp now lo hi _ _, BMin mt mttl msp =>
      if ((now <? lo - clock_slack) || (hi + clock_slack <? now))%Z
      then Some "C15:answered-ttl-inconsistent-with-stored-expiry"
      else if (0 <? ttl)%Z && (msp <=? sp)%Z && (sp <? maxU64)%Z && is_clean i
              && negb (match find_text (text_of i) post with Some e => (e_sp e =? sp)%Z | None => false end)
      then Some "C15:acknowledged-registration-not-stored"
      else if negb (forallb (fun e => negb (live_b now e) || (msp <=? e_sp e)%Z) post)
      then Some "C15:min-above-live-service"
      else if negb (existsb (fun e => is_gcw (e_text e) && (e_exp e =? maxI64)%Z) post)
      then Some "C15:gc-worker-entry-missing-or-finite"
      else if negb (forallb (live_b now) post)
      then Some "C15:expired-entry-survived"
      else None
  | OSvcX i ttl sp now lo hi _ _ _, BMin mt mttl msp =>
      if ((now <? lo - clock_slack) || (hi + clock_slack <? now))%Z
      then Some "C15:answered-ttl-inconsistent-with-stored-expiry"
      else if (0 <? ttl)%Z && (msp <=? sp)%Z && (sp <? maxU64)%Z && is_clean i
              && negb (match find_text (text_of i) post with Some e => (e_sp e =? sp)%Z | None => false end)
      then Some "C15:acknowledged-registration-not-stored"
      else if negb (forallb (fun e => negb (live_b now e) || (msp <=? e_sp e)%Z) post)
      then Some "C15:min-above-live-service"
      else if negb (existsb (fun e => is_gcw (e_text e) && (e_exp e =? maxI64)%Z) post)
      then Some "C15:gc-worker-entry-missing-or-finite"
      else None
  | OSvcX _ _ _ _ _ _ _ _ _, BErr =>
      (* a failed call must not take gc_worker's never-expiring entry away *)
      if existsb (fun e => is_gcw (e_text e) && (e_exp e =? maxI64)%Z) pre
         && negb (existsb (fun e => is_gcw (e_text e) && (e_exp e =? maxI64)%Z) post)
      then Some "C15:gc-worker-entry-lost-by-failed-call"
      else None
  | _, _ => None
  end.

Fixpoint mon_svc (pre : list entry) (ops : list op) (obl : list (obs * view)) : option string :=
  match ops, obl with
  | o :: r, (b, v) :: br =>
      match mon_svc1 pre o b (v_svcs v) with
      | Some sg => Some sg
      | None => mon_svc (v_svcs v) r br
      end
  | _, _ => None
  end.

(* clause 2 over time: an acknowledged registration is honoured until its lease ends.  After an answered
   UpdateServiceGCSafePoint with TTL > 0 whose registration was recorded, until now + TTL, unless the service is removed or re-registered, no other request may be told a minimum above that safe
   point.  (Promises are dropped at every op that can legitimately remove entries: REST delete, raw writes, the
   fault/interleaving ops.) *)
Fixpoint mon_promise (pr : list entry) (ops : list op) (obl : list (obs * view)) : option string :=
  match ops, obl with
  | o :: r, (b, v) :: br =>
      match o, b with
      | OSvc i ttl sp now _ _, BMin _ _ msp =>
          let others := filter (fun p => negb (text_eqb (e_text p) (text_of i))) pr in
          if existsb (fun p => (now <=? e_exp p)%Z && (e_sp p <? msp)%Z) others
          then Some "C15:acknowledged-registration-not-honoured"
          else
            (* recorded = the view shows an entry of this id with the requested safe point; what was promised is the
               lease the ANSWER acknowledged: now + ttl (saturating), whatever expiry was actually stored *)
            let pr1 := if (0 <? ttl)%Z
                       then match find_text (text_of i) (v_svcs v) with
                            | Some e => if (e_sp e =? sp)%Z
                                        then Entry (text_of i) (if (maxI64 - now <=? ttl)%Z then maxI64 else (now + ttl)%Z) sp :: others
                                        else others
                            | None => others
                            end
                       else others in
            mon_promise pr1 r br
      | OSvc _ _ _ _ _ _, _ | OUpd _ _, _ | OBegin _ _, _ | OFinish _ _, _ | OWake _, _ | OGet, _ => mon_promise pr r br
      | _, _ => mon_promise [] r br
      end
  | _, _ => None
  end.

(* a complete UpdateGCSafePoint that meets no storage fault (faults are only injected at OFinish) is answered: an error
   means the request acted on something other than the stored value (e.g. a read that etcd answered before an
   acknowledged update) and was only stopped by the guard of its write *)
Fixpoint mon_upd (ops : list op) (obl : list (obs * view)) : option string :=
  match ops, obl with
  | OUpd _ _ :: _, (BErr, _) :: _ => Some "C15:update-refused-without-a-storage-fault"
  | _ :: r, _ :: br => mon_upd r br
  | _, _ => None
  end.

(* the three groups of clauses are evaluated independently: a known violation of one does not hide another *)
Definition opt_list (o : option string) : list string := match o with Some x => [x] | None => [] end.
Definition monitor (c : case) : list string :=
  app (opt_list (mon_stored GAbsent (fst c) (snd c)))
      (app (opt_list (mon_resp false false [] [] (fst c) (snd c)))
           (app (opt_list (mon_svc [] (fst c) (snd c)))
                (app (opt_list (mon_promise [] (fst c) (snd c))) (opt_list (mon_upd (fst c) (snd c)))))).

Fixpoint monitor_fails_from (n : nat) (cs : list case) : list (nat * string) :=
  match cs with
  | [] => []
  | c :: r => app (map (fun sg => (n, sg)) (monitor c)) (monitor_fails_from (S n) r)
  end.
Definition monitor_fails := monitor_fails_from 0.
