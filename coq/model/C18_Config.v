(* C18 — executable model of the dynamic-configuration setters of server/server.go
   (SetScheduleConfig, SetReplicationConfig incl. its placement-rule branch, SetPDServerConfig,
   SetLabelProperty / DeleteLabelProperty, SetClusterVersion, SetReplicationModeConfig), of
   PersistOptions.Persist / Reload (server/config/persist_options.go) and of the three Validate
   functions + Deprecated (server/config/config.go).  Definitions only; proofs in proof/C18_*.v.

   The validation clauses are NOT written by hand: the model parses the clause tables the
   translator regenerates from config.go (gen/Gen_C18.v) and evaluates what it finds there, so a
   clause removed from the Go source disappears from the model too (and invalid_never_accepted
   stops being provable).

   Faithfulness notes (the code as it is, after the fix commits 543d12e, d9b573b, d9b573b in /repo):
   * SetReplicationConfig edits a COPY of the default rule and hands it to SetRule, which now sees a
     change and saves it (one rule write, faultable); nothing served is touched before SetRule and
     Persist have succeeded; the roll-back puts count and labels back through a second SetRule.
   * Set/DeleteLabelProperty restore the old map on a failed Persist.
   * trace-region-flow is deprecated and `omitempty`: Reload always clears it and leaves
     flow-round-by-digit as stored; that is the reload normalisation of this deprecated flag.
   * numbers: ratios are in thousandths (the harness only uses k/1000). *)
From Coq Require Import String Ascii.
From PDV Require Import lib.Base lib.C14_AList gen.Gen_C18.
Local Open Scope string_scope.
Local Open Scope Z_scope.

Definition ver := (Z * Z * Z)%type.
Definition ver_eqb (a b : ver) : bool :=
  let '(a1, a2, a3) := a in let '(b1, b2, b3) := b in (a1 =? b1) && (a2 =? b2) && (a3 =? b3).

Definition mem_str (x : string) (l : list string) : bool := existsb (String.eqb x) l.

(* ---------- sections ---------- *)
Record sched := Sched {
  sc_tol : Z; sc_low : Z; sc_high : Z;     (* tolerant-size-ratio, low-space-ratio, high-space-ratio, x1000 *)
  sc_scheds : list string;                  (* Schedulers[i].Type *)
  sc_dis : list bool;                       (* the six deprecated disable-* flags, in the order of Deprecated() *)
  sc_sbr : Z;                               (* store-balance-rate x1000 (deprecated) *)
  sc_pay : Z                                (* opaque payload representative: max-snapshot-count *)
}.
Record repl := Repl {
  rp_max : Z; rp_labels : list string; rp_iso : string; rp_pr : bool; rp_strict : bool }.
Record pdsrv := PdSrv {
  ps_dash : string; ps_digit : Z; ps_trace : bool; ps_key : string (* opaque payload: key-type *) }.
Definition lprop := list (string * list (string * string)).   (* label-property map, sorted by type *)
Record rmode := RMode { rm_mode : string; rm_label : string }.
(* store-limit part of the schedule section: store id -> (add-peer, remove-peer) rates x1000, sorted by store id *)
Definition limits := amap (Z * Z).
Record conf := Conf { c_sched : sched; c_repl : repl; c_pd : pdsrv; c_lp : lprop; c_ver : ver; c_rm : rmode; c_limits : limits }.
Record rule := Rule { ru_count : Z; ru_labels : list string }.

Record state := State {
  served : conf;               (* PersistOptions of the leader *)
  stored : option conf;        (* storage key "config" (one JSON value) *)
  srule : option rule;         (* the default placement rule the RuleManager serves (None: manager not initialised) *)
  strule : option rule;        (* the default rule in storage *)
  rm_init : bool;              (* RuleManager.initialized *)
  mm : rmode                   (* replication ModeManager.config *)
}.

(* ---------- faults: the idx-th write of a key group inside one operation ---------- *)
Inductive fgroup := GConfig | GRule | GMode.
Inductive fkind := FBefore | FAfter.
Inductive fault := NoFault | Fault (g : fgroup) (idx : nat) (k : fkind).
Definition fgroup_eqb (a b : fgroup) : bool :=
  match a, b with GConfig, GConfig | GRule, GRule | GMode, GMode => true | _, _ => false end.
Definition wr (f : fault) (g : fgroup) (idx : nat) : bool * bool :=   (* (applied, acknowledged) *)
  match f with
  | Fault g' i k => if (fgroup_eqb g' g && Nat.eqb i idx)%bool
                    then match k with FBefore => (false, false) | FAfter => (true, false) end
                    else (true, true)
  | NoFault => (true, true)
  end.

(* ---------- validation, parsed from the regenerated clause tables ---------- *)
Inductive sclause := ScTolNeg | ScLowRange | ScHighRange | ScLowLeHigh | ScUnregistered.
Definition parse_sclause (t : string) : option sclause :=
  if String.eqb t "c.TolerantSizeRatio < 0" then Some ScTolNeg
  else if String.eqb t "c.LowSpaceRatio < 0 || c.LowSpaceRatio > 1" then Some ScLowRange
  else if String.eqb t "c.HighSpaceRatio < 0 || c.HighSpaceRatio > 1" then Some ScHighRange
  else if String.eqb t "c.LowSpaceRatio <= c.HighSpaceRatio" then Some ScLowLeHigh
  else if String.eqb t "!IsSchedulerRegistered(scheduleConfig.Type)" then Some ScUnregistered
  else None.
Definition parse_table {A} (p : string -> option A) (tbl : list (string * string)) : list A :=
  flat_map (fun g => match p (fst g) with Some c => [c] | None => [] end) tbl.
Definition sched_clauses : list sclause := parse_table parse_sclause guards_ScheduleValidate.
Definition registered (t : string) : bool := mem_str t registered_types.
Definition eval_sclause (c : sched) (cl : sclause) : bool :=   (* true = rejected *)
  match cl with
  | ScTolNeg => sc_tol c <? 0
  | ScLowRange => (sc_low c <? 0) || (sc_low c >? 1000)
  | ScHighRange => (sc_high c <? 0) || (sc_high c >? 1000)
  | ScLowLeHigh => sc_low c <=? sc_high c
  | ScUnregistered => existsb (fun t => negb (registered t)) (sc_scheds c)
  end.
Definition sched_invalid (c : sched) : bool := existsb (eval_sclause c) sched_clauses.

(* Deprecated(): the i-th disable flag, or store-balance-rate *)
Inductive dclause := DcFlag (i : nat) | DcRate.
Definition parse_dclause (t : string) : option dclause :=
  if String.eqb t "c.DisableLearner" then Some (DcFlag 0)
  else if String.eqb t "c.DisableRemoveDownReplica" then Some (DcFlag 1)
  else if String.eqb t "c.DisableReplaceOfflineReplica" then Some (DcFlag 2)
  else if String.eqb t "c.DisableMakeUpReplica" then Some (DcFlag 3)
  else if String.eqb t "c.DisableRemoveExtraReplica" then Some (DcFlag 4)
  else if String.eqb t "c.DisableLocationReplacement" then Some (DcFlag 5)
  else if String.eqb t "c.StoreBalanceRate != 0" then Some DcRate
  else None.
Definition dep_clauses : list dclause := parse_table parse_dclause guards_ScheduleDeprecated.
Definition eval_dclause (c : sched) (cl : dclause) : bool :=
  match cl with DcFlag i => nth i (sc_dis c) false | DcRate => negb (sc_sbr c =? 0) end.
Definition sched_deprecated (c : sched) : bool := existsb (eval_dclause c) dep_clauses.

(* label key format "^[$]?[A-Za-z0-9]([-A-Za-z0-9_./]*[A-Za-z0-9])?$" (ValidateLabels, value empty) *)
Definition is_alnum (c : ascii) : bool :=
  let n := nat_of_ascii c in
  (Nat.leb 48 n && Nat.leb n 57) || (Nat.leb 65 n && Nat.leb n 90) || (Nat.leb 97 n && Nat.leb n 122).
Definition is_mid (c : ascii) : bool :=
  is_alnum c || Ascii.eqb c "-" || Ascii.eqb c "_" || Ascii.eqb c "." || Ascii.eqb c "/".
Fixpoint all_mid_last_alnum (s : string) : bool :=   (* s non-empty: every char is_mid, last is_alnum *)
  match s with
  | EmptyString => false
  | String c EmptyString => is_alnum c
  | String c r => is_mid c && all_mid_last_alnum r
  end.
Definition valid_key_body (s : string) : bool :=
  match s with
  | EmptyString => false
  | String c EmptyString => is_alnum c
  | String c r => is_alnum c && all_mid_last_alnum r
  end.
Definition valid_label_key (s : string) : bool :=
  match s with
  | String c r => if Ascii.eqb c "$" then valid_key_body r else valid_key_body s
  | EmptyString => false
  end.

Inductive rclause := RcBadLabel | RcIsoNotLabel.
Definition parse_rclause (g : string * string) : option rclause :=
  if String.eqb (fst g) "err != nil" then Some RcBadLabel
  else if String.eqb (fst g) "c.IsolationLevel != """" && !foundIsolationLevel" then Some RcIsoNotLabel
  else None.
Definition repl_clauses : list rclause :=
  flat_map (fun g => match parse_rclause g with Some c => [c] | None => [] end) guards_ReplicationValidate.
Definition eval_rclause (c : repl) (cl : rclause) : bool :=
  match cl with
  | RcBadLabel => existsb (fun l => negb (valid_label_key l)) (rp_labels c)
  | RcIsoNotLabel => negb (String.eqb (rp_iso c) "") && negb (mem_str (rp_iso c) (rp_labels c))
  end.
(* the label loop returns at the first bad label, before the isolation test: same verdict either way *)
Definition repl_invalid (c : repl) : bool := existsb (eval_rclause c) repl_clauses.

Inductive pclause := PcBadUrl | PcNegDigit.
Definition parse_pclause (g : string * string) : option pclause :=
  if String.eqb (fst g) "err != nil" then Some PcBadUrl
  else if String.eqb (fst g) "c.FlowRoundByDigit < 0" then Some PcNegDigit
  else None.
Definition pd_clauses : list pclause :=
  flat_map (fun g => match parse_pclause g with Some c => [c] | None => [] end) guards_PDServerValidate.
Fixpoint has_prefix (p s : string) : bool :=
  match p, s with
  | EmptyString, _ => true
  | String a p', String b s' => Ascii.eqb a b && has_prefix p' s'
  | _, EmptyString => false
  end.
(* the only non-keyword addresses the harness uses are well-formed URLs; the member test comes first *)
Definition eval_pclause (c : pdsrv) (cl : pclause) : bool :=
  match cl with
  | PcBadUrl => false
  | PcNegDigit => ps_digit c <? 0
  end.
Definition pd_invalid (c : pdsrv) : bool := existsb (eval_pclause c) pd_clauses.

(* ---------- reload normalisation ---------- *)
Definition add_defaults (l : list string) : list string :=
  fold_left (fun acc d => if mem_str d acc then acc else (acc ++ [d])%list) default_schedulers l.
(* what PersistOptions.Reload makes of a stored configuration *)
Definition reload_conf (c : conf) : conf :=
  Conf (Sched (sc_tol (c_sched c)) (sc_low (c_sched c)) (sc_high (c_sched c)) (add_defaults (sc_scheds (c_sched c)))
              (map (fun _ => false) (sc_dis (c_sched c))) 0 (sc_pay (c_sched c)))
       (c_repl c)
       (* trace-region-flow=false is omitted from the JSON, so the loaded flag is true whatever was stored
          and MigrateDeprecatedFlags leaves flow-round-by-digit alone; then the flag is cleared *)
       (PdSrv (ps_dash (c_pd c)) (ps_digit (c_pd c)) false (ps_key (c_pd c)))
       (c_lp c) (c_ver c) (c_rm c) (c_limits c).
(* the documented reload normalisation: default schedulers re-added, deprecated flags migrated
   (the deprecated disable-* flags and store-balance-rate are cleared; trace-region-flow is cleared) *)
Definition normalise (c : conf) : conf := reload_conf c.

(* ---------- operations ---------- *)
Inductive ltype := LAdd | LRemove.
Inductive op :=
| OSetSchedule (c : sched) (f : fault)
| OSetReplication (c : repl) (f : fault)
| OSetPDServer (c : pdsrv) (f : fault)
| OSetLabel (typ k v : string) (f : fault)
| ODelLabel (typ k v : string) (f : fault)
| OSetVersion (v : option ver) (f : fault)          (* None: a string that does not parse *)
| OSetMode (c : rmode) (f : fault)
| OSetLabelMap (m : lprop) (f : fault)              (* Server.SetLabelPropertyConfig: the whole map *)
| OSetStoreLimit (id : Z) (t : ltype) (rate dflt : Z) (f : fault)
    (* RaftCluster.SetStoreLimit; dflt = the process-wide default limit of the OTHER type as the call sees it (config.DefaultStoreLimit
       is a package variable, not part of the persisted configuration: an input of the operation) *)
| OSetAllLimits (t : ltype) (rate : Z) (f : fault). (* RaftCluster.SetAllStoresLimit *)

Inductive res :=
| ROk | RInvalid            (* Validate / Deprecated / parse / unknown mode *)
| RNotMember                (* dashboard address is not a member's client URL *)
| RRuleCheck                (* CheckInDefaultRule refused *)
| RRuleContent              (* SetRule: adjustRule refused the rule (count <= 0) *)
| RStorage | RBad.

(* ---------- helpers ---------- *)
Definition set_conf (s : state) (c : conf) : state := State c (stored s) (srule s) (strule s) (rm_init s) (mm s).
Definition set_stored (s : state) (c : option conf) : state := State (served s) c (srule s) (strule s) (rm_init s) (mm s).
Definition set_srule (s : state) (r : option rule) : state := State (served s) (stored s) r (strule s) (rm_init s) (mm s).
Definition set_strule (s : state) (r : option rule) : state := State (served s) (stored s) (srule s) r (rm_init s) (mm s).
Definition set_init (s : state) (b : bool) : state := State (served s) (stored s) (srule s) (strule s) b (mm s).
Definition set_mm (s : state) (m : rmode) : state := State (served s) (stored s) (srule s) (strule s) (rm_init s) m.

Definition with_sched (c : conf) (x : sched) := Conf x (c_repl c) (c_pd c) (c_lp c) (c_ver c) (c_rm c) (c_limits c).
Definition with_repl (c : conf) (x : repl) := Conf (c_sched c) x (c_pd c) (c_lp c) (c_ver c) (c_rm c) (c_limits c).
Definition with_pd (c : conf) (x : pdsrv) := Conf (c_sched c) (c_repl c) x (c_lp c) (c_ver c) (c_rm c) (c_limits c).
Definition with_lp (c : conf) (x : lprop) := Conf (c_sched c) (c_repl c) (c_pd c) x (c_ver c) (c_rm c) (c_limits c).
Definition with_ver (c : conf) (x : ver) := Conf (c_sched c) (c_repl c) (c_pd c) (c_lp c) x (c_rm c) (c_limits c).
Definition with_rm (c : conf) (x : rmode) := Conf (c_sched c) (c_repl c) (c_pd c) (c_lp c) (c_ver c) x (c_limits c).
Definition with_limits (c : conf) (x : limits) := Conf (c_sched c) (c_repl c) (c_pd c) (c_lp c) (c_ver c) (c_rm c) x.

(* PersistOptions.Persist: the idx-th write of the config key in this operation *)
Definition persist (s : state) (f : fault) (idx : nat) : state * bool :=
  let '(applied, ok) := wr f GConfig idx in
  ((if applied then set_stored s (Some (served s)) else s), ok).

(* the common shape: swap the section in, persist, restore the OLD VALUE on failure *)
Definition swap_persist (s : state) (c' : conf) (f : fault) : state * res :=
  let old := served s in
  let '(s1, ok) := persist (set_conf s c') f 0 in
  if ok then (s1, ROk) else (set_conf s1 old, RStorage).

Definition do_set_schedule (s : state) (c : sched) (f : fault) : state * res :=
  if sched_invalid c then (s, RInvalid)
  else if sched_deprecated c then (s, RInvalid)
  else swap_persist s (with_sched (served s) c) f.

Definition str_list_eqb := list_eqb String.eqb.

(* placement rules switched on: RuleManager.Initialize.  Returns the state and whether it failed. *)
Definition repl_init (s : state) (c old : repl) (f : fault) : state * bool :=
  if negb (Bool.eqb (rp_pr c) (rp_pr old)) && rp_pr c && negb (rm_init s) then
    match strule s with
    | Some r => (set_init (set_srule s (Some r)) true, false)        (* rules found in storage *)
    | None =>
        let r := Rule (rp_max c) (rp_labels c) in
        let '(applied, ok) := wr f GRule 0 in
        let s' := if applied then set_strule s (Some r) else s in
        if ok then (set_init (set_srule s' (Some r)) true, false) else (s', true)
    end
  else (s, false).

Definition repl_changed (c old : repl) : bool :=
  negb ((rp_max c =? rp_max old) && str_list_eqb (rp_labels c) (rp_labels old)).

(* CheckInDefaultRule: None = no rule involved; Some true = edit it; Some false = refused *)
Definition repl_check (s : state) (c old : repl) : option bool :=
  if rp_pr c && repl_changed c old then
    match srule s with
    | Some r => Some ((ru_count r =? rp_max old) && str_list_eqb (ru_labels r) (rp_labels old))
    | None => Some false
    end
  else None.

(* RuleManager.SetRule with a rule that differs from the served one: adjustRule passed, savePatch writes the one
   rule (idx-th rule write of this operation), then the rule config is committed *)
Definition set_rule_write (s : state) (r : rule) (f : fault) (idx : nat) : state * bool :=
  let '(applied, ok) := wr f GRule idx in
  let s1 := if applied then set_strule s (Some r) else s in
  if ok then (set_srule s1 (Some r), true) else (s1, false).

Definition repl_commit (s1 : state) (c old : repl) (edit : bool) (f : fault) : state * res :=
  if edit then
    (* a COPY of the default rule gets the new count / labels and goes through SetRule *)
    if rp_max c <=? 0 then (s1, RRuleContent)           (* adjustRule: invalid count; nothing was touched *)
    else
      let '(s2, okr) := set_rule_write s1 (Rule (rp_max c) (rp_labels c)) f 0 in
      if negb okr then (s2, RStorage)
      else
        let '(s3, ok) := persist (set_conf s2 (with_repl (served s2) c)) f 0 in
        if ok then (s3, ROk)
        else
          let s4 := set_conf s3 (with_repl (served s3) old) in
          (* roll-back: SetRule(old count, old labels); refused (only logged) when the old count is not positive *)
          if rp_max old <=? 0 then (s4, RStorage)
          else (fst (set_rule_write s4 (Rule (rp_max old) (rp_labels old)) f 1), RStorage)
  else
    let '(s3, ok) := persist (set_conf s1 (with_repl (served s1) c)) f 0 in
    if ok then (s3, ROk) else (set_conf s3 (with_repl (served s3) old), RStorage).

Definition do_set_replication (s : state) (c : repl) (f : fault) : state * res :=
  if repl_invalid c then (s, RInvalid) else
  let old := c_repl (served s) in
  let '(s1, init_err) := repl_init s c old f in
  if init_err then (s1, RStorage) else
  match repl_check s1 c old with
  | Some false => (s1, RRuleCheck)
  | Some true => repl_commit s1 c old true f
  | None => repl_commit s1 c old false f
  end.

Definition dash_keyword (d : string) : bool := mem_str d dashboard_keywords.
Definition norm_dash (d : string) : string := if has_prefix "http" d then d else "http://" ++ d.
(* "http://SELF" stands for the client URL of the (single) member *)
Definition is_member_url (d : string) : bool := String.eqb d "http://SELF".

Definition do_set_pdserver (s : state) (c : pdsrv) (f : fault) : state * res :=
  let d := if dash_keyword (ps_dash c) then ps_dash c else norm_dash (ps_dash c) in
  if negb (dash_keyword (ps_dash c)) && negb (is_member_url d) then (s, RNotMember) else
  let c' := PdSrv d (ps_digit c) (ps_trace c) (ps_key c) in
  if pd_invalid c' then (s, RInvalid) else swap_persist s (with_pd (served s) c') f.

(* PersistOptions.SetLabelProperty / DeleteLabelProperty on the map *)
Definition pair_eqb (a b : string * string) : bool := String.eqb (fst a) (fst b) && String.eqb (snd a) (snd b).
Fixpoint lp_get (m : lprop) (t : string) : list (string * string) :=
  match m with [] => [] | (t', l) :: r => if String.eqb t' t then l else lp_get r t end.
Fixpoint lp_del (m : lprop) (t : string) : lprop :=
  match m with [] => [] | (t', l) :: r => if String.eqb t' t then lp_del r t else (t', l) :: lp_del r t end.
Fixpoint str_leb (a b : string) : bool :=
  match a, b with
  | EmptyString, _ => true
  | String _ _, EmptyString => false
  | String x a', String y b' =>
      let nx := nat_of_ascii x in let ny := nat_of_ascii y in
      if Nat.ltb nx ny then true else if Nat.ltb ny nx then false else str_leb a' b'
  end.
Fixpoint lp_put (m : lprop) (t : string) (l : list (string * string)) : lprop :=
  match m with
  | [] => [(t, l)]
  | (t', l') :: r =>
      if String.eqb t' t then (t, l) :: r
      else if str_leb t t' then (t, l) :: (t', l') :: r
      else (t', l') :: lp_put r t l
  end.
Definition lp_set (m : lprop) (t k v : string) : lprop :=
  if existsb (pair_eqb (k, v)) (lp_get m t) then m else lp_put m t (lp_get m t ++ [(k, v)])%list.
Definition lp_delete (m : lprop) (t k v : string) : lprop :=
  let l := filter (fun p => negb (pair_eqb (k, v) p)) (lp_get m t) in
  match l with [] => lp_del m t | _ => lp_put m t l end.

(* on a failed Persist the OLD MAP is put back *)
Definition do_set_label (s : state) (t k v : string) (f : fault) : state * res :=
  swap_persist s (with_lp (served s) (lp_set (c_lp (served s)) t k v)) f.
Definition do_del_label (s : state) (t k v : string) (f : fault) : state * res :=
  swap_persist s (with_lp (served s) (lp_delete (c_lp (served s)) t k v)) f.

(* SetLabelPropertyConfig: the whole map is swapped in; on a failed Persist the old map is put back *)
Definition do_set_label_map (s : state) (m : lprop) (f : fault) : state * res :=
  swap_persist s (with_lp (served s) m) f.

(* store limits.  PersistOptions.SetStoreLimit: the rate of the given type is replaced, the other one kept (or the process default
   when the store has no entry yet); SetAllStoresLimit: the given type is replaced in every entry.  Both: Persist, and on failure the
   whole schedule section (and for SetAllStoresLimit the process defaults) is put back.  No validation here (the HTTP layer checks). *)
Definition lim_upd (t : ltype) (rate : Z) (p : Z * Z) : Z * Z := match t with LAdd => (rate, snd p) | LRemove => (fst p, rate) end.
Definition lim_set (m : limits) (id : Z) (t : ltype) (rate dflt : Z) : limits :=
  aset m id (lim_upd t rate (match aget m id with Some p => p | None => (dflt, dflt) end)).
Definition lim_all (m : limits) (t : ltype) (rate : Z) : limits := map (fun e : Z * (Z * Z) => (fst e, lim_upd t rate (snd e))) m.
Definition do_set_store_limit (s : state) (id : Z) (t : ltype) (rate dflt : Z) (f : fault) : state * res :=
  swap_persist s (with_limits (served s) (lim_set (c_limits (served s)) id t rate dflt)) f.
Definition do_set_all_limits (s : state) (t : ltype) (rate : Z) (f : fault) : state * res :=
  swap_persist s (with_limits (served s) (lim_all (c_limits (served s)) t rate)) f.

Definition do_set_version (s : state) (v : option ver) (f : fault) : state * res :=
  match v with
  | None => (s, RInvalid)
  | Some x => swap_persist s (with_ver (served s) x) f
  end.

(* config.NormalizeReplicationMode *)
Definition lower_ascii (c : ascii) : ascii :=
  let n := nat_of_ascii c in
  if (Nat.leb 65 n && Nat.leb n 90)%bool then ascii_of_nat (n + 32) else c.
Fixpoint norm_mode_str (s : string) : string :=
  match s with
  | EmptyString => EmptyString
  | String c r => String (if Ascii.eqb c "_" then "-"%char else lower_ascii c) (norm_mode_str r)
  end.
Definition mode_valid (m : string) : bool :=
  let n := norm_mode_str m in String.eqb n "majority" || String.eqb n "dr-auto-sync".

(* ModeManager.UpdateConfig: the two transitions that write the replication status *)
Definition update_mode (s : state) (c : rmode) (f : fault) : state * bool :=
  let needs_write :=
    (String.eqb (rm_mode (mm s)) "majority" && String.eqb (rm_mode c) "dr-auto-sync")
    || (String.eqb (rm_mode (mm s)) "dr-auto-sync" && String.eqb (rm_mode c) "dr-auto-sync"
        && negb (String.eqb (rm_label (mm s)) (rm_label c))) in
  if needs_write then
    let '(_, ok) := wr f GMode 0 in
    if ok then (set_mm s c, true) else (s, false)
  else (set_mm s c, true).

(* every accepted spelling of the mode is stored, served and handed to the mode manager in its internal form (fix: the mode manager only
   knows "majority" and "dr-auto-sync") *)
Definition norm_rmode (c : rmode) : rmode := RMode (norm_mode_str (rm_mode c)) (rm_label c).
Definition do_set_mode (s : state) (c0 : rmode) (f : fault) : state * res :=
  if negb (mode_valid (rm_mode c0)) then (s, RInvalid) else
  let c := norm_rmode c0 in
  let old := c_rm (served s) in
  let '(s1, ok) := persist (set_conf s (with_rm (served s) c)) f 0 in
  if negb ok then (set_conf s1 (with_rm (served s1) old), RStorage)
  else
    let '(s2, ok2) := update_mode s1 c f in
    if ok2 then (s2, ROk)
    else
      (* revert and persist again; a failure of this second write is only logged *)
      let '(s3, _) := persist (set_conf s2 (with_rm (served s2) old)) f 1 in
      (s3, RStorage).

Definition run_cmd (s : state) (o : op) : state * res :=
  match o with
  | OSetSchedule c f => do_set_schedule s c f
  | OSetReplication c f => do_set_replication s c f
  | OSetPDServer c f => do_set_pdserver s c f
  | OSetLabel t k v f => do_set_label s t k v f
  | ODelLabel t k v f => do_del_label s t k v f
  | OSetVersion v f => do_set_version s v f
  | OSetMode c f => do_set_mode s c f
  | OSetLabelMap m f => do_set_label_map s m f
  | OSetStoreLimit id t rate dflt f => do_set_store_limit s id t rate dflt f
  | OSetAllLimits t rate f => do_set_all_limits s t rate f
  end.

(* ---------- observations ---------- *)
Record obs := Obs {
  o_res : res;
  o_served : conf; o_srule : option rule;
  o_reload : option conf;        (* a fresh PersistOptions.Reload from the same storage *)
  o_strule : option rule;
  o_mm : rmode }.
Definition snapshot (s : state) (r : res) : obs :=
  (* GetReplicationStatusHTTP shows the label key only in dr-auto-sync mode *)
  Obs r (served s) (srule s) (option_map reload_conf (stored s)) (strule s)
      (if String.eqb (rm_mode (mm s)) "dr-auto-sync" then mm s else RMode (rm_mode (mm s)) "").
Definition run_op (s : state) (o : op) : state * obs :=
  let '(s', r) := run_cmd s o in (s', snapshot s' r).

(* ---------- leader change ----------
   What a newly elected leader does with the configuration (Server.reloadConfigFromKV, RaftCluster.Start):
   PersistOptions.Reload replaces the served sections by the reload of the config key when the key exists; a fresh
   RuleManager is initialised when placement rules are enabled in the reloaded configuration (rules found in storage
   are served; otherwise the default rule is built from max-replicas / location-labels and saved); a fresh ModeManager
   takes the reloaded replication-mode section.  Nothing is written to the config key. *)
Definition leader_change (s : state) : state :=
  let c := match stored s with Some c => reload_conf c | None => served s end in
  if rp_pr (c_repl c) then
    let r := match strule s with Some r => r | None => Rule (rp_max (c_repl c)) (rp_labels (c_repl c)) end in
    State c (stored s) (Some r) (Some r) true (c_rm c)
  else State c (stored s) None (strule s) false (c_rm c).

(* a history: setter calls and leader changes *)
Inductive hop := HSet (o : op) | HLeader.
Definition run_hcmd (s : state) (h : hop) : state * res :=
  match h with HSet o => run_cmd s o | HLeader => (leader_change s, ROk) end.
Definition run_hop (s : state) (h : hop) : state * obs :=
  let '(s', r) := run_hcmd s h in (s', snapshot s' r).

(* boot: a leader whose options were just persisted and whose cluster was just started *)
Definition boot (c : conf) : state :=
  let r := if rp_pr (c_repl c) then Some (Rule (rp_max (c_repl c)) (rp_labels (c_repl c))) else None in
  State c (Some c) r r (rp_pr (c_repl c)) (c_rm c).

(* ---------- equality of observations ---------- *)
Definition res_eqb (a b : res) : bool :=
  match a, b with
  | ROk, ROk | RInvalid, RInvalid | RNotMember, RNotMember | RRuleCheck, RRuleCheck
  | RRuleContent, RRuleContent | RStorage, RStorage | RBad, RBad => true
  | _, _ => false
  end.
Definition sched_eqb (a b : sched) : bool :=
  (sc_tol a =? sc_tol b) && (sc_low a =? sc_low b) && (sc_high a =? sc_high b)
  && str_list_eqb (sc_scheds a) (sc_scheds b) && list_eqb Bool.eqb (sc_dis a) (sc_dis b)
  && (sc_sbr a =? sc_sbr b) && (sc_pay a =? sc_pay b).
Definition repl_eqb (a b : repl) : bool :=
  (rp_max a =? rp_max b) && str_list_eqb (rp_labels a) (rp_labels b) && String.eqb (rp_iso a) (rp_iso b)
  && Bool.eqb (rp_pr a) (rp_pr b) && Bool.eqb (rp_strict a) (rp_strict b).
Definition pd_eqb (a b : pdsrv) : bool :=
  String.eqb (ps_dash a) (ps_dash b) && (ps_digit a =? ps_digit b) && Bool.eqb (ps_trace a) (ps_trace b)
  && String.eqb (ps_key a) (ps_key b).
Definition lp_eqb (a b : lprop) : bool :=
  list_eqb (fun x y : string * list (string * string) => String.eqb (fst x) (fst y) && list_eqb pair_eqb (snd x) (snd y)) a b.
Definition rm_eqb (a b : rmode) : bool := String.eqb (rm_mode a) (rm_mode b) && String.eqb (rm_label a) (rm_label b).
Definition conf_eqb (a b : conf) : bool :=
  sched_eqb (c_sched a) (c_sched b) && repl_eqb (c_repl a) (c_repl b) && pd_eqb (c_pd a) (c_pd b)
  && lp_eqb (c_lp a) (c_lp b) && ver_eqb (c_ver a) (c_ver b) && rm_eqb (c_rm a) (c_rm b)
  && list_eqb (fun x y : Z * (Z * Z) => (fst x =? fst y) && (fst (snd x) =? fst (snd y)) && (snd (snd x) =? snd (snd y))) (c_limits a) (c_limits b).
Definition rule_eqb (a b : rule) : bool := (ru_count a =? ru_count b) && str_list_eqb (ru_labels a) (ru_labels b).
Definition obs_eqb (a b : obs) : bool :=
  res_eqb (o_res a) (o_res b) && conf_eqb (o_served a) (o_served b) && opt_eqb rule_eqb (o_srule a) (o_srule b)
  && opt_eqb conf_eqb (o_reload a) (o_reload b) && opt_eqb rule_eqb (o_strule a) (o_strule b) && rm_eqb (o_mm a) (o_mm b).

Definition case := (conf * list hop * list obs)%type.
Definition model_obs (c : case) : list obs :=
  let '(c0, ops, _) := c in let s0 := boot c0 in snapshot s0 ROk :: run run_hop s0 ops.
Definition check_case (c : case) : list (nat * option obs * option obs) :=
  let '(_, _, got) := c in diff_at obs_eqb 0 (model_obs c) got.
Fixpoint mismatches_from (n : nat) (cs : list case) :=
  match cs with
  | [] => []
  | c :: r => match check_case c with
              | [] => mismatches_from (S n) r
              | d => (n, d) :: mismatches_from (S n) r
              end
  end.
Definition mismatches := mismatches_from 0.

(* ---------- monitor: the property on the implementation's own trace (no model state involved;
   the domains are stated here directly, not through the parsed tables) ---------- *)
Definition sched_out_of_domain (c : sched) : bool :=
  (sc_tol c <? 0) || (sc_low c <? 0) || (sc_low c >? 1000) || (sc_high c <? 0) || (sc_high c >? 1000)
  || (sc_low c <=? sc_high c) || existsb (fun t => negb (registered t)) (sc_scheds c).
Definition repl_out_of_domain (c : repl) : bool :=
  negb (String.eqb (rp_iso c) "") && negb (mem_str (rp_iso c) (rp_labels c)).
Definition pd_out_of_domain (c : pdsrv) : bool := ps_digit c <? 0.

Definition is_ok (r : res) : bool := res_eqb r ROk.

Definition rule_unknown (o : op) : bool :=     (* a rule write that was applied but reported failed: storage is ahead *)
  match o with OSetReplication _ (Fault GRule _ FAfter) => true | _ => false end.

Definition mon_step (unk : bool) (o : op) (prev cur : obs) : list string :=
  (* 1 values outside their domains are never accepted *)
  (match o with
   | OSetSchedule c _ =>
       (if sched_out_of_domain c && is_ok (o_res cur) then ["C18:invalid-schedule-accepted"] else []) ++
       (if (existsb (fun b : bool => b) (sc_dis c) || negb (sc_sbr c =? 0)) && is_ok (o_res cur)
        then ["C18:deprecated-schedule-flag-accepted"] else [])
   | OSetReplication c _ =>
       (if repl_out_of_domain c && is_ok (o_res cur) then ["C18:invalid-replication-accepted"] else []) ++
       (if existsb (fun l => negb (valid_label_key l)) (rp_labels c) && is_ok (o_res cur)
        then ["C18:malformed-location-label-accepted"] else [])
   | OSetPDServer c _ => if pd_out_of_domain c && is_ok (o_res cur) then ["C18:invalid-pd-server-accepted"] else []
   | OSetMode c _ => if negb (mode_valid (rm_mode c)) && is_ok (o_res cur) then ["C18:invalid-replication-mode-accepted"] else []
   | OSetVersion None _ => if is_ok (o_res cur) then ["C18:invalid-version-accepted"] else []
   | _ => []
   end) ++
  (* 2 a rejected change leaves the served configuration exactly as it was *)
  (if negb (is_ok (o_res cur)) then
     (if conf_eqb (o_served prev) (o_served cur) then []
      else if lp_eqb (c_lp (o_served prev)) (c_lp (o_served cur)) then ["C18:rejected-change-altered-served"]
      else match o with
           | OSetLabel _ _ _ _ | ODelLabel _ _ _ _ => ["C18:label-property-rollback-applies-inverse-op"]
           | _ => ["C18:rejected-change-altered-served"]
           end) ++
     (* ... and what a new leader would reload is what it would have reloaded before (unless the config write of this very call was
        applied and reported failed: then storage is legitimately ahead) *)
     (match o with
      | OSetSchedule _ (Fault GConfig _ FAfter) | OSetReplication _ (Fault GConfig _ FAfter) | OSetPDServer _ (Fault GConfig _ FAfter)
      | OSetLabel _ _ _ (Fault GConfig _ FAfter) | ODelLabel _ _ _ (Fault GConfig _ FAfter) | OSetVersion _ (Fault GConfig _ FAfter)
      | OSetMode _ (Fault _ _ _) | OSetLabelMap _ (Fault GConfig _ FAfter) | OSetStoreLimit _ _ _ _ (Fault GConfig _ FAfter)
      | OSetAllLimits _ _ (Fault GConfig _ FAfter) => []
      | _ => if opt_eqb conf_eqb (o_reload prev) (o_reload cur) then [] else ["C18:rejected-change-altered-stored-config"]
      end) ++
     (* the served default rule is part of the served replication settings while placement rules are on *)
     (if rp_pr (c_repl (o_served cur)) && rp_pr (c_repl (o_served prev)) && negb (opt_eqb rule_eqb (o_srule prev) (o_srule cur))
      then ["C18:rejected-replication-change-edited-served-rule"] else [])
   else []) ++
  (* 2b an accepted change is what is served afterwards: the section (or item) the request names has the requested value *)
  (if is_ok (o_res cur) then
     let sv := o_served cur in let pv := o_served prev in
     let served_as_requested :=
       match o with
       | OSetSchedule c _ => sched_eqb (c_sched sv) c
       | OSetReplication c _ => repl_eqb (c_repl sv) c
       | OSetPDServer c _ =>
           pd_eqb (c_pd sv) (PdSrv (if dash_keyword (ps_dash c) then ps_dash c else norm_dash (ps_dash c)) (ps_digit c) (ps_trace c) (ps_key c))
       | OSetLabel t k v _ => lp_eqb (c_lp sv) (lp_set (c_lp pv) t k v)
       | ODelLabel t k v _ => lp_eqb (c_lp sv) (lp_delete (c_lp pv) t k v)
       | OSetVersion (Some v) _ => ver_eqb (c_ver sv) v
       | OSetVersion None _ => true
       | OSetMode c _ => rm_eqb (c_rm sv) (norm_rmode c)
       | OSetLabelMap m _ => lp_eqb (c_lp sv) m
       | OSetStoreLimit id t rate dflt _ => conf_eqb (with_limits sv []) (with_limits pv []) && conf_eqb sv (with_limits sv (lim_set (c_limits pv) id t rate dflt))
       | OSetAllLimits t rate _ => conf_eqb sv (with_limits sv (lim_all (c_limits pv) t rate))
       end in
     if served_as_requested then [] else ["C18:accepted-change-not-served"]
   else []) ++
  (* 3 an accepted change is what a new leader reloads, up to the documented normalisation *)
  (if is_ok (o_res cur) then
     (match o_reload cur with
      | Some r => if conf_eqb r (normalise (o_served cur)) then [] else ["C18:accepted-change-not-reloaded"]
      | None => ["C18:accepted-change-not-reloaded"]
      end) ++
     (* ... including the default placement rule (unless an earlier rule write had an unknown outcome) *)
     (if negb unk && rp_pr (c_repl (o_served cur)) && negb (opt_eqb rule_eqb (o_srule cur) (o_strule cur))
      then ["C18:replication-change-not-persisted-to-default-rule"] else [])
   else []).

(* a leader change: the new leader serves exactly what a fresh reload of the storage gave just before it (whatever
   happened earlier, unknown outcomes included), and with placement rules on the stored default rule *)
Definition mon_leader (prev cur : obs) : list string :=
  (match o_reload prev with
   | Some r => if conf_eqb (o_served cur) r then [] else ["C18:new-leader-serves-a-different-configuration"]
   | None => []
   end) ++
  (if rp_pr (c_repl (o_served cur)) then
     match o_strule prev with
     | Some r => if opt_eqb rule_eqb (o_srule cur) (Some r) then [] else ["C18:new-leader-serves-a-different-default-rule"]
     | None => []
     end
   else []) ++
  (if opt_eqb conf_eqb (o_reload cur) (o_reload prev) then [] else ["C18:leader-change-rewrote-the-stored-configuration"]).
Fixpoint mon_run (unk : bool) (ops : list hop) (prev : obs) (obs_l : list obs) : list string :=
  match ops, obs_l with
  | HSet o :: r, b :: br => let u := unk || rule_unknown o in (mon_step u o prev b ++ mon_run u r b br)%list
  | HLeader :: r, b :: br => (mon_leader prev b ++ mon_run false r b br)%list   (* served rule := stored rule: nothing unknown any more *)
  | _, _ => []
  end.
Definition monitor (c : case) : list string :=
  let '(_, ops, got) := c in
  match got with
  | b0 :: br => nodup string_dec (mon_run false ops b0 br)
  | [] => ["C18:empty-trace"]
  end.
Fixpoint monitor_fails_from (n : nat) (cs : list case) : list (nat * string) :=
  match cs with
  | [] => []
  | c :: r => (map (fun sg => (n, sg)) (monitor c) ++ monitor_fails_from (S n) r)%list
  end.
Definition monitor_fails := monitor_fails_from 0.

(* ---------- mismatch explanation for the check log: which components differ ---------- *)
Definition diff_fields (a b : obs) : list string :=
  (if res_eqb (o_res a) (o_res b) then [] else ["res"]) ++
  (if sched_eqb (c_sched (o_served a)) (c_sched (o_served b)) then [] else ["served.schedule"]) ++
  (if repl_eqb (c_repl (o_served a)) (c_repl (o_served b)) then [] else ["served.replication"]) ++
  (if pd_eqb (c_pd (o_served a)) (c_pd (o_served b)) then [] else ["served.pd-server"]) ++
  (if lp_eqb (c_lp (o_served a)) (c_lp (o_served b)) then [] else ["served.label-property"]) ++
  (if ver_eqb (c_ver (o_served a)) (c_ver (o_served b)) then [] else ["served.cluster-version"]) ++
  (if rm_eqb (c_rm (o_served a)) (c_rm (o_served b)) then [] else ["served.replication-mode"]) ++
  (if conf_eqb (with_limits (o_served a) []) (with_limits (o_served b) []) && negb (conf_eqb (o_served a) (o_served b)) then ["served.store-limit"] else []) ++
  (if opt_eqb rule_eqb (o_srule a) (o_srule b) then [] else ["served-rule"]) ++
  (if opt_eqb conf_eqb (o_reload a) (o_reload b) then [] else ["reload"]) ++
  (if opt_eqb rule_eqb (o_strule a) (o_strule b) then [] else ["stored-rule"]) ++
  (if rm_eqb (o_mm a) (o_mm b) then [] else ["mode-manager"]).
Definition explain (cs : list case) : list (nat * nat * list string * option res * option res) :=
  map (fun m : nat * list (nat * option obs * option obs) =>
         match snd m with
         | (k, Some e, Some g) :: _ => (fst m, k, diff_fields e g, Some (o_res e), Some (o_res g))
         | (k, _, _) :: _ => (fst m, k, ["length"], None, None)
         | [] => (fst m, 0%nat, [], None, None)
         end) (mismatches cs).

(* ---------- API-path class: histories of HTTP requests (server/api/config.go: get -> unmarshal the request into what the
   getter returned -> set).  Around every request the driver takes the full served configuration (all six sections, JSON;
   compared here by digest) and the served / reloaded projections.  No model state is involved. ---------- *)
Definition jstep := (string * res * string * string * conf * conf)%type.  (* path, result, digest before, digest after, served, reloaded *)
(* a step with path "leader-change" is not a request: the served options were reloaded from storage and the cluster restarted,
   as a newly elected leader does; its last component is what was served BEFORE.  (After an applied-but-reported-failed write
   storage may legitimately be ahead: those steps have another path and are not judged.) *)
Definition jcase := list jstep.
Definition mon_jstep (st : jstep) : list string :=
  let '(path, r, before, after, sv, rl) := st in
  if String.eqb path "leader-change" then
    (if conf_eqb sv (normalise rl) then [] else ["C18:new-leader-serves-a-different-configuration"])
  else if String.eqb path "leader-change-after-unknown-write" then []
  else if String.eqb path "coordinator-start" then
    (* the coordinator passed its wait for the cluster to be prepared, created the schedulers and wrote the schedule section back: what
       is served is still what was served (last component) - an update accepted while it waited is not overwritten *)
    (* (the coordinator drops from the list the schedulers it could not create, e.g. evict-leader without a store: the list may shrink) *)
    (let strip (c : conf) := with_sched c (Sched (sc_tol (c_sched c)) (sc_low (c_sched c)) (sc_high (c_sched c)) [] (sc_dis (c_sched c))
                                              (sc_sbr (c_sched c)) (sc_pay (c_sched c))) in
     if conf_eqb (strip sv) (strip rl) && forallb (fun t => mem_str t (sc_scheds (c_sched rl))) (sc_scheds (c_sched sv))
     then [] else ["C18:coordinator-start-overwrote-an-accepted-change"])
  else if String.eqb path "ttl-window-stored" then
    (* a request accepted while a temporary (ttlSecond) override of max-snapshot-count is active and that does not name that item:
       sv = what a new leader reloads after it, rl = what it reloaded before: the temporary value must not have been persisted *)
    (if sc_pay (c_sched sv) =? sc_pay (c_sched rl) then [] else ["C18:temporary-override-persisted"])
  else if String.eqb path "ttl-expired" then
    (* the override has expired: sv = what is served now, rl = what was served before the override was set, updated by the requests since *)
    (if sc_pay (c_sched sv) =? sc_pay (c_sched rl) then [] else ["C18:temporary-override-outlived-its-ttl"])
  else if String.eqb path "ttl-set" then []
  else if String.eqb path "update-during-store-limit-retry" then
    (* an update accepted while AddStoreLimit waited to retry its failed write: sv = what is served after the retry, rl = what has to be
       served (the state before plus the update; the joining store's limit is the retry's own change) *)
    (if conf_eqb sv rl then [] else ["C18:accepted-change-lost-during-store-limit-retry"])
  else if String.eqb path "overlapping-updates" then
    (* two updates were both accepted while they overlapped (the first was held at its write of the config key): a new leader reloads both *)
    (if conf_eqb rl (normalise sv) then [] else ["C18:overlapping-accepted-changes-not-both-reloaded"])
  else if is_ok r then
    (* an accepted change is what a new leader reloads *)
    (if conf_eqb rl (normalise sv) then [] else ["C18:accepted-change-not-reloaded"])
  else
    (* a rejected request leaves the served configuration exactly as it was: every item of every section *)
    (if String.eqb before after then []
     else if String.eqb path "/config/replication-mode"
          then ["C18:rejected-replication-mode-request-altered-served"]
          else ["C18:rejected-request-altered-served-config"]).
Definition monitor_j (c : jcase) : list string := nodup string_dec (flat_map mon_jstep c).
Fixpoint monitor_j_fails_from (n : nat) (cs : list jcase) : list (nat * string) :=
  match cs with
  | [] => []
  | c :: r => (map (fun sg => (n, sg)) (monitor_j c) ++ monitor_j_fails_from (S n) r)%list
  end.
Definition monitor_j_fails := monitor_j_fails_from 0.
