(* C17 — executable model of server/core/storage.go (LoadStores, store weights, the region dispatch) and
   server/core/region_storage.go (loadRegions with its adaptive page size and the deletion of what the
   callback returns; the write-back batch of RegionStorage).  Definitions only.

   Keys.  Stores and regions live under raft/s/<%020d id> and raft/r/<%020d id>; 20 digits hold every uint64
   (lemma pad_covers_uint64), so key order = id order and a namespace is a strictly increasing association
   list id -> value (lib/C17_Map.v).  LoadRange(start, end, limit) is `range`: end exclusive, as all three
   backends implement it.  ids are uint64: `id + 1` wraps (next_id).
   Region keys (start/end) are Z: 0 = empty key, k > 0 = the 8-byte big-endian key the driver uses. *)
From Coq Require Import String.
From PDV Require Import lib.Base lib.C17_Map gen.Gen_C17.
Local Open Scope Z_scope.
Local Open Scope list_scope.

Definition two64 : Z := 2 ^ 64.
Definition max_id : Z := two64 - 1.                     (* math.MaxUint64 *)
Definition next_id (id : Z) : Z := (id + 1) mod two64.  (* uint64 addition *)
(* endKey = path(math.MaxUint64) + "\x00": the exclusive end lies just past the key of the largest id *)
Definition range_end : Z := two64.

Inductive status := RDone | RFailed | RDiverged.

(* ------------------------------------------------------------------------------------------ *)
(* 1. the paging loop shared by LoadStores and loadRegions                                    *)
(* ------------------------------------------------------------------------------------------ *)
Section Paging.
  Context {V C : Type}.
  (* fault oracle of LoadRange: number of the call, the page it would return *)
  Variable fails : nat -> amap V -> bool.
  (* the callback: new callback state, ids to delete from the same kv *)
  Variable cb : C -> Z * V -> C * list Z.
  (* what the callback rewrites the record it was shown with (decided on the state before the call): the load callback
     of the cluster brings a record up to date that is stale against the cached region of the same id *)
  Variable rw : C -> Z * V -> option V.
  (* a failed LoadRange halves the limit and retries while the halved limit is >= min_limit *)
  Variable min_limit : Z.

  Definition step_item (st : amap V * C * Z) (it : Z * V) : amap V * C * Z :=
    let '(m, c, _) := st in
    let '(c', dels) := cb c it in
    let m1 := fold_left del dels m in                 (* nextID = id + 1 ; f(...) ; deleteRegion each *)
    (match rw c it with Some v' => put m1 (fst it) v' | None => m1 end, c', next_id (fst it)).

  Fixpoint page_loop (fuel : nat) (m : amap V) (next limit : Z) (call : nat) (c : C) (acc : list (Z * V))
    : status * list (Z * V) * amap V * C :=
    match fuel with
    | O => (RDiverged, acc, m, c)
    | S f =>
        let page := range m next range_end limit in
        if fails call page then
          let limit' := limit / 2 in
          if min_limit <=? limit' then page_loop f m next limit' (S call) c acc
          else (RFailed, acc, m, c)
        else
          let '(m', c', next') := fold_left step_item page (m, c, next) in
          let acc' := acc ++ page in
          (* if len(res) < limit || nextID == 0 { return nil }  -- nextID == 0: the id wrapped, all visited *)
          if (Z.of_nat (length page) <? limit) || (next' =? 0) then (RDone, acc', m', c')
          else page_loop f m' next' limit (S call) c' acc'
    end.

  (* enough for every page and every halving; exhaustion is an observation (RDiverged), never silent *)
  Definition fuel_for (m : amap V) (limit : Z) : nat := S (length m) + S (Z.to_nat (Z.log2 limit)).
End Paging.

(* ------------------------------------------------------------------------------------------ *)
(* 2. values, state                                                                           *)
(* ------------------------------------------------------------------------------------------ *)
Record rv := RV { rv_start : Z; rv_end : Z; rv_confver : Z; rv_version : Z; rv_size : Z (* marshalled bytes *) }.

Record sstate := SS {
  stores  : amap Z;          (* raft/s/<id> -> payload tag *)
  lweight : amap Z;          (* schedule/store_weight/<id>/leader, in 1/1000 *)
  rweight : amap Z;          (* schedule/store_weight/<id>/region *)
  base_r  : amap rv;         (* raft/r/<id> in Storage.Base *)
  ldb     : amap rv;         (* raft/r/<id> in the leveldb of RegionStorage *)
  batch   : amap rv;         (* RegionStorage.batchRegions *)
  cache_size : Z;            (* RegionStorage.cacheSize *)
  use_rs  : bool;            (* Storage.useRegionStorage *)
  loaded_once : bool;        (* Storage.regionLoaded *)
  budget  : option Z         (* byte budget of the kv wrapper around Storage.Base: LoadRange fails above it *)
}.

Definition sinit : sstate := SS [] [] [] [] [] [] 0 false false None.

Definition default_weight : Z := 1000.     (* loadFloatWithDefaultValue(path, 1.0) *)
Definition batch_size : Z := Gen_C17.defaultBatchSize.
Definition store_limit : Z := Gen_C17.minKVRangeLimit.
Definition region_limit0 : Z := Gen_C17.maxKVRangeLimit.
Definition region_limit_min : Z := Gen_C17.minKVRangeLimit.

Definition never_fails {V} : nat -> amap V -> bool := fun _ _ => false.
Definition page_bytes (p : amap rv) : Z := fold_left (fun a it => a + rv_size (snd it)) p 0.
Definition over_budget (b : option Z) : nat -> amap rv -> bool :=
  fun _ p => match b with Some x => x <? page_bytes p | None => false end.

Definition no_cb {V} : unit -> Z * V -> unit * list Z := fun _ _ => (tt, []).
Definition no_rw {V C} : C -> Z * V -> option V := fun _ _ => None.

(* LoadStores: pages of minKVRangeLimit, a failing LoadRange is returned at once (no retry: min_limit = limit) *)
Definition load_stores (m : amap Z) : status * list (Z * Z) :=
  let '(st, acc, _, _) := page_loop never_fails no_cb no_rw store_limit (fuel_for m store_limit) m 0 store_limit O tt [] in
  (st, acc).

(* loadRegions over a namespace, with a callback *)
Definition load_regions {C} (fails : nat -> amap rv -> bool) (cb : C -> Z * rv -> C * list Z) (m : amap rv) (c : C) :=
  page_loop fails cb no_rw region_limit_min (fuel_for m region_limit0) m 0 region_limit0 O c [].

(* --- the region cache the load callback feeds (BasicCluster.CheckAndPutRegion from an empty cluster) --- *)
Definition intersects (a b : rv) : bool :=
  ((rv_end a =? 0) || (rv_start b <? rv_end a)) && ((rv_end b =? 0) || (rv_start a <? rv_end b)).
Definition same_range (a b : rv) : bool := (rv_start a =? rv_start b) && (rv_end a =? rv_end b).
Definition cache := list (Z * rv).
Definition find_id (c : cache) (id : Z) : option rv :=
  match find (fun o => fst o =? id) c with Some o => Some (snd o) | None => None end.

Definition accepts (c : cache) (r : Z * rv) : bool :=
  let origin := find_id c (fst r) in
  let ovl := match origin with
             | Some o => if same_range o (snd r) then [] else filter (fun o => intersects (snd o) (snd r)) c
             | None => filter (fun o => intersects (snd o) (snd r)) c
             end in
  if existsb (fun o => rv_version (snd r) <? rv_version (snd o)) ovl then false
  else match origin with
       | None => true
       | Some o => negb ((rv_version (snd r) <? rv_version o) || (rv_confver (snd r) <? rv_confver o))
       end.
(* what CheckAndPutRegion returns is what loadRegions deletes: the region itself when it is stale,
   otherwise the regions evicted from the tree *)
Definition evicted (c : cache) (r : Z * rv) : list (Z * rv) :=
  filter (fun o => negb (fst o =? fst r) && intersects (snd o) (snd r)) c.
Definition check_and_put (c : cache) (r : Z * rv) : cache * list Z :=
  if accepts c r
  then (r :: filter (fun o => negb (fst o =? fst r) && negb (intersects (snd o) (snd r))) c, map fst (evicted c r))
  else (c, [fst r]).

(* The callback the cluster and the sync client pass to LoadRegionsOnce (BasicCluster.CheckAndPutLoadedRegion): the cache
   can outlive a load (a member elected again, a follower following a new leader), so it may hold a newer version of the
   very region that is read — its save failed or lost against a concurrent one. A record rejected as stale while the
   cache holds a region of the same id shares its key with the live region: it is rewritten from the cache, not deleted. *)
(* The load visits the records in id order. A cached region pushed out by the record whose id lies AHEAD of the record has
   not been compared with its own record yet (the cache may lag behind the storage: a member elected again after another
   leader's term): it is not reported for deletion, its record is judged when the load reaches it. *)
Definition put_loaded (c : cache) (r : Z * rv) : cache * list Z :=
  if accepts c r then (fst (check_and_put c r), filter (fun id => id <=? fst r) (snd (check_and_put c r)))
  else match find_id c (fst r) with Some _ => (c, []) | None => (c, [fst r]) end.
(* the callback before that fix (dc3cb19): everything pushed out is deleted by id *)
Definition put_loaded_eager (c : cache) (r : Z * rv) : cache * list Z :=
  if accepts c r then check_and_put c r
  else match find_id c (fst r) with Some _ => (c, []) | None => (c, [fst r]) end.
Definition rw_loaded (c : cache) (r : Z * rv) : option rv :=
  if accepts c r then None else find_id c (fst r).

Fixpoint ins_sorted {V} (x : Z * V) (l : list (Z * V)) : list (Z * V) :=
  match l with [] => [x] | y :: t => if fst x <=? fst y then x :: l else y :: ins_sorted x t end.
Definition sort_by_id {V} (l : list (Z * V)) : list (Z * V) := fold_right ins_sorted [] l.

(* ------------------------------------------------------------------------------------------ *)
(* 3. operations                                                                              *)
(* ------------------------------------------------------------------------------------------ *)
Inductive op :=
| OSaveStore (id payload : Z) | ODeleteStore (id : Z) | OSaveWeight (id lw rw : Z) | OLoadStores
| OSaveRegion (id : Z) (v : rv) | ODeleteRegion (id : Z)
| OFlush                       (* Storage.Flush *)
| OSwitch (rs : bool)          (* SwitchToRegionStorage / SwitchToDefaultStorage *)
| OCrash                       (* the process stops: the unflushed batch is gone, leveldb stays *)
| OReopen                      (* Storage.Close (flushes), then a new RegionStorage on the same directory *)
| OBudget (b : option Z)
| OLoadRegions                 (* LoadRegions with a collecting callback *)
| OLoadOnce                    (* LoadRegionsOnce with a collecting callback *)
| OLoadIntoCache               (* LoadRegions(CheckAndPutRegion) into an empty BasicCluster *)
(* storage faults on Storage.Base (memKV / etcd): the call returns an error; `applied` = the write reached the
   storage nevertheless (the unknown-outcome case) *)
| OSaveStoreF (id payload : Z) (applied : bool)
| ODeleteStoreF (id : Z) (applied : bool)
| OSaveWeightF (id lw rw : Z) (stage : nat) (applied : bool)   (* stage 0: the leader-weight write fails, 1: the region-weight write *)
| OSaveRegionF (id : Z) (v : rv) (applied : bool)
| ODeleteRegionF (id : Z) (applied : bool)
| OTick                        (* RegionStorage's timed background flush fires (3 s after the last save) *)
| OCrashInFlush (written : bool) (* the process stops inside a flush: the leveldb batch write is atomic — all or nothing *)
| OLoadOnceIntoCache           (* LoadRegionsOnce(CheckAndPutRegion) of a process whose cache is still empty: the start-up load;
                                  later calls of the same process are skipped (region-storage mode) *)
| OLoadWarm (cached : cache)   (* LoadRegions(CheckAndPutLoadedRegion) over a cluster that already holds `cached` (direct backend:
                                  a member that is elected again without a restart reloads from etcd over its warm cache) *)
| OFlushF                      (* Storage.Flush while the leveldb batch write fails (a transient fault): the error is returned and
                                  the batch is kept for the next flush *)
| OLoadOnceCorrupt (bad : Z).  (* LoadRegionsOnce while the stored value of region `bad` cannot be unmarshalled: the load
                                  fails at that item, after having delivered every region below it *)

Inductive obs :=
| BUnit
| BStores (st : status) (l : list (Z * Z * Z * Z))           (* id, payload, leader weight, region weight *)
| BRegions (st : status) (l : list (Z * rv))
| BCache (st : status) (loaded : list (Z * rv)) (cache_sorted : list (Z * rv)) (storage_after : list (Z * rv))
| BSkipped                                                    (* LoadRegionsOnce: already loaded *)
| BErr                                                        (* the call returned an error *)
| BEarly.                                                     (* LoadRegionsOnce returned nil, without delivering anything, while
                                                                 another caller's first load was still in progress *)

Definition weight_of (m : amap Z) (id : Z) : Z := match lookup m id with Some w => w | None => default_weight end.

Definition flush_batch (s : sstate) : sstate :=
  SS (stores s) (lweight s) (rweight s) (base_r s)
     (fold_left (fun m it => put m (fst it) (snd it)) (batch s) (ldb s)) [] 0
     (use_rs s) (loaded_once s) (budget s).

Definition set_regions (s : sstate) (rs : bool) (m : amap rv) : sstate :=
  if rs then SS (stores s) (lweight s) (rweight s) (base_r s) m (batch s) (cache_size s) (use_rs s) (loaded_once s) (budget s)
  else SS (stores s) (lweight s) (rweight s) m (ldb s) (batch s) (cache_size s) (use_rs s) (loaded_once s) (budget s).
Definition regions_of (s : sstate) (rs : bool) : amap rv := if rs then ldb s else base_r s.
(* the byte budget sits on Storage.Base only; the leveldb of RegionStorage is read directly *)
Definition faults_of (s : sstate) (rs : bool) : nat -> amap rv -> bool :=
  if rs then never_fails else over_budget (budget s).

Definition collect_regions (s : sstate) : sstate * obs :=
  let rs := use_rs s in
  let '(st, acc, m', _) := load_regions (faults_of s rs) no_cb (regions_of s rs) tt in
  (set_regions s rs m', BRegions st acc).

Definition save_region (s : sstate) (id : Z) (v : rv) : sstate * obs :=
      if use_rs s then
        (* RegionStorage.SaveRegion *)
        let b := put (batch s) id v in
        if cache_size s <? batch_size - 1
        then (SS (stores s) (lweight s) (rweight s) (base_r s) (ldb s) b (cache_size s + 1) (use_rs s) (loaded_once s) (budget s), BUnit)
        else (flush_batch (SS (stores s) (lweight s) (rweight s) (base_r s) (ldb s) b (cache_size s) (use_rs s) (loaded_once s) (budget s)), BUnit)
      else (SS (stores s) (lweight s) (rweight s) (put (base_r s) id v) (ldb s) (batch s) (cache_size s) (use_rs s) (loaded_once s) (budget s), BUnit).

Definition delete_region (s : sstate) (id : Z) : sstate * obs :=
      (* deleteRegion(kv, region) = kv.Remove; RegionStorage.Remove drops the pending batch entry, then leveldb's *)
      if use_rs s
      then (SS (stores s) (lweight s) (rweight s) (base_r s) (del (ldb s) id) (del (batch s) id) (cache_size s)
               (use_rs s) (loaded_once s) (budget s), BUnit)
      else (set_regions s false (del (base_r s) id), BUnit).

Definition load_once (s : sstate) : sstate * obs :=
      if use_rs s then
        if loaded_once s then (s, BSkipped)
        else let '(s', b) := collect_regions s in
             match b with
             | BRegions RDone _ =>
                 (SS (stores s') (lweight s') (rweight s') (base_r s') (ldb s') (batch s') (cache_size s') (use_rs s') true (budget s'), b)
             | _ => (s', b)
             end
      else collect_regions s.

Definition load_into_cache (s : sstate) : sstate * obs :=
      let rs := use_rs s in
      let m := regions_of s rs in
      let '(st, acc, m', c) := load_regions (faults_of s rs) check_and_put m [] in
      (* every pruning delete went through kv.Remove: in region-storage mode it also dropped the pending entry *)
      let s1 := set_regions s rs m' in
      let s2 := if rs
                then SS (stores s1) (lweight s1) (rweight s1) (base_r s1) (ldb s1)
                        (filter (fun it => match lookup m (fst it), lookup m' (fst it) with
                                           | Some _, None => false | _, _ => true end) (batch s1))
                        (cache_size s1) (use_rs s1) (loaded_once s1) (budget s1)
                else s1 in
      (s2, BCache st acc (sort_by_id c) m').

Definition run_op (s : sstate) (o : op) : sstate * obs :=
  match o with
  | OSaveStore id p =>
      (SS (put (stores s) id p) (lweight s) (rweight s) (base_r s) (ldb s) (batch s) (cache_size s) (use_rs s) (loaded_once s) (budget s), BUnit)
  | ODeleteStore id =>
      (* DeleteStore removes the two weight keys together with the record (eebcdab) *)
      (SS (del (stores s) id) (del (lweight s) id) (del (rweight s) id) (base_r s) (ldb s) (batch s) (cache_size s) (use_rs s) (loaded_once s) (budget s), BUnit)
  | OSaveWeight id lw rw =>
      (SS (stores s) (put (lweight s) id lw) (put (rweight s) id rw) (base_r s) (ldb s) (batch s) (cache_size s) (use_rs s) (loaded_once s) (budget s), BUnit)
  | OLoadStores =>
      let '(st, acc) := load_stores (stores s) in
      (s, BStores st (map (fun it => (fst it, snd it, weight_of (lweight s) (fst it), weight_of (rweight s) (fst it))) acc))
  | OSaveRegion id v => save_region s id v
  | ODeleteRegion id => delete_region s id
  | OFlush => (flush_batch s, BUnit)
  | OSwitch rs => (SS (stores s) (lweight s) (rweight s) (base_r s) (ldb s) (batch s) (cache_size s) rs (loaded_once s) (budget s), BUnit)
  | OCrash => (SS (stores s) (lweight s) (rweight s) (base_r s) (ldb s) [] 0 (use_rs s) false (budget s), BUnit)
  | OReopen => let s1 := flush_batch s in
               (SS (stores s1) (lweight s1) (rweight s1) (base_r s1) (ldb s1) [] 0 (use_rs s1) false (budget s1), BUnit)
  | OBudget b => (SS (stores s) (lweight s) (rweight s) (base_r s) (ldb s) (batch s) (cache_size s) (use_rs s) (loaded_once s) b, BUnit)
  | OLoadRegions => collect_regions s
  | OLoadOnce => load_once s
  | OSaveStoreF id p applied =>
      (if applied then SS (put (stores s) id p) (lweight s) (rweight s) (base_r s) (ldb s) (batch s) (cache_size s) (use_rs s) (loaded_once s) (budget s) else s, BErr)
  | ODeleteStoreF id applied =>
      (* the failing call is the last of DeleteStore's three Removes (the record itself); the weights were removed before
         and are put back on the error path *)
      (if applied then SS (del (stores s) id) (lweight s) (rweight s) (base_r s) (ldb s) (batch s) (cache_size s) (use_rs s) (loaded_once s) (budget s) else s, BErr)
  | OSaveWeightF id lw rw stage applied =>
      (* SaveStoreWeight puts the old values of both keys back when one of its two writes fails (0d04e9a): whichever
         write failed, applied or not, nothing has changed *)
      (s, BErr)
  | OSaveRegionF id v applied =>
      (* the injected fault sits on Storage.Base: in region-storage mode the call does not touch it *)
      if use_rs s then save_region s id v else
      (if applied then SS (stores s) (lweight s) (rweight s) (put (base_r s) id v) (ldb s) (batch s) (cache_size s) (use_rs s) (loaded_once s) (budget s) else s, BErr)
  | ODeleteRegionF id applied =>
      if use_rs s then delete_region s id else
      (if applied then SS (stores s) (lweight s) (rweight s) (del (base_r s) id) (ldb s) (batch s) (cache_size s) (use_rs s) (loaded_once s) (budget s) else s, BErr)
  | OTick => (flush_batch s, BUnit)
  | OCrashInFlush written =>
      let s1 := if written then flush_batch s else s in
      (SS (stores s1) (lweight s1) (rweight s1) (base_r s1) (ldb s1) [] 0 (use_rs s1) false (budget s1), BUnit)
  | OLoadWarm cached =>
      let rs := use_rs s in
      let m := regions_of s rs in
      let '(st, acc, m', c) := page_loop (faults_of s rs) put_loaded rw_loaded region_limit_min (fuel_for m region_limit0)
                                         m 0 region_limit0 O cached [] in
      (set_regions s rs m', BCache st acc (sort_by_id c) m')
  | OFlushF => (s, BErr)
  | OLoadOnceCorrupt bad =>
      let m := regions_of s (use_rs s) in
      match lookup m bad with
      | None => load_once s
      | Some _ =>
          if use_rs s && loaded_once s then (s, BSkipped)
          else (* the error is returned; regionLoaded is set only after a successful load, so it stays 0 *)
               (s, BRegions RFailed (filter (fun p => fst p <? bad) m))
      end
  | OLoadIntoCache => load_into_cache s
  | OLoadOnceIntoCache =>
      if use_rs s && loaded_once s then (s, BSkipped)
      else let '(s', b) := load_into_cache s in
           match b with
           | BCache RDone _ _ _ =>
               (if use_rs s' then SS (stores s') (lweight s') (rweight s') (base_r s') (ldb s') (batch s') (cache_size s') (use_rs s') true (budget s') else s', b)
           | _ => (s', b)
           end
  end.

(* ------------------------------------------------------------------------------------------ *)
(* 4. correspondence                                                                          *)
(* ------------------------------------------------------------------------------------------ *)
Definition rv_eqb (a b : rv) : bool :=
  (rv_start a =? rv_start b) && (rv_end a =? rv_end b) && (rv_confver a =? rv_confver b) &&
  (rv_version a =? rv_version b) && (rv_size a =? rv_size b).
Definition item_eqb (a b : Z * rv) : bool := (fst a =? fst b) && rv_eqb (snd a) (snd b).
Definition status_eqb (a b : status) : bool :=
  match a, b with RDone, RDone | RFailed, RFailed | RDiverged, RDiverged => true | _, _ => false end.
Definition store_eqb (a b : Z * Z * Z * Z) : bool :=
  let '(a1, a2, a3, a4) := a in let '(b1, b2, b3, b4) := b in (a1 =? b1) && (a2 =? b2) && (a3 =? b3) && (a4 =? b4).
Definition obs_eqb (a b : obs) : bool :=
  match a, b with
  | BUnit, BUnit | BSkipped, BSkipped | BErr, BErr | BEarly, BEarly => true
  | BStores s l, BStores s' l' => status_eqb s s' && list_eqb store_eqb l l'
  | BRegions s l, BRegions s' l' => status_eqb s s' && list_eqb item_eqb l l'
  | BCache s l c m, BCache s' l' c' m' =>
      status_eqb s s' && list_eqb item_eqb l l' && list_eqb item_eqb c c' && list_eqb item_eqb m m'
  | _, _ => false
  end.

Definition model_obs (ops : list op) : list obs := run run_op sinit ops.

(* the printed diff keeps only positions and a short tag: observations can be 10^4 items long *)
Inductive otag := TEarly | TErr | TUnit | TStores (st : status) (n : nat) | TRegions (st : status) (n : nat)
                | TCache (st : status) (n c m : nat) | TSkipped.
Definition tag (b : obs) : otag :=
  match b with
  | BUnit => TUnit | BSkipped => TSkipped | BErr => TErr | BEarly => TEarly
  | BStores s l => TStores s (length l) | BRegions s l => TRegions s (length l)
  | BCache s l c m => TCache s (length l) (length c) (length m)
  end.
Definition check_case (c : list op * list obs) : list (nat * option otag * option otag) :=
  map (fun d => let '(n, e, g) := d in (n, option_map tag e, option_map tag g))
      (diff_at obs_eqb 0 (model_obs (fst c)) (snd c)).

Fixpoint mismatches_from (n : nat) (cs : list (list op * list obs)) :=
  match cs with
  | [] => []
  | c :: r => match check_case c with
              | [] => mismatches_from (S n) r
              | d => (n, d) :: mismatches_from (S n) r
              end
  end.
Definition mismatches := mismatches_from 0.

(* ------------------------------------------------------------------------------------------ *)
(* 5. monitor: the property on the implementation's own trace (no paging, no batch)           *)
(* ------------------------------------------------------------------------------------------ *)
Local Open Scope string_scope.
Local Open Scope Z_scope.
Local Open Scope list_scope.

(* what the history asks for: plain map semantics of save / delete *)
Record want := W {
  w_stores : amap Z; w_lw : amap Z; w_rw : amap Z;
  w_regions : amap rv;       (* regions saved and not deleted, whichever backend *)
  w_known : bool;            (* false after a crash / while unflushed saves exist in region-storage mode *)
  w_rs : bool;
  w_deleted : list (Z * bool); (* ids deleted since they were last saved; true = the save was still unflushed *)
  w_pending : list Z;        (* region-storage mode: ids saved since the last explicit flush *)
  w_unsure : list (bool * Z) (* (true = store, id): a write of it returned an error, it may or may not have been applied *)
}.
Definition winit : want := W [] [] [] [] true false [] [] [].

(* an errored write is resolved by what the next complete load shows: either outcome is allowed *)
Definition unsure_ids (st : bool) (u : list (bool * Z)) : list Z := map snd (filter (fun x => Bool.eqb (fst x) st) u).
Definition resolve_regions (want_l got : amap rv) (ids : list Z) : amap rv :=
  fold_left (fun m id => match lookup got id with Some v => put m id v | None => del m id end) ids want_l.
Definition find_store (got : list (Z * Z * Z * Z)) (id : Z) : option (Z * Z * Z) :=
  match find (fun x => let '(k, _, _, _) := x in k =? id) got with Some (_, p, l, r) => Some (p, l, r) | None => None end.
Definition resolve_stores (w : amap Z * amap Z * amap Z) (got : list (Z * Z * Z * Z)) (ids : list Z) : amap Z * amap Z * amap Z :=
  fold_left (fun t id => let '(st, lw, rw) := t in
                         match find_store got id with
                         | Some (p, l, r) => (put st id p, put lw id l, put rw id r)
                         | None => (del st id, lw, rw)
                         end) ids w.
Definition del_sig (k : Z) (deleted : list (Z * bool)) : option string :=
  match find (fun d => fst d =? k) deleted with
  | Some (_, true) => Some "C17:region-storage:deleted-region-still-loaded"
  | Some (_, false) => Some "C17:load:deleted-region-still-loaded"
  | None => None
  end.

Fixpoint sorted_ids_b {V} (lo : Z) (l : list (Z * V)) : bool :=
  match l with [] => true | x :: r => (lo <=? fst x) && sorted_ids_b (fst x + 1) r end.

(* compare a loaded list with the wanted content; both sorted by id *)
Fixpoint diff_load (want_l got : list (Z * rv)) (deleted : list (Z * bool)) : option string :=
  match want_l, got with
  | [], [] => None
  | (k, v) :: wr, [] => Some (if k =? max_id then "C17:load:max-id-never-loaded" else "C17:load:saved-region-missing")
  | [], (k, _) :: _ => Some (match del_sig k deleted with Some sg => sg | None => "C17:load:unsaved-region-loaded" end)
  | (k, v) :: wr, (k', v') :: gr =>
      if k =? k' then (if rv_eqb v v' then diff_load wr gr deleted else Some "C17:load:region-value-differs")
      else if k <? k' then Some (if k =? max_id then "C17:load:max-id-never-loaded" else "C17:load:saved-region-missing")
      else Some (match del_sig k' deleted with Some sg => sg | None => "C17:load:unsaved-region-loaded" end)
  end.

Fixpoint diff_stores (want_l : list (Z * Z)) (lw rw : amap Z) (got : list (Z * Z * Z * Z)) : option string :=
  match want_l, got with
  | [], [] => None
  | (k, _) :: _, [] => Some (if k =? max_id then "C17:load:max-id-never-loaded" else "C17:load:saved-store-missing")
  | [], _ :: _ => Some "C17:load:unsaved-store-loaded"
  | (k, p) :: wr, (k', p', l', r') :: gr =>
      if k =? k' then
        if negb (p =? p') then Some "C17:load:store-value-differs"
        else if negb ((weight_of lw k =? l') && (weight_of rw k =? r')) then Some "C17:load:store-weight-differs"
        else diff_stores wr lw rw gr
      else if k <? k' then Some (if k =? max_id then "C17:load:max-id-never-loaded" else "C17:load:saved-store-missing")
      else Some "C17:load:unsaved-store-loaded"
  end.

Fixpoint pairwise_disjoint (l : list (Z * rv)) : bool :=
  match l with [] => true | x :: r => forallb (fun y => negb (intersects (snd x) (snd y))) r && pairwise_disjoint r end.

(* region-storage mode: saves not yet covered by an explicit flush — a load (it reads leveldb only) is then not
   compared with the wanted content; the pruning clauses (cache vs storage) are judged regardless *)
Definition dirty (w : want) : bool := match w_pending w with [] => false | _ => true end.

Definition w_save (w : want) (id : Z) (v : rv) : want :=
  W (w_stores w) (w_lw w) (w_rw w) (put (w_regions w) id v) (w_known w) (w_rs w)
    (filter (fun d => negb (fst d =? id)) (w_deleted w)) (if w_rs w then id :: w_pending w else w_pending w) (w_unsure w).
Definition w_delete (w : want) (id : Z) : want :=
  W (w_stores w) (w_lw w) (w_rw w) (del (w_regions w) id) (w_known w) (w_rs w)
    ((id, memZ id (w_pending w)) :: w_deleted w) (w_pending w) (w_unsure w).
Definition w_flush (w : want) : want :=
  W (w_stores w) (w_lw w) (w_rw w) (w_regions w) (w_known w) (w_rs w) (w_deleted w) [] (w_unsure w).
Definition w_crash (w : want) : want :=
  W (w_stores w) (w_lw w) (w_rw w) (w_regions w) false (w_rs w) (w_deleted w) [] (w_unsure w).

Fixpoint mon (w : want) (ops : list op) (obs_l : list obs) : option string :=
  match ops, obs_l with
  | o :: r, b :: br =>
      match o, b with
      | OSaveStore id p, _ => mon (W (put (w_stores w) id p) (w_lw w) (w_rw w) (w_regions w) (w_known w) (w_rs w) (w_deleted w) (w_pending w) (w_unsure w)) r br
      | ODeleteStore id, _ => mon (W (del (w_stores w) id) (del (w_lw w) id) (del (w_rw w) id) (w_regions w) (w_known w) (w_rs w) (w_deleted w) (w_pending w) (w_unsure w)) r br
      | OSaveWeight id l rw, _ => mon (W (w_stores w) (put (w_lw w) id l) (put (w_rw w) id rw) (w_regions w) (w_known w) (w_rs w) (w_deleted w) (w_pending w) (w_unsure w)) r br
      | OLoadStores, BStores st got =>
          match st with
          | RDone =>
              let '(st', lw', rw') := resolve_stores (w_stores w, w_lw w, w_rw w) got (unsure_ids true (w_unsure w)) in
              match diff_stores st' lw' rw' got with
              | Some sg => Some sg
              | None => mon (W st' lw' rw' (w_regions w) (w_known w) (w_rs w) (w_deleted w) (w_pending w)
                               (filter (fun x => negb (fst x)) (w_unsure w))) r br
              end
          | RDiverged => Some "C17:load:endless-scan"
          | RFailed => Some "C17:load:stores-load-did-not-finish"
          end
      | OSaveRegion id v, _ =>
          mon (W (w_stores w) (w_lw w) (w_rw w) (put (w_regions w) id v)
                 (* in region-storage mode the save is only promised after the next flush *)
                 (w_known w) (w_rs w) (filter (fun d => negb (fst d =? id)) (w_deleted w))
                 (if w_rs w then id :: w_pending w else w_pending w) (w_unsure w)) r br
      | ODeleteRegion id, _ =>
          mon (W (w_stores w) (w_lw w) (w_rw w) (del (w_regions w) id) (w_known w) (w_rs w) ((id, memZ id (w_pending w)) :: w_deleted w) (w_pending w) (w_unsure w)) r br
      | OSwitch rs, _ =>
          (* the two backends hold different sets: what is wanted is no longer tracked *)
          mon (W (w_stores w) (w_lw w) (w_rw w) (w_regions w) (if Bool.eqb rs (w_rs w) || (match w_regions w with [] => true | _ => false end) then w_known w else false) rs (w_deleted w) (w_pending w) (w_unsure w)) r br
      | OCrash, _ => mon (W (w_stores w) (w_lw w) (w_rw w) (w_regions w) false (w_rs w) (w_deleted w) [] (w_unsure w)) r br
      | OFlush, _ | OReopen, _ =>
          mon (W (w_stores w) (w_lw w) (w_rw w) (w_regions w) (w_known w) (w_rs w) (w_deleted w) [] (w_unsure w)) r br
      | OBudget _, _ => mon w r br
      | OLoadRegions, BRegions st got | OLoadOnce, BRegions st got | OLoadOnceCorrupt _, BRegions st got =>
          if negb (sorted_ids_b 0 got) then Some "C17:load:region-loaded-twice-or-out-of-order"
          else match st with
               | RDone =>
                   if dirty w then mon w r br
                   else if w_known w then
                     let want' := resolve_regions (w_regions w) got (unsure_ids false (w_unsure w)) in
                     match diff_load want' got (w_deleted w) with
                     | Some sg => Some sg
                     | None => mon (W (w_stores w) (w_lw w) (w_rw w) want' true (w_rs w) (w_deleted w) (w_pending w)
                                      (filter fst (w_unsure w))) r br
                     end
                   else (* resynchronise on what the storage really holds *)
                     mon (W (w_stores w) (w_lw w) (w_rw w) got true (w_rs w) [] (w_pending w) (filter fst (w_unsure w))) r br
               | RDiverged => Some "C17:load:endless-scan"
               | RFailed => mon w r br   (* a failed load promises nothing *)
               end
      | OLoadOnce, BSkipped => mon w r br
      | OLoadOnce, BEarly => Some "C17:load-once:returned-before-first-load-finished"
      | OLoadOnceCorrupt _, BSkipped => mon w r br
      | OSaveStoreF id _ _, BErr | ODeleteStoreF id _, BErr | OSaveWeightF id _ _ _ _, BErr =>
          mon (W (w_stores w) (w_lw w) (w_rw w) (w_regions w) (w_known w) (w_rs w) (w_deleted w) (w_pending w) ((true, id) :: w_unsure w)) r br
      | OSaveRegionF id _ _, BErr | ODeleteRegionF id _, BErr =>
          mon (W (w_stores w) (w_lw w) (w_rw w) (w_regions w) (w_known w) (w_rs w) (w_deleted w) (w_pending w) ((false, id) :: w_unsure w)) r br
      | OSaveRegionF id v _, BUnit => mon (w_save w id v) r br
      | ODeleteRegionF id _, BUnit => mon (w_delete w id) r br
      | OTick, _ => mon (w_flush w) r br
      | OFlushF, _ => mon w r br
      | OCrashInFlush _, _ => mon (w_crash w) r br
      | OLoadOnceIntoCache, BSkipped => mon w r br
      | OLoadWarm cached, BCache st loaded c after =>
          match st with
          | RDone =>
              if negb (pairwise_disjoint c) then Some "C17:prune:cache-overlaps"
              (* every record left in storage describes the cached region of its id *)
              else if negb (forallb (fun it => existsb (item_eqb it) c) after) then Some "C17:prune:storage-differs-from-cache"
              (* a region that is served and had a record before the load still has one *)
              else if negb (forallb (fun it => negb (existsb (fun x => fst x =? fst it) loaded) || existsb (fun x => fst x =? fst it) after) c)
                   then Some "C17:prune:record-of-served-region-deleted"
              else mon (W (w_stores w) (w_lw w) (w_rw w) after true (w_rs w) [] (w_pending w) (filter fst (w_unsure w))) r br
          | RDiverged => Some "C17:load:endless-scan"
          | RFailed => mon (W (w_stores w) (w_lw w) (w_rw w) after false (w_rs w) [] (w_pending w) (w_unsure w)) r br
          end
      | OLoadIntoCache, BCache st loaded c after | OLoadOnceIntoCache, BCache st loaded c after =>
          match st with
          | RDone =>
              match (if w_known w && negb (dirty w)
                     then diff_load (resolve_regions (w_regions w) loaded (unsure_ids false (w_unsure w))) loaded (w_deleted w) else None) with
              | Some sg => Some sg
              | None =>
              if negb (sorted_ids_b 0 loaded) then Some "C17:load:region-loaded-twice-or-out-of-order"
              else if negb (pairwise_disjoint c) then Some "C17:prune:cache-overlaps"
              else if list_eqb item_eqb c after
                   then (if dirty w
                         then mon (W (w_stores w) (w_lw w) (w_rw w) (w_regions w) false (w_rs w) (w_deleted w) (w_pending w) (w_unsure w)) r br
                         else mon (W (w_stores w) (w_lw w) (w_rw w) after true (w_rs w) [] (w_pending w) (filter fst (w_unsure w))) r br)
              else if list_eqb item_eqb c (filter (fun it => negb (fst it =? max_id)) after)
                   then Some "C17:prune:max-id-left-in-storage"
              else Some "C17:prune:storage-differs-from-cache"
              end
          | RDiverged => Some "C17:load:endless-scan"
          | RFailed => mon (W (w_stores w) (w_lw w) (w_rw w) after false (w_rs w) [] (w_pending w) (w_unsure w)) r br
          end
      | _, _ => Some "C17:unexpected-answer"
      end
  | _, _ => None
  end.

Definition monitor (c : list op * list obs) : option string := mon winit (fst c) (snd c).

Fixpoint monitor_fails_from (n : nat) (cs : list (list op * list obs)) : list (nat * string) :=
  match cs with
  | [] => []
  | c :: r => match monitor c with
              | None => monitor_fails_from (S n) r
              | Some sg => (n, sg) :: monitor_fails_from (S n) r
              end
  end.
Definition monitor_fails := monitor_fails_from 0.
