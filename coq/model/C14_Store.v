(* C14 — executable model of the store lifecycle code of server/cluster/cluster.go
   (putStoreImpl / PutStore / UpdateStoreLabels / RemoveStore / UpStore / buryStore / checkStores /
   SetStoreWeight / RemoveTombStoneRecords / HandleStoreHeartbeat / the store side of
   processRegionHeartbeat), of the gRPC guards checkStore + PutStore + StoreHeartbeat
   (server/grpc_service.go), of StoreInfo.MergeLabels (server/core/store.go) and of the storage
   layout of server/core/storage.go (one meta record per store + two separate weight keys).
   Definitions only; proofs live in proof/C14_StoreProof.v.

   Faithfulness notes (the code as it is, after the fix commits 7f1a0f1, 0d04e9a, eebcdab, 672f6cb in /repo):
   * MergeLabels works on a copy of the served labels; nothing served changes before the save.
   * weights are stored under two keys of their own, written before the meta record; when one of the
     three writes fails the two keys are put back (best effort: the restoring writes are not faulted
     here, a fault is a single failing write per operation).
   * DeleteStore removes the two weight keys, then the record, and puts the keys back if that fails.
   * buryStore itself has no emptiness guard; checkStores (its only caller) has.
   * a storage write can fail before it is applied (FBefore) or after (FAfter, unknown outcome). *)
From Coq Require Import String Ascii.
From PDV Require Import lib.Base lib.C14_AList.
Local Open Scope string_scope.
Local Open Scope Z_scope.

(* ---------- basic data ---------- *)
Inductive sstate := Up | Offline | Tombstone.
Definition sstate_eqb (a b : sstate) : bool :=
  match a, b with Up, Up | Offline, Offline | Tombstone, Tombstone => true | _, _ => false end.

Definition ver := (Z * Z * Z)%type.
Definition ver_lt (a b : ver) : bool :=
  let '(a1, a2, a3) := a in let '(b1, b2, b3) := b in
  (a1 <? b1) || ((a1 =? b1) && ((a2 <? b2) || ((a2 =? b2) && (a3 <? b3)))).
Definition ver_eqb (a b : ver) : bool :=
  let '(a1, a2, a3) := a in let '(b1, b2, b3) := b in (a1 =? b1) && (a2 =? b2) && (a3 =? b3).
(* versioninfo.IsCompatible(cluster, store) *)
Definition compatible (c v : ver) : bool :=
  ver_lt c v || (let '(c1, c2, _) := c in let '(v1, v2, _) := v in (c1 =? v1) && (c2 =? v2)).

Definition label := (string * string)%type.
Definition lower_ascii (c : ascii) : ascii :=
  let n := nat_of_ascii c in
  if (Nat.leb 65 n && Nat.leb n 90)%bool then ascii_of_nat (n + 32) else c.
Fixpoint lower (s : string) : string :=
  match s with EmptyString => EmptyString | String c r => String (lower_ascii c) (lower r) end.
(* strings.EqualFold on ASCII keys *)
Definition fold_eq (a b : string) : bool := String.eqb (lower a) (lower b).

(* first loop of MergeLabels (on a copy of the served labels): the first label whose key matches, ignoring
   case, takes the new value; an unknown key is appended *)
Fixpoint set_first (k v : string) (w : list label) : option (list label) :=
  match w with
  | [] => None
  | (k', v') :: r =>
      if fold_eq k' k then Some ((k', v) :: r)
      else match set_first k v r with Some r' => Some ((k', v') :: r') | None => None end
  end.
Fixpoint merge_phase1 (w : list label) (new : list label) : list label :=
  match new with
  | [] => w
  | (k, v) :: r =>
      match set_first k v w with
      | Some w' => merge_phase1 w' r
      | None => merge_phase1 (w ++ [(k, v)]) r
      end
  end.
Definition nonempty_val (x : label) : bool := negb (String.eqb (snd x) "").
(* MergeLabels: labels with an empty value are dropped from the result *)
Definition merge_labels (served new : list label) : list label := filter nonempty_val (merge_phase1 served new).

Record meta := Meta { m_addr : string; m_state : sstate; m_pd : bool; m_labels : list label; m_ver : ver }.

Record sstore := SStore {
  s_addr : string; s_state : sstate; s_pd : bool; s_labels : list label; s_ver : ver;
  s_lw : Z; s_rw : Z;          (* leaderWeight, regionWeight (the harness uses integral weights) *)
  s_rcf : Z;                   (* StoreInfo.regionCount, refreshed by region heartbeats *)
  s_hbp : bool                 (* lastPersistTime is set (NeedPersist is false for 5 minutes) *)
}.
Definition meta_of (x : sstore) : meta := Meta (s_addr x) (s_state x) (s_pd x) (s_labels x) (s_ver x).

(* the part of the replication configuration the store operations read: location-labels, strictly-match-label,
   enable-placement-rules (changed by the operation OSetEnv, i.e. a replication-config update) *)
Record env := Env { e_loc : list string; e_strict : bool; e_pr : bool }.
Record state := State {
  served : amap sstore;              (* BasicCluster.Stores *)
  st_meta : amap meta;               (* storage: raft/s/<id> *)
  st_lw : amap Z; st_rw : amap Z;    (* storage: schedule/store_weight/<id>/{leader,region} *)
  regions : amap (list Z);           (* region id -> store ids holding a peer *)
  cver : ver;                        (* cluster version (PersistOptions) *)
  cenv : env                         (* the replication settings PutStore looks at *)
}.

(* ---------- faults ---------- *)
Inductive fkind := FBefore | FAfter.
Inductive fault := NoFault | Fault (sid : Z) (idx : nat) (k : fkind).
(* outcome of the idx-th store-record write of this operation that concerns store sid:
   (applied to storage?, acknowledged to the caller?) *)
Definition wr (f : fault) (sid : Z) (idx : nat) : bool * bool :=
  match f with
  | Fault s i k => if ((s =? sid) && Nat.eqb i idx)%bool
                   then match k with FBefore => (false, false) | FAfter => (true, false) end
                   else (true, true)
  | NoFault => (true, true)
  end.

(* ---------- operations and observations ---------- *)
Record payload := Payload {
  p_id : Z; p_addr : string; p_state : sstate; p_pd : bool; p_labels : list label;
  p_ver : option ver                 (* None = a version string that does not parse *)
}.

Inductive op :=
| OPut (grpc : bool) (p : payload) (f : fault)     (* RaftCluster.PutStore, or the gRPC handler *)
| OLabels (id : Z) (ls : list label) (force : bool) (f : fault)   (* UpdateStoreLabels *)
| ORemove (id : Z) (pd : bool) (f : fault)
| OUp (id : Z) (f : fault)
| OBury (id : Z) (f : fault)                        (* hook: buryStore called directly *)
| OCheck (order : list Z) (f : fault)               (* hook: one round of checkStores; order = map iteration order the run took *)
| OWeight (id : Z) (lw rw : Z) (f : fault)
| OClean (order : list Z) (f : fault)               (* RemoveTombStoneRecords; order = map iteration order the run took *)
| OHeartbeat (id : Z) (f : fault)                   (* gRPC StoreHeartbeat *)
| ORegion (r : Z) (stores : list Z)                 (* region heartbeat: region r now has peers on these stores *)
| OSetEnv (e : env).                                (* the replication settings change (location-labels, strictly-match-label, enable-placement-rules) *)

Inductive res :=
| ROk | RNone | RNotFound | RTombstone | RDestroyed | RIsUp | RHasPeers | RInvalid | RVersion | RDupAddr
| RStorage | RGrpcTombstone | RPanic | RBad
| RLabel                     (* checkStoreLabels with strictly-match-label: a location label is missing or a label key is unknown *)
| RTiFlash.                  (* gRPC PutStore of a TiFlash store while placement rules are disabled *)

Record view := View {
  v_addr : string; v_state : sstate; v_pd : bool; v_labels : list label; v_ver : ver;
  v_lw : Z; v_rw : Z; v_rcf : Z }.
Record obs := Obs { o_res : res; o_served : list (Z * view); o_stored : list (Z * view) }.

(* ---------- helpers ---------- *)
Definition sv (s : state) (id : Z) : option sstore := aget (served s) id.
Definition is_tomb (x : sstore) : bool := sstate_eqb (s_state x) Tombstone.
Definition live (x : sstore) : bool := negb (is_tomb x) && negb (s_pd x).

Definition set_served (s : state) (id : Z) (x : sstore) : state :=
  State (aset (served s) id x) (st_meta s) (st_lw s) (st_rw s) (regions s) (cver s) (cenv s).
Definition del_served (s : state) (id : Z) : state :=
  State (adel (served s) id) (st_meta s) (st_lw s) (st_rw s) (regions s) (cver s) (cenv s).
Definition write_meta (s : state) (id : Z) (m : meta) : state :=
  State (served s) (aset (st_meta s) id m) (st_lw s) (st_rw s) (regions s) (cver s) (cenv s).
Definition del_meta (s : state) (id : Z) : state :=
  State (served s) (adel (st_meta s) id) (st_lw s) (st_rw s) (regions s) (cver s) (cenv s).
Definition write_lw (s : state) (id w : Z) : state :=
  State (served s) (st_meta s) (aset (st_lw s) id w) (st_rw s) (regions s) (cver s) (cenv s).
Definition write_rw (s : state) (id w : Z) : state :=
  State (served s) (st_meta s) (st_lw s) (aset (st_rw s) id w) (regions s) (cver s) (cenv s).
Definition set_cver (s : state) (v : ver) : state :=
  State (served s) (st_meta s) (st_lw s) (st_rw s) (regions s) v (cenv s).
Definition set_regions (s : state) (r : amap (list Z)) : state :=
  State (served s) (st_meta s) (st_lw s) (st_rw s) r (cver s) (cenv s).

(* putStoreLocked: SaveStore (write number idx of this op on this store), then the cache *)
Definition put_locked (s : state) (id : Z) (x : sstore) (f : fault) (idx : nat) : state * bool :=
  let '(applied, ok) := wr f id idx in
  let s1 := if applied then write_meta s id (meta_of x) else s in
  if ok then (set_served s1 id x, true) else (s1, false).

(* onStoreVersionChangeLocked: raise the cluster version to the minimum over non-tombstone stores *)
Definition min_ver (m : amap sstore) : option ver :=
  fold_right (fun (e : Z * sstore) acc =>
                if is_tomb (snd e) then acc
                else match acc with
                     | None => Some (s_ver (snd e))
                     | Some a => if ver_lt (s_ver (snd e)) a then Some (s_ver (snd e)) else Some a
                     end) None m.
Definition version_change (s : state) : state :=
  match min_ver (served s) with
  | Some v => if ver_lt (cver s) v then set_cver s v else s
  | None => s
  end.

Definition tree_count (s : state) (id : Z) : Z :=
  Z.of_nat (length (filter (fun e : Z * list Z => existsb (Z.eqb id) (snd e)) (regions s))).

(* checkStoreLabels: only with strictly-match-label an error; StoreInfo.GetLabelValue folds case, the key set does not *)
Definition label_value (ls : list label) (k : string) : string :=
  match find (fun l : label => fold_eq (fst l) k) ls with Some l => snd l | None => "" end.
Definition labels_rejected (e : env) (ls : list label) : bool :=
  e_strict e && (existsb (fun k => String.eqb (label_value ls k) "") (e_loc e)
                 || existsb (fun l : label => negb (existsb (String.eqb (fst l)) (e_loc e))) ls).
Definition is_tiflash (ls : list label) : bool :=
  existsb (fun l : label => String.eqb (fst l) "engine" && String.eqb (snd l) "tiflash") ls.
Definition set_env (s : state) (e : env) : state :=
  State (served s) (st_meta s) (st_lw s) (st_rw s) (regions s) (cver s) e.

Definition dup_addr (s : state) (id : Z) (a : string) : bool :=
  existsb (fun e : Z * sstore => live (snd e) && negb (fst e =? id) && String.eqb (s_addr (snd e)) a) (served s).

(* putStoreImpl. Returns the new state and the result. *)
Definition put_impl (s : state) (p : payload) (force : bool) (f : fault) : state * res :=
  if p_id p =? 0 then (s, RInvalid) else
  match p_ver p with
  | None => (s, RInvalid)
  | Some v =>
    if negb (compatible (cver s) v) then (s, RVersion) else
    if dup_addr s (p_id p) (p_addr p) then (s, RDupAddr) else
    match sv s (p_id p) with
    | None =>
        let x := SStore (p_addr p) (p_state p) (p_pd p) (p_labels p) v 1 1 0 false in
        if labels_rejected (cenv s) (p_labels p) then (s, RLabel) else
        let '(s1, ok) := put_locked s (p_id p) x f 0 in (s1, if ok then ROk else RStorage)
    | Some old =>
        let ls := if force then p_labels p else merge_labels (s_labels old) (p_labels p) in
        let x := SStore (p_addr p) (s_state old) (s_pd old) ls v (s_lw old) (s_rw old) (s_rcf old) (s_hbp old) in
        if labels_rejected (cenv s) ls then (s, RLabel) else
        let '(s1, ok) := put_locked s (p_id p) x f 0 in (s1, if ok then ROk else RStorage)
    end
  end.

Definition do_put (s : state) (p : payload) (f : fault) : state * res :=
  let '(s1, r) := put_impl s p false f in
  match r with ROk => (version_change s1, ROk) | _ => (s1, r) end.

Definition do_labels (s : state) (id : Z) (ls : list label) (force : bool) (f : fault) : state * res :=
  match sv s id with
  | None => (s, RNotFound)
  | Some x => put_impl s (Payload id (s_addr x) (s_state x) (s_pd x) ls (Some (s_ver x))) force f
  end.

Definition with_state (x : sstore) (st : sstate) (pd : bool) : sstore :=
  SStore (s_addr x) st pd (s_labels x) (s_ver x) (s_lw x) (s_rw x) (s_rcf x) (s_hbp x).

Definition do_remove (s : state) (id : Z) (pd : bool) (f : fault) : state * res :=
  match sv s id with
  | None => (s, RNotFound)
  | Some x =>
      if sstate_eqb (s_state x) Offline && Bool.eqb (s_pd x) pd then (s, ROk)
      else if is_tomb x then (s, RTombstone)
      else if s_pd x then (s, RDestroyed)
      else let '(s1, ok) := put_locked s id (with_state x Offline pd) f 0 in (s1, if ok then ROk else RStorage)
  end.

Definition do_up (s : state) (id : Z) (f : fault) : state * res :=
  match sv s id with
  | None => (s, RNotFound)
  | Some x =>
      if is_tomb x then (s, RTombstone)
      else if s_pd x then (s, RDestroyed)
      else if sstate_eqb (s_state x) Up then (s, ROk)
      else let '(s1, ok) := put_locked s id (with_state x Up (s_pd x)) f 0 in (s1, if ok then ROk else RStorage)
  end.

Definition do_bury (s : state) (id : Z) (f : fault) : state * res :=
  match sv s id with
  | None => (s, RNotFound)
  | Some x =>
      if is_tomb x then (s, ROk)
      else if sstate_eqb (s_state x) Up then (s, RIsUp)
      (* fix 2f015b8: the region tree is looked at again under the lock (checkStores read it without) *)
      else if negb (tree_count s id =? 0) then (s, RHasPeers)
      else let '(s1, ok) := put_locked s id (with_state x Tombstone (s_pd x)) f 0 in
           (version_change s1, if ok then ROk else RStorage)
  end.

(* checkStores: every offline store without region peers is buried; errors are only logged.
   The Go code ranges over a map: the order in which stores are buried is not determined, and it
   matters for the cluster version (burying the last live store leaves the minimum computed just
   before). `order` is the order the run took (read off the storage write log); the stores it does
   not mention are visited afterwards in id order. *)
Definition check_one (f : fault) (acc : state) (id : Z) : state :=
  match sv acc id with
  | Some x =>
      if is_tomb x || sstate_eqb (s_state x) Up then acc
      else if tree_count acc id =? 0 then fst (do_bury acc id f) else acc
  | None => acc
  end.
Definition do_check (s : state) (order : list Z) (f : fault) : state :=
  fold_left (check_one f) (order ++ map fst (served s)) s.

(* put a weight key back to what it was: Save(old), or Remove when there was none *)
Definition restore_w (m : amap Z) (id : Z) (old : option Z) : amap Z :=
  match old with Some w => aset m id w | None => adel m id end.
Definition restore_weights (s s0 : state) (id : Z) : state :=   (* s0: the state whose weight keys are to be restored in s *)
  State (served s) (st_meta s) (restore_w (st_lw s) id (aget (st_lw s0) id)) (restore_w (st_rw s) id (aget (st_rw s0) id))
        (regions s) (cver s) (cenv s).

(* SetStoreWeight: leader key (write 0), region key (write 1), meta record (write 2).  When one of them fails the two
   weight keys are put back: by SaveStoreWeight itself for its own writes, by SetStoreWeight (which saves the served
   weights again) for the meta record.  The restoring writes come after the single failing write of the operation. *)
Definition do_weight (s : state) (id lw rw : Z) (f : fault) : state * res :=
  match sv s id with
  | None => (s, RNotFound)
  | Some x =>
      let '(a0, ok0) := wr f id 0 in
      let s0 := if a0 then write_lw s id lw else s in
      if negb ok0 then (restore_weights s0 s id, RStorage) else
      let '(a1, ok1) := wr f id 1 in
      let s1 := if a1 then write_rw s0 id rw else s0 in
      if negb ok1 then (restore_weights s1 s id, RStorage) else
      let x' := SStore (s_addr x) (s_state x) (s_pd x) (s_labels x) (s_ver x) lw rw (s_rcf x) (s_hbp x) in
      let '(s2, ok) := put_locked s1 id x' f 2 in
      if ok then (s2, ROk) else (write_rw (write_lw s2 id (s_lw x)) id (s_rw x), RStorage)
  end.

(* RemoveTombStoneRecords, following the iteration order the implementation took *)
(* Storage.DeleteStore: leader key (write 0), region key (write 1), record (write 2); the keys are put back if one fails *)
Definition delete_store (s : state) (id : Z) (f : fault) : state * bool :=
  let '(a0, ok0) := wr f id 0 in
  let s0 := if a0 then State (served s) (st_meta s) (adel (st_lw s) id) (st_rw s) (regions s) (cver s) (cenv s) else s in
  if negb ok0 then (restore_weights s0 s id, false) else
  let '(a1, ok1) := wr f id 1 in
  let s1 := if a1 then State (served s0) (st_meta s0) (st_lw s0) (adel (st_rw s0) id) (regions s0) (cver s0) (cenv s0) else s0 in
  if negb ok1 then (restore_weights s1 s id, false) else
  let '(a2, ok2) := wr f id 2 in
  let s2 := if a2 then del_meta s1 id else s1 in
  if negb ok2 then (restore_weights s2 s id, false) else (s2, true).

Fixpoint clean_loop (s : state) (order : list Z) (f : fault) : state * res :=
  match order with
  | [] => (s, ROk)
  | id :: r =>
      match sv s id with
      | Some x =>
          if is_tomb x && (s_rcf x <=? 0) then
            let '(s1, ok) := delete_store s id f in
            if ok then clean_loop (del_served s1 id) r f else (s1, RStorage)
          else clean_loop s r f
      | None => clean_loop s r f
      end
  end.
Definition cleanable (s : state) : bool :=
  existsb (fun e : Z * sstore => is_tomb (snd e) && (s_rcf (snd e) <=? 0)) (served s).
Definition do_clean (s : state) (order : list Z) (f : fault) : state * res :=
  let '(s1, r) := clean_loop s order f in
  match r with
  | ROk => if cleanable s1 then (s1, RBad) else (s1, ROk)   (* the order list must cover every deletable record *)
  | _ => (s1, r)
  end.

Definition do_heartbeat (s : state) (id : Z) (f : fault) : state * res :=
  match sv s id with
  | None => (s, RNotFound)
  | Some x =>
      if is_tomb x then (s, RGrpcTombstone)
      else
        (* NeedPersist: only when lastPersistTime is unset; a failed SaveStore is only logged *)
        let '(applied, ok) := if s_hbp x then (false, true) else wr f id 0 in
        let s1 := if applied then write_meta s id (meta_of x) else s in
        let x' := SStore (s_addr x) (s_state x) (s_pd x) (s_labels x) (s_ver x) (s_lw x) (s_rw x) (s_rcf x) (s_hbp x || ok) in
        (* hotStat.Observe / FilterUnhealthyStore only touch statistics (a statistics entry whose store is gone is dropped) *)
        (set_served s1 id x', ROk)
  end.

Definition refresh_rcf (s : state) (id : Z) : state :=
  match sv s id with
  | Some x => set_served s id (SStore (s_addr x) (s_state x) (s_pd x) (s_labels x) (s_ver x) (s_lw x) (s_rw x) (tree_count s id) (s_hbp x))
  | None => s
  end.
Definition do_region (s : state) (r : Z) (stores : list Z) : state :=
  let old := match aget (regions s) r with Some l => l | None => [] end in
  let s1 := set_regions s (aset (regions s) r stores) in
  fold_left refresh_rcf (stores ++ old) s1.

Definition run_cmd (s : state) (o : op) : state * res :=
  match o with
  | OPut grpc p f =>
      if grpc then
        let tiflash_guard := negb (e_pr (cenv s)) && is_tiflash (p_labels p) in
        match sv s (p_id p) with
        | Some x => if is_tomb x then (s, RGrpcTombstone) else if tiflash_guard then (s, RTiFlash) else do_put s p f
        | None => if tiflash_guard then (s, RTiFlash) else do_put s p f
        end
      else do_put s p f
  | OLabels id ls force f => do_labels s id ls force f
  | ORemove id pd f => do_remove s id pd f
  | OUp id f => do_up s id f
  | OBury id f => do_bury s id f
  | OCheck order f => (do_check s order f, RNone)
  | OWeight id lw rw f => do_weight s id lw rw f
  | OClean order f => do_clean s order f
  | OHeartbeat id f => do_heartbeat s id f
  | ORegion r stores => (do_region s r stores, ROk)
  | OSetEnv e => (set_env s e, ROk)
  end.
(* ---------- observations ---------- *)
Definition view_served (x : sstore) : view :=
  View (s_addr x) (s_state x) (s_pd x) (s_labels x) (s_ver x) (s_lw x) (s_rw x) (s_rcf x).
(* what LoadStores builds: the meta record plus the two weight keys (default 1) *)
Definition view_stored (s : state) (id : Z) (m : meta) : view :=
  View (m_addr m) (m_state m) (m_pd m) (m_labels m) (m_ver m)
       (match aget (st_lw s) id with Some w => w | None => 1 end)
       (match aget (st_rw s) id with Some w => w | None => 1 end) 0.
Definition snapshot (s : state) (r : res) : obs :=
  Obs r (map (fun e : Z * sstore => (fst e, view_served (snd e))) (served s))
        (map (fun e : Z * meta => (fst e, view_stored s (fst e) (snd e))) (st_meta s)).

Definition run_op (s : state) (o : op) : state * obs :=
  let '(s', r) := run_cmd s o in (s', snapshot s' r).

(* the state right after a leader loaded a storage that holds exactly one store *)
Definition boot (cv : ver) (p : payload) : state :=
  let v := match p_ver p with Some v => v | None => (0, 0, 0) end in
  State [(p_id p, SStore (p_addr p) (p_state p) (p_pd p) (p_labels p) v 1 1 0 false)]
        [(p_id p, Meta (p_addr p) (p_state p) (p_pd p) (p_labels p) v)] [] [] [] cv (Env [] false true).

(* ---------- equality of observations ---------- *)
Definition label_eqb (a b : label) : bool := String.eqb (fst a) (fst b) && String.eqb (snd a) (snd b).
Definition res_eqb (a b : res) : bool :=
  match a, b with
  | ROk, ROk | RNone, RNone | RNotFound, RNotFound | RTombstone, RTombstone | RDestroyed, RDestroyed
  | RIsUp, RIsUp | RHasPeers, RHasPeers | RInvalid, RInvalid | RVersion, RVersion | RDupAddr, RDupAddr | RStorage, RStorage
  | RGrpcTombstone, RGrpcTombstone | RPanic, RPanic | RBad, RBad | RLabel, RLabel | RTiFlash, RTiFlash => true
  | _, _ => false
  end.
(* lifecycle / identity projection: everything but the region-count statistic *)
Definition view_eqb_proj (a b : view) : bool :=
  String.eqb (v_addr a) (v_addr b) && sstate_eqb (v_state a) (v_state b) && Bool.eqb (v_pd a) (v_pd b)
  && list_eqb label_eqb (v_labels a) (v_labels b) && ver_eqb (v_ver a) (v_ver b)
  && (v_lw a =? v_lw b) && (v_rw a =? v_rw b).
Definition view_eqb (a b : view) : bool := view_eqb_proj a b && (v_rcf a =? v_rcf b).
Definition entry_eqb (a b : Z * view) : bool := (fst a =? fst b) && view_eqb (snd a) (snd b).
Definition obs_eqb (a b : obs) : bool :=
  res_eqb (o_res a) (o_res b) && list_eqb entry_eqb (o_served a) (o_served b)
  && list_eqb entry_eqb (o_stored a) (o_stored b).

(* one case = boot parameters, the operations the harness ran, and what the implementation
   showed: the snapshot after boot followed by one observation per operation *)
Definition case := (ver * payload * list op * list obs)%type.
Definition model_obs (c : case) : list obs :=
  let '(cv, p, ops, _) := c in
  let s0 := boot cv p in snapshot s0 ROk :: run run_op s0 ops.
Definition check_case (c : case) : list (nat * option obs * option obs) :=
  let '(_, _, _, got) := c in diff_at obs_eqb 0 (model_obs c) got.
Fixpoint mismatches_from (n : nat) (cs : list case) :=
  match cs with
  | [] => []
  | c :: r => match check_case c with
              | [] => mismatches_from (S n) r
              | d => (n, d) :: mismatches_from (S n) r
              end
  end.
Definition mismatches := mismatches_from 0.

(* ---------- monitor: the property evaluated on the implementation's own trace ---------- *)
Definition vget (l : list (Z * view)) (id : Z) : option view := aget l id.

(* allowed lifecycle moves of one store record between two consecutive served snapshots *)
Definition move_ok (o : op) (id : Z) (a b : option view) : bool :=
  match a, b with
  | None, None => true
  | None, Some _ => match o with OPut _ p _ => p_id p =? id | _ => false end
  | Some x, None => sstate_eqb (v_state x) Tombstone && match o with OClean _ _ => true | _ => false end
  | Some x, Some y =>
      (implb (v_pd x) (v_pd y)) &&
      match v_state x, v_state y with
      | Up, Up | Offline, Offline | Tombstone, Tombstone => true
      | Up, Offline => true
      | Offline, Up => negb (v_pd x)
      | Offline, Tombstone => true
      | _, _ => false
      end
  end.

Definition ids_of (a b : list (Z * view)) : list Z := map fst a ++ map fst b.

Fixpoint addr_unique (l : list (Z * view)) : bool :=
  match l with
  | [] => true
  | (i, x) :: r =>
      (negb (negb (sstate_eqb (v_state x) Tombstone) && negb (v_pd x))
       || forallb (fun e : Z * view =>
                     negb (negb (sstate_eqb (v_state (snd e)) Tombstone) && negb (v_pd (snd e))
                           && String.eqb (v_addr (snd e)) (v_addr x))) r)
      && addr_unique r
  end.

Definition is_err (r : res) : bool := match r with ROk | RNone | RPanic => false | _ => true end.

Definition proj_same (a b : option view) : bool := opt_eqb view_eqb_proj a b.
Definition same_but_labels (a b : view) : bool :=
  String.eqb (v_addr a) (v_addr b) && sstate_eqb (v_state a) (v_state b) && Bool.eqb (v_pd a) (v_pd b)
  && ver_eqb (v_ver a) (v_ver b) && (v_lw a =? v_lw b) && (v_rw a =? v_rw b).
Definition same_but_weights (a b : view) : bool :=
  String.eqb (v_addr a) (v_addr b) && sstate_eqb (v_state a) (v_state b) && Bool.eqb (v_pd a) (v_pd b)
  && list_eqb label_eqb (v_labels a) (v_labels b) && ver_eqb (v_ver a) (v_ver b).

Definition target_of (o : op) : option Z :=
  match o with
  | OPut _ p _ => Some (p_id p) | OLabels id _ _ _ | ORemove id _ _ | OUp id _ | OBury id _
  | OWeight id _ _ _ | OHeartbeat id _ => Some id
  | _ => None
  end.

(* history facts used only to give a weight disagreement a specific signature *)
Definition faulted_weight (id : Z) (o : op) : bool :=
  match o with OWeight i _ _ (Fault _ _ _) => i =? id | _ => false end.
Definition is_clean (o : op) : bool := match o with OClean _ _ => true | _ => false end.

Definition no_fault (o : op) : bool :=
  match o with
  | OPut _ _ NoFault | OLabels _ _ _ NoFault | ORemove _ _ NoFault | OUp _ NoFault | OBury _ NoFault | OCheck _ NoFault
  | OWeight _ _ _ NoFault | OClean _ NoFault | OHeartbeat _ NoFault | ORegion _ _ | OSetEnv _ => true
  | _ => false
  end.

Definition count_regions (rg : amap (list Z)) (id : Z) : nat :=
  length (filter (fun e : Z * list Z => existsb (Z.eqb id) (snd e)) rg).

(* one step of the monitor; `past` = operations before this one (newest first), rg = placement
   before this operation, prev/cur = observations around it *)
Definition mon_step (past : list op) (rg : amap (list Z)) (o : op) (prev cur : obs) : list string :=
  let ps := o_served prev in let cs := o_served cur in let st := o_stored cur in
  let ids := ids_of ps cs in
  (* 0 the process must not die (RPanic is only ever reported by the driver, the model never produces it) *)
  (if res_eqb (o_res cur) RPanic then ["C14:panic-heartbeat-after-tombstone-cleanup"] else []) ++
  (* 1 lifecycle is one-way *)
  (if forallb (fun id => move_ok o id (vget ps id) (vget cs id)) ids then [] else ["C14:illegal-lifecycle-move"]) ++
  (* 2 tombstone refuses gRPC registration and heartbeats *)
  (match o with
   | OPut true p _ =>
       match vget ps (p_id p) with
       | Some x => if sstate_eqb (v_state x) Tombstone && negb (res_eqb (o_res cur) RGrpcTombstone)
                   then ["C14:tombstone-registration-accepted"] else []
       | None => []
       end
   | OHeartbeat id _ =>
       match vget ps id with
       | Some x => if sstate_eqb (v_state x) Tombstone && negb (res_eqb (o_res cur) RGrpcTombstone)
                   then ["C14:tombstone-heartbeat-accepted"] else []
       | None => []
       end
   | _ => []
   end) ++
  (* 2b a successful removal with physically-destroyed records the flag (it is what later refuses UpStore) *)
  (match o with
   | ORemove id true _ =>
       match vget cs id with
       | Some y => if res_eqb (o_res cur) ROk && negb (v_pd y) then ["C14:destroyed-flag-not-recorded"] else []
       | None => []
       end
   | _ => []
   end) ++
  (* 3 buried only while empty (whoever calls buryStore: it re-checks the region tree under the lock, fix 2f015b8) *)
  (match o with
   | _ => if forallb (fun id => match vget ps id, vget cs id with
                                | Some x, Some y =>
                                    negb (negb (sstate_eqb (v_state x) Tombstone) && sstate_eqb (v_state y) Tombstone)
                                    || Nat.eqb (count_regions rg id) 0
                                | _, _ => true
                                end) ids
          then [] else ["C14:buried-with-region-peers"]
   end) ++
  (* 4 live stores have distinct addresses *)
  (if addr_unique cs then [] else ["C14:duplicate-live-address"]) ++
  (* 5 a failed operation leaves the served state unchanged *)
  (if is_err (o_res cur) && negb (is_clean o) then
     if forallb (fun id => proj_same (vget ps id) (vget cs id)) ids then []
     else if forallb (fun id => match vget ps id, vget cs id with
                                | Some x, Some y => same_but_labels x y
                                | None, None => true
                                | _, _ => false end) ids
          then ["C14:failed-put-mutated-served-labels"] else ["C14:failed-op-changed-served"]
   else []) ++
  (* 6 whatever changed in the served state is in storage (success => stored = served) *)
  (if negb (is_err (o_res cur)) || is_clean o then
     flat_map (fun id =>
       if proj_same (vget ps id) (vget cs id) then []
       else if proj_same (vget cs id) (vget st id) then []
       else match vget cs id, vget st id with
            | Some x, Some y =>
                if same_but_weights x y then
                  if existsb (faulted_weight id) past then ["C14:stale-weight-after-failed-set-weight"]
                  else if existsb is_clean past then ["C14:stale-weight-after-tombstone-cleanup"]
                  else ["C14:stored-weight-differs-from-served"]
                else ["C14:stored-differs-from-served-after-success"]
            | _, _ => ["C14:stored-differs-from-served-after-success"]
            end) (nodup Z.eq_dec ids)
   else []) ++
  (* 7 an operation none of whose store-record writes failed and that answers with an error was refused: it has written nothing
     (a request that is answered "failed" must not have moved the stored record - the next leader would load it) *)
  (if is_err (o_res cur) && no_fault o && negb (is_clean o)
      && negb (forallb (fun id => proj_same (vget (o_stored prev) id) (vget st id)) (ids_of (o_stored prev) st))
   then ["C14:refused-operation-changed-the-stored-record"] else []).

(* the replication settings in force: the last OSetEnv of the past (newest first), else the boot settings *)
Fixpoint env_of (past : list op) : env :=
  match past with
  | [] => Env [] false true
  | OSetEnv e :: _ => e
  | _ :: r => env_of r
  end.
(* the guards that depend on the replication settings, on the observed trace *)
Definition mon_env (past : list op) (o : op) (cur : obs) : list string :=
  let e := env_of past in
  match o with
  | OPut g p _ =>
      (if res_eqb (o_res cur) ROk
       then match vget (o_served cur) (p_id p) with
            | Some y => if labels_rejected e (v_labels y) then ["C14:strict-label-mismatch-accepted"] else []
            | None => []
            end
       else []) ++
      (if g && res_eqb (o_res cur) ROk && negb (e_pr e) && is_tiflash (p_labels p) then ["C14:tiflash-store-accepted-without-placement-rules"] else [])
  | OLabels id _ _ _ =>
      if res_eqb (o_res cur) ROk
      then match vget (o_served cur) id with
           | Some y => if labels_rejected e (v_labels y) then ["C14:strict-label-mismatch-accepted"] else []
           | None => []
           end
      else []
  | _ => []
  end.
Fixpoint mon_run (past : list op) (rg : amap (list Z)) (ops : list op) (prev : obs) (obs_l : list obs) : list string :=
  match ops, obs_l with
  | o :: r, b :: br =>
      mon_step past rg o prev b ++ mon_env past o b ++
      mon_run (o :: past) (match o with ORegion g st => aset rg g st | _ => rg end) r b br
  | _, _ => []
  end.

Definition monitor (c : case) : list string :=
  let '(_, _, ops, got) := c in
  match got with
  | b0 :: br => nodup string_dec (mon_run [] [] ops b0 br)
  | [] => ["C14:empty-trace"]
  end.

Fixpoint monitor_fails_from (n : nat) (cs : list case) : list (nat * string) :=
  match cs with
  | [] => []
  | c :: r => map (fun sg => (n, sg)) (monitor c) ++ monitor_fails_from (S n) r
  end.
Definition monitor_fails := monitor_fails_from 0.

(* ---------- overlapping operations ----------
   One store operation `a` is parked at one of its storage writes while a second operation `b` on the same store is
   started; the real code serialises them by the cluster lock, so the outcome must be that of one of the two
   sequential orders.  Observed: both results, the final snapshot and, when b completed while a was still parked
   (which the lock forbids for every pair that writes), the snapshot taken at that moment. *)
Record oobs := OObs { oo_ra : res; oo_rb : res; oo_before : obs; oo_mid : option obs; oo_final : obs;
                      oo_reload : option obs   (* after both completed: a new leader loads the same storage (LoadClusterInfo) *) }.
Definition entry_proj_eqb (a b : Z * view) : bool := (fst a =? fst b) && view_eqb_proj (snd a) (snd b).
Definition ocase := (ver * payload * list op * op * op * oobs)%type.

Definition snap_eqb (a b : obs) : bool :=
  list_eqb entry_eqb (o_served a) (o_served b) && list_eqb entry_eqb (o_stored a) (o_stored b).
Definition seq_outcome (s : state) (a b : op) : res * res * obs :=
  let '(s1, ra) := run_cmd s a in let '(s2, rb) := run_cmd s1 b in (ra, rb, snapshot s2 ROk).
Definition serialisable (c : ocase) : bool :=
  let '(cv, p, setup, a, b, o) := c in
  let s := run_state run_op (boot cv p) setup in
  let '(ra1, rb1, f1) := seq_outcome s a b in
  let '(rb2, ra2, f2) := seq_outcome s b a in
  (res_eqb ra1 (oo_ra o) && res_eqb rb1 (oo_rb o) && snap_eqb f1 (oo_final o))
  || (res_eqb ra2 (oo_ra o) && res_eqb rb2 (oo_rb o) && snap_eqb f2 (oo_final o)).

(* the lifecycle clauses on what was observed: before -> (b alone) -> mid -> (a alone) -> final *)
Definition step_moves_ok (o : op) (prev cur : obs) : bool :=
  forallb (fun id => move_ok o id (vget (o_served prev) id) (vget (o_served cur) id)) (ids_of (o_served prev) (o_served cur)).
Definition tombstone_back (prev cur : obs) : bool :=
  existsb (fun id => match vget (o_served prev) id, vget (o_served cur) id with
                     | Some x, Some y => sstate_eqb (v_state x) Tombstone && negb (sstate_eqb (v_state y) Tombstone)
                     | _, _ => false end) (map fst (o_served prev)).
(* a store went to Tombstone in this step although the region tree (placement rg, before the step) holds a peer on it *)
Definition buried_nonempty (o : op) (rg : amap (list Z)) (prev cur : obs) : bool :=
  match o with
  | _ => existsb (fun id => match vget (o_served prev) id, vget (o_served cur) id with
                            | Some x, Some y => negb (sstate_eqb (v_state x) Tombstone) && sstate_eqb (v_state y) Tombstone
                                                && negb (Nat.eqb (count_regions rg id) 0)
                            | _, _ => false end) (map fst (o_served prev))
  end.
(* an acknowledged tombstone cleanup removes every tombstone record without region peers; with no registration among the
   two operations such a record must not be there at the end *)
Definition is_ok_clean (o : op) (r : res) : bool := match o with OClean _ NoFault => res_eqb r ROk | _ => false end.
Definition is_put (o : op) : bool := match o with OPut _ _ _ | ORegion _ _ => true | _ => false end.  (* a region heartbeat can give the tombstone a peer: cleanup skips it *)
Definition removed_record_back (a b : op) (o : oobs) : bool :=
  (is_ok_clean a (oo_ra o) || is_ok_clean b (oo_rb o)) && negb (is_put a) && negb (is_put b) &&
  existsb (fun e : Z * view => sstate_eqb (v_state (snd e)) Tombstone && (v_rcf (snd e) =? 0) &&
                               match vget (o_served (oo_final o)) (fst e) with Some _ => true | None => false end)
          (o_served (oo_before o)).
Definition monitor_o (c : ocase) : list string :=
  let '(cv, p, setup, a, b, o) := c in
  let s0 := run_state run_op (boot cv p) setup in
  ((* fix b1c60ab: UpdateStoreLabels used to look the store up before the cluster lock, so pairs with a label update were
      not serialisable (driver's scripted pairs 3 and 4 are the regressions) *)
   (if serialisable c then [] else ["C14:overlapping-operations-not-serialisable"]) ++
   (if removed_record_back a b o then ["C14:tombstone-returned"] else []) ++
   (match oo_mid o with
    | Some m =>
        (if tombstone_back (oo_before o) m || tombstone_back m (oo_final o) then ["C14:tombstone-returned"] else []) ++
        (if step_moves_ok b (oo_before o) m && step_moves_ok a m (oo_final o) then [] else ["C14:illegal-lifecycle-move"]) ++
        (* b was acknowledged (and is visible in m) before a took effect: a must not bury a store on which b placed a peer *)
        (if buried_nonempty b (regions s0) (oo_before o) m || buried_nonempty a (regions (fst (run_cmd s0 b))) m (oo_final o)
         then ["C14:bury-decision-uses-region-count-read-outside-lock"] else [])
    | None => []
    end) ++
   (if addr_unique (o_served (oo_final o)) then [] else ["C14:duplicate-live-address"]) ++
   (* no storage fault is involved in a pair: what a new leader loads afterwards is what was served *)
   (match oo_reload o with
    | Some r =>
        (if tombstone_back (oo_final o) r then ["C14:tombstone-returned"] else []) ++
        (if list_eqb entry_proj_eqb (o_served (oo_final o)) (o_served r) then [] else ["C14:reload-serves-a-different-state"])
    | None => []
    end))%list.
Fixpoint monitor_o_fails_from (n : nat) (cs : list ocase) : list (nat * string) :=
  match cs with
  | [] => []
  | c :: r => (map (fun sg => (n, sg)) (nodup string_dec (monitor_o c)) ++ monitor_o_fails_from (S n) r)%list
  end.
Definition monitor_o_fails := monitor_o_fails_from 0.
(* for the log: what the two sequential orders would have given *)
Definition explain_o (cs : list ocase) : list (nat * (res * res) * (res * res) * (res * res)) :=
  flat_map (fun ic : nat * ocase =>
    let '(cv, p, setup, a, b, o) := snd ic in
    if serialisable (snd ic) then [] else
    let s := run_state run_op (boot cv p) setup in
    let '(ra1, rb1, _) := seq_outcome s a b in let '(rb2, ra2, _) := seq_outcome s b a in
    [(fst ic, (oo_ra o, oo_rb o), (ra1, rb1), (ra2, rb2))]) (number_from 0 cs).

(* ---------- several failing writes in one operation (the restoring writes can fail too) ----------
   The operations above assume at most one failing write per operation: the writes that put the weight keys back after
   a failure succeed.  This layer follows Storage.SaveStoreWeight / Storage.DeleteStore / RaftCluster.SetStoreWeight write by
   write with a SET of failing writes (absolute index among the writes the operation issues for this store, as the harness
   counts them), the restoring writes included; their errors are ignored by the code ("best effort"). *)
Definition mfault := list (nat * fkind).
Fixpoint wrm (mf : mfault) (idx : nat) : bool * bool :=
  match mf with
  | [] => (true, true)
  | (i, k) :: r => if Nat.eqb i idx then match k with FBefore => (false, false) | FAfter => (true, false) end else wrm r idx
  end.
Definition set_lw (s : state) (m : amap Z) : state := State (served s) (st_meta s) m (st_rw s) (regions s) (cver s) (cenv s).
Definition set_rw (s : state) (m : amap Z) : state := State (served s) (st_meta s) (st_lw s) m (regions s) (cver s) (cenv s).
(* Storage.restoreWeight on both keys: two writes, errors ignored *)
Definition restore_m (s : state) (id : Z) (oldL oldR : option Z) (mf : mfault) (n : nat) : state * nat :=
  let s1 := if fst (wrm mf n) then set_lw s (restore_w (st_lw s) id oldL) else s in
  let s2 := if fst (wrm mf (S n)) then set_rw s1 (restore_w (st_rw s1) id oldR) else s1 in
  (s2, S (S n)).
(* Storage.SaveStoreWeight: returns the state, whether it succeeded, and the next write index *)
Definition save_weight_m (s : state) (id lw rw : Z) (mf : mfault) (n : nat) : state * bool * nat :=
  let oldL := aget (st_lw s) id in let oldR := aget (st_rw s) id in
  let '(a0, ok0) := wrm mf n in
  let s0 := if a0 then write_lw s id lw else s in
  if negb ok0 then let '(s', n') := restore_m s0 id oldL oldR mf (S n) in (s', false, n') else
  let '(a1, ok1) := wrm mf (S n) in
  let s1 := if a1 then write_rw s0 id rw else s0 in
  if negb ok1 then let '(s', n') := restore_m s1 id oldL oldR mf (S (S n)) in (s', false, n') else (s1, true, S (S n)).
Definition do_weight_m (s : state) (id lw rw : Z) (mf : mfault) : state * res :=
  match sv s id with
  | None => (s, RNotFound)
  | Some x =>
      let '(s1, ok, n1) := save_weight_m s id lw rw mf 0 in
      if negb ok then (s1, RStorage) else
      let x' := SStore (s_addr x) (s_state x) (s_pd x) (s_labels x) (s_ver x) lw rw (s_rcf x) (s_hbp x) in
      let '(a2, ok2) := wrm mf n1 in
      let s2 := if a2 then write_meta s1 id (meta_of x') else s1 in
      if ok2 then (set_served s2 id x', ROk)
      else (fst (fst (save_weight_m s2 id (s_lw x) (s_rw x) mf (S n1))), RStorage)   (* SetStoreWeight saves the served weights again *)
  end.
Definition delete_store_m (s : state) (id : Z) (mf : mfault) : state * bool :=
  let oldL := aget (st_lw s) id in let oldR := aget (st_rw s) id in
  let '(a0, ok0) := wrm mf 0 in
  let s0 := if a0 then set_lw s (adel (st_lw s) id) else s in
  if negb ok0 then (fst (restore_m s0 id oldL oldR mf 1), false) else
  let '(a1, ok1) := wrm mf 1 in
  let s1 := if a1 then set_rw s0 (adel (st_rw s0) id) else s0 in
  if negb ok1 then (fst (restore_m s1 id oldL oldR mf 2), false) else
  let '(a2, ok2) := wrm mf 2 in
  let s2 := if a2 then del_meta s1 id else s1 in
  if negb ok2 then (fst (restore_m s2 id oldL oldR mf 3), false) else (s2, true).
(* RemoveTombStoneRecords when store id is the only tombstone without region peers *)
Definition do_clean_one_m (s : state) (id : Z) (mf : mfault) : state * res :=
  let '(s1, ok) := delete_store_m s id mf in if ok then (del_served s1 id, ROk) else (s1, RStorage).

Inductive mop := MWeight (id lw rw : Z) | MCleanOne (id : Z).
Definition run_mop (s : state) (o : mop) (mf : mfault) : state * res :=
  match o with MWeight id lw rw => do_weight_m s id lw rw mf | MCleanOne id => do_clean_one_m s id mf end.
(* one case: boot, set-up operations (single-fault model), the operation with its failing writes, the observation *)
Definition mcase := (ver * payload * list op * mop * mfault * obs)%type.
Definition check_mcase (c : mcase) : bool :=
  let '(cv, p, setup, o, mf, got) := c in
  let s := run_state run_op (boot cv p) setup in
  let '(s', r) := run_mop s o mf in obs_eqb (snapshot s' r) got.
Definition mmismatches (cs : list mcase) : list nat :=
  map fst (filter (fun ic : nat * mcase => negb (check_mcase (snd ic))) (number_from 0 cs)).
(* the guarantee that survives any number of failing writes: an operation that reports an error leaves what is served as it was;
   what is stored for OTHER stores too; (the stored weight keys of this store may then differ from the served weights) *)
Definition monitor_m (c : mcase) : list string :=
  let '(cv, p, setup, o, mf, got) := c in
  let before := snapshot (run_state run_op (boot cv p) setup) ROk in
  let id := match o with MWeight id _ _ | MCleanOne id => id end in
  if res_eqb (o_res got) ROk then
    (if list_eqb entry_eqb (o_served got) (o_stored got) then [] else ["C14:stored-differs-from-served-after-success"])
  else
    (if list_eqb entry_eqb (o_served before) (o_served got) then [] else ["C14:failed-op-changed-served"]) ++
    (if list_eqb entry_eqb (filter (fun e => negb (fst e =? id)) (o_stored before)) (filter (fun e => negb (fst e =? id)) (o_stored got))
     then [] else ["C14:failed-op-changed-another-stores-record"]).
Definition monitor_m_fails (cs : list mcase) : list (nat * string) :=
  flat_map (fun ic : nat * mcase => map (fun sg => (fst ic, sg)) (monitor_m (snd ic))) (number_from 0 cs).

(* ---------- a new leader loads the same storage (LoadClusterInfo -> Storage.LoadStores, paged) ----------
   Every store record is loaded, with its weight keys (default 1); the region-count statistic and the "meta persisted since load" mark
   start afresh.  (The class that uses it issues no region heartbeats: the region tree is empty after the load.) *)
Definition restart (s : state) : state :=
  State (map (fun e : Z * meta =>
                (fst e, SStore (m_addr (snd e)) (m_state (snd e)) (m_pd (snd e)) (m_labels (snd e)) (m_ver (snd e))
                               (match aget (st_lw s) (fst e) with Some w => w | None => 1 end)
                               (match aget (st_rw s) (fst e) with Some w => w | None => 1 end) 0 false)) (st_meta s))
        (st_meta s) (st_lw s) (st_rw s) [] (cver s) (cenv s).
(* what ANOTHER leader did to the storage while this member was a follower (its cache from the earlier term survives) *)
Inductive fchange :=
| FState (id : Z) (st : sstate) (pd : bool)     (* RemoveStore / buryStore under the other leader *)
| FLabels (id : Z) (ls : list label)
| FDelete (id : Z)                              (* RemoveTombStoneRecords under the other leader: record and weight keys *)
| FNew (p : payload).                           (* a store registered with the other leader *)
Definition apply_foreign (s : state) (c : fchange) : state :=
  match c with
  | FState id st pd =>
      match aget (st_meta s) id with
      | Some m => write_meta s id (Meta (m_addr m) st pd (m_labels m) (m_ver m))
      | None => s
      end
  | FLabels id ls =>
      match aget (st_meta s) id with
      | Some m => write_meta s id (Meta (m_addr m) (m_state m) (m_pd m) ls (m_ver m))
      | None => s
      end
  | FDelete id => set_rw (set_lw (del_meta s id) (adel (st_lw s) id)) (adel (st_rw s) id)
  | FNew p => write_meta s (p_id p) (Meta (p_addr p) (p_state p) (p_pd p) (p_labels p)
                                          (match p_ver p with Some v => v | None => (0, 0, 0) end))
  end.
Inductive hop := HOp (o : op) | HRestart | HBulk (ps : list payload)   (* HBulk: that many PutStore calls, observed once at the end *)
| HReelect (fs : list fchange).   (* this member steps down, another leader makes these changes, this member is elected again WITHOUT a process restart *)
Definition run_hop (s : state) (h : hop) : state * obs :=
  match h with
  | HOp o => run_op s o
  | HRestart => let s' := restart s in (s', snapshot s' ROk)
  | HBulk ps => let s' := fold_left (fun a p => fst (do_put a p NoFault)) ps s in (s', snapshot s' ROk)
  | HReelect fs =>
      (* the region tree of the earlier term survives with the BasicCluster (and the region storage is only read once per process) *)
      let s1 := restart (fold_left apply_foreign fs s) in
      let s' := State (served s1) (st_meta s1) (st_lw s1) (st_rw s1) (regions s) (cver s1) (cenv s1) in (s', snapshot s' ROk)
  end.
Definition rcase := (ver * payload * list hop * list obs)%type.
Definition model_robs (c : rcase) : list obs :=
  let '(cv, p, hs, _) := c in let s0 := boot cv p in snapshot s0 ROk :: run run_hop s0 hs.
Definition rmismatches (cs : list rcase) : list nat :=
  map fst (filter (fun ic : nat * rcase => let '(_, _, _, got) := snd ic in
                     match diff_at obs_eqb 0 (model_robs (snd ic)) got with [] => false | _ => true end) (number_from 0 cs)).
(* the lifecycle clauses across a leader change: a tombstone never comes back, the new leader serves every stored record as stored
   (no record lost: Storage.LoadStores pages through ALL of them), live addresses stay unique *)
Definition mon_reload (prev cur : obs) : list string :=
  ((if tombstone_back prev cur then ["C14:tombstone-returned"] else []) ++
   (if list_eqb entry_proj_eqb (o_stored prev) (o_served cur) then [] else ["C14:new-leader-does-not-serve-every-stored-store"]) ++
   (if addr_unique (o_served cur) then [] else ["C14:duplicate-live-address"]))%list.
Fixpoint mon_run_r (past : list op) (rg : amap (list Z)) (hs : list hop) (prev : obs) (obs_l : list obs) : list string :=
  match hs, obs_l with
  | HOp o :: r, b :: br =>
      (mon_step past rg o prev b ++ mon_env past o b ++
       mon_run_r (o :: past) (match o with ORegion g st => aset rg g st | _ => rg end) r b br)%list
  | HRestart :: r, b :: br => (mon_reload prev b ++ mon_run_r past [] r b br)%list
  | HReelect _ :: r, b :: br =>
      (* the re-elected leader serves exactly what storage holds NOW (the other leader's changes included) *)
      ((if list_eqb entry_proj_eqb (o_stored b) (o_served b) then [] else ["C14:re-elected-leader-serves-stale-store-records"]) ++
       mon_run_r past rg r b br)%list
  | HBulk _ :: r, b :: br => ((if addr_unique (o_served b) then [] else ["C14:duplicate-live-address"]) ++ mon_run_r past rg r b br)%list
  | _, _ => []
  end.
Definition monitor_r (c : rcase) : list string :=
  let '(_, _, hs, got) := c in
  match got with b0 :: br => nodup string_dec (mon_run_r [] [] hs b0 br) | [] => ["C14:empty-trace"] end.
Definition monitor_r_fails (cs : list rcase) : list (nat * string) :=
  flat_map (fun ic : nat * rcase => map (fun sg => (fst ic, sg)) (monitor_r (snd ic))) (number_from 0 cs).

(* ---------- the end of a term: once RaftCluster.Stop has returned nothing of the stopped term writes a store record any more ----------
   (the next term - this member again, or another member on the same storage - is the only writer: this is what lets "stored = served after
   every successful change" and the one-way lifecycle hold across leader changes).  Observed: the background check of the term was inside its
   Tombstone write (a slow etcd) when Stop was called; did Stop return while that write was still in flight?  And the final state. *)
Definition tcase := (bool * bool * obs)%type.   (* the scenario materialised, Stop returned while the write was in flight, final observation *)
Definition monitor_t (c : tcase) : list string :=
  let '(ok, early, fin) := c in
  ((if ok && early then ["C14:stopped-term-still-writing-store-records"] else []) ++
   (if list_eqb entry_proj_eqb (o_served fin) (o_stored fin) then [] else ["C14:stored-differs-from-served-after-the-term-ended"]))%list.
Definition monitor_t_fails (cs : list tcase) : list (nat * string) :=
  flat_map (fun ic : nat * tcase => map (fun sg => (fst ic, sg)) (monitor_t (snd ic))) (number_from 0 cs).
