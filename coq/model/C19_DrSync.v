(* C19 — executable model of server/replication/replication_mode.go: the dr-auto-sync state machine
   (tickDR, checkStoreStatus, drSwitchToAsync / SyncRecover / Sync, updateProgress with its resume key,
   batches and sampling, estimateProgress's "finished" test, UpdateConfig, loadDRAutoSync).
   Definitions only; proofs in proof/C19_DrSyncProof.v.

   Faithfulness notes:
   * every switch allocates its state id FIRST, then hands the DR_STATE file to the replicater (whose
     error is thrown away), then saves the status, and only then publishes it; a failed save leaves the
     served status alone but the id is spent and the file is out;
   * the recovery cursor (drRecoverKey, drRecoverCount) survives ticks and is reset only by a successful
     switch to sync_recover; regions behind the cursor are never looked at again;
   * "finished" is `len(drRecoverKey) == 0 && drRecoverCount > 0`;
   * ghost fields (chain, used) are only read by the theorems. *)
From Coq Require Import String Ascii.
From PDV Require Import lib.Base gen.Gen_C19.
(* gen.Gen_C19 supplies the scan batch size of the source (the default of the `bsz` field at boot) *)
Local Open Scope string_scope.
Local Open Scope Z_scope.

(* ---------- keys: byte strings, "" = -inf as a start key and +inf as an end key ---------- *)
Fixpoint str_ltb (a b : string) : bool :=
  match a, b with
  | _, EmptyString => false
  | EmptyString, String _ _ => true
  | String x a', String y b' =>
      let nx := nat_of_ascii x in let ny := nat_of_ascii y in
      if Nat.ltb nx ny then true else if Nat.ltb ny nx then false else str_ltb a' b'
  end.
Definition key_empty (k : string) : bool := String.eqb k "".

Inductive dstate := Sync | Async | SyncRecover.
Definition dstate_eqb (a b : dstate) : bool :=
  match a, b with Sync, Sync | Async, Async | SyncRecover, SyncRecover => true | _, _ => false end.

Record region := Region {
  r_id : Z; r_start : string; r_end : string;
  r_sid : Z;              (* replication status: state id the region reported under *)
  r_int : bool            (* INTEGRITY_OVER_LABEL *)
}.
Inductive dc := Primary | Dr | Other.
Record store := Store { s_id : Z; s_key : string (* the label key this store's dc label is filed under *); s_dc : dc; s_down : bool; s_tomb : bool }.

Record config := Config {
  cf_dr : bool;           (* replication-mode = dr-auto-sync (false: majority) *)
  cf_label : string;      (* dr-auto-sync.label-key *)
  cf_p : Z; cf_d : Z;     (* primary-replicas, dr-replicas *)
  cf_timeout : Z          (* dr-auto-sync.wait-async-timeout in ms (0: switch to async without waiting) *)
}.
(* the clock data drCheckAsyncTimeout reads: the current time, the time the ModeManager was created (initTime) and, per PD
   member, the last time it confirmed the DR_STATE file (drMemberWaitAsyncTime); all in ms *)
Record clock := Clock { c_now : Z; c_init : Z; c_members : list (Z * Z) }.

Record status := Status { st_state : dstate; st_id : Z }.

Record state := State {
  cfg : config;
  served : option status;         (* ModeManager.drAutoSync (None while the mode has never been dr-auto-sync) *)
  stored : option status;         (* storage: replication_mode/dr-auto-sync *)
  files : list status;            (* every DR_STATE file handed to the FileReplicater, newest first *)
  next_id : Z;                    (* the id allocator *)
  cur_key : string; cur_cnt : Z;  (* drRecoverKey, drRecoverCount *)
  tot : Z; synced : Z;            (* drAutoSync.TotalRegions / SyncedRegions as shown by the HTTP status *)
  dr_total : Z;                   (* drTotalRegion *)
  regions : list region;          (* region cache, ascending start key, non-overlapping (the harness replaces whole layouts) *)
  stores : list store;
  bsz : nat;                      (* regionScanBatchSize (1024 in the source; the harness lowers the package variable) *)
  clk : clock;
  (* ghost *)
  chain : list region;            (* regions the cursor has passed in this recovery, newest first *)
  used : list Z                   (* every state id ever put into a status, newest first *)
}.

(* ---------- faults ---------- *)
Inductive fkind := FBefore | FAfter.
(* f_save: the SaveReplicationStatus of the idx-th switch attempt of this operation fails; f_rep: ReplicateFileToAllMembers
   fails (ignored by the code); f_alloc: the AllocID of the idx-th switch attempt fails (nothing else happens then) *)
Record fault := Fault { f_save : option (nat * fkind); f_rep : bool; f_alloc : option nat }.
Definition no_fault : fault := Fault None false None.
Definition alloc_fails (f : fault) (idx : nat) : bool := match f_alloc f with Some i => Nat.eqb i idx | None => false end.
Definition wr (f : fault) (idx : nat) : bool * bool :=
  match f_save f with
  | Some (i, k) => if Nat.eqb i idx then match k with FBefore => (false, false) | FAfter => (true, false) end else (true, true)
  | None => (true, true)
  end.

(* ---------- store status ---------- *)
(* checkStoreStatus: non-tombstone stores that are down and whose value under the configured label key is the dc's *)
Definition count_down (lbl : string) (l : list store) (d : dc) : Z :=
  Z.of_nat (length (filter (fun s => negb (s_tomb s) && s_down s && String.eqb (s_key s) lbl &&
                                      match s_dc s, d with Primary, Primary | Dr, Dr => true | _, _ => false end) l)).
Definition can_sync (c : config) (dp dd : Z) : bool := (dp <? cf_p c) && (dd <? cf_d c).
Definition has_majority (c : config) (dp dd : Z) : bool :=
  let up := (if dp <? cf_p c then cf_p c - dp else 0) + (if dd <? cf_d c then cf_d c - dd else 0) in
  up * 2 >? cf_p c + cf_d c.

(* ---------- the three switches: AllocID ; replicate file ; save ; publish ---------- *)
Definition set_status (s : state) (sv st : option status) (fl : list status) (nid : Z) (k : string) (c : Z)
           (published : bool) (ch : list region) (us : list Z) : state :=
  (* `m.drAutoSync = dr` replaces the whole struct: the progress figures shown over HTTP restart at 0 *)
  State (cfg s) sv st fl nid k c (if published then 0 else tot s) (if published then 0 else synced s) (dr_total s)
        (regions s) (stores s) (bsz s) (clk s) ch us.

(* returns the new state, whether it was published, and the number of saves consumed *)
Definition switch (s : state) (target : dstate) (f : fault) (idx : nat) : state * bool :=
  if alloc_fails f idx then (s, false) else       (* AllocID failed: the switch returns before anything else *)
  let id := next_id s in
  let st := Status target id in
  let '(applied, ok) := wr f idx in
  let stored' := if applied then Some st else stored s in
  if ok then
    (* a successful switch to sync_recover resets the cursor; the other two leave it alone *)
    match target with
    | SyncRecover => (set_status s (Some st) stored' (st :: files s) (id + 1) "" 0 true [] (id :: used s), true)
    | _ => (set_status s (Some st) stored' (st :: files s) (id + 1) (cur_key s) (cur_cnt s) true (chain s) (id :: used s), true)
    end
  else (set_status s (served s) stored' (st :: files s) (id + 1) (cur_key s) (cur_cnt s) false (chain s) (used s), false).

Definition cur_state (s : state) : option dstate := option_map st_state (served s).
Definition cur_id (s : state) : Z := match served s with Some x => st_id x | None => 0 end.
Definition in_state (s : state) (d : dstate) : bool :=
  match cur_state s with Some x => dstate_eqb x d | None => false end.

(* ---------- updateProgress ---------- *)
Definition default_batch : nat := Z.to_nat Gen_C19.regionScanBatchSize.

(* ScanRegions(key, nil, limit): from the region containing key, else the next one *)
Definition before_key (k : string) (r : region) : bool := negb (key_empty (r_end r)) && negb (str_ltb k (r_end r)).
Fixpoint drop_before (k : string) (l : list region) : list region :=
  match l with
  | [] => []
  | r :: t => if before_key k r then drop_before k t else l
  end.
(* ScanRange: limit <= 0 means no limit *)
Definition scan (l : list region) (k : string) (limit : nat) : list region :=
  match limit with O => drop_before k l | _ => firstn limit (drop_before k l) end.

Definition recovered (sid : Z) (r : region) (k : string) : bool :=
  String.eqb k (r_start r) && (r_sid r =? sid) && r_int r.

(* walk one batch: (new key, new count, passed regions, hit an unrecovered region?) *)
Fixpoint walk (sid : Z) (k : string) (c : Z) (passed : list region) (batch : list region) : string * Z * list region * bool :=
  match batch with
  | [] => (k, c, passed, false)
  | r :: t => if recovered sid r k then walk sid (r_end r) (c + 1) (r :: passed) t else (k, c, passed, true)
  end.

Fixpoint progress_loop (fuel : nat) (s : state) : state :=
  match fuel with
  | O => s
  | S n =>
      if negb (key_empty (cur_key s)) || (cur_cnt s =? 0) then
        let batch := scan (regions s) (cur_key s) (bsz s) in
        match batch with
        | [] => s                                         (* "scan empty regions" *)
        | _ =>
            let '(k, c, passed, hit) := walk (cur_id s) (cur_key s) (cur_cnt s) (chain s) batch in
            let s1 := State (cfg s) (served s) (stored s) (files s) (next_id s) k c (tot s) (synced s)
                            (if hit then Z.of_nat (length (regions s)) else dr_total s)
                            (regions s) (stores s) (bsz s) (clk s) passed (used s) in
            if hit then s1 else progress_loop n s1
        end
      else s
  end.
Definition update_progress (s : state) : state := progress_loop (S (length (regions s))) s.
Definition finished (s : state) : bool := key_empty (cur_key s) && (cur_cnt s >? 0).

(* drCheckAsyncTimeout: no timeout configured, or every member's confirmation AND the manager's creation are older than it *)
Definition async_ok_at (c : config) (k : clock) : bool :=
  (cf_timeout c =? 0)
  || (forallb (fun m : Z * Z => c_now k - snd m >? cf_timeout c) (c_members k) && (c_now k - c_init k >? cf_timeout c)).
Definition async_ok (s : state) : bool := async_ok_at (cfg s) (clk s).

(* ---------- tickDR ---------- *)
Definition tick (s : state) (f : fault) : state :=
  if negb (cf_dr (cfg s)) then s else
  let dp := count_down (cf_label (cfg s)) (stores s) Primary in
  let dd := count_down (cf_label (cfg s)) (stores s) Dr in
  let cs := can_sync (cfg s) dp dd in
  let hm := has_majority (cfg s) dp dd in
  (* 1: to async *)
  let '(s1, n1) :=
    if negb cs && hm && negb (in_state s Async) && async_ok s
    then (fst (switch s Async f 0), 1%nat) else (s, 0%nat) in
  (* 2: async -> sync_recover *)
  let '(s2, n2) :=
    if cs && in_state s1 Async then (fst (switch s1 SyncRecover f n1), S n1) else (s1, n1) in
  (* 3: sync_recover: scan, then sync or progress figures *)
  if in_state s2 SyncRecover then
    let s3 := update_progress s2 in
    if finished s3 then fst (switch s3 Sync f n2)
    else State (cfg s3) (served s3) (stored s3) (files s3) (next_id s3) (cur_key s3) (cur_cnt s3)
               (dr_total s3) (cur_cnt s3) (dr_total s3) (regions s3) (stores s3) (bsz s3) (clk s3) (chain s3) (used s3)
  else s2.

(* ---------- UpdateConfig ---------- *)
Definition set_cfg (s : state) (c : config) : state :=
  State c (served s) (stored s) (files s) (next_id s) (cur_key s) (cur_cnt s) (tot s) (synced s) (dr_total s)
        (regions s) (stores s) (bsz s) (clk s) (chain s) (used s).
Definition update_config (s : state) (c : config) (f : fault) : state * bool :=
  if negb (cf_dr (cfg s)) && cf_dr c then
    let '(s1, ok) := switch (set_cfg s c) SyncRecover f 0 in
    if ok then (s1, true) else (set_cfg s1 (cfg s), false)
  else if cf_dr (cfg s) && cf_dr c && negb (String.eqb (cf_label (cfg s)) (cf_label c)) then
    let '(s1, ok) := switch (set_cfg s c) Async f 0 in
    if ok then (s1, true) else (set_cfg s1 (cfg s), false)
  else (set_cfg s c, true).

(* ---------- operations ---------- *)
Inductive op :=
| OTick (f : fault)
| OConfig (c : config) (f : fault)
| OLayout (l : list region)                  (* the region cache is replaced by this layout (ascending, non-overlapping) *)
| OReport (rid : Z) (sid : Z) (integ : bool) (* region rid reports a new replication status *)
| OStore (id : Z) (down : bool)
| OAdvance (dt : Z)                           (* time passes *)
| OMember (id : Z).                           (* UpdateMemberWaitAsyncTime: PD member id confirmed the DR_STATE file now *)

Definition set_regions (s : state) (l : list region) : state :=
  State (cfg s) (served s) (stored s) (files s) (next_id s) (cur_key s) (cur_cnt s) (tot s) (synced s) (dr_total s)
        l (stores s) (bsz s) (clk s) (chain s) (used s).
Definition set_stores (s : state) (l : list store) : state :=
  State (cfg s) (served s) (stored s) (files s) (next_id s) (cur_key s) (cur_cnt s) (tot s) (synced s) (dr_total s)
        (regions s) l (bsz s) (clk s) (chain s) (used s).

Definition set_clk (s : state) (k : clock) : state :=
  State (cfg s) (served s) (stored s) (files s) (next_id s) (cur_key s) (cur_cnt s) (tot s) (synced s) (dr_total s)
        (regions s) (stores s) (bsz s) k (chain s) (used s).
Fixpoint member_set (l : list (Z * Z)) (id t : Z) : list (Z * Z) :=
  match l with
  | [] => [(id, t)]
  | (i, x) :: r => if i =? id then (id, t) :: r else (i, x) :: member_set r id t
  end.
Definition clock_step (k : clock) (o : op) : clock :=
  match o with
  | OAdvance dt => Clock (c_now k + dt) (c_init k) (c_members k)
  | OMember id => Clock (c_now k) (c_init k) (member_set (c_members k) id (c_now k))
  | _ => k
  end.
Inductive res := ROk | RErr.
Definition run_cmd (s : state) (o : op) : state * res :=
  match o with
  | OTick f => (tick s f, ROk)
  | OConfig c f => let '(s', ok) := update_config s c f in (s', if ok then ROk else RErr)
  | OLayout l => (set_regions s l, ROk)
  | OReport rid sid integ =>
      (set_regions s (map (fun r => if r_id r =? rid then Region (r_id r) (r_start r) (r_end r) sid integ else r) (regions s)), ROk)
  | OStore id down =>
      (set_stores s (map (fun x => if s_id x =? id then Store (s_id x) (s_key x) (s_dc x) down (s_tomb x) else x) (stores s)), ROk)
  | OAdvance _ | OMember _ => (set_clk s (clock_step (clk s) o), ROk)
  end.

(* ---------- observations ---------- *)
Record obs := Obs {
  o_res : res;
  o_dr : bool;                         (* mode shown by the HTTP status *)
  o_served : option status;            (* state / state id shown (only in dr-auto-sync mode) *)
  o_stored : option status;            (* LoadReplicationStatus *)
  o_files : list status;               (* DR_STATE files handed out during this operation, oldest first *)
  o_key : string; o_cnt : Z;           (* hook: cursor *)
  o_tot : Z; o_synced : Z }.           (* HTTP status: total_regions / synced_regions *)

Definition files_since (before after : list status) : list status :=
  rev (firstn (length after - length before) after).
Definition snapshot (s0 s : state) (r : res) : obs :=
  Obs r (cf_dr (cfg s)) (if cf_dr (cfg s) then served s else None) (stored s) (files_since (files s0) (files s))
      (cur_key s) (cur_cnt s) (if cf_dr (cfg s) then tot s else 0) (if cf_dr (cfg s) then synced s else 0).
Definition run_op (s : state) (o : op) : state * obs :=
  let '(s', r) := run_cmd s o in (s', snapshot s s' r).

(* boot = NewReplicationModeManager: in dr-auto-sync mode the stored status is loaded, or, when there is
   none, the manager starts in `sync` (loadDRAutoSync -> drSwitchToSync) *)
Definition boot (c : config) (st : option status) (id0 : Z) (rs : list region) (ss : list store) (b : nat) : state :=
  let s0 := State c None st [] id0 "" 0 0 0 0 rs ss b (Clock 0 0 []) [] (match st with Some x => [st_id x] | None => [] end) in
  if cf_dr c then
    match st with
    | Some x => State c (Some x) st [] id0 "" 0 0 0 0 rs ss b (Clock 0 0 []) [] [st_id x]
    | None => fst (switch s0 Sync no_fault 0)
    end
  else s0.

(* ---------- a new ModeManager on the same storage (leader change): NewReplicationModeManager / loadDRAutoSync ----------
   The cursor, the progress figures and the clock start afresh; the allocator, the storage and the files members hold are the cluster's.
   In dr-auto-sync mode the stored status is loaded: a FAILED load fails the creation (nothing is touched: no id, no file, no save,
   the previous manager stays); a stored status is served as it is; only when the load succeeded and found nothing the manager
   initialises itself by the ordinary switch to sync (whose save can fail: then the creation fails too). *)
Definition fresh_manager (s : state) (sv : option status) : state :=
  State (cfg s) sv (stored s) (files s) (next_id s) "" 0 0 0 0 (regions s) (stores s) (bsz s)
        (Clock (c_now (clk s)) (c_now (clk s)) []) []
        (match sv with Some x => if existsb (Z.eqb (st_id x)) (used s) then used s else st_id x :: used s | None => used s end).
Definition restart (s : state) (load_fails : bool) (f : fault) : state * res :=
  if negb (cf_dr (cfg s)) then (fresh_manager s None, ROk)
  else if load_fails then (s, RErr)
  else match stored s with
       | Some x => (fresh_manager s (Some x), ROk)
       | None =>
           let '(s1, ok) := switch (fresh_manager s None) Sync f 0 in
           if ok then (s1, ROk)
           else (* the creation failed after AllocID / the file / possibly the save: those effects stay, the previous manager too *)
             (State (cfg s) (served s) (stored s1) (files s1) (next_id s1) (cur_key s) (cur_cnt s) (tot s) (synced s) (dr_total s)
                    (regions s) (stores s) (bsz s) (clk s) (chain s) (used s), RErr)
       end.
(* histories with restarts *)
Inductive rop := ROp (o : op) | RRestart (load_fails : bool) (f : fault).
Definition run_rcmd (s : state) (h : rop) : state * res :=
  match h with ROp o => run_cmd s o | RRestart lf f => restart s lf f end.
Definition run_rop (s : state) (h : rop) : state * obs :=
  let '(s', r) := run_rcmd s h in (s', snapshot s s' r).

(* ---------- equality of observations ---------- *)
Definition status_eqb (a b : status) : bool := dstate_eqb (st_state a) (st_state b) && (st_id a =? st_id b).
Definition res_eqb (a b : res) : bool := match a, b with ROk, ROk | RErr, RErr => true | _, _ => false end.
Definition obs_eqb (a b : obs) : bool :=
  res_eqb (o_res a) (o_res b) && Bool.eqb (o_dr a) (o_dr b) && opt_eqb status_eqb (o_served a) (o_served b)
  && opt_eqb status_eqb (o_stored a) (o_stored b) && list_eqb status_eqb (o_files a) (o_files b)
  && String.eqb (o_key a) (o_key b) && (o_cnt a =? o_cnt b) && (o_tot a =? o_tot b) && (o_synced a =? o_synced b).

Record bootp := Boot { b_cfg : config; b_st : option status; b_id0 : Z; b_regions : list region; b_stores : list store; b_batch : nat }.
Definition case := (bootp * list rop * list obs)%type.
Definition boot_of (b : bootp) : state := boot (b_cfg b) (b_st b) (b_id0 b) (b_regions b) (b_stores b) (b_batch b).
Definition boot_obs (b : bootp) : obs :=
  let s := boot_of b in
  Obs ROk (cf_dr (cfg s)) (if cf_dr (cfg s) then served s else None) (stored s) (rev (files s)) (cur_key s) (cur_cnt s) 0 0.
Definition model_obs (c : case) : list obs :=
  let '(b, ops, _) := c in boot_obs b :: run run_rop (boot_of b) ops.
Definition check_case (c : case) : list (nat * option obs * option obs) :=
  let '(_, _, got) := c in diff_at obs_eqb 0 (model_obs c) got.
Fixpoint mismatches_from (n : nat) (cs : list case) :=
  match cs with
  | [] => []
  | c :: r => match check_case c with
              | [] => mismatches_from (S n) r
              | d => (n, d) :: mismatches_from (S n) r
              end
  end.
Definition mismatches := mismatches_from 0.

Definition diff_fields (a b : obs) : list string :=
  ((if res_eqb (o_res a) (o_res b) then [] else ["res"]) ++
  (if Bool.eqb (o_dr a) (o_dr b) then [] else ["mode"]) ++
  (if opt_eqb status_eqb (o_served a) (o_served b) then [] else ["served"]) ++
  (if opt_eqb status_eqb (o_stored a) (o_stored b) then [] else ["stored"]) ++
  (if list_eqb status_eqb (o_files a) (o_files b) then [] else ["files"]) ++
  (if String.eqb (o_key a) (o_key b) && (o_cnt a =? o_cnt b) then [] else ["cursor"]) ++
  (if (o_tot a =? o_tot b) && (o_synced a =? o_synced b) then [] else ["progress-figures"]))%list.
Definition explain (cs : list case) : list (nat * nat * list string) :=
  map (fun m : nat * list (nat * option obs * option obs) =>
         match snd m with
         | (k, Some e, Some g) :: _ => (fst m, k, diff_fields e g)
         | (k, _, _) :: _ => (fst m, k, ["length"])
         | [] => (fst m, 0%nat, [])
         end) (mismatches cs).

(* ---------- monitor: the property on the implementation's own trace ----------
   It re-computes nothing of the implementation's logic: it keeps the inputs (stores, regions, config) from
   the operations and judges the observed status changes against them. *)
Record mon := Mon {
  m_cfg : config; m_stores : list store; m_regions : list region;
  m_gid : Z;                 (* the state id the good set below belongs to *)
  m_good : list region;      (* regions seen in the cache, at some tick of the recovery under m_gid, with integrity under m_gid *)
  m_ids : list Z;            (* state ids seen in served statuses or files *)
  m_clk : clock              (* the clock inputs, from the operations *)
}.

Definition good_now (sid : Z) (l : list region) : list region := filter (fun r => (r_sid r =? sid) && r_int r) l.
(* the good set is a set of key ranges: one entry per (start, end) *)
Definition same_range (a b : region) : bool := String.eqb (r_start a) (r_start b) && String.eqb (r_end a) (r_end b).
Definition add_ranges (acc new : list region) : list region :=
  fold_left (fun a r => if existsb (same_range r) a then a else r :: a) new acc.

(* is there a chain of good regions from key k to +inf ?  (fuel = number of good regions) *)
Fixpoint chain_from (fuel : nat) (good : list region) (k : string) : bool :=
  match fuel with
  | O => false
  (* written with `if`: vm_compute is call-by-value, `&&` / `||` would evaluate the recursive call for every region *)
  | S n => existsb (fun r => if String.eqb (r_start r) k then (if key_empty (r_end r) then true else chain_from n good (r_end r)) else false) good
  end.

Definition memZ' (x : Z) (l : list Z) : bool := existsb (Z.eqb x) l.

Definition mon_step (m : mon) (o : op) (prev cur : obs) : mon * list string :=
  (* inputs *)
  let cfg' := match o with OConfig c _ => if res_eqb (o_res cur) ROk then c else m_cfg m | _ => m_cfg m end in
  let stores' := match o with OStore id d => map (fun x => if s_id x =? id then Store (s_id x) (s_key x) (s_dc x) d (s_tomb x) else x) (m_stores m) | _ => m_stores m end in
  let regions' := match o with
                  | OLayout l => l
                  | OReport rid sid integ => map (fun r => if r_id r =? rid then Region (r_id r) (r_start r) (r_end r) sid integ else r) (m_regions m)
                  | _ => m_regions m end in
  let ps := o_served prev in let cs := o_served cur in
  let changed := negb (opt_eqb status_eqb ps cs) in
  let dp := count_down (cf_label (m_cfg m)) (m_stores m) Primary in let dd := count_down (cf_label (m_cfg m)) (m_stores m) Dr in
  let csync := can_sync (m_cfg m) dp dd in let hmaj := has_majority (m_cfg m) dp dd in
  let is_tick := match o with OTick _ => true | _ => false end in
  let to (d : dstate) := match cs with Some x => changed && dstate_eqb (st_state x) d | None => false end in
  let from (d : dstate) := match ps with Some x => dstate_eqb (st_state x) d | None => false end in
  let pid := match ps with Some x => st_id x | None => 0 end in
  (* the id the scan of this tick ran under: the new one if this very tick entered sync_recover *)
  let scan_id := match cs with Some x => if dstate_eqb (st_state x) SyncRecover then st_id x else pid | None => pid end in
  let acc := add_ranges (if m_gid m =? scan_id then m_good m else []) (good_now scan_id (m_regions m)) in
  let v := (
    (* 1 async only when one dc lost all its replicas, a majority can be up, and the timeout passed *)
    (if is_tick && to Async && negb (negb csync && hmaj && async_ok_at (m_cfg m) (m_clk m)) then ["C19:async-without-cause"] else []) ++
    (* 2 async -> sync_recover only when both dcs have fewer failed stores than replicas *)
    (if is_tick && to SyncRecover && negb csync then ["C19:recover-while-a-dc-is-down"] else []) ++
    (* a tick whose inputs send it to async (a dc lost its replicas, a majority is up, the timeout passed, not async yet) cannot end in sync *)
    (* (a tick without any fault: when the switch to async itself fails to persist the state stays sync_recover and a finished scan leads on) *)
    (if (match o with OTick f => match f_save f, f_alloc f with None, None => negb (f_rep f) | _, _ => false end | _ => false end)
        && to Sync && negb csync && hmaj && async_ok_at (m_cfg m) (m_clk m) && negb (from Async)
     then ["C19:sync-declared-in-a-tick-that-had-to-go-async"] else []) ++
    (if is_tick && to SyncRecover && negb (from Async) then ["C19:recover-not-from-async"] else []) ++
    (* 3 sync only after a full contiguous chain of regions with integrity under the current id *)
    (if is_tick && to Sync then
       if negb (from SyncRecover) then ["C19:sync-not-from-sync-recover"]
       else if chain_from (S (length acc)) acc "" then [] else ["C19:sync-declared-without-full-scan"]
     else []) ++
    (* 4 every published status carries an id never seen before *)
    (if changed then match cs with
                     | Some x => if memZ' (st_id x) (m_ids m) then ["C19:state-id-reused"]
                                 else if existsb (fun i => st_id x <=? i) (m_ids m) then ["C19:state-id-not-increasing"] else []
                     | None => [] end else []) ++
    (* 5 persisted and offered before served: a published status is in storage and was handed to the replicater *)
    (if changed then
       match cs with
       | Some x => (* storage holds the served status, or a later one (a later switch of the same operation whose save was applied but
                      reported failed): exactly C19_persist_before_serve *)
                   (match o_stored cur with
                    | Some y => if status_eqb y x || (st_id x <? st_id y) then [] else ["C19:served-status-not-persisted"]
                    | None => ["C19:served-status-not-persisted"]
                    end) ++
                   (if existsb (status_eqb x) (o_files cur) then [] else ["C19:served-status-not-offered-to-members"])
       | None => []
       end
     else []) ++
    (* 6 a failed persist leaves the served status unchanged *)
    (match o with
     | OTick f | OConfig _ f =>
         match f_save f with
         | Some (0%nat, _) =>
             (* the first save of this operation failed: a change can only come from a later, successful switch *)
             (* (a switch to majority mode hides the status: that is not a change of it) *)
             if changed && (match cs with Some _ => true | None => false end) && Nat.leb (length (o_files cur)) 1
             then ["C19:failed-persist-changed-served-status"] else []
         | _ => []
         end
     | _ => []
     end))%list in
  (Mon cfg' stores' regions' (if is_tick then scan_id else m_gid m) (if is_tick then acc else m_good m)
       ((match cs with Some x => [st_id x] | None => [] end) ++ map st_id (o_files cur) ++ m_ids m)%list
       (clock_step (m_clk m) o), v).

(* a new manager on the same storage *)
Definition mon_restart (m : mon) (load_fails : bool) (prev cur : obs) : mon * list string :=
  let dr := cf_dr (m_cfg m) in
  let same_stored := opt_eqb status_eqb (o_stored prev) (o_stored cur) in
  let v :=
    (if dr && load_fails then
       (* "a storage failure leaves served and persisted state unchanged": the creation must fail and touch nothing *)
       (if res_eqb (o_res cur) ROk then ["C19:failed-status-load-treated-as-nothing-persisted"] else []) ++
       (if same_stored && match o_files cur with [] => true | _ => false end then [] else ["C19:failed-load-changed-persisted-state"]) ++
       (match o_served cur, o_stored prev with
        | Some x, Some y => if negb (opt_eqb status_eqb (o_served prev) (o_served cur))
                               && dstate_eqb (st_state x) Sync && negb (dstate_eqb (st_state y) Sync)
                            then ["C19:sync-declared-without-full-scan"] else []
        | _, _ => []
        end)
     else if dr && res_eqb (o_res cur) ROk then
       (* the persisted state is what the new manager serves; nothing is allocated or written for it *)
       match o_stored prev with
       | Some y => if opt_eqb status_eqb (o_served cur) (Some y) && same_stored && match o_files cur with [] => true | _ => false end
                   then [] else ["C19:new-leader-does-not-serve-the-persisted-state"]
       | None => []
       end
     else [])%list in
  (Mon (m_cfg m) (m_stores m) (m_regions m)
       (if res_eqb (o_res cur) ROk then 0 else m_gid m) (if res_eqb (o_res cur) ROk then [] else m_good m)   (* a failed creation leaves the previous manager (and its scan) in place *)
       ((match o_served cur with Some x => [st_id x] | None => [] end) ++ map st_id (o_files cur) ++ m_ids m)%list
       (if res_eqb (o_res cur) ROk then Clock (c_now (m_clk m)) (c_now (m_clk m)) [] else m_clk m), v).
Fixpoint mon_run (m : mon) (ops : list rop) (prev : obs) (obs_l : list obs) : list string :=
  match ops, obs_l with
  | ROp o :: r, b :: br => let '(m', v) := mon_step m o prev b in (v ++ mon_run m' r b br)%list
  | RRestart lf _ :: r, b :: br => let '(m', v) := mon_restart m lf prev b in (v ++ mon_run m' r b br)%list
  | _, _ => []
  end.
Definition monitor (c : case) : list string :=
  let '(b, ops, got) := c in
  match got with
  | b0 :: br =>
      (* the ids of the boot observation are spent; an id both served and in a file of the SAME step is one id *)
      let ids0 := (match o_stored b0 with Some x => [st_id x] | None => [] end) in
      nodup string_dec (mon_run (Mon (b_cfg b) (b_stores b) (b_regions b) 0 [] ids0 (Clock 0 0 [])) ops b0 br)
  | [] => ["C19:empty-trace"]
  end.
Fixpoint monitor_fails_from (n : nat) (cs : list case) : list (nat * string) :=
  match cs with
  | [] => []
  | c :: r => (map (fun sg => (n, sg)) (monitor c) ++ monitor_fails_from (S n) r)%list
  end.
Definition monitor_fails := monitor_fails_from 0.

(* ---------- the Server-level entry point: Server.SetReplicationModeConfig on a real server with a faulty storage ----------
   Observed around every call: the mode and label key the ModeManager runs with and the status it serves (HTTP status), the
   persisted status, the replication-mode section served by the options and what a fresh reload of the config key gives.  No model
   state is involved: "a failed call leaves served and persisted state unchanged", "an accepted change is what is reloaded". *)
Record sobs := SObs {
  so_mode : string; so_label : string; so_status : option status;   (* ModeManager: mode, label key, served status *)
  so_stored : option status;                                         (* persisted replication status *)
  so_cmode : string; so_clabel : string;                             (* served replication-mode section (mode, dr-auto-sync.label-key) *)
  so_rmode : string; so_rlabel : string }.                           (* the same after a fresh reload of the config key *)
(* a step: result, whether the config write / the status save of this call was applied-but-reported-failed, before, after *)
Definition sstep := (res * bool * bool * sobs * sobs)%type.
Definition scase := list sstep.
(* config.NormalizeReplicationMode: lower case, '_' for '-' *)
Definition lower_ascii (c : Ascii.ascii) : Ascii.ascii :=
  let n := Ascii.nat_of_ascii c in if (Nat.leb 65 n && Nat.leb n 90)%bool then Ascii.ascii_of_nat (n + 32) else c.
Fixpoint norm_mode (s : string) : string :=
  match s with
  | EmptyString => EmptyString
  | String c r => String (if Ascii.eqb c "_" then "-"%char else lower_ascii c) (norm_mode r)
  end.
(* whatever is served to stores is a status that was allocated and persisted: storage holds it, or a later one *)
Definition served_is_persisted (b : sobs) : list string :=
  match so_status b with
  | Some x => match so_stored b with
              | Some y => if (0 <? st_id x) && (status_eqb y x || (st_id x <? st_id y)) then [] else ["C19:served-status-not-persisted"]
              | None => ["C19:served-status-not-persisted"]
              end
  | None => []
  end.
Definition mon_sstep (st : sstep) : list string :=
  let '(r, cfg_unknown, st_unknown, a, b) := st in
  served_is_persisted b ++
  if res_eqb r ROk then
    ((if String.eqb (so_cmode b) (so_rmode b) && String.eqb (so_clabel b) (so_rlabel b) then [] else ["C19:accepted-mode-config-not-reloaded"]) ++
     (* an accepted dr-auto-sync configuration (in any accepted spelling) is in effect: stores are told so *)
     (if String.eqb (norm_mode (so_cmode b)) "dr-auto-sync" && match so_status b with None => true | Some _ => false end
      then ["C19:accepted-dr-auto-sync-mode-not-in-effect"] else []))%list
  else
    ((if String.eqb (so_mode a) (so_mode b) && String.eqb (so_label a) (so_label b) && opt_eqb status_eqb (so_status a) (so_status b)
      then [] else ["C19:failed-mode-config-change-altered-served-status"]) ++
     (if st_unknown || opt_eqb status_eqb (so_stored a) (so_stored b) then [] else ["C19:failed-mode-config-change-altered-persisted-status"]) ++
     (if String.eqb (so_cmode a) (so_cmode b) && String.eqb (so_clabel a) (so_clabel b) then [] else ["C19:failed-mode-config-change-altered-served-config"]) ++
     (* the stored config is as before, or (the roll-back wrote the served section again, repairing an earlier unknown outcome) the served one *)
     (if cfg_unknown || (String.eqb (so_rmode a) (so_rmode b) && String.eqb (so_rlabel a) (so_rlabel b))
         || (String.eqb (so_rmode b) (so_cmode b) && String.eqb (so_rlabel b) (so_clabel b)) then []
      else ["C19:failed-mode-config-change-altered-stored-config"]))%list.
Definition monitor_s (c : scase) : list string := nodup string_dec (flat_map mon_sstep c).
Definition monitor_s_fails (cs : list scase) : list (nat * string) :=
  flat_map (fun ic : nat * scase => map (fun sg => (fst ic, sg)) (monitor_s (snd ic))) (number_from 0 cs).

(* ---------- the FileReplicater behind the interface: Server.ReplicateFileToAllMembers on a real cluster of several members ----------
   "offered to all members": every member that can be reached holds the file afterwards, wherever an unreachable member sits in the
   member list.  One entry per member: name, reachable?, does its DR_STATE file hold the offered content afterwards? *)
Definition fcase := list (string * bool * bool).
Definition monitor_f (c : fcase) : list string :=
  if forallb (fun e : string * bool * bool => let '(_, alive, has) := e in negb alive || has) c then []
  else ["C19:reachable-member-not-offered-the-dr-state-file"].
Definition monitor_f_fails (cs : list fcase) : list (nat * string) :=
  flat_map (fun ic : nat * fcase => map (fun sg => (fst ic, sg)) (monitor_f (snd ic))) (number_from 0 cs).
