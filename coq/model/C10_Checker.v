(* C10 — executable, set-valued model of the replica checker and the placement-rule checker
   (server/schedule/checker/{replica_checker,rule_checker,replica_strategy}.go) over the filters of
   server/schedule/filter/filters.go.  Definitions only; proofs in proof/C10_*.v.

   Set-valued: every function that the code implements with a sort by a float score, a map iteration
   or rand returns the list of ALL results the code may produce; `None` in a result list means
   "this stage yields no operator and the cascade goes on".
   The StoreStateFilter semantics comes from the regenerated tables of gen/Gen_C10.v (conds,
   temp_conds, target_dispatch, source_dispatch), the literal flag sets of SelectStoreToAdd/Remove,
   the comparison operators of fixPeer / checkRemoveExtraReplica / checkMakeUpReplica and the order of
   ReplicaChecker.Check are consumed from there as well. *)
From PDV Require Import lib.C10_Cluster gen.Gen_C10.
Local Open Scope list_scope.
Local Open Scope Z_scope.

(* ---------- instantiation of the generated tables ---------- *)
Definition sft (f : sfilter) (s : store) : bool := sf_target Gen_C10.conds Gen_C10.temp_conds Gen_C10.target_dispatch f s.
Definition sfs (f : sfilter) (s : store) : bool := sf_source Gen_C10.conds Gen_C10.temp_conds Gen_C10.source_dispatch f s.
Definition dscore := distinct_score Gen_C10.replicaBaseScore.

(* ---------- configuration, region, placement-rule fit (inputs) ---------- *)
Record config := Config {
  max_replicas : Z;
  loc_labels : list Z;            (* replication.location-labels (label key ids) *)
  iso_level : Z;                  (* replication.isolation-level, 0 = "" *)
  en_remove_down : bool; en_replace_offline : bool; en_make_up : bool; en_remove_extra : bool; en_location : bool;
  rules_enabled : bool;           (* placement rules *)
  joint_enabled : bool;           (* joint consensus supported and use-joint-consensus *)
  reject_leader : list (Z * lval) (* label-property reject-leader: the configured (key, value) entries *)
}.

Record region := Region {
  peers : list peer;
  leader : option peer;
  down : list (peer * bool);      (* DownPeers: (peer, DownSeconds >= max-store-down-time) *)
  pending : list Z                (* PendingPeers: peer ids *)
}.

Inductive lop := LIn | LNotIn | LExists | LNotExists.
Record lcons := LCons { lc_key : Z; lc_op : lop; lc_vals : list lval }.
Inductive rrole := RVoter | RLeader | RFollower | RLearner.
Record rule := Rule { ru_role : rrole; ru_count : Z; ru_cons : list lcons; ru_labels : list Z; ru_iso : Z }.
Record rulefit := RuleFit { rf_rule : rule; rf_peers : list peer; rf_loose : list peer }.
Record fit := Fit { fit_rules : list rulefit; fit_orphans : list peer }.

(* what the merge checker sees of a neighbour (AllowMerge, hot flag and - under placement rules - IsRegionReplicated are read
   back from the real code) and of the region itself *)
Record nbr := Nbr { n_peers : list peer; n_down : Z; n_pending : Z; n_allow : bool; n_hot : bool; n_replicated : bool; n_size : Z }.
Record menv := MEnv {
  me_on : bool;            (* the merge checker is consulted and active: merge limit not reached, not recently started / split *)
  me_size : Z;             (* approximate size of the region *)
  me_small : bool;         (* size <= max-merge-region-size and keys <= max-merge-region-keys *)
  me_hot : bool;
  me_one_way : bool;
  me_split_keys : bool;    (* RuleManager.GetSplitKeys(start, end) of the region is not empty *)
  me_prev : option nbr;
  me_next : option nbr
}.

Inductive entry := EReplica | ERule | EController.   (* ReplicaChecker.Check / RuleChecker.Check / CheckerController.CheckRegion *)
Record input := Input { i_cfg : config; i_stores : list store; i_region : region; i_fit : fit; i_entry : entry; i_menv : menv }.

(* ---------- label constraints (placement/label_constraint.go) ---------- *)
(* key ids: the driver's table gives "specialUse" the id 50 and exclusive keys ("engine", "exclusive", "$...") ids >= 100 *)
Definition key_special_use : Z := 50.
Definition key_engine : Z := 100.
Definition val_hot_region : Z := 1.
Definition val_reserved : Z := 2.
Definition val_tiflash : Z := 3.
Definition is_exclusive_key (k : Z) : bool := 100 <=? k.

Definition match_cons (c : lcons) (s : store) : bool :=
  let v := label_value s (lc_key c) in
  match lc_op c with
  | LIn => negb (lv_empty v) && existsb (lv_eq v) (lc_vals c)
  | LNotIn => lv_empty v || negb (existsb (lv_eq v) (lc_vals c))
  | LExists => negb (lv_empty v)
  | LNotExists => lv_empty v
  end.

Definition match_constraints (cs : list lcons) (s : store) : bool :=
  forallb (fun kv => negb (is_exclusive_key (fst kv)) || existsb (fun c => lc_key c =? fst kv) cs) (s_labels s)
  && forallb (fun c => match_cons c s) cs.

(* NewSpecialUseFilter(scope) without allowed uses: Target = !(specialUse in [hotRegion, reserved]) *)
Definition special_use (s : store) : bool :=
  match_cons (LCons key_special_use LIn [(val_hot_region, 0); (val_reserved, 0)]) s.

(* ---------- isolation filter ---------- *)
Fixpoint index_of (x : Z) (l : list Z) : option nat :=
  match l with
  | [] => None
  | y :: r => if x =? y then Some O else match index_of x r with Some n => Some (S n) | None => None end
  end.

(* NewIsolationFilter + isolationFilter.Target: a level that is not a location label selects index 0 *)
Definition isolation_pass (labels : list Z) (iso : Z) (coloc : list store) (s : store) : bool :=
  let idx := match index_of iso labels with Some n => n | None => O end in
  let ks := firstn (S idx) labels in
  negb (existsb (fun c => match ks with [] => false | _ => forallb (fun k => lv_eq (label_value s k) (label_value c k)) ks end) coloc).

(* ---------- ReplicaStrategy ---------- *)
Record strategy := Strategy {
  st_labels : list Z; st_iso : Z;
  st_extra : store -> bool            (* s.extraFilters: the rule checker's label-constraint filter *)
}.

Definition region_stores (stores : list store) (r : region) : list store :=
  filter (fun s => memZ (sid s) (stores_of (peers r))) stores.

Definition first_filters (stg : strategy) (r : region) (coloc : list store) (extra : store -> bool) (s : store) : bool :=
  negb (memZ (sid s) (stores_of (peers r)))                      (* NewExcludedFilter(nil, region.GetStoreIds()) *)
  && negb (s_low s)                                              (* NewStorageThresholdFilter *)
  && negb (special_use s)                                        (* NewSpecialUseFilter *)
  && sft Gen_C10.sel_add_first_flags s                           (* StoreStateFilter literal #1 *)
  && (match st_labels stg with [] => true | _ => if st_iso stg =? 0 then true else isolation_pass (st_labels stg) (st_iso stg) coloc s end)
  && extra s
  && st_extra stg s.

Definition max_score (labels : list Z) (coloc cands : list store) : Z :=
  fold_left (fun m s => Z.max m (dscore labels coloc s)) cands 0.

(* SelectStoreToAdd: the set of stores PickFirst may return *)
Definition select_to_add (stg : strategy) (stores : list store) (r : region) (coloc : list store) (extra : store -> bool) : list store :=
  let cands := filter (first_filters stg r coloc extra) stores in
  let best := max_score (st_labels stg) coloc cands in
  let top := filter (fun s => dscore (st_labels stg) coloc s =? best) cands in
  filter (sft Gen_C10.sel_add_strict_flags) top.

Definition without (id : Z) (l : list store) : list store := filter (fun s => negb (sid s =? id)) l.

Definition select_to_fix (stg : strategy) (stores : list store) (r : region) (coloc : list store) (old : Z) : list store :=
  select_to_add stg stores r (without old coloc) (fun _ => true).

(* SelectStoreToImprove: NewLocationImprover(labels, coloc, old) (+ isolation filter on coloc[1:]) *)
Definition select_to_improve (stg : strategy) (stores : list store) (r : region) (coloc : list store) (old : store) : list store :=
  let rest := without (sid old) coloc in
  let safe := dscore (st_labels stg) rest old in
  select_to_add stg stores r rest (fun s => safe <? dscore (st_labels stg) rest s).

Definition min_score (labels : list Z) (coloc cands : list store) : Z :=
  match cands with
  | [] => 0
  | c :: r => fold_left (fun m s => Z.min m (dscore labels coloc s)) r (dscore labels coloc c)
  end.

(* SelectStoreToRemove: lowest isolation score among the stores that pass the source filter *)
Definition select_to_remove (stg : strategy) (coloc : list store) : list store :=
  let cands := filter (sfs Gen_C10.sel_remove_flags) coloc in
  let worst := min_score (st_labels stg) coloc cands in
  filter (fun s => dscore (st_labels stg) coloc s =? worst) cands.

(* ---------- what the operator builder accepts (operator/builder.go, the part the checkers depend on) ---------- *)
Definition leader_store (r : region) : Z := match leader r with Some p => p_store p | None => 0 end.
Definition leader_id (r : region) : Z := match leader r with Some p => p_id p | None => 0 end.

Definition any_rule_allows_leader (f : fit) (s : store) : bool :=
  existsb (fun rf => match ru_role (rf_rule rf) with RLeader | RVoter => match_constraints (ru_cons (rf_rule rf)) s | _ => false end) (fit_rules f).

(* Builder.allowLeader(peer, false) *)
Definition build_allow_leader (inp : input) (p : peer) : bool :=
  match p_role p with
  | Learner | Demoting => false
  | _ =>
      if p_store p =? leader_store (i_region inp) then true
      else match find_store (i_stores inp) (p_store p) with
           | None => false
           | Some s => sft [TransferLeader] s
                       && (if rules_enabled (i_cfg inp) then any_rule_allows_leader (i_fit inp) s else true)
           end
  end.

(* NewBuilder's checks *)
Definition region_ok (inp : input) : bool :=
  let r := i_region inp in
  forallb (fun p => negb (p_store p =? 0)) (peers r)
  && memZ (leader_store r) (stores_of (peers r)) && negb (leader_store r =? 0)
  && (if rules_enabled (i_cfg inp) then match fit_rules (i_fit inp) with [] => false | _ => true end else true)
  && negb (in_joint (peers r)).

Definition add_feasible (inp : input) (t : Z) : bool :=
  region_ok inp && negb (t =? 0) && negb (memZ t (stores_of (peers (i_region inp)))).

Definition remove_feasible (inp : input) (st : Z) : bool :=
  let r := i_region inp in
  region_ok inp && memZ st (stores_of (peers r))
  && existsb (fun p => negb (is_learner p) && negb (p_store p =? st)) (peers r)       (* a voter remains *)
  && (negb (st =? leader_store r)
      || existsb (fun p => negb (p_store p =? st) && build_allow_leader inp p) (peers r)).

Definition replace_feasible (inp : input) (old new : Z) (new_learner : bool) : bool :=
  let r := i_region inp in
  region_ok inp && memZ old (stores_of (peers r)) && negb (new =? 0) && negb (memZ new (stores_of (peers r)))
  && (existsb (fun p => negb (is_learner p) && negb (p_store p =? old)) (peers r) || negb new_learner)
  && (negb (old =? leader_store r)
      || existsb (fun p => negb (p_store p =? old) && build_allow_leader inp p) (peers r)
      || build_allow_leader inp (Peer 0 new (if new_learner then Learner else Voter))).

(* ---------- abstract operators ---------- *)
Inductive stage :=
| StDown | StOffline | StExtraDown | StExtraOffline | StMakeUp | StExtra | StLocation         (* replica checker *)
| StOrphan | StRuleAdd | StRuleDown | StRuleOffline | StRuleRole | StRuleLocation | StSplit   (* rule checker *)
| StJoint | StLearner | StMerge                                                               (* joint-state, learner, merge checker *)
| StOther.
Definition stage_idx (s : stage) : Z :=
  match s with
  | StDown => 0 | StOffline => 1 | StExtraDown => 2 | StExtraOffline => 3 | StMakeUp => 4 | StExtra => 5 | StLocation => 6
  | StOrphan => 7 | StRuleAdd => 8 | StRuleDown => 9 | StRuleOffline => 10 | StRuleRole => 11 | StRuleLocation => 12
  | StSplit => 13 | StOther => 14 | StJoint => 15 | StLearner => 16 | StMerge => 17
  end.
Definition stage_eqb (a b : stage) : bool := stage_idx a =? stage_idx b.

Inductive aop :=
| AAdd (t : Z) (learner : bool)
| ARemove (s : Z)
| AReplace (old new : Z) (learner : bool)
| APromote (s : Z)
| ATransfer (to : Z)
| ANoChange           (* split, or steps that change neither membership nor leader *)
| AAny.               (* model side only: any steps (leave-joint-state: roles and possibly the leader change) *)
Definition aop_eqb (a b : aop) : bool :=
  match a, b with
  | AAdd t l, AAdd t' l' => (t =? t') && Bool.eqb l l'
  | ARemove s, ARemove s' => s =? s'
  | AReplace o n l, AReplace o' n' l' => (o =? o') && (n =? n') && Bool.eqb l l'
  | APromote s, APromote s' => s =? s'
  | ATransfer t, ATransfer t' => t =? t'
  | ANoChange, ANoChange => true
  | AAny, _ | _, AAny => true
  | _, _ => false
  end.

Definition res := option (stage * aop).
Definition res_eqb (a b : res) : bool :=
  match a, b with
  | None, None => true
  | Some (s, o), Some (s', o') => stage_eqb s s' && aop_eqb o o'
  | _, _ => false
  end.

(* a stage yields the operator when the builder accepts it, otherwise nil *)
Definition guard_op (ok : bool) (st : stage) (o : aop) : res := if ok then Some (st, o) else None.

(* the cascade: a stage's None lets the rest of the cascade speak *)
Fixpoint cascade (stages : list (list res)) : list res :=
  match stages with
  | [] => [None]
  | s :: rest => flat_map (fun x => match x with Some _ => [x] | None => cascade rest end) s
  end.

(* ---------- the replica checker ---------- *)
Definition voter_count (r : region) : Z := Z.of_nat (List.length (voters_of (peers r))).
Definition peer_count (r : region) : Z := Z.of_nat (List.length (peers r)).

Definition replica_strategy (c : config) : strategy := Strategy (loc_labels c) (iso_level c) (fun _ => true).

Definition fix_peer (inp : input) (st : Z) (extra_stage repl_stage : stage) : list res :=
  let c := i_cfg inp in let r := i_region inp in
  if cmp_eval Gen_C10.fix_peer_surplus_op (voter_count r) (max_replicas c)
  then [guard_op (remove_feasible inp st) extra_stage (ARemove st)]
  else
    match select_to_fix (replica_strategy c) (i_stores inp) r (region_stores (i_stores inp) r) st with
    | [] => [None]
    | ts => map (fun t => guard_op (replace_feasible inp st (sid t) false) repl_stage (AReplace st (sid t) false)) ts
    end.

Fixpoint check_down (inp : input) (ds : list (peer * bool)) : list res :=
  match ds with
  | [] => [None]
  | (p, secs) :: rest =>
      match find_store (i_stores inp) (p_store p) with
      | None => [None]                                   (* "lost the store": return nil *)
      | Some s => if s_down s && secs then fix_peer inp (p_store p) StExtraDown StDown
                  else check_down inp rest
      end
  end.

Fixpoint check_offline (inp : input) (ps : list peer) : list res :=
  match ps with
  | [] => [None]
  | p :: rest =>
      match find_store (i_stores inp) (p_store p) with
      | None => [None]
      | Some s => if is_up s then check_offline inp rest else fix_peer inp (p_store p) StExtraOffline StOffline
      end
  end.

Definition run_replica_stage (inp : input) (name : string) : list res :=
  let c := i_cfg inp in let r := i_region inp in
  let stores := i_stores inp in
  let stg := replica_strategy c in
  if String.eqb name "checkDownPeer" then
    if en_remove_down c then check_down inp (down r) else [None]
  else if String.eqb name "checkOfflinePeer" then
    if en_replace_offline c then
      match filter is_learner (peers r) with [] => check_offline inp (peers r) | _ => [None] end
    else [None]
  else if String.eqb name "checkMakeUpReplica" then
    if en_make_up c then
      if cmp_eval Gen_C10.make_up_skip_op (peer_count r) (max_replicas c) then [None]
      else match select_to_add stg stores r (region_stores stores r) (fun _ => true) with
           | [] => [None]
           | ts => map (fun t => guard_op (add_feasible inp (sid t)) StMakeUp (AAdd (sid t) false)) ts
           end
    else [None]
  else if String.eqb name "checkRemoveExtraReplica" then
    if en_remove_extra c then
      if cmp_eval Gen_C10.remove_extra_skip_op (voter_count r) (max_replicas c) then [None]
      else match select_to_remove stg (region_stores stores r) with
           | [] => [None]
           | os => map (fun o => guard_op (remove_feasible inp (sid o)) StExtra (ARemove (sid o))) os
           end
    else [None]
  else if String.eqb name "checkLocationReplacement" then
    if en_location c then
      match select_to_remove stg (region_stores stores r) with
      | [] => [None]
      | os => flat_map (fun o =>
                match select_to_improve stg stores r (region_stores stores r) o with
                | [] => [None]
                | ts => map (fun t => guard_op (replace_feasible inp (sid o) (sid t) false) StLocation (AReplace (sid o) (sid t) false)) ts
                end) os
      end
    else [None]
  else [Some (StOther, ANoChange)].     (* a check the model does not know: never matches an observation *)

Definition replica_check (inp : input) : list res :=
  cascade (map (run_replica_stage inp) Gen_C10.replica_check_order).

(* ---------- the rule checker (the fit is an input, computed by the real FitRegion) ---------- *)
Definition rf_satisfied (rf : rulefit) : bool :=
  (Z.of_nat (List.length (rf_peers rf)) =? ru_count (rf_rule rf)) && match rf_loose rf with [] => true | _ => false end.

Definition rule_strategy (ru : rule) : strategy := Strategy (ru_labels ru) (ru_iso ru) (match_constraints (ru_cons ru)).
Definition rule_stores (stores : list store) (rf : rulefit) : list store :=
  (* getRuleFitStores: in the order of rf.Peers; the order is irrelevant for every consumer *)
  flat_map (fun p => match find_store stores (p_store p) with Some s => [s] | None => [] end) (rf_peers rf).
Definition rule_learner (ru : rule) : bool := match ru_role ru with RLearner => true | _ => false end.

Definition is_down_peer (inp : input) (p : peer) : bool :=
  (* first DownPeers entry with this peer id decides when its store is missing; otherwise any qualifying entry *)
  (fix go (ds : list (peer * bool)) : bool :=
     match ds with
     | [] => false
     | (q, secs) :: rest =>
         if p_id q =? p_id p then
           match find_store (i_stores inp) (p_store p) with
           | None => false
           | Some s => if s_down s && secs then true else go rest
           end
         else go rest
     end) (down (i_region inp)).
Definition is_offline_peer (inp : input) (p : peer) : bool :=
  match find_store (i_stores inp) (p_store p) with None => false | Some s => negb (is_up s) end.

Definition rule_replace (inp : input) (rf : rulefit) (p : peer) (st : stage) : list res :=
  let ru := rf_rule rf in
  match select_to_fix (rule_strategy ru) (i_stores inp) (i_region inp) (rule_stores (i_stores inp) rf) (p_store p) with
  | [] => [None]
  | ts => map (fun t => guard_op (replace_feasible inp (p_store p) (sid t) (rule_learner ru)) st
                                 (AReplace (p_store p) (sid t) (rule_learner ru))) ts
  end.

Fixpoint first_unexpected (inp : input) (ps : list peer) : option (peer * stage) :=
  match ps with
  | [] => None
  | p :: rest => if is_down_peer inp p then Some (p, StRuleDown)
                 else if is_offline_peer inp p then Some (p, StRuleOffline)
                 else first_unexpected inp rest
  end.

(* NewBuilder's checks without the joint-state check (SkipOriginJointStateCheck) *)
Definition region_ok_nojoint (inp : input) : bool :=
  let r := i_region inp in
  forallb (fun p => negb (p_store p =? 0)) (peers r)
  && memZ (leader_store r) (stores_of (peers r)) && negb (leader_store r =? 0)
  && (if rules_enabled (i_cfg inp) then match fit_rules (i_fit inp) with [] => false | _ => true end else true).

(* Builder.unhealthyPeers: the stores of pending and down peers *)
Definition unhealthy_stores (r : region) : list Z :=
  map (fun d => p_store (fst d)) (down r) ++ flat_map (fun p => if memZ (p_id p) (pending r) then [p_store p] else []) (peers r).

(* RuleChecker.allowLeader *)
Definition rc_allow_leader (inp : input) (p : peer) : bool :=
  negb (is_learner p)
  && match find_store (i_stores inp) (p_store p) with
     | Some s => sft [TransferLeader] s && any_rule_allows_leader (i_fit inp) s
     | None => false
     end.

(* CreateTransferLeaderOperator (SkipOriginJointStateCheck) to the store of p *)
Definition transfer_feasible (inp : input) (p : peer) : bool :=
  let r := i_region inp in
  region_ok_nojoint inp && negb (memZ (p_store p) (unhealthy_stores r)) && build_allow_leader inp p
  && negb (p_store p =? leader_store r).

(* fixLooseMatchPeer: an operator, an error (the rule is given up, fixBetterLocation is NOT tried), or nothing *)
Inductive lres := LOp (r : stage * aop) | LErr | LNil.

Definition fix_loose (inp : input) (rf : rulefit) (p : peer) : lres :=
  let r := i_region inp in let ru := rf_rule rf in
  match leader r with
  | None => LErr                                            (* "region has no leader" *)
  | Some l =>
      if is_learner p && negb (rule_learner ru) then
        if region_ok inp && negb (memZ (p_store p) (unhealthy_stores r)) then LOp (StRuleRole, APromote (p_store p)) else LErr
      else if negb (p_id l =? p_id p) && match ru_role ru with RLeader => true | _ => false end then
        if rc_allow_leader inp p && transfer_feasible inp p then LOp (StRuleRole, ATransfer (p_store p)) else LErr
      else if (p_id l =? p_id p) && match ru_role ru with RFollower => true | _ => false end then
        (* the first peer of the region that may lead - possibly the leader itself, then nothing is built *)
        match find (rc_allow_leader inp) (peers r) with
        | Some q => if transfer_feasible inp q then LOp (StRuleRole, ATransfer (p_store q)) else LErr
        | None => LErr
        end
      else LNil
  end.

Definition better_location (inp : input) (rf : rulefit) : list res :=
  let ru := rf_rule rf in
  match ru_labels ru with
  | [] => [None]
  | _ =>
      if ru_count ru <=? 1 then [None]
      else
        let rs := rule_stores (i_stores inp) rf in
        match select_to_remove (rule_strategy ru) rs with
        | [] => [None]
        | os => flat_map (fun o =>
                  match select_to_improve (rule_strategy ru) (i_stores inp) (i_region inp) rs o with
                  | [] => [None]
                  | ts => map (fun t => guard_op (replace_feasible inp (sid o) (sid t) (rule_learner ru)) StRuleLocation
                                                (AReplace (sid o) (sid t) (rule_learner ru))) ts
                  end) os
        end
  end.

Fixpoint loose_loop (inp : input) (rf : rulefit) (ps : list peer) : list res :=
  match ps with
  | [] => better_location inp rf
  | p :: rest => match fix_loose inp rf p with
                 | LOp x => [Some x]
                 | LErr => [None]
                 | LNil => loose_loop inp rf rest
                 end
  end.

Definition fix_rule_peer (inp : input) (rf : rulefit) : list res :=
  let ru := rf_rule rf in
  if Z.of_nat (List.length (rf_peers rf)) <? ru_count ru then
    match select_to_add (rule_strategy ru) (i_stores inp) (i_region inp) (rule_stores (i_stores inp) rf) (fun _ => true) with
    | [] => [None]
    | ts => map (fun t => guard_op (add_feasible inp (sid t)) StRuleAdd (AAdd (sid t) (rule_learner ru))) ts
    end
  else
    match first_unexpected inp (rf_peers rf) with
    | Some (p, st) => rule_replace inp rf p st
    | None =>
        loose_loop inp rf (rf_loose rf)
    end.

Definition fix_orphan (inp : input) : list res :=
  match fit_orphans (i_fit inp) with
  | [] => [None]
  | o :: _ => if forallb rf_satisfied (fit_rules (i_fit inp))
              then [guard_op (remove_feasible inp (p_store o)) StOrphan (ARemove (p_store o))]
              else [None]
  end.

Definition rule_check (inp : input) : list res :=
  match fit_rules (i_fit inp) with
  | [] => (* fixRange: no rule covers the whole region; split at the rule boundaries inside it, if any *)
          if me_split_keys (i_menv inp) && negb (in_joint (peers (i_region inp))) then [Some (StSplit, ANoChange)] else [None]
  | rfs => cascade (fix_orphan inp :: map (fix_rule_peer inp) rfs)
  end.

(* ---------- CheckerController.CheckRegion: joint-state checker, then rule checker, or learner checker and
   replica checker (the merge checker has nothing to merge in a one-region cluster) ---------- *)
Definition then_ (a b : list res) : list res := flat_map (fun x => match x with Some _ => [x] | None => b end) a.

Definition joint_stage (inp : input) : list res :=
  if in_joint (peers (i_region inp)) && region_ok_nojoint inp then [Some (StJoint, AAny)] else [None].

(* LearnerChecker: the first learner (GetLearners is sorted by peer id) whose promotion the builder accepts *)
Fixpoint insert_by_id (p : peer) (l : list peer) : list peer :=
  match l with [] => [p] | q :: r => if p_id p <=? p_id q then p :: q :: r else q :: insert_by_id p r end.
Definition learner_stage (inp : input) : list res :=
  let r := i_region inp in
  let ls := fold_right insert_by_id [] (filter is_learner (peers r)) in
  match filter (fun p => negb (memZ (p_store p) (unhealthy_stores r))) ls with
  | p :: _ => if region_ok inp then [Some (StLearner, APromote (p_store p))] else [None]
  | [] => [None]
  end.

(* ---------- the merge checker (safety side) ---------- *)
(* opt.IsRegionHealthy: no down and no pending peer; without placement rules no learner either *)
Definition healthy_peers (c : config) (ps : list peer) (ndown npend : Z) : bool :=
  (rules_enabled c || match filter is_learner ps with [] => true | _ => false end) && (ndown =? 0) && (npend =? 0).
Definition region_healthy (inp : input) : bool :=
  let r := i_region inp in
  healthy_peers (i_cfg inp) (peers r) (Z.of_nat (List.length (down r))) (Z.of_nat (List.length (pending r))).
(* opt.IsRegionReplicated *)
Definition region_replicated (inp : input) : bool :=
  let r := i_region inp in
  if rules_enabled (i_cfg inp) then
    match fit_rules (i_fit inp) with [] => false | rfs => forallb rf_satisfied rfs end
    && match fit_orphans (i_fit inp) with [] => true | _ => false end
  else match filter is_learner (peers r) with [] => true | _ => false end && (peer_count r =? max_replicas (i_cfg inp)).
(* MergeChecker.checkTarget *)
Definition merge_target_ok (inp : input) (n : nbr) : bool :=
  n_allow n && negb (n_hot n) && healthy_peers (i_cfg inp) (n_peers n) (n_down n) (n_pending n) && n_replicated n.
Definition merge_target (inp : input) : option nbr :=
  let m := i_menv inp in
  let t1 := match me_next m with Some n => if merge_target_ok inp n then Some n else None | None => None end in
  match me_prev m with
  | Some p =>
      if negb (me_one_way m) && merge_target_ok inp p then
        match t1, me_next m with
        | Some _, Some n => if n_size p <? n_size n then Some p else t1
        | _, _ => Some p
        end
      else t1
  | None => t1
  end.
(* isRegionMatch: same stores with the same kind of peer; then no peer has to be moved before the merge *)
Definition region_match (a b : list peer) : bool :=
  Nat.eqb (List.length a) (List.length b)
  && forallb (fun p => match peer_on b (p_store p) with Some q => Bool.eqb (is_learner p) (is_learner q) | None => false end) a.
Definition max_target_region_size : Z := 500.

Definition merge_ready (inp : input) : bool :=
  let m := i_menv inp in
  me_on m && negb (me_size m =? 0) && me_small m && region_healthy inp && region_replicated inp && negb (me_hot m).

Definition merge_stage (inp : input) : list res :=
  if merge_ready inp then
    match merge_target inp with
    | Some t =>
        if max_target_region_size <? n_size t then [None]
        else if in_joint (peers (i_region inp)) || in_joint (n_peers t) then [None]
        else if region_match (peers (i_region inp)) (n_peers t) then [Some (StMerge, AAny)]
        else [Some (StMerge, AAny); None]       (* the peers are moved onto the target's stores first: the builder may refuse *)
    | None => [None]
    end
  else [None].

Definition controller_check (inp : input) : list res :=
  then_ (joint_stage inp)
        (then_ (if rules_enabled (i_cfg inp) then rule_check inp else then_ (learner_stage inp) (replica_check inp))
               (merge_stage inp)).

Definition model_check (inp : input) : list res :=
  match i_entry inp with EReplica => replica_check inp | ERule => rule_check inp | EController => controller_check inp end.

(* the checker that speaks for an entry point (for the monitor's clauses) *)
Definition eff_entry (inp : input) : entry :=
  match i_entry inp with
  | EController => if rules_enabled (i_cfg inp) then ERule else EReplica
  | e => e
  end.

(* ---------- the implementation's operator, abstracted ---------- *)
Definition start_state (r : region) : rstate := RState (peers r) (leader_store r).

Definition added (before after : list peer) : list peer := filter (fun p => negb (memZ (p_store p) (stores_of before))) after.
Definition removed (before after : list peer) : list Z := filter (fun s => negb (memZ s (stores_of after))) (stores_of before).
Definition promoted (before after : list peer) : list Z :=
  flat_map (fun p => match peer_on after (p_store p) with
                     | Some q => if is_learner p && negb (is_learner q) then [p_store p] else []
                     | None => [] end) before.

Definition aop_of (b a : rstate) : aop :=
  match added (rs_peers b) (rs_peers a), removed (rs_peers b) (rs_peers a) with
  | [t], [] => AAdd (p_store t) (is_learner t)
  | [], [s] => ARemove s
  | [t], [s] => AReplace s (p_store t) (is_learner t)
  | [], [] => match promoted (rs_peers b) (rs_peers a) with
              | [s] => APromote s
              | _ => if rs_leader b =? rs_leader a then ANoChange else ATransfer (rs_leader a)
              end
  | _, _ => ANoChange
  end.

(* the shapes the builder gives to add / remove / replace (leader transfers erased) *)
Definition erase_transfers (xs : list step) : list step :=
  filter (fun x => match x with TransferLeaderS _ _ => false | _ => true end) xs.

Definition new_peer_id (xs : list step) : Z :=
  match find (fun x => match x with AddLearnerS _ _ | AddPeerS _ _ => true | _ => false end) xs with
  | Some (AddLearnerS _ id) => id | Some (AddPeerS _ id) => id | _ => 0
  end.

Definition plan_of (joint : bool) (r : region) (o : aop) (id : Z) : option (list step) :=
  match o with
  | AAdd t false => Some [AddLearnerS t id; PromoteLearnerS t id]
  | AAdd t true => Some [AddLearnerS t id]
  | ARemove s => Some [RemovePeerS s]
  | AReplace old new lrn =>
      match peer_on (peers r) old with
      | None => None
      | Some po =>
          if joint then
            let pr := if lrn then [] else [(new, id)] in
            let de := if is_learner po then [] else [(old, p_id po)] in
            Some [AddLearnerS new id; EnterJointS pr de; LeaveJointS pr de; RemovePeerS old]
          else
            (* planReplace pairs the single pending add with the single pending remove whatever their kinds are
               (since the fix "adds the replacement peer before it removes the replaced one also when their kinds
               differ"): add first *)
            Some ([AddLearnerS new id] ++ (if lrn then [] else [PromoteLearnerS new id]) ++ [RemovePeerS old])%list
      end
  | _ => None
  end.

Definition steps_eqb (a b : list step) : bool :=
  let pl_eqb := list_eqb (fun x y : Z * Z => (fst x =? fst y) && (snd x =? snd y)) in
  list_eqb (fun x y => match x, y with
    | TransferLeaderS f t, TransferLeaderS f' t' => (f =? f') && (t =? t')
    | AddPeerS s i, AddPeerS s' i' | AddLearnerS s i, AddLearnerS s' i' | PromoteLearnerS s i, PromoteLearnerS s' i'
    | DemoteFollowerS s i, DemoteFollowerS s' i' => (s =? s') && (i =? i')
    | RemovePeerS s, RemovePeerS s' => s =? s'
    | EnterJointS p d, EnterJointS p' d' | LeaveJointS p d, LeaveJointS p' d' => pl_eqb p p' && pl_eqb d d'
    | OtherS, OtherS => true
    | _, _ => false end) a b.

(* ---------- one observed case ---------- *)
(* what the driver prints: the stage (from the operator's description), the steps, and the state the Go
   simulator (harness/internal/sim10) reached; None = the checker returned no operator *)
Record impl_op := ImplOp { io_stage : stage; io_steps : list step; io_final : rstate }.
Definition case := (input * option impl_op)%type.

Inductive verdict := VOk | VBad (why : string).

Local Open Scope string_scope.
Local Open Scope Z_scope.
(* correspondence: the implementation's answer is one the model admits *)
Definition check_case (c : case) : verdict :=
  let inp := fst c in
  let allowed := model_check inp in
  if negb (reject_flags_ok (reject_leader (i_cfg inp)) (i_stores inp))
  then VBad "a store's reject-leader flag differs from the specification of CheckLabelProperty"
  else
  match snd c with
  | None => if existsb (res_eqb None) allowed then VOk else VBad "impl returned no operator, the model requires one"
  | Some io =>
      match run_steps (start_state (i_region inp)) (io_steps io) with
      | None => VBad "a step of the implementation's operator is rejected by the step semantics"
      | Some tr =>
          let fin := final_state tr (start_state (i_region inp)) in
          if negb (rstate_eqb fin (io_final io)) then VBad "Coq step semantics and the Go simulator disagree on the final state"
          else
            let o := aop_of (start_state (i_region inp)) fin in
            if negb (existsb (res_eqb (Some (io_stage io, o))) allowed) then VBad "operator not admitted by the model"
            else if stage_eqb (io_stage io) StMerge || stage_eqb (io_stage io) StJoint then VOk   (* any steps *)
            else
              match o with
              | AAdd _ _ | ARemove _ | AReplace _ _ _ =>
                  match plan_of (joint_enabled (i_cfg inp)) (i_region inp) o (new_peer_id (io_steps io)) with
                  | Some pl => if steps_eqb (erase_transfers (io_steps io)) pl then VOk else VBad "steps differ from the model's plan shape"
                  | None => VBad "no plan shape"
                  end
              | _ => VOk
              end
      end
  end.

Fixpoint mismatches_from (n : nat) (cs : list case) : list (nat * string) :=
  match cs with
  | [] => []
  | c :: r => match check_case c with
              | VOk => mismatches_from (S n) r
              | VBad w => (n, w) :: mismatches_from (S n) r
              end
  end.
Definition mismatches := mismatches_from 0.

(* ---------- monitor: the property evaluated on the implementation's own operator ---------- *)
(* every prefix has at least as many added as removed peers: the verified checker behind
   "the replacement is added before the old peer is removed" (proof/C10_Steps.v) *)
Fixpoint balanced_from (bal : Z) (xs : list step) : bool :=
  match xs with
  | [] => true
  | x :: r =>
      let bal' := match x with
                  | AddPeerS _ _ | AddLearnerS _ _ => bal + 1
                  | RemovePeerS _ => bal - 1
                  | _ => bal end in
      (0 <=? bal') && balanced_from bal' r
  end.
Definition balanced_prefixes := balanced_from 0.

(* the clauses of "the target is good" evaluated on the store booleans read back from the real StoreInfo *)
Definition target_faults (inp : input) (coloc_opts : list (strategy * list store)) (t : peer) : option string :=
  match find_store (i_stores inp) (p_store t) with
  | None => Some "C10:target-store-unknown"
  | Some s =>
      if negb (is_up s) then Some "C10:target-not-up"
      else if s_down s then Some "C10:target-down"
      else if s_disc s then Some "C10:target-disconnected"
      else if s_low s then Some "C10:target-low-space"
      else if memZ (p_store t) (stores_of (peers (i_region inp))) then Some "C10:target-already-holds-peer"
      else if negb (existsb (fun so =>
                 let stg := fst so in
                 (match st_labels stg with [] => true | _ => if st_iso stg =? 0 then true else isolation_pass (st_labels stg) (st_iso stg) (snd so) s end)
                 && st_extra stg s) coloc_opts)
      then Some "C10:target-violates-isolation-or-constraints"
      else None
  end.

(* the co-location sets against which the isolation level is judged: the region's stores minus the removed
   ones (replica checker); for some rule, the stores of the rule's peers minus the removed ones (rule checker) *)
Definition coloc_options (inp : input) (rm : list Z) : list (strategy * list store) :=
  let minus := fun l => filter (fun s => negb (memZ (sid s) rm)) l in
  match eff_entry inp with
  | ERule => map (fun rf => (rule_strategy (rf_rule rf), minus (rule_stores (i_stores inp) rf))) (fit_rules (i_fit inp))
  | _ => [(replica_strategy (i_cfg inp), minus (region_stores (i_stores inp) (i_region inp)))]
  end.

(* an operator that adds several peers: every new peer is judged against the stores of the OTHER new peers as well (the isolation
   level has to hold among all peers the operator leaves behind, not only against the peers of before) *)
Definition with_added (inp : input) (others : list peer) (opts : list (strategy * list store)) : list (strategy * list store) :=
  map (fun so => (fst so, List.app (snd so) (flat_map (fun o => match find_store (i_stores inp) (p_store o) with Some s => [s] | None => [] end) others))) opts.

Definition removal_allowed (inp : input) (rm : list Z) : bool :=
  match eff_entry inp with
  | ERule => forallb rf_satisfied (fit_rules (i_fit inp))
             && forallb (fun s => existsb (fun o => p_store o =? s) (fit_orphans (i_fit inp))) rm
  | _ => max_replicas (i_cfg inp) <? voter_count (i_region inp)
  end.

Definition repair_required (inp : input) : bool :=
  match eff_entry inp with
  | EController => false
  | EReplica =>
      en_make_up (i_cfg inp) && region_ok inp && (peer_count (i_region inp) <? max_replicas (i_cfg inp))
      && match select_to_add (replica_strategy (i_cfg inp)) (i_stores inp) (i_region inp)
                 (region_stores (i_stores inp) (i_region inp)) (fun _ => true) with [] => false | _ => true end
  | ERule =>
      region_ok inp
      && existsb (fun rf => (Z.of_nat (List.length (rf_peers rf)) <? ru_count (rf_rule rf))
                   && match select_to_add (rule_strategy (rf_rule rf)) (i_stores inp) (i_region inp)
                              (rule_stores (i_stores inp) rf) (fun _ => true) with [] => false | _ => true end)
                 (fit_rules (i_fit inp))
  end.

(* the placement fit is an INPUT of the model (read from the real FitRegion), so it is judged too: it has to be a partition of the
   region's peers - every peer in exactly one rule fit or in the orphan list - otherwise "the peer is an orphan" says nothing *)
Definition fit_ids (f : fit) : list Z := flat_map (fun rf => map p_id (rf_peers rf)) (fit_rules f) ++ map p_id (fit_orphans f).
Definition fit_wf (r : region) (f : fit) : bool :=
  nodupZb (fit_ids f)
  && forallb (fun p => memZ (p_id p) (fit_ids f)) (peers r)
  && forallb (fun i => memZ i (map p_id (peers r))) (fit_ids f).
Definition held_by_rule (f : fit) (st : Z) : bool := existsb (fun rf => memZ st (map p_store (rf_peers rf))) (fit_rules f).
Definition fit_judged (inp : input) : bool :=
  match eff_entry inp with ERule => match fit_rules (i_fit inp) with [] => false | _ => true end | _ => false end.

Definition monitor (c : case) : option string :=
  let inp := fst c in
  if fit_judged inp && negb (fit_wf (i_region inp) (i_fit inp)) then Some "C10:fit-is-not-a-partition-of-the-peers" else
  match snd c with
  | None => if repair_required inp then Some "C10:no-repair-although-target-exists" else None
  | Some io =>
      let s0 := start_state (i_region inp) in
      if stage_eqb (io_stage io) StMerge then None   (* the statement speaks of the replica / rule checker's operators *)
      else
      match run_steps s0 (io_steps io) with
      | None => Some "C10:unsafe-step"          (* e.g. a peer added on a store that already holds one *)
      | Some tr =>
          let fin := final_state tr s0 in
          let ad := added (rs_peers s0) (rs_peers fin) in
          let rm := removed (rs_peers s0) (rs_peers fin) in
          match flat_map (fun t => match target_faults inp (with_added inp (filter (fun o => negb (p_store o =? p_store t)) ad)
                                                               (coloc_options inp rm)) t with Some w => [w] | None => [] end) ad with
          | w :: _ => Some w
          | [] =>
              if (List.length (rs_peers fin) <? List.length (rs_peers s0))%nat && negb (removal_allowed inp rm)
              then Some "C10:replica-removed-without-surplus"
              else if (List.length (rs_peers fin) <? List.length (rs_peers s0))%nat && fit_judged inp && existsb (held_by_rule (i_fit inp)) rm
              then Some "C10:removed-peer-is-held-by-a-rule"
              else if match ad with [] => false | _ => negb (balanced_prefixes (io_steps io)) end then Some "C10:remove-before-add"
              else if negb (forallb (fun s => (List.length (rs_peers s0) <=? List.length (rs_peers s))%nat
                                              || (List.length (rs_peers fin) <? List.length (rs_peers s0))%nat) tr)
              then Some "C10:replica-count-dips-during-replacement"
              else None
          end
      end
  end.

Fixpoint monitor_fails_from (n : nat) (cs : list case) : list (nat * string) :=
  match cs with
  | [] => []
  | c :: r => match monitor c with
              | None => monitor_fails_from (S n) r
              | Some sg => (n, sg) :: monitor_fails_from (S n) r
              end
  end.
Definition monitor_fails := monitor_fails_from 0.
