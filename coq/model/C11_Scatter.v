(* C11 — executable, set-valued model of RegionScatterer.scatterRegion (server/schedule/region_scatterer.go)
   with the selected-peer / selected-leader counters as state and the ORDER in which the peers are processed
   (Go map iteration) as an explicit parameter; of the peer / leader moves of the balance schedulers as
   (source, target) pairs drawn from filter-admissible sets; and the monitor `roles_preserved` evaluated on
   every operator the real code returned.  Definitions only; proofs in proof/C11_*.v.
   The StoreStateFilter semantics is instantiated with the tables of gen/Gen_C11.v. *)
From PDV Require Import lib.C10_Cluster gen.Gen_C11.
Local Open Scope list_scope.
Local Open Scope Z_scope.

Definition sft (f : sfilter) (s : store) : bool := sf_target Gen_C11.conds Gen_C11.temp_conds Gen_C11.target_dispatch f s.
Definition sfs (f : sfilter) (s : store) : bool := sf_source Gen_C11.conds Gen_C11.temp_conds Gen_C11.source_dispatch f s.
Definition dscore := distinct_score Gen_C11.replicaBaseScore.

(* label ids of the driver's tables (same as C10) *)
Definition key_special_use : Z := 50.
Definition key_engine : Z := 100.
Definition val_hot_region : lval := (1, 0).
Definition val_reserved : lval := (2, 0).
Definition val_tiflash : lval := (3, 0).

Definition engine_of (s : store) : lval := label_value s key_engine.
(* NewOrdinaryEngineFilter: engine notIn [tiflash] *)
Definition is_ordinary (s : store) : bool := lv_empty (engine_of s) || negb (lv_eq (engine_of s) val_tiflash).
(* NewEngineFilter(engine): engine in [engine] *)
Definition has_engine (e : lval) (s : store) : bool := negb (lv_empty (engine_of s)) && lv_eq (engine_of s) e.
(* NewSpecialUseFilter without allowed uses *)
Definition special_use (s : store) : bool :=
  let v := label_value s key_special_use in negb (lv_empty v) && (lv_eq v val_hot_region || lv_eq v val_reserved).

(* ---------- the counters ---------- *)
Definition dist := list (Z * Z).          (* store -> count *)
Definition gdist := list (Z * dist).      (* group -> distribution *)

Fixpoint cnt (d : dist) (s : Z) : Z :=
  match d with [] => 0 | (k, v) :: r => if k =? s then v else cnt r s end.
Fixpoint get_dist (g : gdist) (grp : Z) : dist :=
  match g with [] => [] | (k, d) :: r => if k =? grp then d else get_dist r grp end.
Definition get (g : gdist) (grp s : Z) : Z := cnt (get_dist g grp) s.
Definition total (g : gdist) (s : Z) : Z := fold_left (fun acc kd => acc + cnt (snd kd) s) g 0.

Fixpoint inc (d : dist) (s : Z) : dist :=
  match d with [] => [(s, 1)] | (k, v) :: r => if k =? s then (k, v + 1) :: r else (k, v) :: inc r s end.
Fixpoint put (g : gdist) (grp s : Z) : gdist :=
  match g with
  | [] => [(grp, [(s, 1)])]
  | (k, d) :: r => if k =? grp then (k, inc d s) :: r else (k, d) :: put r grp s
  end.

Record scst := ScSt { sc_ord : gdist; sc_tf : gdist; sc_ldr : gdist }.   (* ordinary peers, tiflash peers, leaders *)

(* ---------- one scatter decision ---------- *)
(* selectCandidates: stores not yet selected, passing the engine filter, the scatter state filter
   (engine context literal, Gen_C11.scatter_flags) and the placement safeguard, and not among the stores
   with the highest total count (unless all totals are equal).
   `excl` = the stores of the region's OTHER peers: since the fix "region scatter must not pick a store that
   holds another peer of the region" selectCandidates excludes them as well (before it, a peer could be sent
   onto another peer's store and the two collapsed into one target: S12). *)
Definition max_total (g : gdist) (stores : list store) : Z := fold_left (fun m s => Z.max m (total g (sid s))) stores 0.
Definition min_total (g : gdist) (stores : list store) : Z :=
  match stores with [] => 0 | s :: r => fold_left (fun m x => Z.min m (total g (sid x))) r (total g (sid s)) end.

Definition select_candidates (stores : list store) (engine_ok : store -> bool) (g : gdist) (guard : Z -> bool)
           (selected excl : list Z) : list Z :=
  let mx := max_total g stores in let mn := min_total g stores in
  map sid (filter (fun s => ((total g (sid s) <? mx) || (mx =? mn))
                            && negb (memZ (sid s) selected) && negb (memZ (sid s) excl)
                            && engine_ok s && sft Gen_C11.scatter_flags s && guard (sid s)) stores).

Definition min_count (f : Z -> Z) (l : list Z) : Z :=
  match l with [] => 0 | c :: r => fold_left (fun m x => Z.min m (f x)) r (f c) end.

(* selectStore: the peer stays when its own store is among the least loaded candidates; otherwise it goes to
   any least loaded candidate (the first one in Go's map order); no candidate: it stays *)
Definition choices (cands : list Z) (gcount : Z -> Z) (src : Z) : list Z :=
  match cands with
  | [] => [src]
  | _ => let m := min_count gcount cands in
         if memZ src cands && (gcount src <=? m) then [src]
         else filter (fun c => gcount c =? m) cands
  end.

(* targetPeers is a map keyed by store: a second entry for the same store overwrites the first *)
Fixpoint set_target (t : list (Z * role)) (s : Z) (r : role) : list (Z * role) :=
  match t with
  | [] => [(s, r)]
  | (k, v) :: rest => if k =? s then (k, r) :: rest else (k, v) :: set_target rest s r
  end.

Record acc := Acc { a_targets : list (Z * role); a_selected : list Z; a_clash : bool }.

Section Scatter.
  Variable stores : list store.
  Variable grp : Z.
  Variable guard : Z -> Z -> bool.        (* placement safeguard: source store -> candidate -> passes *)
  Variable region_stores : list Z.

  Definition others (src : Z) : list Z := filter (fun x => negb (x =? src)) region_stores.

  Definition peer_choices (engine_ok : store -> bool) (g : gdist) (a : acc) (p : peer) : list Z :=
    match find_store stores (p_store p) with
    | None => [p_store p]                                   (* "failed to get the store": no candidates *)
    | Some _ =>
        choices (select_candidates stores engine_ok g (guard (p_store p)) (a_selected a) (others (p_store p)))
                (get g grp) (p_store p)
    end.

  (* process the peers in the given order; all results *)
  Fixpoint run_order (engine_ok : store -> bool) (g : gdist) (a : acc) (order : list peer) : list acc :=
    match order with
    | [] => [a]
    | p :: rest =>
        flat_map (fun c => run_order engine_ok g
                             (Acc (set_target (a_targets a) c (p_role p)) (c :: a_selected a) (a_clash a || memZ c (a_selected a)))
                             rest)
                 (peer_choices engine_ok g a p)
    end.

  (* selectAvailableLeaderStores (after the fix "region scatter must not pick a target leader that must not receive leaders"):
     candidates = target stores without an engine label whose target peer is not a learner, that pass
     StoreStateFilter{TransferLeader} (the leaderTarget row of the generated table: not tombstone / offline / down / paused /
     disconnected / busy / reject-leader) and that a leader or voter rule selects (`rule_ok`, an input); among them any with the
     least leader count.  No candidate: the leader stays where it is if its peer stays (as a non-learner); otherwise any target
     store without an engine label with the least leader count; 0 if there is none. *)
  Definition ordinary_targets (targets : list (Z * role)) : list Z :=
    filter (fun s => match find_store stores s with Some st => lv_empty (engine_of st) | None => false end) (map fst targets).
  Definition leader_candidates (rule_ok : Z -> bool) (targets : list (Z * role)) : list Z :=
    map fst (filter (fun t => match find_store stores (fst t) with
                              | Some st => lv_empty (engine_of st) && negb (role_eqb (snd t) Learner) && sft [TransferLeader] st && rule_ok (fst t)
                              | None => false end) targets).
  Definition least_loaded (ldr : gdist) (cands : list Z) : list Z :=
    match cands with
    | [] => [0]
    | _ => let m := min_count (get ldr grp) cands in filter (fun c => get ldr grp c =? m) cands
    end.
  Definition leader_choices (ldr : gdist) (cur : Z) (rule_ok : Z -> bool) (targets : list (Z * role)) : list Z :=
    match leader_candidates rule_ok targets with
    | [] => if existsb (fun t => (fst t =? cur) && negb (role_eqb (snd t) Learner)) targets then [cur]
            else least_loaded ldr (ordinary_targets targets)
    | cands => least_loaded ldr cands
    end.
End Scatter.

Fixpoint insert_all {A} (x : A) (l : list A) : list (list A) :=
  match l with
  | [] => [[x]]
  | y :: r => (x :: y :: r) :: map (cons y) (insert_all x r)
  end.
Fixpoint perms {A} (l : list A) : list (list A) :=
  match l with [] => [[]] | x :: r => flat_map (insert_all x) (perms r) end.

Record region := Region { peers : list peer; leader_store : Z }.
Record outcome := Outcome { o_targets : list (Z * role); o_leader : Z; o_clash : bool }.

Definition store_is (stores : list store) (f : store -> bool) (id : Z) : bool :=
  match find_store stores id with Some s => f s | None => false end.

(* all outcomes of scatterRegion over all processing orders of the ordinary peers and of the tiflash peers *)
Definition scatter_outcomes (stores : list store) (st : scst) (grp : Z) (guard : Z -> Z -> bool) (rule_ok : Z -> bool) (r : region) : list outcome :=
  let rs := stores_of (peers r) in
  (* peers on unknown stores would make the real code panic; they are never generated *)
  let ordp := filter (fun p => store_is stores is_ordinary (p_store p)) (peers r) in
  let tfp := filter (fun p => negb (store_is stores is_ordinary (p_store p))) (peers r) in
  flat_map (fun o1 =>
    flat_map (fun a1 =>
      flat_map (fun ld =>
        flat_map (fun o2 =>
          map (fun a2 => Outcome (a_targets a2) ld (a_clash a2))
              (run_order stores grp guard rs (has_engine val_tiflash) (sc_tf st) a1 o2))
          (perms tfp))
        (leader_choices stores grp (sc_ldr st) (leader_store r) rule_ok (a_targets a1)))
      (run_order stores grp guard rs is_ordinary (sc_ord st) (Acc [] [] false) o1))
    (perms ordp).

(* RegionScatterer.Put *)
Definition put_targets (stores : list store) (st : scst) (grp : Z) (targets : list Z) (ld : Z) : scst :=
  let st1 := fold_left (fun s t => if store_is stores is_ordinary t
                                   then ScSt (put (sc_ord s) grp t) (sc_tf s) (sc_ldr s)
                                   else ScSt (sc_ord s) (put (sc_tf s) grp t) (sc_ldr s)) targets st in
  ScSt (sc_ord st1) (sc_tf st1) (put (sc_ldr st1) grp ld).

(* ---------- peer and leader moves of the schedulers ---------- *)
(* peer moves (balance-region transferPeer, shuffle-region, hot-region move-peer, shuffle-hot-region): targets that pass
   excluded(region stores), the scheduler's special-use filter `su` and its StoreStateFilter literal (flags from
   Gen_C11); the placement safeguard and the float score / load filters may only remove candidates *)
Definition move_pred (flags : sfilter) (su : store -> bool) (r : region) (s : store) : bool :=
  negb (memZ (sid s) (stores_of (peers r))) && negb (su s) && sft flags s.
Definition move_targets (flags : sfilter) (su : store -> bool) (stores : list store) (r : region) : list store :=
  filter (move_pred flags su r) stores.

(* NewSpecialUseFilter(scope, SpecialUseHotRegion): only `reserved` stores are refused (hot-region) *)
Definition special_use_reserved (s : store) : bool :=
  let v := label_value s key_special_use in negb (lv_empty v) && lv_eq v val_reserved.
Definition no_special_use_filter (s : store) : bool := false.

(* leader moves (balance-leader, evict-leader, shuffle-leader, label, hot-region transfer-leader; grant-leader with the
   empty flag set: its forced transfer applies no store filter): follower stores passing the StoreStateFilter literal *)
Definition leader_targets (flags : sfilter) (stores : list store) (r : region) : list store :=
  filter (fun s => existsb (fun p => (p_store p =? sid s) && negb (is_learner p) && negb (p_store p =? leader_store r)) (peers r)
                   && sft flags s) stores.

(* the abstract result of a peer move *)
Definition move_result (ps : list peer) (src dst id : Z) : list peer :=
  flat_map (fun p => if p_store p =? src then [] else [p]) ps
  ++ match peer_on ps src with Some p => [Peer id dst (p_role p)] | None => [] end.

(* ---------- observed cases ---------- *)
Inductive sched := SBalanceRegion | SBalanceLeader | SHotRegion | SShuffleRegion | SShuffleLeader | SShuffleHot
                 | SEvictLeader | SGrantLeader | SLabel | SScatterRange | SScatter
                 | SScatterConc.   (* Scatter calls of several goroutines interleaved on one RegionScatterer: monitor only *)

Record impl_op := ImplOp { io_steps : list step; io_final : rstate }.

Record scatter_obs := ScatterObs {
  so_group : Z;
  so_before : scst;
  so_guard : list (Z * list Z);          (* the real placement safeguard: source store -> stores that pass *)
  so_exact_guard : bool;                 (* placement rules off: the model recomputes the safeguard itself *)
  so_after : scst
}.

Record case := Case {
  c_sched : sched;
  c_stores : list store;
  c_labels : list Z;                      (* replication.location-labels *)
  c_reject : list (Z * lval);             (* label-property reject-leader: the configured entries *)
  c_rule_ok : list Z;                     (* stores a leader / voter rule of the region's fit selects (all stores without placement rules) *)
  c_region : region;
  c_op : option impl_op;                  (* None only for scatter (operator creation failed / nothing to do) *)
  c_scatter : option scatter_obs
}.

Definition start_state (r : region) : rstate := RState (peers r) (leader_store r).

Definition guard_of (l : list (Z * list Z)) (src c : Z) : bool :=
  match find (fun kv => fst kv =? src) l with Some (_, ok) => memZ c ok | None => false end.

(* LocationSafeguard recomputed: DistinctScore(labels, region stores - source, candidate) >= the source's *)
Definition model_guard (stores : list store) (labels : list Z) (r : region) (src c : Z) : bool :=
  match find_store stores src, find_store stores c with
  | Some s, Some t =>
      let rs := filter (fun x => memZ (sid x) (stores_of (peers r)) && negb (sid x =? src)) stores in
      dscore labels rs s <=? dscore labels rs t
  | _, _ => false
  end.

(* counters compared as functions on the groups / stores that occur *)
Definition gd_keys (g : gdist) : list (Z * Z) := flat_map (fun kd => map (fun sv => (fst kd, fst sv)) (snd kd)) g.
Definition gd_eqb (a b : gdist) : bool :=
  forallb (fun k => get a (fst k) (snd k) =? get b (fst k) (snd k)) (gd_keys a ++ gd_keys b).
Definition scst_eqb (a b : scst) : bool := gd_eqb (sc_ord a) (sc_ord b) && gd_eqb (sc_tf a) (sc_tf b) && gd_eqb (sc_ldr a) (sc_ldr b).

Fixpoint insert_sorted (x : Z * role) (l : list (Z * role)) : list (Z * role) :=
  match l with [] => [x] | y :: r => if fst x <=? fst y then x :: y :: r else y :: insert_sorted x r end.
Definition sort_targets (l : list (Z * role)) : list (Z * role) := fold_right insert_sorted [] l.
Definition targets_eqb (a b : list (Z * role)) : bool :=
  list_eqb (fun x y : Z * role => (fst x =? fst y) && role_eqb (snd x) (snd y)) (sort_targets a) (sort_targets b).
Definition placement (ps : list peer) : list (Z * role) := map (fun p => (p_store p, p_role p)) ps.

(* targets united with the region's own peers (the failure path of scatterRegion) *)
Definition with_region (t : list (Z * role)) (r : region) : list (Z * role) :=
  fold_left (fun acc p => set_target acc (p_store p) (p_role p)) (peers r) t.

Inductive verdict := VOk | VBad (why : string).
Local Open Scope string_scope.
Local Open Scope Z_scope.

Definition is_replace_shape (b a : rstate) : option (Z * Z) :=
  let ad := filter (fun p => negb (memZ (p_store p) (stores_of (rs_peers b)))) (rs_peers a) in
  let rm := filter (fun s => negb (memZ s (stores_of (rs_peers a)))) (stores_of (rs_peers b)) in
  match ad, rm with [t], [s] => Some (s, p_store t) | _, _ => None end.

Definition check_scatter (c : case) (so : scatter_obs) : verdict :=
  let stores := c_stores c in let r := c_region c in
  let g := if so_exact_guard so then model_guard stores (c_labels c) r else guard_of (so_guard so) in
  let guard_agrees :=
    negb (so_exact_guard so) ||
    forallb (fun src => forallb (fun s => Bool.eqb (model_guard stores (c_labels c) r src (sid s)) (guard_of (so_guard so) src (sid s))) stores)
            (stores_of (peers r)) in
  if negb guard_agrees then VBad "model of the location safeguard disagrees with the real filter"
  else
    let outs := scatter_outcomes stores (so_before so) (so_group so) g (fun x => memZ x (c_rule_ok c)) r in
    match c_op c with
    | Some io =>
        match run_steps (start_state r) (io_steps io) with
        | None => VBad "a step of the operator is rejected by the step semantics"
        | Some tr =>
            let fin := final_state tr (start_state r) in
            if negb (rstate_eqb fin (io_final io)) then VBad "Coq step semantics and the Go simulator disagree"
            else if existsb (fun o => targets_eqb (o_targets o) (placement (rs_peers fin))
                                      && ((o_leader o =? 0) || (o_leader o =? rs_leader fin))
                                      && scst_eqb (put_targets stores (so_before so) (so_group so) (map fst (o_targets o)) (o_leader o)) (so_after so)) outs
            then VOk else VBad "scatter result / counters not admitted by the model for any processing order"
        end
    | None =>
        if existsb (fun o => scst_eqb (put_targets stores (so_before so) (so_group so) (map fst (with_region (o_targets o) r)) (leader_store r)) (so_after so)) outs
        then VOk else VBad "counters after a failed scatter not admitted by the model"
    end.

(* what a scheduler may return: peer moves through (flags, special-use filter, must the new store lead?),
   leader moves through flags *)
Record sched_model := SchedModel {
  sm_move : option (sfilter * (store -> bool) * bool);
  sm_leader : option sfilter;
  sm_any : bool            (* no admissible-set model: only the step cross-check and the monitor apply *)
}.
Definition sched_model_of (k : sched) : sched_model :=
  match k with
  | SBalanceRegion => SchedModel (Some (Gen_C11.balance_region_target_flags, special_use, false)) None false
  | SShuffleRegion => SchedModel (Some (Gen_C11.shuffle_region_flags, special_use, false)) None false
  | SHotRegion => SchedModel (Some (Gen_C11.hot_move_flags, special_use_reserved, false)) (Some Gen_C11.hot_leader_flags) false
  | SShuffleHot => SchedModel (Some (Gen_C11.shuffle_hot_flags, no_special_use_filter, true)) None false
  | SScatterRange => SchedModel (Some (Gen_C11.balance_region_target_flags, special_use, false)) (Some Gen_C11.balance_leader_flags) false
  | SBalanceLeader => SchedModel None (Some Gen_C11.balance_leader_flags) false
  | SShuffleLeader => SchedModel None (Some Gen_C11.shuffle_leader_flags) false
  | SEvictLeader => SchedModel None (Some Gen_C11.evict_leader_flags) false
  | SLabel => SchedModel None (Some Gen_C11.label_flags) false
  | SGrantLeader => SchedModel None (Some []) false             (* CreateForceTransferLeaderOperator: no store filter *)
  | SScatter => SchedModel None None false
  | SScatterConc => SchedModel None None true
  end.

Definition check_sched (c : case) (io : impl_op) : verdict :=
  let r := c_region c in
  match run_steps (start_state r) (io_steps io) with
  | None => VBad "a step of the operator is rejected by the step semantics"
  | Some tr =>
      let fin := final_state tr (start_state r) in
      if negb (rstate_eqb fin (io_final io)) then VBad "Coq step semantics and the Go simulator disagree"
      else
        let m := sched_model_of (c_sched c) in
        if sm_any m then VOk else
        match is_replace_shape (start_state r) fin with
        | Some (src, dst) =>
            match sm_move m with
            | Some (flags, su, lead) =>
                if negb (existsb (fun s => sid s =? dst) (move_targets flags su (c_stores c) r))
                then VBad "peer move target not in the model's admissible set"
                else if lead && negb (rs_leader fin =? dst) then VBad "the moved peer was to become the leader"
                else VOk
            | None => VBad "a scheduler that only moves leaders returned a peer move"
            end
        | None =>
            if list_eqb peer_eqb (rs_peers fin) (peers r) then
              match sm_leader m with
              | Some flags =>
                  if existsb (fun s => sid s =? rs_leader fin) (leader_targets flags (c_stores c) r) then VOk
                  else VBad "leader move target not in the model's admissible set"
              | None => VBad "a scheduler that only moves peers returned a leader move"
              end
            else VBad "operator is neither one peer move nor a leader move"
        end
  end.

Definition check_case (c : case) : verdict :=
  if negb (reject_flags_ok (c_reject c) (c_stores c))
  then VBad "a store's reject-leader flag differs from the specification of CheckLabelProperty"
  else
  match c_scatter c, c_op c with
  | Some so, _ => check_scatter c so
  | None, Some io => check_sched c io
  | None, None => VBad "scheduler case without operator"
  end.

Fixpoint mismatches_from (n : nat) (cs : list case) : list (nat * string) :=
  match cs with
  | [] => []
  | c :: r => match check_case c with VOk => mismatches_from (S n) r | VBad w => (n, w) :: mismatches_from (S n) r end
  end.
Definition mismatches := mismatches_from 0.

(* ---------- monitor: roles_preserved and the other clauses, on the implementation's operator ---------- *)
Definition all_roles : list role := [Voter; Learner; Incoming; Demoting].
Definition roles_preserved (b a : list peer) : bool := forallb (fun ro => Nat.eqb (count_role ro b) (count_role ro a)) all_roles.

Definition sched_name (k : sched) : string :=
  match k with
  | SBalanceRegion => "balance-region" | SBalanceLeader => "balance-leader" | SHotRegion => "hot-region"
  | SShuffleRegion => "shuffle-region" | SShuffleLeader => "shuffle-leader" | SShuffleHot => "shuffle-hot-region"
  | SEvictLeader => "evict-leader" | SGrantLeader => "grant-leader" | SLabel => "label" | SScatterRange => "scatter-range"
  | SScatter => "scatter"
  | SScatterConc => "scatter-concurrent"
  end.

Definition is_scatter (k : sched) : bool := match k with SScatter | SScatterConc => true | _ => false end.

Definition monitor (c : case) : option string :=
  match c_op c with
  | None => None
  | Some io =>
      let r := c_region c in let s0 := start_state r in
      let pre := "C11:" ++ sched_name (c_sched c) ++ ":" in
      match run_steps s0 (io_steps io) with
      | None => Some (pre ++ "unsafe-step")
      | Some tr =>
          let fin := final_state tr s0 in
          let b := rs_peers s0 in let a := rs_peers fin in
          if (List.length a <? List.length b)%nat then Some (pre ++ "replica-lost")
          else if (List.length b <? List.length a)%nat then Some (pre ++ "replica-added")
          else if negb (roles_preserved b a) then Some (pre ++ "role-count-changed")
          else if negb (nodupZb (stores_of a)) then Some (pre ++ "two-peers-on-one-store")
          else if existsb (fun p => negb (memZ (p_store p) (stores_of b))
                                    && negb (store_is (c_stores c) (fun s => is_up s && negb (s_down s)) (p_store p))) a
          then Some (pre ++ "peer-moved-to-store-not-up")
          else if existsb (fun x => match x with TransferLeaderS f t => f =? t | _ => false end) (io_steps io)
          then Some (pre ++ "source-equals-target")
          else if negb (rs_leader fin =? rs_leader s0)
                  && negb (match peer_on a (rs_leader fin) with Some p => match p_role p with Voter => true | _ => false end | None => false end)
          then Some (pre ++ "leader-on-non-voter")
          else if negb (rs_leader fin =? rs_leader s0) && negb (store_is (c_stores c) (fun s => negb (s_reject s)) (rs_leader fin))
                  && (negb (is_scatter (c_sched c))
                      (* scatter may have no choice: only when some voter of the result sits on an ordinary store that accepts leaders *)
                      || existsb (fun p => negb (is_learner p) && memZ (p_store p) (c_rule_ok c)
                                           && store_is (c_stores c) (fun s => lv_empty (engine_of s) && sft [TransferLeader] s) (p_store p)) a)
          then Some (pre ++ "leader-to-store-rejecting-leaders")
          (* ... nor to a store the leaderTarget table excludes (offline, tombstone, down, disconnected, busy, leader transfer
             paused e.g. by an evict-leader scheduler); grant-leader is judged on the reject-leader clause only (it pauses its own
             store); scatter only when some voter of the result sits on an ordinary store that does accept leaders *)
          else if negb (rs_leader fin =? rs_leader s0)
                  && negb (match c_sched c with SGrantLeader => true | _ => false end)
                  && negb (store_is (c_stores c) (fun s => sft [TransferLeader] s) (rs_leader fin))
                  && (negb (is_scatter (c_sched c))
                      || existsb (fun p => negb (is_learner p) && memZ (p_store p) (c_rule_ok c)
                                           && store_is (c_stores c) (fun s => lv_empty (engine_of s) && sft [TransferLeader] s) (p_store p)) a)
          then Some (pre ++ "leader-to-store-not-accepting-leaders")
          else None
      end
  end.

Fixpoint monitor_fails_from (n : nat) (cs : list case) : list (nat * string) :=
  match cs with
  | [] => []
  | c :: r => match monitor c with None => monitor_fails_from (S n) r | Some sg => (n, sg) :: monitor_fails_from (S n) r end
  end.
Definition monitor_fails := monitor_fails_from 0.
