From Coq Require Import ZArith.
Definition UpdateTimestampGuard : Z := 1000000%Z.
Definition maxLogical : Z := 262144%Z.
