(* Shape of what the translator (harness/cmd/gotrans) extracts from Go function bodies:
   the lock / storage / call skeleton in program order. Model files declare the skeleton they
   were written against; `reflexivity` against the regenerated value is a proof obligation. *)
From Coq Require Export String List.
Export ListNotations.
Open Scope string_scope.

Inductive ev :=
| Lock (m : string) | Unlock (m : string) | RLock (m : string) | RUnlock (m : string)
| DeferUnlock (m : string) | DeferRUnlock (m : string)
| Call (f : string)                    (* a call of one of the configured functions/methods *)
| Assign (lhs : string) (rhs : string) (* an assignment to a configured field, printed as source text *)
| IfE (cond : string) (th el : list ev)
| ForE (body : list ev)
| SwitchE (cases : list (list ev))
| GoE (body : list ev)
| DeferE (body : list ev)
| Ret
| Cont | Brk.                        (* continue / break, only when the extractor is asked for them *)
