(* Finite maps Z -> V as strictly increasing association lists, with the range scan that kv.Base.LoadRange
   performs on zero-padded id keys (key order = id order).  Own library of property C17 (no axioms). *)
From Coq Require Import List ZArith Lia Bool Sorted.
Import ListNotations.
Local Open Scope Z_scope.

Section Map.
  Context {V : Type}.
  Definition amap := list (Z * V).

  Fixpoint lookup (m : amap) (k : Z) : option V :=
    match m with
    | [] => None
    | (k', v) :: r => if k =? k' then Some v else if k <? k' then None else lookup r k
    end.

  Fixpoint put (m : amap) (k : Z) (v : V) : amap :=
    match m with
    | [] => [(k, v)]
    | (k', v') :: r => if k =? k' then (k, v) :: r
                       else if k <? k' then (k, v) :: m
                       else (k', v') :: put r k v
    end.

  Fixpoint del (m : amap) (k : Z) : amap :=
    match m with
    | [] => []
    | (k', v') :: r => if k =? k' then r else if k <? k' then m else (k', v') :: del r k
    end.

  Definition keys (m : amap) : list Z := map fst m.

  (* all keys >= lo, strictly increasing *)
  Fixpoint sorted_from (lo : Z) (m : amap) : Prop :=
    match m with
    | [] => True
    | (k, _) :: r => lo <= k /\ sorted_from (k + 1) r
    end.
  Definition sorted (m : amap) : Prop := exists lo, sorted_from lo m.

  Lemma sorted_from_weaken lo lo' m : lo' <= lo -> sorted_from lo m -> sorted_from lo' m.
  Proof. destruct m as [|[k v] r]; cbn; [auto|]. intros H [H1 H2]; split; [lia|exact H2]. Qed.

  Lemma sorted_from_In lo m k v : sorted_from lo m -> In (k, v) m -> lo <= k.
  Proof.
    revert lo; induction m as [|[k' v'] r IH]; intros lo Hs Hin; [contradiction|].
    destruct Hs as [H1 H2]. destruct Hin as [E|Hin]; [inversion E; subst; exact H1|].
    specialize (IH (k' + 1) H2 Hin). lia.
  Qed.

  Lemma lookup_below lo m k : sorted_from lo m -> k < lo -> lookup m k = None.
  Proof.
    destruct m as [|[k' v'] r]; cbn; [reflexivity|]. intros [H1 _] Hk.
    destruct (k =? k') eqn:E; [lia|]. destruct (k <? k') eqn:E2; [reflexivity|lia].
  Qed.

  Lemma put_sorted lo m k v : sorted_from lo m -> sorted_from (Z.min lo k) (put m k v).
  Proof.
    revert lo; induction m as [|[k' v'] r IH]; intros lo Hs; cbn [put sorted_from].
    - split; [lia|exact I].
    - destruct Hs as [H1 H2]. destruct (k =? k') eqn:E.
      + apply Z.eqb_eq in E; subst. cbn [sorted_from]. split; [lia|exact H2].
      + destruct (k <? k') eqn:E2.
        * cbn [sorted_from]. split; [lia|]. split; [lia|exact H2].
        * cbn [sorted_from]. split; [lia|]. specialize (IH _ H2).
          eapply sorted_from_weaken; [|exact IH]. lia.
  Qed.

  Lemma del_sorted lo m k : sorted_from lo m -> sorted_from lo (del m k).
  Proof.
    revert lo; induction m as [|[k' v'] r IH]; intros lo Hs; cbn [del sorted_from]; [exact I|].
    destruct Hs as [H1 H2]. destruct (k =? k') eqn:E.
    - eapply sorted_from_weaken; [|exact H2]. lia.
    - destruct (k <? k'); cbn [sorted_from]; [split; assumption|]. split; [exact H1|]. apply IH. exact H2.
  Qed.

  Lemma lookup_put lo m k v j : sorted_from lo m ->
    lookup (put m k v) j = if j =? k then Some v else lookup m j.
  Proof.
    revert lo; induction m as [|[k' v'] r IH]; intros lo Hs; cbn [put lookup].
    - destruct (j =? k); [reflexivity|]. destruct (j <? k); reflexivity.
    - destruct Hs as [H1 H2]. destruct (k =? k') eqn:E.
      + apply Z.eqb_eq in E; subst k'. cbn [lookup]. destruct (j =? k); reflexivity.
      + destruct (k <? k') eqn:E2; cbn [lookup].
        * destruct (j =? k) eqn:E3; [reflexivity|].
          destruct (j <? k) eqn:E4; [|reflexivity].
          destruct (j =? k') eqn:E5; [lia|]. destruct (j <? k') eqn:E6; [reflexivity|lia].
        * destruct (j =? k') eqn:E5.
          -- destruct (j =? k) eqn:E3; [lia|reflexivity].
          -- destruct (j <? k') eqn:E6.
             ++ destruct (j =? k) eqn:E3; [lia|reflexivity].
             ++ apply (IH _ H2).
  Qed.

  Lemma lookup_del lo m k j : sorted_from lo m ->
    lookup (del m k) j = if j =? k then None else lookup m j.
  Proof.
    revert lo; induction m as [|[k' v'] r IH]; intros lo Hs; cbn [del lookup].
    - destruct (j =? k); reflexivity.
    - destruct Hs as [H1 H2]. destruct (k =? k') eqn:E.
      + apply Z.eqb_eq in E; subst k'.
        destruct (j =? k) eqn:E3.
        * apply Z.eqb_eq in E3; subst j. apply (lookup_below _ _ _ H2). lia.
        * destruct (j <? k) eqn:E4; [|reflexivity]. apply (lookup_below _ _ _ H2). lia.
      + destruct (k <? k') eqn:E2; cbn [lookup].
        * destruct (j =? k) eqn:E3; [|reflexivity].
          destruct (j =? k') eqn:E5; [lia|]. destruct (j <? k') eqn:E6; [reflexivity|lia].
        * destruct (j =? k') eqn:E5.
          -- destruct (j =? k) eqn:E3; [lia|reflexivity].
          -- destruct (j <? k') eqn:E6.
             ++ destruct (j =? k) eqn:E3; reflexivity.
             ++ apply (IH _ H2).
  Qed.

  (* two sorted maps with the same lookup function are the same list *)
  Lemma lookup_head lo k v r : sorted_from lo ((k, v) :: r) -> lookup ((k, v) :: r) k = Some v.
  Proof. intros _. cbn. rewrite Z.eqb_refl. reflexivity. Qed.

  Lemma sorted_ext : forall m1 m2 lo1 lo2, sorted_from lo1 m1 -> sorted_from lo2 m2 ->
    (forall k, lookup m1 k = lookup m2 k) -> m1 = m2.
  Proof.
    induction m1 as [|[k1 v1] r1 IH]; intros [|[k2 v2] r2] lo1 lo2 H1 H2 Hx.
    - reflexivity.
    - specialize (Hx k2). cbn in Hx. rewrite Z.eqb_refl in Hx. discriminate.
    - specialize (Hx k1). cbn in Hx. rewrite Z.eqb_refl in Hx. discriminate.
    - destruct H1 as [H1a H1b]. destruct H2 as [H2a H2b].
      assert (Hk : k1 = k2).
      { pose proof (Hx k1) as A. pose proof (Hx k2) as B. cbn in A, B. rewrite Z.eqb_refl in A, B.
        destruct (k1 =? k2) eqn:E; [lia|]. destruct (k2 =? k1) eqn:E'; [lia|].
        destruct (k1 <? k2) eqn:E2; [discriminate|]. destruct (k2 <? k1) eqn:E3; [discriminate|]. lia. }
      subst k2.
      assert (Hv : v1 = v2).
      { pose proof (Hx k1) as A. cbn in A. rewrite Z.eqb_refl in A. congruence. }
      subst v2. f_equal. apply (IH r2 _ _ H1b H2b).
      intros k. pose proof (Hx k) as A. cbn in A.
      destruct (k =? k1) eqn:E.
      + apply Z.eqb_eq in E; subst k. rewrite (lookup_below _ _ _ H1b), (lookup_below _ _ _ H2b) by lia. reflexivity.
      + destruct (k <? k1) eqn:E2; [|exact A].
        rewrite (lookup_below _ _ _ H1b), (lookup_below _ _ _ H2b) by lia. reflexivity.
  Qed.

  (* ---------------- the range scan ---------------- *)
  Definition in_range (lo hi : Z) (p : Z * V) : bool := (lo <=? fst p) && (fst p <? hi).
  (* LoadRange(start, end, limit): end exclusive, at most limit (> 0) items, in key order *)
  Definition range (m : amap) (lo hi : Z) (limit : Z) : amap :=
    firstn (Z.to_nat limit) (filter (in_range lo hi) m).

  Lemma filter_below lo hi m b : sorted_from b m -> hi <= b -> filter (in_range lo hi) m = [].
  Proof.
    revert b; induction m as [|[k v] r IH]; intros b Hs Hb; cbn [filter]; [reflexivity|].
    destruct Hs as [H1 H2]. unfold in_range at 1; cbn [fst].
    replace ((lo <=? k) && (k <? hi)) with false by (symmetry; apply andb_false_iff; right; lia).
    apply (IH _ H2). lia.
  Qed.

  Lemma filter_all_from lo hi m b : sorted_from b m -> lo <= b ->
    filter (in_range lo hi) m = filter (fun p => fst p <? hi) m.
  Proof.
    revert b; induction m as [|[k v] r IH]; intros b Hs Hb; cbn [filter]; [reflexivity|].
    destruct Hs as [H1 H2]. unfold in_range at 1; cbn [fst].
    replace (lo <=? k) with true by (symmetry; lia). cbn [andb].
    rewrite (IH _ H2) by lia. reflexivity.
  Qed.

  (* scanning from lo = scanning the first n matches, then continuing right after the last of them *)
  Lemma filter_split_after lo hi m b n :
    sorted_from b m ->
    let f := filter (in_range lo hi) m in
    (n < length f)%nat ->
    forall k v, nth_error f n = Some (k, v) ->
      filter (in_range (k + 1) hi) m = skipn (S n) f.
  Proof.
    revert b n; induction m as [|[k' v'] r IH]; intros b n Hs f Hn k v Hnth.
    - cbn in Hn. lia.
    - destruct Hs as [H1 H2]. subst f. cbn [filter] in *.
      destruct (in_range lo hi (k', v')) eqn:E.
      + destruct n as [|n].
        * cbn in Hnth. inversion Hnth; subst k' v'. cbn [skipn].
          unfold in_range at 1; cbn [fst]. replace (k + 1 <=? k) with false by (symmetry; lia). cbn [andb].
          unfold in_range in E; cbn [fst] in E.
          (* everything after k is >= k+1 and the lower bound lo no longer matters *)
          rewrite (filter_all_from (k + 1) hi r (k + 1) H2) by lia.
          rewrite (filter_all_from lo hi r (k + 1) H2) by lia. reflexivity.
        * cbn [nth_error] in Hnth. cbn [length] in Hn. cbn [skipn].
          assert (Hk : k' + 1 <= k).
          { apply nth_error_In in Hnth. apply filter_In in Hnth as [Hin _].
            eapply sorted_from_In in Hin; [|exact H2]. exact Hin. }
          unfold in_range at 1; cbn [fst]. replace (k + 1 <=? k') with false by (symmetry; lia). cbn [andb].
          apply (IH _ n H2) with (v := v); [lia|exact Hnth].
      + unfold in_range at 1; cbn [fst].
        assert (Hk : k' + 1 <= k).
        { apply nth_error_In in Hnth. apply filter_In in Hnth as [Hin _].
          eapply sorted_from_In in Hin; [|exact H2]. exact Hin. }
        replace (k + 1 <=? k') with false by (symmetry; lia). cbn [andb].
        apply (IH _ n H2) with (v := v); [exact Hn|exact Hnth].
  Qed.
End Map.
Arguments amap : clear implicits.
