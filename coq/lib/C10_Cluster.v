(* Shared by C10 and C11 (own lib file, see HOWTO rule 10): the cluster view the filters read,
   regions, operator steps with TiKV's conf-change rules (the same semantics as
   harness/internal/sim10), and the store-state filter *parameterised by the tables the
   translator regenerates from server/schedule/filter/filters.go*.  Definitions and a few
   elementary lemmas; no axioms. *)
From Coq Require Export String List ZArith Bool Lia.
Export ListNotations.
Local Open Scope Z_scope.

(* ---------- the vocabulary of filters.go ---------- *)
Inductive cond :=
| isTombstone | isDown | isOffline | pauseLeaderTransfer | isDisconnected | isBusy
| exceedRemoveLimit | exceedAddLimit | tooManySnapshots | tooManyPendingPeers | hasRejectLeaderProperty.
Inductive kind := leaderSource | regionSource | leaderTarget | regionTarget | scatterRegionTarget.
Inductive flag := TransferLeader | MoveRegion | ScatterRegion | AllowTemporaryStates.

Definition cond_idx (c : cond) : Z :=
  match c with
  | isTombstone => 0 | isDown => 1 | isOffline => 2 | pauseLeaderTransfer => 3 | isDisconnected => 4
  | isBusy => 5 | exceedRemoveLimit => 6 | exceedAddLimit => 7 | tooManySnapshots => 8
  | tooManyPendingPeers => 9 | hasRejectLeaderProperty => 10
  end.
Definition cond_eqb (a b : cond) : bool := cond_idx a =? cond_idx b.
Lemma cond_eqb_eq a b : cond_eqb a b = true <-> a = b.
Proof.
  unfold cond_eqb; split; [|intros ->; apply Z.eqb_refl].
  destruct a, b; cbn; intros H; try reflexivity; discriminate H.
Qed.
Definition mem_cond (c : cond) (l : list cond) : bool := existsb (cond_eqb c) l.
Lemma mem_cond_In c l : mem_cond c l = true <-> In c l.
Proof.
  unfold mem_cond; rewrite existsb_exists; split.
  - intros (x & Hx & E); apply cond_eqb_eq in E; subst; exact Hx.
  - intros H; exists c; split; [exact H|apply cond_eqb_eq; reflexivity].
Qed.

Definition flag_idx (f : flag) : Z :=
  match f with TransferLeader => 0 | MoveRegion => 1 | ScatterRegion => 2 | AllowTemporaryStates => 3 end.
Definition flag_eqb (a b : flag) : bool := flag_idx a =? flag_idx b.
Definition kind_idx (k : kind) : Z :=
  match k with leaderSource => 0 | regionSource => 1 | leaderTarget => 2 | regionTarget => 3 | scatterRegionTarget => 4 end.
Definition kind_eqb (a b : kind) : bool := kind_idx a =? kind_idx b.

(* comparison operators read off the checkers' guards by the translator *)
Inductive cmpop := CGt | CGe | CLt | CLe | CEq | CNe.
Definition cmp_eval (o : cmpop) (a b : Z) : bool :=
  match o with
  | CGt => b <? a | CGe => b <=? a | CLt => a <? b | CLe => a <=? b | CEq => a =? b | CNe => negb (a =? b)
  end.

(* ---------- stores ---------- *)
Inductive sstate := SUp | SOffline | STombstone.

(* a label value is (canonical id, spelling): strings.EqualFold compares the canonical id,
   == compares both; canonical id 0 is the empty string *)
Definition lval := (Z * Z)%type.

Record store := Store {
  sid : Z;
  sst : sstate;
  s_down   : bool;   (* DownTime() > max-store-down-time *)
  s_disc   : bool;   (* IsDisconnected() *)
  s_busy   : bool;   (* IsBusy() *)
  s_low    : bool;   (* IsLowSpace(low-space-ratio) *)
  s_noadd  : bool;   (* !IsAvailable(AddPeer) *)
  s_normv  : bool;   (* !IsAvailable(RemovePeer) *)
  s_snap   : bool;   (* sending or receiving snapshots > max-snapshot-count *)
  s_pend   : bool;   (* max-pending-peer-count > 0 and pending peers > it *)
  s_pause  : bool;   (* !AllowLeaderTransfer() *)
  s_reject : bool;   (* reject-leader label property *)
  s_labels : list (Z * lval)   (* key (compared with EqualFold everywhere: canonical id only), value *)
}.

Definition is_up (s : store) : bool := match sst s with SUp => true | _ => false end.

Definition label_value (s : store) (k : Z) : lval :=
  match find (fun kv => fst kv =? k) (s_labels s) with
  | Some (_, v) => if fst v =? 0 then (0, 0) else v
  | None => (0, 0)
  end.
Definition lv_empty (v : lval) : bool := fst v =? 0.
Definition lv_eq (a b : lval) : bool := (fst a =? fst b) && (snd a =? snd b).   (* Go == *)
Definition lv_fold (a b : lval) : bool := fst a =? fst b.                         (* strings.EqualFold *)

(* PersistOptions.CheckLabelProperty(typ, labels): some configured entry of the property equals (key and value, both ==) some
   label of the store.  `props` are the configured entries of one property type (reject-leader). *)
Definition check_label_property (props : list (Z * lval)) (labels : list (Z * lval)) : bool :=
  existsb (fun cfg => existsb (fun l => (fst l =? fst cfg) && lv_eq (snd l) (snd cfg)) labels) props.

Lemma check_label_property_spec props labels :
  check_label_property props labels = true <->
  exists cfg l, In cfg props /\ In l labels /\ fst l = fst cfg /\ lv_eq (snd l) (snd cfg) = true.
Proof.
  unfold check_label_property. rewrite existsb_exists. split.
  - intros (cfg & Hc & H). apply existsb_exists in H as (l & Hl & H). apply andb_true_iff in H as [H1 H2].
    apply Z.eqb_eq in H1. exists cfg, l. auto.
  - intros (cfg & l & Hc & Hl & H1 & H2). exists cfg. split; [exact Hc|]. apply existsb_exists. exists l.
    split; [exact Hl|]. rewrite H1, Z.eqb_refl. exact H2.
Qed.

(* in particular the ORDER of the configured entries and of the store's labels is irrelevant, and a later entry with the same key
   as an earlier, non-matching one still counts *)
Lemma check_label_property_later_entry k v1 v2 labels :
  In (k, v2) labels -> lv_eq v2 v2 = true -> check_label_property [(k, v1); (k, v2)] labels = true.
Proof.
  intros Hin Hr. apply check_label_property_spec. exists (k, v2), (k, v2). cbn. auto.
Qed.

(* every store's s_reject flag is what the specification says for the configured entries *)
Definition reject_flags_ok (props : list (Z * lval)) (stores : list store) : bool :=
  forallb (fun s => Bool.eqb (s_reject s) (check_label_property props (s_labels s))) stores.

Fixpoint find_store (stores : list store) (id : Z) : option store :=
  match stores with
  | [] => None
  | s :: r => if sid s =? id then Some s else find_store r id
  end.
Lemma find_store_In stores id s : find_store stores id = Some s -> In s stores /\ sid s = id.
Proof.
  induction stores as [|x r IH]; cbn; [discriminate|].
  destruct (sid x =? id) eqn:E.
  - intros H; inversion H; subst; split; [left; reflexivity|apply Z.eqb_eq; exact E].
  - intros H; destruct (IH H); split; [right; assumption|assumption].
Qed.

Definition memZ (x : Z) (l : list Z) : bool := existsb (Z.eqb x) l.
Lemma memZ_In x l : memZ x l = true <-> In x l.
Proof.
  unfold memZ; rewrite existsb_exists; split.
  - intros (y & Hy & E); apply Z.eqb_eq in E; subst; exact Hy.
  - intros H; exists x; split; [exact H|apply Z.eqb_refl].
Qed.
Fixpoint nodupZb (l : list Z) : bool :=
  match l with [] => true | x :: r => negb (memZ x r) && nodupZb r end.
Lemma nodupZb_NoDup l : nodupZb l = true <-> NoDup l.
Proof.
  induction l as [|x r IH]; cbn; [split; [constructor|reflexivity]|].
  rewrite andb_true_iff, negb_true_iff, IH; split.
  - intros [H1 H2]; constructor; [rewrite <- memZ_In; congruence|exact H2].
  - intros H; inversion H as [|? ? H1 H2]; subst; split; [|exact H2].
    destruct (memZ x r) eqn:E; [apply memZ_In in E; contradiction|reflexivity].
Qed.

(* ---------- the raw conditions of StoreStateFilter (what each condition function reads) ---------- *)
Definition cond_raw (c : cond) (s : store) : bool :=
  match c with
  | isTombstone => match sst s with STombstone => true | _ => false end
  | isDown => s_down s
  | isOffline => match sst s with SOffline => true | _ => false end
  | pauseLeaderTransfer => s_pause s
  | isDisconnected => s_disc s
  | isBusy => s_busy s
  | exceedRemoveLimit => s_normv s
  | exceedAddLimit => s_noadd s
  | tooManySnapshots => s_snap s
  | tooManyPendingPeers => s_pend s
  | hasRejectLeaderProperty => s_reject s
  end.

(* a StoreStateFilter value = the set of its boolean fields that are true *)
Definition sfilter := list flag.
Definition has_flag (f : sfilter) (x : flag) : bool := existsb (flag_eqb x) f.

Section Tables.
  (* regenerated from filters.go on every run (gen/Gen_C10.v, gen/Gen_C11.v) *)
  Variable conds : kind -> list cond.                       (* anyConditionMatch *)
  Variable temp_conds : list cond.                          (* conditions guarded by !f.AllowTemporaryStates *)
  Variable target_dispatch : list (list (flag * bool) * kind).   (* StoreStateFilter.Target *)
  Variable source_dispatch : list (list (flag * bool) * kind).   (* StoreStateFilter.Source *)

  Definition cond_holds (f : sfilter) (c : cond) (s : store) : bool :=
    negb (has_flag f AllowTemporaryStates && mem_cond c temp_conds) && cond_raw c s.

  Definition any_cond (f : sfilter) (k : kind) (s : store) : bool :=
    existsb (fun c => cond_holds f c s) (conds k).

  Definition guard_holds (f : sfilter) (g : flag * bool) : bool := Bool.eqb (has_flag f (fst g)) (snd g).

  Definition dispatch_pass (d : list (list (flag * bool) * kind)) (f : sfilter) (s : store) : bool :=
    forallb (fun gk => negb (forallb (guard_holds f) (fst gk) && any_cond f (snd gk) s)) d.

  Definition sf_target (f : sfilter) (s : store) : bool := dispatch_pass target_dispatch f s.
  Definition sf_source (f : sfilter) (s : store) : bool := dispatch_pass source_dispatch f s.

  (* the generic fact every "target is good" proof rests on: if the dispatch table sends this
     filter value to kind k, and c is listed for k, and c is not switched off by
     AllowTemporaryStates, then a store passing the filter does not satisfy c *)
  Lemma sf_target_excludes f s gs k c :
    sf_target f s = true ->
    In (gs, k) target_dispatch -> forallb (guard_holds f) gs = true ->
    In c (conds k) ->
    (has_flag f AllowTemporaryStates && mem_cond c temp_conds = false) ->
    cond_raw c s = false.
  Proof.
    intros Hp Hd Hg Hc Ht. unfold sf_target, dispatch_pass in Hp.
    rewrite forallb_forall in Hp. specialize (Hp _ Hd). cbn [fst snd] in Hp.
    rewrite Hg in Hp. cbn [andb] in Hp. apply negb_true_iff in Hp.
    unfold any_cond in Hp.
    destruct (cond_raw c s) eqn:E; [|reflexivity].
    assert (X : existsb (fun c0 => cond_holds f c0 s) (conds k) = true).
    { apply existsb_exists. exists c; split; [exact Hc|]. unfold cond_holds. rewrite Ht, E. reflexivity. }
    congruence.
  Qed.

  Lemma sf_source_excludes f s gs k c :
    sf_source f s = true ->
    In (gs, k) source_dispatch -> forallb (guard_holds f) gs = true ->
    In c (conds k) ->
    (has_flag f AllowTemporaryStates && mem_cond c temp_conds = false) ->
    cond_raw c s = false.
  Proof.
    intros Hp Hd Hg Hc Ht. unfold sf_source, dispatch_pass in Hp.
    rewrite forallb_forall in Hp. specialize (Hp _ Hd). cbn [fst snd] in Hp.
    rewrite Hg in Hp. cbn [andb] in Hp. apply negb_true_iff in Hp.
    unfold any_cond in Hp.
    destruct (cond_raw c s) eqn:E; [|reflexivity].
    assert (X : existsb (fun c0 => cond_holds f c0 s) (conds k) = true).
    { apply existsb_exists. exists c; split; [exact Hc|]. unfold cond_holds. rewrite Ht, E. reflexivity. }
    congruence.
  Qed.
End Tables.

(* ---------- locations ---------- *)
(* StoreInfo.CompareLocation: first level at which both values are set and differ (EqualFold) *)
Fixpoint compare_location_from (i : Z) (a b : store) (labels : list Z) : option Z :=
  match labels with
  | [] => None
  | k :: r =>
      let v1 := label_value a k in let v2 := label_value b k in
      if negb (lv_empty v1) && negb (lv_empty v2) && negb (lv_fold v1 v2) then Some i
      else compare_location_from (i + 1) a b r
  end.
Definition compare_location (a b : store) (labels : list Z) : option Z := compare_location_from 0 a b labels.

(* core.DistinctScore with the base the translator reads from server/core/store.go; exact integer
   (math.Pow on small integers is exact in float64 for the sizes used here) *)
Definition distinct_score (base : Z) (labels : list Z) (stores : list store) (other : store) : Z :=
  fold_left (fun acc s =>
    if sid s =? sid other then acc
    else match compare_location s other labels with
         | Some idx => acc + base ^ (Z.of_nat (length labels) - idx - 1)
         | None => acc
         end) stores 0.

(* ---------- regions and operator steps ---------- *)
Inductive role := Voter | Learner | Incoming | Demoting.
Definition role_idx (r : role) : Z := match r with Voter => 0 | Learner => 1 | Incoming => 2 | Demoting => 3 end.
Definition role_eqb (a b : role) : bool := role_idx a =? role_idx b.
Lemma role_eqb_eq a b : role_eqb a b = true <-> a = b.
Proof. unfold role_eqb; split; [|intros ->; apply Z.eqb_refl]. destruct a, b; cbn; intros H; try reflexivity; discriminate H. Qed.

Record peer := Peer { p_id : Z; p_store : Z; p_role : role }.
Definition peer_eqb (a b : peer) : bool := (p_id a =? p_id b) && (p_store a =? p_store b) && role_eqb (p_role a) (p_role b).

Definition is_learner (p : peer) : bool := match p_role p with Learner => true | _ => false end.
Definition in_joint (ps : list peer) : bool :=
  existsb (fun p => match p_role p with Incoming | Demoting => true | _ => false end) ps.

Definition peer_on (ps : list peer) (st : Z) : option peer := find (fun p => p_store p =? st) ps.
Definition stores_of (ps : list peer) : list Z := map p_store ps.
Definition count_role (r : role) (ps : list peer) : nat := length (filter (fun p => role_eqb (p_role p) r) ps).
Definition voters_of (ps : list peer) : list peer := filter (fun p => negb (is_learner p)) ps.

(* what a step sequence acts on: the peer list and the leader's store (0 = none) *)
Record rstate := RState { rs_peers : list peer; rs_leader : Z }.

Inductive step :=
| TransferLeaderS (from to : Z)
| AddPeerS (st id : Z)            (* AddPeer / AddLightPeer: adds a voter directly *)
| AddLearnerS (st id : Z)         (* AddLearner / AddLightLearner *)
| PromoteLearnerS (st id : Z)
| DemoteFollowerS (st id : Z)
| RemovePeerS (st : Z)
| EnterJointS (promote demote : list (Z * Z))    (* (store, peer id) *)
| LeaveJointS (promote demote : list (Z * Z))
| OtherS.                          (* split / merge: no membership change *)

Definition set_role (ps : list peer) (st : Z) (r : role) : list peer :=
  map (fun p => if p_store p =? st then Peer (p_id p) (p_store p) r else p) ps.

Definition has_role (ps : list peer) (st id : Z) (r : role) : bool :=
  match peer_on ps st with Some p => (p_id p =? id) && role_eqb (p_role p) r | None => false end.

(* TiKV's rules; None = the command is rejected / the step is unsafe at this point *)
Definition apply_step (s : rstate) (x : step) : option rstate :=
  let ps := rs_peers s in
  match x with
  | TransferLeaderS _ to =>
      match peer_on ps to with
      | Some p => match p_role p with
                  | Voter | Incoming => Some (RState ps to)
                  | _ => None
                  end
      | None => None
      end
  | AddPeerS st id =>
      match peer_on ps st with
      | Some _ => None
      | None => Some (RState (ps ++ [Peer id st Voter]) (rs_leader s))
      end
  | AddLearnerS st id =>
      match peer_on ps st with
      | Some _ => None
      | None => Some (RState (ps ++ [Peer id st Learner]) (rs_leader s))
      end
  | PromoteLearnerS st id =>
      if has_role ps st id Learner then Some (RState (set_role ps st Voter) (rs_leader s)) else None
  | DemoteFollowerS st id =>
      if has_role ps st id Voter && negb (st =? rs_leader s)
      then Some (RState (set_role ps st Learner) (rs_leader s)) else None
  | RemovePeerS st =>
      if st =? rs_leader s then None
      else Some (RState (filter (fun p => negb (p_store p =? st)) ps) (rs_leader s))
  | EnterJointS pr de =>
      if in_joint ps then None
      else if forallb (fun x => has_role ps (fst x) (snd x) Learner) pr
              && forallb (fun x => has_role ps (fst x) (snd x) Voter) de
      then Some (RState (fold_left (fun acc x => set_role acc (fst x) Demoting) de
                           (fold_left (fun acc x => set_role acc (fst x) Incoming) pr ps)) (rs_leader s))
      else None
  | LeaveJointS pr de =>
      match peer_on ps (rs_leader s) with
      | Some l => match p_role l with
                  | Demoting => None
                  | _ => Some (RState (map (fun p => match p_role p with
                                                    | Incoming => Peer (p_id p) (p_store p) Voter
                                                    | Demoting => Peer (p_id p) (p_store p) Learner
                                                    | _ => p end) ps) (rs_leader s))
                  end
      | None => None
      end
  | OtherS => Some s
  end.

(* run a step list; the trace holds every intermediate state (the initial one first) *)
Fixpoint run_steps (s : rstate) (xs : list step) : option (list rstate) :=
  match xs with
  | [] => Some [s]
  | x :: r => match apply_step s x with
              | Some s' => match run_steps s' r with Some t => Some (s :: t) | None => None end
              | None => None
              end
  end.
Definition final_state (t : list rstate) (d : rstate) : rstate := last t d.

Fixpoint list_eqb {A} (eqb : A -> A -> bool) (a b : list A) : bool :=
  match a, b with
  | [], [] => true
  | x :: xs, y :: ys => eqb x y && list_eqb eqb xs ys
  | _, _ => false
  end.
Definition rstate_eqb (a b : rstate) : bool := list_eqb peer_eqb (rs_peers a) (rs_peers b) && (rs_leader a =? rs_leader b).

Fixpoint number_from {A} (n : nat) (l : list A) : list (nat * A) :=
  match l with [] => [] | a :: r => (n, a) :: number_from (S n) r end.
