(* C10/C11 (own lib file) — facts about the step semantics of lib/C10_Cluster.v (TiKV's conf-change
   rules) that do not depend on any generated table: how an accepted step changes the peer list, and
   "at most one peer per store" as an invariant of every accepted step. *)
From PDV Require Import lib.C10_Cluster.
Local Open Scope list_scope.
Local Open Scope Z_scope.

Lemma stores_set_role ps st r : stores_of (set_role ps st r) = stores_of ps.
Proof.
  unfold stores_of, set_role. rewrite map_map. apply map_ext. intros p.
  destruct (p_store p =? st); reflexivity.
Qed.

Lemma length_set_role ps st r : List.length (set_role ps st r) = List.length ps.
Proof. unfold set_role. apply map_length. Qed.

Lemma stores_fold_set_role (l : list (Z * Z)) r : forall ps,
  stores_of (fold_left (fun acc x => set_role acc (fst x) r) l ps) = stores_of ps.
Proof. induction l as [|x l IH]; intros ps; cbn [fold_left]; [reflexivity|]. rewrite IH. apply stores_set_role. Qed.

Lemma peer_on_None ps st : peer_on ps st = None -> ~ In st (stores_of ps).
Proof.
  unfold peer_on, stores_of. intros H Hin. apply in_map_iff in Hin as (p & Hp & Hin).
  eapply find_none in H; [|exact Hin]. cbn in H. rewrite Hp, Z.eqb_refl in H. discriminate.
Qed.

Lemma NoDup_app_one (l : list Z) x : NoDup l -> ~ In x l -> NoDup (l ++ [x]).
Proof.
  induction l as [|y l IH]; intros Hn Hx; cbn; [constructor; [tauto|constructor]|].
  inversion Hn as [|? ? Hy Hl]; subst. constructor.
  - rewrite in_app_iff; cbn. intros [H|[H|[]]]; [tauto|]. subst; apply Hx; left; reflexivity.
  - apply IH; [exact Hl|]. intros H; apply Hx; right; exact H.
Qed.

Lemma NoDup_map_filter {A} (f : A -> Z) (p : A -> bool) l : NoDup (map f l) -> NoDup (map f (filter p l)).
Proof.
  induction l as [|a l IH]; cbn; intros H; [constructor|].
  inversion H as [|? ? Ha Hl]; subst. destruct (p a); cbn; [constructor|auto].
  - intros Hin. apply Ha. apply in_map_iff in Hin as (b & Hb & Hin). apply filter_In in Hin as [Hin _].
    apply in_map_iff. exists b; auto.
  - auto.
Qed.

Definition leave_role (p : peer) : peer :=
  match p_role p with
  | Incoming => Peer (p_id p) (p_store p) Voter
  | Demoting => Peer (p_id p) (p_store p) Learner
  | _ => p
  end.
Lemma stores_leave ps : stores_of (map leave_role ps) = stores_of ps.
Proof.
  unfold stores_of. rewrite map_map. apply map_ext. intros p. unfold leave_role. destruct (p_role p); reflexivity.
Qed.

(* how a step changes the peer list: stores and length *)
Inductive step_effect (ps ps' : list peer) : Z -> Prop :=
| eff_same : stores_of ps' = stores_of ps -> step_effect ps ps' 0
| eff_add st p : ~ In st (stores_of ps) -> p_store p = st -> ps' = ps ++ [p] -> step_effect ps ps' 1
| eff_remove st : ps' = filter (fun p => negb (p_store p =? st)) ps -> step_effect ps ps' (-1).

Definition step_delta (x : step) : Z :=
  match x with AddPeerS _ _ | AddLearnerS _ _ => 1 | RemovePeerS _ => -1 | _ => 0 end.

Lemma apply_step_effect s x s' : apply_step s x = Some s' -> step_effect (rs_peers s) (rs_peers s') (step_delta x).
Proof.
  destruct s as [ps ld]. destruct x; cbn [apply_step rs_peers rs_leader step_delta]; intros H.
  - destruct (peer_on ps to) as [p|]; [|discriminate]. destruct (p_role p); inversion H; subst; apply eff_same; reflexivity.
  - destruct (peer_on ps st) eqn:E; [discriminate|]. inversion H; subst; cbn.
    eapply eff_add; [apply peer_on_None; exact E| |reflexivity]. reflexivity.
  - destruct (peer_on ps st) eqn:E; [discriminate|]. inversion H; subst; cbn.
    eapply eff_add; [apply peer_on_None; exact E| |reflexivity]. reflexivity.
  - destruct (has_role ps st id Learner); inversion H; subst; cbn. apply eff_same. apply stores_set_role.
  - destruct (has_role ps st id Voter && negb (st =? ld)); inversion H; subst; cbn. apply eff_same. apply stores_set_role.
  - destruct (st =? ld); inversion H; subst; cbn. eapply eff_remove. reflexivity.
  - destruct (in_joint ps); [discriminate|].
    destruct (forallb _ promote && forallb _ demote); inversion H; subst; cbn.
    apply eff_same. rewrite stores_fold_set_role. apply stores_fold_set_role.
  - destruct (peer_on ps ld) as [l|]; [|discriminate]. destruct (p_role l); inversion H; subst; cbn;
      apply eff_same; apply (stores_leave ps).
  - inversion H; subst. apply eff_same. reflexivity.
Qed.

(* at most one peer per store is preserved by every accepted step *)
Lemma apply_step_nodup s x s' :
  apply_step s x = Some s' -> NoDup (stores_of (rs_peers s)) -> NoDup (stores_of (rs_peers s')).
Proof.
  intros H Hn. apply apply_step_effect in H. inversion H as [E | st p Hst Hp E | st E].
  - rewrite E. exact Hn.
  - rewrite E. unfold stores_of. rewrite map_app. cbn. apply NoDup_app_one; [exact Hn|]. rewrite Hp. exact Hst.
  - rewrite E. apply NoDup_map_filter. exact Hn.
Qed.

Lemma filter_one_length ps st :
  NoDup (stores_of ps) ->
  Nat.le (List.length ps) (S (List.length (filter (fun p => negb (p_store p =? st)) ps))).
Proof.
  induction ps as [|p ps IH]; cbn; intros Hn; [lia|].
  inversion Hn as [|? ? Hp Hl]; subst.
  destruct (p_store p =? st) eqn:E; cbn.
  - apply Z.eqb_eq in E.
    assert (F : filter (fun q => negb (p_store q =? st)) ps = ps).
    { clear IH Hn Hl. induction ps as [|q ps IHp]; cbn; [reflexivity|].
      destruct (p_store q =? st) eqn:E2; cbn.
      - exfalso. apply Hp. left. apply Z.eqb_eq in E2. congruence.
      - f_equal. apply IHp. intros Hin. apply Hp. right. exact Hin. }
    rewrite F. lia.
  - specialize (IH Hl). lia.
Qed.

Lemma apply_step_length s x s' :
  apply_step s x = Some s' -> NoDup (stores_of (rs_peers s)) ->
  Z.of_nat (List.length (rs_peers s)) + step_delta x <= Z.of_nat (List.length (rs_peers s')).
Proof.
  intros H Hn. apply apply_step_effect in H. inversion H as [E | st p Hst Hp E | st E].
  - assert (L : List.length (rs_peers s') = List.length (rs_peers s)).
    { unfold stores_of in E. rewrite <- (map_length p_store (rs_peers s')), E. apply map_length. }
    lia.
  - rewrite E, app_length. cbn. lia.
  - rewrite E. pose proof (filter_one_length (rs_peers s) st Hn). lia.
Qed.

Lemma run_steps_nodup xs : forall s tr,
  run_steps s xs = Some tr -> NoDup (stores_of (rs_peers s)) -> Forall (fun s' => NoDup (stores_of (rs_peers s'))) tr.
Proof.
  induction xs as [|x xs IH]; intros s tr H Hn; cbn in H.
  - inversion H; subst. constructor; [exact Hn|constructor].
  - destruct (apply_step s x) as [s1|] eqn:E; [|discriminate].
    destruct (run_steps s1 xs) as [t|] eqn:E2; [|discriminate]. inversion H; subst.
    constructor; [exact Hn|]. eapply IH; [exact E2|]. eapply apply_step_nodup; eauto.
Qed.

