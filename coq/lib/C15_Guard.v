(* Executions in which every label that fires satisfies a guard (a decidable side condition on
   the pre-state and the label).  Used to state `_partial` theorems: the excluded class of
   schedules / inputs is the visible hypothesis `guarded step G s ls = true`. *)
From PDV Require Import lib.Base.

Section Guarded.
  Context {S L : Type} (step : S -> L -> option S) (G : S -> L -> bool).

  Fixpoint guarded (s : S) (ls : list L) : bool :=
    match ls with
    | [] => true
    | l :: r => match step s l with Some s' => G s l && guarded s' r | None => guarded s r end
    end.

  Theorem invariant_guarded (I : S -> Prop) :
    (forall s l s', I s -> G s l = true -> step s l = Some s' -> I s') ->
    forall ls s, I s -> guarded s ls = true -> I (exec step s ls).
  Proof.
    intros Hstep ls; induction ls as [|l r IH]; intros s Hs Hg; cbn [exec guarded] in *; [exact Hs|].
    destruct (step s l) as [s'|] eqn:E.
    - apply andb_true_iff in Hg as [Hg1 Hg2]. apply IH; [eapply Hstep; eauto | exact Hg2].
    - apply IH; assumption.
  Qed.

  Lemma guarded_app s l1 l2 : guarded s (l1 ++ l2) = guarded s l1 && guarded (exec step s l1) l2.
  Proof.
    revert s; induction l1 as [|l r IH]; intros s; cbn [guarded exec app]; [reflexivity|].
    destruct (step s l) as [s'|]; [rewrite IH, andb_assoc; reflexivity | apply IH].
  Qed.

  Lemma guarded_last s ls l s' :
    guarded s (ls ++ [l]) = true -> step (exec step s ls) l = Some s' ->
    guarded s ls = true /\ G (exec step s ls) l = true.
  Proof.
    rewrite guarded_app. intros H E. apply andb_true_iff in H as [H1 H2]. split; [exact H1|].
    cbn [guarded] in H2. rewrite E in H2. apply andb_true_iff in H2 as [H2 _]. exact H2.
  Qed.
End Guarded.
