(* Three-valued comparison functions that come from a total preorder ("good" comparisons):
   closure under pull-back, flipping, lexicographic product and lexicographic lists, and the
   consequences used by the C12 proofs (first-maximum folds).  No axioms. *)
From Coq Require Import List ZArith Lia Bool.
Import ListNotations.

Definition lexc (c d : comparison) : comparison := match c with Eq => d | _ => c end.

Record good {A} (c : A -> A -> comparison) : Prop := {
  g_anti  : forall a b, c b a = CompOpp (c a b);
  g_trans : forall a b d x, c a b = x -> c b d = x -> c a d = x;
  g_eq_l  : forall a b d, c a b = Eq -> c a d = c b d
}.

Section Facts.
  Context {A} (c : A -> A -> comparison) (G : good c).

  Lemma g_refl a : c a a = Eq.
  Proof. pose proof (g_anti c G a a) as H. destruct (c a a); cbn in H; congruence. Qed.

  Lemma g_eq_r a b d : c a b = Eq -> c d a = c d b.
  Proof.
    intros H. rewrite (g_anti c G a d), (g_anti c G b d). f_equal. apply (g_eq_l c G); exact H.
  Qed.

  Lemma g_eq_sym a b : c a b = Eq -> c b a = Eq.
  Proof. intros H. rewrite (g_anti c G a b), H. reflexivity. Qed.

  Lemma g_gt_lt a b : c a b = Gt <-> c b a = Lt.
  Proof. rewrite (g_anti c G a b). destruct (c a b); cbn; split; congruence. Qed.

  (* x > t and not (y > t)  ==>  x > y *)
  Lemma g_gt_nle x y t : c x t = Gt -> c y t <> Gt -> c x y = Gt.
  Proof.
    intros H1 H2. destruct (c y t) eqn:E; try congruence.
    - rewrite (g_eq_r t y x (g_eq_sym _ _ E)) in H1. exact H1.
    - assert (E' : c t y = Gt) by (apply g_gt_lt; exact E).
      eapply (g_trans c G); eauto.
  Qed.

  Lemma g_ge_trans a b d : c a b <> Lt -> c b d <> Lt -> c a d <> Lt.
  Proof.
    intros H1 H2 H3.
    destruct (c a b) eqn:E1; try congruence.
    - rewrite (g_eq_l c G a b d E1) in H3. congruence.
    - destruct (c b d) eqn:E2; try congruence.
      + rewrite <- (g_eq_r b d a E2) in H3. congruence.
      + rewrite (g_trans c G a b d Gt E1 E2) in H3. congruence.
  Qed.

  Lemma g_gt_ge a b d : c a b = Gt -> c b d <> Lt -> c a d = Gt.
  Proof.
    intros H1 H2. destruct (c b d) eqn:E2; try congruence.
    - rewrite <- (g_eq_r b d a E2). exact H1.
    - eapply (g_trans c G); eauto.
  Qed.

  Lemma g_ge_gt a b d : c a b <> Lt -> c b d = Gt -> c a d = Gt.
  Proof.
    intros H1 H2. destruct (c a b) eqn:E1; try congruence.
    - rewrite (g_eq_l c G a b d E1). exact H2.
    - eapply (g_trans c G); eauto.
  Qed.

  (* ---- first maximum with replacement on strict improvement only ---- *)
  Definition keep_better (acc x : A) : A := match c x acc with Gt => x | _ => acc end.
  Definition step_opt (cur : option A) (x : A) : option A :=
    match cur with None => Some x | Some t => Some (keep_better t x) end.

  Lemma fold_better_in xs x0 : In (fold_left keep_better xs x0) (x0 :: xs).
  Proof.
    revert x0; induction xs as [|x r IH]; intros x0; cbn [fold_left]; [left; reflexivity|].
    specialize (IH (keep_better x0 x)).
    destruct IH as [H|H]; [|right; right; exact H].
    rewrite <- H. unfold keep_better. destruct (c x x0); cbn; auto.
  Qed.

  Lemma kb_ge_l x0 x : c (keep_better x0 x) x0 <> Lt.
  Proof.
    unfold keep_better. destruct (c x x0) eqn:E; try (rewrite g_refl; discriminate). rewrite E; discriminate.
  Qed.
  Lemma kb_ge_r x0 x : c (keep_better x0 x) x <> Lt.
  Proof.
    unfold keep_better. destruct (c x x0) eqn:E.
    - rewrite (g_eq_sym _ _ E); discriminate.
    - rewrite (g_anti c G x x0), E; discriminate.
    - rewrite g_refl; discriminate.
  Qed.

  Lemma fold_better_ge_init xs x0 : c (fold_left keep_better xs x0) x0 <> Lt.
  Proof.
    revert x0; induction xs as [|x r IH]; intros x0; cbn [fold_left].
    - rewrite g_refl; discriminate.
    - eapply g_ge_trans; [apply IH|apply kb_ge_l].
  Qed.

  Lemma fold_better_max xs : forall x0 y, In y (x0 :: xs) -> c (fold_left keep_better xs x0) y <> Lt.
  Proof.
    induction xs as [|x r IH]; intros x0 y Hy; cbn [fold_left].
    - destruct Hy as [Hy|[]]. subst; rewrite g_refl; discriminate.
    - destruct Hy as [Hy|[Hy|Hy]].
      + subst y. eapply g_ge_trans; [apply fold_better_ge_init|apply kb_ge_l].
      + subst y. eapply g_ge_trans; [apply fold_better_ge_init|apply kb_ge_r].
      + apply IH. right; exact Hy.
  Qed.

  (* running the replace-on-strict-improvement loop from an existing best t equals:
     take the first maximum m of the list; replace t iff m > t *)
  Lemma kb_assoc t x y : keep_better (keep_better t x) y = keep_better t (keep_better x y).
  Proof.
    unfold keep_better.
    destruct (c x t) eqn:Ext.
    - destruct (c y x) eqn:Eyx.
      + rewrite Ext. destruct (c y t) eqn:Eyt; try reflexivity.
        exfalso. assert (H : c y x = Gt) by (apply (g_gt_nle y x t); congruence). congruence.
      + rewrite Ext. destruct (c y t) eqn:Eyt; try reflexivity.
        exfalso. assert (H : c y x = Gt) by (apply (g_gt_nle y x t); congruence). congruence.
      + reflexivity.
    - destruct (c y x) eqn:Eyx.
      + rewrite Ext. destruct (c y t) eqn:Eyt; try reflexivity.
        exfalso. assert (H : c y x = Gt) by (apply (g_gt_nle y x t); congruence). congruence.
      + rewrite Ext. destruct (c y t) eqn:Eyt; try reflexivity.
        exfalso. assert (H : c y x = Gt) by (apply (g_gt_nle y x t); congruence). congruence.
      + reflexivity.
    - destruct (c y x) eqn:Eyx.
      + rewrite Ext. reflexivity.
      + rewrite Ext. reflexivity.
      + rewrite (g_trans c G y x t Gt Eyx Ext). reflexivity.
  Qed.

  Lemma fold_step_some xs : forall x t,
    fold_left step_opt xs (Some (keep_better t x)) =
    Some (keep_better t (fold_left keep_better xs x)).
  Proof.
    induction xs as [|y r IH]; intros x t; cbn [fold_left]; [reflexivity|].
    cbn [step_opt]. rewrite kb_assoc. apply IH.
  Qed.

  Lemma fold_step_from_some x xs t :
    fold_left step_opt (x :: xs) (Some t) = Some (keep_better t (fold_left keep_better xs x)).
  Proof. cbn [fold_left step_opt]. apply fold_step_some. Qed.

  Lemma fold_step_from_none x xs :
    fold_left step_opt (x :: xs) None = Some (fold_left keep_better xs x).
  Proof.
    cbn [fold_left step_opt]. revert x; induction xs as [|y r IH]; intros x; cbn [fold_left]; [reflexivity|].
    cbn [step_opt]. apply IH.
  Qed.

  (* the same loop with the "was something replaced" flag the Go code returns *)
  Definition gtb (x t : A) : bool := match c x t with Gt => true | _ => false end.
  Definition changed (cur : option A) (x : A) : bool :=
    match cur with None => true | Some t => gtb x t end.
  Definition step_optb (st : option A * bool) (x : A) : option A * bool :=
    (step_opt (fst st) x, snd st || changed (fst st) x).

  Lemma gtb_kb t x y : gtb x t || gtb y (keep_better t x) = gtb (keep_better x y) t.
  Proof.
    unfold gtb, keep_better.
    destruct (c x t) eqn:Ext; cbn [orb].
    - destruct (c y x) eqn:Eyx; rewrite ?Ext; try reflexivity.
      + destruct (c y t) eqn:Eyt; try reflexivity.
        exfalso. assert (H : c y x = Gt) by (apply (g_gt_nle y x t); congruence). congruence.
      + destruct (c y t) eqn:Eyt; try reflexivity.
        exfalso. assert (H : c y x = Gt) by (apply (g_gt_nle y x t); congruence). congruence.
    - destruct (c y x) eqn:Eyx; rewrite ?Ext; try reflexivity.
      + destruct (c y t) eqn:Eyt; try reflexivity.
        exfalso. assert (H : c y x = Gt) by (apply (g_gt_nle y x t); congruence). congruence.
      + destruct (c y t) eqn:Eyt; try reflexivity.
        exfalso. assert (H : c y x = Gt) by (apply (g_gt_nle y x t); congruence). congruence.
    - destruct (c y x) eqn:Eyx; rewrite ?Ext; try reflexivity.
      rewrite (g_trans c G y x t Gt Eyx Ext). reflexivity.
  Qed.

  Lemma fold_stepb_some xs : forall x t,
    fold_left step_optb xs (Some (keep_better t x), gtb x t) =
    (Some (keep_better t (fold_left keep_better xs x)), gtb (fold_left keep_better xs x) t).
  Proof.
    induction xs as [|y r IH]; intros x t; cbn [fold_left]; [reflexivity|].
    unfold step_optb at 2. cbn [fst snd step_opt changed].
    rewrite kb_assoc, gtb_kb. apply IH.
  Qed.

  Lemma fold_stepb_from_some x xs t :
    fold_left step_optb (x :: xs) (Some t, false) =
    (Some (keep_better t (fold_left keep_better xs x)), gtb (fold_left keep_better xs x) t).
  Proof. cbn [fold_left]. unfold step_optb at 2. cbn [fst snd step_opt changed orb]. apply fold_stepb_some. Qed.

  Lemma fold_stepb_true xs : forall x, fold_left step_optb xs (Some x, true) = (Some (fold_left keep_better xs x), true).
  Proof.
    induction xs as [|y r IH]; intros x; cbn [fold_left]; [reflexivity|].
    unfold step_optb at 2. cbn [fst snd step_opt orb]. apply IH.
  Qed.

  Lemma fold_stepb_from_none x xs :
    fold_left step_optb (x :: xs) (None, false) = (Some (fold_left keep_better xs x), true).
  Proof. cbn [fold_left]. unfold step_optb at 2. cbn [fst snd step_opt changed orb]. apply fold_stepb_true. Qed.

  (* accumulating the flag from the left or from the right is the same *)
  Lemma fold_stepb_flag xs : forall cur b,
    fold_left step_optb xs (cur, b) =
    (fst (fold_left step_optb xs (cur, false)), b || snd (fold_left step_optb xs (cur, false))).
  Proof.
    induction xs as [|y r IH]; intros cur b; cbn [fold_left].
    - cbn. rewrite orb_false_r. reflexivity.
    - unfold step_optb at 2 4 6. cbn [fst snd orb].
      rewrite (IH (step_opt cur y) (b || changed cur y)), (IH (step_opt cur y) (changed cur y)).
      cbn [fst snd]. rewrite orb_assoc. reflexivity.
  Qed.
End Facts.

(* ---- constructions ---- *)
Lemma good_Z : good Z.compare.
Proof.
  constructor.
  - intros; apply Z.compare_antisym.
  - intros a b d x H1 H2. destruct x.
    + apply Z.compare_eq in H1, H2. subst. apply Z.compare_refl.
    + rewrite Z.compare_lt_iff in *. lia.
    + rewrite Z.compare_gt_iff in *. lia.
  - intros a b d H. apply Z.compare_eq in H. subst. reflexivity.
Qed.

Lemma good_nat : good Nat.compare.
Proof.
  constructor.
  - intros; apply Nat.compare_antisym.
  - intros a b d x H1 H2. destruct x.
    + apply Nat.compare_eq in H1, H2. subst. apply Nat.compare_refl.
    + rewrite Nat.compare_lt_iff in *. lia.
    + rewrite Nat.compare_gt_iff in *. lia.
  - intros a b d H. apply Nat.compare_eq in H. subst. reflexivity.
Qed.

Lemma good_pull {A B} (f : A -> B) c : good c -> good (fun a b => c (f a) (f b)).
Proof.
  intros G; constructor; intros.
  - apply (g_anti c G).
  - eapply (g_trans c G); eauto.
  - apply (g_eq_l c G); assumption.
Qed.

Lemma good_flip {A} (c : A -> A -> comparison) : good c -> good (fun a b => c b a).
Proof.
  intros G; constructor; intros.
  - apply (g_anti c G).
  - eapply (g_trans c G); eauto.
  - apply (g_eq_r c G). apply (g_eq_sym c G). assumption.
Qed.

Lemma lexc_eq c d : lexc c d = Eq -> c = Eq /\ d = Eq.
Proof. destruct c; cbn; intros; try discriminate; auto. Qed.

Lemma good_lex {A} (c1 c2 : A -> A -> comparison) :
  good c1 -> good c2 -> good (fun a b => lexc (c1 a b) (c2 a b)).
Proof.
  intros G1 G2; constructor.
  - intros a b. rewrite (g_anti c1 G1 a b), (g_anti c2 G2 a b). destruct (c1 a b); reflexivity.
  - intros a b d x H1 H2.
    destruct (c1 a b) eqn:E1; destruct (c1 b d) eqn:E2; cbn in H1, H2.
    + rewrite (g_trans c1 G1 a b d Eq E1 E2). cbn. eapply (g_trans c2 G2); eauto.
    + rewrite (g_eq_l c1 G1 a b d E1), E2. exact H2.
    + rewrite (g_eq_l c1 G1 a b d E1), E2. exact H2.
    + rewrite <- (g_eq_r c1 G1 b d a E2), E1. exact H1.
    + rewrite (g_trans c1 G1 a b d Lt E1 E2). exact H1.
    + congruence.
    + rewrite <- (g_eq_r c1 G1 b d a E2), E1. exact H1.
    + congruence.
    + rewrite (g_trans c1 G1 a b d Gt E1 E2). exact H1.
  - intros a b d H. apply lexc_eq in H as [H1 H2].
    rewrite (g_eq_l c1 G1 a b d H1), (g_eq_l c2 G2 a b d H2). reflexivity.
Qed.

Section ListLex.
  Context {A} (c : A -> A -> comparison) (G : good c).
  Fixpoint lexlist (a b : list A) : comparison :=
    match a, b with
    | [], [] => Eq
    | [], _ :: _ => Lt
    | _ :: _, [] => Gt
    | x :: a', y :: b' => lexc (c x y) (lexlist a' b')
    end.

  Lemma good_lexlist : good lexlist.
  Proof.
    constructor.
    - intros a; induction a as [|x a IH]; intros [|y b]; cbn; try reflexivity.
      rewrite (g_anti c G x y), IH. destruct (c x y); reflexivity.
    - intros a; induction a as [|x a IH]; intros [|y b] [|z d] r H1 H2; cbn in *; try congruence.
      destruct (c x y) eqn:E1; destruct (c y z) eqn:E2; cbn in H1, H2.
      + rewrite (g_trans c G x y z Eq E1 E2). cbn. eapply IH; eauto.
      + rewrite (g_eq_l c G x y z E1), E2. exact H2.
      + rewrite (g_eq_l c G x y z E1), E2. exact H2.
      + rewrite <- (g_eq_r c G y z x E2), E1. exact H1.
      + rewrite (g_trans c G x y z Lt E1 E2). exact H1.
      + congruence.
      + rewrite <- (g_eq_r c G y z x E2), E1. exact H1.
      + congruence.
      + rewrite (g_trans c G x y z Gt E1 E2). exact H1.
    - intros a; induction a as [|x a IH]; intros [|y b] [|z d] H; cbn in *; try congruence.
      apply lexc_eq in H as [H1 H2].
      rewrite (g_eq_l c G x y z H1), (IH b d H2). reflexivity.
  Qed.
End ListLex.
