(* Association lists keyed by Z, kept sorted by key so that they print in the canonical order
   the harness uses (maps are printed sorted by key). Used by the models of C14, C18, C19.
   Only total computable definitions and their rewriting lemmas; no axioms. *)
From Coq Require Import List ZArith Lia Bool.
Import ListNotations.
Local Open Scope Z_scope.

Section AList.
  Context {V : Type}.
  Definition amap := list (Z * V).

  Fixpoint aget (m : amap) (k : Z) : option V :=
    match m with
    | [] => None
    | (k', v) :: r => if k' =? k then Some v else aget r k
    end.

  (* insert or replace, keeping ascending key order *)
  Fixpoint aset (m : amap) (k : Z) (v : V) : amap :=
    match m with
    | [] => [(k, v)]
    | (k', v') :: r =>
        if k =? k' then (k, v) :: r
        else if k <? k' then (k, v) :: (k', v') :: r
        else (k', v') :: aset r k v
    end.

  Fixpoint adel (m : amap) (k : Z) : amap :=
    match m with
    | [] => []
    | (k', v') :: r => if k' =? k then adel r k else (k', v') :: adel r k
    end.

  Lemma aget_aset m k v k' : aget (aset m k v) k' = if k =? k' then Some v else aget m k'.
  Proof.
    induction m as [|[a b] r IH]; cbn [aset aget].
    - reflexivity.
    - destruct (k =? a) eqn:E1.
      + apply Z.eqb_eq in E1; subst a. cbn [aget]. destruct (k =? k'); reflexivity.
      + destruct (k <? a) eqn:E2; cbn [aget].
        * destruct (k =? k'); reflexivity.
        * rewrite IH. destruct (a =? k') eqn:E3; [|reflexivity].
          apply Z.eqb_eq in E3; subst a. rewrite E1. reflexivity.
  Qed.

  Lemma aget_aset_eq m k v : aget (aset m k v) k = Some v.
  Proof. rewrite aget_aset, Z.eqb_refl; reflexivity. Qed.

  Lemma aget_aset_ne m k v k' : k <> k' -> aget (aset m k v) k' = aget m k'.
  Proof. intros H; rewrite aget_aset. destruct (Z.eqb_spec k k'); [contradiction|reflexivity]. Qed.

  Lemma aget_adel m k k' : aget (adel m k) k' = if k =? k' then None else aget m k'.
  Proof.
    induction m as [|[a b] r IH]; cbn [adel aget].
    - destruct (k =? k'); reflexivity.
    - destruct (a =? k) eqn:E1.
      + apply Z.eqb_eq in E1; subst a. rewrite IH. destruct (k =? k'); reflexivity.
      + cbn [aget]. rewrite IH. destruct (a =? k') eqn:E2; [|reflexivity].
        apply Z.eqb_eq in E2; subst a. rewrite Z.eqb_sym, E1. reflexivity.
  Qed.

  Lemma aget_adel_eq m k : aget (adel m k) k = None.
  Proof. rewrite aget_adel, Z.eqb_refl; reflexivity. Qed.

  Lemma aget_adel_ne m k k' : k <> k' -> aget (adel m k) k' = aget m k'.
  Proof. intros H; rewrite aget_adel. destruct (Z.eqb_spec k k'); [contradiction|reflexivity]. Qed.

  Lemma aget_In m k v : aget m k = Some v -> In (k, v) m.
  Proof.
    induction m as [|[a b] r IH]; cbn [aget]; [discriminate|].
    destruct (Z.eqb_spec a k); [intros H; inversion H; subst; left; reflexivity | intros H; right; auto].
  Qed.

  Lemma In_aget m k v : In (k, v) m -> exists v', aget m k = Some v'.
  Proof.
    induction m as [|[a b] r IH]; cbn [aget]; [contradiction|].
    intros [H|H]; [inversion H; subst; rewrite Z.eqb_refl; eauto|].
    destruct (a =? k); eauto.
  Qed.

  Definition akeys (m : amap) : list Z := map fst m.
End AList.
Arguments amap V : clear implicits.
