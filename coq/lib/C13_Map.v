(* Sorted association lists as finite maps: lookup after insert / delete / filter / value map,
   extensionality, and the effect of applying a list of writes.  Generic in the key comparison
   (a "good" comparison of lib/C12_Order.v whose Eq is equality).  No axioms. *)
From Coq Require Import List Bool Sorting.Sorted.
From PDV Require Import lib.C12_Order.
Import ListNotations.

Section AMapDefs.
  Context {K V : Type} (cmp : K -> K -> comparison).
  Fixpoint aget (k : K) (m : list (K * V)) : option V :=
    match m with
    | [] => None
    | (k', v) :: r => match cmp k k' with Eq => Some v | _ => aget k r end
    end.
  Fixpoint aset (k : K) (v : V) (m : list (K * V)) : list (K * V) :=
    match m with
    | [] => [(k, v)]
    | (k', v') :: r => match cmp k k' with
                       | Lt => (k, v) :: m
                       | Eq => (k, v) :: r
                       | Gt => (k', v') :: aset k v r
                       end
    end.
  Fixpoint adel (k : K) (m : list (K * V)) : list (K * V) :=
    match m with
    | [] => []
    | (k', v') :: r => match cmp k k' with Eq => r | _ => (k', v') :: adel k r end
    end.
End AMapDefs.

Section AMap.
  Context {K : Type} (cmp : K -> K -> comparison) (G : good cmp).
  Hypothesis cmp_eq : forall a b, cmp a b = Eq -> a = b.

  Definition klt (a b : K) : Prop := cmp a b = Lt.
  Definition asorted {V} (m : list (K * V)) : Prop := StronglySorted (fun a b => klt (fst a) (fst b)) m.
  Definition keqb (a b : K) : bool := match cmp a b with Eq => true | _ => false end.

  Lemma keqb_eq a b : keqb a b = true <-> a = b.
  Proof.
    unfold keqb. split.
    - destruct (cmp a b) eqn:E; try discriminate. intros _. apply cmp_eq; exact E.
    - intros ->. rewrite (g_refl cmp G). reflexivity.
  Qed.
  Lemma keqb_sym a b : keqb a b = keqb b a.
  Proof.
    destruct (keqb a b) eqn:E1; destruct (keqb b a) eqn:E2; try reflexivity.
    - apply keqb_eq in E1. subst. rewrite (proj2 (keqb_eq b b) eq_refl) in E2. discriminate.
    - apply keqb_eq in E2. subst. rewrite (proj2 (keqb_eq a a) eq_refl) in E1. discriminate.
  Qed.

  Section V.
    Context {V : Type}.
    Implicit Types m : list (K * V).

    Lemma aget_lt_all k m : (forall x, In x m -> klt k (fst x)) -> aget cmp k m = None.
    Proof.
      induction m as [|[k' v'] r IH]; intros H; cbn; [reflexivity|].
      pose proof (H (k', v') (or_introl eq_refl)) as E. cbn in E. unfold klt in E. rewrite E.
      apply IH. intros x Hx. apply H. right; exact Hx.
    Qed.

    Lemma aget_gt_all k m : (forall x, In x m -> klt (fst x) k) -> aget cmp k m = None.
    Proof.
      induction m as [|[k' v'] r IH]; intros H; cbn; [reflexivity|].
      pose proof (H (k', v') (or_introl eq_refl)) as E. cbn in E. unfold klt in E.
      rewrite (g_anti cmp G k' k), E. cbn. apply IH. intros x Hx. apply H. right; exact Hx.
    Qed.

    Lemma aset_gt_all k v m : (forall x, In x m -> klt (fst x) k) -> aset cmp k v m = m ++ [(k, v)].
    Proof.
      induction m as [|[k' v'] r IH]; intros H; cbn; [reflexivity|].
      pose proof (H (k', v') (or_introl eq_refl)) as E. cbn in E. unfold klt in E.
      rewrite (g_anti cmp G k' k), E. cbn. f_equal. apply IH. intros x Hx. apply H. right; exact Hx.
    Qed.

    Lemma aget_In k v m : aget cmp k m = Some v -> In (k, v) m.
    Proof.
      induction m as [|[k' v'] r IH]; cbn; [discriminate|].
      destruct (cmp k k') eqn:E; [|right; auto|right; auto].
      intros H. inversion H; subst. apply cmp_eq in E. subst. left; reflexivity.
    Qed.

    Lemma In_aget k v m : asorted m -> In (k, v) m -> aget cmp k m = Some v.
    Proof.
      induction 1 as [|[k' v'] r S IH F]; intros Hin; [destruct Hin|].
      rewrite Forall_forall in F. cbn. destruct Hin as [E|Hin].
      - inversion E; subst. rewrite (g_refl cmp G). reflexivity.
      - pose proof (F _ Hin) as L. cbn in L. unfold klt in L.
        rewrite (g_anti cmp G k' k), L. cbn. apply IH; exact Hin.
    Qed.

    Lemma aset_In k v m x : In x (aset cmp k v m) -> x = (k, v) \/ In x m.
    Proof.
      induction m as [|[k' v'] r IH]; cbn; [intros [H|[]]; left; symmetry; exact H|].
      destruct (cmp k k'); cbn.
      - intros [H|H]; [left; symmetry; exact H|right; right; exact H].
      - intros [H|H]; [left; symmetry; exact H|right; exact H].
      - intros [H|H]; [right; left; exact H|]. destruct (IH H) as [E|E]; [left; exact E|right; right; exact E].
    Qed.

    Lemma aset_sorted k v m : asorted m -> asorted (aset cmp k v m).
    Proof.
      induction 1 as [|[k' v'] r S IH F]; cbn; [repeat constructor|].
      rewrite Forall_forall in F.
      destruct (cmp k k') eqn:E.
      - apply cmp_eq in E. subst k'. constructor; [exact S|]. rewrite Forall_forall. exact F.
      - constructor; [constructor; [exact S|rewrite Forall_forall; exact F]|].
        rewrite Forall_forall. intros x [<-|Hx]; [exact E|]. cbn. unfold klt.
        eapply (g_trans cmp G); [exact E|apply (F x Hx)].
      - constructor; [exact IH|]. rewrite Forall_forall. intros x Hx. apply aset_In in Hx as [->|Hx]; [|apply F; exact Hx].
        cbn. apply (g_gt_lt cmp G). exact E.
    Qed.

    Lemma aget_aset k v m k' : asorted m -> aget cmp k' (aset cmp k v m) = if keqb k' k then Some v else aget cmp k' m.
    Proof.
      induction 1 as [|[k0 v0] r S IH F]; cbn.
      - unfold keqb. destruct (cmp k' k); reflexivity.
      - rewrite Forall_forall in F. destruct (cmp k k0) eqn:E; cbn.
        + apply cmp_eq in E. subst k0. unfold keqb. destruct (cmp k' k); reflexivity.
        + unfold keqb. destruct (cmp k' k); reflexivity.
        + rewrite IH. unfold keqb. destruct (cmp k' k) eqn:E1; try reflexivity.
          apply cmp_eq in E1. subst k'. rewrite E. reflexivity.
    Qed.

    Lemma adel_sub k m x : In x (adel cmp k m) -> In x m.
    Proof.
      induction m as [|[k' v'] r IH]; cbn; [tauto|].
      destruct (cmp k k'); cbn; [auto| |]; (intros [H|H]; [left; exact H|right; apply IH; exact H]).
    Qed.

    Lemma adel_sorted k m : asorted m -> asorted (adel cmp k m).
    Proof.
      induction 1 as [|[k' v'] r S IH F]; cbn; [constructor|].
      destruct (cmp k k'); [exact S| |]; (constructor; [exact IH|]; rewrite Forall_forall in *; intros x Hx; apply F; eapply adel_sub; exact Hx).
    Qed.

    Lemma aget_adel k m k' : asorted m -> aget cmp k' (adel cmp k m) = if keqb k' k then None else aget cmp k' m.
    Proof.
      induction 1 as [|[k0 v0] r S IH F]; cbn.
      - destruct (keqb k' k); reflexivity.
      - rewrite Forall_forall in F. destruct (cmp k k0) eqn:E; cbn.
        + apply cmp_eq in E. subst k0. unfold keqb. destruct (cmp k' k) eqn:E1; try reflexivity.
          apply cmp_eq in E1. subst k'. apply aget_lt_all. exact F.
        + rewrite IH. unfold keqb. destruct (cmp k' k) eqn:E1; try reflexivity.
          apply cmp_eq in E1. subst k'. rewrite E. reflexivity.
        + rewrite IH. unfold keqb. destruct (cmp k' k) eqn:E1; try reflexivity.
          apply cmp_eq in E1. subst k'. rewrite E. reflexivity.
    Qed.

    Lemma asorted_ext m1 : forall m2, asorted m1 -> asorted m2 -> (forall k, aget cmp k m1 = aget cmp k m2) -> m1 = m2.
    Proof.
      induction m1 as [|[k1 v1] r1 IH]; intros m2 S1 S2 H.
      - destruct m2 as [|[k2 v2] r2]; [reflexivity|]. specialize (H k2). cbn in H. rewrite (g_refl cmp G) in H. discriminate.
      - destruct m2 as [|[k2 v2] r2]; [specialize (H k1); cbn in H; rewrite (g_refl cmp G) in H; discriminate|].
        inversion S1 as [|? ? S1' F1]; inversion S2 as [|? ? S2' F2]; subst. rewrite Forall_forall in F1, F2.
        assert (Ek : k1 = k2).
        { pose proof (H k1) as H1. pose proof (H k2) as H2. cbn in H1, H2. rewrite (g_refl cmp G) in H1, H2.
          destruct (cmp k1 k2) eqn:E; [apply cmp_eq; exact E| |].
          - (* k1 < k2: k1 is not in m2 *)
            rewrite (aget_lt_all k1 r2) in H1; [discriminate|].
            intros x Hx. unfold klt. eapply (g_trans cmp G); [exact E|apply (F2 x Hx)].
          - apply (g_gt_lt cmp G) in E. rewrite E in H2.
            rewrite (aget_lt_all k2 r1) in H2; [discriminate|].
            intros x Hx. unfold klt. eapply (g_trans cmp G); [exact E|apply (F1 x Hx)]. }
        subst k2. pose proof (H k1) as H1. cbn in H1. rewrite (g_refl cmp G) in H1. inversion H1; subst v2.
        f_equal. apply IH; [exact S1'|exact S2'|]. intros k. specialize (H k). cbn in H.
        destruct (cmp k k1) eqn:E; [|exact H|exact H].
        apply cmp_eq in E. subst k. rewrite (aget_lt_all k1 r1 F1), (aget_lt_all k1 r2 F2). reflexivity.
    Qed.

    Lemma filter_asorted (p : K * V -> bool) m : asorted m -> asorted (filter p m).
    Proof.
      induction 1 as [|x r S IH F]; cbn; [constructor|]. destruct (p x); [|exact IH].
      constructor; [exact IH|]. rewrite Forall_forall in *. intros y Hy. apply filter_In in Hy as [Hy _]. apply F; exact Hy.
    Qed.

    Lemma aget_filter (p : K * V -> bool) m k : asorted m ->
      aget cmp k (filter p m) = match aget cmp k m with Some v => if p (k, v) then Some v else None | None => None end.
    Proof.
      induction 1 as [|[k0 v0] r S IH F]; cbn; [reflexivity|]. rewrite Forall_forall in F.
      destruct (cmp k k0) eqn:E.
      - apply cmp_eq in E. subst k0. destruct (p (k, v0)); cbn; [rewrite (g_refl cmp G); reflexivity|].
        apply aget_lt_all. intros x Hx. apply filter_In in Hx as [Hx _]. apply F; exact Hx.
      - destruct (p (k0, v0)); cbn; [rewrite E|]; exact IH.
      - destruct (p (k0, v0)); cbn; [rewrite E|]; exact IH.
    Qed.
  End V.

  Lemma aget_map_vals {V W} (f : V -> W) (m : list (K * V)) k :
    aget cmp k (map (fun kv => (fst kv, f (snd kv))) m) = option_map f (aget cmp k m).
  Proof.
    induction m as [|[k0 v0] r IH]; cbn; [reflexivity|]. destruct (cmp k k0); [reflexivity|exact IH|exact IH].
  Qed.
  Lemma map_vals_asorted {V W} (f : V -> W) (m : list (K * V)) :
    asorted m -> asorted (map (fun kv => (fst kv, f (snd kv))) m).
  Proof.
    induction 1 as [|x r S IH F]; cbn; [constructor|]. constructor; [exact IH|].
    rewrite Forall_forall in *. intros y Hy. apply in_map_iff in Hy as [z [<- Hz]]. cbn. apply F; exact Hz.
  Qed.

  (* applying a sorted list of writes (Some v = put, None = delete) *)
  Definition awrite {V} (m : list (K * V)) (e : K * option V) : list (K * V) :=
    match snd e with None => adel cmp (fst e) m | Some v => aset cmp (fst e) v m end.

  Lemma awrite_sorted {V} (m : list (K * V)) e : asorted m -> asorted (awrite m e).
  Proof. unfold awrite. destruct (snd e); [apply aset_sorted|apply adel_sorted]. Qed.

  Lemma aget_awrite {V} (m : list (K * V)) e k : asorted m ->
    aget cmp k (awrite m e) = if keqb k (fst e) then snd e else aget cmp k m.
  Proof.
    intros S. unfold awrite. destruct (snd e).
    - apply aget_aset; exact S.
    - apply aget_adel; exact S.
  Qed.

  Lemma fold_awrite_sorted {V} (L : list (K * option V)) : forall m : list (K * V), asorted m -> asorted (fold_left awrite L m).
  Proof. induction L as [|e L IH]; intros m S; [exact S|]. cbn. apply IH. apply awrite_sorted; exact S. Qed.

  Lemma aget_fold_awrite {V} (L : list (K * option V)) : forall (m : list (K * V)) k,
    asorted L -> asorted m ->
    aget cmp k (fold_left awrite L m) = match aget cmp k L with Some w => w | None => aget cmp k m end.
  Proof.
    induction L as [|[k0 w0] L IH]; intros m k SL Sm; [reflexivity|].
    inversion SL as [|? ? SL' F]; subst. rewrite Forall_forall in F.
    cbn [fold_left]. rewrite IH by (try exact SL'; apply awrite_sorted; exact Sm).
    rewrite aget_awrite by exact Sm. cbn [fst snd aget].
    unfold keqb. destruct (cmp k k0) eqn:E.
    - apply cmp_eq in E. subst k0. rewrite (aget_lt_all k L F). reflexivity.
    - destruct (aget cmp k L); reflexivity.
    - destruct (aget cmp k L); reflexivity.
  Qed.
End AMap.
