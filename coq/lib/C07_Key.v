(* C07/C06 — region keys: byte strings (list N) under bytes.Compare (lexicographic, a proper
   prefix is smaller).  The order is proved total once here; `korder` decides order goals.
   The code's conventions "empty start key = least" and "empty end key = +infinity" are NOT
   built into the order: they are kept literally in the models (`is_nil e || ...`). *)
From Coq Require Import List NArith ZArith Lia Bool Orders OrdersTac.
Import ListNotations.

Definition key := list N.

Fixpoint key_cmp (a b : key) : comparison :=
  match a, b with
  | [], [] => Eq
  | [], _ :: _ => Lt
  | _ :: _, [] => Gt
  | x :: a', y :: b' => match N.compare x y with Eq => key_cmp a' b' | c => c end
  end.

Definition key_ltb (a b : key) : bool := match key_cmp a b with Lt => true | _ => false end.
Definition key_leb (a b : key) : bool := match key_cmp a b with Gt => false | _ => true end.
Definition key_eqb (a b : key) : bool := match key_cmp a b with Eq => true | _ => false end.
Definition is_nil (a : key) : bool := match a with [] => true | _ => false end.

Lemma key_cmp_eq a b : key_cmp a b = Eq <-> a = b.
Proof.
  revert b; induction a as [|x a IH]; intros [|y b]; cbn; try (split; [discriminate|discriminate]); [tauto|].
  destruct (N.compare_spec x y) as [E|L|G].
  - subst. rewrite IH. split; [intros ->; reflexivity | intros H; inversion H; reflexivity].
  - split; [discriminate|]. intros H; inversion H; subst; lia.
  - split; [discriminate|]. intros H; inversion H; subst; lia.
Qed.

Lemma key_cmp_refl a : key_cmp a a = Eq.
Proof. apply key_cmp_eq; reflexivity. Qed.

Lemma key_cmp_antisym a b : key_cmp b a = CompOpp (key_cmp a b).
Proof.
  revert b; induction a as [|x a IH]; intros [|y b]; cbn; try reflexivity.
  rewrite (N.compare_antisym x y). destruct (N.compare x y); cbn; auto.
Qed.

Lemma key_cmp_lt_trans a b c : key_cmp a b = Lt -> key_cmp b c = Lt -> key_cmp a c = Lt.
Proof.
  revert b c; induction a as [|x a IH]; intros [|y b] [|z c]; cbn; try discriminate; auto.
  destruct (N.compare_spec x y) as [E|L|G]; try discriminate.
  - subst y. destruct (N.compare x z); try discriminate; auto. apply IH.
  - intros _. destruct (N.compare_spec y z) as [E2|L2|G2]; try discriminate.
    + subst z. intros _. destruct (N.compare_spec x y); try lia; reflexivity.
    + intros _. destruct (N.compare_spec x z); try lia; reflexivity.
Qed.

Module KeyOT <: EqLtLe.
  Definition t := key.
  Definition eq := @Logic.eq key.
  Definition lt (a b : key) := key_ltb a b = true.
  Definition le (a b : key) := key_leb a b = true.
End KeyOT.

Module KeyTO <: IsTotalOrder KeyOT.
  Definition eq_equiv : Equivalence KeyOT.eq := eq_equivalence.
  Lemma lt_strorder : StrictOrder KeyOT.lt.
  Proof.
    split.
    - intros a H. unfold KeyOT.lt, key_ltb in H. rewrite key_cmp_refl in H. discriminate.
    - intros a b c. unfold KeyOT.lt, key_ltb. intros H1 H2.
      destruct (key_cmp a b) eqn:E1; try discriminate. destruct (key_cmp b c) eqn:E2; try discriminate.
      rewrite (key_cmp_lt_trans _ _ _ E1 E2). reflexivity.
  Qed.
  Lemma lt_compat : Proper (KeyOT.eq ==> KeyOT.eq ==> iff) KeyOT.lt.
  Proof. intros a a' -> b b' ->. tauto. Qed.
  Lemma le_lteq : forall x y, KeyOT.le x y <-> KeyOT.lt x y \/ KeyOT.eq x y.
  Proof.
    intros x y. unfold KeyOT.le, KeyOT.lt, KeyOT.eq, key_leb, key_ltb. rewrite <- key_cmp_eq.
    destruct (key_cmp x y); split; intros H; try tauto; try congruence; destruct H; discriminate.
  Qed.
  Lemma lt_total : forall x y, KeyOT.lt x y \/ KeyOT.eq x y \/ KeyOT.lt y x.
  Proof.
    intros x y. unfold KeyOT.lt, KeyOT.eq, key_ltb. rewrite (key_cmp_antisym x y), <- key_cmp_eq.
    destruct (key_cmp x y); cbn; auto.
  Qed.
End KeyTO.

Module KeyOrder := !MakeOrderTac KeyOT KeyTO.

Notation klt := KeyOT.lt.
Notation kle := KeyOT.le.

Lemma key_ltb_spec a b : reflect (klt a b) (key_ltb a b).
Proof. unfold KeyOT.lt. destruct (key_ltb a b); constructor; congruence. Qed.
Lemma key_leb_spec a b : reflect (kle a b) (key_leb a b).
Proof. unfold KeyOT.le. destruct (key_leb a b); constructor; congruence. Qed.
Lemma key_eqb_spec a b : reflect (a = b) (key_eqb a b).
Proof.
  unfold key_eqb. destruct (key_cmp a b) eqn:E; constructor.
  - apply key_cmp_eq; exact E.
  - intros ->. rewrite key_cmp_refl in E. discriminate.
  - intros ->. rewrite key_cmp_refl in E. discriminate.
Qed.
Lemma is_nil_spec a : reflect (a = []) (is_nil a).
Proof. destruct a; constructor; congruence. Qed.

Lemma nil_kle a : kle [] a.
Proof. unfold KeyOT.le. destruct a; reflexivity. Qed.
Lemma not_klt_nil a : ~ klt a [].
Proof. unfold KeyOT.lt. destruct a; cbn; discriminate. Qed.

(* korder: reflect every boolean key comparison in the context / goal, then decide. *)
Ltac kreflect :=
  repeat match goal with
  | H : context [key_ltb ?a ?b] |- _ => destruct (key_ltb_spec a b)
  | |- context [key_ltb ?a ?b] => destruct (key_ltb_spec a b)
  | H : context [key_leb ?a ?b] |- _ => destruct (key_leb_spec a b)
  | |- context [key_leb ?a ?b] => destruct (key_leb_spec a b)
  | H : context [key_eqb ?a ?b] |- _ => destruct (key_eqb_spec a b)
  | |- context [key_eqb ?a ?b] => destruct (key_eqb_spec a b)
  end.

Ltac korder := unfold KeyOT.eq in *; KeyOrder.order.
