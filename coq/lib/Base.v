(* Shared definitions: execution of labelled transition systems, the generic
   invariant theorem every interleaving/history property is an instance of, and the
   comparison helpers used by the correspondence case files. No axioms. *)
From Coq Require Export List ZArith Lia Bool.
Export ListNotations.

Section Exec.
  Context {S L : Type} (step : S -> L -> option S).

  (* Disabled labels are skipped: a label list is a schedule, not a promise. *)
  Fixpoint exec (s : S) (ls : list L) : S :=
    match ls with
    | [] => s
    | l :: r => match step s l with Some s' => exec s' r | None => exec s r end
    end.

  Theorem invariant_exec (I : S -> Prop) :
    (forall s l s', I s -> step s l = Some s' -> I s') ->
    forall ls s, I s -> I (exec s ls).
  Proof.
    intros Hstep ls; induction ls as [|l r IH]; intros s Hs; cbn [exec]; [exact Hs|].
    destruct (step s l) as [s'|] eqn:E; [apply IH; eapply Hstep; eauto | apply IH; exact Hs].
  Qed.

  Lemma exec_app s l1 l2 : exec s (l1 ++ l2) = exec (exec s l1) l2.
  Proof.
    revert s; induction l1 as [|l r IH]; intros s; cbn [exec app]; [reflexivity|].
    destruct (step s l); apply IH.
  Qed.

  Inductive reachable (s0 : S) : S -> Prop :=
  | reach_init : reachable s0 s0
  | reach_step s l s' : reachable s0 s -> step s l = Some s' -> reachable s0 s'.

  Theorem invariant_reachable (I : S -> Prop) s0 :
    I s0 -> (forall s l s', I s -> step s l = Some s' -> I s') ->
    forall s, reachable s0 s -> I s.
  Proof. intros H0 Hs s R; induction R; eauto. Qed.

  Lemma exec_reachable s0 ls : reachable s0 (exec s0 ls).
  Proof.
    assert (G : forall ls s, reachable s0 s -> reachable s0 (exec s ls)).
    { clear ls. intros ls; induction ls as [|l r IH]; intros s R; cbn [exec]; [exact R|].
      destruct (step s l) eqn:E; [apply IH; econstructor; eauto | apply IH; exact R]. }
    apply G; constructor.
  Qed.
End Exec.

(* Sequential machines: run with observations. *)
Section Run.
  Context {S O B : Type} (step : S -> O -> S * B).
  Fixpoint run (s : S) (ops : list O) : list B :=
    match ops with
    | [] => []
    | o :: r => let '(s', b) := step s o in b :: run s' r
    end.
  Fixpoint run_state (s : S) (ops : list O) : S :=
    match ops with [] => s | o :: r => run_state (fst (step s o)) r end.
End Run.

(* Correspondence: positions where model and implementation observations differ. *)
Section Mismatch.
  Context {B : Type} (beq : B -> B -> bool).
  Fixpoint diff_at (n : nat) (exp got : list B) : list (nat * option B * option B) :=
    match exp, got with
    | [], [] => []
    | e :: er, g :: gr => if beq e g then diff_at (S n) er gr else [(n, Some e, Some g)]
    | e :: _, [] => [(n, Some e, None)]
    | [], g :: _ => [(n, None, Some g)]
    end.
  Lemma diff_at_nil n exp got :
    (forall a b, beq a b = true -> a = b) -> diff_at n exp got = [] -> exp = got.
  Proof.
    intros Hb; revert n got; induction exp as [|e er IH]; intros n [|g gr]; cbn; try discriminate; auto.
    destruct (beq e g) eqn:E; [|discriminate]. intros H; f_equal; [apply Hb; exact E | eapply IH; exact H].
  Qed.
End Mismatch.

Fixpoint number_from {A} (n : nat) (l : list A) : list (nat * A) :=
  match l with [] => [] | a :: r => (n, a) :: number_from (S n) r end.

Definition opt_eqb {A} (eqb : A -> A -> bool) (a b : option A) : bool :=
  match a, b with Some x, Some y => eqb x y | None, None => true | _, _ => false end.

Fixpoint list_eqb {A} (eqb : A -> A -> bool) (a b : list A) : bool :=
  match a, b with
  | [], [] => true
  | x :: xs, y :: ys => eqb x y && list_eqb eqb xs ys
  | _, _ => false
  end.

Lemma list_eqb_eq {A} (eqb : A -> A -> bool) :
  (forall a b, eqb a b = true -> a = b) -> forall a b, list_eqb eqb a b = true -> a = b.
Proof.
  intros H a; induction a as [|x xs IH]; intros [|y ys]; cbn; try discriminate; auto.
  intros E; apply andb_true_iff in E as [E1 E2]; f_equal; auto.
Qed.

(* boolean NoDup on Z lists, used by monitors *)
Fixpoint memZ (x : Z) (l : list Z) : bool :=
  match l with [] => false | y :: r => (x =? y)%Z || memZ x r end.
Fixpoint nodupZ (l : list Z) : bool :=
  match l with [] => true | x :: r => negb (memZ x r) && nodupZ r end.
Lemma memZ_In x l : memZ x l = true <-> In x l.
Proof.
  induction l as [|y r IH]; cbn; [split; [discriminate|tauto]|].
  rewrite orb_true_iff, IH, Z.eqb_eq; split; intros [H|H]; auto.
Qed.
Lemma nodupZ_NoDup l : nodupZ l = true <-> NoDup l.
Proof.
  induction l as [|x r IH]; cbn; [split; [constructor|reflexivity]|].
  rewrite andb_true_iff, negb_true_iff, IH; split.
  - intros [H1 H2]; constructor; [rewrite <- memZ_In; congruence|exact H2].
  - intros H; inversion H as [|? ? H1 H2]; subst; split; [|exact H2].
    destruct (memZ x r) eqn:E; [apply memZ_In in E; contradiction|reflexivity].
Qed.
