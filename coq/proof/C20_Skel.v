(* Structural obligations on the code as it is now (regenerated gen/Gen_C20.v): model/C20_Bootstrap.v
   was written against exactly these skeletons, comparison lists, put lists, transaction chains and the
   handler table.  Dropping the CreateRevision comparison, the Else(OpGet), moving a put out of the
   transaction, reordering the checks of checkBootstrapRequest, or removing a handler's validation breaks a
   `reflexivity` here (and handler_table_ok in proof/C20_BootstrapProof.v). *)
From PDV Require Import lib.Skel gen.Gen_C20.

Lemma skel_Bootstrap_ok : skel_Bootstrap =
  [IfE "!s.isLocalRequest(forwardedHost)" [IfE "err != nil" [Ret] []; Ret] []; Call "validateRequest"; IfE "err != nil" [Ret] []; Call "GetRaftCluster"; IfE "rc != nil" [Ret] []; Call "bootstrapCluster"; IfE "err != nil" [Ret] []; Ret].
Proof. reflexivity. Qed.

Lemma skel_IsBootstrapped_ok : skel_IsBootstrapped =
  [IfE "!s.isLocalRequest(forwardedHost)" [IfE "err != nil" [Ret] []; Ret] []; Call "validateRequest"; IfE "err != nil" [Ret] []; Call "GetRaftCluster"; Ret].
Proof. reflexivity. Qed.

Lemma skel_validateRequest_ok : skel_validateRequest =
  [Call "IsClosed"; Call "IsLeader"; IfE "s.IsClosed() || !s.member.IsLeader()" [Ret] []; IfE "header.GetClusterId() != s.clusterID" [Ret] []; Ret].
Proof. reflexivity. Qed.

Lemma skel_bootstrapCluster_ok : skel_bootstrapCluster =
  [Assign "clusterID" ":= s.clusterID"; Call "checkBootstrapRequest"; IfE "err != nil" [Ret] []; IfE "err != nil" [Ret] []; Call "OpPut"; Assign "ops" "= append(ops, clientv3.OpPut(clusterRootPath, string(clusterValue)))"; Call "OpPut"; Assign "ops" "= append(ops, clientv3.OpPut(bootstrapKey, string(timeData)))"; IfE "err != nil" [Ret] []; Call "OpPut"; Assign "ops" "= append(ops, clientv3.OpPut(storePath, string(storeValue)))"; IfE "err != nil" [Ret] []; Call "OpPut"; Assign "ops" "= append(ops, clientv3.OpPut(regionPath, string(regionValue)))"; Call "Compare"; Call "NewSlowLogTxn"; Call "If"; Call "Then"; Call "Commit"; IfE "err != nil" [Ret] []; IfE "!resp.Succeeded" [Ret] []; Call "SaveRegion"; Call "Flush"; Call "Start"; IfE "err != nil" [Ret] []; Ret].
Proof. reflexivity. Qed.

Lemma skel_initClusterID_ok : skel_initClusterID =
  [Call "EtcdKVGet"; IfE "err != nil" [Ret] []; IfE "len(resp.Kvs) == 0" [Call "initOrGetClusterID"; Assign "s.clusterID" "= initOrGetClusterID(s.client, pdClusterIDPath)"; Ret] []; Call "BytesToUint64"; Assign "s.clusterID" "= typeutil.BytesToUint64(resp.Kvs[0].Value)"; Ret].
Proof. reflexivity. Qed.

Lemma skel_GetRaftCluster_ok : skel_GetRaftCluster =
  [Call "IsClosed"; Call "IsRunning"; IfE "s.IsClosed() || !s.cluster.IsRunning()" [Ret] []; Ret].
Proof. reflexivity. Qed.

Lemma skel_initOrGetClusterID_ok : skel_initOrGetClusterID =
  [Assign "clusterID" ":= (ts << 32) + uint64(rand.Uint32())"; Call "Txn"; Call "Compare"; Call "If"; Call "OpPut"; Call "Then"; Call "OpGet"; Call "Else"; Call "Commit"; IfE "err != nil" [Ret] []; IfE "resp.Succeeded" [Ret] []; IfE "len(resp.Responses) == 0" [Ret] []; IfE "response == nil || len(response.Kvs) != 1" [Ret] []; Call "BytesToUint64"; Ret].
Proof. reflexivity. Qed.

Lemma bootstrap_checks_ok : bootstrap_checks =
  [IfE "storeMeta == nil" [Ret] [IfE "storeMeta.GetId() == 0" [Ret] []]; IfE "regionMeta == nil" [Ret] [IfE "len(regionMeta.GetStartKey()) > 0 || len(regionMeta.GetEndKey()) > 0" [Ret] [IfE "regionMeta.GetId() == 0" [Ret] []]]; IfE "len(peers) != 1" [Ret] []; IfE "peer.GetStoreId() != storeMeta.GetId()" [Ret] []; IfE "peer.GetId() == 0" [Ret] []; Ret].
Proof. reflexivity. Qed.

Lemma bootstrap_cmps_ok : bootstrap_cmps =
  ["clientv3.CreateRevision(clusterRootPath) = 0"].
Proof. reflexivity. Qed.

Lemma bootstrap_puts_ok : bootstrap_puts =
  ["ops:clusterRootPath"; "ops:bootstrapKey"; "ops:storePath"; "ops:regionPath"].
Proof. reflexivity. Qed.

Lemma bootstrap_commits_ok : bootstrap_commits =
  ["kv.NewSlowLogTxn(s.client).If(bootstrapCmp).Then(ops...).Commit()"].
Proof. reflexivity. Qed.

Lemma clusterid_cmps_ok : clusterid_cmps =
  ["clientv3.CreateRevision(key) = 0"].
Proof. reflexivity. Qed.

Lemma clusterid_commits_ok : clusterid_commits =
  ["c.Txn(ctx). If(clientv3.Compare(clientv3.CreateRevision(key), ""="", 0)). Then(clientv3.OpPut(key, string(value))). Else(clientv3.OpGet(key)). Commit()"].
Proof. reflexivity. Qed.

Lemma handlers_ok : handlers =
  [("AllocID", ["validateRequest"]); ("AskBatchSplit", ["validateRequest"]); ("AskSplit", ["validateRequest"]); ("Bootstrap", ["validateRequest"]); ("GetAllStores", ["validateRequest"]); ("GetClusterConfig", ["validateRequest"]); ("GetDCLocationInfo", ["validateInternalRequest"]); ("GetGCSafePoint", ["validateRequest"]); ("GetMembers", []); ("GetOperator", ["validateRequest"]); ("GetPrevRegion", ["validateRequest"]); ("GetRegion", ["validateRequest"]); ("GetRegionByID", ["validateRequest"]); ("GetStore", ["validateRequest"]); ("IsBootstrapped", ["validateRequest"]); ("PutClusterConfig", ["validateRequest"]); ("PutStore", ["validateRequest"]); ("RegionHeartbeat", ["validateRequest"]); ("ReportBatchSplit", ["validateRequest"]); ("ReportSplit", ["validateRequest"]); ("ScanRegions", ["validateRequest"]); ("ScatterRegion", ["validateRequest"]); ("SplitRegions", ["validateRequest"]); ("StoreHeartbeat", ["validateRequest"]); ("SyncMaxTS", ["validateInternalRequest"]); ("SyncRegions", ["syncer"]); ("Tso", ["compare"]); ("UpdateGCSafePoint", ["validateRequest"]); ("UpdateServiceGCSafePoint", ["validateRequest"])].
Proof. reflexivity. Qed.

Lemma pre_validation_calls_ok : pre_validation_calls =
  [("AllocID", []); ("AskBatchSplit", []); ("AskSplit", []); ("Bootstrap", []); ("GetAllStores", []); ("GetClusterConfig", []); ("GetDCLocationInfo", []); ("GetGCSafePoint", []); ("GetMembers", ["IsClosed"; "GetClient"; "GetEtcdLeader"; "GetTSOAllocatorManager"; "GetLeader"; "header"; "<never validates>"]); ("GetOperator", []); ("GetPrevRegion", []); ("GetRegion", []); ("GetRegionByID", []); ("GetStore", []); ("IsBootstrapped", []); ("PutClusterConfig", []); ("PutStore", []); ("RegionHeartbeat", ["Recv"; "Context"; "GetRaftCluster"; "notBootstrappedHeader"; "Send"]); ("ReportBatchSplit", []); ("ReportSplit", []); ("ScanRegions", []); ("ScatterRegion", []); ("SplitRegions", []); ("StoreHeartbeat", []); ("SyncMaxTS", []); ("SyncRegions", []); ("Tso", ["Recv"; "Context"; "IsClosed"]); ("UpdateGCSafePoint", []); ("UpdateServiceGCSafePoint", ["Lock"; "Unlock"])].
Proof. reflexivity. Qed.

Lemma syncer_sync_conds_ok : syncer_sync_conds =
  ["err == io.EOF"; "err != nil"; "clusterID != s.server.ClusterID()"; "err != nil"].
Proof. reflexivity. Qed.
