(* Structural obligations on the code as it is now (regenerated gen/Gen_C20.v): model/C20_Bootstrap.v
   was written against exactly these skeletons, comparison lists, put lists, transaction chains and the
   handler table.  Dropping the CreateRevision comparison, the Else(OpGet), moving a put out of the
   transaction, reordering the checks of checkBootstrapRequest, or removing a handler's validation breaks a
   `reflexivity` here (and handler_table_ok in proof/C20_BootstrapProof.v). *)
From Coq Require Import ZArith.
From PDV Require Import lib.Skel gen.Gen_C20.

Lemma skel_Bootstrap_ok : skel_Bootstrap =
  [IfE "!v0.isLocalRequest(v3)" [Assign "v4" ":= v0.getDelegateClient(v1, v3)"; Assign "v5" ":= v0.getDelegateClient(v1, v3)"; IfE "v5 != nil" [Ret] []; Assign "v1" "= grpcutil.ResetForwardContext(v1)"; Ret] []; Call "validateRequest"; Assign "v5" ":= v0.validateRequest(v2.GetHeader())"; IfE "v5 != nil" [Ret] []; Call "GetRaftCluster"; IfE "v6 != nil" [Assign "v5" ":= &pdpb.Error{ Type: pdpb.ErrorType_ALREADY_BOOTSTRAPPED, Message: ""cluster is already bootstrapped"", }"; Ret] []; Call "bootstrapCluster"; Assign "v5" ":= v0.bootstrapCluster(v2)"; IfE "v5 != nil" [Ret] []; Ret].
Proof. reflexivity. Qed.

Lemma skel_IsBootstrapped_ok : skel_IsBootstrapped =
  [IfE "!v0.isLocalRequest(v3)" [Assign "v4" ":= v0.getDelegateClient(v1, v3)"; Assign "v5" ":= v0.getDelegateClient(v1, v3)"; IfE "v5 != nil" [Ret] []; Assign "v1" "= grpcutil.ResetForwardContext(v1)"; Ret] []; Call "validateRequest"; Assign "v5" ":= v0.validateRequest(v2.GetHeader())"; IfE "v5 != nil" [Ret] []; Call "GetRaftCluster"; Ret].
Proof. reflexivity. Qed.

Lemma skel_validateRequest_ok : skel_validateRequest =
  [Call "IsClosed"; Call "IsLeader"; IfE "v0.IsClosed() || !v0.member.IsLeader()" [Ret] []; IfE "v1.GetClusterId() != v0.clusterID" [Ret] []; Ret].
Proof. reflexivity. Qed.

Lemma skel_bootstrapCluster_ok : skel_bootstrapCluster =
  [Assign "v2" ":= v0.clusterID"; Call "checkBootstrapRequest"; IfE "v3 != nil" [Ret] []; IfE "v3 != nil" [Ret] []; Call "OpPut"; Call "OpPut"; IfE "v3 != nil" [Ret] []; Call "OpPut"; IfE "v3 != nil" [Ret] []; Call "OpPut"; Call "Compare"; Call "NewSlowLogTxn"; Call "If"; Call "Then"; Call "Commit"; IfE "v3 != nil" [Ret] []; IfE "!v17.Succeeded" [Ret] []; Call "SaveRegion"; Call "Flush"; Call "Start"; IfE "v3 != nil" [Ret] []; Ret].
Proof. reflexivity. Qed.

Lemma skel_initClusterID_ok : skel_initClusterID =
  [Call "EtcdKVGet"; Assign "v2" ":= etcdutil.EtcdKVGet(v0.client, pdClusterIDPath)"; IfE "v2 != nil" [Ret] []; IfE "len(v1.Kvs) == 0" [Call "initOrGetClusterID"; Assign "v0.clusterID" "= initOrGetClusterID(v0.client, pdClusterIDPath)"; Assign "v2" "= initOrGetClusterID(v0.client, pdClusterIDPath)"; Ret] []; Call "BytesToUint64"; Assign "v0.clusterID" "= typeutil.BytesToUint64(v1.Kvs[0].Value)"; Assign "v2" "= typeutil.BytesToUint64(v1.Kvs[0].Value)"; Ret].
Proof. reflexivity. Qed.

Lemma skel_GetRaftCluster_ok : skel_GetRaftCluster =
  [Call "IsClosed"; Call "IsRunning"; IfE "v0.IsClosed() || !v0.cluster.IsRunning()" [Ret] []; Ret].
Proof. reflexivity. Qed.

Lemma skel_initOrGetClusterID_ok : skel_initOrGetClusterID =
  [Assign "v5" ":= (v4 << 32) + uint64(rand.Uint32())"; Call "Txn"; Call "Compare"; Call "If"; Call "OpPut"; Call "Then"; Call "OpGet"; Call "Else"; Call "Commit"; IfE "v8 != nil" [Ret] []; IfE "v7.Succeeded" [Ret] []; IfE "len(v7.Responses) == 0" [Ret] []; IfE "v9 == nil || len(v9.Kvs) != 1" [Ret] []; Call "BytesToUint64"; Ret].
Proof. reflexivity. Qed.

Lemma bootstrap_checks_ok : bootstrap_checks =
  [IfE "v2 == nil" [Ret] [IfE "v2.GetId() == 0" [Ret] []]; IfE "v3 == nil" [Ret] [IfE "len(v3.GetStartKey()) > 0 || len(v3.GetEndKey()) > 0" [Ret] [IfE "v3.GetId() == 0" [Ret] []]]; IfE "len(v4) != 1" [Ret] []; IfE "v5.GetStoreId() != v2.GetId()" [Ret] []; IfE "v5.GetId() == 0" [Ret] []; Ret].
Proof. reflexivity. Qed.

Lemma skel_Tso_ok : skel_Tso =
  [ForE [Call "Recv"; IfE "v6 == io.EOF" [Ret] []; IfE "v6 != nil" [Ret] []; IfE "!v0.isLocalRequest(v7)" [IfE "v2 == nil || v4 != v7" [IfE "v6 != nil" [Ret] []; IfE "v6 != nil" [Ret] []] []; IfE "v6 != nil" [Ret] []; Call "Recv"; IfE "v6 != nil" [Ret] []; IfE "v6 != nil" [Ret] []] []; Call "IsClosed"; IfE "v0.IsClosed()" [Ret] []; IfE "v5.GetHeader().GetClusterId() != v0.clusterID" [Ret] []; Call "HandleTSORequest"; IfE "v6 != nil" [Ret] []; IfE "v6 != nil" [Ret] []]].
Proof. reflexivity. Qed.

Lemma skel_RegionHeartbeat_ok : skel_RegionHeartbeat =
  [ForE [Call "Recv"; IfE "v10 == io.EOF" [Ret] []; IfE "v10 != nil" [Ret] []; IfE "!v0.isLocalRequest(v11)" [IfE "v4 == nil || v6 != v11" [IfE "v10 != nil" [Ret] []; IfE "v10 != nil" [Ret] []] []; IfE "v10 != nil" [Ret] []; SwitchE [[Ret]; []]] []; Call "GetRaftCluster"; IfE "v13 == nil" [Ret] []; Call "validateRequest"; IfE "v10 != nil" [Ret] []; IfE "v17 == nil" [Ret] []; Call "HandleRegionHeartbeat"]].
Proof. reflexivity. Qed.

Lemma skel_SyncerSync_ok : skel_SyncerSync =
  [ForE [Call "Recv"; IfE "v3 == io.EOF" [Ret] []; IfE "v3 != nil" [Ret] []; IfE "v4 != v0.server.ClusterID()" [Ret] []; Call "syncHistoryRegion"; IfE "v3 != nil" [Ret] []; Call "bindStream"]].
Proof. reflexivity. Qed.

Lemma skel_PutConfig_ok : skel_PutConfig =
  [Lock "v0"; DeferUnlock "v0"; Call "GetId"; IfE "v1.GetId() != v0.clusterID" [Ret] []; Call "Clone"; Call "putMetaLocked"; Ret].
Proof. reflexivity. Qed.

Lemma skel_putMetaLocked_ok : skel_putMetaLocked =
  [IfE "v0.storage != nil" [Call "SaveMeta"; Assign "v2" ":= v0.storage.SaveMeta(v1)"; IfE "v2 != nil" [Ret] []] []; Ret].
Proof. reflexivity. Qed.

Lemma bootstrap_cmps_ok : bootstrap_cmps =
  ["clientv3.CreateRevision(v6) = 0"].
Proof. reflexivity. Qed.

Lemma bootstrap_puts_ok : bootstrap_puts =
  ["THEN:v6"; "THEN:v8"; "THEN:v12"; "THEN:v15"].
Proof. reflexivity. Qed.

Lemma bootstrap_commits_ok : bootstrap_commits =
  ["kv.NewSlowLogTxn(v0.client).If(v16).Then(v7...).Commit()"].
Proof. reflexivity. Qed.

Lemma clusterid_cmps_ok : clusterid_cmps =
  ["clientv3.CreateRevision(v1) = 0"].
Proof. reflexivity. Qed.

Lemma clusterid_commits_ok : clusterid_commits =
  ["v0.Txn(v2). If(clientv3.Compare(clientv3.CreateRevision(v1), ""="", 0)). Then(clientv3.OpPut(v1, string(v6))). Else(clientv3.OpGet(v1)). Commit()"].
Proof. reflexivity. Qed.

Lemma handlers_ok : handlers =
  [("AllocID", ["validateRequest"]); ("AskBatchSplit", ["validateRequest"]); ("AskSplit", ["validateRequest"]); ("Bootstrap", ["validateRequest"]); ("GetAllStores", ["validateRequest"]); ("GetClusterConfig", ["validateRequest"]); ("GetDCLocationInfo", ["validateInternalRequest"]); ("GetGCSafePoint", ["validateRequest"]); ("GetMembers", []); ("GetOperator", ["validateRequest"]); ("GetPrevRegion", ["validateRequest"]); ("GetRegion", ["validateRequest"]); ("GetRegionByID", ["validateRequest"]); ("GetStore", ["validateRequest"]); ("IsBootstrapped", ["validateRequest"]); ("PutClusterConfig", ["validateRequest"]); ("PutStore", ["validateRequest"]); ("RegionHeartbeat", ["validateRequest"]); ("ReportBatchSplit", ["validateRequest"]); ("ReportSplit", ["validateRequest"]); ("ScanRegions", ["validateRequest"]); ("ScatterRegion", ["validateRequest"]); ("SplitRegions", ["validateRequest"]); ("StoreHeartbeat", ["validateRequest"]); ("SyncMaxTS", ["validateInternalRequest"]); ("SyncRegions", ["syncer"]); ("Tso", ["compare"]); ("UpdateGCSafePoint", ["validateRequest"]); ("UpdateServiceGCSafePoint", ["validateRequest"])].
Proof. reflexivity. Qed.

Lemma pre_validation_calls_ok : pre_validation_calls =
  [("AllocID", []); ("AskBatchSplit", []); ("AskSplit", []); ("Bootstrap", []); ("GetAllStores", []); ("GetClusterConfig", []); ("GetDCLocationInfo", []); ("GetGCSafePoint", []); ("GetMembers", ["IsClosed"; "GetClient"; "GetEtcdLeader"; "GetTSOAllocatorManager"; "GetLeader"; "header"; "<never validates>"]); ("GetOperator", []); ("GetPrevRegion", []); ("GetRegion", []); ("GetRegionByID", []); ("GetStore", []); ("IsBootstrapped", []); ("PutClusterConfig", []); ("PutStore", []); ("RegionHeartbeat", ["Recv"; "Context"; "GetRaftCluster"; "notBootstrappedHeader"; "Send"]); ("ReportBatchSplit", []); ("ReportSplit", []); ("ScanRegions", []); ("ScatterRegion", []); ("SplitRegions", []); ("StoreHeartbeat", []); ("SyncMaxTS", []); ("SyncRegions", []); ("Tso", ["Recv"; "Context"; "IsClosed"]); ("UpdateGCSafePoint", []); ("UpdateServiceGCSafePoint", ["Lock"; "Unlock"])].
Proof. reflexivity. Qed.

Lemma syncer_sync_conds_ok : syncer_sync_conds =
  ["v3 == io.EOF"; "v3 != nil"; "v4 != v0.server.ClusterID()"; "v3 != nil"].
Proof. reflexivity. Qed.

Lemma kv_request_timeout_ns_ok : kv_request_timeout_ns =
  (10000000000)%Z.
Proof. reflexivity. Qed.

Lemma skel_NewSlowLogTxn_ok : skel_NewSlowLogTxn =
  [Call "Ctx"; Call "WithTimeout"; Call "Txn"; Ret].
Proof. reflexivity. Qed.

Lemma slowlogtxn_timeouts_ok : slowlogtxn_timeouts =
  ["context.WithTimeout(v0.Ctx(), requestTimeout)"].
Proof. reflexivity. Qed.

Lemma skel_CheckClusterID_ok : skel_CheckClusterID =
  [IfE "len(v1) == 0" [Ret] []; ForE [Assign "v3" "= append(v3, v4.StringSlice()...)"]; ForE [Assign "v6" ":= &http.Transport{ TLSClientConfig: v2, }"; Call "GetClusterFromRemotePeers"; Assign "v7" ":= etcdserver.GetClusterFromRemotePeers(nil, []string{v5}, v6)"; Assign "v8" ":= etcdserver.GetClusterFromRemotePeers(nil, []string{v5}, v6)"; Call "ID"; Assign "v9" ":= v7.ID()"; IfE "v9 != v0" [Call "Errorf"; Ret] []]; Ret].
Proof. reflexivity. Qed.

Lemma check_cluster_id_flow_ok : check_cluster_id_flow =
  ["if len(v1) == 0"; "return"; "range v1"; "range v3"; "if v8 != nil"; "continue"; "if v9 != v0"; "return"; "return"].
Proof. reflexivity. Qed.

Lemma check_cluster_id_sites_ok : check_cluster_id_sites =
  ["server/server.go:startEtcd"].
Proof. reflexivity. Qed.

Lemma start_etcd_identity_check_ok : start_etcd_identity_check =
  ["etcdutil.CheckClusterID(v4.Server.Cluster().ID(), v6, v7)"].
Proof. reflexivity. Qed.
