(* C11 — proofs about the scatter model and the scheduler moves (model/C11_Scatter.v).
   All statements quantify over every cluster, every counter state (= every history of earlier scatter
   decisions, in every group), every region and EVERY processing order of the peers. *)
From Coq Require Import Permutation.
From PDV Require Import lib.C10_Cluster lib.C10_StepFacts gen.Gen_C11 model.C11_Scatter proof.C11_Tables.
Local Open Scope list_scope.
Local Open Scope Z_scope.

(* ---------- elementary facts about the selection functions ---------- *)
Lemma choices_in cands g src c : In c (choices cands g src) -> c = src \/ In c cands.
Proof.
  unfold choices. destruct cands as [|x r]; [cbn; intros [H|[]]; auto|].
  destruct (memZ src (x :: r) && (g src <=? min_count g (x :: r))).
  - cbn. intros [H|[]]; auto.
  - intros H. apply filter_In in H as [H _]. right; exact H.
Qed.

Lemma select_candidates_in stores e g guard sel excl c :
  In c (select_candidates stores e g guard sel excl) ->
  ~ In c sel /\ ~ In c excl /\ exists s, In s stores /\ sid s = c /\ sft Gen_C11.scatter_flags s = true /\ e s = true /\ guard c = true.
Proof.
  unfold select_candidates. intros H. apply in_map_iff in H as (s & <- & H). apply filter_In in H as [Hin H].
  apply andb_true_iff in H as [H Hg]. apply andb_true_iff in H as [H Hf]. apply andb_true_iff in H as [H He].
  apply andb_true_iff in H as [H Hx]. apply andb_true_iff in H as [_ Hs].
  apply negb_true_iff in Hx. apply negb_true_iff in Hs.
  repeat split.
  - intros X. apply memZ_In in X. congruence.
  - intros X. apply memZ_In in X. congruence.
  - exists s. repeat split; assumption.
Qed.

Section Run.
  Variable stores : list store.
  Variable grp : Z.
  Variable guard : Z -> Z -> bool.
  Variable rs : list Z.
  Variable e : store -> bool.
  Variable g : gdist.

  Lemma peer_choices_in a p c :
    In c (peer_choices stores grp guard rs e g a p) ->
    c = p_store p \/ (~ In c (a_selected a) /\ ~ In c (others rs (p_store p))).
  Proof.
    unfold peer_choices. destruct (find_store stores (p_store p)); [|cbn; intros [H|[]]; auto].
    intros H. apply choices_in in H as [H|H]; [left; exact H|right].
    apply select_candidates_in in H as (H1 & H2 & _). split; assumption.
  Qed.

  (* ---------- clash-free runs keep every peer ---------- *)
  Definition tidy (a : acc) (done : list peer) : Prop :=
    map fst (a_targets a) = rev (a_selected a) /\ NoDup (a_selected a) /\ map snd (a_targets a) = map p_role done.

  Lemma set_target_fresh t s r : ~ In s (map fst t) -> set_target t s r = t ++ [(s, r)].
  Proof.
    induction t as [|[k v] t IH]; cbn; intros H; [reflexivity|].
    destruct (k =? s) eqn:E; [apply Z.eqb_eq in E; exfalso; apply H; left; exact E|].
    f_equal. apply IH. intros X; apply H; right; exact X.
  Qed.

  Lemma run_order_tidy order : forall a done out,
    In out (run_order stores grp guard rs e g a order) ->
    a_clash out = false ->
    (a_clash a = false -> tidy a done) ->
    a_clash a = false /\ tidy out (done ++ order).
  Proof.
    induction order as [|p rest IH]; intros a done out Hin Hc Ht; cbn [run_order] in Hin.
    - destruct Hin as [<-|[]]. split; [exact Hc|]. rewrite app_nil_r. apply Ht. exact Hc.
    - apply in_flat_map in Hin as (c & Hcs & Hin).
      specialize (IH _ (done ++ [p]) _ Hin Hc). cbn [a_clash a_targets a_selected] in IH.
      assert (X : a_clash a || memZ c (a_selected a) = false -> tidy (Acc (set_target (a_targets a) c (p_role p)) (c :: a_selected a) (a_clash a || memZ c (a_selected a))) (done ++ [p])).
      { intros Hor. apply orb_false_iff in Hor as [Ha Hm].
        destruct (Ht Ha) as (T1 & T2 & T3). unfold tidy; cbn [a_targets a_selected].
        assert (Hnot : ~ In c (a_selected a)).
        { intros Y. apply memZ_In in Y. congruence. }
        assert (Hfresh : ~ In c (map fst (a_targets a))).
        { rewrite T1. intros Y. apply in_rev in Y. contradiction. }
        rewrite (set_target_fresh _ _ _ Hfresh). rewrite !map_app. cbn [map fst snd rev].
        repeat split.
        - rewrite T1. reflexivity.
        - constructor; assumption.
        - rewrite T3. reflexivity. }
      destruct (IH X) as [Hor Hout]. apply orb_false_iff in Hor as [Ha _].
      split; [exact Ha|]. rewrite <- app_assoc in Hout. exact Hout.
  Qed.

  Theorem clash_free_keeps_every_peer order out :
    In out (run_order stores grp guard rs e g (Acc [] [] false) order) ->
    a_clash out = false ->
    map snd (a_targets out) = map p_role order /\ NoDup (map fst (a_targets out))
    /\ List.length (a_targets out) = List.length order.
  Proof.
    intros Hin Hc.
    destruct (run_order_tidy order (Acc [] [] false) [] out Hin Hc) as [_ (T1 & T2 & T3)].
    { intros _. unfold tidy; cbn. repeat split; constructor. }
    cbn [app] in T3. repeat split.
    - exact T3.
    - rewrite T1. apply NoDup_rev. exact T2.
    - rewrite <- (map_length snd), T3. apply map_length.
  Qed.
End Run.

(* ---------- the selection rule (region's other stores excluded) never clashes ---------- *)
Section Fixed.
  Variable stores : list store.
  Variable grp : Z.
  Variable guard : Z -> Z -> bool.
  Variable rs : list Z.

  Definition safe_sel (a : acc) (remaining : list Z) : Prop := forall s, In s (a_selected a) -> ~ In s remaining.

  Lemma never_clashes e g order : forall rem a out,
    NoDup (stores_of order ++ rem) -> incl (stores_of order ++ rem) rs ->
    a_clash a = false -> safe_sel a (stores_of order ++ rem) ->
    In out (run_order stores grp guard rs e g a order) ->
    a_clash out = false /\ safe_sel out rem.
  Proof.
    induction order as [|p rest IH]; intros rem a out Hnd Hincl Hc Hs Hin; cbn [run_order] in Hin.
    - destruct Hin as [<-|[]]. split; [exact Hc|]. exact Hs.
    - apply in_flat_map in Hin as (c & Hcs & Hin).
      cbn [stores_of map app] in Hnd, Hincl, Hs. fold (stores_of rest) in Hnd, Hincl, Hs.
      inversion Hnd as [|? ? Hp Hnd']; subst.
      assert (Hnew : ~ In c (a_selected a) /\ ~ In c (stores_of rest ++ rem)).
      { apply peer_choices_in in Hcs as [->|[H1 H2]].
        - split; [|exact Hp]. intros X. apply (Hs _ X). left; reflexivity.
        - split; [exact H1|]. intros X. apply H2. unfold others. apply filter_In. split.
          + apply Hincl. right; exact X.
          + apply negb_true_iff. apply Z.eqb_neq. intros ->. contradiction. }
      destruct Hnew as [Hn1 Hn2].
      eapply IH; [exact Hnd'| |  | |exact Hin].
      + intros x Hx. apply Hincl. right; exact Hx.
      + cbn [a_clash]. rewrite Hc. cbn. destruct (memZ c (a_selected a)) eqn:M; [apply memZ_In in M; contradiction|reflexivity].
      + intros s Hsel. cbn [a_selected] in Hsel. destruct Hsel as [<-|Hsel]; [exact Hn2|].
        intros X. apply (Hs _ Hsel). right; exact X.
  Qed.
End Fixed.

(* ---------- permutations (the processing orders) ---------- *)
Lemma insert_all_perm {A} (x : A) l l' : In l' (insert_all x l) -> Permutation l' (x :: l).
Proof.
  revert l'. induction l as [|y r IH]; intros l' H; cbn in H.
  - destruct H as [<-|[]]. apply Permutation_refl.
  - destruct H as [<-|H]; [apply Permutation_refl|].
    apply in_map_iff in H as (m & <- & Hm). specialize (IH _ Hm).
    eapply Permutation_trans; [apply perm_skip; exact IH|]. apply perm_swap.
Qed.
Lemma perms_perm {A} (l l' : list A) : In l' (perms l) -> Permutation l' l.
Proof.
  revert l'. induction l as [|x r IH]; intros l' H; cbn in H.
  - destruct H as [<-|[]]. apply Permutation_refl.
  - apply in_flat_map in H as (m & Hm & H). apply insert_all_perm in H.
    eapply Permutation_trans; [exact H|]. apply perm_skip. apply IH. exact Hm.
Qed.
Lemma filter_partition_perm {A} (f : A -> bool) l : Permutation (filter f l ++ filter (fun x => negb (f x)) l) l.
Proof.
  induction l as [|x r IH]; cbn; [apply Permutation_refl|].
  destruct (f x); cbn.
  - apply perm_skip. exact IH.
  - eapply Permutation_trans; [apply Permutation_sym; apply Permutation_middle|]. apply perm_skip. exact IH.
Qed.

Lemma NoDup_app_r {A} (a b : list A) : NoDup (a ++ b) -> NoDup b.
Proof. induction a as [|x a IH]; cbn; intros H; [exact H|]. inversion H; auto. Qed.

(* ---------- scatter preserves the peers of every role ---------- *)
Theorem scatter_preserves_roles stores st grp guard rule_ok r o :
  NoDup (stores_of (peers r)) ->
  In o (scatter_outcomes stores st grp guard rule_ok r) ->
  o_clash o = false
  /\ Permutation (map snd (o_targets o)) (map p_role (peers r))
  /\ NoDup (map fst (o_targets o))
  /\ List.length (o_targets o) = List.length (peers r).
Proof.
  intros Hnd Ho. unfold scatter_outcomes in Ho.
  set (ordp := filter (fun p => store_is stores is_ordinary (p_store p)) (peers r)) in *.
  set (tfp := filter (fun p => negb (store_is stores is_ordinary (p_store p))) (peers r)) in *.
  apply in_flat_map in Ho as (o1 & Ho1 & Ho). apply in_flat_map in Ho as (a1 & Ha1 & Ho).
  apply in_flat_map in Ho as (ld & _ & Ho). apply in_flat_map in Ho as (o2 & Ho2 & Ho).
  apply in_map_iff in Ho as (a2 & <- & Ha2). cbn [o_clash o_targets].
  apply perms_perm in Ho1. apply perms_perm in Ho2.
  assert (Pall : Permutation (o1 ++ o2) (peers r)).
  { eapply Permutation_trans; [apply Permutation_app; eassumption|]. apply (filter_partition_perm _ (peers r)). }
  assert (Pst : Permutation (stores_of o1 ++ stores_of o2) (stores_of (peers r))).
  { unfold stores_of. rewrite <- map_app. apply Permutation_map. exact Pall. }
  assert (Nd : NoDup (stores_of o1 ++ stores_of o2)).
  { eapply Permutation_NoDup; [apply Permutation_sym; exact Pst|exact Hnd]. }
  assert (Inc : incl (stores_of o1 ++ stores_of o2) (stores_of (peers r))).
  { intros x Hx. eapply Permutation_in; [exact Pst|exact Hx]. }
  (* phase 1: the ordinary peers *)
  destruct (never_clashes stores grp guard (stores_of (peers r)) is_ordinary (sc_ord st) o1 (stores_of o2) (Acc [] [] false) a1 Nd Inc eq_refl)
    as [C1 S1]; [intros s []|exact Ha1|].
  (* phase 2: the tiflash peers *)
  assert (Nd2 : NoDup (stores_of o2 ++ [])). { rewrite app_nil_r. apply NoDup_app_r in Nd. exact Nd. }
  assert (Inc2 : incl (stores_of o2 ++ []) (stores_of (peers r))).
  { rewrite app_nil_r. intros x Hx. apply Inc. apply in_or_app. right; exact Hx. }
  destruct (never_clashes stores grp guard (stores_of (peers r)) (has_engine val_tiflash) (sc_tf st) o2 [] a1 a2 Nd2 Inc2 C1) as [C2 _];
    [rewrite app_nil_r; exact S1|exact Ha2|].
  (* tidy through both phases *)
  destruct (run_order_tidy stores grp guard (stores_of (peers r)) is_ordinary (sc_ord st) o1 (Acc [] [] false) [] a1 Ha1 C1) as [_ T1].
  { intros _. unfold tidy; cbn. repeat split; constructor. }
  destruct (run_order_tidy stores grp guard (stores_of (peers r)) (has_engine val_tiflash) (sc_tf st) o2 a1 ([] ++ o1) a2 Ha2 C2 (fun _ => T1))
    as [_ (U1 & U2 & U3)].
  cbn [app] in U3.
  split; [exact C2|]. split; [|split].
  - rewrite U3. apply Permutation_map. exact Pall.
  - rewrite U1. apply NoDup_rev. exact U2.
  - rewrite <- (map_length snd), U3, map_length. apply Permutation_length. exact Pall.
Qed.

(* ---------- the S12 history (regression) ---------- *)
(* group counters {store 1: 1, store 3: 1}, healthy stores 1..3, region on 1,2,3, processing order 1,2,3.
   Before the fix the peer of store 1 went to store 2 (the only store below the maximum), the peer of store 2 had
   no candidate left and "stayed" on the store that was just given away: targets = {2, 3}, a replica lost.
   Now store 2 is not a candidate for the peer of store 1 and all three peers stay. *)
Definition s12_store (id : Z) : store := Store id SUp false false false false false false false false false false [].
Definition s12_stores : list store := [s12_store 1; s12_store 2; s12_store 3].
Definition s12_peers : list peer := [Peer 11 1 Voter; Peer 12 2 Voter; Peer 13 3 Voter].
Definition s12_counters : gdist := [(1, [(1, 1); (3, 1)])].

Lemma s12_regression :
  run_order s12_stores 1 (fun _ _ => true) [1; 2; 3] is_ordinary s12_counters (Acc [] [] false) s12_peers
  = [Acc [(1, Voter); (2, Voter); (3, Voter)] [3; 2; 1] false].
Proof. vm_compute. reflexivity. Qed.

(* ---------- where scatter and the schedulers may put peers and leaders ---------- *)
Record up_store (s : store) : Prop := {
  us_up : sst s = SUp; us_not_down : s_down s = false; us_connected : s_disc s = false; us_not_busy : s_busy s = false
}.

Lemma scatter_filter_facts s : sft Gen_C11.scatter_flags s = true -> up_store s.
Proof.
  intros H. unfold sft in H.
  assert (F : forall c, In c [isTombstone; isOffline; isDown; isDisconnected; isBusy] -> cond_raw c s = false).
  { intros c Hc. eapply sf_target_excludes; [exact H|exact scatter_row|exact scatter_guards|apply scatter_conds; exact Hc|apply scatter_no_temp]. }
  pose proof (F isTombstone) as F1. pose proof (F isOffline) as F2. pose proof (F isDown) as F3.
  pose proof (F isDisconnected) as F4. pose proof (F isBusy) as F5. cbn in *.
  constructor; try (apply F3 + apply F4 + apply F5; tauto).
  destruct (sst s); try reflexivity; [specialize (F2 ltac:(tauto))|specialize (F1 ltac:(tauto))]; discriminate.
Qed.

(* a peer is scattered only to its own store or to an up store that passed the exclusion of the already selected stores *)
Theorem scatter_target_good stores grp guard rs e g a p c :
  In c (peer_choices stores grp guard rs e g a p) ->
  c = p_store p \/ (~ In c (a_selected a) /\ exists s, In s stores /\ sid s = c /\ up_store s /\ e s = true).
Proof.
  unfold peer_choices. destruct (find_store stores (p_store p)) as [s0|]; [|cbn; intros [H|[]]; auto].
  intros H. apply choices_in in H as [H|H]; [left; exact H|right].
  apply select_candidates_in in H as (H1 & _ & s & Hs & Hid & Hf & He & _).
  split; [exact H1|]. exists s. split; [exact Hs|]. split; [exact Hid|]. split; [apply scatter_filter_facts; exact Hf|exact He].
Qed.

Lemma move_filter_facts s : sft [MoveRegion] s = true -> up_store s /\ s_noadd s = false /\ s_snap s = false /\ s_pend s = false.
Proof.
  intros H. unfold sft in H.
  assert (F : forall c, In c [isTombstone; isOffline; isDown; isDisconnected; isBusy; exceedAddLimit; tooManySnapshots; tooManyPendingPeers] -> cond_raw c s = false).
  { intros c Hc. eapply sf_target_excludes; [exact H|exact region_target_row|exact move_guards|apply region_target_conds; exact Hc|apply move_no_temp]. }
  pose proof (F isTombstone) as F1. pose proof (F isOffline) as F2. pose proof (F isDown) as F3.
  pose proof (F isDisconnected) as F4. pose proof (F isBusy) as F5. pose proof (F exceedAddLimit) as F6.
  pose proof (F tooManySnapshots) as F7. pose proof (F tooManyPendingPeers) as F8. cbn in *.
  repeat split; try (apply F3 + apply F4 + apply F5 + apply F6 + apply F7 + apply F8; tauto).
  destruct (sst s); try reflexivity; [specialize (F2 ltac:(tauto))|specialize (F1 ltac:(tauto))]; discriminate.
Qed.

(* peer moves of any scheduler whose StoreStateFilter literal is {MoveRegion} (balance-region, shuffle-region, hot-region,
   shuffle-hot-region, scatter-range): every admissible target is an up store outside the region, hence differs from the
   source, and is not refused by the scheduler's special-use filter *)
Theorem move_target_good flags su stores r dst :
  flags = [MoveRegion] ->
  In dst (move_targets flags su stores r) ->
  In dst stores /\ ~ In (sid dst) (stores_of (peers r)) /\ up_store dst /\ su dst = false
  /\ (forall src, In src (stores_of (peers r)) -> src <> sid dst).
Proof.
  intros ->. unfold move_targets, move_pred. intros H. apply filter_In in H as [Hin H].
  apply andb_true_iff in H as [H Hf]. apply andb_true_iff in H as [Hx Hs].
  apply negb_true_iff in Hx. apply negb_true_iff in Hs.
  assert (N : ~ In (sid dst) (stores_of (peers r))). { intros X. apply memZ_In in X. congruence. }
  split; [exact Hin|]. split; [exact N|]. split; [apply move_filter_facts; exact Hf|]. split; [exact Hs|].
  intros src Hsrc ->. contradiction.
Qed.

Lemma leader_filter_facts s : sft [TransferLeader] s = true -> up_store s /\ s_pause s = false /\ s_reject s = false.
Proof.
  intros H. unfold sft in H.
  assert (F : forall c, In c [isTombstone; isOffline; isDown; pauseLeaderTransfer; isDisconnected; isBusy; hasRejectLeaderProperty] -> cond_raw c s = false).
  { intros c Hc. eapply sf_target_excludes; [exact H|exact leader_target_row|exact leader_guards|apply leader_target_conds; exact Hc|apply leader_no_temp]. }
  pose proof (F isTombstone) as F1. pose proof (F isOffline) as F2. pose proof (F isDown) as F3. pose proof (F pauseLeaderTransfer) as F4.
  pose proof (F isDisconnected) as F5. pose proof (F isBusy) as F6. pose proof (F hasRejectLeaderProperty) as F7. cbn in *.
  repeat split; try (apply F3 + apply F4 + apply F5 + apply F6 + apply F7; tauto).
  destruct (sst s); try reflexivity; [specialize (F2 ltac:(tauto))|specialize (F1 ltac:(tauto))]; discriminate.
Qed.

(* balance-leader / shuffle-leader / evict-leader / label: the new leader is a voter of the region on another store than
   the current leader's, and that store is up, not paused and does not reject leaders *)
Theorem leader_target_good flags stores r dst :
  flags = [TransferLeader] ->
  In dst (leader_targets flags stores r) ->
  (exists p, In p (peers r) /\ p_store p = sid dst /\ is_learner p = false)
  /\ sid dst <> leader_store r /\ up_store dst /\ s_pause dst = false /\ s_reject dst = false.
Proof.
  intros ->. unfold leader_targets. intros H. apply filter_In in H as [_ H].
  apply andb_true_iff in H as [Hex Hf]. apply existsb_exists in Hex as (p & Hp & Hc).
  apply andb_true_iff in Hc as [Hc Hl]. apply andb_true_iff in Hc as [Hst Hlr].
  apply Z.eqb_eq in Hst. apply negb_true_iff in Hlr. apply negb_true_iff in Hl. apply Z.eqb_neq in Hl.
  destruct (leader_filter_facts dst Hf) as (U & P & Rj).
  split; [exists p; repeat split; assumption|]. split; [rewrite <- Hst; exact Hl|]. split; [exact U|]. split; assumption.
Qed.

(* grant-leader (no store filter at all): still a voter of the region on another store than the leader's *)
Theorem forced_leader_target stores r dst :
  In dst (leader_targets [] stores r) ->
  (exists p, In p (peers r) /\ p_store p = sid dst /\ is_learner p = false) /\ sid dst <> leader_store r.
Proof.
  unfold leader_targets. intros H. apply filter_In in H as [_ H].
  apply andb_true_iff in H as [Hex _]. apply existsb_exists in Hex as (p & Hp & Hc).
  apply andb_true_iff in Hc as [Hc Hl]. apply andb_true_iff in Hc as [Hst Hlr].
  apply Z.eqb_eq in Hst. apply negb_true_iff in Hlr. apply negb_true_iff in Hl. apply Z.eqb_neq in Hl.
  split; [exists p; repeat split; assumption|]. rewrite <- Hst. exact Hl.
Qed.

(* ---------- "may only remove candidates" ---------- *)
(* The filters the models do not transcribe (placement safeguard / rule-fit filter, RegionScoreFilter, shouldBalance, the load
   tolerance of hot-region's pickDstStores, random picks) are applied IN CONJUNCTION with the modelled ones
   (filter.Target = all filters must pass; pinned by pin_src_filter_Target / pin_src_hot_pickDstStores in proof/C11_Pins.v): whatever they are, the
   stores that survive them are among the model's admissible targets.  So the set-valued model is a superset of what the code
   can choose, and every theorem about all admissible targets covers the code's choice. *)
Theorem more_filters_only_remove flags su stores r (extra : store -> bool) dst :
  In dst (filter (fun s => move_pred flags su r s && extra s) stores) -> In dst (move_targets flags su stores r).
Proof.
  intros H. apply filter_In in H as [Hin H]. apply andb_true_iff in H as [H _].
  unfold move_targets. apply filter_In. split; assumption.
Qed.

Theorem more_filters_only_remove_leader flags stores r (extra : store -> bool) dst :
  In dst (filter extra (leader_targets flags stores r)) -> In dst (leader_targets flags stores r).
Proof. intros H. apply filter_In in H as [H _]. exact H. Qed.

(* ---------- the scatter leader ---------- *)
(* whenever some target qualifies (store without engine label, target peer not a learner, store passes the leaderTarget row of
   StoreStateFilter, a leader / voter rule selects it), the store chosen for the leader is such a target: in particular it is up,
   not down, connected, not busy, leader transfer not paused, no reject-leader label (0 = "none" is not chosen then) *)
Theorem scatter_leader_accepts_leaders stores grp ldr cur rule_ok targets l :
  In l (leader_choices stores grp ldr cur rule_ok targets) ->
  leader_candidates stores rule_ok targets <> [] ->
  exists ro s, In (l, ro) targets /\ ro <> Learner /\ find_store stores l = Some s /\ lv_empty (engine_of s) = true
               /\ up_store s /\ s_pause s = false /\ s_reject s = false /\ rule_ok l = true.
Proof.
  unfold leader_choices. intros H Hne.
  destruct (leader_candidates stores rule_ok targets) as [|x cands] eqn:E; [contradiction|].
  unfold least_loaded in H. apply filter_In in H as [H _]. rewrite <- E in H.
  unfold leader_candidates in H. apply in_map_iff in H as ([l' ro] & Hl & H). cbn in Hl. subst l'.
  apply filter_In in H as [Hin H]. cbn [fst snd] in H.
  destruct (find_store stores l) as [s|]; [|discriminate].
  apply andb_true_iff in H as [H Hr]. apply andb_true_iff in H as [H Hf]. apply andb_true_iff in H as [He Hro].
  destruct (leader_filter_facts s Hf) as (U & P & Rj).
  exists ro, s. split; [exact Hin|]. split; [intros ->; cbn in Hro; discriminate|]. split; [reflexivity|].
  split; [exact He|]. split; [exact U|]. split; [exact P|]. split; [exact Rj|exact Hr].
Qed.

(* regression: reject-leader on store 1, leader transfer paused (evict-leader) on store 3; targets {1, 2, 3}; the leader goes to
   store 2 - before the fixes store 1 and store 3 were candidates as well *)
Lemma leader_reject_regression :
  leader_choices [Store 1 SUp false false false false false false false false false true [];
                  Store 2 SUp false false false false false false false false false false [];
                  Store 3 SUp false false false false false false false false true false []] 1 [] 1 (fun _ => true)
                 [(1, Voter); (2, Voter); (3, Voter)] = [2].
Proof. vm_compute. reflexivity. Qed.

(* ---------- a peer move keeps the number of peers of every role and one peer per store ---------- *)
Lemma flat_map_no_src (ps : list peer) src :
  ~ In src (stores_of ps) -> flat_map (fun q => if p_store q =? src then [] else [q]) ps = ps.
Proof.
  induction ps as [|q r IH]; cbn; intros H; [reflexivity|].
  destruct (p_store q =? src) eqn:E; [apply Z.eqb_eq in E; exfalso; apply H; left; exact E|].
  cbn. f_equal. apply IH. intros X; apply H; right; exact X.
Qed.

Lemma count_role_app ro a b : count_role ro (a ++ b) = (count_role ro a + count_role ro b)%nat.
Proof. unfold count_role. rewrite filter_app, app_length. reflexivity. Qed.

Lemma move_count ro ps src p :
  NoDup (stores_of ps) -> peer_on ps src = Some p ->
  Nat.add (count_role ro (flat_map (fun q => if p_store q =? src then [] else [q]) ps)) (if role_eqb (p_role p) ro then 1%nat else 0%nat)
  = count_role ro ps.
Proof.
  induction ps as [|q r IH]; intros Hnd Hp; [discriminate|].
  cbn [stores_of map] in Hnd. inversion Hnd as [|? ? Hq Hr]; subst.
  unfold peer_on in Hp. cbn [find] in Hp. cbn [flat_map].
  destruct (p_store q =? src) eqn:E.
  - inversion Hp; subst. apply Z.eqb_eq in E. subst src. cbn [app].
    rewrite (flat_map_no_src r (p_store p) Hq).
    unfold count_role. cbn [filter]. destruct (role_eqb (p_role p) ro); cbn; lia.
  - cbn [app]. specialize (IH Hr Hp).
    unfold count_role in *. cbn [filter app]. destruct (role_eqb (p_role q) ro); cbn [List.length]; lia.
Qed.

Theorem move_preserves_roles ps src dst id p :
  NoDup (stores_of ps) -> peer_on ps src = Some p -> ~ In dst (stores_of ps) ->
  roles_preserved ps (move_result ps src dst id) = true
  /\ NoDup (stores_of (move_result ps src dst id))
  /\ List.length (move_result ps src dst id) = List.length ps
  /\ src <> dst.
Proof.
  intros Hnd Hp Hd. unfold move_result. rewrite Hp.
  assert (Hsrc : In src (stores_of ps)).
  { unfold peer_on in Hp. apply find_some in Hp as [Hin E]. apply Z.eqb_eq in E. subst src. apply in_map. exact Hin. }
  assert (C : forall ro, count_role ro (flat_map (fun q => if p_store q =? src then [] else [q]) ps ++ [Peer id dst (p_role p)]) = count_role ro ps).
  { intros ro. rewrite count_role_app. rewrite <- (move_count ro ps src p Hnd Hp). f_equal.
    unfold count_role. cbn. destruct (role_eqb (p_role p) ro); reflexivity. }
  repeat split.
  - unfold roles_preserved, all_roles. cbn [forallb]. rewrite !C. rewrite !Nat.eqb_refl. reflexivity.
  - unfold stores_of. rewrite map_app. cbn [map p_store].
    assert (S : forall l, map p_store (flat_map (fun q => if p_store q =? src then [] else [q]) l) = filter (fun s => negb (s =? src)) (map p_store l)).
    { induction l as [|q l IHl]; cbn; [reflexivity|]. destruct (p_store q =? src); cbn; [exact IHl|f_equal; exact IHl]. }
    rewrite S. apply NoDup_app_one.
    + apply NoDup_filter. exact Hnd.
    + intros X. apply filter_In in X as [X _]. contradiction.
  - pose proof (C Voter) as C1. pose proof (C Learner) as C2. pose proof (C Incoming) as C3. pose proof (C Demoting) as C4.
    assert (L : forall l, List.length l = (count_role Voter l + count_role Learner l + count_role Incoming l + count_role Demoting l)%nat).
    { induction l as [|q l IHl]; [reflexivity|]. unfold count_role in *. cbn [filter List.length].
      destruct (p_role q); cbn [role_eqb role_idx Z.eqb Pos.eqb List.length]; cbn; lia. }
    rewrite (L ps), (L (_ ++ _)). lia.
  - intros ->. contradiction.
Qed.
