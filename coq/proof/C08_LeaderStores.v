(* C08 — the builder's own rule for leader targets, in general: outside the forced-leader variant every TransferLeader
   step of a builder plan goes to a store the cluster knows and that accepts leaders (or to the requested leader where
   the leader already was) - any region, any number of stores, any call sequence, both build paths. *)
From Coq Require Import String Sorting.Sorted.
From PDV Require Import lib.Base gen.Gen_C08 model.C08_Steps model.C08_Builder
     proof.C08_ListFacts proof.C08_PmapFacts proof.C08_SimPhases proof.C08_JointScript proof.C08_PrepareFacts
     proof.C08_JointBuild proof.C08_JointFacts proof.C08_JointMain
     proof.C08_NjPhases proof.C08_StepSpec proof.C08_NjSteps proof.C08_NjPlans proof.C08_NjApply proof.C08_Skel proof.C08_NjMain.
Local Open Scope list_scope.
Local Open Scope Z_scope.

Definition tl_ok (cl : cluster) (ol asked : Z) (s : step) : bool :=
  match s with
  | TransferLeader _ t => store_takes_leader cl t || ((t =? asked) && (t =? ol))
  | _ => true
  end.

Lemma leader_stores_ok_eq cl ol asked force ss :
  leader_stores_ok cl ol asked force ss = force || forallb (tl_ok cl ol asked) ss.
Proof. reflexivity. Qed.

(* allowLeader without the limit exemption: the store leads, or it is known and accepts leaders *)
Lemma allow_store b p : allow_leader b p false = true ->
  pstore p = b_cur_leader b \/ store_takes_leader (b_cluster b) (pstore p) = true.
Proof.
  unfold allow_leader, store_takes_leader. destruct (in_names (role_name (prole p)) no_leader_roles); [discriminate|].
  destruct (pstore p =? b_cur_leader b) eqn:E; [left; apply Z.eqb_eq; exact E|].
  intros H. right. destruct (get_store (b_cluster b) (pstore p)); [exact H|discriminate].
Qed.

Lemma allowed_store b l : Allowed b l -> l = b_cur_leader b \/ store_takes_leader (b_cluster b) l = true.
Proof.
  intros [Hin Ha]. unfold pm_get in Ha. fold (lk (b_cur b) l) in Ha. destruct (lk (b_cur b) l) as [q|] eqn:Eq.
  - cbn [allow_leader_o] in Ha. pose proof (lk_Some _ _ _ Eq) as [_ Hs]. rewrite <- Hs. apply allow_store. exact Ha.
  - apply lk_None in Eq. contradiction.
Qed.

Lemma after_store b o la st : allow_leader_after b o la = true -> ostore o = st -> o <> None ->
  st = la \/ store_takes_leader (b_cluster b) st = true.
Proof.
  unfold allow_leader_after. destruct o as [q|]; [|intros _ _ C; contradiction]. cbn [allow_leader_o ostore]. intros H <- _.
  apply (allow_store (with_leader b la) q H).
Qed.

(* ---------- what a round appends ---------- *)
Record LOK (cl : cluster) (ol asked : Z) (b : bstate) : Prop := {
  l_steps : forallb (tl_ok cl ol asked) (b_steps b) = true;
  l_cluster : b_cluster b = cl;
  l_force : b_force b = false
}.

Lemma tl_ok_app cl ol asked l1 l2 :
  forallb (tl_ok cl ol asked) l1 = true -> forallb (tl_ok cl ol asked) l2 = true -> forallb (tl_ok cl ol asked) (l1 ++ l2) = true.
Proof. intros A B. rewrite forallb_app, A, B. reflexivity. Qed.

Section Round.
  Variables (cl : cluster) (ol asked : Z).

  Lemma lok_kinds b kl kr : LOK cl ol asked b -> LOK cl ol asked (set_kinds b kl kr).
  Proof. intros [A B C]. constructor; assumption. Qed.

  Lemma lok_transfer b l :
    LOK cl ol asked b -> (l = 0 \/ l = b_cur_leader b \/ store_takes_leader cl l = true) ->
    LOK cl ol asked (maybe_transfer b l)
    /\ b_cur_leader (maybe_transfer b l) = (if negb (l =? 0) && negb (l =? b_cur_leader b) then l else b_cur_leader b).
  Proof.
    intros [A B C] H. unfold maybe_transfer. destruct (negb (l =? 0) && negb (l =? b_cur_leader b)) eqn:E.
    - split; [|reflexivity]. apply andb_true_iff in E as [E1 E2]. apply negb_true_iff, Z.eqb_neq in E1, E2.
      destruct H as [H|[H|H]]; try contradiction.
      constructor; cbn [set_kinds exec_transfer upd_exec b_steps b_cluster b_force]; try assumption.
      apply tl_ok_app; [exact A|]. cbn [forallb tl_ok]. rewrite H. reflexivity.
    - split; [constructor; assumption|reflexivity].
  Qed.

  Lemma lok_add b oa : LOK cl ol asked b -> LOK cl ol asked (do_add b oa) /\ b_cur_leader (do_add b oa) = b_cur_leader b.
  Proof.
    intros [A B C]. destruct oa as [a|]; cbn [do_add]; [|split; [constructor; assumption|reflexivity]].
    split; [|reflexivity]. constructor; cbn [set_kinds exec_add upd_exec b_steps b_cluster b_force]; try assumption.
    apply tl_ok_app; [exact A|]. destruct (is_learner a), (b_light b); reflexivity.
  Qed.

  Lemma lok_promote b ox : LOK cl ol asked b -> LOK cl ol asked (do_promote b ox) /\ b_cur_leader (do_promote b ox) = b_cur_leader b.
  Proof.
    intros [A B C]. destruct ox as [x|]; cbn [do_promote]; [|split; [constructor; assumption|reflexivity]].
    split; [|reflexivity]. constructor; cbn [exec_promote upd_exec b_steps b_cluster b_force]; try assumption.
    apply tl_ok_app; [exact A|reflexivity].
  Qed.

  Lemma lok_demote b ox : LOK cl ol asked b -> LOK cl ol asked (do_demote b ox).
  Proof.
    intros [A B C]. destruct ox as [x|]; cbn [do_demote]; [|constructor; assumption].
    constructor; cbn [exec_demote upd_exec b_steps b_cluster b_force]; try assumption.
    apply tl_ok_app; [exact A|reflexivity].
  Qed.

  Lemma lok_remove b ox : LOK cl ol asked b -> LOK cl ol asked (do_remove b ox).
  Proof.
    intros [A B C]. destruct ox as [x|]; cbn [do_remove]; [|constructor; assumption].
    constructor; cbn [set_kinds exec_remove upd_exec b_steps b_cluster b_force]; try assumption.
    apply tl_ok_app; [exact A|reflexivity].
  Qed.

  (* the two leader moves of a round, as the plan kinds allow them *)
  Lemma plan_leaders b p :
    b_cluster b = cl -> PlanKind b p ->
    (lba p = 0 \/ lba p = b_cur_leader b \/ store_takes_leader cl (lba p) = true)
    /\ (lbr p = 0 \/ lbr p = (if negb (lba p =? 0) && negb (lba p =? b_cur_leader b) then lba p else b_cur_leader b)
        \/ store_takes_leader cl (lbr p) = true).
  Proof.
    intros Hc K. subst cl.
    destruct K as [(next & HB & (Hsb & HAa & N1 & N2 & Hlr))|x rest Hp Ep|Hre Hp0 (d & l & Hd & HAl & Nl & Ep)|Hre Hp0 (x & l & Hx & HAl & Nl & Ep)|(a & l & Ha & Hf & HAl & Ep)].
    - (* replace *)
      split.
      + destruct (allowed_store b _ HAa) as [E|E]; auto.
      + assert (G : lbr p = lba p \/ store_takes_leader (b_cluster b) (lbr p) = true).
        { destruct Hlr as [[Hin Haf]|[(I1 & I2 & I3)|(I1 & I2 & I3)]].
          - unfold pm_get in Haf. fold (lk (b_cur b) (lbr p)) in Haf. destruct (lk (b_cur b) (lbr p)) as [q|] eqn:Eq.
            + pose proof (lk_Some _ _ _ Eq) as [_ Hs]. apply (after_store b (Some q) (lba p)); [exact Haf|exact Hs|discriminate].
            + apply lk_None in Eq. contradiction.
          - apply (after_store b (p_promote next) (lba p)); [exact I3|symmetry; exact I2|].
            destruct (p_promote next); [discriminate|discriminate I1].
          - apply (after_store b (p_add next) (lba p)); [exact I3|symmetry; exact I2|].
            destruct (p_add next); [discriminate|discriminate I1]. }
        destruct G as [G|G]; [|auto].
        destruct (lba p =? 0) eqn:E0; cbn [negb andb].
        * left. rewrite G. apply Z.eqb_eq. exact E0.
        * destruct (lba p =? b_cur_leader b) eqn:E1; cbn [negb]; right; left; [rewrite G; apply Z.eqb_eq; exact E1|exact G].
    - subst p. cbn [lba lbr]. auto.
    - subst p. cbn [lba lbr]. split; [auto|]. cbn. destruct (allowed_store b l HAl) as [E|E]; auto.
    - subst p. cbn [lba lbr]. split; [auto|]. cbn. destruct (allowed_store b l HAl) as [E|E]; auto.
    - subst p. cbn [lba lbr]. split; [|auto]. destruct (allowed_store b l HAl) as [E|E]; auto.
  Qed.

  Lemma apply_plan_lok b p : LOK cl ol asked b -> PlanKind b p -> LOK cl ol asked (apply_plan b p).
  Proof.
    intros L K. destruct (plan_leaders b p (l_cluster _ _ _ _ L) K) as [H1 H2]. rewrite apply_plan_eq.
    destruct (lok_transfer b (lba p) L H1) as [L1 C1].
    destruct (lok_add _ (p_add p) L1) as [L2 C2].
    destruct (lok_promote _ (p_promote p) L2) as [L3 C3].
    assert (H4 : lbr p = 0 \/ lbr p = b_cur_leader (do_promote (do_add (maybe_transfer b (lba p)) (p_add p)) (p_promote p))
                 \/ store_takes_leader cl (lbr p) = true).
    { rewrite C3, C2, C1. exact H2. }
    destruct (lok_transfer _ (lbr p) L3 H4) as [L4 _].
    apply lok_remove, lok_demote. exact L4.
  Qed.

  Lemma loop_lok : forall fuel b bF,
    LOK cl ol asked b -> nonjoint_loop fuel b = BOk bF -> LOK cl ol asked bF.
  Proof.
    induction fuel as [|f IH]; intros b bF L H; cbn [nonjoint_loop] in H.
    - destruct (Nat.eqb (pending b) 0); [|discriminate]. inversion H; subst bF. exact L.
    - destruct (Nat.eqb (pending b) 0).
      + inversion H; subst bF. exact L.
      + destruct (plan_is_empty (peer_plan b)) eqn:Ee; [discriminate|].
        apply (IH _ _ (apply_plan_lok b (peer_plan b) L (peer_plan_spec b Ee)) H).
  Qed.
End Round.

Lemma loop_static : forall fuel b bF, nonjoint_loop fuel b = BOk bF ->
  b_target bF = b_target b /\ b_tleader bF = b_tleader b.
Proof.
  induction fuel as [|f IH]; intros b bF H; cbn [nonjoint_loop] in H.
  - destruct (Nat.eqb (pending b) 0); [|discriminate]. inversion H; subst bF. auto.
  - destruct (Nat.eqb (pending b) 0).
    + inversion H; subst bF. auto.
    + destruct (plan_is_empty (peer_plan b)); [discriminate|].
      destruct (IH _ _ H) as [A B]. destruct (apply_plan_static b (peer_plan b)) as [A' B']. split; congruence.
Qed.

(* ---------- the requested leader passed allowLeader in prepareBuild ---------- *)
Lemma prepare_build_leader b0 alloc b : prepare_build b0 alloc = Some b ->
  b_tleader b = 0 \/ allow_leader_o b (pm_get (b_target b) (b_tleader b)) (b_force b) = true.
Proof.
  unfold prepare_build.
  destruct (countb (fun p => negb (is_learner p)) (b_target b0) =? 0); [discriminate|].
  match goal with |- context [fold_left ?F (b_origin b0) ?I] => destruct (fold_left F (b_origin b0) I) as [[rem pro] dem] end.
  cbv zeta.
  match goal with |- (if negb (?tl =? 0) && negb ?al then _ else _) = _ -> _ => destruct (tl =? 0) eqn:E0; destruct al eqn:Ea; cbn [negb andb]; try discriminate end.
  - intros H. inversion H; subst b; clear H. left. cbn [b_tleader]. apply Z.eqb_eq. exact E0.
  - intros H. inversion H; subst b; clear H. left. cbn [b_tleader]. apply Z.eqb_eq. exact E0.
  - intros H. inversion H; subst b; clear H. right. exact Ea.
Qed.

(* ---------- the non-joint path ---------- *)
Theorem builder_nonjoint_leader_stores_pf i b ss kl kr :
  nodup_stores (peers (i_region i)) = true ->
  is_in_joint (i_region i) = false ->
  (exists lp, get_store_peer (i_region i) (leader (i_region i)) = Some lp /\ prole lp = Voter) ->
  prepared i = Some b -> b_use_joint b = false ->
  build i = Built ss kl kr ->
  leader_stores_ok (b_cluster b) (leader (i_region i)) (b_tleader b) (b_force b) ss = true.
Proof.
  intros Hnd Hnj (lp & Hlp & Hlrole) Hprep Huj Hbuild.
  rewrite leader_stores_ok_eq. destruct (b_force b) eqn:Ef; [reflexivity|]. cbn [orb].
  destruct (i_region i) as [ps0 l0 cv rg] eqn:Er. cbn [peers leader] in *.
  apply nodup_stores_ND in Hnd. unfold is_in_joint in Hnj. cbn [peers] in Hnj. apply NJ_of_not_joint in Hnj.
  unfold get_store_peer in Hlp; cbn [peers] in Hlp. fold (lk ps0 l0) in Hlp.
  unfold prepared in Hprep. unfold build in Hbuild.
  destruct (new_builder i) as [b0|] eqn:Enb; [|discriminate].
  destruct (api_ops b0 (i_ops i)) as [b1|] eqn:Eapi; [|discriminate].
  rewrite Hprep in Hbuild. rewrite Huj in Hbuild.
  assert (I0 : ApiInv ps0 l0 (i_cluster i) b0).
  { pose proof (new_builder_inv i b0 Enb) as X. rewrite Er in X. cbn [peers leader] in X. apply X; assumption. }
  pose proof (api_ops_inv _ _ _ _ _ _ I0 Eapi) as [A1 A2 A3 A4 A5 A6 A7].
  pose proof (prepare_build_leader _ _ _ Hprep) as Hasked.
  pose proof (prepare_build_spec _ _ _ Hprep) as PF.
  destruct PF as [F1 F2 F3 F4 F5 F6 F7 F8 F9 F10 F11 F12 F13 F14 F15 F16 F17 F18 F19].
  set (cl := b_cluster b) in *. set (asked := b_tleader b) in *.
  assert (Hcur : b_cur_leader b = l0) by (rewrite F10; exact A2).
  assert (L0 : LOK cl l0 asked b) by (constructor; [rewrite F11; reflexivity|reflexivity|exact Ef]).
  unfold build_nonjoint in Hbuild.
  destruct (nonjoint_loop (pending b) b) as [bF| |] eqn:Eloop; [|discriminate|discriminate].
  pose proof (loop_lok cl l0 asked _ _ _ L0 Eloop) as [LF1 LF2 LF3].
  destruct (loop_static _ _ _ Eloop) as [EtF ElF].
  cbv zeta in Hbuild.
  match type of Hbuild with (match (match b_steps ?B3 with _ => _ end) with _ => _ end) = _ =>
    set (b3 := B3) in *;
    assert (Hss : ss = b_steps b3) by (destruct (b_steps b3) eqn:Es; [discriminate|inversion Hbuild; congruence]) end.
  rewrite Hss. unfold b3.
  set (b2 := set_target_leader_if_not_exist bF).
  assert (Hb2 : b_steps b2 = b_steps bF /\ b_cur_leader b2 = b_cur_leader bF).
  { unfold b2, set_target_leader_if_not_exist. destruct (negb (b_tleader bF =? 0)); split; reflexivity. }
  destruct Hb2 as [Hs2 Hc2].
  destruct (negb (b_tleader b2 =? 0) && negb (b_cur_leader b2 =? b_tleader b2) && is_some (pm_get (b_cur b2) (b_tleader b2))) eqn:Ec;
    [|rewrite Hs2; exact LF1].
  apply andb_true_iff in Ec as [Ec _]. apply andb_true_iff in Ec as [E0 E1].
  apply negb_true_iff, Z.eqb_neq in E0, E1.
  cbn [set_kinds exec_transfer upd_exec b_steps]. rewrite Hs2. apply tl_ok_app; [exact LF1|].
  cbn [forallb tl_ok]. rewrite andb_true_r.
  unfold b2, set_target_leader_if_not_exist in E0, E1 |- *. destruct (b_tleader bF =? 0) eqn:Ez; cbn [negb] in *.
  - (* PD picks the leader *)
    cbn [b_tleader set_tleader b_cur_leader] in *.
    destruct (pick_target_leader_spec bF) as [Hz|(p & Hp & Ha)]; [contradiction|].
    rewrite LF3 in Ha. pose proof (lk_Some _ _ _ Hp) as [_ Hs].
    destruct (allow_store bF p Ha) as [E|E].
    + exfalso. apply E1. rewrite <- E. exact Hs.
    + rewrite Hs, LF2 in E. rewrite E. reflexivity.
  - (* the leader the caller asked for *)
    rewrite ElF. fold asked.
    destruct Hasked as [Hz|Ha]; [exfalso; apply E0; rewrite ElF; exact Hz|].
    destruct F18 as [Hz|(_ & p & Hp & _)]; [exfalso; apply E0; rewrite ElF; exact Hz|].
    rewrite F4 in Ha. rewrite Hp in Ha. cbn [allow_leader_o] in Ha. rewrite Ef in Ha.
    pose proof (lk_Some _ _ _ Hp) as [_ Hs].
    destruct (allow_store b p Ha) as [E|E].
    + rewrite Hs, Hcur in E. fold asked in E. rewrite E, !Z.eqb_refl. apply orb_true_r.
    + rewrite Hs in E. fold cl asked in E. rewrite E. reflexivity.
Qed.

(* ---------- the joint path ---------- *)
Lemma add_steps_ok cl ol asked light A : forallb (tl_ok cl ol asked) (add_steps light A) = true.
Proof. unfold add_steps. induction A as [|a A IH]; [reflexivity|]. cbn [map forallb]. rewrite IH. unfold add_step. destruct light; reflexivity. Qed.
Lemma remove_steps_ok cl ol asked R : forallb (tl_ok cl ol asked) (remove_steps R) = true.
Proof. unfold remove_steps. induction R as [|a A IH]; [reflexivity|]. cbn [map forallb]. exact IH. Qed.

Theorem builder_joint_leader_stores_pf i b ss kl kr :
  nodup_stores (peers (i_region i)) = true ->
  is_in_joint (i_region i) = false ->
  (exists lp, get_store_peer (i_region i) (leader (i_region i)) = Some lp /\ prole lp = Voter) ->
  prepared i = Some b -> b_use_joint b = true ->
  build i = Built ss kl kr ->
  leader_stores_ok (b_cluster b) (leader (i_region i)) (b_tleader b) (b_force b) ss = true.
Proof.
  intros Hnd Hnj (lp & Hlp & Hlrole) Hprep Huj Hbuild.
  rewrite leader_stores_ok_eq. destruct (b_force b) eqn:Ef; [reflexivity|]. cbn [orb].
  destruct (i_region i) as [ps0 l0 cv rg] eqn:Er. cbn [peers leader] in *.
  apply nodup_stores_ND in Hnd. unfold is_in_joint in Hnj. cbn [peers] in Hnj. apply NJ_of_not_joint in Hnj.
  unfold get_store_peer in Hlp; cbn [peers] in Hlp. fold (lk ps0 l0) in Hlp.
  unfold prepared in Hprep. unfold build in Hbuild.
  destruct (new_builder i) as [b0|] eqn:Enb; [|discriminate].
  destruct (api_ops b0 (i_ops i)) as [b1|] eqn:Eapi; [|discriminate].
  rewrite Hprep in Hbuild. rewrite Huj in Hbuild.
  destruct (build_joint b) as [bF|] eqn:Ebj; [|discriminate]. inversion Hbuild; subst ss kl kr; clear Hbuild.
  assert (I0 : ApiInv ps0 l0 (i_cluster i) b0).
  { pose proof (new_builder_inv i b0 Enb) as X. rewrite Er in X. cbn [peers leader] in X. apply X; assumption. }
  pose proof (api_ops_inv _ _ _ _ _ _ I0 Eapi) as [A1 A2 A3 A4 A5 A6 A7].
  pose proof (prepare_build_leader _ _ _ Hprep) as Hasked.
  pose proof (prepare_build_spec _ _ _ Hprep) as PF.
  destruct PF as [F1 F2 F3 F4 F5 F6 F7 F8 F9 F10 F11 F12 F13 F14 F15 F16 F17 F18 F19].
  destruct (joint_adds_spec (b_add b) b) as (_ & _ & _ & _ & S5 & S6 & S7).
  set (bx := fold_left joint_add_one (b_add b) b) in *.
  destruct (static_fields _ _ S5) as (Scl & _ & _ & S4 & _ & _ & Sf).
  assert (Hcur : b_cur_leader b = l0) by (rewrite F10; exact A2).
  (* the target leader of the joint script *)
  assert (Htl : Tvoter b (joint_tl b) = true).
  { unfold Tvoter, joint_tl, set_target_leader_if_not_exist. fold bx.
    destruct (b_tleader bx =? 0) eqn:E0; cbn [negb].
    - cbn [b_tleader set_tleader]. destruct (pick_target_leader_spec bx) as [Hz|(p & Hp & Ha)].
      + exfalso. unfold build_joint in Ebj. fold bx in Ebj. unfold set_target_leader_if_not_exist in Ebj. rewrite E0 in Ebj. cbn [negb] in Ebj.
        cbn [b_tleader set_tleader] in Ebj. rewrite Hz in Ebj. cbn in Ebj. discriminate.
      + rewrite S4 in Hp. rewrite Hp. destruct (allow_leader_role _ _ _ Ha) as [R|R]; unfold is_learner; rewrite R; reflexivity.
    - rewrite S6. destruct F18 as [Z0|(Et & p & Hp & Hl)].
      + rewrite S6 in E0. rewrite Z0 in E0. discriminate.
      + rewrite F4. rewrite Hp, Hl. reflexivity. }
  assert (Hl0 : b_origin_leader b <> 0).
  { rewrite F3, A2. intros C. apply lk_Some in Hlp as [Hin Hs]. rewrite C in Hs.
    unfold new_builder in Enb. rewrite Er in Enb. cbn [peers] in Enb.
    destruct (existsb (fun p => pstore p =? 0) ps0) eqn:E; [discriminate|].
    assert (X : existsb (fun p => pstore p =? 0) ps0 = true) by (apply existsb_exists; exists lp; split; [exact Hin|apply Z.eqb_eq; exact Hs]).
    congruence. }
  destruct (build_joint_steps b bF F11 (eq_trans F10 (eq_sym F3)) Hl0 Htl Ebj) as (Htl0 & m & Hsteps & Hmode).
  rewrite Hsteps.
  assert (Hol : b_origin_leader b = l0) by (rewrite F3; exact A2).
  (* wherever the script moves the leader to, the store accepts leaders *)
  assert (Hgo : b_origin_leader b <> joint_tl b ->
                tl_ok (b_cluster b) l0 (b_tleader b) (TransferLeader (b_origin_leader b) (joint_tl b)) = true).
  { intros Hne. cbn [tl_ok]. unfold joint_tl, set_target_leader_if_not_exist in Hne |- *. fold bx in Hne |- *.
    destruct (b_tleader bx =? 0) eqn:E0; cbn [negb] in *.
    - cbn [b_tleader set_tleader] in *. destruct (pick_target_leader_spec bx) as [Hz|(p & Hp & Ha)].
      + exfalso. apply Htl0. unfold joint_tl, set_target_leader_if_not_exist. fold bx. rewrite E0. cbn [negb b_tleader set_tleader]. exact Hz.
      + rewrite Sf, Ef in Ha. pose proof (lk_Some _ _ _ Hp) as [_ Hs]. destruct (allow_store bx p Ha) as [E|E].
        * exfalso. apply Hne. rewrite Hol. rewrite <- Hs, E, S7. symmetry. exact Hcur.
        * rewrite Hs, Scl in E. rewrite E. reflexivity.
    - rewrite S6 in *. destruct Hasked as [Hz|Ha]; [rewrite Hz in E0; discriminate|].
      destruct F18 as [Hz|(_ & p & Hp & _)]; [rewrite Hz in E0; discriminate|].
      rewrite F4 in Ha. rewrite Hp in Ha. cbn [allow_leader_o] in Ha. rewrite Ef in Ha.
      pose proof (lk_Some _ _ _ Hp) as [_ Hs]. destruct (allow_store b p Ha) as [E|E].
      + exfalso. apply Hne. rewrite Hol. rewrite <- Hs, E. symmetry. exact Hcur.
      + rewrite Hs in E. rewrite E. reflexivity. }
  unfold joint_plan. apply tl_ok_app; [apply add_steps_ok|].
  destruct m; cbn [app forallb].
  - destruct Hmode as [Hne _]. rewrite (Hgo Hne). cbn [tl_ok andb]. apply remove_steps_ok.
  - destruct Hmode as [Hne _]. cbn [tl_ok andb]. fold (tl_ok (b_cluster b) l0 (b_tleader b) (TransferLeader (b_origin_leader b) (joint_tl b))).
    rewrite (Hgo Hne). cbn [andb]. apply remove_steps_ok.
  - destruct Hmode as [Hne _]. cbn [tl_ok andb]. fold (tl_ok (b_cluster b) l0 (b_tleader b) (TransferLeader (b_origin_leader b) (joint_tl b))).
    rewrite (Hgo Hne). cbn [andb]. apply remove_steps_ok.
  - cbn [tl_ok andb]. apply remove_steps_ok.
Qed.

Theorem builder_leader_stores_pf i b ss kl kr :
  nodup_stores (peers (i_region i)) = true ->
  is_in_joint (i_region i) = false ->
  (exists lp, get_store_peer (i_region i) (leader (i_region i)) = Some lp /\ prole lp = Voter) ->
  prepared i = Some b -> build i = Built ss kl kr ->
  leader_stores_ok (b_cluster b) (leader (i_region i)) (b_tleader b) (b_force b) ss = true.
Proof.
  intros H1 H2 H3 H4 H5. destruct (b_use_joint b) eqn:E.
  - eapply builder_joint_leader_stores_pf; eauto.
  - eapply builder_nonjoint_leader_stores_pf; eauto.
Qed.
