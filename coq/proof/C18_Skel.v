(* Structural obligations for C18 on the code as it is now (gen/Gen_C18.v is regenerated from /repo on every run).
   The clause tables of the Validate functions are not compared here: the model parses them (model/C18_Config.v)
   and proof/C18_ConfigProof.v states what the parse must yield (sched_clauses_ok etc.). *)
From PDV Require Import lib.Skel gen.Gen_C18.
From Coq Require Import ZArith.

(* dashboard addresses accepted without the member test *)
Lemma dashboard_keywords_ok : dashboard_keywords =
  ["auto"; "none"].
Proof. reflexivity. Qed.

(* the schedulers Reload re-adds (model: add_defaults) *)
Lemma default_schedulers_ok : default_schedulers =
  ["balance-region"; "balance-leader"; "hot-region"].
Proof. reflexivity. Qed.

(* the deprecated trace-region-flow flag is cleared on reload (model: reload_conf = normalise) *)
Lemma skel_PDServer_MigrateDeprecatedFlags_ok : skel_PDServer_MigrateDeprecatedFlags =
  [IfE "!c.TraceRegionFlow" [Assign "c.FlowRoundByDigit" "= math.MaxInt8"] []; Assign "c.TraceRegionFlow" "= false"].
Proof. reflexivity. Qed.

(* the domain of Schedulers[i].Type (model: registered) *)
Lemma registered_types_ok : registered_types =
  ["balance-leader"; "balance-region"; "evict-leader"; "grant-leader"; "hot-region"; "label"; "random-merge"; "scatter-range"; "shuffle-hot-region"; "shuffle-leader"; "shuffle-region"].
Proof. reflexivity. Qed.

(* validate, deprecated-check, remember old, swap, persist, restore the OLD VALUE on failure (model: swap_persist) *)
Lemma skel_SetScheduleConfig_ok : skel_SetScheduleConfig =
  [Call "Validate"; IfE "err != nil" [Ret] []; Call "Deprecated"; IfE "err != nil" [Ret] []; Call "GetScheduleConfig"; Assign "cfg.SchedulersPayload" "= nil"; Call "SetScheduleConfig"; Call "Persist"; IfE "err != nil" [Call "SetScheduleConfig"; Ret] []; Ret].
Proof. reflexivity. Qed.

(* validate; Initialize when placement rules are switched on; CheckInDefaultRule when count/labels change; a COPY of the rule GetRule returned gets the new count / labels (ruleCopy); SetRule; swap; persist; on failure restore the config and, through a fresh copy (rollback) and a second SetRule, count AND labels of the rule (model: repl_init / repl_check / repl_commit) *)
Lemma skel_SetReplicationConfig_ok : skel_SetReplicationConfig =
  [Call "Validate"; IfE "err != nil" [Ret] []; Call "GetReplicationConfig"; IfE "cfg.EnablePlacementRules != old.EnablePlacementRules" [IfE "raftCluster == nil" [Ret] []; IfE "cfg.EnablePlacementRules" [Call "Initialize"; IfE "err != nil" [Ret] []] [ForE [IfE "!s.IsTombstone() && core.IsTiFlashStore(s.GetMeta())" [Ret] []]]] []; IfE "cfg.EnablePlacementRules" [Call "GetRule"; DeferE [IfE "!(defaultRule != nil && len(defaultRule.StartKey) == 0 && len(defaultRule.EndKey) == 0)" [Ret] []; Assign "rule" "= defaultRule"; IfE "!(rule.Count == int(old.MaxReplicas) && sameLabels(rule.LocationLabels, old.LocationLabels))" [Ret] []; Ret]; IfE "!(cfg.MaxReplicas == old.MaxReplicas && sameLabels(cfg.LocationLabels, old.LocationLabels))" [Call "CheckInDefaultRule"; IfE "err != nil" [Ret] []; Assign "rule" "= defaultRule"] []] []; IfE "rule != nil" [Assign "rule" "= &ruleCopy"; Assign "rule.Count" "= int(cfg.MaxReplicas)"; Assign "rule.LocationLabels" "= cfg.LocationLabels"; Call "SetRule"; IfE "err != nil" [Ret] []] []; Call "SetReplicationConfig"; Call "Persist"; IfE "err != nil" [Call "SetReplicationConfig"; IfE "rule != nil" [Assign "rollback.Count" "= int(old.MaxReplicas)"; Assign "rollback.LocationLabels" "= old.LocationLabels"; Call "SetRule"] []; Ret] []; Ret].
Proof. reflexivity. Qed.

(* dashboard address: keyword or (prefixed) member URL, then Validate, swap, persist, restore *)
Lemma skel_SetPDServerConfig_ok : skel_SetPDServerConfig =
  [SwitchE [[]; []; [IfE "!strings.HasPrefix(cfg.DashboardAddress, ""http"")" [Assign "cfg.DashboardAddress" "= fmt.Sprintf(""%s://%s"", s.GetClientScheme(), cfg.DashboardAddress)"] []; Call "IsClientURL"; IfE "!cluster.IsClientURL(cfg.DashboardAddress, s.client)" [Ret] []]]; Call "Validate"; IfE "err != nil" [Ret] []; Call "GetPDServerConfig"; Call "SetPDServerConfig"; Call "Persist"; IfE "err != nil" [Call "SetPDServerConfig"; Ret] []; Ret].
Proof. reflexivity. Qed.

(* old map remembered; the roll-back is SetLabelPropertyConfig(old) (model: swap_persist) *)
Lemma skel_SetLabelProperty_ok : skel_SetLabelProperty =
  [Call "GetLabelPropertyConfig"; Call "SetLabelProperty"; Call "Persist"; IfE "err != nil" [Call "SetLabelPropertyConfig"; Call "GetLabelPropertyConfig"; Ret] []; Call "GetLabelPropertyConfig"; Ret].
Proof. reflexivity. Qed.

(* old map remembered; the roll-back is SetLabelPropertyConfig(old) *)
Lemma skel_DeleteLabelProperty_ok : skel_DeleteLabelProperty =
  [Call "GetLabelPropertyConfig"; Call "DeleteLabelProperty"; Call "Persist"; IfE "err != nil" [Call "SetLabelPropertyConfig"; Call "GetLabelPropertyConfig"; Ret] []; Call "GetLabelPropertyConfig"; Ret].
Proof. reflexivity. Qed.

(* parse, swap, persist, restore *)
Lemma skel_SetClusterVersion_ok : skel_SetClusterVersion =
  [Call "ParseVersion"; IfE "err != nil" [Ret] []; Call "GetClusterVersion"; Call "SetClusterVersion"; Call "Persist"; IfE "err != nil" [Call "SetClusterVersion"; Ret] []; Ret].
Proof. reflexivity. Qed.

(* normalised-mode check, swap, persist (restore on failure), UpdateConfig, on its failure restore and persist again *)
Lemma skel_SetReplicationModeConfig_ok : skel_SetReplicationModeConfig =
  [Call "NormalizeReplicationMode"; IfE "config.NormalizeReplicationMode(cfg.ReplicationMode) == """"" [Ret] []; Call "NormalizeReplicationMode"; Assign "cfg.ReplicationMode" "= config.NormalizeReplicationMode(cfg.ReplicationMode)"; Call "GetReplicationModeConfig"; Call "SetReplicationModeConfig"; Call "Persist"; IfE "err != nil" [Call "SetReplicationModeConfig"; Ret] []; IfE "cluster != nil" [Call "UpdateConfig"; IfE "err != nil" [Call "SetReplicationModeConfig"; Call "Persist"] []; Ret] []; Ret].
Proof. reflexivity. Qed.

(* one SaveConfig of all six sections *)
(* (fix bf6c5d1: the snapshot of the six sections and its write are one step under persistMu - of two overlapping accepted changes the older
   snapshot could otherwise be stored last) *)
Lemma skel_opt_Persist_ok : skel_opt_Persist =
  [Lock "o.persistMu"; DeferUnlock "o.persistMu"; Call "SaveConfig"; Ret].
Proof. reflexivity. Qed.

(* defaults, LoadConfig, adjustScheduleCfg, PDServerCfg.MigrateDeprecatedFlags, then the six stores *)
Lemma skel_opt_Reload_ok : skel_opt_Reload =
  [Call "Adjust"; Call "LoadConfig"; IfE "err != nil" [Ret] []; Call "adjustScheduleCfg"; Call "MigrateDeprecatedFlags"; IfE "isExist" [Call "Store"; Call "Store"; Call "Store"; Call "Store"; Call "Store"; Call "SetClusterVersion"] []; Ret].
Proof. reflexivity. Qed.

Lemma skel_opt_adjustScheduleCfg_ok : skel_opt_adjustScheduleCfg =
  [ForE [DeferE [Ret]; Call "NoneOf"; IfE "slice.NoneOf(scheduleCfg.Schedulers, func(i int) bool { return scheduleCfg.Schedulers[i].Type == ps.Type })" [Call "append"] []]; Call "MigrateDeprecatedFlags"].
Proof. reflexivity. Qed.

Lemma skel_opt_SetLabelProperty_ok : skel_opt_SetLabelProperty =
  [Call "Clone"; ForE [IfE "l.Key == labelKey && l.Value == labelValue" [Ret] []]; Call "append"; Call "Store"].
Proof. reflexivity. Qed.

Lemma skel_opt_DeleteLabelProperty_ok : skel_opt_DeleteLabelProperty =
  [Call "Clone"; ForE [Call "append"]; IfE "len(cfg[typ]) == 0" [Call "delete"] []; Call "Store"].
Proof. reflexivity. Qed.

Lemma guards_opt_SetLabelProperty_ok : guards_opt_SetLabelProperty =
  [("l.Key == labelKey && l.Value == labelValue", "return")].
Proof. reflexivity. Qed.

Lemma guards_opt_DeleteLabelProperty_ok : guards_opt_DeleteLabelProperty =
  [("l.Key == labelKey && l.Value == labelValue", "continue"); ("len(cfg[typ]) == 0", "...")].
Proof. reflexivity. Qed.

(* GetRule returns the rule object of the rule config itself, no Clone: callers must copy before editing *)
Lemma skel_rm_GetRule_ok : skel_rm_GetRule =
  [RLock "m"; DeferRUnlock "m"; Call "getRule"; Ret].
Proof. reflexivity. Qed.

(* trim() before savePatch: a rule equal to the existing one is dropped from the patch; a changed one is saved, then committed *)
Lemma skel_rm_tryCommitPatch_ok : skel_rm_tryCommitPatch =
  [IfE "err != nil" [Ret] []; Call "trim"; Call "savePatch"; IfE "err != nil" [Ret] []; Call "commit"; Ret].
Proof. reflexivity. Qed.

(* ---------- aliasing obligations (API path): what a getter hands out shares no mutable storage with the served value ----------
   The HTTP handlers take Server.Get*Config() / GetConfig(), json.Unmarshal the request INTO that value and only then call
   Set*Config (which validates).  json.Unmarshal re-uses the backing array of a slice whose capacity suffices and decodes
   into existing maps and pointed-to structs in place, so every slice / map / pointer reachable from a getter's result must be
   a fresh copy: the full-slice expressions `[:0:0]` (capacity 0 forces append to allocate), the map copy loops and the
   `.Clone()` in every getter are pinned here; reffields_* pins the list of fields that are not plain values, so that a new
   slice / map field without a copy is noticed.  The driver's API-path class finds the concrete request when one is lost. *)
Lemma copy_Config_Clone_ok : copy_Config_Clone =
  ["cfg := *c"; "return &cfg"].
Proof. reflexivity. Qed.
Lemma copy_ScheduleConfig_Clone_ok : copy_ScheduleConfig_Clone =
  ["schedulers := append(c.Schedulers[:0:0], c.Schedulers...)"; "var storeLimit map[uint64]StoreLimitConfig"; "if c.StoreLimit != nil { storeLimit = make(map[uint64]StoreLimitConfig, len(c.StoreLimit)) for k, v := range c.StoreLimit { storeLimit[k] = v } }"; "cfg := *c"; "cfg.StoreLimit = storeLimit"; "cfg.Schedulers = schedulers"; "cfg.SchedulersPayload = nil"; "return &cfg"].
Proof. reflexivity. Qed.
Lemma copy_ReplicationConfig_Clone_ok : copy_ReplicationConfig_Clone =
  ["locationLabels := append(c.LocationLabels[:0:0], c.LocationLabels...)"; "cfg := *c"; "cfg.LocationLabels = locationLabels"; "return &cfg"].
Proof. reflexivity. Qed.
Lemma copy_PDServerConfig_Clone_ok : copy_PDServerConfig_Clone =
  ["runtimeServices := append(c.RuntimeServices[:0:0], c.RuntimeServices...)"; "cfg := *c"; "cfg.RuntimeServices = runtimeServices"; "return &cfg"].
Proof. reflexivity. Qed.
Lemma copy_LabelPropertyConfig_Clone_ok : copy_LabelPropertyConfig_Clone =
  ["m := make(map[string][]StoreLabel, len(c))"; "for k, sl := range c { sl2 := make([]StoreLabel, 0, len(sl)) sl2 = append(sl2, sl...) m[k] = sl2 }"; "return m"].
Proof. reflexivity. Qed.
Lemma copy_ReplicationModeConfig_Clone_ok : copy_ReplicationModeConfig_Clone =
  ["cfg := *c"; "return &cfg"].
Proof. reflexivity. Qed.
Lemma reffields_ScheduleConfig_ok : reffields_ScheduleConfig =
  ["SplitMergeInterval: typeutil.Duration"; "PatrolRegionInterval: typeutil.Duration"; "MaxStoreDownTime: typeutil.Duration"; "StoreLimit: map[uint64]StoreLimitConfig"; "Schedulers: SchedulerConfigs"; "SchedulersPayload: map[string]interface{}"].
Proof. reflexivity. Qed.
Lemma reffields_ReplicationConfig_ok : reffields_ReplicationConfig =
  ["LocationLabels: typeutil.StringSlice"].
Proof. reflexivity. Qed.
Lemma reffields_PDServerConfig_ok : reffields_PDServerConfig =
  ["MaxResetTSGap: typeutil.Duration"; "RuntimeServices: typeutil.StringSlice"].
Proof. reflexivity. Qed.
Lemma reffields_ReplicationModeConfig_ok : reffields_ReplicationModeConfig =
  ["DRAutoSync: DRAutoSyncReplicationConfig"].
Proof. reflexivity. Qed.
Lemma reffields_DRAutoSyncReplicationConfig_ok : reffields_DRAutoSyncReplicationConfig =
  ["WaitStoreTimeout: typeutil.Duration"; "WaitSyncTimeout: typeutil.Duration"; "WaitAsyncTimeout: typeutil.Duration"].
Proof. reflexivity. Qed.
Lemma getter_GetScheduleConfig_ok : getter_GetScheduleConfig =
  ["return s.persistOptions.GetScheduleConfig().Clone()"].
Proof. reflexivity. Qed.
Lemma getter_GetReplicationConfig_ok : getter_GetReplicationConfig =
  ["return s.persistOptions.GetReplicationConfig().Clone()"].
Proof. reflexivity. Qed.
Lemma getter_GetPDServerConfig_ok : getter_GetPDServerConfig =
  ["return s.persistOptions.GetPDServerConfig().Clone()"].
Proof. reflexivity. Qed.
Lemma getter_GetLabelProperty_ok : getter_GetLabelProperty =
  ["return s.persistOptions.GetLabelPropertyConfig().Clone()"].
Proof. reflexivity. Qed.
(* fix e37f37e: before it this getter returned the served pointer (no Clone) and api_SetReplicationMode unmarshalled the request into it
   before SetReplicationModeConfig validated: a rejected POST /config/replication-mode changed what is served *)
Lemma getter_GetReplicationModeConfig_ok : getter_GetReplicationModeConfig =
  ["return s.persistOptions.GetReplicationModeConfig().Clone()"].
Proof. reflexivity. Qed.
Lemma getter_GetClusterVersion_ok : getter_GetClusterVersion =
  ["return *s.persistOptions.GetClusterVersion()"].
Proof. reflexivity. Qed.
Lemma getter_GetConfig_sections_ok : getter_GetConfig_sections =
  ["cfg := s.cfg.Clone()"; "cfg.Schedule = *s.persistOptions.GetScheduleConfig().Clone()"; "cfg.Replication = *s.persistOptions.GetReplicationConfig().Clone()"; "cfg.PDServerCfg = *s.persistOptions.GetPDServerConfig().Clone()"; "cfg.ReplicationMode = *s.persistOptions.GetReplicationModeConfig()"; "cfg.LabelProperty = s.persistOptions.GetLabelPropertyConfig().Clone()"; "cfg.ClusterVersion = *s.persistOptions.GetClusterVersion()"; "cfg.Schedule.SchedulersPayload = payload"].
Proof. reflexivity. Qed.
Lemma api_SetSchedule_ok : api_SetSchedule =
  ["config := h.svr.GetScheduleConfig()"; "if err := apiutil.ReadJSONRespondError(h.rd, w, r.Body, &config); err != nil { return }"; "if err := h.svr.SetScheduleConfig(*config); err != nil { h.rd.JSON(w, http.StatusInternalServerError, err.Error()) return }"].
Proof. reflexivity. Qed.
Lemma api_SetReplication_ok : api_SetReplication =
  ["config := h.svr.GetReplicationConfig()"; "if err := apiutil.ReadJSONRespondError(h.rd, w, r.Body, &config); err != nil { return }"; "if err := h.svr.SetReplicationConfig(*config); err != nil { h.rd.JSON(w, http.StatusInternalServerError, err.Error()) return }"].
Proof. reflexivity. Qed.
Lemma api_SetReplicationMode_ok : api_SetReplicationMode =
  ["config := h.svr.GetReplicationModeConfig()"; "if err := apiutil.ReadJSONRespondError(h.rd, w, r.Body, &config); err != nil { return }"; "if err := h.svr.SetReplicationModeConfig(*config); err != nil { h.rd.JSON(w, http.StatusInternalServerError, err.Error()) return }"].
Proof. reflexivity. Qed.
Lemma api_Post_ok : api_Post =
  ["cfg := h.svr.GetConfig()"].
Proof. reflexivity. Qed.
Lemma api_updateSchedule_ok : api_updateSchedule =
  ["updated, found, err := h.mergeConfig(&config.Schedule, data)"; "if updated { err = h.svr.SetScheduleConfig(config.Schedule) }"].
Proof. reflexivity. Qed.
Lemma api_updateReplication_ok : api_updateReplication =
  ["updated, found, err := h.mergeConfig(&config.Replication, data)"; "if updated { err = h.svr.SetReplicationConfig(config.Replication) }"].
Proof. reflexivity. Qed.
Lemma api_updateReplicationModeConfig_ok : api_updateReplicationModeConfig =
  ["updated, found, err := h.mergeConfig(&config.ReplicationMode, data)"; "if updated { err = h.svr.SetReplicationModeConfig(config.ReplicationMode) }"].
Proof. reflexivity. Qed.
Lemma api_updatePDServerConfig_ok : api_updatePDServerConfig =
  ["updated, found, err := h.mergeConfig(&config.PDServerCfg, data)"; "if updated { err = h.svr.SetPDServerConfig(config.PDServerCfg) }"].
Proof. reflexivity. Qed.
Lemma api_mergeConfig_ok : api_mergeConfig =
  ["if err := json.Unmarshal(data, v); err != nil { return false, false, err }"].
Proof. reflexivity. Qed.

(* the etcd-backed kv.Base under Storage.SaveConfig (shared infrastructure): one put; its error - whatever etcd answers - is handed up, and an
   unsuccessful transaction is an error too: the model's write is either applied or not, acknowledged or not, never "refused but reported fine" *)
Lemma skel_etcdKVBase_Save_ok : skel_etcdKVBase_Save =
  [Call "Commit"; IfE "err != nil" [Ret] []; IfE "!resp.Succeeded" [Ret] []; Ret].
Proof. reflexivity. Qed.
