(* C08 — what prepareBuild computes, store by store: toAdd / toRemove / toPromote / toDemote as lookups. *)
From Coq Require Import String Sorting.Sorted.
From PDV Require Import lib.Base gen.Gen_C08 model.C08_Steps model.C08_Builder
     proof.C08_ListFacts proof.C08_PmapFacts.
Local Open Scope list_scope.
Local Open Scope Z_scope.

(* a conditional insertion fold *)
Definition cfold (f : peer -> option peer) (l : list peer) (m0 : pmap) : pmap :=
  fold_left (fun m o => match f o with Some n => pm_set m n | None => m end) l m0.

Lemma cfold_get f : forall l m0 st,
  (forall o n, f o = Some n -> pstore n = pstore o) -> ND l ->
  pm_get (cfold f l m0) st = match lk l st with
                             | Some o => match f o with Some n => Some n | None => pm_get m0 st end
                             | None => pm_get m0 st
                             end.
Proof.
  unfold cfold. induction l as [|o r IH]; intros m0 st Hf Hnd; cbn [fold_left]; [reflexivity|].
  unfold ND in Hnd. cbn [map] in Hnd. inversion Hnd as [|? ? Hn Hd]; subst.
  rewrite IH by assumption.
  assert (G : pm_get (match f o with Some n => pm_set m0 n | None => m0 end) st =
              if pstore o =? st then (match f o with Some n => Some n | None => pm_get m0 st end) else pm_get m0 st).
  { destruct (f o) as [n|] eqn:Fo.
    - rewrite pm_get_set, (Hf o n Fo). reflexivity.
    - destruct (pstore o =? st); reflexivity. }
  unfold lk at 2. cbn [find]. fold (lk r st). unfold on_store at 1.
  destruct (lk r st) as [q|] eqn:E.
  - destruct (pstore o =? st) eqn:E2.
    + apply Z.eqb_eq in E2. apply lk_Some in E as [E3 E4]. exfalso. apply Hn. rewrite E2, <- E4. apply in_map. exact E3.
    + rewrite G. reflexivity.
  - rewrite G. destruct (pstore o =? st); reflexivity.
Qed.

Lemma cfold_sorted f : forall l m0, PSorted m0 -> PSorted (cfold f l m0).
Proof.
  unfold cfold. induction l as [|o r IH]; intros m0 H; cbn [fold_left]; [exact H|].
  apply IH. destruct (f o); [apply pm_set_sorted|]; exact H.
Qed.

(* the three accumulators of prepareBuild's first loop, separately *)
Section Prepare.
  Variables (target : pmap) (allow : bool).

  Definition retarget (o n0 : peer) : peer := if negb (pid o =? pid n0) then Peer (pstore o) (pid o) (prole n0) else n0.

  Definition f_rem (o : peer) : option peer :=
    match pm_get target (pstore o) with
    | None => Some o
    | Some n0 => if is_learner o then None
                 else if is_learner (retarget o n0) then (if allow then None else Some o) else None
    end.
  Definition f_pro (o : peer) : option peer :=
    match pm_get target (pstore o) with
    | None => None
    | Some n0 => if is_learner o then (if negb (is_learner (retarget o n0)) then Some (retarget o n0) else None) else None
    end.
  Definition f_dem (o : peer) : option peer :=
    match pm_get target (pstore o) with
    | None => None
    | Some n0 => if is_learner o then None
                 else if is_learner (retarget o n0) then (if allow then Some (retarget o n0) else None) else None
    end.

  Definition step_o (acc : pmap * pmap * pmap) (o : peer) : pmap * pmap * pmap :=
    let '(rem, pro, dem) := acc in
    match pm_get target (pstore o) with
    | None => (pm_set rem o, pro, dem)
    | Some n0 =>
        let n := if negb (pid o =? pid n0) then Peer (pstore o) (pid o) (prole n0) else n0 in
        if is_learner o then (if negb (is_learner n) then (rem, pm_set pro n, dem) else acc)
        else if is_learner n then
               (if allow then (rem, pro, pm_set dem n) else (pm_set rem o, pro, dem))
             else acc
    end.

  Lemma step_o_one r p d o :
    step_o (r, p, d) o = (match f_rem o with Some n => pm_set r n | None => r end,
                          match f_pro o with Some n => pm_set p n | None => p end,
                          match f_dem o with Some n => pm_set d n | None => d end).
  Proof.
    unfold step_o, f_rem, f_pro, f_dem, retarget.
    destruct (pm_get target (pstore o)) as [n0|]; [|reflexivity].
    destruct (is_learner o).
    - destruct (negb (is_learner (if negb (pid o =? pid n0) then Peer (pstore o) (pid o) (prole n0) else n0))); reflexivity.
    - destruct (is_learner (if negb (pid o =? pid n0) then Peer (pstore o) (pid o) (prole n0) else n0)); [destruct allow|]; reflexivity.
  Qed.

  Lemma step_o_split : forall l r p d,
    fold_left step_o l (r, p, d) = (cfold f_rem l r, cfold f_pro l p, cfold f_dem l d).
  Proof.
    unfold cfold. induction l as [|o l IH]; intros r p d; cbn [fold_left]; [reflexivity|].
    rewrite step_o_one. apply IH.
  Qed.
End Prepare.

Lemma retarget_store o n0 : pstore n0 = pstore o -> pstore (retarget o n0) = pstore o.
Proof. intros H. unfold retarget. destruct (negb (pid o =? pid n0)); [reflexivity|exact H]. Qed.

Lemma retarget_eta o n0 : pstore n0 = pstore o -> retarget o n0 = Peer (pstore o) (pid o) (prole n0).
Proof.
  intros H. unfold retarget. destruct (pid o =? pid n0) eqn:E; cbn [negb]; [|reflexivity].
  apply Z.eqb_eq in E. destruct n0 as [s i ro]; cbn in *. subst. reflexivity.
Qed.

Lemma retarget_learner o n0 : is_learner (retarget o n0) = is_learner n0.
Proof. unfold retarget, is_learner. destruct (negb (pid o =? pid n0)); reflexivity. Qed.

Definition f_add (origin : pmap) (allow : bool) (alloc : list (Z * Z)) (n : peer) : option peer :=
  let o := pm_get origin (pstore n) in
  if negb (is_some o) || (negb allow && negb (olearner o) && is_learner n)
  then Some (if (pid n =? 0) || is_some o then Peer (pstore n) (alloc_of alloc (pstore n)) (prole n) else n)
  else None.

Lemma fold_left_ext_eq {A B} (f g : A -> B -> A) l : (forall a x, f a x = g a x) -> forall a, fold_left f l a = fold_left g l a.
Proof. intros H. induction l as [|x r IH]; intros a; cbn [fold_left]; [reflexivity|]. rewrite H. apply IH. Qed.

Record prepared_from (b b' : bstate) (alloc : list (Z * Z)) : Prop := {
  pf_cluster : b_cluster b' = b_cluster b;
  pf_origin : b_origin b' = b_origin b;
  pf_oleader : b_origin_leader b' = b_origin_leader b;
  pf_target : b_target b' = b_target b;
  pf_roles : b_roles b' = b_roles b;
  pf_allow : b_allow_demote b' = b_allow_demote b;
  pf_light : b_light b' = b_light b;
  pf_force : b_force b' = b_force b;
  pf_cur : b_cur b' = b_origin b;
  pf_curl : b_cur_leader b' = b_origin_leader b;
  pf_steps : b_steps b' = [];
  pf_addstep : b_addstep b' = [];
  pf_rem : b_remove b' = cfold (f_rem (b_target b) (b_allow_demote b)) (b_origin b) [];
  pf_pro : b_promote b' = cfold (f_pro (b_target b)) (b_origin b) [];
  pf_dem : b_demote b' = cfold (f_dem (b_target b) (b_allow_demote b)) (b_origin b) [];
  pf_add : b_add b' = cfold (f_add (b_origin b) (b_allow_demote b) alloc) (b_target b) [];
  pf_voters : countb (fun p => negb (is_learner p)) (b_target b) <> 0;
  pf_tleader : b_tleader b' = 0 \/
               (b_tleader b' = b_tleader b /\ exists p, pm_get (b_target b) (b_tleader b') = Some p /\ is_learner p = false);
  pf_joint : b_use_joint b' = true -> b_use_joint b = true /\ (2 <= pending b')%nat
}.

Lemma prepare_build_spec b alloc b' : prepare_build b alloc = Some b' -> prepared_from b b' alloc.
Proof.
  unfold prepare_build.
  destruct (countb (fun p => negb (is_learner p)) (b_target b) =? 0) eqn:Ev; [discriminate|].
  apply Z.eqb_neq in Ev.
  change (fold_left _ (b_origin b) ([], [], [])) with (fold_left (step_o (b_target b) (b_allow_demote b)) (b_origin b) ([], [], [])).
  rewrite step_o_split.
  match goal with |- context [fold_left ?F (b_target b) []] =>
    replace (fold_left F (b_target b) []) with (cfold (f_add (b_origin b) (b_allow_demote b) alloc) (b_target b) [])
  end.
  2:{ unfold cfold. apply fold_left_ext_eq. intros a x. unfold f_add.
      destruct (negb (is_some (pm_get (b_origin b) (pstore x))) || negb (b_allow_demote b) && negb (olearner (pm_get (b_origin b) (pstore x))) && is_learner x); reflexivity. }
  set (rem := cfold (f_rem (b_target b) (b_allow_demote b)) (b_origin b) []).
  set (pro := cfold (f_pro (b_target b)) (b_origin b) []).
  set (dem := cfold (f_dem (b_target b) (b_allow_demote b)) (b_origin b) []).
  set (add := cfold (f_add (b_origin b) (b_allow_demote b) alloc) (b_target b) []).
  set (tl := match pm_get (b_target b) (b_tleader b) with Some p => if is_learner p then 0 else b_tleader b | None => 0 end).
  match goal with |- (if ?c then _ else _) = _ -> _ => destruct c; [discriminate|] end.
  intros H. inversion H; subst b'; clear H. cbn.
  constructor; cbn; try reflexivity; try exact Ev.
  - unfold tl. destruct (pm_get (b_target b) (b_tleader b)) as [p|] eqn:E; [|left; reflexivity].
    destruct (is_learner p) eqn:El; [left; reflexivity|]. right. split; [reflexivity|]. exists p. auto.
  - match goal with |- context [(?n <=? 1)%nat] => destruct (n <=? 1)%nat eqn:En end; [discriminate|].
    intros Hj. split; [exact Hj|]. apply Nat.leb_gt in En. unfold pending; cbn. unfold pending in En; cbn in En. lia.
Qed.
