(* C13 — frame of an accepted update (model/C13_Rules.v, `names_key`): the patch an update builds has
   entries only under keys the update names (group ids compared for equality), and carries only rules of
   the update; committing it leaves every other served rule as it was, and serves no rule that was not
   served before or carried by the update. *)
From Coq Require Import String Permutation Sorting.Sorted.
From PDV Require Import lib.Base lib.C12_Order lib.C13_Map gen.Gen_C13 model.C13_Rules
  proof.C13_RulesProof proof.C13_UpdateProof proof.C13_HistoryProof.
Local Open Scope list_scope.

Lemma key_eqb_refl k : key_eqb k k = true.
Proof. apply key_eqb_eq. reflexivity. Qed.

Definition fill (g : id) (r : rule) : rule := if is_nil (r_gid r) then set_gid r g else r.

Lemma valid_gid r : valid r -> is_nil (r_gid r) = false.
Proof.
  rewrite valid_iff. unfold content_ok. intros H.
  apply andb_true_iff in H as [H _]. apply andb_true_iff in H as [_ H].
  apply negb_true_iff, orb_false_iff in H as [H _]. exact H.
Qed.

Lemma adjust_rule_fill r g r' : adjust_rule r (Some g) = Some r' -> r' = fill g r.
Proof.
  rewrite adjust_rule_some_spec. unfold fill.
  destruct (is_nil g).
  - intros H. destruct (adjust_rule_none r r' H) as [-> V]. rewrite (valid_gid r V). reflexivity.
  - destruct (is_nil (r_gid r)) eqn:E.
    + intros H. destruct (adjust_rule_none _ r' H) as [-> _]. reflexivity.
    + destruct (key_eqb g (r_gid r)); [|discriminate]. intros H. destruct (adjust_rule_none r r' H) as [-> _]. reflexivity.
Qed.

Lemma adjust_all_none rs : forall rs', adjust_all rs None = Some rs' -> rs' = rs.
Proof.
  induction rs as [|r rest IH]; intros rs' H; cbn in H; [inversion H; reflexivity|].
  destruct (adjust_rule r None) as [r1|] eqn:E; [|discriminate].
  destruct (adjust_all rest None) as [l|]; [|discriminate]. inversion H; subst.
  destruct (adjust_rule_none r r1 E) as [-> _]. rewrite (IH l eq_refl). reflexivity.
Qed.

Lemma adjust_all_fill g rs : forall rs', adjust_all rs (Some g) = Some rs' -> rs' = map (fill g) rs.
Proof.
  induction rs as [|r rest IH]; intros rs' H; cbn in H; [inversion H; reflexivity|].
  destruct (adjust_rule r (Some g)) as [r1|] eqn:E; [|discriminate].
  destruct (adjust_all rest (Some g)) as [l|]; [|discriminate]. inversion H; subst.
  rewrite (adjust_rule_fill r g r1 E), (IH l eq_refl). reflexivity.
Qed.

Lemma rules_of_update_with um u : rules_of_update (UWithStores um u) = rules_of_update u.
Proof. destruct u; reflexivity. Qed.

Lemma names_key_with um u g i : names_key (UWithStores um u) g i = names_key u g i.
Proof. unfold names_key. rewrite rules_of_update_with. reflexivity. Qed.

(* ---------- the invariant of a patch under construction ---------- *)
Section Inv.
  Variables (N : id * id -> Prop) (C : rule -> Prop).
  Definition pinv (p : patch) : Prop :=
    forall k w, In (k, w) (m_rules p) -> N k /\ (forall r, w = Some r -> C r).

  Lemma pinv_empty : pinv empty_patch.
  Proof. intros k w []. Qed.

  Lemma pinv_set_rule r p : N (rkey r) -> C r -> pinv p -> pinv (p_set_rule r p).
  Proof.
    intros Hn Hc Hp k w Hin. unfold p_set_rule in Hin. cbn [m_rules] in Hin.
    apply (aset_In pair_cmp) in Hin as [E|Hin]; [|apply Hp; exact Hin].
    inversion E; subst. split; [exact Hn|]. intros r0 E0. inversion E0; subst. exact Hc.
  Qed.

  Lemma pinv_delete_rule g i p : N (g, i) -> pinv p -> pinv (p_delete_rule g i p).
  Proof.
    intros Hn Hp k w Hin. unfold p_delete_rule in Hin. cbn [m_rules] in Hin.
    apply (aset_In pair_cmp) in Hin as [E|Hin]; [|apply Hp; exact Hin].
    inversion E; subst. split; [exact Hn|]. intros r0 E0. discriminate.
  Qed.

  Lemma pinv_set_group g p : pinv p -> pinv (p_set_group g p).
  Proof. intros Hp k w Hin. apply Hp. exact Hin. Qed.

  Lemma pinv_delete_group g p : pinv p -> pinv (p_delete_group g p).
  Proof. apply pinv_set_group. Qed.

  Lemma pinv_fold {X} (f : patch -> X -> patch) (l : list X) :
    (forall p x, In x l -> pinv p -> pinv (f p x)) -> forall p, pinv p -> pinv (fold_left f l p).
  Proof.
    induction l as [|x rest IH]; intros Hf p Hp; [exact Hp|]. cbn [fold_left].
    apply IH; [intros p' x' Hin; apply Hf; right; exact Hin|]. apply Hf; [left; reflexivity|exact Hp].
  Qed.
End Inv.

Definition named (u : update) (k : id * id) : Prop := names_key u (fst k) (snd k) = true.
Definition carried (u : update) (r : rule) : Prop := In r (rules_of_update u).

Lemma named_carried u r : carried u r -> named u (rkey r).
Proof.
  intros H. unfold named, names_key. apply orb_true_iff. left. apply existsb_exists.
  exists r. split; [exact H|]. cbn. rewrite !key_eqb_refl. reflexivity.
Qed.

Lemma named_go u g i :
  (fix go (u : update) : bool :=
     match u with
     | UDeleteRule g' i' => key_eqb g' g && key_eqb i' i
     | UBatch ops => existsb (fun o => match o with
                                       | BDel g' i' false => key_eqb g' g && key_eqb i' i
                                       | BDel g' i' true => key_eqb g' g && is_prefix i' i
                                       | BAdd _ => false
                                       end) ops
     | USetBundle b => key_eqb (b_id b) g
     | USetAllBundles bs ov => ov || existsb (fun b => key_eqb (b_id b) g) bs
     | UDeleteBundle g' => key_eqb g' g
     | UWithStores _ u' => go u'
     | _ => false
     end) u = true -> named u (g, i).
Proof. intros H. unfold named, names_key. cbn [fst snd]. rewrite H. apply orb_true_r. Qed.

Lemma bundle_patch_inv u b p p' :
  (forall r, In r (b_rules b) -> carried u (fill (b_id b) r)) ->
  pinv (named u) (carried u) p -> bundle_patch b p = Some p' -> pinv (named u) (carried u) p'.
Proof.
  intros Hb Hp E. unfold bundle_patch in E.
  destruct (adjust_all (b_rules b) (Some (b_id b))) as [rs|] eqn:Ea; [|discriminate]. inversion E; subst. clear E.
  rewrite (adjust_all_fill _ _ _ Ea).
  apply pinv_fold; [|apply pinv_set_group; exact Hp].
  intros p0 x Hin H0. apply in_map_iff in Hin as [r [<- Hr]].
  assert (Cr : carried u (fill (b_id b) r)) by (apply Hb; exact Hr).
  apply pinv_set_rule; [apply named_carried; exact Cr|exact Cr|exact H0].
Qed.

Theorem make_patch_frame c u : forall p, make_patch c u = Some p -> pinv (named u) (carried u) p.
Proof.
  induction u as [r|g i|rs|ops|gr|gid|b|bs ov|gid|um u IH]; intros p H; cbn [make_patch] in H.
  - destruct (adjust_rule r None) as [r'|] eqn:E; [|discriminate]. inversion H; subst.
    destruct (adjust_rule_none r r' E) as [-> _].
    assert (Cr : carried (USetRule r) r) by (left; reflexivity).
    apply pinv_set_rule; [apply named_carried; exact Cr|exact Cr|apply pinv_empty].
  - inversion H; subst. apply pinv_delete_rule; [|apply pinv_empty].
    apply named_go. rewrite !key_eqb_refl. reflexivity.
  - destruct (adjust_all rs None) as [rs'|] eqn:E; [|discriminate]. inversion H; subst.
    rewrite (adjust_all_none _ _ E). apply pinv_fold; [|apply pinv_empty].
    intros p0 x Hin H0. assert (Cr : carried (USetRules rs) x) by exact Hin.
    apply pinv_set_rule; [apply named_carried; exact Cr|exact Cr|exact H0].
  - destruct (adjust_all _ None); [|discriminate]. inversion H; subst. clear H.
    apply pinv_fold; [|apply pinv_empty].
    intros p0 o Hin H0. destruct o as [r|g i [|]].
    + destruct (adjust_rule r None) as [r'|] eqn:E; [|exact H0].
      destruct (adjust_rule_none r r' E) as [-> _].
      assert (Cr : carried (UBatch ops) r).
      { unfold carried. cbn [rules_of_update]. apply in_flat_map. exists (BAdd r). split; [exact Hin|left; reflexivity]. }
      apply pinv_set_rule; [apply named_carried; exact Cr|exact Cr|exact H0].
    + apply pinv_fold; [|exact H0]. intros p1 kr _ H1.
      destruct (key_eqb (r_gid (snd kr)) g && is_prefix i (r_id (snd kr))) eqn:Ec; [|exact H1].
      apply andb_true_iff in Ec as [E1 E2]. apply key_eqb_eq in E1.
      apply pinv_delete_rule; [|exact H1]. apply named_go. apply existsb_exists.
      exists (BDel g i true). split; [exact Hin|]. rewrite E1, key_eqb_refl, E2. reflexivity.
    + apply pinv_delete_rule; [|exact H0]. apply named_go. apply existsb_exists.
      exists (BDel g i false). split; [exact Hin|]. rewrite !key_eqb_refl. reflexivity.
  - destruct (gid_ok (g_id gr)); [|discriminate]. inversion H; subst. apply pinv_set_group. apply pinv_empty.
  - inversion H; subst. apply pinv_delete_group. apply pinv_empty.
  - destruct (negb (gid_ok (b_id b))); [discriminate|].
    eapply bundle_patch_inv; [| |exact H].
    + intros r Hr. unfold carried. cbn [rules_of_update]. apply in_map_iff. exists r. split; [reflexivity|exact Hr].
    + destruct (gget (b_id b) (c_groups c)); [|apply pinv_empty].
      apply pinv_fold; [|apply pinv_empty]. intros p1 kr _ H1.
      destruct (key_eqb (fst (fst kr)) (b_id b)) eqn:Ec; [|exact H1]. apply key_eqb_eq in Ec.
      apply pinv_delete_rule; [|exact H1]. apply named_go. rewrite Ec. apply key_eqb_refl.
  - destruct (negb (forallb (fun b => gid_ok (b_id b)) bs)); [discriminate|].
    match type of H with fold_left ?f bs (Some ?p1) = _ => set (P1 := p1) in *; set (F := f) in * end.
    assert (HP1 : pinv (named (USetAllBundles bs ov)) (carried (USetAllBundles bs ov)) P1).
    { unfold P1. apply pinv_fold.
      - intros p1 kg _ H1. destruct (ov || existsb _ bs); [apply pinv_delete_group|]; exact H1.
      - apply pinv_fold; [|apply pinv_empty]. intros p1 kr _ H1.
        destruct (ov || existsb _ bs) eqn:Ec; [|exact H1].
        apply pinv_delete_rule; [|exact H1]. apply named_go. exact Ec. }
    clearbody P1.
    assert (G : forall l, (forall b, In b l -> In b bs) -> forall op p', fold_left F l op = Some p' ->
                (forall q, op = Some q -> pinv (named (USetAllBundles bs ov)) (carried (USetAllBundles bs ov)) q) ->
                pinv (named (USetAllBundles bs ov)) (carried (USetAllBundles bs ov)) p').
    { induction l as [|b rest IHl]; intros Hsub op p' E Hop; cbn [fold_left] in E; [apply Hop; exact E|].
      apply (IHl (fun b0 Hb0 => Hsub b0 (or_intror Hb0)) _ _ E). intros q Eq. unfold F in Eq.
      destruct op as [p0|]; [|discriminate].
      eapply bundle_patch_inv; [|apply Hop; reflexivity|exact Eq].
      intros r Hr. unfold carried. cbn [rules_of_update]. apply in_flat_map. exists b.
      split; [apply Hsub; left; reflexivity|]. apply in_map_iff. exists r. split; [reflexivity|exact Hr]. }
    apply (G bs (fun b Hb => Hb) _ _ H). intros q Eq. inversion Eq; subst. exact HP1.
  - inversion H; subst. apply pinv_fold.
    + intros p1 kg _ H1. destruct (key_eqb (fst kg) gid); [apply pinv_delete_group|]; exact H1.
    + apply pinv_fold; [|apply pinv_empty]. intros p1 kr _ H1.
      destruct (key_eqb (fst (fst kr)) gid) eqn:Ec; [|exact H1]. apply key_eqb_eq in Ec.
      apply pinv_delete_rule; [|exact H1]. apply named_go. rewrite Ec. apply key_eqb_refl.
  - destruct (existsb _ (added_rules u)); [discriminate|]. specialize (IH p H).
    intros k w Hin. destruct (IH k w Hin) as [A B]. split.
    + unfold named. rewrite names_key_with. exact A.
    + intros r Er. unfold carried. rewrite rules_of_update_with. apply B. exact Er.
Qed.

(* ---------- committing the patch ---------- *)
Lemma r_ver_set_group r g : r_ver (set_group r g) = r_ver r.
Proof. destruct r; reflexivity. Qed.

Definition cver (c : config) (k : id * id) : option Z := option_map r_ver (rget k (c_rules c)).

Lemma c1_get c p k :
  mget pair_cmp k (c_rules (fst (patch_adjust c p))) =
  option_map (fun r => match mget pair_cmp k (m_rules p) with
                       | Some _ => r
                       | None => set_group r (Some (p_get_group c p (r_gid r)))
                       end) (mget pair_cmp k (c_rules c)).
Proof.
  rewrite c1_rules. induction (c_rules c) as [|[k0 r0] rest IH]; [reflexivity|].
  cbn [map fst snd]. destruct (mget pair_cmp k0 (m_rules p)) eqn:E0; cbn [aget].
  - destruct (pair_cmp k k0) eqn:Ek; [|exact IH|exact IH].
    apply pair_cmp_eq in Ek. subst k0. rewrite E0. reflexivity.
  - destruct (pair_cmp k k0) eqn:Ek; [|exact IH|exact IH].
    apply pair_cmp_eq in Ek. subst k0. rewrite E0. reflexivity.
Qed.

Section CommitFrame.
  Variables (c : config) (p : patch).
  Hypothesis Hc : conf_ok c.
  Hypothesis Hp : patch_ok p.
  Let c' := patch_commit (fst (patch_adjust c p)) (patch_trim (fst (patch_adjust c p)) (snd (patch_adjust c p))).

  Lemma committed_get k :
    rget k (c_rules c') =
    option_map (fun r => set_group r (gget (r_gid r) (c_groups c')))
      (match mget pair_cmp k (m_rules (patch_trim (fst (patch_adjust c p)) (snd (patch_adjust c p)))) with
       | Some w => w
       | None => mget pair_cmp k (c_rules (fst (patch_adjust c p)))
       end).
  Proof.
    rewrite <- (R'_get c p Hc Hp). unfold rget, c'. rewrite committed_rules.
    unfold patch_commit. rewrite config_adjust_unfold. cbn [c_groups].
    match goal with |- mget _ _ (map _ ?R) = option_map ?F _ => exact (aget_map_vals pair_cmp F R k) end.
  Qed.

  (* a key without an entry in the patch keeps its rule *)
  Lemma commit_keeps k : mget pair_cmp k (m_rules p) = None -> cver c' k = cver c k.
  Proof.
    intros Hn. unfold cver. rewrite committed_get, (p2_get c p Hp), p1_get, Hn. cbn [option_map].
    rewrite c1_get, Hn. unfold rget. destruct (mget pair_cmp k (c_rules c)) as [r|]; [|reflexivity].
    cbn [option_map]. rewrite !r_ver_set_group. reflexivity.
  Qed.

  (* a served rule was served under that key, or is an entry of the patch *)
  Lemma commit_adds k r' : rget k (c_rules c') = Some r' ->
    cver c k = Some (r_ver r') \/ exists r0, In (k, Some r0) (m_rules p) /\ r_ver r0 = r_ver r'.
  Proof.
    rewrite committed_get, (p2_get c p Hp), p1_get. intros H.
    assert (Old : forall x, option_map (fun r => set_group r (gget (r_gid r) (c_groups c')))
                              (mget pair_cmp k (c_rules (fst (patch_adjust c p)))) = Some x ->
                            cver c k = Some (r_ver x)).
    { intros x E. rewrite c1_get in E. unfold cver, rget.
      destruct (mget pair_cmp k (c_rules c)) as [r|]; [|discriminate]. cbn [option_map] in *.
      inversion E; subst. destruct (mget pair_cmp k (m_rules p)); rewrite ?r_ver_set_group; reflexivity. }
    destruct (mget pair_cmp k (m_rules p)) as [w|] eqn:Ew; cbn [option_map] in H; [|left; apply Old; exact H].
    destruct (negb _) in H; [|left; apply Old; exact H].
    destruct w as [r0|]; cbn [option_map] in H; [|discriminate]. inversion H; subst.
    right. exists r0. split; [apply (aget_In pair_cmp pair_cmp_eq); exact Ew|]. rewrite !r_ver_set_group. reflexivity.
  Qed.
End CommitFrame.

(* ---------- one accepted update of a fault-free history ---------- *)
Theorem accepted_update_frame_pf :
  forall mr ups u w st' o, forallb fault_free_update ups = true ->
    let st := run_state step init_state (ORestart mr :: ups) in
    step st (OUpdate u None w) = (st', o) -> o_res o = ROk ->
    forall m m', st_live st = Some m -> st_live st' = Some m' ->
      (forall g i, names_key u g i = false -> cver (m_conf m') (g, i) = cver (m_conf m) (g, i)) /\
      (forall k r', rget k (c_rules (m_conf m')) = Some r' ->
         cver (m_conf m) k = Some (r_ver r') \/ In (r_ver r') (map r_ver (rules_of_update u))).
Proof.
  intros mr ups u w st' o Hff st Hstep Hres m m' El El'.
  pose proof (fault_free_history_ok mr ups Hff) as Hok. fold st in Hok.
  unfold st_hist_ok in Hok. rewrite El in Hok. destruct Hok as [Hc _ _ _].
  cbn [step] in Hstep. unfold step_update in Hstep. rewrite El in Hstep.
  destruct (make_patch (m_conf m) u) as [p|] eqn:Ep.
  2:{ inversion Hstep; subst. cbn in Hres. destruct (is_nil w); discriminate. }
  pose proof (make_patch_ok _ _ _ Ep) as Pok. pose proof (make_patch_frame _ _ _ Ep) as Fr.
  destruct (try_commit m (st_store st) p w None) as [[[m1 s1] e] ok] eqn:Et.
  inversion Hstep; subst. clear Hstep. cbn [st_live] in El'. inversion El'; subst m1. clear El'.
  cbn in Hres. destruct ok; [|discriminate]. destruct e as [e|]; [discriminate|]. clear Hres.
  unfold try_commit in Et. rewrite (surjective_pairing (patch_adjust (m_conf m) p)) in Et.
  destruct (build_rule_list _) as [e|rl]; [inversion Et|].
  destruct (save_patch _ w None (st_store st)) as [[s2 failed] ok2]. destruct failed; [inversion Et|].
  inversion Et; subst. clear Et. cbn [m_conf]. split.
  - intros g i Hn. apply commit_keeps; try assumption.
    destruct (mget pair_cmp (g, i) (m_rules p)) as [x|] eqn:E; [|reflexivity].
    apply (aget_In pair_cmp pair_cmp_eq) in E. destruct (Fr _ _ E) as [A _]. unfold named in A. cbn [fst snd] in A.
    rewrite A in Hn. discriminate.
  - intros k r' Hget. destruct (commit_adds _ _ Hc Pok k r' Hget) as [H|[r0 [Hin Ev]]]; [left; exact H|right].
    destruct (Fr _ _ Hin) as [_ B]. rewrite <- Ev. apply in_map. apply B. reflexivity.
Qed.
