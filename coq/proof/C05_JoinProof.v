(* C05 — proofs about the suffix / suffix-width layer with datacenters joining, allocator leaders and the PD
   leadership moving (model/C05_Join.v). *)
From Coq Require Import ZArith List Bool Lia.
From PDV Require Import lib.Base gen.Gen_C05 model.C05_TsoGlobal model.C05_Join proof.C05_Proof.
Import ListNotations.
Local Open Scope Z_scope.
Arguments Z.shiftl : simpl never.
Arguments Z.log2_up : simpl never.
Arguments sfx_max : simpl never.
Arguments sfx_lookup : simpl never.
Arguments cal_suffix_bits : simpl never.
Arguments max_known : simpl never.
Arguments hosted : simpl never.
Arguments write_ts : simpl never.
Arguments tick : simpl never.

(* ---------------- arithmetic: when can two differentiated logicals be equal ---------------- *)

(* equal values force the suffix of the wider one to look like the other suffix in the low bits of the narrower width *)
Lemma differentiate_eq_residue r1 r2 b1 b2 s1 s2 :
  0 <= b1 <= b2 -> 0 <= s1 < 2 ^ b1 ->
  differentiate r1 b1 s1 = differentiate r2 b2 s2 -> s2 mod 2 ^ b1 = s1.
Proof.
  intros Hb Hs1 E. unfold differentiate in E. rewrite !shiftl_mul in E by lia.
  assert (Hp : 2 ^ b2 = 2 ^ (b2 - b1) * 2 ^ b1) by (rewrite <- Z.pow_add_r by lia; f_equal; lia).
  assert (H1 : (r1 * 2 ^ b1 + s1) mod 2 ^ b1 = s1).
  { rewrite Z.add_comm, Z_mod_plus_full. apply Z.mod_small. lia. }
  assert (H2 : (r2 * 2 ^ b2 + s2) mod 2 ^ b1 = s2 mod 2 ^ b1).
  { rewrite Hp, Z.mul_assoc, Z.add_comm, Z_mod_plus_full. reflexivity. }
  rewrite E in H1. rewrite H2 in H1. exact H1.
Qed.

(* different widths are harmless as long as both suffixes fit the smaller one *)
Lemma differentiate_distinct_fit r1 r2 b1 b2 s1 s2 :
  0 <= b1 -> 0 <= b2 -> 0 <= s1 < 2 ^ Z.min b1 b2 -> 0 <= s2 < 2 ^ Z.min b1 b2 -> s1 <> s2 ->
  differentiate r1 b1 s1 <> differentiate r2 b2 s2.
Proof.
  intros H1 H2 Hs1 Hs2 Hne E.
  destruct (Z.le_ge_cases b1 b2) as [Hle|Hge].
  - rewrite Z.min_l in Hs1, Hs2 by lia.
    pose proof (differentiate_eq_residue _ _ _ _ _ _ (conj H1 Hle) Hs1 E) as R.
    rewrite Z.mod_small in R by lia. lia.
  - rewrite Z.min_r in Hs1, Hs2 by lia. symmetry in E.
    pose proof (differentiate_eq_residue _ _ _ _ _ _ (conj H2 Hge) Hs2 E) as R.
    rewrite Z.mod_small in R by lia. lia.
Qed.

(* and the converse: a suffix that does not fit the narrower width collides with the suffix it looks like there *)
Lemma differentiate_collision b1 b2 s1 s2 r2 :
  0 <= b1 <= b2 -> 0 <= s1 < 2 ^ b1 -> 0 <= s2 -> s2 mod 2 ^ b1 = s1 ->
  differentiate (r2 * 2 ^ (b2 - b1) + s2 / 2 ^ b1) b1 s1 = differentiate r2 b2 s2.
Proof.
  intros Hb Hs1 Hs2 R. unfold differentiate. rewrite !shiftl_mul by lia.
  assert (Hp : 2 ^ b2 = 2 ^ (b2 - b1) * 2 ^ b1) by (rewrite <- Z.pow_add_r by lia; f_equal; lia).
  pose proof (Z.div_mod s2 (2 ^ b1) ltac:(lia)) as D. rewrite R in D. rewrite Hp. lia.
Qed.

Lemma cal_suffix_bits_nonneg m : 0 <= cal_suffix_bits m.
Proof. unfold cal_suffix_bits. apply Z.log2_up_nonneg. Qed.

Lemma cal_suffix_bits_mono a b : a <= b -> cal_suffix_bits a <= cal_suffix_bits b.
Proof. intros H. unfold cal_suffix_bits. apply Z.log2_up_le_mono. lia. Qed.

(* ---------------- the invariant ---------------- *)

Definition hosts (s : jstate) (dc : nat) : Prop := exists m, jhost s dc = Some m.

Record JInv (s : jstate) : Prop := {
  j_store  : sfx_ok (jstore s);
  j_view   : forall m, 0 <= jview s m <= sfx_max (jstore s);
  j_known  : forall dc m, jhost s dc = Some m -> exists v, sfx_lookup (jstore s) dc = Some v /\ v <= jview s m;
  j_gmem   : tle (jlastg s) (jg s);
  j_lmem   : forall dc, hosts s dc -> tle (jlastg s) (jl s dc);
  j_globals: forall g, In g (jout s) -> jwho g = None ->
               tle (jP g, jraw g) (jlastg s) /\ jsfx g = 0 /\ 0 <= jw g <= cal_suffix_bits (sfx_max (jstore s));
  j_locals : forall r dc, In r (jout s) -> jwho r = Some dc ->
               0 <= jsfx r < 2 ^ jw r /\ sfx_lookup (jstore s) dc = Some (jsfx r) /\ 0 <= jw r;
  j_req    : forall c set, jreq s = Some (c, set) -> 0 < c /\ forall dc, hosts s dc -> In dc set
}.

Lemma upd_f_same {A} (f : nat -> A) i x : upd_f f i x i = x.
Proof. unfold upd_f. rewrite Nat.eqb_refl. reflexivity. Qed.
Lemma upd_f_other {A} (f : nat -> A) i x j : j <> i -> upd_f f i x j = f j.
Proof. intros H. unfold upd_f. destruct (Nat.eqb j i) eqn:E; [apply Nat.eqb_eq in E; contradiction|reflexivity]. Qed.

Lemma fold_max_ge_init (f : nat -> ts) l a : tle a (fold_left (fun a dc => ts_max a (f dc)) l a).
Proof.
  revert a; induction l as [|d t IH]; intros a; cbn [fold_left]; [apply tle_refl|].
  eapply tle_trans; [apply ts_max_ge_l | apply IH].
Qed.
Lemma fold_max_ge_in (f : nat -> ts) l a d : In d l -> tle (f d) (fold_left (fun a dc => ts_max a (f dc)) l a).
Proof.
  revert a; induction l as [|x t IH]; intros a H; cbn [fold_left]; [destruct H|].
  destruct H as [->|H]; [eapply tle_trans; [apply ts_max_ge_r | apply fold_max_ge_init] | apply IH; exact H].
Qed.

Lemma max_known_ge_g s : tle (jg s) (max_known s).
Proof. unfold max_known. apply fold_max_ge_init. Qed.
Lemma max_known_ge_l s dc : In dc (hosted s) -> tle (jl s dc) (max_known s).
Proof. unfold max_known. intros H. apply (fold_max_ge_in (jl s)). exact H. Qed.

Lemma sfx_lookup_some_in st dc v : sfx_lookup st dc = Some v -> In dc (map fst st).
Proof. intros H. apply sfx_lookup_in in H. apply in_map_iff. exists (dc, v). split; [reflexivity|exact H]. Qed.

Lemma hosted_in s dc m v : jhost s dc = Some m -> sfx_lookup (jstore s) dc = Some v -> In dc (hosted s).
Proof.
  intros H L. unfold hosted. apply filter_In. split; [eapply sfx_lookup_some_in; eauto | rewrite H; reflexivity].
Qed.

Lemma existsb_eqb_in d l : existsb (Nat.eqb d) l = true <-> In d l.
Proof.
  rewrite existsb_exists. split.
  - intros (x & Hx & E). apply Nat.eqb_eq in E. subst. exact Hx.
  - intros H. exists d. split; [exact H | apply Nat.eqb_refl].
Qed.

Lemma sfx_assign_max st dc : sfx_ok st -> sfx_max st <= sfx_max (fst (sfx_assign st dc)) /\ snd (sfx_assign st dc) <= sfx_max (fst (sfx_assign st dc)) /\ 1 <= snd (sfx_assign st dc).
Proof.
  intros Hok. unfold sfx_assign. destruct (sfx_lookup st dc) as [v|] eqn:E; cbn [fst snd].
  - apply sfx_lookup_in in E. destruct Hok as (_ & _ & H3). specialize (H3 _ E). cbn in H3. lia.
  - pose proof (sfx_max_nonneg st) as Hnn.
    assert (Hmax : sfx_max ((dc, sfx_max st + 1) :: st) = sfx_max st + 1).
    { unfold sfx_max at 1. cbn. rewrite Z.max_r by lia.
      apply (fmax_all_le st). intros q Hq. pose proof (sfx_max_ge st q Hq). lia. }
    rewrite Hmax. lia.
Qed.

Lemma sfx_assign_lookup st dc : sfx_lookup (fst (sfx_assign st dc)) dc = Some (snd (sfx_assign st dc)).
Proof.
  unfold sfx_assign. destruct (sfx_lookup st dc) as [v|] eqn:E; cbn [fst snd]; [exact E|].
  unfold sfx_lookup. cbn. rewrite Nat.eqb_refl. reflexivity.
Qed.

Lemma jinv_init leader g0 : JInv (jinit leader g0).
Proof.
  constructor; cbn.
  - split; [constructor|split; [constructor|intros q []]].
  - intros _. unfold sfx_max. cbn. lia.
  - intros dc m H. discriminate.
  - apply tle_refl.
  - intros dc [m H]. discriminate.
  - intros g [].
  - intros r dc [].
  - intros c set H; discriminate.
Qed.

Lemma max_over_ge_g s set : tle (jg s) (max_over s set).
Proof. unfold max_over. apply fold_max_ge_init. Qed.

(* the end of a Global request: above its own memory; every dc it synchronises is raised to the answer *)
Lemma global_end_inv s c set :
  JInv s -> 0 < c -> (forall dc, hosts s dc -> In dc set) -> JInv (global_end s c set).
Proof.
  intros I Gc Hset. unfold global_end.
  set (x := (fst (max_over s set), snd (max_over s set) + c)).
  assert (Hx : tle (max_over s set) x) by (subst x; ord).
  constructor; cbn; try (apply I).
  - apply tle_refl.
  - intros d [m0 Hd]. cbn [jhost] in Hd.
    assert (Hin : In d set) by (apply Hset; exists m0; exact Hd).
    apply existsb_eqb_in in Hin. rewrite Hin. apply write_ge_v.
  - intros g [Hg|Hg] Hw.
    + subst g. cbn. split; [apply tle_refl|]. split; [reflexivity|].
      split; [apply cal_suffix_bits_nonneg | apply cal_suffix_bits_mono; apply (j_view _ I)].
    + destruct (j_globals _ I g Hg Hw) as (G1 & G2 & G3). split; [|tauto].
      eapply tle_trans; [exact G1|]. eapply tle_trans; [exact (j_gmem _ I)|]. eapply tle_trans; [apply max_over_ge_g | exact Hx].
  - intros r d [Hr|Hr] Hw; [subst r; discriminate | apply (j_locals _ I r d Hr Hw)].
  - intros c0 set0 H; discriminate.
Qed.

Lemma sfx_lookup_assign_stable st dc dc' v :
  sfx_lookup st dc' = Some v -> sfx_lookup (fst (sfx_assign st dc)) dc' = Some v.
Proof. apply sfx_assign_stable. Qed.

Lemma jinv_step s l s' : JInv s -> jstep s l = Some s' -> JInv s'.
Proof.
  intros I H. destruct l; cbn [jstep jstep_gen] in H.
  - (* JCheckLeader *)
    destruct (sfx_assign (jstore s) dc) as [st v] eqn:A. inversion H; subst s'; clear H.
    pose proof (sfx_assign_ok _ dc (j_store _ I)) as Hok. rewrite A in Hok. cbn in Hok.
    pose proof (sfx_assign_max _ dc (j_store _ I)) as (M1 & M2 & M3). rewrite A in M1, M2, M3. cbn in M1, M2, M3.
    constructor; cbn.
    + exact Hok.
    + intros m. pose proof (j_view _ I m) as V. pose proof (j_view _ I (jpdl s)) as Vp.
      unfold upd_f. destruct (Nat.eqb m (jpdl s)); lia.
    + intros d m Hh. destruct (j_known _ I d m Hh) as (w & L & Hw).
      exists w. split.
      * pose proof (sfx_lookup_assign_stable _ dc d w L) as S. rewrite A in S. exact S.
      * unfold upd_f. destruct (Nat.eqb m (jpdl s)) eqn:E; [apply Nat.eqb_eq in E; subst; lia | exact Hw].
    + exact (j_gmem _ I).
    + exact (j_lmem _ I).
    + intros g Hg Hw. destruct (j_globals _ I g Hg Hw) as (G1 & G2 & G3). repeat split; try tauto.
      pose proof (cal_suffix_bits_mono _ _ M1). lia.
    + intros r d Hr Hw. destruct (j_locals _ I r d Hr Hw) as (L1 & L2 & L3). repeat split; try tauto.
      pose proof (sfx_lookup_assign_stable _ dc d _ L2) as S. rewrite A in S. exact S.
    + exact (j_req _ I).
  - (* JCheckFollower *)
    inversion H; subst s'; clear H. constructor; cbn; try (apply I).
    + intros m0. pose proof (j_view _ I m0) as V. pose proof (j_view _ I m) as Vm.
      unfold upd_f. destruct (Nat.eqb m0 m); lia.
    + intros d m0 Hh. destruct (j_known _ I d m0 Hh) as (w & L & Hw). exists w. split; [exact L|].
      unfold upd_f. destruct (Nat.eqb m0 m) eqn:E; [apply Nat.eqb_eq in E; subst; lia | exact Hw].
  - (* JStart *)
    destruct (sfx_lookup (jstore s) dc) as [v|] eqn:L; [|discriminate].
    destruct (jhost s dc) eqn:Hh; [discriminate|].
    destruct (jreq s) eqn:Rq; [discriminate|]. inversion H; subst s'; clear H.
    assert (Hv : 1 <= v <= sfx_max (jstore s)).
    { apply sfx_lookup_in in L. destruct (j_store _ I) as (_ & _ & H3). specialize (H3 _ L). exact H3. }
    constructor; cbn.
    + apply I.
    + intros m0. pose proof (j_view _ I m0) as V. pose proof (j_view _ I m) as Vm. unfold upd_f. destruct (Nat.eqb m0 m); lia.
    + intros d m0 Hd. unfold upd_f in Hd. destruct (Nat.eqb d dc) eqn:E.
      * apply Nat.eqb_eq in E. subst d. inversion Hd; subst m0. exists v. split; [exact L|]. rewrite upd_f_same. lia.
      * destruct (j_known _ I d m0 Hd) as (w & Lw & Hw). exists w. split; [exact Lw|].
        unfold upd_f. destruct (Nat.eqb m0 m) eqn:E2; [apply Nat.eqb_eq in E2; subst; lia | exact Hw].
    + exact (j_gmem _ I).
    + intros d [m0 Hd]. cbn [jhost jl jlastg] in Hd |- *. unfold upd_f in Hd |- *. destruct (Nat.eqb d dc) eqn:E.
      * eapply tle_trans; [exact (j_gmem _ I)|]. eapply tle_trans; [apply max_known_ge_g | apply write_ge_v].
      * apply (j_lmem _ I). exists m0. exact Hd.
    + exact (j_globals _ I).
    + exact (j_locals _ I).
    + intros c set Hq. cbn in Hq. try rewrite Rq in Hq. discriminate.
  - (* JStop *)
    inversion H; subst s'; clear H. constructor; cbn; try (apply I).
    + intros d m Hd. unfold upd_f in Hd. destruct (Nat.eqb d dc); [discriminate|]. apply (j_known _ I d m Hd).
    + intros d [m Hd]. cbn [jhost jl jlastg] in Hd |- *. unfold upd_f in Hd. destruct (Nat.eqb d dc); [discriminate|]. apply (j_lmem _ I). exists m. exact Hd.
    + intros c set Hq. split; [exact (proj1 (j_req _ I c set Hq))|].
      intros d [m Hd]. cbn [jhost] in Hd. unfold upd_f in Hd. destruct (Nat.eqb d dc); [discriminate|].
      apply (proj2 (j_req _ I c set Hq)). exists m. exact Hd.
  - (* JLeaderMove *)
    inversion H; subst s'; clear H. constructor; cbn; try (apply I).
    + intros m0. pose proof (j_view _ I m0) as V. pose proof (j_view _ I m) as Vm.
      unfold upd_f. destruct (Nat.eqb m0 m); lia.
    + intros d m0 Hh. destruct (j_known _ I d m0 Hh) as (w & L & Hw). exists w. split; [exact L|].
      unfold upd_f. destruct (Nat.eqb m0 m) eqn:E; [apply Nat.eqb_eq in E; subst; lia | exact Hw].
  - (* JLocal *)
    destruct (jhost s dc) as [m|] eqn:Hh; [|discriminate].
    destruct (sfx_lookup (jstore s) dc) as [v|] eqn:L; [|discriminate].
    destruct (0 <? c) eqn:Hc; [|discriminate]. apply Z.ltb_lt in Hc. inversion H; subst s'; clear H.
    constructor; cbn; try (apply I).
    + intros d [m0 Hd]. cbn [jhost jl jlastg] in Hd |- *. unfold upd_f. destruct (Nat.eqb d dc) eqn:E.
      * apply Nat.eqb_eq in E. subst d. pose proof (j_lmem _ I dc (ex_intro _ m0 Hd)) as T. ord.
      * apply (j_lmem _ I). exists m0. exact Hd.
    + intros g [Hg|Hg] Hw; [subst g; discriminate | apply (j_globals _ I g Hg Hw)].
    + intros r d [Hr|Hr] Hw.
      * subst r. cbn in Hw. inversion Hw; subst d. cbn.
        destruct (j_known _ I dc m Hh) as (w & Lw & Hview). rewrite L in Lw. inversion Lw; subst w.
        assert (Hv : 1 <= v) by (apply sfx_lookup_in in L; destruct (j_store _ I) as (_ & _ & H3); specialize (H3 _ L); cbn in H3; lia).
        split; [|split; [exact L | apply cal_suffix_bits_nonneg]].
        split; [lia|]. unfold width_of. apply bits_cover. lia.
      * apply (j_locals _ I r d Hr Hw).
  - (* JTick *)
    inversion H; subst s'; clear H. constructor; cbn; try (apply I).
    intros d [m0 Hd]. cbn [jhost jl jlastg] in Hd |- *. unfold upd_f. destruct (Nat.eqb d dc) eqn:E.
    + apply Nat.eqb_eq in E. subst d. eapply tle_trans; [apply (j_lmem _ I dc (ex_intro _ m0 Hd)) | apply tick_ge].
    + apply (j_lmem _ I). exists m0. exact Hd.
  - (* JGTick *)
    inversion H; subst s'; clear H. constructor; cbn; try (apply I).
    eapply tle_trans; [exact (j_gmem _ I) | apply tick_ge].
  - (* JGlobal *)
    destruct (jreq s) eqn:Rq; [discriminate|].
    destruct (all_hosted s && (0 <? c)) eqn:G; [|discriminate]. apply andb_true_iff in G as [Gh Gc]. apply Z.ltb_lt in Gc.
    inversion H; subst s'; clear H. apply global_end_inv; [exact I | exact Gc |].
    intros d [m0 Hd]. destruct (j_known _ I d m0 Hd) as (w & Lw & _). eapply hosted_in; eauto.
  - (* JGBegin *)
    destruct (jreq s) eqn:Rq; [discriminate|].
    destruct (all_hosted s && (0 <? c)) eqn:G; [|discriminate]. apply andb_true_iff in G as [Gh Gc]. apply Z.ltb_lt in Gc.
    inversion H; subst s'; clear H.
    constructor; cbn; try (apply I).
    intros c0 set Hq. inversion Hq; subst. split; [exact Gc|]. intros d [m0 Hd]. cbn [jhost] in Hd.
    destruct (j_known _ I d m0 Hd) as (w & Lw & _). eapply hosted_in; eauto.
  - (* JGEnd *)
    destruct (jreq s) as [[c set]|] eqn:Rq; [|discriminate]. inversion H; subst s'; clear H.
    destruct (j_req _ I c set Rq) as [Gc Hset]. apply global_end_inv; assumption.
Qed.

Theorem jinv_exec leader g0 ls : JInv (exec jstep (jinit leader g0) ls).
Proof. apply (invariant_exec jstep JInv); [exact jinv_step | apply jinv_init]. Qed.

(* ---------------- statements ---------------- *)

(* a Local allocator that starts (a dc that joins, or an allocator leader that moves) begins at or above the last
   Global timestamp handed out: GetMaxLocalTSO as repaired covers every led dc and the Global allocator's memory *)
Lemma start_above_last_global s dc m p s' :
  JInv s -> jstep s (JStart dc m p) = Some s' -> tle (jlastg s') (jl s' dc) /\ jhost s' dc = Some m.
Proof.
  intros I H. pose proof (jinv_step _ _ _ I H) as I'.
  assert (Hh : jhost s' dc = Some m).
  { cbn [jstep jstep_gen] in H. destruct (sfx_lookup (jstore s) dc); [|discriminate]. destruct (jhost s dc); [discriminate|].
    destruct (jreq s); [discriminate|]. inversion H; subst s'. cbn. apply upd_f_same. }
  split; [apply (j_lmem _ I'); exists m; exact Hh | exact Hh].
Qed.

(* every Local answer lies above the last Global timestamp handed out before, at the raw level *)
Lemma local_above_last_global s dc c s' r :
  JInv s -> jstep s (JLocal dc c) = Some s' -> hd_error (jout s') = Some r ->
  tlt (jlastg s) (jP r, jraw r - jcnt r + 1) /\ jwho r = Some dc.
Proof.
  intros I H Hr. cbn [jstep jstep_gen] in H.
  destruct (jhost s dc) as [m|] eqn:Hh; [|discriminate].
  destruct (sfx_lookup (jstore s) dc) as [v|]; [|discriminate].
  destruct (0 <? c) eqn:Hc; [|discriminate]. apply Z.ltb_lt in Hc. inversion H; subst s'. cbn in Hr. inversion Hr; subst r. cbn.
  pose proof (j_lmem _ I dc (ex_intro _ m Hh)) as T. split; [ord|reflexivity].
Qed.

(* the width reported with an answer covers the suffix used in that answer *)
Lemma width_covers_own s r : JInv s -> In r (jout s) -> 0 <= jsfx r < 2 ^ jw r.
Proof.
  intros I Hr. destruct (jwho r) as [dc|] eqn:W.
  - apply (j_locals _ I r dc Hr W).
  - destruct (j_globals _ I r Hr W) as (_ & Z0 & Hw). rewrite Z0.
    pose proof (Z.pow_pos_nonneg 2 (jw r) ltac:(lia) ltac:(lia)). lia.
Qed.

Lemma fits_view s v m : 0 <= v -> v <= jview s m -> v < 2 ^ width_of s m.
Proof. intros H0 H. unfold width_of. apply bits_cover. lia. Qed.

Lemma stored_suffix_bounds s dc v : JInv s -> sfx_lookup (jstore s) dc = Some v -> 1 <= v <= sfx_max (jstore s).
Proof. intros I L. apply sfx_lookup_in in L. destruct (j_store _ I) as (_ & _ & H3). exact (H3 _ L). Qed.

(* when nobody lags, any two allocators that serve now answer with different values, whatever their raw logicals *)
Lemma nolag_distinct_locals s dc1 dc2 m1 m2 v1 v2 r1 r2 :
  JInv s -> no_lag s -> dc1 <> dc2 ->
  jhost s dc1 = Some m1 -> jhost s dc2 = Some m2 ->
  sfx_lookup (jstore s) dc1 = Some v1 -> sfx_lookup (jstore s) dc2 = Some v2 ->
  differentiate r1 (width_of s m1) v1 <> differentiate r2 (width_of s m2) v2.
Proof.
  intros I [NL _] Hne H1 H2 L1 L2.
  pose proof (stored_suffix_bounds _ _ _ I L1) as B1. pose proof (stored_suffix_bounds _ _ _ I L2) as B2.
  pose proof (NL _ _ H1) as V1. pose proof (NL _ _ H2) as V2.
  apply differentiate_distinct_fit; try (unfold width_of; apply cal_suffix_bits_nonneg).
  - split; [lia|]. destruct (Z.min_spec (width_of s m1) (width_of s m2)) as [[_ ->]|[_ ->]]; apply fits_view; lia.
  - split; [lia|]. destruct (Z.min_spec (width_of s m1) (width_of s m2)) as [[_ ->]|[_ ->]]; apply fits_view; lia.
  - intros E. subst v2. apply Hne. eapply sfx_ok_injective; [exact (j_store _ I) | exact L1 | exact L2].
Qed.

Lemma nolag_distinct_global_local s dc m v r1 r2 :
  JInv s -> no_lag s -> jhost s dc = Some m -> sfx_lookup (jstore s) dc = Some v ->
  differentiate r1 (width_of s (jpdl s)) 0 <> differentiate r2 (width_of s m) v.
Proof.
  intros I [NL NG] H L.
  pose proof (stored_suffix_bounds _ _ _ I L) as B. pose proof (NL _ _ H) as V.
  apply differentiate_distinct_fit; try (unfold width_of; apply cal_suffix_bits_nonneg).
  - split; [lia|]. apply Z.pow_pos_nonneg; [lia|].
    destruct (Z.min_spec (width_of s (jpdl s)) (width_of s m)) as [[_ ->]|[_ ->]]; unfold width_of; apply cal_suffix_bits_nonneg.
  - split; [lia|]. destruct (Z.min_spec (width_of s (jpdl s)) (width_of s m)) as [[_ ->]|[_ ->]]; apply fits_view; lia.
  - lia.
Qed.

(* when nobody lags, the width every serving member reports covers every suffix assigned so far *)
Lemma nolag_width_covers_all s dc m dc' v' :
  JInv s -> no_lag s -> jhost s dc = Some m -> sfx_lookup (jstore s) dc' = Some v' -> v' < 2 ^ width_of s m.
Proof.
  intros I [NL _] H L. pose proof (stored_suffix_bounds _ _ _ I L) as B. pose proof (NL _ _ H).
  apply fits_view; lia.
Qed.

(* a Local answer requested after a Global answer was returned is greater in the returned (physical, logical) order,
   provided the member that serves it has not fallen behind with its suffix width *)
Lemma local_after_global_returned s g dc m c s' r :
  JInv s -> In g (jout s) -> jwho g = None -> 0 <= jraw g ->
  jhost s dc = Some m -> sfx_max (jstore s) <= jview s m ->
  jstep s (JLocal dc c) = Some s' -> hd_error (jout s') = Some r ->
  forall i, 0 <= i < jcnt r ->
  jP g < jP r \/ (jP g = jP r /\ jlogical g < differentiate (jraw r - i) (jw r) (jsfx r)).
Proof.
  intros I Hg Wg Hnn Hh Hview H Hr i Hi.
  destruct (j_globals _ I g Hg Wg) as (G1 & G2 & G3).
  pose proof (j_lmem _ I dc (ex_intro _ m Hh)) as T.
  cbn [jstep jstep_gen] in H. rewrite Hh in H.
  destruct (sfx_lookup (jstore s) dc) as [v|] eqn:L; [|discriminate].
  destruct (0 <? c) eqn:Hc; [|discriminate]. apply Z.ltb_lt in Hc. inversion H; subst s'. cbn in Hr. inversion Hr; subst r. cbn in Hi |- *.
  pose proof (stored_suffix_bounds _ _ _ I L) as B.
  assert (Hw : jw g <= width_of s m).
  { unfold width_of. pose proof (cal_suffix_bits_mono _ _ Hview). lia. }
  unfold tle in G1, T. cbn [fst snd] in G1, T.
  destruct (Z.lt_ge_cases (jP g) (fst (jl s dc))) as [Hlt|Hge]; [left; exact Hlt|right].
  assert (HP : jP g = fst (jl s dc)) by lia. split; [exact HP|].
  assert (Hraw : jraw g + 1 <= snd (jl s dc) + c - i) by lia.
  unfold jlogical, differentiate. rewrite G2. rewrite !shiftl_mul by (unfold width_of; try apply cal_suffix_bits_nonneg; lia).
  assert (P1 : 0 < 2 ^ jw g) by (apply Z.pow_pos_nonneg; lia).
  assert (P2 : 2 ^ jw g <= 2 ^ width_of s m) by (apply Z.pow_le_mono_r; lia).
  nia.
Qed.

(* ---------------- what goes wrong while a member lags (the history of the driver's cluster phase) ---------------- *)

Notation lag_state := (jreach 1 (1000, 0) cluster_history).

Definition shares_value (a b : jrec) : bool :=
  existsb (fun x => existsb (fun y => (fst x =? fst y) && (snd x =? snd y)) (jvalues b)) (jvalues a).

Definition who_eqb (a b : option nat) : bool :=
  match a, b with Some x, Some y => Nat.eqb x y | None, None => true | _, _ => false end.

(* two different allocators handed out the same timestamp: dc-1 (suffix 1, its member still at width 2) and
   dc-5 (suffix 5, width 3) *)
Lemma lag_equal_timestamps :
  exists a b, In a (jout lag_state) /\ In b (jout lag_state) /\ who_eqb (jwho a) (jwho b) = false /\ shares_value a b = true.
Proof.
  exists (nth 0 (jout lag_state) (JRec None 0 0 0 0 0 0)), (nth 1 (jout lag_state) (JRec None 0 0 0 0 0 0)).
  vm_compute. repeat split; auto.
Qed.

(* the width reported by the member serving dc-1 does not cover suffix 5, which is in use *)
Lemma lag_width_too_small :
  exists r v, In r (jout lag_state) /\ In v (map snd (jstore lag_state)) /\ 2 ^ jw r <= v.
Proof.
  exists (nth 1 (jout lag_state) (JRec None 0 0 0 0 0 0)), 5. vm_compute. repeat split; auto; discriminate.
Qed.

(* a Local timestamp of dc-1 requested after a Global timestamp was returned is smaller than it *)
Lemma lag_local_below_earlier_global :
  exists g r, nth_error (jout lag_state) 3 = Some g /\ nth_error (jout lag_state) 2 = Some r /\
    jwho g = None /\ jwho r = Some 1%nat /\ jP g = jP r /\ jlogical r < jlogical g.
Proof. eexists. eexists. vm_compute. repeat split; reflexivity. Qed.

(* ... and the lagging member is exactly what no_lag excludes *)
Lemma lag_state_lags : ~ no_lag lag_state.
Proof. intros [NL _]. specialize (NL 1%nat 1%nat eq_refl). vm_compute in NL. apply NL. reflexivity. Qed.

(* ---------------- why a starting allocator must not read the maximum while a Global request is in flight ---------------- *)

(* the code before the repair: GetMaxLocalTSO did not take syncMu (jstep_gen false).  dc-2 joins while a Global request
   for 3 timestamps is in flight; the request was begun before dc-2 existed and does not write to it; the Local
   timestamp dc-2 hands out after the Global answer was returned is below it. *)
Definition unexcluded_history : list jlabel :=
  [JCheckLeader 1; JStart 1 0 1000; JGlobal 1; JGBegin 3; JCheckLeader 2; JStart 2 0 1000; JGEnd; JLocal 2 1].

Lemma unexcluded_join_breaks_local_after_global :
  let s := exec (jstep_gen false) (jinit 0 (5000, 0)) unexcluded_history in
  exists g r, nth_error (jout s) 1 = Some g /\ nth_error (jout s) 0 = Some r /\
    jwho g = None /\ jwho r = Some 2%nat /\ jP r = jP g /\ jraw r < jraw g /\ jlogical r < jlogical g.
Proof. eexists. eexists. vm_compute. repeat split; reflexivity. Qed.

(* with the exclusion the same schedule is impossible: the start waits for the end of the request *)
Lemma excluded_join_waits :
  let s := exec jstep (jinit 0 (5000, 0)) [JCheckLeader 1; JStart 1 0 1000; JGlobal 1; JGBegin 3; JCheckLeader 2] in
  jstep s (JStart 2 0 1000) = None.
Proof. vm_compute. reflexivity. Qed.
