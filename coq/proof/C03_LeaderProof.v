From Coq Require Import NArith Lia ZifyBool.
From PDV Require Import lib.Base model.C03_Leader.
Local Open Scope N_scope.

Record Inv (s : state) : Prop := {
  i_key   : forall v l, key s = Some (v, l) -> (exists et, leases s l = Some et) /\ owner s l = v;
  i_lease : forall m id e, lease (mems s m) = Granted id e ->
              owner s id = m /\ (id < next_lease s)%nat /\
              (forall e' ttl, leases s id = Some (e', ttl) -> e <= e');
  i_won   : forall m, won (mems s m) = true ->
              exists id e, lease (mems s m) = Granted id e /\
                ((exists et, leases s id = Some et) -> key s = Some (m, id)) /\
                (leases s id = None -> e < now s);
  i_fresh : forall id, (next_lease s <= id)%nat -> leases s id = None;
  i_bound : forall id e' ttl, leases s id = Some (e', ttl) -> e' <= now s + ttl;
  i_gs    : forall m st ttl, g_start (mems s m) = Some (st, ttl) -> st <= now s;
  i_ka    : forall m st, ka_start (mems s m) = Some st -> st <= now s
}.

Lemma inv_init : Inv init.
Proof. constructor; cbn; intros; try discriminate; auto. Qed.

Ltac eqb_cases :=
  repeat match goal with
  | H : context [Nat.eqb ?a ?b] |- _ => destruct (Nat.eqb_spec a b); subst
  | |- context [Nat.eqb ?a ?b] => destruct (Nat.eqb_spec a b); subst
  end.

Ltac inj :=
  repeat match goal with
  | H : Some _ = Some _ |- _ => inversion H; subst; clear H
  | H : (_, _) = (_, _) |- _ => inversion H; subst; clear H
  | H : None = Some _ |- _ => discriminate H
  | H : Some _ = None |- _ => discriminate H
  | H : Granted _ _ = Granted _ _ |- _ => inversion H; subst; clear H
  | H : Granted _ _ = _ |- _ => discriminate H
  | H : _ = Granted _ _ |- _ => discriminate H
  | H : true = false |- _ => discriminate H
  | H : false = true |- _ => discriminate H
  end.

Ltac clauses :=
  constructor; cbn; unfold upd;
  [ intros kv kl Hk | intros m' id' e0 Hl | intros m' Hw | intros id' Hid
  | intros id' e0 ttl0 Hle | intros m' st0 ttl0 Hg | intros m' st0 Hka ].

(* ---- helper: closing a member's lease object (no etcd effect) ---- *)
Lemma inv_set_closed s m x : Inv s -> Inv (set_mem s m (close_mem x)).
Proof.
  intros [Ik Il Iw If Ib Ig Ia]. clauses; eauto.
  - eqb_cases; cbn in Hl; inj; eauto.
  - eqb_cases; cbn in Hw; inj; eauto.
  - eqb_cases; cbn in Hg; inj; eauto.
  - eqb_cases; cbn in Hka; inj; eauto.
Qed.

(* ---- helper: a lease disappears from etcd (expiry or revocation) ---- *)
Lemma inv_revoke s l :
  Inv s ->
  (forall m e, lease (mems s m) = Granted l e -> won (mems s m) = true -> e < now s) ->
  Inv (revoke s l).
Proof.
  intros [Ik Il Iw If Ib Ig Ia] Hdead. clauses; eauto.
  - destruct (key s) as [[v0 l0]|] eqn:Ek; [|discriminate].
    destruct (Nat.eqb_spec l0 l); [discriminate|]. inj.
    destruct (Ik _ _ eq_refl) as [[et Het] Ho]. split; [|assumption].
    eqb_cases; [contradiction|eauto].
  - destruct (Il _ _ _ Hl) as (Ho & Hn & Hb). repeat split; auto.
    intros e' ttl. eqb_cases; [discriminate|apply Hb].
  - destruct (Iw _ Hw) as (id & e & Hl & Hkey & Hgone). exists id, e. split; [assumption|]. split.
    + intros [et Het]. destruct (Nat.eqb_spec id l); [discriminate|].
      rewrite (Hkey (ex_intro _ et Het)). destruct (Nat.eqb_spec id l); [contradiction|reflexivity].
    + intros Hn. destruct (Nat.eqb_spec id l); [subst; eauto|auto].
  - eqb_cases; auto.
  - eqb_cases; [discriminate|eauto].
Qed.

Lemma inv_do_close s m r :
  Inv s -> won (mems s m) = false \/ True -> Inv (do_close s m r).
Proof.
  intros I _. unfold do_close.
  destruct (lease_id (lease (mems s m))) as [id|] eqn:El; [|apply inv_set_closed; assumption].
  destruct r; [|apply inv_set_closed; assumption].
  apply inv_revoke; [apply inv_set_closed; assumption|].
  intros m' e. cbn. unfold upd. destruct (Nat.eqb_spec m' m); [cbn; discriminate|].
  intros Hl Hw. exfalso.
  destruct (lease (mems s m)) eqn:Elm; cbn in El; inj.
  destruct I as [_ Il _ _ _ _ _].
  destruct (Il _ _ _ Hl) as (Ho1 & _). destruct (Il _ _ _ Elm) as (Ho2 & _). congruence.
Qed.

Lemma inv_tick s d s' : Inv s -> step s (LTick d) = Some s' -> Inv s'.
Proof.
  intros [Ik Il Iw If Ib Ig Ia] H; cbn in H; inj. clauses; eauto.
  - destruct (Iw _ Hw) as (id & e & Hl & Hkey & Hgone). exists id, e; repeat split; auto.
    intros Hn; specialize (Hgone Hn); lia.
  - specialize (Ib _ _ _ Hle); lia.
  - specialize (Ig _ _ _ Hg); lia.
  - specialize (Ia _ _ Hka); lia.
Qed.

Lemma inv_grant_start s m ttl s' : Inv s -> step s (LGrantStart m ttl) = Some s' -> Inv s'.
Proof.
  intros [Ik Il Iw If Ib Ig Ia] H; cbn in H.
  assert (Hs : won (mems s m) = false /\
               s' = set_mem s m (Mem Ungranted false false (Some (now s, ttl)) None (saw (mems s m)) (ttl_of (mems s m)) true)).
  { destruct (lease (mems s m)); try discriminate; destruct (won (mems s m)); inj; auto. }
  destruct Hs as [Hw0 ->]. clear H. clauses; eauto.
  - eqb_cases; cbn in Hl; inj; eauto.
  - eqb_cases; cbn in Hw; inj; eauto.
  - eqb_cases; cbn in Hg; inj; [lia|eauto].
  - eqb_cases; cbn in Hka; inj; eauto.
Qed.

Lemma inv_grant_done s m ok s' : Inv s -> step s (LGrantDone m ok) = Some s' -> Inv s'.
Proof.
  intros [Ik Il Iw If Ib Ig Ia] H; cbn in H.
  destruct (lease (mems s m)) eqn:El; try discriminate.
  destruct (g_start (mems s m)) as [[st ttl]|] eqn:Eg; [|discriminate].
  pose proof (Ig _ _ _ Eg) as Hst.
  destruct ok; inj.
  - (* a fresh lease id is granted *)
    clauses.
    + destruct (Ik _ _ Hk) as [[et Het] Ho].
      assert (kl <> next_lease s) by (intros ->; rewrite If in Het; [discriminate|lia]).
      eqb_cases; try contradiction. eauto.
    + eqb_cases; cbn in Hl; inj; try contradiction;
        try (destruct (Il _ _ _ Hl) as (Ho & Hn & Hb)); try lia;
        repeat split; auto; try lia; intros e' ttl1 He'; inj; lia.
    + eqb_cases; cbn in Hw; inj.
      destruct (Iw _ Hw) as (id1 & e1 & Hl1 & Hkey & Hgone). exists id1, e1.
      destruct (Il _ _ _ Hl1) as (_ & Hlt & _).
      repeat split; auto; destruct (Nat.eqb_spec id1 (next_lease s)); try lia; auto.
    + eqb_cases; [lia|]. apply If; lia.
    + eqb_cases; inj; [lia|eauto].
    + eqb_cases; cbn in Hg; inj; eauto.
    + eqb_cases; cbn in Hka; inj; eauto.
  - clauses; eauto.
    + eqb_cases; cbn in Hl; inj; eauto.
    + eqb_cases; cbn in Hw; inj; eauto.
    + eqb_cases; cbn in Hg; inj; eauto.
    + eqb_cases; cbn in Hka; inj; eauto.
Qed.

(* setting the key when no record exists *)
Lemma inv_put_key s m id e :
  Inv s -> key s = None -> lease (mems s m) = Granted id e -> (exists et, leases s id = Some et) ->
  Inv (State (now s) (Some (m, id)) (leases s) (owner s) (next_lease s) (data s) (mems s) (served s)).
Proof.
  intros [Ik Il Iw If Ib Ig Ia] Hnone Hlm Halive. clauses; eauto.
  - inj. split; [assumption|]. apply (Il _ _ _ Hlm).
  - destruct (Iw _ Hw) as (id1 & e1 & Hl1 & Hkey & Hgone). exists id1, e1. repeat split; auto.
    intros Hal. specialize (Hkey Hal). congruence.
Qed.

Lemma inv_set_won s m id e x :
  Inv s -> lease (mems s m) = Granted id e -> key s = Some (m, id) ->
  lease x = Granted id e -> g_start x = None -> ka_start x = None ->
  Inv (set_mem s m x).
Proof.
  intros [Ik Il Iw If Ib Ig Ia] Hl0 Hkey Hx Hg0 Hk0. clauses; eauto.
  - eqb_cases; [|eauto]. rewrite Hx in Hl. inj. eauto.
  - eqb_cases; [|eauto]. exists id, e. repeat split; auto.
    intros Hn. destruct (Ik _ _ Hkey) as [[et Het] _]. congruence.
  - eqb_cases; [|eauto]. congruence.
  - eqb_cases; [|eauto]. congruence.
Qed.

Lemma inv_campaign s m o r s' : Inv s -> step s (LCampaignTxn m o r) = Some s' -> Inv s'.
Proof.
  intros I H; cbn in H.
  destruct (lease (mems s m)) as [| |id e|] eqn:El; try discriminate.
  destruct (campaigning (mems s m)); [|discriminate].
  set (alive := match leases s id with Some _ => true | None => false end) in *.
  set (cmp := match key s with None => true | Some _ => false end) in *.
  destruct (match o with ErrNotApplied => false | _ => cmp && alive end) eqn:Eapp.
  - (* applied: no record existed and the lease is alive *)
    assert (Hc : cmp = true /\ alive = true) by (destruct o; try discriminate; apply andb_true_iff in Eapp; tauto).
    destruct Hc as [Hc Ha]. subst cmp alive.
    destruct (key s) eqn:Ek; [discriminate|]. destruct (leases s id) as [et|] eqn:Ele; [|discriminate].
    pose proof (inv_put_key s m id e I Ek El (ex_intro _ et Ele)) as I1.
    destruct o; try discriminate; inj.
    + apply inv_set_won with (id := id) (e := e); auto.
    + apply inv_do_close; auto.
  - assert (Hs : s' = do_close (State (now s) (key s) (leases s) (owner s) (next_lease s) (data s) (mems s) (served s)) m r).
    { destruct o; inj; reflexivity. }
    rewrite Hs. apply inv_do_close; auto. destruct s; exact I.
Qed.

Lemma inv_keep_start s m s' : Inv s -> step s (LKeepStart m) = Some s' -> Inv s'.
Proof.
  intros [Ik Il Iw If Ib Ig Ia] H; cbn in H.
  destruct (lease (mems s m)) as [| |id e|] eqn:El; try discriminate.
  destruct (won (mems s m)) eqn:Ew; [|discriminate]. inj. clauses; eauto.
  - eqb_cases; cbn in Hl; inj; eauto.
  - eqb_cases; [|eauto]. destruct (Iw _ Ew) as (id1 & e1 & Hl1 & Hkey & Hgone). cbn.
    rewrite El in Hl1. inj. eauto.
  - eqb_cases; cbn in Hg; inj; eauto.
  - eqb_cases; cbn in Hka; inj; [lia|eauto].
Qed.

Lemma inv_keep_done s m s' : Inv s -> step s (LKeepDone m) = Some s' -> Inv s'.
Proof.
  intros I H; cbn in H.
  destruct (lease (mems s m)) as [| |id e|] eqn:El; try discriminate;
    [|inversion H; subst; exact I].   (* Closed: a late response changes nothing *)
  destruct I as [Ik Il Iw If Ib Ig Ia].
  destruct (ka_start (mems s m)) as [st|] eqn:Ek; [|discriminate].
  pose proof (Ia _ _ Ek) as Hst.
  destruct (Il _ _ _ El) as (_ & _ & Hb).
  assert (Hsame : forall x, lease x = Granted id e -> won x = won (mems s m) -> g_start x = None -> ka_start x = None ->
            Inv (set_mem s m x)).
  { intros x Hx Hwx Hgx Hkx. clauses; eauto.
    - eqb_cases; [|eauto]. rewrite Hx in Hl. inj. eauto.
    - eqb_cases; [|eauto]. rewrite Hwx in Hw. destruct (Iw _ Hw) as (id1 & e1 & Hl1 & Hkey & Hgone).
      rewrite Hx. rewrite El in Hl1. inj. eauto.
    - eqb_cases; [|eauto]. congruence.
    - eqb_cases; [|eauto]. congruence. }
  destruct (leases s id) as [[e' ttl]|] eqn:Ele.
  - destruct (now s <=? e') eqn:Elive; inj; [|apply Hsame; reflexivity].
    apply N.leb_le in Elive. specialize (Hb _ _ eq_refl). pose proof (Ib _ _ _ Ele) as Hbd.
    clauses; eauto.
    + destruct (Ik _ _ Hk) as [[et Het] Hov]. split; [|assumption]. eqb_cases; eauto.
    + eqb_cases; cbn in Hl; inj; try contradiction;
        try (destruct (Il _ _ _ Hl) as (Ho1 & Hn1 & Hb1)); try congruence;
        repeat split; auto; try (destruct (Il _ _ _ El) as (Ho2 & Hn2 & _); assumption);
        intros e'' ttl1 He''; inj; try lia; eauto;
        exfalso; destruct (Il _ _ _ El) as (Ho2 & _); congruence.
    + eqb_cases; cbn in Hw.
      * destruct (Iw _ Hw) as (id1 & e1 & Hl1 & Hkey & Hgone). rewrite El in Hl1. inj.
        exists id1, (N.max e1 (st + ttl)). split; [reflexivity|]. rewrite Nat.eqb_refl. split.
        -- intros _. apply Hkey. eauto.
        -- discriminate.
      * destruct (Iw _ Hw) as (id1 & e1 & Hl1 & Hkey & Hgone). exists id1, e1.
        destruct (Il _ _ _ Hl1) as (Ho1 & _). destruct (Il _ _ _ El) as (Ho2 & _).
        destruct (Nat.eqb_spec id1 id); [exfalso; congruence|]. auto.
    + eqb_cases; [rewrite If in Ele by assumption; discriminate | eauto].
    + eqb_cases; inj; [lia|eauto].
    + eqb_cases; cbn in Hg; inj; eauto.
    + eqb_cases; cbn in Hka; inj; eauto.
  - inj. apply Hsame; reflexivity.
Qed.

Lemma inv_expire s l s' : Inv s -> step s (LExpire l) = Some s' -> Inv s'.
Proof.
  intros I H; cbn in H.
  destruct (leases s l) as [[e' ttl]|] eqn:Ele; [|discriminate].
  destruct (e' <? now s) eqn:Elt; [|discriminate]. inj. apply N.ltb_lt in Elt.
  apply inv_revoke; [assumption|].
  intros m e Hl _. destruct I as [_ Il _ _ _ _ _].
  destruct (Il _ _ _ Hl) as (_ & _ & Hb). specialize (Hb _ _ Ele). lia.
Qed.

Lemma inv_reset s m r s' : Inv s -> step s (LReset m r) = Some s' -> Inv s'.
Proof.
  intros I H; cbn in H.
  assert (s' = do_close s m r) as -> by (destruct (lease (mems s m)); inj; reflexivity).
  apply inv_do_close; auto.
Qed.

Lemma inv_set_flag s m x :
  Inv s -> lease x = lease (mems s m) -> won x = won (mems s m) ->
  g_start x = g_start (mems s m) -> ka_start x = ka_start (mems s m) -> Inv (set_mem s m x).
Proof.
  intros [Ik Il Iw If Ib Ig Ia] Hxl Hxw Hxg Hxk. clauses; eauto.
  - eqb_cases; [|eauto]. rewrite Hxl in Hl. eauto.
  - eqb_cases; [|eauto]. rewrite Hxw in Hw. rewrite Hxl. eauto.
  - eqb_cases; [|eauto]. rewrite Hxg in Hg. eauto.
  - eqb_cases; [|eauto]. rewrite Hxk in Hka. eauto.
Qed.

Lemma inv_observe s m s' : Inv s -> step s (LObserve m) = Some s' -> Inv s'.
Proof.
  intros I H; cbn in H. destruct (won (mems s m)) eqn:Ew; [discriminate|]. inj.
  apply inv_set_flag; cbn; auto.
Qed.

Lemma nat_opt_eqb_true a b : nat_opt_eqb a b = true -> a = Some b.
Proof. destruct a; cbn; [|discriminate]. intros H; apply Nat.eqb_eq in H; congruence. Qed.

Lemma pair_opt_eqb_true a b : pair_opt_eqb a b = true -> a = Some b.
Proof.
  destruct a as [[x y]|]; cbn; [|discriminate]. destruct b as [b1 b2]; cbn.
  intros H. apply andb_true_iff in H as [H1 H2]. apply Nat.eqb_eq in H1, H2. congruence.
Qed.

(* an observed own record: its value is the observer *)
Definition SawOwn (s : state) : Prop :=
  forall m kv, saw (mems s m) = Some kv -> fst kv = m.

(* DeleteLeaderKey guarded by the revision CheckLeader read: only the deleter's own record can go *)
Lemma inv_delete s m o r s' :
  Inv s -> SawOwn s -> step s (LDeleteKey m o r) = Some s' -> Inv s'.
Proof.
  intros I Hsaw H; cbn in H.
  destruct (saw (mems s m)) as [okv|] eqn:Esaw; [|discriminate].
  destruct (negb (won (mems s m))) eqn:Hnw; [|discriminate]. apply negb_true_iff in Hnw.
  pose proof (Hsaw _ _ Esaw) as Hown.
  set (x := Mem (lease (mems s m)) (won (mems s m)) (campaigning (mems s m)) (g_start (mems s m))
               (ka_start (mems s m)) None (ttl_of (mems s m)) (has_value (mems s m))) in *.
  assert (I0 : Inv (set_mem s m x)) by (apply inv_set_flag; cbn; auto).
  assert (Idel : pair_opt_eqb (key s) okv = true ->
                 Inv (State (now s) None (leases s) (owner s) (next_lease s) (data s) (upd (mems s) m x) (served s))).
  { intros Hc. apply pair_opt_eqb_true in Hc.
    destruct I0 as [Ik Il Iw If Ib Ig Ia]. clauses; eauto;
      try (exact (Ig _ _ _ Hg)); try (exact (Ia _ _ Hka)).
    - discriminate.
    - destruct (Iw _ Hw) as (id1 & e1 & Hl1 & Hkey & Hgone). exists id1, e1. repeat split; auto.
      intros Hal. specialize (Hkey Hal). cbn in Hkey. rewrite Hkey in Hc. inversion Hc as [Hc1]. rewrite <- Hc1 in Hown. cbn in Hown. subst m'.
      cbn in Hw. unfold upd in Hw. rewrite Nat.eqb_refl in Hw. subst x. cbn in Hw. congruence. }
  destruct (pair_opt_eqb (key s) okv) eqn:Ec.
  - specialize (Idel eq_refl).
    destruct o.
    + destruct (lease (mems s m)) eqn:El; inj; try exact Idel; apply inv_do_close; auto.
    + inj. exact I0.
    + inj. exact Idel.
  - assert (s' = set_mem s m x) as ->.
    { destruct o; [destruct (lease (mems s m))|..]; inj; reflexivity. }
    exact I0.
Qed.

Lemma inv_write s m k v o s' : Inv s -> step s (LWrite m k v o) = Some s' -> Inv s'.
Proof. intros [Ik Il Iw If Ib Ig Ia] H; cbn in H; inj. clauses; eauto. Qed.

Lemma inv_envput s k v s' : Inv s -> step s (LEnvPut k v) = Some s' -> Inv s'.
Proof. intros [Ik Il Iw If Ib Ig Ia] H; cbn in H; inj. clauses; eauto. Qed.

Lemma inv_crash s m s' : Inv s -> step s (LCrash m) = Some s' -> Inv s'.
Proof.
  intros [Ik Il Iw If Ib Ig Ia] H; cbn in H; inj. clauses; eauto.
  - eqb_cases; cbn in Hl; inj; eauto.
  - eqb_cases; cbn in Hw; inj; eauto.
  - eqb_cases; cbn in Hg; inj; eauto.
  - eqb_cases; cbn in Hka; inj; eauto.
Qed.

Lemma inv_serve s m s' : Inv s -> step s (LServe m) = Some s' -> Inv s'.
Proof.
  intros [Ik Il Iw If Ib Ig Ia] H; cbn in H. destruct (is_leader s m); inj. clauses; eauto.
Qed.

(* SawOwn is itself an invariant (and independent of Inv) *)
Lemma sawown_init : SawOwn init.
Proof. intros m kv H; cbn in H; discriminate. Qed.

Lemma sawown_set s m x : SawOwn s -> saw x = saw (mems s m) -> SawOwn (set_mem s m x).
Proof.
  intros Hs Hx m' kv. cbn. unfold upd. destruct (Nat.eqb_spec m' m); [subst; rewrite Hx|]; apply Hs.
Qed.

Lemma sawown_set_none s m x : SawOwn s -> saw x = None -> SawOwn (set_mem s m x).
Proof.
  intros Hs Hx m' kv. cbn. unfold upd. destruct (Nat.eqb_spec m' m); [subst; rewrite Hx; discriminate|]; apply Hs.
Qed.

Lemma sawown_revoke s l : SawOwn s -> SawOwn (revoke s l).
Proof. intros Hs m kv; cbn; apply Hs. Qed.

Lemma sawown_do_close s m r : SawOwn s -> SawOwn (do_close s m r).
Proof.
  intros Hs. unfold do_close.
  assert (H1 : SawOwn (set_mem s m (close_mem (mems s m)))) by (apply sawown_set; [assumption|reflexivity]).
  destruct (lease_id (lease (mems s m))); [destruct r; [apply sawown_revoke|]|]; assumption.
Qed.

Lemma sawown_mems s s' : mems s' = mems s -> SawOwn s -> SawOwn s'.
Proof. intros E Hs m kv; rewrite E; apply Hs. Qed.

Lemma sawown_step s l s' : SawOwn s -> step s l = Some s' -> SawOwn s'.
Proof.
  intros Hs H. destruct l; cbn in H.
  - inj. eapply sawown_mems; [|eassumption]; reflexivity.
  - destruct (lease (mems s m)); try discriminate; destruct (won (mems s m)); inj;
      (apply sawown_set; [assumption|reflexivity]).
  - destruct (lease (mems s m)); try discriminate. destruct (g_start (mems s m)) as [[st ttl]|]; [|discriminate].
    destruct ok; inj.
    + intros m' kv. cbn. unfold upd. destruct (Nat.eqb_spec m' m); [subst; cbn|]; apply Hs.
    + apply sawown_set; [assumption|reflexivity].
  - destruct (lease (mems s m)) as [| |id e|]; try discriminate. destruct (campaigning (mems s m)); [|discriminate].
    set (s1 := State _ _ _ _ _ _ _ _) in H.
    assert (H1 : SawOwn s1) by (eapply sawown_mems; [|eassumption]; reflexivity).
    destruct (match o with Ok => _ | _ => false end); inj.
    + apply sawown_set; [assumption|reflexivity].
    + apply sawown_do_close; assumption.
  - destruct (lease (mems s m)); try discriminate. destruct (won (mems s m)); inj.
    apply sawown_set; [assumption|reflexivity].
  - destruct (lease (mems s m)) as [| |id e|]; try discriminate; [|inj; assumption].
    destruct (ka_start (mems s m)); [|discriminate].
    destruct (leases s id) as [[e' ttl]|].
    + destruct (now s <=? e'); inj.
      * intros m' kv. cbn. unfold upd. destruct (Nat.eqb_spec m' m); [subst; cbn|]; apply Hs.
      * apply sawown_set; [assumption|reflexivity].
    + inj. apply sawown_set; [assumption|reflexivity].
  - destruct (leases s l) as [[e ttl]|]; [|discriminate]. destruct (e <? now s); inj. apply sawown_revoke; assumption.
  - destruct (lease (mems s m)); inj; apply sawown_do_close; assumption.
  - destruct (won (mems s m)); inj.
    intros m' kv. cbn. unfold upd. destruct (Nat.eqb_spec m' m); [subst; cbn|apply Hs].
    destruct (nat_opt_eqb (key_value s) m) eqn:E; [|discriminate].
    apply nat_opt_eqb_true in E. unfold key_value in E. intros Hk. rewrite Hk in E. destruct kv; inj. reflexivity.
  - destruct (saw (mems s m)) as [kv0|]; [|discriminate]. destruct (negb (won (mems s m))); [|discriminate].
    set (s1 := State _ _ _ _ _ _ _ _) in H.
    assert (H1 : SawOwn s1).
    { intros m' kv. cbn. unfold upd. destruct (Nat.eqb_spec m' m); [subst; cbn; discriminate|apply Hs]. }
    destruct o; [destruct (lease (mems s m)); [|destruct (pair_opt_eqb (key s) kv0)..]|..]; inj;
      try assumption; apply sawown_do_close; assumption.
  - inj. eapply sawown_mems; [|eassumption]; reflexivity.
  - inj. eapply sawown_mems; [|eassumption]; reflexivity.
  - inj. apply sawown_set_none; [assumption|reflexivity].
  - destruct (is_leader s m); inj. eapply sawown_mems; [|eassumption]; reflexivity.
Qed.

Definition Inv2 (s : state) : Prop := Inv s /\ SawOwn s.

Theorem inv_step s l s' : Inv2 s -> step s l = Some s' -> Inv2 s'.
Proof.
  intros [I Hs] H. split; [|eapply sawown_step; eauto].
  destruct l.
  - eapply inv_tick; eauto.
  - eapply inv_grant_start; eauto.
  - eapply inv_grant_done; eauto.
  - eapply inv_campaign; eauto.
  - eapply inv_keep_start; eauto.
  - eapply inv_keep_done; eauto.
  - eapply inv_expire; eauto.
  - eapply inv_reset; eauto.
  - eapply inv_observe; eauto.
  - eapply inv_delete; eauto.
  - eapply inv_write; eauto.
  - eapply inv_envput; eauto.
  - eapply inv_crash; eauto.
  - eapply inv_serve; eauto.
Qed.

Theorem inv_exec ls : Inv (exec step init ls).
Proof.
  apply (invariant_exec step Inv2); [exact inv_step | split; [exact inv_init | exact sawown_init]].
Qed.

(* ---------------- statements ---------------- *)

(* a member that serves as leader owns the stored record and its etcd lease is alive *)
Lemma leader_owns_key s m :
  Inv s -> is_leader s m = true ->
  exists id e et, lease (mems s m) = Granted id e /\ key s = Some (m, id) /\ leases s id = Some et.
Proof.
  intros I H. unfold is_leader in H. apply andb_true_iff in H as [Hc Hw].
  destruct (i_won _ I _ Hw) as (id & e & Hl & Hkey & Hgone).
  rewrite Hl in Hc. cbn in Hc. apply N.leb_le in Hc.
  destruct (leases s id) as [et|] eqn:Ele.
  - exists id, e, et. repeat split; auto. apply Hkey; eauto.
  - specialize (Hgone eq_refl). lia.
Qed.

Lemma at_most_one_leader s m1 m2 :
  Inv s -> is_leader s m1 = true -> is_leader s m2 = true -> m1 = m2.
Proof.
  intros I H1 H2.
  destruct (leader_owns_key _ _ I H1) as (i1 & e1 & t1 & _ & K1 & _).
  destruct (leader_owns_key _ _ I H2) as (i2 & e2 & t2 & _ & K2 & _).
  congruence.
Qed.

(* the campaign txn puts a record only when none existed *)
Lemma campaign_needs_no_record s m o r s' :
  step s (LCampaignTxn m o r) = Some s' ->
  (won (mems s' m) = true -> key s = None) /\
  (forall kv, key s = Some kv -> key s' = Some kv \/ key s' = None).
Proof.
  intros H; cbn in H.
  destruct (lease (mems s m)) as [| |id e|] eqn:El; try discriminate.
  destruct (campaigning (mems s m)); [|discriminate].
  destruct (key s) as [kv0|] eqn:Ek.
  - (* a record exists: cmp false, nothing applied, not acknowledged *)
    cbn in H. assert (Hs : s' = do_close (State (now s) (Some kv0) (leases s) (owner s) (next_lease s) (data s) (mems s) (served s)) m r)
      by (destruct o; inj; reflexivity).
    subst s'. split.
    + unfold do_close; cbn. rewrite El; cbn.
      destruct r; cbn; unfold upd; rewrite Nat.eqb_refl; cbn; discriminate.
    + intros kv Hkv; inj. unfold do_close; cbn. rewrite El; cbn.
      destruct r; cbn; [|auto]. destruct kv as [v0 l0]. destruct (Nat.eqb l0 id); auto.
  - split; [reflexivity|discriminate].
Qed.

(* expired, closed (resigned / failed campaign) or absent lease: not leader, whatever else holds *)
Lemma no_valid_lease_not_leader s m :
  (lease (mems s m) = NoLease \/ lease (mems s m) = Closed \/
   (exists id e, lease (mems s m) = Granted id e /\ e < now s)) ->
  is_leader s m = false.
Proof.
  unfold is_leader. intros [H|[H|(id & e & H & Hlt)]]; rewrite H; cbn; auto.
  destruct (N.leb_spec (now s) e); [lia|reflexivity].
Qed.

(* LServe is the only way a request is served, and it requires is_leader: so the ghost log only
   contains (t, m) with m leader at t; two entries at the same state are the same member *)
Lemma served_only_by_leader s m s' :
  step s (LServe m) = Some s' -> is_leader s m = true.
Proof. cbn. destruct (is_leader s m); [reflexivity|discriminate]. Qed.

(* a leader-guarded write by a member whose value is not the stored record changes nothing in etcd *)
Lemma non_owner_write_rejected s m k v o s' :
  key_value s <> Some m -> step s (LWrite m k v o) = Some s' ->
  key s' = key s /\ data s' = data s /\ leases s' = leases s.
Proof.
  intros Hne H; cbn in H.
  assert (Hc : nat_opt_eqb (key_value s) m = false).
  { destruct (nat_opt_eqb (key_value s) m) eqn:E; [apply nat_opt_eqb_true in E; contradiction|reflexivity]. }
  rewrite Hc, andb_false_r in H. destruct o; inj; cbn; auto.
Qed.

(* and an owner's write is applied exactly when the outcome says so *)
Lemma owner_write_applied s m k v s' :
  has_value (mems s m) = true -> key_value s = Some m -> step s (LWrite m k (Some v) Ok) = Some s' -> data s' k = Some (m, v).
Proof.
  intros Hv He H; cbn in H. rewrite He, Hv in H; cbn in H. rewrite Nat.eqb_refl in H. inj; cbn.
  unfold upd; rewrite Nat.eqb_refl; reflexivity.
Qed.
