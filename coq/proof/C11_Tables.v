(* C11 — obligations on what the translator regenerates from /repo (gen/Gen_C11.v): the StoreStateFilter
   table (as for C10), the filter literals of the scatterer and of the schedulers, and the source text of
   the scatter selection functions the model transcribes. *)
From PDV Require Import lib.Skel lib.C10_Cluster gen.Gen_C11 model.C11_Scatter.
Local Open Scope string_scope.

(* ---------- scatter: StoreStateFilter{MoveRegion, ScatterRegion} ---------- *)
Lemma scatter_flags_ok : Gen_C11.scatter_flags = [MoveRegion; ScatterRegion].
Proof. reflexivity. Qed.
Lemma scatter_row : In ([(MoveRegion, true); (ScatterRegion, true)], scatterRegionTarget) Gen_C11.target_dispatch.
Proof. cbv. tauto. Qed.
Lemma scatter_guards : forallb (guard_holds Gen_C11.scatter_flags) [(MoveRegion, true); (ScatterRegion, true)] = true.
Proof. reflexivity. Qed.
Lemma scatter_conds : incl [isTombstone; isOffline; isDown; isDisconnected; isBusy] (Gen_C11.conds scatterRegionTarget).
Proof. intros c H; cbn in H; cbv. repeat destruct H as [<-|H]; tauto. Qed.
Lemma scatter_no_temp c : has_flag Gen_C11.scatter_flags AllowTemporaryStates && mem_cond c Gen_C11.temp_conds = false.
Proof. reflexivity. Qed.

(* ---------- peer moves: StoreStateFilter{MoveRegion} ---------- *)
Lemma move_flags_ok : Gen_C11.balance_region_target_flags = [MoveRegion] /\ Gen_C11.shuffle_region_flags = [MoveRegion]
                      /\ Gen_C11.balance_region_source_flags = [MoveRegion]
                      /\ Gen_C11.hot_move_flags = [MoveRegion] /\ Gen_C11.shuffle_hot_flags = [MoveRegion].
Proof. repeat split; reflexivity. Qed.
Lemma region_target_row : In ([(MoveRegion, true); (ScatterRegion, false)], regionTarget) Gen_C11.target_dispatch.
Proof. cbv. tauto. Qed.
Lemma move_guards : forallb (guard_holds [MoveRegion]) [(MoveRegion, true); (ScatterRegion, false)] = true.
Proof. reflexivity. Qed.
Lemma region_target_conds :
  incl [isTombstone; isOffline; isDown; isDisconnected; isBusy; exceedAddLimit; tooManySnapshots; tooManyPendingPeers] (Gen_C11.conds regionTarget).
Proof. intros c H; cbn in H; cbv. repeat destruct H as [<-|H]; tauto. Qed.
Lemma move_no_temp c : has_flag [MoveRegion] AllowTemporaryStates && mem_cond c Gen_C11.temp_conds = false.
Proof. reflexivity. Qed.

(* ---------- leader moves: StoreStateFilter{TransferLeader} ---------- *)
Lemma leader_flags_ok : Gen_C11.balance_leader_flags = [TransferLeader] /\ Gen_C11.shuffle_leader_flags = [TransferLeader]
                        /\ Gen_C11.evict_leader_flags = [TransferLeader] /\ Gen_C11.label_flags = [TransferLeader]
                        /\ Gen_C11.hot_leader_flags = [TransferLeader].
Proof. repeat split; reflexivity. Qed.
Lemma leader_target_row : In ([(TransferLeader, true)], leaderTarget) Gen_C11.target_dispatch.
Proof. cbv. tauto. Qed.
Lemma leader_guards : forallb (guard_holds [TransferLeader]) [(TransferLeader, true)] = true.
Proof. reflexivity. Qed.
Lemma leader_target_conds :
  incl [isTombstone; isOffline; isDown; pauseLeaderTransfer; isDisconnected; isBusy; hasRejectLeaderProperty] (Gen_C11.conds leaderTarget).
Proof. intros c H; cbn in H; cbv. repeat destruct H as [<-|H]; tauto. Qed.
Lemma leader_no_temp c : has_flag [TransferLeader] AllowTemporaryStates && mem_cond c Gen_C11.temp_conds = false.
Proof. reflexivity. Qed.

Lemma cond_src_ok : Gen_C11.cond_src =
  [(exceedAddLimit, "!store.IsAvailable(storelimit.AddPeer)"); (exceedRemoveLimit, "!store.IsAvailable(storelimit.RemovePeer)");
   (hasRejectLeaderProperty, "opts.CheckLabelProperty(opt.RejectLeader, store.GetLabels())"); (isBusy, "store.IsBusy()");
   (isDisconnected, "store.IsDisconnected()"); (isDown, "store.DownTime() > opt.GetMaxStoreDownTime()"); (isOffline, "store.IsOffline()");
   (isTombstone, "store.IsTombstone()"); (pauseLeaderTransfer, "!store.AllowLeaderTransfer()");
   (tooManyPendingPeers, "opt.GetMaxPendingPeerCount() > 0 && store.GetPendingPeerCount() > int(opt.GetMaxPendingPeerCount())");
   (tooManySnapshots, "(uint64(store.GetSendingSnapCount()) > opt.GetMaxSnapshotCount() || uint64(store.GetReceivingSnapCount()) > opt.GetMaxSnapshotCount())")].
Proof. reflexivity. Qed.

(* ---------- the filter lists the moves are drawn through ---------- *)
(* balance-region: the region's own stores are excluded from the targets, and the state filter is there *)
Lemma balance_region_filters_ok : Gen_C11.balance_region_filters =
  ["filter.NewExcludedFilter(s.GetName(), nil, plan.region.GetStoreIds())"; "filter.NewPlacementSafeguard(s.GetName(), plan.cluster, plan.region, plan.source)";
   "filter.NewRegionScoreFilter(s.GetName(), plan.source, plan.cluster.GetOpts())"; "filter.NewSpecialUseFilter(s.GetName())";
   "&filter.StoreStateFilter{ActionScope: s.GetName(), MoveRegion: true}"].
Proof. reflexivity. Qed.
Lemma balance_region_new_peer_ok : Gen_C11.balance_region_new_peer = "&metapb.Peer{StoreId: plan.target.GetID(), Role: oldPeer.Role}".
Proof. reflexivity. Qed.
Lemma skel_transferPeer_ok : Gen_C11.skel_transferPeer =
  [Call "NewCandidates"; Call "FilterTarget"; Call "Sort"; ForE [Call "shouldBalance"; Call "GetStorePeer"; Call "CreateMovePeerOperator"; IfE "err != nil" [Ret] []; Ret]; Ret].
Proof. reflexivity. Qed.
Lemma shuffle_add_peer_ok : Gen_C11.src_shuffle_scheduleAddPeer =
  "{ scoreGuard := filter.NewPlacementSafeguard(s.GetName(), cluster, region, cluster.GetStore(oldPeer.GetStoreId())) excludedFilter := filter.NewExcludedFilter(s.GetName(), nil, region.GetStoreIds()) target := filter.NewCandidates(cluster.GetStores()). FilterTarget(cluster.GetOpts(), s.filters...). FilterTarget(cluster.GetOpts(), scoreGuard, excludedFilter). RandomPick() if target == nil { return nil } return &metapb.Peer{StoreId: target.GetID(), Role: oldPeer.GetRole()} }".
Proof. reflexivity. Qed.
Lemma skel_balance_leader_ok :
  Gen_C11.skel_transferLeaderOut =
    [Call "RandLeaderRegion"; IfE "plan.region == nil" [Ret] []; Call "GetFollowerStores"; Call "NewPlacementLeaderSafeguard"; Call "SelectTargetStores";
     DeferE [Ret]; ForE [Call "createOperator"; IfE "len(op) > 0" [Ret] []]; Ret]
  /\ Gen_C11.skel_transferLeaderIn =
    [Call "RandFollowerRegion"; IfE "plan.region == nil" [Ret] []; Call "GetStore"; IfE "plan.source == nil" [Ret] []; Call "NewPlacementLeaderSafeguard";
     Call "NewCandidates"; Call "FilterTarget"; Call "PickFirst"; IfE "target == nil" [Ret] []; Call "createOperator"; Ret].
Proof. split; reflexivity. Qed.

(* ---------- the scatterer ---------- *)
(* the excluded set is built from the stores selected so far AND the stores of the region's other peers (see src_selectCandidates_ok) *)
Lemma scatter_candidate_filters_ok : Gen_C11.scatter_candidate_filters = ["filter.NewExcludedFilter(r.name, nil, excluded)"].
Proof. reflexivity. Qed.
Lemma skel_scatterRegion_ok : Gen_C11.skel_scatterRegion =
  [Call "NewOrdinaryEngineFilter"; ForE [Call "Target"]; Assign "targetPeers" ":= make(map[uint64]*metapb.Peer)"; Assign "selectedStores" ":= make(map[uint64]struct{})";
   DeferE [ForE [Call "selectCandidates"; Call "selectStore"]]; Call "scatterWithSameEngine"; Call "selectAvailableLeaderStores";
   ForE [IfE "!ok" [Call "NewEngineFilter"; Call "newEngineContext"] []; Call "scatterWithSameEngine"]; Call "CreateScatterRegionOperator";
   IfE "err != nil" [Call "Put"; Ret] []; IfE "op != nil" [Call "Put"] []; Ret].
Proof. reflexivity. Qed.
Lemma src_selectStore_ok : Gen_C11.src_selectStore =
  "{ if len(candidates) < 1 { return peer } var newPeer *metapb.Peer minCount := uint64(math.MaxUint64) for _, storeID := range candidates { count := context.selectedPeer.Get(storeID, group) if count < minCount { minCount = count newPeer = &metapb.Peer{ StoreId: storeID, Role: peer.GetRole(), } } } for _, storeID := range candidates { if storeID == sourceStoreID && context.selectedPeer.Get(sourceStoreID, group) <= minCount { return peer } } if newPeer == nil { return peer } return newPeer }".
Proof. reflexivity. Qed.
Lemma src_selectCandidates_ok : Gen_C11.src_selectCandidates =
  "{ sourceStore := r.cluster.GetStore(sourceStoreID) if sourceStore == nil { log.Error(""failed to get the store"", zap.Uint64(""store-id"", sourceStoreID), errs.ZapError(errs.ErrGetSourceStore)) return nil } excluded := make(map[uint64]struct{}, len(selectedStores)+len(region.GetPeers())) for id := range selectedStores { excluded[id] = struct{}{} } for id := range region.GetStoreIds() { if id != sourceStoreID { excluded[id] = struct{}{} } } filters := []filter.Filter{ filter.NewExcludedFilter(r.name, nil, excluded), } scoreGuard := filter.NewPlacementSafeguard(r.name, r.cluster, region, sourceStore) filters = append(filters, context.filters...) filters = append(filters, scoreGuard) stores := r.cluster.GetStores() candidates := make([]uint64, 0) maxStoreTotalCount := uint64(0) minStoreTotalCount := uint64(math.MaxUint64) for _, store := range r.cluster.GetStores() { count := context.selectedPeer.TotalCountByStore(store.GetID()) if count > maxStoreTotalCount { maxStoreTotalCount = count } if count < minStoreTotalCount { minStoreTotalCount = count } } for _, store := range stores { storeCount := context.selectedPeer.TotalCountByStore(store.GetID()) if storeCount < maxStoreTotalCount || maxStoreTotalCount == minStoreTotalCount { if filter.Target(r.cluster.GetOpts(), store, filters) { candidates = append(candidates, store.GetID()) } } } return candidates }".
Proof. reflexivity. Qed.
Lemma skel_scatter_rest_ok :
  Gen_C11.skel_selectAvailableLeaderStores = [ForE [Call "Get"]; Ret]
  /\ Gen_C11.skel_Put = [Call "NewOrdinaryEngineFilter"; ForE [Call "Target"; IfE "ordinaryFilter.Target(r.cluster.GetOpts(), store)" [Call "Put"] [Call "Put"]]; Call "Put"].
Proof. split; reflexivity. Qed.
Lemma chains_ok :
  Gen_C11.chain_CreateScatterRegionOperator =
    ["NewBuilder(desc, cluster, origin)"; "SetPeers(targetPeers)"; "SetLeader(leader)"; "EnableLightWeight()"; "EnableForceTargetLeader()"; "Build(0)"]
  /\ Gen_C11.chain_CreateMovePeerOperator = ["NewBuilder(desc, cluster, region)"; "RemovePeer(oldStore)"; "AddPeer(peer)"; "Build(kind)"]
  /\ Gen_C11.chain_CreateTransferLeaderOperator = ["NewBuilder(desc, cluster, region, SkipOriginJointStateCheck)"; "SetLeader(targetStoreID)"; "Build(kind)"].
Proof. repeat split; reflexivity. Qed.

(* ---------- the remaining schedulers ---------- *)
Lemma shuffle_hot_filters_ok : Gen_C11.shuffle_hot_filters = ["&filter.StoreStateFilter{ActionScope: s.GetName(), MoveRegion: true}"; "filter.NewExcludedFilter(s.GetName(), srcRegion.GetStoreIds(), srcRegion.GetStoreIds())"; "filter.NewPlacementSafeguard(s.GetName(), cluster, srcRegion, srcStore)"].
Proof. reflexivity. Qed.
Lemma move_leader_chain_ok : Gen_C11.chain_CreateMoveLeaderOperator = ["NewBuilder(desc, cluster, region)"; "RemovePeer(oldStore)"; "AddPeer(peer)"; "SetLeader(peer.GetStoreId())"; "Build(kind)"].
Proof. reflexivity. Qed.
Lemma skel_grant_ok : Gen_C11.skel_grant_Schedule = [RLock "s.conf.mu"; DeferRUnlock "s.conf.mu"; ForE [Call "RandFollowerRegion"; Call "CreateForceTransferLeaderOperator"]; Ret].
Proof. reflexivity. Qed.
Lemma skel_scatter_range_ok : Gen_C11.skel_scatter_range_Schedule = [Call "allowBalanceLeader"; IfE "l.allowBalanceLeader(cluster)" [Call "Schedule"; IfE "len(ops) > 0" [Call "SetDesc"; Ret] []] []; Call "allowBalanceRegion"; IfE "l.allowBalanceRegion(cluster)" [Call "Schedule"; IfE "len(ops) > 0" [Call "SetDesc"; Ret] []] []; Ret].
Proof. reflexivity. Qed.
Lemma src_hot_filterDstStores_ok : Gen_C11.src_hot_filterDstStores =
  "{ var ( filters []filter.Filter candidates []*core.StoreInfo ) srcStore := bs.cluster.GetStore(bs.cur.srcStoreID) if srcStore == nil { return nil } switch bs.opTy { case movePeer: filters = []filter.Filter{ &filter.StoreStateFilter{ActionScope: bs.sche.GetName(), MoveRegion: true}, filter.NewExcludedFilter(bs.sche.GetName(), bs.cur.region.GetStoreIds(), bs.cur.region.GetStoreIds()), filter.NewSpecialUseFilter(bs.sche.GetName(), filter.SpecialUseHotRegion), filter.NewPlacementSafeguard(bs.sche.GetName(), bs.cluster, bs.cur.region, srcStore), } for storeID := range bs.stLoadDetail { candidates = append(candidates, bs.cluster.GetStore(storeID)) } case transferLeader: filters = []filter.Filter{ &filter.StoreStateFilter{ActionScope: bs.sche.GetName(), TransferLeader: true}, filter.NewSpecialUseFilter(bs.sche.GetName(), filter.SpecialUseHotRegion), } if leaderFilter := filter.NewPlacementLeaderSafeguard(bs.sche.GetName(), bs.cluster, bs.cur.region, srcStore); leaderFilter != nil { filters = append(filters, leaderFilter) } for _, store := range bs.cluster.GetFollowerStores(bs.cur.region) { if _, ok := bs.stLoadDetail[store.GetID()]; ok { candidates = append(candidates, store) } } default: return nil } return bs.pickDstStores(filters, candidates) }".
Proof. reflexivity. Qed.

(* the leader candidates: target stores without an engine label whose labels do not reject leaders; all ordinary target stores
   only if every one rejects leaders *)
Lemma src_selectAvailableLeaderStores_ok : Gen_C11.src_selectAvailableLeaderStores =
  "{ leaderCandidateStores := make([]uint64, 0) for storeID := range peers { store := r.cluster.GetStore(storeID) engine := store.GetLabelValue(filter.EngineKey) if len(engine) < 1 && !r.cluster.GetOpts().CheckLabelProperty(opt.RejectLeader, store.GetLabels()) { leaderCandidateStores = append(leaderCandidateStores, storeID) } } minStoreGroupLeader := uint64(math.MaxUint64) id := uint64(0) if len(leaderCandidateStores) == 0 { for storeID := range peers { if len(r.cluster.GetStore(storeID).GetLabelValue(filter.EngineKey)) < 1 { leaderCandidateStores = append(leaderCandidateStores, storeID) } } } for _, storeID := range leaderCandidateStores { storeGroupLeaderCount := context.selectedLeader.Get(storeID, group) if minStoreGroupLeader > storeGroupLeaderCount { minStoreGroupLeader = storeGroupLeaderCount id = storeID } } return id }".
Proof. reflexivity. Qed.
