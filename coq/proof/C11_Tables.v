(* C11 — obligations on what the translator regenerates from /repo (gen/Gen_C11.v): the StoreStateFilter
   table (as for C10), the filter literals of the scatterer and of the schedulers, and the source text of
   the scatter selection functions the model transcribes. *)
From PDV Require Import lib.Skel lib.C10_Cluster gen.Gen_C11 model.C11_Scatter.
Local Open Scope string_scope.

(* ---------- scatter: StoreStateFilter{MoveRegion, ScatterRegion} ---------- *)
Lemma scatter_flags_ok : Gen_C11.scatter_flags = [MoveRegion; ScatterRegion].
Proof. reflexivity. Qed.
Lemma scatter_row : In ([(MoveRegion, true); (ScatterRegion, true)], scatterRegionTarget) Gen_C11.target_dispatch.
Proof. cbv. tauto. Qed.
Lemma scatter_guards : forallb (guard_holds Gen_C11.scatter_flags) [(MoveRegion, true); (ScatterRegion, true)] = true.
Proof. reflexivity. Qed.
Lemma scatter_conds : incl [isTombstone; isOffline; isDown; isDisconnected; isBusy] (Gen_C11.conds scatterRegionTarget).
Proof. intros c H; cbn in H; cbv. repeat destruct H as [<-|H]; tauto. Qed.
Lemma scatter_no_temp c : has_flag Gen_C11.scatter_flags AllowTemporaryStates && mem_cond c Gen_C11.temp_conds = false.
Proof. reflexivity. Qed.

(* ---------- peer moves: StoreStateFilter{MoveRegion} ---------- *)
Lemma move_flags_ok : Gen_C11.balance_region_target_flags = [MoveRegion] /\ Gen_C11.shuffle_region_flags = [MoveRegion]
                      /\ Gen_C11.balance_region_source_flags = [MoveRegion]
                      /\ Gen_C11.hot_move_flags = [MoveRegion] /\ Gen_C11.shuffle_hot_flags = [MoveRegion].
Proof. repeat split; reflexivity. Qed.
Lemma region_target_row : In ([(MoveRegion, true); (ScatterRegion, false)], regionTarget) Gen_C11.target_dispatch.
Proof. cbv. tauto. Qed.
Lemma move_guards : forallb (guard_holds [MoveRegion]) [(MoveRegion, true); (ScatterRegion, false)] = true.
Proof. reflexivity. Qed.
Lemma region_target_conds :
  incl [isTombstone; isOffline; isDown; isDisconnected; isBusy; exceedAddLimit; tooManySnapshots; tooManyPendingPeers] (Gen_C11.conds regionTarget).
Proof. intros c H; cbn in H; cbv. repeat destruct H as [<-|H]; tauto. Qed.
Lemma move_no_temp c : has_flag [MoveRegion] AllowTemporaryStates && mem_cond c Gen_C11.temp_conds = false.
Proof. reflexivity. Qed.

(* ---------- leader moves: StoreStateFilter{TransferLeader} ---------- *)
Lemma leader_flags_ok : Gen_C11.balance_leader_flags = [TransferLeader] /\ Gen_C11.shuffle_leader_flags = [TransferLeader]
                        /\ Gen_C11.evict_leader_flags = [TransferLeader] /\ Gen_C11.label_flags = [TransferLeader]
                        /\ Gen_C11.hot_leader_flags = [TransferLeader].
Proof. repeat split; reflexivity. Qed.
Lemma leader_target_row : In ([(TransferLeader, true)], leaderTarget) Gen_C11.target_dispatch.
Proof. cbv. tauto. Qed.
Lemma leader_guards : forallb (guard_holds [TransferLeader]) [(TransferLeader, true)] = true.
Proof. reflexivity. Qed.
Lemma leader_target_conds :
  incl [isTombstone; isOffline; isDown; pauseLeaderTransfer; isDisconnected; isBusy; hasRejectLeaderProperty] (Gen_C11.conds leaderTarget).
Proof. intros c H; cbn in H; cbv. repeat destruct H as [<-|H]; tauto. Qed.
Lemma leader_no_temp c : has_flag [TransferLeader] AllowTemporaryStates && mem_cond c Gen_C11.temp_conds = false.
Proof. reflexivity. Qed.

Lemma cond_src_ok : Gen_C11.cond_src =
  [(exceedAddLimit, "!store.IsAvailable(storelimit.AddPeer)"); (exceedRemoveLimit, "!store.IsAvailable(storelimit.RemovePeer)");
   (hasRejectLeaderProperty, "opts.CheckLabelProperty(opt.RejectLeader, store.GetLabels())"); (isBusy, "store.IsBusy()");
   (isDisconnected, "store.IsDisconnected()"); (isDown, "store.DownTime() > opt.GetMaxStoreDownTime()"); (isOffline, "store.IsOffline()");
   (isTombstone, "store.IsTombstone()"); (pauseLeaderTransfer, "!store.AllowLeaderTransfer()");
   (tooManyPendingPeers, "opt.GetMaxPendingPeerCount() > 0 && store.GetPendingPeerCount() > int(opt.GetMaxPendingPeerCount())");
   (tooManySnapshots, "(uint64(store.GetSendingSnapCount()) > opt.GetMaxSnapshotCount() || uint64(store.GetReceivingSnapCount()) > opt.GetMaxSnapshotCount())")].
Proof. reflexivity. Qed.

(* ---------- the filter lists the moves are drawn through ---------- *)
(* balance-region: the region's own stores are excluded from the targets, and the state filter is there *)
Lemma balance_region_filters_ok : Gen_C11.balance_region_filters =
  ["filter.NewExcludedFilter(s.GetName(), nil, plan.region.GetStoreIds())"; "filter.NewPlacementSafeguard(s.GetName(), plan.cluster, plan.region, plan.source)";
   "filter.NewRegionScoreFilter(s.GetName(), plan.source, plan.cluster.GetOpts())"; "filter.NewSpecialUseFilter(s.GetName())";
   "&filter.StoreStateFilter{ActionScope: s.GetName(), MoveRegion: true}"].
Proof. reflexivity. Qed.

(* ---------- the scatterer ---------- *)
(* the excluded set is built from the stores selected so far AND the stores of the region's other peers (see src_selectCandidates_ok) *)

(* ---------- the remaining schedulers ---------- *)
Lemma move_leader_chain_ok : Gen_C11.chain_CreateMoveLeaderOperator = ["NewBuilder(desc, cluster, region)"; "RemovePeer(oldStore)"; "AddPeer(peer)"; "SetLeader(peer.GetStoreId())"; "Build(kind)"].
Proof. reflexivity. Qed.
Lemma skel_grant_ok : Gen_C11.skel_grant_Schedule = [RLock "s.conf.mu"; DeferRUnlock "s.conf.mu"; ForE [Call "RandFollowerRegion"; Call "CreateForceTransferLeaderOperator"]; Ret].
Proof. reflexivity. Qed.

(* the leader candidates: target stores without an engine label whose labels do not reject leaders; all ordinary target stores
   only if every one rejects leaders *)

(* ---------- "all filters must pass": the unmodelled filters act in conjunction ---------- *)
