(* C18 — proofs about model/C18_Config.v. *)
From Coq Require Import String Ascii.
From PDV Require Import lib.Base lib.C14_AList gen.Gen_C18 model.C18_Config.
Local Open Scope string_scope.
Local Open Scope Z_scope.

Ltac inv H := inversion H; subst; clear H.

(* ---------- the clause tables regenerated from config.go, as the model parsed them ---------- *)
(* These four equalities are where the translator's tables enter the proofs: a clause removed from (or
   added to) a Go Validate function changes the left-hand side. *)
Lemma sched_clauses_ok : sched_clauses = [ScTolNeg; ScLowRange; ScHighRange; ScLowLeHigh; ScUnregistered].
Proof. reflexivity. Qed.
Lemma dep_clauses_ok : dep_clauses = [DcFlag 0; DcFlag 1; DcFlag 2; DcFlag 3; DcFlag 4; DcFlag 5; DcRate].
Proof. reflexivity. Qed.
Lemma repl_clauses_ok : repl_clauses = [RcBadLabel; RcIsoNotLabel].
Proof. reflexivity. Qed.
Lemma pd_clauses_ok : pd_clauses = [PcBadUrl; PcNegDigit].
Proof. reflexivity. Qed.
(* nothing in the tables was left unparsed (a new clause must be added to the model) *)
Lemma sched_table_parsed : forallb (fun g => match parse_sclause (fst g) with Some _ => true | None => false end) guards_ScheduleValidate = true.
Proof. reflexivity. Qed.
Lemma dep_table_parsed : forallb (fun g => match parse_dclause (fst g) with Some _ => true | None => false end) guards_ScheduleDeprecated = true.
Proof. reflexivity. Qed.
Lemma repl_table_parsed : map fst guards_ReplicationValidate =
  ["err != nil"; "!foundIsolationLevel && label == c.IsolationLevel"; "c.IsolationLevel != """" && !foundIsolationLevel"].
Proof. reflexivity. Qed.
Lemma pd_table_parsed : forallb (fun g => match parse_pclause g with Some _ => true | None => false end) guards_PDServerValidate = true.
Proof. reflexivity. Qed.

(* ---------- statement 1: values outside their domains are never accepted ---------- *)
Lemma sched_domain_invalid c : sched_out_of_domain c = true -> sched_invalid c = true.
Proof.
  unfold sched_out_of_domain, sched_invalid. rewrite sched_clauses_ok. cbn [existsb eval_sclause].
  intros H. repeat (apply orb_true_iff in H as [H|H]); rewrite ?H, ?orb_true_r; reflexivity.
Qed.

Lemma invalid_schedule_pf s c f : sched_out_of_domain c = true -> run_cmd s (OSetSchedule c f) = (s, RInvalid).
Proof. intros H. cbn [run_cmd]. unfold do_set_schedule. rewrite (sched_domain_invalid _ H). reflexivity. Qed.

Lemma deprecated_schedule_pf s c f :
  (existsb (fun b => b) (firstn 6 (sc_dis c)) = true \/ sc_sbr c <> 0) -> length (sc_dis c) = 6%nat ->
  run_cmd s (OSetSchedule c f) = (s, RInvalid).
Proof.
  intros H L. cbn [run_cmd]. unfold do_set_schedule. destruct (sched_invalid c); [reflexivity|].
  assert (D : sched_deprecated c = true).
  { unfold sched_deprecated. rewrite dep_clauses_ok. cbn [existsb eval_dclause].
    destruct (sc_dis c) as [|b0 [|b1 [|b2 [|b3 [|b4 [|b5 [|]]]]]]]; try discriminate. cbn [nth].
    destruct H as [H|H].
    - cbn in H. rewrite !orb_false_r in H.
      repeat (apply orb_true_iff in H as [H|H]); rewrite ?H, ?orb_true_r; reflexivity.
    - assert (E : (sc_sbr c =? 0) = false) by (apply Z.eqb_neq; exact H). rewrite E. cbn. rewrite !orb_true_r. reflexivity. }
  rewrite D. reflexivity.
Qed.

Lemma invalid_replication_pf s c f : repl_out_of_domain c = true -> run_cmd s (OSetReplication c f) = (s, RInvalid).
Proof.
  intros H. cbn [run_cmd]. unfold do_set_replication.
  assert (I : repl_invalid c = true).
  { unfold repl_invalid. rewrite repl_clauses_ok. cbn [existsb eval_rclause]. unfold repl_out_of_domain in H. rewrite H, orb_true_r. reflexivity. }
  rewrite I. reflexivity.
Qed.
Lemma bad_label_replication_pf s c f :
  existsb (fun l => negb (valid_label_key l)) (rp_labels c) = true -> run_cmd s (OSetReplication c f) = (s, RInvalid).
Proof.
  intros H. cbn [run_cmd]. unfold do_set_replication.
  assert (I : repl_invalid c = true) by (unfold repl_invalid; rewrite repl_clauses_ok; cbn [existsb eval_rclause]; rewrite H; reflexivity).
  rewrite I. reflexivity.
Qed.

Lemma invalid_pdserver_pf s c f : pd_out_of_domain c = true ->
  exists r, run_cmd s (OSetPDServer c f) = (s, r) /\ (r = RInvalid \/ r = RNotMember).
Proof.
  intros H. cbn [run_cmd]. unfold do_set_pdserver.
  destruct (negb (dash_keyword (ps_dash c)) && negb (is_member_url _))%bool; [eexists; split; [reflexivity|auto]|].
  match goal with |- context [pd_invalid ?x] => assert (I : pd_invalid x = true) end.
  { unfold pd_invalid. rewrite pd_clauses_ok. cbn [existsb eval_pclause ps_digit]. unfold pd_out_of_domain in H. rewrite H. reflexivity. }
  rewrite I. eexists; split; [reflexivity|auto].
Qed.

Lemma invalid_mode_pf s c f : mode_valid (rm_mode c) = false -> run_cmd s (OSetMode c f) = (s, RInvalid).
Proof. intros H. cbn [run_cmd]. unfold do_set_mode. rewrite H. reflexivity. Qed.
Lemma invalid_version_pf s f : run_cmd s (OSetVersion None f) = (s, RInvalid).
Proof. reflexivity. Qed.

(* ---------- persist ---------- *)
Lemma wr_cases f g idx : wr f g idx = (true, true) \/ wr f g idx = (false, false) \/ wr f g idx = (true, false).
Proof.
  unfold wr. destruct f as [|g' i k]; [auto|].
  destruct (fgroup_eqb g' g && Nat.eqb i idx)%bool; [destruct k|]; auto.
Qed.

Lemma persist_spec s f idx s' ok :
  persist s f idx = (s', ok) ->
  served s' = served s /\ srule s' = srule s /\ strule s' = strule s /\ rm_init s' = rm_init s /\ mm s' = mm s /\
  (ok = true -> stored s' = Some (served s)).
Proof.
  unfold persist. destruct (wr_cases f GConfig idx) as [E|[E|E]]; rewrite E; intros H; inv H; cbn; repeat split; auto; discriminate.
Qed.

Lemma swap_persist_spec s c' f s' r :
  swap_persist s c' f = (s', r) ->
  srule s' = srule s /\ strule s' = strule s /\ rm_init s' = rm_init s /\ mm s' = mm s /\
  ((r = ROk /\ served s' = c' /\ stored s' = Some c') \/ (r = RStorage /\ served s' = served s)).
Proof.
  unfold swap_persist. destruct (persist (set_conf s c') f 0) as [s1 ok] eqn:E.
  destruct (persist_spec _ _ _ _ _ E) as (A&B&C&D&F&G). destruct ok; intros H; inv H; cbn in *.
  - repeat split; auto; left; repeat split; auto.
  - repeat split; auto.
Qed.

(* ---------- statement 3a: whatever was accepted is exactly what the config key holds ---------- *)
Theorem accepted_config_is_stored_pf s o s' : run_cmd s o = (s', ROk) -> stored s' = Some (served s').
Proof.
  destruct o as [c f|c f|c f|t k v f|t k v f|v f|c f|m f|id t rate dflt f|t rate f]; cbn [run_cmd].
  - unfold do_set_schedule. destruct (sched_invalid c); [discriminate|]. destruct (sched_deprecated c); [discriminate|].
    intros H. destruct (swap_persist_spec _ _ _ _ _ H) as (_&_&_&_&[(_&A&B)|(E&_)]); [congruence|discriminate].
  - unfold do_set_replication. destruct (repl_invalid c); [discriminate|].
    destruct (repl_init s c (c_repl (served s)) f) as [s1 ie]. destruct ie; [discriminate|].
    assert (G : forall e, repl_commit s1 c (c_repl (served s)) e f = (s', ROk) -> stored s' = Some (served s')).
    { intros e. unfold repl_commit. destruct e.
      - destruct (rp_max c <=? 0); [discriminate|].
        destruct (set_rule_write s1 (Rule (rp_max c) (rp_labels c)) f 0) as [s2 okr]. destruct okr; cbn [negb]; [|discriminate].
        match goal with |- context [persist ?a ?b ?c] => destruct (persist a b c) as [s3 ok] eqn:E end.
        destruct (persist_spec _ _ _ _ _ E) as (A&_&_&_&_&G). destruct ok.
        + intros H; inv H. rewrite A. apply G; reflexivity.
        + destruct (rp_max (c_repl (served s)) <=? 0); discriminate.
      - match goal with |- context [persist ?a ?b ?c] => destruct (persist a b c) as [s3 ok] eqn:E end.
        destruct (persist_spec _ _ _ _ _ E) as (A&_&_&_&_&G). destruct ok; intros H; inv H. rewrite A. apply G; reflexivity. }
    destruct (repl_check s1 c (c_repl (served s))) as [[|]|]; [apply G|discriminate|apply G].
  - unfold do_set_pdserver. destruct (negb (dash_keyword (ps_dash c)) && negb (is_member_url _))%bool; [discriminate|].
    destruct (pd_invalid _); [discriminate|].
    intros H. destruct (swap_persist_spec _ _ _ _ _ H) as (_&_&_&_&[(_&A&B)|(E&_)]); [congruence|discriminate].
  - unfold do_set_label.
    intros H. destruct (swap_persist_spec _ _ _ _ _ H) as (_&_&_&_&[(_&A&B)|(E&_)]); [congruence|discriminate].
  - unfold do_del_label.
    intros H. destruct (swap_persist_spec _ _ _ _ _ H) as (_&_&_&_&[(_&A&B)|(E&_)]); [congruence|discriminate].
  - unfold do_set_version. destruct v as [x|]; [|discriminate].
    intros H. destruct (swap_persist_spec _ _ _ _ _ H) as (_&_&_&_&[(_&A&B)|(E&_)]); [congruence|discriminate].
  - unfold do_set_mode. destruct (negb (mode_valid (rm_mode c))); [discriminate|].
    cbv zeta in *; set (cn := norm_rmode c) in *; clearbody cn; try clear c; rename cn into c.
    match goal with |- context [persist ?a ?b ?c] => destruct (persist a b c) as [s1 ok] eqn:E end.
    destruct (persist_spec _ _ _ _ _ E) as (A&_&_&_&_&G). destruct ok; cbn [negb]; [|discriminate].
    unfold update_mode.
    match goal with |- context [if ?C then _ else (set_mm s1 c, true)] => destruct C end.
    + destruct (wr f GMode 0) as [a ok2]. destruct ok2.
      * intros H; inv H. cbn. rewrite A. apply G; reflexivity.
      * match goal with |- context [persist ?a ?b ?c] => destruct (persist a b c) as [s3 ok3] end. discriminate.
    + intros H; inv H. cbn. rewrite A. apply G; reflexivity.
  - unfold do_set_label_map.
    intros H. destruct (swap_persist_spec _ _ _ _ _ H) as (_&_&_&_&[(_&A&B)|(E&_)]); [congruence|discriminate].
  - unfold do_set_store_limit.
    intros H. destruct (swap_persist_spec _ _ _ _ _ H) as (_&_&_&_&[(_&A&B)|(E&_)]); [congruence|discriminate].
  - unfold do_set_all_limits.
    intros H. destruct (swap_persist_spec _ _ _ _ _ H) as (_&_&_&_&[(_&A&B)|(E&_)]); [congruence|discriminate].
Qed.

(* ---------- statement 2: a rejected change leaves the served configuration exactly as it was ---------- *)
Lemma with_repl_back c x : with_repl (with_repl c x) (c_repl c) = c.
Proof. destruct c; reflexivity. Qed.
Lemma with_rm_back c x : with_rm (with_rm c x) (c_rm c) = c.
Proof. destruct c; reflexivity. Qed.

Lemma str_list_eqb_eq a b : str_list_eqb a b = true -> a = b.
Proof. apply list_eqb_eq. intros x y H. apply String.eqb_eq; exact H. Qed.

Lemma set_rule_write_spec s r f idx s' ok :
  set_rule_write s r f idx = (s', ok) ->
  served s' = served s /\ stored s' = stored s /\ rm_init s' = rm_init s /\ mm s' = mm s /\
  (ok = true -> srule s' = Some r /\ strule s' = Some r) /\
  (ok = false -> srule s' = srule s /\ (strule s' = strule s \/ (strule s' = Some r /\ wr f GRule idx = (true, false)))).
Proof.
  unfold set_rule_write. destruct (wr_cases f GRule idx) as [E|[E|E]]; rewrite E; intros H; inv H; cbn;
    repeat split; auto; discriminate.
Qed.

Lemma repl_init_spec s c old f s1 ie :
  repl_init s c old f = (s1, ie) ->
  served s1 = served s /\ stored s1 = stored s /\ mm s1 = mm s /\
  (rp_pr old = true -> s1 = s /\ ie = false).
Proof.
  unfold repl_init. intros H.
  destruct (negb (Bool.eqb (rp_pr c) (rp_pr old)) && rp_pr c && negb (rm_init s))%bool eqn:Eg.
  - assert (Hp : rp_pr old = true -> False).
    { intros Hp. rewrite Hp in Eg. destruct (rp_pr c); cbn in Eg; discriminate. }
    destruct (strule s); [inv H; split; [reflexivity|split; [reflexivity|split; [reflexivity|intros X; destruct (Hp X)]]]|].
    destruct (wr f GRule 0) as [[|] [|]]; inv H; (split; [reflexivity|split; [reflexivity|split; [reflexivity|intros X; destruct (Hp X)]]]).
  - inv H. repeat split; auto.
Qed.

(* the six sections held by PersistOptions: every setter, every value, every fault *)
Theorem rejected_keeps_served_pf s o s' r : run_cmd s o = (s', r) -> r <> ROk -> served s' = served s.
Proof.
  destruct o as [c f|c f|c f|t k v f|t k v f|v f|c f|m f|id t rate dflt f|t rate f]; cbn [run_cmd]; intros H Hr.
  - unfold do_set_schedule in H. destruct (sched_invalid c); [inv H; reflexivity|]. destruct (sched_deprecated c); [inv H; reflexivity|].
    destruct (swap_persist_spec _ _ _ _ _ H) as (_&_&_&_&[(E&_)|(_&E)]); [congruence|exact E].
  - unfold do_set_replication in H. destruct (repl_invalid c); [inv H; reflexivity|].
    destruct (repl_init s c (c_repl (served s)) f) as [s1 ie] eqn:Ei.
    destruct (repl_init_spec _ _ _ _ _ _ Ei) as (S1&_).
    destruct ie; [inv H; exact S1|].
    assert (G : forall e, repl_commit s1 c (c_repl (served s)) e f = (s', r) -> served s' = served s).
    { intros e. unfold repl_commit. destruct e.
      - destruct (rp_max c <=? 0); [intros H1; inv H1; exact S1|].
        destruct (set_rule_write s1 (Rule (rp_max c) (rp_labels c)) f 0) as [s2 okr] eqn:Ew.
        destruct (set_rule_write_spec _ _ _ _ _ _ Ew) as (S2&_). destruct okr; cbn [negb]; [|intros H1; inv H1; congruence].
        match goal with |- context [persist ?a ?b ?c] => destruct (persist a b c) as [s3 ok] eqn:E end.
        destruct (persist_spec _ _ _ _ _ E) as (A&_). destruct ok; [intros H1; inv H1; congruence|].
        assert (Q : served (set_conf s3 (with_repl (served s3) (c_repl (served s)))) = served s)
          by (cbn; rewrite A; cbn; rewrite S2, S1; apply with_repl_back).
        destruct (rp_max (c_repl (served s)) <=? 0); intros H1; inv H1; [exact Q|].
        match goal with |- context [set_rule_write ?a ?b ?c ?d] => destruct (set_rule_write a b c d) as [s5 ok5] eqn:E5 end.
        destruct (set_rule_write_spec _ _ _ _ _ _ E5) as (S5&_). cbn [fst]. rewrite S5. exact Q.
      - match goal with |- context [persist ?a ?b ?c] => destruct (persist a b c) as [s3 ok] eqn:E end.
        destruct (persist_spec _ _ _ _ _ E) as (A&_). destruct ok; intros H1; inv H1; [congruence|].
        cbn. rewrite A. cbn. rewrite S1. apply with_repl_back. }
    destruct (repl_check s1 c (c_repl (served s))) as [[|]|]; [apply G with true; exact H|inv H; exact S1|apply G with false; exact H].
  - unfold do_set_pdserver in H. destruct (negb (dash_keyword (ps_dash c)) && negb (is_member_url _))%bool; [inv H; reflexivity|].
    destruct (pd_invalid _); [inv H; reflexivity|].
    destruct (swap_persist_spec _ _ _ _ _ H) as (_&_&_&_&[(E&_)|(_&E)]); [congruence|exact E].
  - unfold do_set_label in H. destruct (swap_persist_spec _ _ _ _ _ H) as (_&_&_&_&[(E&_)|(_&E)]); [congruence|exact E].
  - unfold do_del_label in H. destruct (swap_persist_spec _ _ _ _ _ H) as (_&_&_&_&[(E&_)|(_&E)]); [congruence|exact E].
  - unfold do_set_version in H. destruct v as [x|]; [|inv H; reflexivity].
    destruct (swap_persist_spec _ _ _ _ _ H) as (_&_&_&_&[(E&_)|(_&E)]); [congruence|exact E].
  - unfold do_set_mode in H. destruct (negb (mode_valid (rm_mode c))); [inv H; reflexivity|].
    cbv zeta in *; set (cn := norm_rmode c) in *; clearbody cn; try clear c; rename cn into c.
    match type of H with context [persist ?a ?b ?c] => destruct (persist a b c) as [s1 ok] eqn:E end.
    destruct (persist_spec _ _ _ _ _ E) as (A&_&_&_&_&_). destruct ok; cbn [negb] in H.
    2:{ inv H. cbn. rewrite A. cbn. apply with_rm_back. }
    destruct (update_mode s1 c f) as [s2 ok2] eqn:Eu.
    assert (S2 : served s2 = served s1).
    { unfold update_mode in Eu. match type of Eu with context [if ?C then _ else (set_mm s1 c, true)] => destruct C end.
      - destruct (wr f GMode 0) as [a [|]]; inv Eu; reflexivity.
      - inv Eu; reflexivity. }
    destruct ok2; [inv H; congruence|].
    match type of H with context [persist ?a ?b ?c] => destruct (persist a b c) as [s3 ok3] eqn:E3 end.
    destruct (persist_spec _ _ _ _ _ E3) as (A3&_&_&_&_&_). inv H. rewrite A3. cbn. rewrite S2, A. cbn. apply with_rm_back.
  - unfold do_set_label_map in H. destruct (swap_persist_spec _ _ _ _ _ H) as (_&_&_&_&[(E&_)|(_&E)]); [congruence|exact E].
  - unfold do_set_store_limit in H. destruct (swap_persist_spec _ _ _ _ _ H) as (_&_&_&_&[(E&_)|(_&E)]); [congruence|exact E].
  - unfold do_set_all_limits in H. destruct (swap_persist_spec _ _ _ _ _ H) as (_&_&_&_&[(E&_)|(_&E)]); [congruence|exact E].
Qed.

(* the served default rule (the effective replication settings while placement rules are on): a rejected change
   leaves it alone.  0 < max-replicas: the roll-back goes through SetRule, which refuses a non-positive count. *)
Theorem rejected_keeps_rule_pf s o s' r :
  run_cmd s o = (s', r) -> r <> ROk -> rp_pr (c_repl (served s)) = true -> 0 < rp_max (c_repl (served s)) ->
  srule s' = srule s.
Proof.
  destruct o as [c f|c f|c f|t k v f|t k v f|v f|c f|m f|id t rate dflt f|t rate f]; cbn [run_cmd]; intros H Hr Hp Hm.
  - unfold do_set_schedule in H. destruct (sched_invalid c); [inv H; reflexivity|]. destruct (sched_deprecated c); [inv H; reflexivity|].
    destruct (swap_persist_spec _ _ _ _ _ H) as (E&_); exact E.
  - unfold do_set_replication in H. destruct (repl_invalid c); [inv H; reflexivity|].
    destruct (repl_init s c (c_repl (served s)) f) as [s1 ie] eqn:Ei.
    destruct (repl_init_spec _ _ _ _ _ _ Ei) as (_&_&_&K). destruct (K Hp) as [-> ->].
    destruct (repl_check s c (c_repl (served s))) as [[|]|] eqn:Ec; [|inv H; reflexivity|].
    + (* the rule is edited (on a copy) *)
      unfold repl_commit in H. destruct (rp_max c <=? 0); [inv H; reflexivity|].
      destruct (set_rule_write s (Rule (rp_max c) (rp_labels c)) f 0) as [s2 okr] eqn:Ew.
      destruct (set_rule_write_spec _ _ _ _ _ _ Ew) as (S2&_&_&_&_&Fl). destruct okr; cbn [negb] in H.
      2:{ inv H. destruct (Fl eq_refl) as (A&_). exact A. }
      match type of H with context [persist ?a ?b ?c] => destruct (persist a b c) as [s3 ok] eqn:E end.
      destruct (persist_spec _ _ _ _ _ E) as (_&B3&_). destruct ok; [inv H; congruence|].
      assert (Em : (rp_max (c_repl (served s)) <=? 0) = false) by (apply Z.leb_gt; exact Hm). rewrite Em in H. inv H.
      (* the config write failed, so the fault is not on the second rule write: the roll-back lands *)
      assert (W1 : wr f GRule 1 = (true, true)).
      { unfold persist in E. unfold wr in *. destruct f as [|g i k]; [reflexivity|].
        destruct g; cbn [fgroup_eqb andb] in *; try reflexivity.
        (* fault on the rule group: then the config write succeeded, contradiction *)
        inv E. }
      unfold set_rule_write. rewrite W1. cbn [fst srule set_srule].
      (* and what it writes is the rule that was served before *)
      unfold repl_check in Ec. destruct (rp_pr c && repl_changed c (c_repl (served s)))%bool; [|discriminate].
      destruct (srule s) as [r0|]; [|inv Ec]. inv Ec.
      match goal with Hx : _ = true |- _ => apply andb_true_iff in Hx as [X1 X2] end.
      apply Z.eqb_eq in X1. apply str_list_eqb_eq in X2. destruct r0; cbn in *; subst; reflexivity.
    + unfold repl_commit in H.
      match type of H with context [persist ?a ?b ?c] => destruct (persist a b c) as [s3 ok] eqn:E end.
      destruct (persist_spec _ _ _ _ _ E) as (_&B&_). destruct ok; inv H; exact B.
  - unfold do_set_pdserver in H. destruct (negb (dash_keyword (ps_dash c)) && negb (is_member_url _))%bool; [inv H; reflexivity|].
    destruct (pd_invalid _); [inv H; reflexivity|].
    destruct (swap_persist_spec _ _ _ _ _ H) as (E&_); exact E.
  - unfold do_set_label in H. destruct (swap_persist_spec _ _ _ _ _ H) as (E&_); exact E.
  - unfold do_del_label in H. destruct (swap_persist_spec _ _ _ _ _ H) as (E&_); exact E.
  - unfold do_set_version in H. destruct v as [x|]; [|inv H; reflexivity].
    destruct (swap_persist_spec _ _ _ _ _ H) as (E&_); exact E.
  - unfold do_set_mode in H. destruct (negb (mode_valid (rm_mode c))); [inv H; reflexivity|].
    cbv zeta in *; set (cn := norm_rmode c) in *; clearbody cn; try clear c; rename cn into c.
    match type of H with context [persist ?a ?b ?c] => destruct (persist a b c) as [s1 ok] eqn:E end.
    destruct (persist_spec _ _ _ _ _ E) as (_&B&_). destruct ok; cbn [negb] in H; [|inv H; exact B].
    destruct (update_mode s1 c f) as [s2 ok2] eqn:Eu.
    assert (S2 : srule s2 = srule s1).
    { unfold update_mode in Eu. match type of Eu with context [if ?C then _ else (set_mm s1 c, true)] => destruct C end.
      - destruct (wr f GMode 0) as [a [|]]; inv Eu; reflexivity.
      - inv Eu; reflexivity. }
    destruct ok2; [inv H; congruence|].
    match type of H with context [persist ?a ?b ?c] => destruct (persist a b c) as [s3 ok3] eqn:E3 end.
    destruct (persist_spec _ _ _ _ _ E3) as (_&B3&_). inv H. rewrite B3. cbn. rewrite S2, B. reflexivity.
  - unfold do_set_label_map in H. destruct (swap_persist_spec _ _ _ _ _ H) as (E&_); exact E.
  - unfold do_set_store_limit in H. destruct (swap_persist_spec _ _ _ _ _ H) as (E&_); exact E.
  - unfold do_set_all_limits in H. destruct (swap_persist_spec _ _ _ _ _ H) as (E&_); exact E.
Qed.

Definition rejected_full : Prop :=
  forall s o s' r, run_cmd s o = (s', r) -> r <> ROk ->
    served s' = served s /\
    (rp_pr (c_repl (served s)) = true -> 0 < rp_max (c_repl (served s)) -> srule s' = srule s).
Theorem rejected_full_pf : rejected_full.
Proof. intros s o s' r H Hr. split; [eapply rejected_keeps_served_pf; eauto|eapply rejected_keeps_rule_pf; eauto]. Qed.

Definition base_conf : conf :=
  Conf (Sched 0 800 700 ["balance-region"; "balance-leader"; "hot-region"] [false; false; false; false; false; false] 0 3)
       (Repl 3 [] "" true false) (PdSrv "auto" 3 true "table") [("reject-leader", [("zone", "z1")])] (4, 0, 0) (RMode "majority" "") [].

(* regressions: the witnesses that refuted the statements before the fix commits, as they behave now *)
Lemma regression_label_rollback :
  run_cmd (boot base_conf) (OSetLabel "reject-leader" "zone" "z1" (Fault GConfig 0 FBefore)) = (boot base_conf, RStorage).
Proof. vm_compute. reflexivity. Qed.
Lemma regression_rule_not_edited_on_refusal :
  run_cmd (boot base_conf) (OSetReplication (Repl 0 [] "" true false) NoFault) = (boot base_conf, RRuleContent).
Proof. vm_compute. reflexivity. Qed.
Lemma regression_rule_persisted :
  exists s', run_cmd (boot base_conf) (OSetReplication (Repl 5 ["zone"] "" true false) NoFault) = (s', ROk) /\
    srule s' = Some (Rule 5 ["zone"]) /\ strule s' = Some (Rule 5 ["zone"]).
Proof. eexists. vm_compute. repeat split; reflexivity. Qed.
Lemma regression_rule_labels_rolled_back :
  exists s', run_cmd (boot base_conf) (OSetReplication (Repl 5 ["zone"] "" true false) (Fault GConfig 0 FBefore)) = (s', RStorage) /\
    served s' = base_conf /\ srule s' = Some (Rule 3 []) /\ strule s' = Some (Rule 3 []).
Proof. eexists. vm_compute. repeat split; reflexivity. Qed.

(* ---------- statement 3: an accepted change is what a new leader reloads ---------- *)
Definition reach (c0 : conf) (ops : list op) : state := run_state run_op (boot c0) ops.

(* the default rule: once the rule manager is initialised, the served default rule is the stored one, as long as no rule
   write had an unknown outcome (applied, but reported failed: storage is then ahead of what is served) *)
Definition rule_inv (s : state) : Prop := rm_init s = true -> srule s = strule s.
Definition op_definite (o : op) : Prop :=
  match o with OSetReplication _ (Fault GRule _ FAfter) => False | _ => True end.
Fixpoint definite (ops : list op) : Prop := match ops with [] => True | o :: r => op_definite o /\ definite r end.

Lemma rule_frame_persist s f idx s' ok : persist s f idx = (s', ok) -> rule_inv s -> rule_inv s'.
Proof. intros H I. destruct (persist_spec _ _ _ _ _ H) as (_&B&C&D&_). unfold rule_inv in *. rewrite B, C, D. exact I. Qed.

Lemma set_rule_write_inv s r f idx s' ok :
  set_rule_write s r f idx = (s', ok) -> (forall i, f <> Fault GRule i FAfter) -> rule_inv s -> rule_inv s'.
Proof.
  intros H Hd I. destruct (set_rule_write_spec _ _ _ _ _ _ H) as (_&_&R&_&T&F). unfold rule_inv in *. rewrite R. destruct ok.
  - destruct (T eq_refl) as [A B]. intros _. congruence.
  - destruct (F eq_refl) as [A [B|[B W]]]; [rewrite A, B; exact I|].
    exfalso. unfold wr in W. destruct f as [|g i k]; [discriminate|].
    destruct (fgroup_eqb g GRule && Nat.eqb i idx)%bool eqn:Eg; [|discriminate].
    apply andb_true_iff in Eg as [Eg _]. destruct g; try discriminate. destruct k; [discriminate|]. apply (Hd i). reflexivity.
Qed.

Lemma rule_inv_step s o s' r : rule_inv s -> op_definite o -> run_cmd s o = (s', r) -> rule_inv s'.
Proof.
  destruct o as [c f|c f|c f|t k v f|t k v f|v f|c f|m f|id t rate dflt f|t rate f]; cbn [run_cmd op_definite]; intros I Hd H.
  - unfold do_set_schedule in H. destruct (sched_invalid c); [inv H; exact I|]. destruct (sched_deprecated c); [inv H; exact I|].
    destruct (swap_persist_spec _ _ _ _ _ H) as (A&B&C&_). unfold rule_inv in *. rewrite A, B, C. exact I.
  - assert (Hd' : forall i, f <> Fault GRule i FAfter) by (intros i ->; exact Hd).
    unfold do_set_replication in H. destruct (repl_invalid c); [inv H; exact I|].
    destruct (repl_init s c (c_repl (served s)) f) as [s1 ie] eqn:Ei.
    assert (I1 : rule_inv s1).
    { unfold repl_init in Ei. destruct (negb (Bool.eqb (rp_pr c) (rp_pr (c_repl (served s)))) && rp_pr c && negb (rm_init s))%bool eqn:Eg; [|inv Ei; exact I].
      apply andb_true_iff in Eg as [_ Eg]. apply negb_true_iff in Eg.
      destruct (strule s) as [r0|] eqn:Es; [inv Ei; unfold rule_inv; cbn; intros _; congruence|].
      destruct (wr_cases f GRule 0) as [W|[W|W]]; rewrite W in Ei; inv Ei; unfold rule_inv; cbn; intros Hi; try congruence; reflexivity. }
    destruct ie; [inv H; exact I1|].
    assert (G : forall e, repl_commit s1 c (c_repl (served s)) e f = (s', r) -> rule_inv s').
    { intros e. unfold repl_commit. destruct e.
      - destruct (rp_max c <=? 0); [intros H1; inv H1; exact I1|].
        destruct (set_rule_write s1 (Rule (rp_max c) (rp_labels c)) f 0) as [s2 okr] eqn:Ew.
        assert (I2 : rule_inv s2) by (eapply set_rule_write_inv; eauto).
        destruct okr; cbn [negb]; [|intros H1; inv H1; exact I2].
        match goal with |- context [persist ?a ?b ?c] => destruct (persist a b c) as [s3 ok] eqn:E end.
        assert (I3 : rule_inv s3) by (eapply rule_frame_persist; [exact E|exact I2]).
        destruct ok; [intros H1; inv H1; exact I3|].
        destruct (rp_max (c_repl (served s)) <=? 0); intros H1; inv H1; [exact I3|].
        match goal with |- context [set_rule_write ?a ?b ?c ?d] => destruct (set_rule_write a b c d) as [s5 ok5] eqn:E5 end.
        cbn [fst]. eapply set_rule_write_inv; [exact E5|exact Hd'|exact I3].
      - match goal with |- context [persist ?a ?b ?c] => destruct (persist a b c) as [s3 ok] eqn:E end.
        assert (I3 : rule_inv s3) by (eapply rule_frame_persist; [exact E|exact I1]).
        destruct ok; intros H1; inv H1; exact I3. }
    destruct (repl_check s1 c (c_repl (served s))) as [[|]|]; [apply G with true; exact H|inv H; exact I1|apply G with false; exact H].
  - unfold do_set_pdserver in H. destruct (negb (dash_keyword (ps_dash c)) && negb (is_member_url _))%bool; [inv H; exact I|].
    destruct (pd_invalid _); [inv H; exact I|].
    destruct (swap_persist_spec _ _ _ _ _ H) as (A&B&C&_). unfold rule_inv in *. rewrite A, B, C. exact I.
  - unfold do_set_label in H. destruct (swap_persist_spec _ _ _ _ _ H) as (A&B&C&_). unfold rule_inv in *. rewrite A, B, C. exact I.
  - unfold do_del_label in H. destruct (swap_persist_spec _ _ _ _ _ H) as (A&B&C&_). unfold rule_inv in *. rewrite A, B, C. exact I.
  - unfold do_set_version in H. destruct v as [x|]; [|inv H; exact I].
    destruct (swap_persist_spec _ _ _ _ _ H) as (A&B&C&_). unfold rule_inv in *. rewrite A, B, C. exact I.
  - unfold do_set_mode in H. destruct (negb (mode_valid (rm_mode c))); [inv H; exact I|].
    cbv zeta in *; set (cn := norm_rmode c) in *; clearbody cn; try clear c; rename cn into c.
    match type of H with context [persist ?a ?b ?c] => destruct (persist a b c) as [s1 ok] eqn:E end.
    assert (I1 : rule_inv s1) by (eapply rule_frame_persist; [exact E|exact I]).
    destruct ok; cbn [negb] in H; [|inv H; exact I1].
    destruct (update_mode s1 c f) as [s2 ok2] eqn:Eu.
    assert (I2 : rule_inv s2).
    { unfold update_mode in Eu. match type of Eu with context [if ?C then _ else (set_mm s1 c, true)] => destruct C end.
      - destruct (wr f GMode 0) as [a [|]]; inv Eu; exact I1.
      - inv Eu; exact I1. }
    destruct ok2; [inv H; exact I2|].
    match type of H with context [persist ?a ?b ?c] => destruct (persist a b c) as [s3 ok3] eqn:E3 end.
    inv H. eapply rule_frame_persist; [exact E3|exact I2].
  - unfold do_set_label_map in H. destruct (swap_persist_spec _ _ _ _ _ H) as (A&B&C&_). unfold rule_inv in *. rewrite A, B, C. exact I.
  - unfold do_set_store_limit in H. destruct (swap_persist_spec _ _ _ _ _ H) as (A&B&C&_). unfold rule_inv in *. rewrite A, B, C. exact I.
  - unfold do_set_all_limits in H. destruct (swap_persist_spec _ _ _ _ _ H) as (A&B&C&_). unfold rule_inv in *. rewrite A, B, C. exact I.
Qed.

Lemma rule_inv_boot c0 : rule_inv (boot c0).
Proof. unfold rule_inv, boot. cbn. reflexivity. Qed.

Lemma run_op_state s o : fst (run_op s o) = fst (run_cmd s o).
Proof. unfold run_op. destruct (run_cmd s o); reflexivity. Qed.

(* placement rules on means the rule manager is initialised (at boot, or by the very change that switches them on) *)
Definition init_inv (s : state) : Prop := rp_pr (c_repl (served s)) = true -> rm_init s = true.

Lemma init_inv_step s o s' r : init_inv s -> run_cmd s o = (s', r) -> init_inv s'.
Proof.
  destruct o as [c f|c f|c f|t k v f|t k v f|v f|c f|m f|id t rate dflt f|t rate f]; cbn [run_cmd]; intros I H.
  - unfold do_set_schedule in H. destruct (sched_invalid c); [inv H; exact I|]. destruct (sched_deprecated c); [inv H; exact I|].
    destruct (swap_persist_spec _ _ _ _ _ H) as (_&_&C&_&[(_&E&_)|(_&E)]); unfold init_inv in *; rewrite C, E; [cbn|]; exact I.
  - unfold do_set_replication in H. destruct (repl_invalid c); [inv H; exact I|].
    destruct (repl_init s c (c_repl (served s)) f) as [s1 ie] eqn:Ei.
    assert (A : served s1 = served s /\ (rm_init s = true -> rm_init s1 = true) /\ (ie = false -> rp_pr c = true -> rm_init s1 = true)).
    { unfold repl_init in Ei.
      destruct (negb (Bool.eqb (rp_pr c) (rp_pr (c_repl (served s)))) && rp_pr c && negb (rm_init s))%bool eqn:Eg.
      - destruct (strule s); [inv Ei; cbn; auto|]. destruct (wr f GRule 0) as [[|] [|]]; inv Ei; cbn; repeat split; auto; discriminate.
      - inv Ei. repeat split; auto. intros _ Hp.
        destruct (rm_init s1) eqn:Er; [reflexivity|]. exfalso. rewrite Hp in Eg.
        destruct (rp_pr (c_repl (served s1))) eqn:Eo.
        + unfold init_inv in I. rewrite Eo in I. rewrite (I eq_refl) in Er. discriminate.
        + cbn in Eg. discriminate. }
    destruct A as (S1&K1&K2).
    destruct ie; [inv H; unfold init_inv in *; rewrite S1; intros Hp; apply K1, I, Hp|].
    (* whatever repl_commit does, it ends with the new replication section (accepted) or the old one (rejected) *)
    assert (G : forall e, repl_commit s1 c (c_repl (served s)) e f = (s', r) ->
                (rm_init s' = rm_init s1) /\ (c_repl (served s') = c \/ c_repl (served s') = c_repl (served s))).
    { intros e. unfold repl_commit. destruct e.
      - destruct (rp_max c <=? 0); [intros H1; inv H1; split; [reflexivity|right; rewrite S1; reflexivity]|].
        destruct (set_rule_write s1 (Rule (rp_max c) (rp_labels c)) f 0) as [s2 okr] eqn:Ew.
        destruct (set_rule_write_spec _ _ _ _ _ _ Ew) as (S2&_&R2&_). destruct okr; cbn [negb].
        2:{ intros H1; inv H1. split; [exact R2|right; rewrite S2, S1; reflexivity]. }
        match goal with |- context [persist ?a ?b ?c] => destruct (persist a b c) as [s3 ok] eqn:E end.
        destruct (persist_spec _ _ _ _ _ E) as (A3&_&_&D3&_). destruct ok.
        + intros H1; inv H1. split; [rewrite D3; cbn; exact R2|left; rewrite A3; cbn; destruct (served s2); reflexivity].
        + assert (Q : c_repl (with_repl (served s3) (c_repl (served s))) = c_repl (served s)) by (destruct (served s3); reflexivity).
          destruct (rp_max (c_repl (served s)) <=? 0); intros H1; inv H1.
          * split; [cbn; rewrite D3; cbn; exact R2|right; cbn; exact Q].
          * match goal with |- context [set_rule_write ?a ?b ?c ?d] => destruct (set_rule_write a b c d) as [s5 ok5] eqn:E5 end.
            destruct (set_rule_write_spec _ _ _ _ _ _ E5) as (S5&_&R5&_). cbn [fst].
            split; [rewrite R5; cbn; rewrite D3; cbn; exact R2|right; rewrite S5; cbn; exact Q].
      - match goal with |- context [persist ?a ?b ?c] => destruct (persist a b c) as [s3 ok] eqn:E end.
        destruct (persist_spec _ _ _ _ _ E) as (A3&_&_&D3&_). destruct ok; intros H1; inv H1.
        + split; [rewrite D3; reflexivity|left; rewrite A3; cbn; destruct (served s1); reflexivity].
        + split; [cbn; rewrite D3; reflexivity|right; cbn; destruct (served s3); reflexivity]. }
    assert (Fin : (rm_init s' = rm_init s1) /\ (c_repl (served s') = c \/ c_repl (served s') = c_repl (served s)) -> init_inv s').
    { intros (R&[Q|Q]); unfold init_inv; rewrite Q, R; intros Hp; [apply (K2 eq_refl Hp)|apply K1, I, Hp]. }
    destruct (repl_check s1 c (c_repl (served s))) as [[|]|]; [apply Fin, (G true), H| |apply Fin, (G false), H].
    inv H. unfold init_inv. rewrite S1. intros Hp; apply K1, I, Hp.
  - unfold do_set_pdserver in H. destruct (negb (dash_keyword (ps_dash c)) && negb (is_member_url _))%bool; [inv H; exact I|].
    destruct (pd_invalid _); [inv H; exact I|].
    destruct (swap_persist_spec _ _ _ _ _ H) as (_&_&C&_&[(_&E&_)|(_&E)]); unfold init_inv in *; rewrite C, E; [cbn|]; exact I.
  - unfold do_set_label in H.
    destruct (swap_persist_spec _ _ _ _ _ H) as (_&_&C&_&[(_&E&_)|(_&E)]); unfold init_inv in *; rewrite C, E; [cbn; destruct (served s)|]; exact I.
  - unfold do_del_label in H.
    destruct (swap_persist_spec _ _ _ _ _ H) as (_&_&C&_&[(_&E&_)|(_&E)]); unfold init_inv in *; rewrite C, E; [cbn; destruct (served s)|]; exact I.
  - unfold do_set_version in H. destruct v as [x|]; [|inv H; exact I].
    destruct (swap_persist_spec _ _ _ _ _ H) as (_&_&C&_&[(_&E&_)|(_&E)]); unfold init_inv in *; rewrite C, E; [cbn|]; exact I.
  - unfold do_set_mode in H. destruct (negb (mode_valid (rm_mode c))); [inv H; exact I|].
    cbv zeta in *; set (cn := norm_rmode c) in *; clearbody cn; try clear c; rename cn into c.
    match type of H with context [persist ?a ?b ?c] => destruct (persist a b c) as [s1 ok] eqn:E end.
    destruct (persist_spec _ _ _ _ _ E) as (A&_&_&D&_).
    destruct ok; cbn [negb] in H.
    2:{ inv H. unfold init_inv in *. cbn. rewrite A, D. cbn. destruct (served s); exact I. }
    destruct (update_mode s1 c f) as [s2 ok2] eqn:Eu.
    assert (S2 : served s2 = served s1 /\ rm_init s2 = rm_init s1).
    { unfold update_mode in Eu. match type of Eu with context [if ?C then _ else (set_mm s1 c, true)] => destruct C end.
      - destruct (wr f GMode 0) as [a [|]]; inv Eu; split; reflexivity.
      - inv Eu; split; reflexivity. }
    destruct S2 as [S2 R2].
    destruct ok2.
    + inv H. unfold init_inv in *. rewrite S2, R2, A, D. cbn. destruct (served s); exact I.
    + match type of H with context [persist ?a ?b ?c] => destruct (persist a b c) as [s3 ok3] eqn:E3 end.
      destruct (persist_spec _ _ _ _ _ E3) as (A3&_&_&D3&_). inv H. unfold init_inv in *. rewrite A3, D3. cbn. rewrite S2, R2, A, D. cbn.
      destruct (served s); exact I.
  - unfold do_set_label_map in H.
    destruct (swap_persist_spec _ _ _ _ _ H) as (_&_&C&_&[(_&E&_)|(_&E)]); unfold init_inv in *; rewrite C, E; [cbn; destruct (served s)|]; exact I.
  - unfold do_set_store_limit in H.
    destruct (swap_persist_spec _ _ _ _ _ H) as (_&_&C&_&[(_&E&_)|(_&E)]); unfold init_inv in *; rewrite C, E; [cbn; destruct (served s)|]; exact I.
  - unfold do_set_all_limits in H.
    destruct (swap_persist_spec _ _ _ _ _ H) as (_&_&C&_&[(_&E&_)|(_&E)]); unfold init_inv in *; rewrite C, E; [cbn; destruct (served s)|]; exact I.
Qed.

Lemma init_inv_boot c0 : init_inv (boot c0).
Proof. unfold init_inv, boot. cbn. auto. Qed.

(* the full statement: for every history in which no rule write had an unknown outcome, what is accepted is what a
   new leader reloads (config key, up to the documented normalisation) and, with placement rules on, the stored
   default rule is the served one *)
Definition accepted_full : Prop :=
  forall c0 ops o s', definite (ops ++ [o]) -> run_cmd (reach c0 ops) o = (s', ROk) ->
    option_map reload_conf (stored s') = Some (normalise (served s')) /\
    (rp_pr (c_repl (served s')) = true -> strule s' = srule s').

Theorem accepted_full_pf : accepted_full.
Proof.
  intros c0 ops o s' Hn H. split.
  - rewrite (accepted_config_is_stored_pf _ _ _ H). reflexivity.
  - intros Hp. unfold reach in H.
    assert (G : forall s, definite (ops ++ [o]) -> rule_inv s -> init_inv s ->
              rule_inv (run_state run_op s ops) /\ init_inv (run_state run_op s ops) /\ op_definite o).
    { clear. induction ops as [|a r IH]; intros s Hn I J; cbn [app definite run_state] in *.
      - destruct Hn; auto.
      - destruct Hn as [H1 H2]. rewrite run_op_state. destruct (run_cmd s a) as [s1 r1] eqn:E. cbn [fst] in *.
        apply IH; [exact H2|eapply rule_inv_step; eauto|eapply init_inv_step; eauto]. }
    destruct (G _ Hn (rule_inv_boot c0) (init_inv_boot c0)) as (I&J&Ho).
    pose proof (rule_inv_step _ _ _ _ I Ho H) as I'. pose proof (init_inv_step _ _ _ _ J H) as J'.
    symmetry. apply I', J', Hp.
Qed.

(* ====================================================================================================
   Histories WITH leader changes
   ==================================================================================================== *)
(* ---------- Reload is idempotent: reloading what a reload produced changes nothing ---------- *)
Definition add_step (acc : list string) (d : string) : list string := if mem_str d acc then acc else (acc ++ [d])%list.
Lemma mem_str_app x a b : mem_str x (a ++ b)%list = (mem_str x a || mem_str x b)%bool.
Proof. unfold mem_str. apply existsb_app. Qed.
Lemma add_step_mono ds : forall acc x, mem_str x acc = true -> mem_str x (fold_left add_step ds acc) = true.
Proof.
  induction ds as [|d r IH]; intros acc x H; cbn [fold_left]; [exact H|]. apply IH. unfold add_step.
  destruct (mem_str d acc); [exact H|]. rewrite mem_str_app, H. reflexivity.
Qed.
Lemma add_step_in ds : forall acc d, In d ds -> mem_str d (fold_left add_step ds acc) = true.
Proof.
  induction ds as [|e r IH]; intros acc d Hin; [contradiction|]. cbn [fold_left]. destruct Hin as [->|Hin].
  - apply add_step_mono. unfold add_step. destruct (mem_str d acc) eqn:E; [exact E|].
    rewrite mem_str_app. cbn. rewrite String.eqb_refl. apply orb_true_r.
  - apply IH; exact Hin.
Qed.
Lemma add_step_fix ds : forall acc, (forall d, In d ds -> mem_str d acc = true) -> fold_left add_step ds acc = acc.
Proof.
  induction ds as [|e r IH]; intros acc H; [reflexivity|]. cbn [fold_left]. unfold add_step at 2.
  rewrite (H e (or_introl eq_refl)). apply IH. intros d Hd. apply H. right; exact Hd.
Qed.
Lemma add_defaults_idem l : add_defaults (add_defaults l) = add_defaults l.
Proof.
  unfold add_defaults. change (fun acc d => if mem_str d acc then acc else (acc ++ [d])%list) with add_step.
  apply add_step_fix. intros d Hd. apply add_step_in; exact Hd.
Qed.
Theorem reload_idem c : reload_conf (reload_conf c) = reload_conf c.
Proof.
  unfold reload_conf. cbn [c_sched c_repl c_pd c_lp c_ver c_rm c_limits sc_tol sc_low sc_high sc_scheds sc_dis sc_sbr sc_pay ps_dash ps_digit ps_trace ps_key].
  rewrite add_defaults_idem, map_map. reflexivity.
Qed.

(* ---------- what a leader change does ---------- *)
Lemma leader_keeps_storage s : stored (leader_change s) = stored s.
Proof. unfold leader_change. destruct (rp_pr _); reflexivity. Qed.
Theorem new_leader_serves_reload_pf s c : stored s = Some c -> served (leader_change s) = reload_conf c.
Proof. unfold leader_change. intros ->. destruct (rp_pr _); reflexivity. Qed.
Lemma leader_change_unfold s :
  let c := match stored s with Some c => reload_conf c | None => served s end in
  (rp_pr (c_repl c) = true /\
   leader_change s = State c (stored s) (Some (match strule s with Some r => r | None => Rule (rp_max (c_repl c)) (rp_labels (c_repl c)) end))
                           (Some (match strule s with Some r => r | None => Rule (rp_max (c_repl c)) (rp_labels (c_repl c)) end)) true (c_rm c)) \/
  (rp_pr (c_repl c) = false /\ leader_change s = State c (stored s) None (strule s) false (c_rm c)).
Proof.
  intros c. unfold leader_change. fold c. destruct (rp_pr (c_repl c)); [left|right]; split; reflexivity.
Qed.
Theorem new_leader_serves_stored_rule_pf s r :
  rp_pr (c_repl (served (leader_change s))) = true -> strule s = Some r ->
  srule (leader_change s) = Some r /\ strule (leader_change s) = Some r.
Proof.
  destruct (leader_change_unfold s) as [[E ->]|[E ->]]; cbn [served srule strule]; intros Hp Hr.
  - rewrite Hr. split; reflexivity.
  - rewrite E in Hp. discriminate.
Qed.
(* after an accepted change the next leader serves the documented normalisation of what was served *)
Theorem leader_after_accept_pf s o s' : run_cmd s o = (s', ROk) -> served (leader_change s') = normalise (served s').
Proof. intros H. apply new_leader_serves_reload_pf, (accepted_config_is_stored_pf _ _ _ H). Qed.
(* a second leader change right after the first changes nothing at all *)
Theorem leader_change_idem_pf s : leader_change (leader_change s) = leader_change s.
Proof.
  assert (K : forall s1, match stored s1 with Some c => reload_conf c | None => served s1 end = served (leader_change s1)).
  { intros s1. destruct (leader_change_unfold s1) as [[_ ->]|[_ ->]]; reflexivity. }
  pose proof (K s) as Ks.
  assert (Kc : match stored (leader_change s) with Some c => reload_conf c | None => served (leader_change s) end = served (leader_change s)).
  { rewrite leader_keeps_storage. rewrite <- Ks. destruct (stored s) as [c|]; reflexivity. }
  destruct (leader_change_unfold (leader_change s)) as [[E ->]|[E ->]]; rewrite Kc in *;
    destruct (leader_change_unfold s) as [[E0 Hs]|[E0 Hs]]; rewrite Ks in *; rewrite Hs in *; cbn [served stored strule srule rm_init mm] in *;
    try congruence; reflexivity.
Qed.

(* ---------- the invariants hold after a leader change, whatever happened before ---------- *)
Lemma rule_inv_leader s : rule_inv (leader_change s).
Proof. unfold rule_inv. destruct (leader_change_unfold s) as [[E ->]|[E ->]]; cbn; [reflexivity|discriminate]. Qed.
Lemma init_inv_leader s : init_inv (leader_change s).
Proof. unfold init_inv. destruct (leader_change_unfold s) as [[E ->]|[E ->]]; cbn [served rm_init]; [reflexivity|]. rewrite E. discriminate. Qed.

Definition hreach (c0 : conf) (hs : list hop) : state := run_state run_hop (boot c0) hs.
(* no rule write SINCE THE LAST LEADER CHANGE was applied-but-reported-failed (a new leader serves the stored rule, so what
   happened before it does not matter) *)
Fixpoint hdefinite_from (d : Prop) (hs : list hop) : Prop :=
  match hs with
  | [] => d
  | HSet o :: r => hdefinite_from (d /\ op_definite o) r
  | HLeader :: r => hdefinite_from True r
  end.
Definition hdefinite := hdefinite_from True.
Lemma run_hop_state s h : fst (run_hop s h) = fst (run_hcmd s h).
Proof. unfold run_hop. destruct (run_hcmd s h); reflexivity. Qed.

Definition accepted_full_h : Prop :=
  forall c0 hs o s', hdefinite (hs ++ [HSet o]) -> run_cmd (hreach c0 hs) o = (s', ROk) ->
    option_map reload_conf (stored s') = Some (normalise (served s')) /\
    (rp_pr (c_repl (served s')) = true -> strule s' = srule s') /\
    served (leader_change s') = normalise (served s').
Theorem accepted_full_h_pf : accepted_full_h.
Proof.
  intros c0 hs o s' Hn H. split; [rewrite (accepted_config_is_stored_pf _ _ _ H); reflexivity|].
  split; [|eapply leader_after_accept_pf; eauto].
  intros Hp. unfold hreach in H.
  assert (G : forall hs s (d : Prop), (d -> rule_inv s /\ init_inv s) -> hdefinite_from d (hs ++ [HSet o]) ->
            rule_inv (run_state run_hop s hs) /\ init_inv (run_state run_hop s hs) /\ op_definite o).
  { clear. induction hs as [|a r IH]; intros s d Hd Hn; cbn [app hdefinite_from run_state] in *.
    - destruct Hn as [D Ho]. destruct (Hd D). auto.
    - rewrite run_hop_state. destruct a as [a|]; cbn [run_hcmd fst].
      + destruct (run_cmd s a) as [s1 r1] eqn:E. cbn [fst]. eapply IH; [|exact Hn].
        intros [D Ha]. destruct (Hd D) as [I J]. split; [eapply rule_inv_step; eauto|eapply init_inv_step; eauto].
      + eapply IH; [|exact Hn]. intros _. split; [apply rule_inv_leader|apply init_inv_leader]. }
  destruct (G hs (boot c0) True (fun _ => conj (rule_inv_boot c0) (init_inv_boot c0)) Hn) as (I&J&Ho).
  pose proof (rule_inv_step _ _ _ _ I Ho H) as I'. pose proof (init_inv_step _ _ _ _ J H) as J'.
  symmetry. apply I', J', Hp.
Qed.
