(* C18 — proofs about model/C18_Config.v. *)
From Coq Require Import String Ascii.
From PDV Require Import lib.Base lib.C14_AList gen.Gen_C18 model.C18_Config.
Local Open Scope string_scope.
Local Open Scope Z_scope.

Ltac inv H := inversion H; subst; clear H.

(* ---------- the clause tables regenerated from config.go, as the model parsed them ---------- *)
(* These four equalities are where the translator's tables enter the proofs: a clause removed from (or
   added to) a Go Validate function changes the left-hand side. *)
Lemma sched_clauses_ok : sched_clauses = [ScTolNeg; ScLowRange; ScHighRange; ScLowLeHigh; ScUnregistered].
Proof. reflexivity. Qed.
Lemma dep_clauses_ok : dep_clauses = [DcFlag 0; DcFlag 1; DcFlag 2; DcFlag 3; DcFlag 4; DcFlag 5; DcRate].
Proof. reflexivity. Qed.
Lemma repl_clauses_ok : repl_clauses = [RcBadLabel; RcIsoNotLabel].
Proof. reflexivity. Qed.
Lemma pd_clauses_ok : pd_clauses = [PcBadUrl; PcNegDigit].
Proof. reflexivity. Qed.
(* nothing in the tables was left unparsed (a new clause must be added to the model) *)
Lemma sched_table_parsed : forallb (fun g => match parse_sclause (fst g) with Some _ => true | None => false end) guards_ScheduleValidate = true.
Proof. reflexivity. Qed.
Lemma dep_table_parsed : forallb (fun g => match parse_dclause (fst g) with Some _ => true | None => false end) guards_ScheduleDeprecated = true.
Proof. reflexivity. Qed.
Lemma repl_table_parsed : map fst guards_ReplicationValidate =
  ["err != nil"; "!foundIsolationLevel && label == c.IsolationLevel"; "c.IsolationLevel != """" && !foundIsolationLevel"].
Proof. reflexivity. Qed.
Lemma pd_table_parsed : forallb (fun g => match parse_pclause g with Some _ => true | None => false end) guards_PDServerValidate = true.
Proof. reflexivity. Qed.

(* ---------- statement 1: values outside their domains are never accepted ---------- *)
Lemma sched_domain_invalid c : sched_out_of_domain c = true -> sched_invalid c = true.
Proof.
  unfold sched_out_of_domain, sched_invalid. rewrite sched_clauses_ok. cbn [existsb eval_sclause].
  intros H. repeat (apply orb_true_iff in H as [H|H]); rewrite ?H, ?orb_true_r; reflexivity.
Qed.

Lemma invalid_schedule_pf s c f : sched_out_of_domain c = true -> run_cmd s (OSetSchedule c f) = (s, RInvalid).
Proof. intros H. cbn [run_cmd]. unfold do_set_schedule. rewrite (sched_domain_invalid _ H). reflexivity. Qed.

Lemma deprecated_schedule_pf s c f :
  (existsb (fun b => b) (firstn 6 (sc_dis c)) = true \/ sc_sbr c <> 0) -> length (sc_dis c) = 6%nat ->
  run_cmd s (OSetSchedule c f) = (s, RInvalid).
Proof.
  intros H L. cbn [run_cmd]. unfold do_set_schedule. destruct (sched_invalid c); [reflexivity|].
  assert (D : sched_deprecated c = true).
  { unfold sched_deprecated. rewrite dep_clauses_ok. cbn [existsb eval_dclause].
    destruct (sc_dis c) as [|b0 [|b1 [|b2 [|b3 [|b4 [|b5 [|]]]]]]]; try discriminate. cbn [nth].
    destruct H as [H|H].
    - cbn in H. rewrite !orb_false_r in H.
      repeat (apply orb_true_iff in H as [H|H]); rewrite ?H, ?orb_true_r; reflexivity.
    - assert (E : (sc_sbr c =? 0) = false) by (apply Z.eqb_neq; exact H). rewrite E. cbn. rewrite !orb_true_r. reflexivity. }
  rewrite D. reflexivity.
Qed.

Lemma invalid_replication_pf s c f : repl_out_of_domain c = true -> run_cmd s (OSetReplication c f) = (s, RInvalid).
Proof.
  intros H. cbn [run_cmd]. unfold do_set_replication.
  assert (I : repl_invalid c = true).
  { unfold repl_invalid. rewrite repl_clauses_ok. cbn [existsb eval_rclause]. unfold repl_out_of_domain in H. rewrite H, orb_true_r. reflexivity. }
  rewrite I. reflexivity.
Qed.
Lemma bad_label_replication_pf s c f :
  existsb (fun l => negb (valid_label_key l)) (rp_labels c) = true -> run_cmd s (OSetReplication c f) = (s, RInvalid).
Proof.
  intros H. cbn [run_cmd]. unfold do_set_replication.
  assert (I : repl_invalid c = true) by (unfold repl_invalid; rewrite repl_clauses_ok; cbn [existsb eval_rclause]; rewrite H; reflexivity).
  rewrite I. reflexivity.
Qed.

Lemma invalid_pdserver_pf s c f : pd_out_of_domain c = true ->
  exists r, run_cmd s (OSetPDServer c f) = (s, r) /\ (r = RInvalid \/ r = RNotMember).
Proof.
  intros H. cbn [run_cmd]. unfold do_set_pdserver.
  destruct (negb (dash_keyword (ps_dash c)) && negb (is_member_url _))%bool; [eexists; split; [reflexivity|auto]|].
  match goal with |- context [pd_invalid ?x] => assert (I : pd_invalid x = true) end.
  { unfold pd_invalid. rewrite pd_clauses_ok. cbn [existsb eval_pclause ps_digit]. unfold pd_out_of_domain in H. rewrite H. reflexivity. }
  rewrite I. eexists; split; [reflexivity|auto].
Qed.

Lemma invalid_mode_pf s c f : mode_valid (rm_mode c) = false -> run_cmd s (OSetMode c f) = (s, RInvalid).
Proof. intros H. cbn [run_cmd]. unfold do_set_mode. rewrite H. reflexivity. Qed.
Lemma invalid_version_pf s f : run_cmd s (OSetVersion None f) = (s, RInvalid).
Proof. reflexivity. Qed.

(* ---------- persist ---------- *)
Lemma wr_cases f g idx : wr f g idx = (true, true) \/ wr f g idx = (false, false) \/ wr f g idx = (true, false).
Proof.
  unfold wr. destruct f as [|g' i k]; [auto|].
  destruct (fgroup_eqb g' g && Nat.eqb i idx)%bool; [destruct k|]; auto.
Qed.

Lemma persist_spec s f idx s' ok :
  persist s f idx = (s', ok) ->
  served s' = served s /\ srule s' = srule s /\ strule s' = strule s /\ rm_init s' = rm_init s /\ mm s' = mm s /\
  (ok = true -> stored s' = Some (served s)).
Proof.
  unfold persist. destruct (wr_cases f GConfig idx) as [E|[E|E]]; rewrite E; intros H; inv H; cbn; repeat split; auto; discriminate.
Qed.

Lemma swap_persist_spec s c' f s' r :
  swap_persist s c' f = (s', r) ->
  srule s' = srule s /\ strule s' = strule s /\ rm_init s' = rm_init s /\ mm s' = mm s /\
  ((r = ROk /\ served s' = c' /\ stored s' = Some c') \/ (r = RStorage /\ served s' = served s)).
Proof.
  unfold swap_persist. destruct (persist (set_conf s c') f 0) as [s1 ok] eqn:E.
  destruct (persist_spec _ _ _ _ _ E) as (A&B&C&D&F&G). destruct ok; intros H; inv H; cbn in *.
  - repeat split; auto; left; repeat split; auto.
  - repeat split; auto.
Qed.

(* ---------- statement 3a: whatever was accepted is exactly what the config key holds ---------- *)
Theorem accepted_config_is_stored_pf s o s' : run_cmd s o = (s', ROk) -> stored s' = Some (served s').
Proof.
  destruct o as [c f|c f|c f|t k v f|t k v f|v f|c f]; cbn [run_cmd].
  - unfold do_set_schedule. destruct (sched_invalid c); [discriminate|]. destruct (sched_deprecated c); [discriminate|].
    intros H. destruct (swap_persist_spec _ _ _ _ _ H) as (_&_&_&_&[(_&A&B)|(E&_)]); [congruence|discriminate].
  - unfold do_set_replication. destruct (repl_invalid c); [discriminate|].
    destruct (repl_init s c (c_repl (served s)) f) as [s1 ie]. destruct ie; [discriminate|].
    assert (G : forall e, repl_commit s1 c (c_repl (served s)) e f = (s', ROk) -> stored s' = Some (served s')).
    { intros e. unfold repl_commit. destruct (e && (rp_max c <=? 0))%bool; [discriminate|].
      match goal with |- context [persist ?a ?b ?c] => destruct (persist a b c) as [s3 ok] eqn:E end.
      destruct (persist_spec _ _ _ _ _ E) as (A&_&_&_&_&G). destruct ok; intros H; inv H. rewrite A. apply G; reflexivity. }
    destruct (repl_check s1 c (c_repl (served s))) as [[|]|]; [apply G|discriminate|apply G].
  - unfold do_set_pdserver. destruct (negb (dash_keyword (ps_dash c)) && negb (is_member_url _))%bool; [discriminate|].
    destruct (pd_invalid _); [discriminate|].
    intros H. destruct (swap_persist_spec _ _ _ _ _ H) as (_&_&_&_&[(_&A&B)|(E&_)]); [congruence|discriminate].
  - unfold do_set_label.
    match goal with |- context [persist ?a ?b ?c] => destruct (persist a b c) as [s1 ok] eqn:E end.
    destruct (persist_spec _ _ _ _ _ E) as (A&_&_&_&_&G). destruct ok; intros H; inv H. rewrite A. apply G; reflexivity.
  - unfold do_del_label.
    match goal with |- context [persist ?a ?b ?c] => destruct (persist a b c) as [s1 ok] eqn:E end.
    destruct (persist_spec _ _ _ _ _ E) as (A&_&_&_&_&G). destruct ok; intros H; inv H. rewrite A. apply G; reflexivity.
  - unfold do_set_version. destruct v as [x|]; [|discriminate].
    intros H. destruct (swap_persist_spec _ _ _ _ _ H) as (_&_&_&_&[(_&A&B)|(E&_)]); [congruence|discriminate].
  - unfold do_set_mode. destruct (negb (mode_valid (rm_mode c))); [discriminate|].
    match goal with |- context [persist ?a ?b ?c] => destruct (persist a b c) as [s1 ok] eqn:E end.
    destruct (persist_spec _ _ _ _ _ E) as (A&_&_&_&_&G). destruct ok; cbn [negb]; [|discriminate].
    unfold update_mode.
    match goal with |- context [if ?C then _ else (set_mm s1 c, true)] => destruct C end.
    + destruct (wr f GMode 0) as [a ok2]. destruct ok2.
      * intros H; inv H. cbn. rewrite A. apply G; reflexivity.
      * match goal with |- context [persist ?a ?b ?c] => destruct (persist a b c) as [s3 ok3] end. discriminate.
    + intros H; inv H. cbn. rewrite A. apply G; reflexivity.
Qed.

(* ---------- statement 2: a rejected change leaves the served configuration exactly as it was ---------- *)
Lemma with_sched_back c x : with_sched (with_sched c x) (c_sched c) = c.
Proof. destruct c; reflexivity. Qed.
Lemma with_repl_back c x : with_repl (with_repl c x) (c_repl c) = c.
Proof. destruct c; reflexivity. Qed.
Lemma with_lp_lp c x y : with_lp (with_lp c x) y = with_lp c y.
Proof. destruct c; reflexivity. Qed.
Lemma with_lp_same c : with_lp c (c_lp c) = c.
Proof. destruct c; reflexivity. Qed.
Lemma with_rm_back c x : with_rm (with_rm c x) (c_rm c) = c.
Proof. destruct c; reflexivity. Qed.

(* the label-property roll-back restores the map exactly when the inverse operation happens to undo the change *)
Definition label_rollback_exact (m : lprop) (o : op) : Prop :=
  match o with
  | OSetLabel t k v _ => lp_delete (lp_set m t k v) t k v = m
  | ODelLabel t k v _ => lp_set (lp_delete m t k v) t k v = m
  | _ => True
  end.

Theorem rejected_keeps_served_partial_pf s o s' r :
  run_cmd s o = (s', r) -> r <> ROk -> label_rollback_exact (c_lp (served s)) o -> served s' = served s.
Proof.
  destruct o as [c f|c f|c f|t k v f|t k v f|v f|c f]; cbn [run_cmd label_rollback_exact]; intros H Hr Hl.
  - unfold do_set_schedule in H. destruct (sched_invalid c); [inv H; reflexivity|]. destruct (sched_deprecated c); [inv H; reflexivity|].
    destruct (swap_persist_spec _ _ _ _ _ H) as (_&_&_&_&[(E&_)|(_&E)]); [congruence|exact E].
  - unfold do_set_replication in H. destruct (repl_invalid c); [inv H; reflexivity|].
    destruct (repl_init s c (c_repl (served s)) f) as [s1 ie] eqn:Ei.
    assert (S1 : served s1 = served s).
    { unfold repl_init in Ei. destruct (negb (Bool.eqb (rp_pr c) (rp_pr (c_repl (served s)))) && rp_pr c && negb (rm_init s))%bool; [|inv Ei; reflexivity].
      destruct (strule s); [inv Ei; reflexivity|]. destruct (wr f GRule 0) as [[|] [|]]; inv Ei; reflexivity. }
    destruct ie; [inv H; exact S1|].
    assert (G : forall e, repl_commit s1 c (c_repl (served s)) e f = (s', r) -> served s' = served s).
    { intros e. unfold repl_commit. destruct (e && (rp_max c <=? 0))%bool.
      - intros H1; inv H1. destruct e; cbn; exact S1.
      - match goal with |- context [persist ?a ?b ?c] => destruct (persist a b c) as [s3 ok] eqn:E end.
        destruct (persist_spec _ _ _ _ _ E) as (A&_&_&_&_&_). destruct ok; intros H1; inv H1; [congruence|].
        assert (served (set_conf s3 (with_repl (served s3) (c_repl (served s)))) = served s).
        { cbn. rewrite A. cbn. destruct e; cbn; rewrite S1; apply with_repl_back. }
        destruct e; cbn in *; assumption. }
    destruct (repl_check s1 c (c_repl (served s))) as [[|]|]; [apply G with true; exact H|inv H; exact S1|apply G with false; exact H].
  - unfold do_set_pdserver in H. destruct (negb (dash_keyword (ps_dash c)) && negb (is_member_url _))%bool; [inv H; reflexivity|].
    destruct (pd_invalid _); [inv H; reflexivity|].
    destruct (swap_persist_spec _ _ _ _ _ H) as (_&_&_&_&[(E&_)|(_&E)]); [congruence|exact E].
  - unfold do_set_label in H.
    match type of H with context [persist ?a ?b ?c] => destruct (persist a b c) as [s1 ok] eqn:E end.
    destruct (persist_spec _ _ _ _ _ E) as (A&_&_&_&_&_). destruct ok; inv H; [congruence|].
    cbn. rewrite A. cbn. rewrite with_lp_lp. destruct (served s) as [a b c0 d e g]; cbn in *. rewrite Hl. reflexivity.
  - unfold do_del_label in H.
    match type of H with context [persist ?a ?b ?c] => destruct (persist a b c) as [s1 ok] eqn:E end.
    destruct (persist_spec _ _ _ _ _ E) as (A&_&_&_&_&_). destruct ok; inv H; [congruence|].
    cbn. rewrite A. cbn. rewrite with_lp_lp. destruct (served s) as [a b c0 d e g]; cbn in *. rewrite Hl. reflexivity.
  - unfold do_set_version in H. destruct v as [x|]; [|inv H; reflexivity].
    destruct (swap_persist_spec _ _ _ _ _ H) as (_&_&_&_&[(E&_)|(_&E)]); [congruence|exact E].
  - unfold do_set_mode in H. destruct (negb (mode_valid (rm_mode c))); [inv H; reflexivity|].
    match type of H with context [persist ?a ?b ?c] => destruct (persist a b c) as [s1 ok] eqn:E end.
    destruct (persist_spec _ _ _ _ _ E) as (A&_&_&_&_&_). destruct ok; cbn [negb] in H.
    2:{ inv H. cbn. rewrite A. cbn. apply with_rm_back. }
    destruct (update_mode s1 c f) as [s2 ok2] eqn:Eu.
    assert (S2 : served s2 = served s1).
    { unfold update_mode in Eu. match type of Eu with context [if ?C then _ else (set_mm s1 c, true)] => destruct C end.
      - destruct (wr f GMode 0) as [a [|]]; inv Eu; reflexivity.
      - inv Eu; reflexivity. }
    destruct ok2; [inv H; congruence|].
    match type of H with context [persist ?a ?b ?c] => destruct (persist a b c) as [s3 ok3] eqn:E3 end.
    destruct (persist_spec _ _ _ _ _ E3) as (A3&_&_&_&_&_). inv H. rewrite A3. cbn. rewrite S2, A. cbn. apply with_rm_back.
Qed.

(* the served default rule (the effective replication settings while placement rules are on) *)
Theorem rejected_keeps_rule_partial_pf s o s' r :
  run_cmd s o = (s', r) -> r <> ROk -> rm_init s = true ->
  (forall c f, o = OSetReplication c f -> repl_check s c (c_repl (served s)) <> Some true) ->
  srule s' = srule s.
Proof.
  destruct o as [c f|c f|c f|t k v f|t k v f|v f|c f]; cbn [run_cmd]; intros H Hr Hi Hn.
  - unfold do_set_schedule in H. destruct (sched_invalid c); [inv H; reflexivity|]. destruct (sched_deprecated c); [inv H; reflexivity|].
    destruct (swap_persist_spec _ _ _ _ _ H) as (E&_); exact E.
  - unfold do_set_replication in H. destruct (repl_invalid c); [inv H; reflexivity|].
    unfold repl_init in H. rewrite Hi, andb_false_r in H.
    specialize (Hn c f eq_refl).
    destruct (repl_check s c (c_repl (served s))) as [[|]|]; [congruence|inv H; reflexivity|].
    unfold repl_commit in H. cbn [andb] in H.
    match type of H with context [persist ?a ?b ?c] => destruct (persist a b c) as [s3 ok] eqn:E end.
    destruct (persist_spec _ _ _ _ _ E) as (_&B&_). destruct ok; inv H; exact B.
  - unfold do_set_pdserver in H. destruct (negb (dash_keyword (ps_dash c)) && negb (is_member_url _))%bool; [inv H; reflexivity|].
    destruct (pd_invalid _); [inv H; reflexivity|].
    destruct (swap_persist_spec _ _ _ _ _ H) as (E&_); exact E.
  - unfold do_set_label in H.
    match type of H with context [persist ?a ?b ?c] => destruct (persist a b c) as [s1 ok] eqn:E end.
    destruct (persist_spec _ _ _ _ _ E) as (_&B&_). destruct ok; inv H; exact B.
  - unfold do_del_label in H.
    match type of H with context [persist ?a ?b ?c] => destruct (persist a b c) as [s1 ok] eqn:E end.
    destruct (persist_spec _ _ _ _ _ E) as (_&B&_). destruct ok; inv H; exact B.
  - unfold do_set_version in H. destruct v as [x|]; [|inv H; reflexivity].
    destruct (swap_persist_spec _ _ _ _ _ H) as (E&_); exact E.
  - unfold do_set_mode in H. destruct (negb (mode_valid (rm_mode c))); [inv H; reflexivity|].
    match type of H with context [persist ?a ?b ?c] => destruct (persist a b c) as [s1 ok] eqn:E end.
    destruct (persist_spec _ _ _ _ _ E) as (_&B&_). destruct ok; cbn [negb] in H; [|inv H; exact B].
    destruct (update_mode s1 c f) as [s2 ok2] eqn:Eu.
    assert (S2 : srule s2 = srule s1).
    { unfold update_mode in Eu. match type of Eu with context [if ?C then _ else (set_mm s1 c, true)] => destruct C end.
      - destruct (wr f GMode 0) as [a [|]]; inv Eu; reflexivity.
      - inv Eu; reflexivity. }
    destruct ok2; [inv H; congruence|].
    match type of H with context [persist ?a ?b ?c] => destruct (persist a b c) as [s3 ok3] eqn:E3 end.
    destruct (persist_spec _ _ _ _ _ E3) as (_&B3&_). inv H. rewrite B3. cbn. rewrite S2, B. reflexivity.
Qed.

Definition rejected_full : Prop :=
  forall s o s' r, run_cmd s o = (s', r) -> r <> ROk ->
    served s' = served s /\ (rp_pr (c_repl (served s)) = true -> srule s' = srule s).

Definition base_conf : conf :=
  Conf (Sched 0 800 700 ["balance-region"; "balance-leader"; "hot-region"] [false; false; false; false; false; false] 0 3)
       (Repl 3 [] "" true false) (PdSrv "auto" 3 true "table") [("reject-leader", [("zone", "z1")])] (4, 0, 0) (RMode "majority" "").

(* S11: the label is already there; the save fails; the roll-back deletes it *)
Lemma rejected_refuted_label_pf : ~ rejected_full.
Proof.
  intros H.
  specialize (H (boot base_conf) (OSetLabel "reject-leader" "zone" "z1" (Fault GConfig 0 FBefore))).
  match type of H with forall s' r, ?t = _ -> _ => destruct t as [s' r] eqn:E end.
  specialize (H s' r eq_refl). vm_compute in E. inv E.
  assert (N : RStorage <> ROk) by discriminate. destruct (H N) as [A _]. vm_compute in A. discriminate A.
Qed.
(* max-replicas 0 is refused by SetRule, after the served default rule has been set to count 0 *)
Lemma rejected_refuted_rule_pf :
  exists s' r, run_cmd (boot base_conf) (OSetReplication (Repl 0 [] "" true false) NoFault) = (s', r)
    /\ r = RRuleContent /\ served s' = served (boot base_conf) /\ srule s' = Some (Rule 0 []) /\ srule (boot base_conf) = Some (Rule 3 []).
Proof. eexists; eexists. vm_compute. repeat split; reflexivity. Qed.

(* ---------- statement 3: an accepted change is what a new leader reloads ---------- *)
Definition reach (c0 : conf) (ops : list op) : state := run_state run_op (boot c0) ops.

Definition accepted_full : Prop :=
  forall c0 ops o s', run_cmd (reach c0 ops) o = (s', ROk) ->
    option_map reload_conf (stored s') = Some (normalise (served s')) /\
    (rp_pr (c_repl (served s')) = true -> strule s' = srule s').

(* S17: placement rules on, max-replicas 3 -> 5: served rule 5, stored rule 3 *)
Lemma accepted_refuted_rule_pf : ~ accepted_full.
Proof.
  intros H. specialize (H base_conf [] (OSetReplication (Repl 5 [] "" true false) NoFault)).
  match type of H with forall s', ?t = _ -> _ => destruct t as [s' r] eqn:E end.
  vm_compute in E. inv E. destruct (H _ eq_refl) as [_ B]. specialize (B eq_refl). vm_compute in B. discriminate B.
Qed.
(* trace-region-flow=false is accepted, never written (omitempty), so the documented migration to 127 never happens *)
Lemma accepted_refuted_trace_pf :
  exists s', run_cmd (boot base_conf) (OSetPDServer (PdSrv "auto" 3 false "table") NoFault) = (s', ROk) /\
    option_map reload_conf (stored s') <> Some (normalise (served s')).
Proof. eexists. split; [vm_compute; reflexivity|]. vm_compute. discriminate. Qed.

(* the invariant of the partial theorem: once the rule manager is initialised, the served default rule
   is the stored one -- as long as no replication change edits the rule *)
Definition rule_inv (s : state) : Prop := rm_init s = true -> srule s = strule s.
Definition op_no_rule_edit (s : state) (o : op) : Prop :=
  match o with
  | OSetReplication c f =>
      repl_check (fst (repl_init s c (c_repl (served s)) f)) c (c_repl (served s)) <> Some true
  | _ => True
  end.
Fixpoint no_rule_edit (s : state) (ops : list op) : Prop :=
  match ops with [] => True | o :: r => op_no_rule_edit s o /\ no_rule_edit (fst (run_cmd s o)) r end.

Lemma rule_frame_persist s f idx s' ok : persist s f idx = (s', ok) -> rule_inv s -> rule_inv s'.
Proof. intros H I. destruct (persist_spec _ _ _ _ _ H) as (_&B&C&D&_). unfold rule_inv in *. rewrite B, C, D. exact I. Qed.

Lemma rule_inv_step s o s' r : rule_inv s -> op_no_rule_edit s o -> run_cmd s o = (s', r) -> rule_inv s'.
Proof.
  destruct o as [c f|c f|c f|t k v f|t k v f|v f|c f]; cbn [run_cmd op_no_rule_edit]; intros I Hn H.
  - unfold do_set_schedule in H. destruct (sched_invalid c); [inv H; exact I|]. destruct (sched_deprecated c); [inv H; exact I|].
    destruct (swap_persist_spec _ _ _ _ _ H) as (A&B&C&_). unfold rule_inv in *. rewrite A, B, C. exact I.
  - unfold do_set_replication in H. destruct (repl_invalid c); [inv H; exact I|].
    destruct (repl_init s c (c_repl (served s)) f) as [s1 ie] eqn:Ei. cbn [fst] in Hn.
    assert (I1 : rule_inv s1).
    { unfold repl_init in Ei. destruct (negb (Bool.eqb (rp_pr c) (rp_pr (c_repl (served s)))) && rp_pr c && negb (rm_init s))%bool eqn:Eg; [|inv Ei; exact I].
      apply andb_true_iff in Eg as [_ Eg]. apply negb_true_iff in Eg.
      destruct (strule s) as [r0|] eqn:Es; [inv Ei; unfold rule_inv; cbn; intros _; congruence|].
      destruct (wr_cases f GRule 0) as [W|[W|W]]; rewrite W in Ei; inv Ei; unfold rule_inv; cbn; intros Hi; try congruence; reflexivity. }
    destruct ie; [inv H; exact I1|].
    destruct (repl_check s1 c (c_repl (served s))) as [[|]|]; [congruence|inv H; exact I1|].
    unfold repl_commit in H. cbn [andb] in H.
    match type of H with context [persist ?a ?b ?c] => destruct (persist a b c) as [s3 ok] eqn:E end.
    assert (I3 : rule_inv s3) by (eapply rule_frame_persist; [exact E|exact I1]).
    destruct ok; inv H; exact I3.
  - unfold do_set_pdserver in H. destruct (negb (dash_keyword (ps_dash c)) && negb (is_member_url _))%bool; [inv H; exact I|].
    destruct (pd_invalid _); [inv H; exact I|].
    destruct (swap_persist_spec _ _ _ _ _ H) as (A&B&C&_). unfold rule_inv in *. rewrite A, B, C. exact I.
  - unfold do_set_label in H.
    match type of H with context [persist ?a ?b ?c] => destruct (persist a b c) as [s1 ok] eqn:E end.
    assert (I1 : rule_inv s1) by (eapply rule_frame_persist; [exact E|exact I]). destruct ok; inv H; exact I1.
  - unfold do_del_label in H.
    match type of H with context [persist ?a ?b ?c] => destruct (persist a b c) as [s1 ok] eqn:E end.
    assert (I1 : rule_inv s1) by (eapply rule_frame_persist; [exact E|exact I]). destruct ok; inv H; exact I1.
  - unfold do_set_version in H. destruct v as [x|]; [|inv H; exact I].
    destruct (swap_persist_spec _ _ _ _ _ H) as (A&B&C&_). unfold rule_inv in *. rewrite A, B, C. exact I.
  - unfold do_set_mode in H. destruct (negb (mode_valid (rm_mode c))); [inv H; exact I|].
    match type of H with context [persist ?a ?b ?c] => destruct (persist a b c) as [s1 ok] eqn:E end.
    assert (I1 : rule_inv s1) by (eapply rule_frame_persist; [exact E|exact I]).
    destruct ok; cbn [negb] in H; [|inv H; exact I1].
    destruct (update_mode s1 c f) as [s2 ok2] eqn:Eu.
    assert (I2 : rule_inv s2).
    { unfold update_mode in Eu. match type of Eu with context [if ?C then _ else (set_mm s1 c, true)] => destruct C end.
      - destruct (wr f GMode 0) as [a [|]]; inv Eu; exact I1.
      - inv Eu; exact I1. }
    destruct ok2; [inv H; exact I2|].
    match type of H with context [persist ?a ?b ?c] => destruct (persist a b c) as [s3 ok3] eqn:E3 end.
    inv H. eapply rule_frame_persist; [exact E3|exact I2].
Qed.

Lemma rule_inv_boot c0 : rule_inv (boot c0).
Proof. unfold rule_inv, boot. cbn. reflexivity. Qed.

Lemma run_op_state s o : fst (run_op s o) = fst (run_cmd s o).
Proof. unfold run_op. destruct (run_cmd s o); reflexivity. Qed.

Lemma rule_inv_run s ops : rule_inv s -> no_rule_edit s ops -> rule_inv (run_state run_op s ops).
Proof.
  revert s; induction ops as [|o r IH]; intros s I H; cbn [run_state]; [exact I|].
  destruct H as [H1 H2]. rewrite run_op_state. apply IH; [|exact H2].
  destruct (run_cmd s o) as [s1 r1] eqn:E. cbn [fst]. eapply rule_inv_step; eauto.
Qed.

Lemma reload_is_normalise c : ps_trace (c_pd c) = true -> reload_conf c = normalise c.
Proof. unfold reload_conf, normalise. intros ->. reflexivity. Qed.

(* placement rules on means the rule manager is initialised (it is initialised at boot, or by the very change that
   switches the rules on) *)
Definition init_inv (s : state) : Prop := rp_pr (c_repl (served s)) = true -> rm_init s = true.

Lemma init_inv_step s o s' r : init_inv s -> run_cmd s o = (s', r) -> init_inv s'.
Proof.
  destruct o as [c f|c f|c f|t k v f|t k v f|v f|c f]; cbn [run_cmd]; intros I H.
  - unfold do_set_schedule in H. destruct (sched_invalid c); [inv H; exact I|]. destruct (sched_deprecated c); [inv H; exact I|].
    destruct (swap_persist_spec _ _ _ _ _ H) as (_&_&C&_&[(_&E&_)|(_&E)]); unfold init_inv in *; rewrite C, E; [cbn|]; exact I.
  - unfold do_set_replication in H. destruct (repl_invalid c); [inv H; exact I|].
    destruct (repl_init s c (c_repl (served s)) f) as [s1 ie] eqn:Ei.
    (* after a successful repl_init: placement rules requested => initialised *)
    assert (A : served s1 = served s /\ (rm_init s = true -> rm_init s1 = true) /\ (ie = false -> rp_pr c = true -> rm_init s1 = true)).
    { unfold repl_init in Ei.
      destruct (negb (Bool.eqb (rp_pr c) (rp_pr (c_repl (served s)))) && rp_pr c && negb (rm_init s))%bool eqn:Eg.
      - destruct (strule s); [inv Ei; cbn; auto|]. destruct (wr f GRule 0) as [[|] [|]]; inv Ei; cbn; repeat split; auto; discriminate.
      - inv Ei. repeat split; auto. intros _ Hp.
        destruct (rm_init s1) eqn:Er; [reflexivity|]. exfalso. rewrite Hp in Eg.
        destruct (rp_pr (c_repl (served s1))) eqn:Eo.
        + unfold init_inv in I. rewrite Eo in I. rewrite (I eq_refl) in Er. discriminate.
        + cbn in Eg. discriminate. }
    destruct A as (S1&K1&K2).
    destruct ie; [inv H; unfold init_inv in *; rewrite S1; intros Hp; apply K1, I, Hp|].
    assert (G : forall e, repl_commit s1 c (c_repl (served s)) e f = (s', r) -> init_inv s').
    { intros e. unfold repl_commit. destruct (e && (rp_max c <=? 0))%bool.
      - intros H1; inv H1. unfold init_inv. destruct e; cbn; rewrite S1; intros Hp; apply K1, I, Hp.
      - match goal with |- context [persist ?a ?b ?c] => destruct (persist a b c) as [s3 ok] eqn:E end.
        destruct (persist_spec _ _ _ _ _ E) as (A3&_&_&D3&_). destruct ok; intros H1; inv H1.
        + unfold init_inv. rewrite A3, D3. destruct e; cbn; intros Hp; apply (K2 eq_refl Hp).
        + assert (Q : rp_pr (c_repl (with_repl (served s3) (c_repl (served s)))) = rp_pr (c_repl (served s)))
            by (destruct (served s3); reflexivity).
          match goal with |- init_inv ?X =>
            assert (SX : served X = with_repl (served s3) (c_repl (served s))) by (destruct e; reflexivity);
            assert (RX : rm_init X = rm_init s3) by (destruct e; reflexivity) end.
          unfold init_inv. rewrite SX, RX, Q, D3. destruct e; cbn; intros Hp; apply K1, I, Hp. }
    destruct (repl_check s1 c (c_repl (served s))) as [[|]|]; [apply G with true; exact H| |apply G with false; exact H].
    inv H. unfold init_inv. rewrite S1. intros Hp; apply K1, I, Hp.
  - unfold do_set_pdserver in H. destruct (negb (dash_keyword (ps_dash c)) && negb (is_member_url _))%bool; [inv H; exact I|].
    destruct (pd_invalid _); [inv H; exact I|].
    destruct (swap_persist_spec _ _ _ _ _ H) as (_&_&C&_&[(_&E&_)|(_&E)]); unfold init_inv in *; rewrite C, E; [cbn|]; exact I.
  - unfold do_set_label in H.
    match type of H with context [persist ?a ?b ?c] => destruct (persist a b c) as [s1 ok] eqn:E end.
    destruct (persist_spec _ _ _ _ _ E) as (A&_&_&D&_). destruct ok; inv H; unfold init_inv in *; cbn; rewrite ?A, D; cbn; destruct (served s); exact I.
  - unfold do_del_label in H.
    match type of H with context [persist ?a ?b ?c] => destruct (persist a b c) as [s1 ok] eqn:E end.
    destruct (persist_spec _ _ _ _ _ E) as (A&_&_&D&_). destruct ok; inv H; unfold init_inv in *; cbn; rewrite ?A, D; cbn; destruct (served s); exact I.
  - unfold do_set_version in H. destruct v as [x|]; [|inv H; exact I].
    destruct (swap_persist_spec _ _ _ _ _ H) as (_&_&C&_&[(_&E&_)|(_&E)]); unfold init_inv in *; rewrite C, E; [cbn|]; exact I.
  - unfold do_set_mode in H. destruct (negb (mode_valid (rm_mode c))); [inv H; exact I|].
    match type of H with context [persist ?a ?b ?c] => destruct (persist a b c) as [s1 ok] eqn:E end.
    destruct (persist_spec _ _ _ _ _ E) as (A&_&_&D&_).
    destruct ok; cbn [negb] in H.
    2:{ inv H. unfold init_inv in *. cbn. rewrite A, D. cbn. destruct (served s); exact I. }
    destruct (update_mode s1 c f) as [s2 ok2] eqn:Eu.
    assert (S2 : served s2 = served s1 /\ rm_init s2 = rm_init s1).
    { unfold update_mode in Eu. match type of Eu with context [if ?C then _ else (set_mm s1 c, true)] => destruct C end.
      - destruct (wr f GMode 0) as [a [|]]; inv Eu; split; reflexivity.
      - inv Eu; split; reflexivity. }
    destruct S2 as [S2 R2].
    destruct ok2.
    + inv H. unfold init_inv in *. rewrite S2, R2, A, D. cbn. destruct (served s); exact I.
    + match type of H with context [persist ?a ?b ?c] => destruct (persist a b c) as [s3 ok3] eqn:E3 end.
      destruct (persist_spec _ _ _ _ _ E3) as (A3&_&_&D3&_). inv H. unfold init_inv in *. rewrite A3, D3. cbn. rewrite S2, R2, A, D. cbn.
      destruct (served s); exact I.
Qed.

Lemma init_inv_boot c0 : init_inv (boot c0).
Proof. unfold init_inv, boot. cbn. auto. Qed.
Lemma init_inv_run s ops : init_inv s -> init_inv (run_state run_op s ops).
Proof.
  revert s; induction ops as [|o r IH]; intros s I; cbn [run_state]; [exact I|].
  rewrite run_op_state. apply IH. destruct (run_cmd s o) as [s1 r1] eqn:E. cbn [fst]. eapply init_inv_step; eauto.
Qed.

Theorem accepted_partial_pf c0 ops o s' :
  no_rule_edit (boot c0) (ops ++ [o]) -> run_cmd (reach c0 ops) o = (s', ROk) ->
  ps_trace (c_pd (served s')) = true ->
  option_map reload_conf (stored s') = Some (normalise (served s')) /\
  (rp_pr (c_repl (served s')) = true -> strule s' = srule s').
Proof.
  intros Hn H Ht. split.
  - rewrite (accepted_config_is_stored_pf _ _ _ H). cbn. f_equal. apply reload_is_normalise; exact Ht.
  - intros Hp. unfold reach in H.
    assert (G : forall s, no_rule_edit s (ops ++ [o]) -> rule_inv s -> init_inv s ->
              rule_inv (run_state run_op s ops) /\ init_inv (run_state run_op s ops) /\ op_no_rule_edit (run_state run_op s ops) o).
    { clear. induction ops as [|a r IH]; intros s Hn I J; cbn [app no_rule_edit run_state] in *.
      - destruct Hn; auto.
      - destruct Hn as [H1 H2]. rewrite run_op_state. destruct (run_cmd s a) as [s1 r1] eqn:E. cbn [fst] in *.
        apply IH; [exact H2|eapply rule_inv_step; eauto|eapply init_inv_step; eauto]. }
    destruct (G _ Hn (rule_inv_boot c0) (init_inv_boot c0)) as (I&J&Ho).
    pose proof (rule_inv_step _ _ _ _ I Ho H) as I'. pose proof (init_inv_step _ _ _ _ J H) as J'.
    symmetry. apply I', J', Hp.
Qed.
