(* C07 — L1: regionTree operations on a valid, sorted, pairwise disjoint item list are filters. *)
From Coq Require Import Permutation Sorting.Sorted.
From PDV Require Import lib.Base lib.C07_Key gen.Gen_C07 model.C07_BTreeSpec model.C07_Region proof.C07_Sorted.
Local Open Scope Z_scope.

Definition validP (r : region) : Prop := valid_range r = true.
Definition before (x y : region) : Prop := r_end x <> [] /\ kle (r_end x) (r_start y).
Definition ds (T : list region) : Prop := Forall validP T /\ StronglySorted before T.

Lemma validP_cases r : validP r -> r_end r = [] \/ klt (r_start r) (r_end r).
Proof.
  unfold validP, valid_range. destruct (is_nil_spec (r_end r)); [auto|].
  cbn. destruct (key_ltb_spec (r_start r) (r_end r)); [auto|discriminate].
Qed.

Lemma before_slt x y : validP x -> before x y -> slt x y.
Proof.
  intros V [N L]. apply validP_cases in V as [V|V]; [contradiction|]. unfold slt. korder.
Qed.

Lemma ss_pairs {A} (R : A -> A -> Prop) T x y :
  StronglySorted R T -> In x T -> In y T -> x = y \/ R x y \/ R y x.
Proof.
  induction 1 as [|a T S IH F]; intros Hx Hy; [destruct Hx|].
  rewrite Forall_forall in F. destruct Hx as [<-|Hx], Hy as [<-|Hy]; auto.
Qed.

Lemma ds_nil : ds [].
Proof. split; constructor. Qed.

Lemma ds_valid T x : ds T -> In x T -> validP x.
Proof. intros [V _] Hx. rewrite Forall_forall in V. auto. Qed.

Lemma ds_ssorted T : ds T -> ssorted T.
Proof.
  intros [V S]. induction S as [|a T S IH F]; [constructor|].
  inversion V; subst. apply ssorted_cons; [auto|].
  rewrite Forall_forall in *. intros y Hy. apply before_slt; auto.
Qed.

Lemma ds_pairs T x y : ds T -> In x T -> In y T -> x = y \/ before x y \/ before y x.
Proof. intros [_ S]. apply ss_pairs; exact S. Qed.

Lemma ds_filter p T : ds T -> ds (filter p T).
Proof.
  intros [V S]. split.
  - rewrite Forall_forall in *. intros x Hx. apply filter_In in Hx as [Hx _]. auto.
  - clear V. induction S as [|a T S IH F]; cbn; [constructor|].
    destruct (p a); [|exact IH]. constructor; [exact IH|].
    rewrite Forall_forall in *. intros y Hy. apply filter_In in Hy as [Hy _]. auto.
Qed.

(* reflection of the boolean predicates of the model into order facts *)
Lemma contains_iff x k :
  contains x k = true <-> kle (r_start x) k /\ (r_end x = [] \/ klt k (r_end x)).
Proof.
  unfold contains. rewrite andb_true_iff, orb_true_iff.
  destruct (key_leb_spec (r_start x) k), (is_nil_spec (r_end x)), (key_ltb_spec k (r_end x)); intuition congruence.
Qed.

Lemma overlaps_iff x r :
  overlaps x r = true <-> (r_end x = [] \/ klt (r_start r) (r_end x)) /\ (r_end r = [] \/ klt (r_start x) (r_end r)).
Proof.
  unfold overlaps. rewrite andb_true_iff, !orb_true_iff.
  destruct (is_nil_spec (r_end x)), (is_nil_spec (r_end r)),
    (key_ltb_spec (r_start r) (r_end x)), (key_ltb_spec (r_start x) (r_end r)); intuition congruence.
Qed.

Lemma before_end_iff r x :
  before_end r x = true <-> (r_end r = [] \/ klt (r_start x) (r_end r)).
Proof.
  unfold before_end. destruct (is_nil_spec (r_end r)), (key_leb_spec (r_end r) (r_start x)); cbn;
    split; intros H; auto; try discriminate.
  - destruct H; [contradiction|]. exfalso; korder.
  - right. korder.
Qed.

Lemma valid_contains_start x : validP x -> contains x (r_start x) = true.
Proof.
  intros V. apply contains_iff. split; [korder|]. apply validP_cases in V. exact V.
Qed.

(* two regions of a ds list containing the same key are the same region *)
Lemma ds_contains_unique T x y k :
  ds T -> In x T -> In y T -> contains x k = true -> contains y k = true -> x = y.
Proof.
  intros D Hx Hy Cx Cy. apply contains_iff in Cx as [Cx1 Cx2]. apply contains_iff in Cy as [Cy1 Cy2].
  destruct (ds_pairs _ _ _ D Hx Hy) as [E|[[N L]|[N L]]]; [exact E| |].
  - destruct Cx2; [contradiction|]. exfalso; korder.
  - destruct Cy2; [contradiction|]. exfalso; korder.
Qed.

Lemma ds_overlaps_eq T x y : ds T -> In x T -> In y T -> overlaps x y = true -> x = y.
Proof.
  intros D Hx Hy O. apply overlaps_iff in O as [O1 O2].
  pose proof (ds_valid _ _ D Hx) as Vx. pose proof (ds_valid _ _ D Hy) as Vy.
  apply validP_cases in Vx. apply validP_cases in Vy.
  destruct (ds_pairs _ _ _ D Hx Hy) as [E|[[N L]|[N L]]]; [exact E| |].
  - destruct O1; [contradiction|]. exfalso; korder.
  - destruct O2; [contradiction|]. exfalso; korder.
Qed.

Lemma valid_overlaps_self x : validP x -> overlaps x x = true.
Proof. intros V. apply overlaps_iff. apply validP_cases in V. tauto. Qed.

(* ---- find ---- *)
Lemma rev_cons_last {A} (l : list A) y rest : rev l = y :: rest -> l = rev rest ++ [y].
Proof. intros H. rewrite <- (rev_involutive l), H. reflexivity. Qed.

Lemma find_some T tot r x : ds T -> find (RT T tot) r = Some x -> In x T /\ contains x (r_start r) = true.
Proof.
  intros D. unfold find; cbn [items]. rewrite (descend_le_filter _ _ (ds_ssorted _ D)).
  destruct (rev (filter (fun x0 => negb (rlt r x0)) T)) as [|y rest] eqn:E; [discriminate|].
  destruct (contains y (r_start r)) eqn:C; [|discriminate]. intros H; inversion H; subst y.
  split; [|exact C]. apply rev_cons_last in E.
  assert (In x (filter (fun x0 => negb (rlt r x0)) T)) by (rewrite E; apply in_or_app; right; left; reflexivity).
  apply filter_In in H0. tauto.
Qed.

Lemma find_complete T tot r x :
  ds T -> In x T -> contains x (r_start r) = true -> find (RT T tot) r = Some x.
Proof.
  intros D Hx C. unfold find; cbn [items]. rewrite (descend_le_filter _ _ (ds_ssorted _ D)).
  set (F := filter (fun x0 => negb (rlt r x0)) T).
  assert (SF : ssorted F) by (apply ssorted_filter, ds_ssorted, D).
  apply contains_iff in C as C'. destruct C' as [C1 C2].
  assert (HxF : In x F).
  { apply filter_In. split; [exact Hx|]. destruct (rlt_spec r x) as [L|_]; [unfold slt in L; exfalso; korder|reflexivity]. }
  destruct (rev F) as [|y rest] eqn:E.
  - apply (f_equal (@rev _)) in E. rewrite rev_involutive in E. cbn in E. rewrite E in HxF. destruct HxF.
  - apply rev_cons_last in E.
    assert (HyF : In y F) by (rewrite E; apply in_or_app; right; left; reflexivity).
    apply filter_In in HyF as [HyT Hy].
    assert (Ly : kle (r_start y) (r_start r)).
    { destruct (rlt_spec r y) as [L|NL]; [discriminate|]. unfold slt in NL. korder. }
    assert (x = y) as <-.
    { destruct (ds_pairs _ _ _ D Hx HyT) as [Eq|[[N L]|B]]; [exact Eq| |].
      - destruct C2; [contradiction|]. exfalso; korder.
      - exfalso. apply before_slt in B; [|eapply ds_valid; eauto].
        rewrite E in SF, HxF. apply ssorted_app_inv in SF as (_ & _ & SF).
        apply in_app_or in HxF as [HxF|[->|[]]].
        + specialize (SF x y HxF (or_introl eq_refl)). unfold slt in *. korder.
        + unfold slt in B. korder. }
    rewrite (proj2 (contains_iff x (r_start r)) (conj C1 C2)). reflexivity.
Qed.

Lemma find_none T tot r :
  ds T -> find (RT T tot) r = None -> forall x, In x T -> contains x (r_start r) = false.
Proof.
  intros D H x Hx. destruct (contains x (r_start r)) eqn:C; [|reflexivity].
  rewrite (find_complete _ _ _ _ D Hx C) in H. discriminate.
Qed.

(* ---- the items at or after the item that contains k (or after k): scan start ---- *)
Definition ends_after (k : key) (x : region) : bool := is_nil (r_end x) || key_ltb k (r_end x).

Lemma ascend_from_find T tot r :
  ds T ->
  l0_ascend_ge rlt (match find (RT T tot) r with Some x => x | None => r end) T = filter (ends_after (r_start r)) T.
Proof.
  intros D. rewrite (ascend_ge_filter _ _ (ds_ssorted _ D)). apply filter_ext_in'. intros x Hx.
  pose proof (ds_valid _ _ D Hx) as Vx. apply validP_cases in Vx.
  unfold ends_after.
  destruct (find (RT T tot) r) as [f|] eqn:F.
  - apply find_some in F as [Hf Cf]; [|exact D]. apply contains_iff in Cf as [Cf1 Cf2].
    destruct (ds_pairs _ _ _ D Hx Hf) as [->|[[N L]|[N L]]].
    + destruct (rlt_spec f f) as [L|_]; [unfold slt in L; exfalso; korder|].
      cbn. symmetry. destruct (is_nil_spec (r_end f)); [reflexivity|]. cbn.
      destruct (key_ltb_spec (r_start r) (r_end f)); [reflexivity|]. destruct Cf2; contradiction.
    + destruct Vx; [contradiction|].
      destruct (rlt_spec x f) as [_|NL]; [|unfold slt in NL; exfalso; korder]. cbn.
      destruct (is_nil_spec (r_end x)); [contradiction|]. cbn.
      destruct (key_ltb_spec (r_start r) (r_end x)); [exfalso; korder|reflexivity].
    + destruct Cf2; [contradiction|].
      destruct (rlt_spec x f) as [L'|_]; [unfold slt in L'; exfalso; korder|]. cbn.
      destruct (is_nil_spec (r_end x)); [reflexivity|]. cbn.
      destruct (key_ltb_spec (r_start r) (r_end x)); [reflexivity|]. destruct Vx; [contradiction|]. exfalso; korder.
  - pose proof (find_none _ _ _ D F x Hx) as NC.
    destruct (rlt_spec x r) as [L|NL]; cbn.
    + (* x starts before r's start and does not contain it *)
      destruct (is_nil_spec (r_end x)) as [E|NE]; cbn.
      * exfalso. rewrite (proj2 (contains_iff x (r_start r))) in NC; [discriminate|]. unfold slt in L. split; [korder|auto].
      * destruct (key_ltb_spec (r_start r) (r_end x)); [|reflexivity].
        exfalso. rewrite (proj2 (contains_iff x (r_start r))) in NC; [discriminate|]. unfold slt in L. split; [korder|auto].
    + unfold slt in NL. destruct (is_nil_spec (r_end x)); [reflexivity|]. cbn.
      destruct (key_ltb_spec (r_start r) (r_end x)); [reflexivity|]. destruct Vx; [contradiction|]. exfalso; korder.
Qed.

Lemma before_end_prefix_closed r : prefix_closed (before_end r).
Proof.
  intros x y S H. apply before_end_iff in H. apply before_end_iff. destruct H; [auto|]. right. unfold slt in S. korder.
Qed.

Lemma get_overlaps_spec T tot r :
  ds T -> validP r -> get_overlaps (RT T tot) r = filter (fun x => overlaps x r) T.
Proof.
  intros D V. unfold get_overlaps. cbn [items].
  rewrite (ascend_from_find _ _ _ D).
  rewrite take_while_filter; [| apply ssorted_filter, ds_ssorted, D | apply before_end_prefix_closed].
  rewrite filter_filter. apply filter_ext_in'. intros x Hx. unfold overlaps, ends_after.
  f_equal. unfold before_end. destruct (is_nil (r_end r)); cbn; [reflexivity|].
  destruct (key_leb_spec (r_end r) (r_start x)), (key_ltb_spec (r_start x) (r_end r)); try reflexivity; exfalso; korder.
Qed.

(* ---- update ---- *)
Lemma fold_delete T O tot : ssorted T ->
  fold_left (fun acc old => RT (fst (l0_delete rlt old (items acc))) (total acc - r_size old)) O (RT T tot)
  = RT (filter (fun y => negb (existsb (fun o => same o y) O)) T) (tot - sum_size O).
Proof.
  revert T tot. induction O as [|o O IH]; intros T tot S; cbn [fold_left existsb sum_size fold_right].
  - rewrite filter_true_id; [f_equal; lia|reflexivity].
  - cbn [items total]. rewrite (l0_delete_filter _ _ S). rewrite IH; [|apply ssorted_filter, S].
    rewrite filter_filter. f_equal; [|unfold sum_size; lia].
    apply filter_ext_in'. intros y _. destruct (same o y); cbn; reflexivity.
Qed.

Lemma no_same_after_filter T r y :
  ds T -> validP r -> In y (filter (fun x => negb (overlaps x r)) T) -> same r y = false.
Proof.
  intros D V Hy. apply filter_In in Hy as [Hy NO]. unfold same.
  destruct (key_eqb_spec (r_start y) (r_start r)) as [E|]; [|reflexivity].
  exfalso. apply negb_true_iff in NO. rewrite (proj2 (overlaps_iff y r)) in NO; [discriminate|].
  pose proof (ds_valid _ _ D Hy) as Vy. apply validP_cases in Vy. apply validP_cases in V. rewrite E in *. tauto.
Qed.

Lemma update_spec T tot r :
  ds T -> validP r ->
  update (RT T tot) r =
    (RT (ins_region r (filter (fun x => negb (overlaps x r)) T))
        (tot + r_size r - sum_size (filter (fun x => overlaps x r) T)),
     filter (fun x => overlaps x r) T).
Proof.
  intros D V. unfold update. cbn [items total].
  rewrite (get_overlaps_spec _ _ _ D V).
  rewrite (fold_delete _ _ _ (ds_ssorted _ D)). cbn [items total].
  assert (E : filter (fun y => negb (existsb (fun o => same o y) (filter (fun x => overlaps x r) T))) T
              = filter (fun x => negb (overlaps x r)) T).
  { apply filter_ext_in'. intros y Hy. f_equal.
    destruct (overlaps y r) eqn:O.
    - apply existsb_exists. exists y. split; [apply filter_In; auto|].
      unfold same. destruct (key_eqb_spec (r_start y) (r_start y)); congruence.
    - destruct (existsb _ _) eqn:X; [|reflexivity]. apply existsb_exists in X as (o & Ho & So).
      apply filter_In in Ho as [Ho Oo]. unfold same in So. destruct (key_eqb_spec (r_start y) (r_start o)) as [E|]; [|discriminate].
      rewrite (ssorted_in_eq _ _ _ (ds_ssorted _ D) Hy Ho E) in O. congruence. }
  rewrite E. rewrite l0_insert_ins; [reflexivity|].
  intros x Hx. eapply no_same_after_filter; eauto.
Qed.

Lemma ins_region_ds r L :
  ds L -> validP r -> (forall y, In y L -> overlaps y r = false) -> ds (ins_region r L).
Proof.
  intros [VL S] V NO. split.
  - rewrite Forall_forall in *. intros x Hx. apply ins_region_in in Hx as [->|Hx]; auto.
  - induction S as [|a L S IH F]; cbn.
    + constructor; constructor.
    + inversion VL as [|? ? Va VL']; subst.
      assert (NOa := NO a (or_introl eq_refl)).
      assert (NO' : forall y, In y L -> overlaps y r = false) by (intros y Hy; apply NO; right; exact Hy).
      apply validP_cases in V as V'. apply validP_cases in Va as Va'.
      rewrite Forall_forall in F.
      destruct (rlt_spec r a) as [L1|NL1]; unfold slt in *.
      * (* r goes first: r ends before a starts, hence before everything *)
        assert (Bra : before r a).
        { destruct (overlaps a r) eqn:O; [discriminate|].
          destruct (is_nil_spec (r_end r)) as [E|NE].
          - exfalso. rewrite (proj2 (overlaps_iff a r)) in O; [discriminate|]. split; [|auto].
            destruct Va'; [auto|right; korder].
          - split; [exact NE|]. destruct (key_leb_spec (r_end r) (r_start a)); [assumption|].
            exfalso. rewrite (proj2 (overlaps_iff a r)) in O; [discriminate|]. split; [destruct Va'; [auto|right; korder]|right; korder]. }
        constructor; [constructor; [exact S|rewrite Forall_forall; exact F]|].
        rewrite Forall_forall. intros y [<-|Hy]; [exact Bra|].
        destruct Bra as [N Lr]. specialize (F y Hy) as [Na La]. split; [exact N|].
        destruct Va'; [contradiction|]. korder.
      * (* a stays first and ends before r starts *)
        assert (Bar : before a r).
        { destruct (overlaps a r) eqn:O; [discriminate|].
          destruct (is_nil_spec (r_end a)) as [E|NE].
          - exfalso. rewrite (proj2 (overlaps_iff a r)) in O; [discriminate|]. split; [auto|].
            destruct V'; [auto|right; korder].
          - split; [exact NE|]. destruct (key_leb_spec (r_end a) (r_start r)); [assumption|].
            exfalso. rewrite (proj2 (overlaps_iff a r)) in O; [discriminate|]. split; [right; korder|destruct V'; [auto|right; korder]]. }
        constructor; [apply IH; auto|].
        rewrite Forall_forall. intros y Hy. apply ins_region_in in Hy as [->|Hy]; [exact Bar|auto].
Qed.

Lemma update_ds T r : ds T -> validP r -> ds (ins_region r (filter (fun x => negb (overlaps x r)) T)).
Proof.
  intros D V. apply ins_region_ds; [apply ds_filter, D|exact V|].
  intros y Hy. apply filter_In in Hy as [_ H]. apply negb_true_iff in H. exact H.
Qed.

(* ---- remove ---- *)
Lemma rt_len_zero T tot : (rt_len (RT T tot) =? 0) = true -> T = [].
Proof. unfold rt_len; cbn. destruct T; [reflexivity|]. cbn. intros H. discriminate H. Qed.

Lemma remove_sub T q tot x :
  ds T -> In x T ->
  remove (RT (filter q T) tot) x =
    RT (filter (fun y => q y && negb (same x y)) T) (tot - if q x then r_size x else 0).
Proof.
  intros D Hx. pose proof (ds_filter q _ D) as DF.
  unfold remove. destruct (rt_len (RT (filter q T) tot) =? 0) eqn:Z0.
  - apply rt_len_zero in Z0.
    assert (Q : q x = false).
    { destruct (q x) eqn:Q; [|reflexivity]. assert (In x (filter q T)) by (apply filter_In; auto). rewrite Z0 in H. destruct H. }
    rewrite Q. f_equal; [|lia]. rewrite Z0. symmetry. apply filter_false_nil. intros y Hy.
    destruct (q y) eqn:Qy; [|reflexivity]. assert (In y (filter q T)) by (apply filter_In; auto). rewrite Z0 in H. destruct H.
  - destruct (q x) eqn:Q.
    + assert (HxF : In x (filter q T)) by (apply filter_In; auto).
      rewrite (find_complete _ _ _ _ DF HxF (valid_contains_start _ (ds_valid _ _ D Hx))).
      rewrite Z.eqb_refl. cbn [items total]. rewrite (l0_delete_filter _ _ (ds_ssorted _ DF)), filter_filter. reflexivity.
    + destruct (find (RT (filter q T) tot) x) as [f|] eqn:F.
      * exfalso. apply find_some in F as [Hf Cf]; [|exact DF]. apply filter_In in Hf as [Hf Qf].
        rewrite (ds_contains_unique _ _ _ _ D Hx Hf (valid_contains_start _ (ds_valid _ _ D Hx)) Cf) in Q. congruence.
      * f_equal; [|lia]. apply filter_ext_in'. intros y Hy. destruct (q y) eqn:Qy; [|reflexivity]. cbn.
        unfold same. destruct (key_eqb_spec (r_start y) (r_start x)) as [E|]; [|reflexivity].
        rewrite (ssorted_in_eq _ _ _ (ds_ssorted _ D) Hy Hx E) in Qy. congruence.
Qed.

Lemma remove_noop T tot x :
  ds T -> (forall y, In y T -> r_id y <> r_id x) -> remove (RT T tot) x = RT T tot.
Proof.
  intros D H. unfold remove. destruct (rt_len (RT T tot) =? 0); [reflexivity|].
  destruct (find (RT T tot) x) as [f|] eqn:F; [|reflexivity].
  apply find_some in F as [Hf _]; [|exact D].
  destruct (Z.eqb_spec (r_id f) (r_id x)) as [E|]; [|reflexivity]. exfalso. eapply H; eauto.
Qed.

(* ---- search / scan ---- *)
Lemma search_spec T tot k x :
  ds T -> (search (RT T tot) k = Some x <-> In x T /\ contains x k = true).
Proof.
  intros D. unfold search. split.
  - intros H. apply find_some in H; [|exact D]. exact H.
  - intros [Hx C]. apply find_complete; auto.
Qed.

Lemma search_none T tot k : ds T -> search (RT T tot) k = None -> forall x, In x T -> contains x k = false.
Proof. intros D H. apply (find_none _ _ (tmp k) D H). Qed.

Lemma scan_range_spec T tot k : ds T -> scan_range (RT T tot) k = filter (ends_after k) T.
Proof. intros D. unfold scan_range. cbn [items]. apply (ascend_from_find T tot (tmp k) D). Qed.

Lemma sum_size_app a b : sum_size (a ++ b) = sum_size a + sum_size b.
Proof. induction a as [|x a IH]; cbn; [reflexivity|]. unfold sum_size in *. cbn. rewrite IH. lia. Qed.

Lemma sum_size_perm a b : Permutation a b -> sum_size a = sum_size b.
Proof. induction 1; unfold sum_size in *; cbn; lia. Qed.

Lemma sum_size_filter_split p T : sum_size T = sum_size (filter p T) + sum_size (filter (fun x => negb (p x)) T).
Proof.
  induction T as [|a T IH]; cbn; [reflexivity|]. unfold sum_size in *.
  destruct (p a); cbn; lia.
Qed.
