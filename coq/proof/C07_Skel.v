(* C07 — structural obligations on the code as it is now (regenerated gen/Gen_C07.v).
   model/C07_Region.v transcribes region_tree.go and the RegionsInfo part of region.go; model/C07_BTreeSpec.v
   specifies pkg/btree and proof/C07_BTree.v models its order statistics.  The models were written against exactly
   these function bodies: any token change in one of them breaks the `reflexivity` below, and the check then
   searches for a failing input (DESIGN.md section 4). *)
From Coq Require Import ZArith List String.
From PDV Require Import gen.Gen_C07.
Import ListNotations.
Open Scope string_scope.

(* btree.New panics below degree 2; the driver exercises pkg/btree with exactly these degrees *)
Lemma degree_ok : (2 <= defaultBTreeDegree)%Z.
Proof. vm_compute. discriminate. Qed.
Lemma degree_tested : In defaultBTreeDegree [2; 3; 4; 64]%Z.
Proof. vm_compute. tauto. Qed.

(* server/core/region_tree.go: (regionTree).length, body *)
Lemma src_tree_length_ok : src_tree_length =
  "{ if t == nil { return 0 } return t.tree.Len() }".
Proof. reflexivity. Qed.

(* server/core/region_tree.go: (regionTree).getOverlaps, body *)
Lemma src_tree_getOverlaps_ok : src_tree_getOverlaps =
  "{ item := &regionItem{region: region} result := t.find(region) if result == nil { result = item } var overlaps []*RegionInfo t.tree.AscendGreaterOrEqual(result, func(i btree.Item) bool { over := i.(*regionItem) if len(region.GetEndKey()) > 0 && bytes.Compare(region.GetEndKey(), over.region.GetStartKey()) <= 0 { return false } overlaps = append(overlaps, over.region) return true }) return overlaps }".
Proof. reflexivity. Qed.

(* server/core/region_tree.go: (regionTree).update, body *)
Lemma src_tree_update_ok : src_tree_update =
  "{ region := item.region t.totalSize += region.approximateSize overlaps := t.getOverlaps(region) for _, old := range overlaps { log.Debug(""overlapping region"", zap.Uint64(""region-id"", old.GetID()), logutil.ZapRedactStringer(""delete-region"", RegionToHexMeta(old.GetMeta())), logutil.ZapRedactStringer(""update-region"", RegionToHexMeta(region.GetMeta()))) t.tree.Delete(&regionItem{old}) t.totalSize -= old.approximateSize } t.tree.ReplaceOrInsert(item) return overlaps }".
Proof. reflexivity. Qed.

(* server/core/region_tree.go: (regionTree).updateStat, body *)
Lemma src_tree_updateStat_ok : src_tree_updateStat =
  "{ t.totalSize += region.approximateSize t.totalSize -= origin.approximateSize }".
Proof. reflexivity. Qed.

(* server/core/region_tree.go: (regionTree).remove, body *)
Lemma src_tree_remove_ok : src_tree_remove =
  "{ if t.length() == 0 { return nil } result := t.find(region) if result == nil || result.region.GetID() != region.GetID() { return nil } t.totalSize -= region.approximateSize return t.tree.Delete(result) }".
Proof. reflexivity. Qed.

(* server/core/region_tree.go: (regionTree).search, body *)
Lemma src_tree_search_ok : src_tree_search =
  "{ region := &RegionInfo{meta: &metapb.Region{StartKey: regionKey}} result := t.find(region) if result == nil { return nil } return result.region }".
Proof. reflexivity. Qed.

(* server/core/region_tree.go: (regionTree).searchPrev, body *)
Lemma src_tree_searchPrev_ok : src_tree_searchPrev =
  "{ curRegion := &RegionInfo{meta: &metapb.Region{StartKey: regionKey}} curRegionItem := t.find(curRegion) if curRegionItem == nil { return nil } prevRegionItem, _ := t.getAdjacentRegions(curRegionItem.region) if prevRegionItem == nil { return nil } if !bytes.Equal(prevRegionItem.region.GetEndKey(), curRegionItem.region.GetStartKey()) { return nil } return prevRegionItem.region }".
Proof. reflexivity. Qed.

(* server/core/region_tree.go: (regionTree).find, body *)
Lemma src_tree_find_ok : src_tree_find =
  "{ item := &regionItem{region: region} var result *regionItem t.tree.DescendLessOrEqual(item, func(i btree.Item) bool { result = i.(*regionItem) return false }) if result == nil || !result.Contains(region.GetStartKey()) { return nil } return result }".
Proof. reflexivity. Qed.

(* server/core/region_tree.go: (regionTree).scanRange, body *)
Lemma src_tree_scanRange_ok : src_tree_scanRange =
  "{ region := &RegionInfo{meta: &metapb.Region{StartKey: startKey}} startItem := t.find(region) if startItem == nil { startItem = &regionItem{region: &RegionInfo{meta: &metapb.Region{StartKey: startKey}}} } t.tree.AscendGreaterOrEqual(startItem, func(item btree.Item) bool { return f(item.(*regionItem).region) }) }".
Proof. reflexivity. Qed.

(* server/core/region_tree.go: (regionTree).scanRanges, body *)
Lemma src_tree_scanRanges_ok : src_tree_scanRanges =
  "{ if t.length() == 0 { return nil } var res []*RegionInfo t.scanRange([]byte(""""), func(region *RegionInfo) bool { res = append(res, region) return true }) return res }".
Proof. reflexivity. Qed.

(* server/core/region_tree.go: (regionTree).getAdjacentRegions, body *)
Lemma src_tree_getAdjacentRegions_ok : src_tree_getAdjacentRegions =
  "{ item := &regionItem{region: &RegionInfo{meta: &metapb.Region{StartKey: region.GetStartKey()}}} var prev, next *regionItem t.tree.AscendGreaterOrEqual(item, func(i btree.Item) bool { if bytes.Equal(item.region.GetStartKey(), i.(*regionItem).region.GetStartKey()) { return true } next = i.(*regionItem) return false }) t.tree.DescendLessOrEqual(item, func(i btree.Item) bool { if bytes.Equal(item.region.GetStartKey(), i.(*regionItem).region.GetStartKey()) { return true } prev = i.(*regionItem) return false }) return prev, next }".
Proof. reflexivity. Qed.

(* server/core/region_tree.go: (regionTree).RandomRegion, body *)
Lemma src_tree_RandomRegion_ok : src_tree_RandomRegion =
  "{ if t.length() == 0 { return nil } if len(ranges) == 0 { ranges = []KeyRange{NewKeyRange("""", """")} } for _, i := range rand.Perm(len(ranges)) { var endIndex int startKey, endKey := ranges[i].StartKey, ranges[i].EndKey startRegion, startIndex := t.tree.GetWithIndex(&regionItem{region: &RegionInfo{meta: &metapb.Region{StartKey: startKey}}}) if len(endKey) != 0 { _, endIndex = t.tree.GetWithIndex(&regionItem{region: &RegionInfo{meta: &metapb.Region{StartKey: endKey}}}) } else { endIndex = t.tree.Len() } if startIndex != 0 && startRegion == nil && t.tree.GetAt(startIndex-1).(*regionItem).Contains(startKey) { startIndex-- } if endIndex <= startIndex { if len(endKey) > 0 && bytes.Compare(startKey, endKey) > 0 { log.Error(""wrong range keys"", logutil.ZapRedactString(""start-key"", string(HexRegionKey(startKey))), logutil.ZapRedactString(""end-key"", string(HexRegionKey(endKey))), errs.ZapError(errs.ErrWrongRangeKeys)) } continue } index := rand.Intn(endIndex-startIndex) + startIndex region := t.tree.GetAt(index).(*regionItem).region if isInvolved(region, startKey, endKey) { return region } } return nil }".
Proof. reflexivity. Qed.

(* server/core/region_tree.go: (regionTree).TotalSize, body *)
Lemma src_tree_TotalSize_ok : src_tree_TotalSize =
  "{ if t.length() == 0 { return 0 } return t.totalSize }".
Proof. reflexivity. Qed.

(* server/core/region_tree.go: ().newRegionTree, body *)
Lemma src_newRegionTree_ok : src_newRegionTree =
  "{ return &regionTree{ tree: btree.New(defaultBTreeDegree), totalSize: 0, } }".
Proof. reflexivity. Qed.

(* server/core/region.go: (RegionsInfo).GetRegion, body *)
Lemma src_ri_GetRegion_ok : src_ri_GetRegion =
  "{ if item := r.regions.Get(regionID); item != nil { return item.region } return nil }".
Proof. reflexivity. Qed.

(* server/core/region.go: (RegionsInfo).SetRegion, body *)
Lemma src_ri_SetRegion_ok : src_ri_SetRegion =
  "{ var item *regionItem // Pointer to the *RegionInfo of this ID. var origin *RegionInfo // This is the original region information of this ID. var rangeChanged bool // This Region is new, or its range has changed. var peersChanged bool // This Region is new, or its peers have changed, including leader-change/pending/down. if item = r.regions.Get(region.GetID()); item != nil { origin = item.region rangeChanged = !bytes.Equal(origin.GetStartKey(), region.GetStartKey()) || !bytes.Equal(origin.GetEndKey(), region.GetEndKey()) if rangeChanged { r.tree.remove(origin) peersChanged = true } else { peersChanged = r.shouldRemoveFromSubTree(region, origin) } if peersChanged { r.removeRegionFromSubTree(origin) } item.region = region } else { rangeChanged = true peersChanged = true item = r.regions.AddNew(region) } if !rangeChanged { r.tree.updateStat(origin, region) } else { overlaps = r.tree.update(item) for _, old := range overlaps { r.RemoveRegion(r.GetRegion(old.GetID())) } } if !peersChanged { r.updateSubTreeStat(origin, region) } else { for _, peer := range region.GetVoters() { storeID := peer.GetStoreId() if peer.GetId() == region.leader.GetId() { store, ok := r.leaders[storeID] if !ok { store = newRegionTree() r.leaders[storeID] = store } store.update(item) } else { store, ok := r.followers[storeID] if !ok { store = newRegionTree() r.followers[storeID] = store } store.update(item) } } for _, peer := range region.GetLearners() { storeID := peer.GetStoreId() store, ok := r.learners[storeID] if !ok { store = newRegionTree() r.learners[storeID] = store } store.update(item) } for _, peer := range region.GetPendingPeers() { storeID := peer.GetStoreId() store, ok := r.pendingPeers[storeID] if !ok { store = newRegionTree() r.pendingPeers[storeID] = store } store.update(item) } } return }".
Proof. reflexivity. Qed.

(* server/core/region.go: (RegionsInfo).updateSubTreeStat, body *)
Lemma src_ri_updateSubTreeStat_ok : src_ri_updateSubTreeStat =
  "{ for _, peer := range region.GetVoters() { storeID := peer.GetStoreId() if peer.GetId() == region.leader.GetId() { if tree, ok := r.leaders[storeID]; ok { tree.updateStat(origin, region) } } else { if tree, ok := r.followers[storeID]; ok { tree.updateStat(origin, region) } } } for _, peer := range region.GetLearners() { if tree, ok := r.learners[peer.GetStoreId()]; ok { tree.updateStat(origin, region) } } for _, peer := range region.GetPendingPeers() { if tree, ok := r.pendingPeers[peer.GetStoreId()]; ok { tree.updateStat(origin, region) } } }".
Proof. reflexivity. Qed.

(* server/core/region.go: (RegionsInfo).GetOverlaps, body *)
Lemma src_ri_GetOverlaps_ok : src_ri_GetOverlaps =
  "{ return r.tree.getOverlaps(region) }".
Proof. reflexivity. Qed.

(* server/core/region.go: (RegionsInfo).RemoveRegion, body *)
Lemma src_ri_RemoveRegion_ok : src_ri_RemoveRegion =
  "{ r.tree.remove(region) r.regions.Delete(region.GetID()) r.removeRegionFromSubTree(region) }".
Proof. reflexivity. Qed.

(* server/core/region.go: (RegionsInfo).removeRegionFromSubTree, body *)
Lemma src_ri_removeRegionFromSubTree_ok : src_ri_removeRegionFromSubTree =
  "{ for _, peer := range region.meta.GetPeers() { storeID := peer.GetStoreId() r.leaders[storeID].remove(region) r.followers[storeID].remove(region) r.learners[storeID].remove(region) r.pendingPeers[storeID].remove(region) } }".
Proof. reflexivity. Qed.

(* server/core/region.go: (RegionsInfo).SearchRegion, body *)
Lemma src_ri_SearchRegion_ok : src_ri_SearchRegion =
  "{ region := r.tree.search(regionKey) if region == nil { return nil } return r.GetRegion(region.GetID()) }".
Proof. reflexivity. Qed.

(* server/core/region.go: (RegionsInfo).SearchPrevRegion, body *)
Lemma src_ri_SearchPrevRegion_ok : src_ri_SearchPrevRegion =
  "{ region := r.tree.searchPrev(regionKey) if region == nil { return nil } return r.GetRegion(region.GetID()) }".
Proof. reflexivity. Qed.

(* server/core/region.go: (RegionsInfo).ScanRange, body *)
Lemma src_ri_ScanRange_ok : src_ri_ScanRange =
  "{ var res []*RegionInfo r.tree.scanRange(startKey, func(region *RegionInfo) bool { if len(endKey) > 0 && bytes.Compare(region.GetStartKey(), endKey) >= 0 { return false } if limit > 0 && len(res) >= limit { return false } res = append(res, r.GetRegion(region.GetID())) return true }) return res }".
Proof. reflexivity. Qed.

(* server/core/region.go: (RegionsInfo).GetAdjacentRegions, body *)
Lemma src_ri_GetAdjacentRegions_ok : src_ri_GetAdjacentRegions =
  "{ p, n := r.tree.getAdjacentRegions(region) var prev, next *RegionInfo if p != nil && bytes.Equal(p.region.GetEndKey(), region.GetStartKey()) { prev = r.GetRegion(p.region.GetID()) } if n != nil && bytes.Equal(region.GetEndKey(), n.region.GetStartKey()) { next = r.GetRegion(n.region.GetID()) } return prev, next }".
Proof. reflexivity. Qed.

(* server/core/region.go: (RegionsInfo).GetAverageRegionSize, body *)
Lemma src_ri_GetAverageRegionSize_ok : src_ri_GetAverageRegionSize =
  "{ if r.tree.length() == 0 { return 0 } return r.tree.TotalSize() / int64(r.tree.length()) }".
Proof. reflexivity. Qed.

(* server/core/region.go: (RegionsInfo).GetStoreRegions, body *)
Lemma src_ri_GetStoreRegions_ok : src_ri_GetStoreRegions =
  "{ regions := make([]*RegionInfo, 0, r.GetStoreRegionCount(storeID)) if leaders, ok := r.leaders[storeID]; ok { regions = append(regions, leaders.scanRanges()...) } if followers, ok := r.followers[storeID]; ok { regions = append(regions, followers.scanRanges()...) } if learners, ok := r.learners[storeID]; ok { regions = append(regions, learners.scanRanges()...) } return regions }".
Proof. reflexivity. Qed.

(* server/core/region.go: (RegionsInfo).GetStoreLeaderCount, body *)
Lemma src_ri_GetStoreLeaderCount_ok : src_ri_GetStoreLeaderCount =
  "{ return r.leaders[storeID].length() }".
Proof. reflexivity. Qed.

(* server/core/region.go: (RegionsInfo).GetStoreFollowerCount, body *)
Lemma src_ri_GetStoreFollowerCount_ok : src_ri_GetStoreFollowerCount =
  "{ return r.followers[storeID].length() }".
Proof. reflexivity. Qed.

(* server/core/region.go: (RegionsInfo).GetStoreLearnerCount, body *)
Lemma src_ri_GetStoreLearnerCount_ok : src_ri_GetStoreLearnerCount =
  "{ return r.learners[storeID].length() }".
Proof. reflexivity. Qed.

(* server/core/region.go: (RegionsInfo).GetStorePendingPeerCount, body *)
Lemma src_ri_GetStorePendingPeerCount_ok : src_ri_GetStorePendingPeerCount =
  "{ return r.pendingPeers[storeID].length() }".
Proof. reflexivity. Qed.

(* server/core/region.go: (RegionsInfo).GetStoreLeaderRegionSize, body *)
Lemma src_ri_GetStoreLeaderRegionSize_ok : src_ri_GetStoreLeaderRegionSize =
  "{ return r.leaders[storeID].TotalSize() }".
Proof. reflexivity. Qed.

(* server/core/region.go: (RegionsInfo).GetStoreFollowerRegionSize, body *)
Lemma src_ri_GetStoreFollowerRegionSize_ok : src_ri_GetStoreFollowerRegionSize =
  "{ return r.followers[storeID].TotalSize() }".
Proof. reflexivity. Qed.

(* server/core/region.go: (RegionsInfo).GetStoreLearnerRegionSize, body *)
Lemma src_ri_GetStoreLearnerRegionSize_ok : src_ri_GetStoreLearnerRegionSize =
  "{ return r.learners[storeID].TotalSize() }".
Proof. reflexivity. Qed.

(* server/core/region.go: (RegionsInfo).RandLeaderRegion, body *)
Lemma src_ri_RandLeaderRegion_ok : src_ri_RandLeaderRegion =
  "{ return r.leaders[storeID].RandomRegion(ranges) }".
Proof. reflexivity. Qed.

(* server/core/region.go: (RegionsInfo).RandFollowerRegion, body *)
Lemma src_ri_RandFollowerRegion_ok : src_ri_RandFollowerRegion =
  "{ return r.followers[storeID].RandomRegion(ranges) }".
Proof. reflexivity. Qed.

(* server/core/region.go: (RegionsInfo).RandLearnerRegion, body *)
Lemma src_ri_RandLearnerRegion_ok : src_ri_RandLearnerRegion =
  "{ return r.learners[storeID].RandomRegion(ranges) }".
Proof. reflexivity. Qed.

(* server/core/region.go: (RegionsInfo).RandPendingRegion, body *)
Lemma src_ri_RandPendingRegion_ok : src_ri_RandPendingRegion =
  "{ return r.pendingPeers[storeID].RandomRegion(ranges) }".
Proof. reflexivity. Qed.

(* server/core/region.go: (RegionsInfo).Len, body *)
Lemma src_ri_Len_ok : src_ri_Len =
  "{ return r.regions.Len() }".
Proof. reflexivity. Qed.

(* server/core/region.go: (RegionsInfo).TreeLen, body *)
Lemma src_ri_TreeLen_ok : src_ri_TreeLen =
  "{ return r.tree.length() }".
Proof. reflexivity. Qed.

(* server/core/region_tree.go: (regionItem).Less, body *)
Lemma src_item_Less_ok : src_item_Less =
  "{ left := r.region.GetStartKey() right := other.(*regionItem).region.GetStartKey() return bytes.Compare(left, right) < 0 }".
Proof. reflexivity. Qed.

(* server/core/region_tree.go: (regionItem).Contains, body *)
Lemma src_item_Contains_ok : src_item_Contains =
  "{ start, end := r.region.GetStartKey(), r.region.GetEndKey() return bytes.Compare(key, start) >= 0 && (len(end) == 0 || bytes.Compare(key, end) < 0) }".
Proof. reflexivity. Qed.

(* server/core/region.go: ().isInvolved, body *)
Lemma src_isInvolved_ok : src_isInvolved =
  "{ return bytes.Compare(region.GetStartKey(), startKey) >= 0 && (len(endKey) == 0 || (len(region.GetEndKey()) > 0 && bytes.Compare(region.GetEndKey(), endKey) <= 0)) }".
Proof. reflexivity. Qed.

(* server/core/region.go: (RegionsInfo).shouldRemoveFromSubTree, body *)
Lemma src_shouldRemoveFromSubTree_ok : src_shouldRemoveFromSubTree =
  "{ return origin.leader.GetId() != region.leader.GetId() || !SortedPeersEqual(origin.GetVoters(), region.GetVoters()) || !SortedPeersEqual(origin.GetLearners(), region.GetLearners()) || !SortedPeersEqual(origin.GetPendingPeers(), region.GetPendingPeers()) }".
Proof. reflexivity. Qed.

(* server/core/region.go: ().SortedPeersEqual, body *)
Lemma src_SortedPeersEqual_ok : src_SortedPeersEqual =
  "{ if len(peersA) != len(peersB) { return false } for i, peerA := range peersA { peerB := peersB[i] if peerA.GetStoreId() != peerB.GetStoreId() || peerA.GetId() != peerB.GetId() { return false } } return true }".
Proof. reflexivity. Qed.

(* server/core/region.go: (peerSlice).Less, body *)
Lemma src_peerSlice_Less_ok : src_peerSlice_Less =
  "{ return s[i].GetId() < s[j].GetId() }".
Proof. reflexivity. Qed.

(* server/core/region.go: ().classifyVoterAndLearner, body *)
Lemma src_classifyVoterAndLearner_ok : src_classifyVoterAndLearner =
  "{ learners := make([]*metapb.Peer, 0, 1) voters := make([]*metapb.Peer, 0, len(region.meta.Peers)) for _, p := range region.meta.Peers { if IsLearner(p) { learners = append(learners, p) } else { voters = append(voters, p) } } sort.Sort(peerSlice(learners)) sort.Sort(peerSlice(voters)) region.learners = learners region.voters = voters }".
Proof. reflexivity. Qed.

(* server/core/region.go: (regionMap).AddNew, body *)
Lemma src_regionMap_AddNew_ok : src_regionMap_AddNew =
  "{ item := &regionItem{region: region} rm[region.GetID()] = item return item }".
Proof. reflexivity. Qed.

(* server/core/region.go: (regionMap).Get, body *)
Lemma src_regionMap_Get_ok : src_regionMap_Get =
  "{ return rm[id] }".
Proof. reflexivity. Qed.

(* server/core/region.go: (regionMap).Delete, body *)
Lemma src_regionMap_Delete_ok : src_regionMap_Delete =
  "{ delete(rm, id) }".
Proof. reflexivity. Qed.

(* pkg/btree/btree.go: (items).find, body *)
Lemma src_bt_items_find_ok : src_bt_items_find =
  "{ i := sort.Search(len(s), func(i int) bool { return item.Less(s[i]) }) if i > 0 && !s[i-1].Less(item) { return i - 1, true } return i, false }".
Proof. reflexivity. Qed.

(* pkg/btree/btree.go: (indices).addAt, body *)
Lemma src_bt_indices_addAt_ok : src_bt_indices_addAt =
  "{ for i := index; i < len(*s); i++ { (*s)[i] += delta } }".
Proof. reflexivity. Qed.

(* pkg/btree/btree.go: (indices).insertAt, body *)
Lemma src_bt_indices_insertAt_ok : src_bt_indices_insertAt =
  "{ *s = append(*s, -1) for i := len(*s) - 1; i >= index && i > 0; i-- { (*s)[i] = (*s)[i-1] + sz + 1 } if index == 0 { (*s)[0] = sz } }".
Proof. reflexivity. Qed.

(* pkg/btree/btree.go: (indices).push, body *)
Lemma src_bt_indices_push_ok : src_bt_indices_push =
  "{ if len(*s) == 0 { *s = append(*s, sz) } else { *s = append(*s, (*s)[len(*s)-1]+1+sz) } }".
Proof. reflexivity. Qed.

(* pkg/btree/btree.go: (indices).split, body *)
Lemma src_bt_indices_split_ok : src_bt_indices_split =
  "{ s.insertAt(index+1, -1) (*s)[index] -= 1 + nextSize }".
Proof. reflexivity. Qed.

(* pkg/btree/btree.go: (indices).merge, body *)
Lemma src_bt_indices_merge_ok : src_bt_indices_merge =
  "{ for i := index; i < len(*s)-1; i++ { (*s)[i] = (*s)[i+1] } *s = (*s)[:len(*s)-1] }".
Proof. reflexivity. Qed.

(* pkg/btree/btree.go: (indices).removeAt, body *)
Lemma src_bt_indices_removeAt_ok : src_bt_indices_removeAt =
  "{ sz := (*s)[index] if index > 0 { sz = sz - (*s)[index-1] - 1 } for i := index + 1; i < len(*s); i++ { (*s)[i-1] = (*s)[i] - sz - 1 } *s = (*s)[:len(*s)-1] return sz }".
Proof. reflexivity. Qed.

(* pkg/btree/btree.go: (indices).pop, body *)
Lemma src_bt_indices_pop_ok : src_bt_indices_pop =
  "{ l := len(*s) out := (*s)[l-1] if l != 1 { out -= (*s)[l-2] + 1 } *s = (*s)[:len(*s)-1] return out }".
Proof. reflexivity. Qed.

(* pkg/btree/btree.go: (indices).find, body *)
Lemma src_bt_indices_find_ok : src_bt_indices_find =
  "{ i := sort.SearchInts(s, k) return i, s[i] == k }".
Proof. reflexivity. Qed.

(* pkg/btree/btree.go: (node).length, body *)
Lemma src_bt_node_length_ok : src_bt_node_length =
  "{ if len(n.indices) <= 0 { return len(n.items) } return n.indices[len(n.indices)-1] }".
Proof. reflexivity. Qed.

(* pkg/btree/btree.go: (node).initSize, body *)
Lemma src_bt_node_initSize_ok : src_bt_node_initSize =
  "{ l := len(n.children) if l <= 0 { n.indices.truncate(0) return } else if l <= cap(n.indices) { n.indices = n.indices[:l] } else { n.indices = make([]int, l) } n.indices[0] = n.children[0].length() for i := 1; i < l; i++ { n.indices[i] = n.indices[i-1] + 1 + n.children[i].length() } }".
Proof. reflexivity. Qed.

(* pkg/btree/btree.go: (node).split, body *)
Lemma src_bt_node_split_ok : src_bt_node_split =
  "{ item := n.items[i] next := n.cow.newNode() next.items = append(next.items, n.items[i+1:]...) n.items.truncate(i) if len(n.children) > 0 { next.children = append(next.children, n.children[i+1:]...) next.initSize() n.children.truncate(i + 1) n.indices.truncate(i + 1) } return item, next }".
Proof. reflexivity. Qed.

(* pkg/btree/btree.go: (node).maybeSplitChild, body *)
Lemma src_bt_node_maybeSplitChild_ok : src_bt_node_maybeSplitChild =
  "{ if len(n.children[i].items) < maxItems { return false } first := n.mutableChild(i) item, second := first.split(maxItems / 2) n.items.insertAt(i, item) n.children.insertAt(i+1, second) n.indices.split(i, second.length()) return true }".
Proof. reflexivity. Qed.

(* pkg/btree/btree.go: (node).insert, body *)
Lemma src_bt_node_insert_ok : src_bt_node_insert =
  "{ i, found := n.items.find(item) if found { out := n.items[i] n.items[i] = item return out } if len(n.children) == 0 { n.items.insertAt(i, item) return nil } if n.maybeSplitChild(i, maxItems) { inTree := n.items[i] switch { case item.Less(inTree): case inTree.Less(item): i++ default: out := n.items[i] n.items[i] = item return out } } out := n.mutableChild(i).insert(item, maxItems) if out == nil { n.indices.addAt(i, 1) } return out }".
Proof. reflexivity. Qed.

(* pkg/btree/btree.go: (node).getAt, body *)
Lemma src_bt_node_getAt_ok : src_bt_node_getAt =
  "{ if k >= n.length() || k < 0 { return nil } if len(n.children) == 0 { return n.items[k] } i, found := n.indices.find(k) if found { return n.items[i] } if i == 0 { return n.children[0].getAt(k) } return n.children[i].getAt(k - n.indices[i-1] - 1) }".
Proof. reflexivity. Qed.

(* pkg/btree/btree.go: (node).getWithIndex, body *)
Lemma src_bt_node_getWithIndex_ok : src_bt_node_getWithIndex =
  "{ i, found := n.items.find(key) if found { rk := i if len(n.indices) > 0 { rk = n.indices[i] } return n.items[i], rk } else if len(n.children) > 0 { out, rk := n.children[i].getWithIndex(key) if i > 0 { rk += n.indices[i-1] + 1 } return out, rk } return nil, i }".
Proof. reflexivity. Qed.

(* pkg/btree/btree.go: (node).remove, body *)
Lemma src_bt_node_remove_ok : src_bt_node_remove =
  "{ var i int var found bool switch typ { case removeMax: if len(n.children) == 0 { return n.items.pop() } i = len(n.items) case removeMin: if len(n.children) == 0 { return n.items.removeAt(0) } i = 0 case removeItem: i, found = n.items.find(item) if len(n.children) == 0 { if found { return n.items.removeAt(i) } return nil } default: panic(""invalid type"") } if len(n.children[i].items) <= minItems { return n.growChildAndRemove(i, item, minItems, typ) } child := n.mutableChild(i) if found { out = n.items[i] n.items[i] = child.remove(nil, minItems, removeMax) } else { out = child.remove(item, minItems, typ) } if out != nil { n.indices.addAt(i, -1) } return }".
Proof. reflexivity. Qed.

(* pkg/btree/btree.go: (node).growChildAndRemove, body *)
Lemma src_bt_node_growChildAndRemove_ok : src_bt_node_growChildAndRemove =
  "{ if i > 0 && len(n.children[i-1].items) > minItems { child := n.mutableChild(i) stealFrom := n.mutableChild(i - 1) stolenItem := stealFrom.items.pop() child.items.insertAt(0, n.items[i-1]) n.items[i-1] = stolenItem n.indices[i-1] -= 1 if len(stealFrom.children) > 0 { child.children.insertAt(0, stealFrom.children.pop()) stealSize := stealFrom.indices.pop() n.indices[i-1] -= stealSize child.indices.insertAt(0, stealSize) } } else if i < len(n.items) && len(n.children[i+1].items) > minItems { child := n.mutableChild(i) stealFrom := n.mutableChild(i + 1) stolenItem := stealFrom.items.removeAt(0) child.items = append(child.items, n.items[i]) n.items[i] = stolenItem n.indices[i] += 1 if len(stealFrom.children) > 0 { child.children = append(child.children, stealFrom.children.removeAt(0)) stealSize := stealFrom.indices.removeAt(0) n.indices[i] += stealSize child.indices.push(stealSize) } } else { if i >= len(n.items) { i-- } child := n.mutableChild(i) mergeItem := n.items.removeAt(i) mergeChild := n.children.removeAt(i + 1) child.items = append(child.items, mergeItem) child.items = append(child.items, mergeChild.items...) child.children = append(child.children, mergeChild.children...) for _, nn := range mergeChild.children { child.indices.push(nn.length()) } n.indices.merge(i) n.cow.freeNode(mergeChild) } return n.remove(item, minItems, typ) }".
Proof. reflexivity. Qed.

(* pkg/btree/btree.go: (node).iterate, body *)
Lemma src_bt_node_iterate_ok : src_bt_node_iterate =
  "{ var ok, found bool var index int switch dir { case ascend: if start != nil { index, _ = n.items.find(start) } for i := index; i < len(n.items); i++ { if len(n.children) > 0 { if hit, ok = n.children[i].iterate(dir, start, stop, includeStart, hit, iter); !ok { return hit, false } } if !includeStart && !hit && start != nil && !start.Less(n.items[i]) { hit = true continue } hit = true if stop != nil && !n.items[i].Less(stop) { return hit, false } if !iter(n.items[i]) { return hit, false } } if len(n.children) > 0 { if hit, ok = n.children[len(n.children)-1].iterate(dir, start, stop, includeStart, hit, iter); !ok { return hit, false } } case descend: if start != nil { index, found = n.items.find(start) if !found { index = index - 1 } } else { index = len(n.items) - 1 } for i := index; i >= 0; i-- { if start != nil && !n.items[i].Less(start) { if !includeStart || hit || start.Less(n.items[i]) { continue } } if len(n.children) > 0 { if hit, ok = n.children[i+1].iterate(dir, start, stop, includeStart, hit, iter); !ok { return hit, false } } if stop != nil && !stop.Less(n.items[i]) { return hit, false } hit = true if !iter(n.items[i]) { return hit, false } } if len(n.children) > 0 { if hit, ok = n.children[0].iterate(dir, start, stop, includeStart, hit, iter); !ok { return hit, false } } } return hit, true }".
Proof. reflexivity. Qed.

(* pkg/btree/btree.go: (BTree).ReplaceOrInsert, body *)
Lemma src_bt_ReplaceOrInsert_ok : src_bt_ReplaceOrInsert =
  "{ if item == nil { panic(""nil item being added to BTree"") } if t.root == nil { t.root = t.cow.newNode() t.root.items = append(t.root.items, item) t.length++ return nil } t.root = t.root.mutableFor(t.cow) if len(t.root.items) >= t.maxItems() { item2, second := t.root.split(t.maxItems() / 2) oldroot := t.root t.root = t.cow.newNode() t.root.items = append(t.root.items, item2) t.root.children = append(t.root.children, oldroot, second) t.root.initSize() } out := t.root.insert(item, t.maxItems()) if out == nil { t.length++ } return out }".
Proof. reflexivity. Qed.

(* pkg/btree/btree.go: (BTree).deleteItem, body *)
Lemma src_bt_deleteItem_ok : src_bt_deleteItem =
  "{ if t.root == nil || len(t.root.items) == 0 { return nil } t.root = t.root.mutableFor(t.cow) out := t.root.remove(item, t.minItems(), typ) if len(t.root.items) == 0 && len(t.root.children) > 0 { oldroot := t.root t.root = t.root.children[0] t.cow.freeNode(oldroot) } if out != nil { t.length-- } return out }".
Proof. reflexivity. Qed.

(* pkg/btree/btree.go: (BTree).maxItems, body *)
Lemma src_bt_maxItems_ok : src_bt_maxItems =
  "{ return t.degree*2 - 1 }".
Proof. reflexivity. Qed.

(* pkg/btree/btree.go: (BTree).minItems, body *)
Lemma src_bt_minItems_ok : src_bt_minItems =
  "{ return t.degree - 1 }".
Proof. reflexivity. Qed.

(* pkg/btree/btree.go: (BTree).GetWithIndex, body *)
Lemma src_bt_GetWithIndex_ok : src_bt_GetWithIndex =
  "{ if t.root == nil { return nil, 0 } return t.root.getWithIndex(key) }".
Proof. reflexivity. Qed.

(* pkg/btree/btree.go: (BTree).GetAt, body *)
Lemma src_bt_GetAt_ok : src_bt_GetAt =
  "{ if t.root == nil { return nil } return t.root.getAt(k) }".
Proof. reflexivity. Qed.

(* pkg/btree/btree.go: (BTree).AscendGreaterOrEqual, body *)
Lemma src_bt_AscendGreaterOrEqual_ok : src_bt_AscendGreaterOrEqual =
  "{ if t.root == nil { return } t.root.iterate(ascend, pivot, nil, true, false, iterator) }".
Proof. reflexivity. Qed.

(* pkg/btree/btree.go: (BTree).DescendLessOrEqual, body *)
Lemma src_bt_DescendLessOrEqual_ok : src_bt_DescendLessOrEqual =
  "{ if t.root == nil { return } t.root.iterate(descend, pivot, nil, true, false, iterator) }".
Proof. reflexivity. Qed.

(* ---- the rest of pkg/btree that model/C07_BTree.v transcribes (the Gallina B-tree of the refinement proof) ---- *)
(* pkg/btree/btree.go: (items).insertAt, body *)
Lemma src_bt_items_insertAt_ok : Gen_C07.src_bt_items_insertAt =
  "{ *s = append(*s, nil) if index < len(*s) { copy((*s)[index+1:], (*s)[index:]) } (*s)[index] = item }".
Proof. reflexivity. Qed.

(* pkg/btree/btree.go: (items).removeAt, body *)
Lemma src_bt_items_removeAt_ok : Gen_C07.src_bt_items_removeAt =
  "{ item := (*s)[index] copy((*s)[index:], (*s)[index+1:]) (*s)[len(*s)-1] = nil *s = (*s)[:len(*s)-1] return item }".
Proof. reflexivity. Qed.

(* pkg/btree/btree.go: (items).pop, body *)
Lemma src_bt_items_pop_ok : Gen_C07.src_bt_items_pop =
  "{ index := len(*s) - 1 out = (*s)[index] (*s)[index] = nil *s = (*s)[:index] return }".
Proof. reflexivity. Qed.

(* pkg/btree/btree.go: (items).truncate, body *)
Lemma src_bt_items_truncate_ok : Gen_C07.src_bt_items_truncate =
  "{ var toClear items *s, toClear = (*s)[:index], (*s)[index:] for len(toClear) > 0 { toClear = toClear[copy(toClear, nilItems):] } }".
Proof. reflexivity. Qed.

(* pkg/btree/btree.go: (children).insertAt, body *)
Lemma src_bt_children_insertAt_ok : Gen_C07.src_bt_children_insertAt =
  "{ *s = append(*s, nil) if index < len(*s) { copy((*s)[index+1:], (*s)[index:]) } (*s)[index] = n }".
Proof. reflexivity. Qed.

(* pkg/btree/btree.go: (children).removeAt, body *)
Lemma src_bt_children_removeAt_ok : Gen_C07.src_bt_children_removeAt =
  "{ n := (*s)[index] copy((*s)[index:], (*s)[index+1:]) (*s)[len(*s)-1] = nil *s = (*s)[:len(*s)-1] return n }".
Proof. reflexivity. Qed.

(* pkg/btree/btree.go: (children).pop, body *)
Lemma src_bt_children_pop_ok : Gen_C07.src_bt_children_pop =
  "{ index := len(*s) - 1 out = (*s)[index] (*s)[index] = nil *s = (*s)[:index] return }".
Proof. reflexivity. Qed.

(* pkg/btree/btree.go: (children).truncate, body *)
Lemma src_bt_children_truncate_ok : Gen_C07.src_bt_children_truncate =
  "{ var toClear children *s, toClear = (*s)[:index], (*s)[index:] for len(toClear) > 0 { toClear = toClear[copy(toClear, nilChildren):] } }".
Proof. reflexivity. Qed.

(* pkg/btree/btree.go: (indices).truncate, body *)
Lemma src_bt_indices_truncate_ok : Gen_C07.src_bt_indices_truncate =
  "{ *s = (*s)[:index] }".
Proof. reflexivity. Qed.

(* pkg/btree/btree.go: (node).mutableFor, body *)
Lemma src_bt_node_mutableFor_ok : Gen_C07.src_bt_node_mutableFor =
  "{ if n.cow == cow { return n } out := cow.newNode() if cap(out.items) >= len(n.items) { out.items = out.items[:len(n.items)] } else { out.items = make(items, len(n.items), cap(n.items)) } copy(out.items, n.items) if cap(out.children) >= len(n.children) { out.children = out.children[:len(n.children)] } else { out.children = make(children, len(n.children), cap(n.children)) } copy(out.children, n.children) if cap(out.indices) >= len(n.indices) { out.indices = out.indices[:len(n.indices)] } else { out.indices = make(indices, len(n.indices), cap(n.indices)) } copy(out.indices, n.indices) return out }".
Proof. reflexivity. Qed.

(* pkg/btree/btree.go: (node).mutableChild, body *)
Lemma src_bt_node_mutableChild_ok : Gen_C07.src_bt_node_mutableChild =
  "{ c := n.children[i].mutableFor(n.cow) n.children[i] = c return c }".
Proof. reflexivity. Qed.

(* pkg/btree/btree.go: (node).get, body *)
Lemma src_bt_node_get_ok : Gen_C07.src_bt_node_get =
  "{ i, found := n.items.find(key) if found { return n.items[i] } else if len(n.children) > 0 { return n.children[i].get(key) } return nil }".
Proof. reflexivity. Qed.

(* pkg/btree/btree.go: ().min, body *)
Lemma src_bt_min_ok : Gen_C07.src_bt_min =
  "{ if n == nil { return nil } for len(n.children) > 0 { n = n.children[0] } if len(n.items) == 0 { return nil } return n.items[0] }".
Proof. reflexivity. Qed.

(* pkg/btree/btree.go: ().max, body *)
Lemma src_bt_max_ok : Gen_C07.src_bt_max =
  "{ if n == nil { return nil } for len(n.children) > 0 { n = n.children[len(n.children)-1] } if len(n.items) == 0 { return nil } return n.items[len(n.items)-1] }".
Proof. reflexivity. Qed.

(* pkg/btree/btree.go: (BTree).Delete, body *)
Lemma src_bt_Delete_ok : Gen_C07.src_bt_Delete =
  "{ return t.deleteItem(item, removeItem) }".
Proof. reflexivity. Qed.

(* pkg/btree/btree.go: (BTree).DeleteMin, body *)
Lemma src_bt_DeleteMin_ok : Gen_C07.src_bt_DeleteMin =
  "{ return t.deleteItem(nil, removeMin) }".
Proof. reflexivity. Qed.

(* pkg/btree/btree.go: (BTree).DeleteMax, body *)
Lemma src_bt_DeleteMax_ok : Gen_C07.src_bt_DeleteMax =
  "{ return t.deleteItem(nil, removeMax) }".
Proof. reflexivity. Qed.

(* pkg/btree/btree.go: (BTree).Get, body *)
Lemma src_bt_Get_ok : Gen_C07.src_bt_Get =
  "{ if t.root == nil { return nil } return t.root.get(key) }".
Proof. reflexivity. Qed.

(* pkg/btree/btree.go: (BTree).Min, body *)
Lemma src_bt_Min_ok : Gen_C07.src_bt_Min =
  "{ return min(t.root) }".
Proof. reflexivity. Qed.

(* pkg/btree/btree.go: (BTree).Max, body *)
Lemma src_bt_Max_ok : Gen_C07.src_bt_Max =
  "{ return max(t.root) }".
Proof. reflexivity. Qed.

(* pkg/btree/btree.go: (BTree).Len, body *)
Lemma src_bt_Len_ok : Gen_C07.src_bt_Len =
  "{ return t.length }".
Proof. reflexivity. Qed.

(* pkg/btree/btree.go: (BTree).getRootLength, body *)
Lemma src_bt_getRootLength_ok : Gen_C07.src_bt_getRootLength =
  "{ if t.root == nil { return 0 } return t.root.length() }".
Proof. reflexivity. Qed.
