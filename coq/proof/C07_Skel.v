(* C07 — structural obligations on the code as it is now (regenerated gen/Gen_C07.v).
   model/C07_Region.v transcribes region_tree.go and the RegionsInfo part of region.go; model/C07_BTreeSpec.v
   specifies pkg/btree and proof/C07_BTree.v models its order statistics.  The models were written against exactly
   these function bodies: any token change in one of them breaks the `reflexivity` below, and the check then
   searches for a failing input (DESIGN.md section 4). *)
From Coq Require Import ZArith List String.
From PDV Require Import gen.Gen_C07.
Import ListNotations.
Open Scope string_scope.

(* btree.New panics below degree 2; the driver exercises pkg/btree with exactly these degrees *)
Lemma degree_ok : (2 <= defaultBTreeDegree)%Z.
Proof. vm_compute. discriminate. Qed.
Lemma degree_tested : In defaultBTreeDegree [2; 3; 4; 64]%Z.
Proof. vm_compute. tauto. Qed.

(* server/core/region_tree.go: (regionTree).length, body *)
Lemma src_tree_length_ok : src_tree_length =
  "{ if v0 == nil { return 0 } return v0.tree.Len() }".
Proof. reflexivity. Qed.

(* server/core/region_tree.go: (regionTree).getOverlaps, body *)
Lemma src_tree_getOverlaps_ok : src_tree_getOverlaps =
  "{ v2 := &regionItem{region: v1} v3 := v0.find(v1) if v3 == nil { v3 = v2 } var v4 []*RegionInfo v0.tree.AscendGreaterOrEqual(v3, func(v5 btree.Item) bool { v6 := v5.(*regionItem) if len(v1.GetEndKey()) > 0 && bytes.Compare(v1.GetEndKey(), v6.region.GetStartKey()) <= 0 { return false } v4 = append(v4, v6.region) return true }) return v4 }".
Proof. reflexivity. Qed.

(* server/core/region_tree.go: (regionTree).update, body *)
Lemma src_tree_update_ok : src_tree_update =
  "{ v2 := v1.region v0.totalSize += v2.approximateSize v3 := v0.getOverlaps(v2) for _, v4 := range v3 { v0.tree.Delete(&regionItem{v4}) v0.totalSize -= v4.approximateSize } v0.tree.ReplaceOrInsert(v1) return v3 }".
Proof. reflexivity. Qed.

(* server/core/region_tree.go: (regionTree).updateStat, body *)
Lemma src_tree_updateStat_ok : src_tree_updateStat =
  "{ v0.totalSize += v2.approximateSize v0.totalSize -= v1.approximateSize }".
Proof. reflexivity. Qed.

(* server/core/region_tree.go: (regionTree).remove, body *)
Lemma src_tree_remove_ok : src_tree_remove =
  "{ if v0.length() == 0 { return nil } v2 := v0.find(v1) if v2 == nil || v2.region.GetID() != v1.GetID() { return nil } v0.totalSize -= v1.approximateSize return v0.tree.Delete(v2) }".
Proof. reflexivity. Qed.

(* server/core/region_tree.go: (regionTree).search, body *)
Lemma src_tree_search_ok : src_tree_search =
  "{ v2 := &RegionInfo{meta: &metapb.Region{StartKey: v1}} v3 := v0.find(v2) if v3 == nil { return nil } return v3.region }".
Proof. reflexivity. Qed.

(* server/core/region_tree.go: (regionTree).searchPrev, body *)
Lemma src_tree_searchPrev_ok : src_tree_searchPrev =
  "{ v2 := &RegionInfo{meta: &metapb.Region{StartKey: v1}} v3 := v0.find(v2) if v3 == nil { return nil } v4, _ := v0.getAdjacentRegions(v3.region) if v4 == nil { return nil } if !bytes.Equal(v4.region.GetEndKey(), v3.region.GetStartKey()) { return nil } return v4.region }".
Proof. reflexivity. Qed.

(* server/core/region_tree.go: (regionTree).find, body *)
Lemma src_tree_find_ok : src_tree_find =
  "{ v2 := &regionItem{region: v1} var v3 *regionItem v0.tree.DescendLessOrEqual(v2, func(v4 btree.Item) bool { v3 = v4.(*regionItem) return false }) if v3 == nil || !v3.Contains(v1.GetStartKey()) { return nil } return v3 }".
Proof. reflexivity. Qed.

(* server/core/region_tree.go: (regionTree).scanRange, body *)
Lemma src_tree_scanRange_ok : src_tree_scanRange =
  "{ v3 := &RegionInfo{meta: &metapb.Region{StartKey: v1}} v4 := v0.find(v3) if v4 == nil { v4 = &regionItem{region: &RegionInfo{meta: &metapb.Region{StartKey: v1}}} } v0.tree.AscendGreaterOrEqual(v4, func(v5 btree.Item) bool { return v2(v5.(*regionItem).region) }) }".
Proof. reflexivity. Qed.

(* server/core/region_tree.go: (regionTree).scanRanges, body *)
Lemma src_tree_scanRanges_ok : src_tree_scanRanges =
  "{ if v0.length() == 0 { return nil } var v1 []*RegionInfo v0.scanRange([]byte(""""), func(v2 *RegionInfo) bool { v1 = append(v1, v2) return true }) return v1 }".
Proof. reflexivity. Qed.

(* server/core/region_tree.go: (regionTree).getAdjacentRegions, body *)
Lemma src_tree_getAdjacentRegions_ok : src_tree_getAdjacentRegions =
  "{ v2 := &regionItem{region: &RegionInfo{meta: &metapb.Region{StartKey: v1.GetStartKey()}}} var v3, v4 *regionItem v0.tree.AscendGreaterOrEqual(v2, func(v5 btree.Item) bool { if bytes.Equal(v2.region.GetStartKey(), v5.(*regionItem).region.GetStartKey()) { return true } v4 = v5.(*regionItem) return false }) v0.tree.DescendLessOrEqual(v2, func(v6 btree.Item) bool { if bytes.Equal(v2.region.GetStartKey(), v6.(*regionItem).region.GetStartKey()) { return true } v3 = v6.(*regionItem) return false }) return v3, v4 }".
Proof. reflexivity. Qed.

(* server/core/region_tree.go: (regionTree).RandomRegion, body *)
Lemma src_tree_RandomRegion_ok : src_tree_RandomRegion =
  "{ if v0.length() == 0 { return nil } if len(v1) == 0 { v1 = []KeyRange{NewKeyRange("""", """")} } for _, v2 := range rand.Perm(len(v1)) { var v3 int v4, v5 := v1[v2].StartKey, v1[v2].EndKey v6, v7 := v0.tree.GetWithIndex(&regionItem{region: &RegionInfo{meta: &metapb.Region{StartKey: v4}}}) if len(v5) != 0 { _, v3 = v0.tree.GetWithIndex(&regionItem{region: &RegionInfo{meta: &metapb.Region{StartKey: v5}}}) } else { v3 = v0.tree.Len() } if v7 != 0 && v6 == nil && v0.tree.GetAt(v7-1).(*regionItem).Contains(v4) { v7-- } if v3 <= v7 { if len(v5) > 0 && bytes.Compare(v4, v5) > 0 { } continue } v8 := rand.Intn(v3-v7) + v7 v9 := v0.tree.GetAt(v8).(*regionItem).region if isInvolved(v9, v4, v5) { return v9 } } return nil }".
Proof. reflexivity. Qed.

(* server/core/region_tree.go: (regionTree).TotalSize, body *)
Lemma src_tree_TotalSize_ok : src_tree_TotalSize =
  "{ if v0.length() == 0 { return 0 } return v0.totalSize }".
Proof. reflexivity. Qed.

(* server/core/region_tree.go: ().newRegionTree, body *)
Lemma src_newRegionTree_ok : src_newRegionTree =
  "{ return &regionTree{ tree: btree.New(defaultBTreeDegree), totalSize: 0, } }".
Proof. reflexivity. Qed.

(* server/core/region.go: (RegionsInfo).GetRegion, body *)
Lemma src_ri_GetRegion_ok : src_ri_GetRegion =
  "{ if v2 := v0.regions.Get(v1); v2 != nil { return v2.region } return nil }".
Proof. reflexivity. Qed.

(* server/core/region.go: (RegionsInfo).SetRegion, body *)
Lemma src_ri_SetRegion_ok : src_ri_SetRegion =
  "{ var v3 *regionItem // Pointer to the *RegionInfo of this ID. var v4 *RegionInfo // This is the original region information of this ID. var v5 bool // This Region is new, or its range has changed. var v6 bool // This Region is new, or its peers have changed, including leader-change/pending/down. if v3 = v0.regions.Get(v1.GetID()); v3 != nil { v4 = v3.region v5 = !bytes.Equal(v4.GetStartKey(), v1.GetStartKey()) || !bytes.Equal(v4.GetEndKey(), v1.GetEndKey()) if v5 { v0.tree.remove(v4) v6 = true } else { v6 = v0.shouldRemoveFromSubTree(v1, v4) } if v6 { v0.removeRegionFromSubTree(v4) } v3.region = v1 } else { v5 = true v6 = true v3 = v0.regions.AddNew(v1) } if !v5 { v0.tree.updateStat(v4, v1) } else { v2 = v0.tree.update(v3) for _, v7 := range v2 { v0.RemoveRegion(v0.GetRegion(v7.GetID())) } } if !v6 { v0.updateSubTreeStat(v4, v1) } else { for _, v8 := range v1.GetVoters() { v9 := v8.GetStoreId() if v8.GetId() == v1.leader.GetId() { v10, v11 := v0.leaders[v9] if !v11 { v10 = newRegionTree() v0.leaders[v9] = v10 } v10.update(v3) } else { v12, v13 := v0.followers[v9] if !v13 { v12 = newRegionTree() v0.followers[v9] = v12 } v12.update(v3) } } for _, v14 := range v1.GetLearners() { v15 := v14.GetStoreId() v16, v17 := v0.learners[v15] if !v17 { v16 = newRegionTree() v0.learners[v15] = v16 } v16.update(v3) } for _, v18 := range v1.GetPendingPeers() { v19 := v18.GetStoreId() v20, v21 := v0.pendingPeers[v19] if !v21 { v20 = newRegionTree() v0.pendingPeers[v19] = v20 } v20.update(v3) } } return }".
Proof. reflexivity. Qed.

(* server/core/region.go: (RegionsInfo).updateSubTreeStat, body *)
Lemma src_ri_updateSubTreeStat_ok : src_ri_updateSubTreeStat =
  "{ for _, v3 := range v2.GetVoters() { v4 := v3.GetStoreId() if v3.GetId() == v2.leader.GetId() { if v5, v6 := v0.leaders[v4]; v6 { v5.updateStat(v1, v2) } } else { if v7, v8 := v0.followers[v4]; v8 { v7.updateStat(v1, v2) } } } for _, v9 := range v2.GetLearners() { if v10, v11 := v0.learners[v9.GetStoreId()]; v11 { v10.updateStat(v1, v2) } } for _, v12 := range v2.GetPendingPeers() { if v13, v14 := v0.pendingPeers[v12.GetStoreId()]; v14 { v13.updateStat(v1, v2) } } }".
Proof. reflexivity. Qed.

(* server/core/region.go: (RegionsInfo).GetOverlaps, body *)
Lemma src_ri_GetOverlaps_ok : src_ri_GetOverlaps =
  "{ return v0.tree.getOverlaps(v1) }".
Proof. reflexivity. Qed.

(* server/core/region.go: (RegionsInfo).RemoveRegion, body *)
Lemma src_ri_RemoveRegion_ok : src_ri_RemoveRegion =
  "{ v0.tree.remove(v1) v0.regions.Delete(v1.GetID()) v0.removeRegionFromSubTree(v1) }".
Proof. reflexivity. Qed.

(* server/core/region.go: (RegionsInfo).removeRegionFromSubTree, body *)
Lemma src_ri_removeRegionFromSubTree_ok : src_ri_removeRegionFromSubTree =
  "{ for _, v2 := range v1.meta.GetPeers() { v3 := v2.GetStoreId() v0.leaders[v3].remove(v1) v0.followers[v3].remove(v1) v0.learners[v3].remove(v1) v0.pendingPeers[v3].remove(v1) } }".
Proof. reflexivity. Qed.

(* server/core/region.go: (RegionsInfo).SearchRegion, body *)
Lemma src_ri_SearchRegion_ok : src_ri_SearchRegion =
  "{ v2 := v0.tree.search(v1) if v2 == nil { return nil } return v0.GetRegion(v2.GetID()) }".
Proof. reflexivity. Qed.

(* server/core/region.go: (RegionsInfo).SearchPrevRegion, body *)
Lemma src_ri_SearchPrevRegion_ok : src_ri_SearchPrevRegion =
  "{ v2 := v0.tree.searchPrev(v1) if v2 == nil { return nil } return v0.GetRegion(v2.GetID()) }".
Proof. reflexivity. Qed.

(* server/core/region.go: (RegionsInfo).ScanRange, body *)
Lemma src_ri_ScanRange_ok : src_ri_ScanRange =
  "{ var v4 []*RegionInfo v0.tree.scanRange(v1, func(v5 *RegionInfo) bool { if len(v2) > 0 && bytes.Compare(v5.GetStartKey(), v2) >= 0 { return false } if v3 > 0 && len(v4) >= v3 { return false } v4 = append(v4, v0.GetRegion(v5.GetID())) return true }) return v4 }".
Proof. reflexivity. Qed.

(* server/core/region.go: (RegionsInfo).GetAdjacentRegions, body *)
Lemma src_ri_GetAdjacentRegions_ok : src_ri_GetAdjacentRegions =
  "{ v2, v3 := v0.tree.getAdjacentRegions(v1) var v4, v5 *RegionInfo if v2 != nil && bytes.Equal(v2.region.GetEndKey(), v1.GetStartKey()) { v4 = v0.GetRegion(v2.region.GetID()) } if v3 != nil && bytes.Equal(v1.GetEndKey(), v3.region.GetStartKey()) { v5 = v0.GetRegion(v3.region.GetID()) } return v4, v5 }".
Proof. reflexivity. Qed.

(* server/core/region.go: (RegionsInfo).GetAverageRegionSize, body *)
Lemma src_ri_GetAverageRegionSize_ok : src_ri_GetAverageRegionSize =
  "{ if v0.tree.length() == 0 { return 0 } return v0.tree.TotalSize() / int64(v0.tree.length()) }".
Proof. reflexivity. Qed.

(* server/core/region.go: (RegionsInfo).GetStoreRegions, body *)
Lemma src_ri_GetStoreRegions_ok : src_ri_GetStoreRegions =
  "{ v2 := make([]*RegionInfo, 0, v0.GetStoreRegionCount(v1)) if v3, v4 := v0.leaders[v1]; v4 { v2 = append(v2, v3.scanRanges()...) } if v5, v6 := v0.followers[v1]; v6 { v2 = append(v2, v5.scanRanges()...) } if v7, v8 := v0.learners[v1]; v8 { v2 = append(v2, v7.scanRanges()...) } return v2 }".
Proof. reflexivity. Qed.

(* server/core/region.go: (RegionsInfo).GetStoreLeaderCount, body *)
Lemma src_ri_GetStoreLeaderCount_ok : src_ri_GetStoreLeaderCount =
  "{ return v0.leaders[v1].length() }".
Proof. reflexivity. Qed.

(* server/core/region.go: (RegionsInfo).GetStoreFollowerCount, body *)
Lemma src_ri_GetStoreFollowerCount_ok : src_ri_GetStoreFollowerCount =
  "{ return v0.followers[v1].length() }".
Proof. reflexivity. Qed.

(* server/core/region.go: (RegionsInfo).GetStoreLearnerCount, body *)
Lemma src_ri_GetStoreLearnerCount_ok : src_ri_GetStoreLearnerCount =
  "{ return v0.learners[v1].length() }".
Proof. reflexivity. Qed.

(* server/core/region.go: (RegionsInfo).GetStorePendingPeerCount, body *)
Lemma src_ri_GetStorePendingPeerCount_ok : src_ri_GetStorePendingPeerCount =
  "{ return v0.pendingPeers[v1].length() }".
Proof. reflexivity. Qed.

(* server/core/region.go: (RegionsInfo).GetStoreLeaderRegionSize, body *)
Lemma src_ri_GetStoreLeaderRegionSize_ok : src_ri_GetStoreLeaderRegionSize =
  "{ return v0.leaders[v1].TotalSize() }".
Proof. reflexivity. Qed.

(* server/core/region.go: (RegionsInfo).GetStoreFollowerRegionSize, body *)
Lemma src_ri_GetStoreFollowerRegionSize_ok : src_ri_GetStoreFollowerRegionSize =
  "{ return v0.followers[v1].TotalSize() }".
Proof. reflexivity. Qed.

(* server/core/region.go: (RegionsInfo).GetStoreLearnerRegionSize, body *)
Lemma src_ri_GetStoreLearnerRegionSize_ok : src_ri_GetStoreLearnerRegionSize =
  "{ return v0.learners[v1].TotalSize() }".
Proof. reflexivity. Qed.

(* server/core/region.go: (RegionsInfo).RandLeaderRegion, body *)
Lemma src_ri_RandLeaderRegion_ok : src_ri_RandLeaderRegion =
  "{ return v0.leaders[v1].RandomRegion(v2) }".
Proof. reflexivity. Qed.

(* server/core/region.go: (RegionsInfo).RandFollowerRegion, body *)
Lemma src_ri_RandFollowerRegion_ok : src_ri_RandFollowerRegion =
  "{ return v0.followers[v1].RandomRegion(v2) }".
Proof. reflexivity. Qed.

(* server/core/region.go: (RegionsInfo).RandLearnerRegion, body *)
Lemma src_ri_RandLearnerRegion_ok : src_ri_RandLearnerRegion =
  "{ return v0.learners[v1].RandomRegion(v2) }".
Proof. reflexivity. Qed.

(* server/core/region.go: (RegionsInfo).RandPendingRegion, body *)
Lemma src_ri_RandPendingRegion_ok : src_ri_RandPendingRegion =
  "{ return v0.pendingPeers[v1].RandomRegion(v2) }".
Proof. reflexivity. Qed.

(* server/core/region.go: (RegionsInfo).Len, body *)
Lemma src_ri_Len_ok : src_ri_Len =
  "{ return v0.regions.Len() }".
Proof. reflexivity. Qed.

(* server/core/region.go: (RegionsInfo).TreeLen, body *)
Lemma src_ri_TreeLen_ok : src_ri_TreeLen =
  "{ return v0.tree.length() }".
Proof. reflexivity. Qed.

(* server/core/region_tree.go: (regionItem).Less, body *)
Lemma src_item_Less_ok : src_item_Less =
  "{ v2 := v0.region.GetStartKey() v3 := v1.(*regionItem).region.GetStartKey() return bytes.Compare(v2, v3) < 0 }".
Proof. reflexivity. Qed.

(* server/core/region_tree.go: (regionItem).Contains, body *)
Lemma src_item_Contains_ok : src_item_Contains =
  "{ v2, v3 := v0.region.GetStartKey(), v0.region.GetEndKey() return bytes.Compare(v1, v2) >= 0 && (len(v3) == 0 || bytes.Compare(v1, v3) < 0) }".
Proof. reflexivity. Qed.

(* server/core/region.go: ().isInvolved, body *)
Lemma src_isInvolved_ok : src_isInvolved =
  "{ return bytes.Compare(v0.GetStartKey(), v1) >= 0 && (len(v2) == 0 || (len(v0.GetEndKey()) > 0 && bytes.Compare(v0.GetEndKey(), v2) <= 0)) }".
Proof. reflexivity. Qed.

(* server/core/region.go: (RegionsInfo).shouldRemoveFromSubTree, body *)
Lemma src_shouldRemoveFromSubTree_ok : src_shouldRemoveFromSubTree =
  "{ return v2.leader.GetId() != v1.leader.GetId() || !SortedPeersEqual(v2.GetVoters(), v1.GetVoters()) || !SortedPeersEqual(v2.GetLearners(), v1.GetLearners()) || !SortedPeersEqual(v2.GetPendingPeers(), v1.GetPendingPeers()) }".
Proof. reflexivity. Qed.

(* server/core/region.go: ().SortedPeersEqual, body *)
Lemma src_SortedPeersEqual_ok : src_SortedPeersEqual =
  "{ if len(v0) != len(v1) { return false } for v2, v3 := range v0 { v4 := v1[v2] if v3.GetStoreId() != v4.GetStoreId() || v3.GetId() != v4.GetId() { return false } } return true }".
Proof. reflexivity. Qed.

(* server/core/region.go: (peerSlice).Less, body *)
Lemma src_peerSlice_Less_ok : src_peerSlice_Less =
  "{ return v0[v1].GetId() < v0[v2].GetId() }".
Proof. reflexivity. Qed.

(* server/core/region.go: ().classifyVoterAndLearner, body *)
Lemma src_classifyVoterAndLearner_ok : src_classifyVoterAndLearner =
  "{ v1 := make([]*metapb.Peer, 0, 1) v2 := make([]*metapb.Peer, 0, len(v0.meta.Peers)) for _, v3 := range v0.meta.Peers { if IsLearner(v3) { v1 = append(v1, v3) } else { v2 = append(v2, v3) } } sort.Sort(peerSlice(v1)) sort.Sort(peerSlice(v2)) v0.learners = v1 v0.voters = v2 }".
Proof. reflexivity. Qed.

(* server/core/region.go: (regionMap).AddNew, body *)
Lemma src_regionMap_AddNew_ok : src_regionMap_AddNew =
  "{ v2 := &regionItem{region: v1} v0[v1.GetID()] = v2 return v2 }".
Proof. reflexivity. Qed.

(* server/core/region.go: (regionMap).Get, body *)
Lemma src_regionMap_Get_ok : src_regionMap_Get =
  "{ return v0[v1] }".
Proof. reflexivity. Qed.

(* server/core/region.go: (regionMap).Delete, body *)
Lemma src_regionMap_Delete_ok : src_regionMap_Delete =
  "{ delete(v0, v1) }".
Proof. reflexivity. Qed.

(* pkg/btree/btree.go: (items).find, body *)
Lemma src_bt_items_find_ok : src_bt_items_find =
  "{ v4 := sort.Search(len(v0), func(v5 int) bool { return v1.Less(v0[v5]) }) if v4 > 0 && !v0[v4-1].Less(v1) { return v4 - 1, true } return v4, false }".
Proof. reflexivity. Qed.

(* pkg/btree/btree.go: (indices).addAt, body *)
Lemma src_bt_indices_addAt_ok : src_bt_indices_addAt =
  "{ for v3 := v1; v3 < len(*v0); v3++ { (*v0)[v3] += v2 } }".
Proof. reflexivity. Qed.

(* pkg/btree/btree.go: (indices).insertAt, body *)
Lemma src_bt_indices_insertAt_ok : src_bt_indices_insertAt =
  "{ *v0 = append(*v0, -1) for v3 := len(*v0) - 1; v3 >= v1 && v3 > 0; v3-- { (*v0)[v3] = (*v0)[v3-1] + v2 + 1 } if v1 == 0 { (*v0)[0] = v2 } }".
Proof. reflexivity. Qed.

(* pkg/btree/btree.go: (indices).push, body *)
Lemma src_bt_indices_push_ok : src_bt_indices_push =
  "{ if len(*v0) == 0 { *v0 = append(*v0, v1) } else { *v0 = append(*v0, (*v0)[len(*v0)-1]+1+v1) } }".
Proof. reflexivity. Qed.

(* pkg/btree/btree.go: (indices).split, body *)
Lemma src_bt_indices_split_ok : src_bt_indices_split =
  "{ v0.insertAt(v1+1, -1) (*v0)[v1] -= 1 + v2 }".
Proof. reflexivity. Qed.

(* pkg/btree/btree.go: (indices).merge, body *)
Lemma src_bt_indices_merge_ok : src_bt_indices_merge =
  "{ for v2 := v1; v2 < len(*v0)-1; v2++ { (*v0)[v2] = (*v0)[v2+1] } *v0 = (*v0)[:len(*v0)-1] }".
Proof. reflexivity. Qed.

(* pkg/btree/btree.go: (indices).removeAt, body *)
Lemma src_bt_indices_removeAt_ok : src_bt_indices_removeAt =
  "{ v2 := (*v0)[v1] if v1 > 0 { v2 = v2 - (*v0)[v1-1] - 1 } for v3 := v1 + 1; v3 < len(*v0); v3++ { (*v0)[v3-1] = (*v0)[v3] - v2 - 1 } *v0 = (*v0)[:len(*v0)-1] return v2 }".
Proof. reflexivity. Qed.

(* pkg/btree/btree.go: (indices).pop, body *)
Lemma src_bt_indices_pop_ok : src_bt_indices_pop =
  "{ v1 := len(*v0) v2 := (*v0)[v1-1] if v1 != 1 { v2 -= (*v0)[v1-2] + 1 } *v0 = (*v0)[:len(*v0)-1] return v2 }".
Proof. reflexivity. Qed.

(* pkg/btree/btree.go: (indices).find, body *)
Lemma src_bt_indices_find_ok : src_bt_indices_find =
  "{ v4 := sort.SearchInts(v0, v1) return v4, v0[v4] == v1 }".
Proof. reflexivity. Qed.

(* pkg/btree/btree.go: (node).length, body *)
Lemma src_bt_node_length_ok : src_bt_node_length =
  "{ if len(v0.indices) <= 0 { return len(v0.items) } return v0.indices[len(v0.indices)-1] }".
Proof. reflexivity. Qed.

(* pkg/btree/btree.go: (node).initSize, body *)
Lemma src_bt_node_initSize_ok : src_bt_node_initSize =
  "{ v1 := len(v0.children) if v1 <= 0 { v0.indices.truncate(0) return } else if v1 <= cap(v0.indices) { v0.indices = v0.indices[:v1] } else { v0.indices = make([]int, v1) } v0.indices[0] = v0.children[0].length() for v2 := 1; v2 < v1; v2++ { v0.indices[v2] = v0.indices[v2-1] + 1 + v0.children[v2].length() } }".
Proof. reflexivity. Qed.

(* pkg/btree/btree.go: (node).split, body *)
Lemma src_bt_node_split_ok : src_bt_node_split =
  "{ v2 := v0.items[v1] v3 := v0.cow.newNode() v3.items = append(v3.items, v0.items[v1+1:]...) v0.items.truncate(v1) if len(v0.children) > 0 { v3.children = append(v3.children, v0.children[v1+1:]...) v3.initSize() v0.children.truncate(v1 + 1) v0.indices.truncate(v1 + 1) } return v2, v3 }".
Proof. reflexivity. Qed.

(* pkg/btree/btree.go: (node).maybeSplitChild, body *)
Lemma src_bt_node_maybeSplitChild_ok : src_bt_node_maybeSplitChild =
  "{ if len(v0.children[v1].items) < v2 { return false } v3 := v0.mutableChild(v1) v4, v5 := v3.split(v2 / 2) v0.items.insertAt(v1, v4) v0.children.insertAt(v1+1, v5) v0.indices.split(v1, v5.length()) return true }".
Proof. reflexivity. Qed.

(* pkg/btree/btree.go: (node).insert, body *)
Lemma src_bt_node_insert_ok : src_bt_node_insert =
  "{ v3, v4 := v0.items.find(v1) if v4 { v5 := v0.items[v3] v0.items[v3] = v1 return v5 } if len(v0.children) == 0 { v0.items.insertAt(v3, v1) return nil } if v0.maybeSplitChild(v3, v2) { v6 := v0.items[v3] switch { case v1.Less(v6): case v6.Less(v1): v3++ default: v7 := v0.items[v3] v0.items[v3] = v1 return v7 } } v8 := v0.mutableChild(v3).insert(v1, v2) if v8 == nil { v0.indices.addAt(v3, 1) } return v8 }".
Proof. reflexivity. Qed.

(* pkg/btree/btree.go: (node).getAt, body *)
Lemma src_bt_node_getAt_ok : src_bt_node_getAt =
  "{ if v1 >= v0.length() || v1 < 0 { return nil } if len(v0.children) == 0 { return v0.items[v1] } v2, v3 := v0.indices.find(v1) if v3 { return v0.items[v2] } if v2 == 0 { return v0.children[0].getAt(v1) } return v0.children[v2].getAt(v1 - v0.indices[v2-1] - 1) }".
Proof. reflexivity. Qed.

(* pkg/btree/btree.go: (node).getWithIndex, body *)
Lemma src_bt_node_getWithIndex_ok : src_bt_node_getWithIndex =
  "{ v2, v3 := v0.items.find(v1) if v3 { v4 := v2 if len(v0.indices) > 0 { v4 = v0.indices[v2] } return v0.items[v2], v4 } else if len(v0.children) > 0 { v5, v6 := v0.children[v2].getWithIndex(v1) if v2 > 0 { v6 += v0.indices[v2-1] + 1 } return v5, v6 } return nil, v2 }".
Proof. reflexivity. Qed.

(* pkg/btree/btree.go: (node).remove, body *)
Lemma src_bt_node_remove_ok : src_bt_node_remove =
  "{ var v5 int var v6 bool switch v3 { case removeMax: if len(v0.children) == 0 { return v0.items.pop() } v5 = len(v0.items) case removeMin: if len(v0.children) == 0 { return v0.items.removeAt(0) } v5 = 0 case removeItem: v5, v6 = v0.items.find(v1) if len(v0.children) == 0 { if v6 { return v0.items.removeAt(v5) } return nil } default: panic(""invalid type"") } if len(v0.children[v5].items) <= v2 { return v0.growChildAndRemove(v5, v1, v2, v3) } v7 := v0.mutableChild(v5) if v6 { v4 = v0.items[v5] v0.items[v5] = v7.remove(nil, v2, removeMax) } else { v4 = v7.remove(v1, v2, v3) } if v4 != nil { v0.indices.addAt(v5, -1) } return }".
Proof. reflexivity. Qed.

(* pkg/btree/btree.go: (node).growChildAndRemove, body *)
Lemma src_bt_node_growChildAndRemove_ok : src_bt_node_growChildAndRemove =
  "{ if v1 > 0 && len(v0.children[v1-1].items) > v3 { v5 := v0.mutableChild(v1) v6 := v0.mutableChild(v1 - 1) v7 := v6.items.pop() v5.items.insertAt(0, v0.items[v1-1]) v0.items[v1-1] = v7 v0.indices[v1-1] -= 1 if len(v6.children) > 0 { v5.children.insertAt(0, v6.children.pop()) v8 := v6.indices.pop() v0.indices[v1-1] -= v8 v5.indices.insertAt(0, v8) } } else if v1 < len(v0.items) && len(v0.children[v1+1].items) > v3 { v9 := v0.mutableChild(v1) v10 := v0.mutableChild(v1 + 1) v11 := v10.items.removeAt(0) v9.items = append(v9.items, v0.items[v1]) v0.items[v1] = v11 v0.indices[v1] += 1 if len(v10.children) > 0 { v9.children = append(v9.children, v10.children.removeAt(0)) v12 := v10.indices.removeAt(0) v0.indices[v1] += v12 v9.indices.push(v12) } } else { if v1 >= len(v0.items) { v1-- } v13 := v0.mutableChild(v1) v14 := v0.items.removeAt(v1) v15 := v0.children.removeAt(v1 + 1) v13.items = append(v13.items, v14) v13.items = append(v13.items, v15.items...) v13.children = append(v13.children, v15.children...) for _, v16 := range v15.children { v13.indices.push(v16.length()) } v0.indices.merge(v1) v0.cow.freeNode(v15) } return v0.remove(v2, v3, v4) }".
Proof. reflexivity. Qed.

(* pkg/btree/btree.go: (node).iterate, body *)
Lemma src_bt_node_iterate_ok : src_bt_node_iterate =
  "{ var v7, v8 bool var v9 int switch v1 { case ascend: if v2 != nil { v9, _ = v0.items.find(v2) } for v10 := v9; v10 < len(v0.items); v10++ { if len(v0.children) > 0 { if v5, v7 = v0.children[v10].iterate(v1, v2, v3, v4, v5, v6); !v7 { return v5, false } } if !v4 && !v5 && v2 != nil && !v2.Less(v0.items[v10]) { v5 = true continue } v5 = true if v3 != nil && !v0.items[v10].Less(v3) { return v5, false } if !v6(v0.items[v10]) { return v5, false } } if len(v0.children) > 0 { if v5, v7 = v0.children[len(v0.children)-1].iterate(v1, v2, v3, v4, v5, v6); !v7 { return v5, false } } case descend: if v2 != nil { v9, v8 = v0.items.find(v2) if !v8 { v9 = v9 - 1 } } else { v9 = len(v0.items) - 1 } for v11 := v9; v11 >= 0; v11-- { if v2 != nil && !v0.items[v11].Less(v2) { if !v4 || v5 || v2.Less(v0.items[v11]) { continue } } if len(v0.children) > 0 { if v5, v7 = v0.children[v11+1].iterate(v1, v2, v3, v4, v5, v6); !v7 { return v5, false } } if v3 != nil && !v3.Less(v0.items[v11]) { return v5, false } v5 = true if !v6(v0.items[v11]) { return v5, false } } if len(v0.children) > 0 { if v5, v7 = v0.children[0].iterate(v1, v2, v3, v4, v5, v6); !v7 { return v5, false } } } return v5, true }".
Proof. reflexivity. Qed.

(* pkg/btree/btree.go: (BTree).ReplaceOrInsert, body *)
Lemma src_bt_ReplaceOrInsert_ok : src_bt_ReplaceOrInsert =
  "{ if v1 == nil { panic(""nil item being added to BTree"") } if v0.root == nil { v0.root = v0.cow.newNode() v0.root.items = append(v0.root.items, v1) v0.length++ return nil } v0.root = v0.root.mutableFor(v0.cow) if len(v0.root.items) >= v0.maxItems() { v2, v3 := v0.root.split(v0.maxItems() / 2) v4 := v0.root v0.root = v0.cow.newNode() v0.root.items = append(v0.root.items, v2) v0.root.children = append(v0.root.children, v4, v3) v0.root.initSize() } v5 := v0.root.insert(v1, v0.maxItems()) if v5 == nil { v0.length++ } return v5 }".
Proof. reflexivity. Qed.

(* pkg/btree/btree.go: (BTree).deleteItem, body *)
Lemma src_bt_deleteItem_ok : src_bt_deleteItem =
  "{ if v0.root == nil || len(v0.root.items) == 0 { return nil } v0.root = v0.root.mutableFor(v0.cow) v3 := v0.root.remove(v1, v0.minItems(), v2) if len(v0.root.items) == 0 && len(v0.root.children) > 0 { v4 := v0.root v0.root = v0.root.children[0] v0.cow.freeNode(v4) } if v3 != nil { v0.length-- } return v3 }".
Proof. reflexivity. Qed.

(* pkg/btree/btree.go: (BTree).maxItems, body *)
Lemma src_bt_maxItems_ok : src_bt_maxItems =
  "{ return v0.degree*2 - 1 }".
Proof. reflexivity. Qed.

(* pkg/btree/btree.go: (BTree).minItems, body *)
Lemma src_bt_minItems_ok : src_bt_minItems =
  "{ return v0.degree - 1 }".
Proof. reflexivity. Qed.

(* pkg/btree/btree.go: (BTree).GetWithIndex, body *)
Lemma src_bt_GetWithIndex_ok : src_bt_GetWithIndex =
  "{ if v0.root == nil { return nil, 0 } return v0.root.getWithIndex(v1) }".
Proof. reflexivity. Qed.

(* pkg/btree/btree.go: (BTree).GetAt, body *)
Lemma src_bt_GetAt_ok : src_bt_GetAt =
  "{ if v0.root == nil { return nil } return v0.root.getAt(v1) }".
Proof. reflexivity. Qed.

(* pkg/btree/btree.go: (BTree).AscendGreaterOrEqual, body *)
Lemma src_bt_AscendGreaterOrEqual_ok : src_bt_AscendGreaterOrEqual =
  "{ if v0.root == nil { return } v0.root.iterate(ascend, v1, nil, true, false, v2) }".
Proof. reflexivity. Qed.

(* pkg/btree/btree.go: (BTree).DescendLessOrEqual, body *)
Lemma src_bt_DescendLessOrEqual_ok : src_bt_DescendLessOrEqual =
  "{ if v0.root == nil { return } v0.root.iterate(descend, v1, nil, true, false, v2) }".
Proof. reflexivity. Qed.

(* ---- the rest of pkg/btree that model/C07_BTree.v transcribes (the Gallina B-tree of the refinement proof) ---- *)
(* pkg/btree/btree.go: (items).insertAt, body *)
Lemma src_bt_items_insertAt_ok : Gen_C07.src_bt_items_insertAt =
  "{ *v0 = append(*v0, nil) if v1 < len(*v0) { copy((*v0)[v1+1:], (*v0)[v1:]) } (*v0)[v1] = v2 }".
Proof. reflexivity. Qed.

(* pkg/btree/btree.go: (items).removeAt, body *)
Lemma src_bt_items_removeAt_ok : Gen_C07.src_bt_items_removeAt =
  "{ v2 := (*v0)[v1] copy((*v0)[v1:], (*v0)[v1+1:]) (*v0)[len(*v0)-1] = nil *v0 = (*v0)[:len(*v0)-1] return v2 }".
Proof. reflexivity. Qed.

(* pkg/btree/btree.go: (items).pop, body *)
Lemma src_bt_items_pop_ok : Gen_C07.src_bt_items_pop =
  "{ v2 := len(*v0) - 1 v1 = (*v0)[v2] (*v0)[v2] = nil *v0 = (*v0)[:v2] return }".
Proof. reflexivity. Qed.

(* pkg/btree/btree.go: (items).truncate, body *)
Lemma src_bt_items_truncate_ok : Gen_C07.src_bt_items_truncate =
  "{ var v2 items *v0, v2 = (*v0)[:v1], (*v0)[v1:] for len(v2) > 0 { v2 = v2[copy(v2, nilItems):] } }".
Proof. reflexivity. Qed.

(* pkg/btree/btree.go: (children).insertAt, body *)
Lemma src_bt_children_insertAt_ok : Gen_C07.src_bt_children_insertAt =
  "{ *v0 = append(*v0, nil) if v1 < len(*v0) { copy((*v0)[v1+1:], (*v0)[v1:]) } (*v0)[v1] = v2 }".
Proof. reflexivity. Qed.

(* pkg/btree/btree.go: (children).removeAt, body *)
Lemma src_bt_children_removeAt_ok : Gen_C07.src_bt_children_removeAt =
  "{ v2 := (*v0)[v1] copy((*v0)[v1:], (*v0)[v1+1:]) (*v0)[len(*v0)-1] = nil *v0 = (*v0)[:len(*v0)-1] return v2 }".
Proof. reflexivity. Qed.

(* pkg/btree/btree.go: (children).pop, body *)
Lemma src_bt_children_pop_ok : Gen_C07.src_bt_children_pop =
  "{ v2 := len(*v0) - 1 v1 = (*v0)[v2] (*v0)[v2] = nil *v0 = (*v0)[:v2] return }".
Proof. reflexivity. Qed.

(* pkg/btree/btree.go: (children).truncate, body *)
Lemma src_bt_children_truncate_ok : Gen_C07.src_bt_children_truncate =
  "{ var v2 children *v0, v2 = (*v0)[:v1], (*v0)[v1:] for len(v2) > 0 { v2 = v2[copy(v2, nilChildren):] } }".
Proof. reflexivity. Qed.

(* pkg/btree/btree.go: (indices).truncate, body *)
Lemma src_bt_indices_truncate_ok : Gen_C07.src_bt_indices_truncate =
  "{ *v0 = (*v0)[:v1] }".
Proof. reflexivity. Qed.

(* pkg/btree/btree.go: (node).mutableFor, body *)
Lemma src_bt_node_mutableFor_ok : Gen_C07.src_bt_node_mutableFor =
  "{ if v0.cow == v1 { return v0 } v2 := v1.newNode() if cap(v2.items) >= len(v0.items) { v2.items = v2.items[:len(v0.items)] } else { v2.items = make(items, len(v0.items), cap(v0.items)) } copy(v2.items, v0.items) if cap(v2.children) >= len(v0.children) { v2.children = v2.children[:len(v0.children)] } else { v2.children = make(children, len(v0.children), cap(v0.children)) } copy(v2.children, v0.children) if cap(v2.indices) >= len(v0.indices) { v2.indices = v2.indices[:len(v0.indices)] } else { v2.indices = make(indices, len(v0.indices), cap(v0.indices)) } copy(v2.indices, v0.indices) return v2 }".
Proof. reflexivity. Qed.

(* pkg/btree/btree.go: (node).mutableChild, body *)
Lemma src_bt_node_mutableChild_ok : Gen_C07.src_bt_node_mutableChild =
  "{ v2 := v0.children[v1].mutableFor(v0.cow) v0.children[v1] = v2 return v2 }".
Proof. reflexivity. Qed.

(* pkg/btree/btree.go: (node).get, body *)
Lemma src_bt_node_get_ok : Gen_C07.src_bt_node_get =
  "{ v2, v3 := v0.items.find(v1) if v3 { return v0.items[v2] } else if len(v0.children) > 0 { return v0.children[v2].get(v1) } return nil }".
Proof. reflexivity. Qed.

(* pkg/btree/btree.go: ().min, body *)
Lemma src_bt_min_ok : Gen_C07.src_bt_min =
  "{ if v0 == nil { return nil } for len(v0.children) > 0 { v0 = v0.children[0] } if len(v0.items) == 0 { return nil } return v0.items[0] }".
Proof. reflexivity. Qed.

(* pkg/btree/btree.go: ().max, body *)
Lemma src_bt_max_ok : Gen_C07.src_bt_max =
  "{ if v0 == nil { return nil } for len(v0.children) > 0 { v0 = v0.children[len(v0.children)-1] } if len(v0.items) == 0 { return nil } return v0.items[len(v0.items)-1] }".
Proof. reflexivity. Qed.

(* pkg/btree/btree.go: (BTree).Delete, body *)
Lemma src_bt_Delete_ok : Gen_C07.src_bt_Delete =
  "{ return v0.deleteItem(v1, removeItem) }".
Proof. reflexivity. Qed.

(* pkg/btree/btree.go: (BTree).DeleteMin, body *)
Lemma src_bt_DeleteMin_ok : Gen_C07.src_bt_DeleteMin =
  "{ return v0.deleteItem(nil, removeMin) }".
Proof. reflexivity. Qed.

(* pkg/btree/btree.go: (BTree).DeleteMax, body *)
Lemma src_bt_DeleteMax_ok : Gen_C07.src_bt_DeleteMax =
  "{ return v0.deleteItem(nil, removeMax) }".
Proof. reflexivity. Qed.

(* pkg/btree/btree.go: (BTree).Get, body *)
Lemma src_bt_Get_ok : Gen_C07.src_bt_Get =
  "{ if v0.root == nil { return nil } return v0.root.get(v1) }".
Proof. reflexivity. Qed.

(* pkg/btree/btree.go: (BTree).Min, body *)
Lemma src_bt_Min_ok : Gen_C07.src_bt_Min =
  "{ return min(v0.root) }".
Proof. reflexivity. Qed.

(* pkg/btree/btree.go: (BTree).Max, body *)
Lemma src_bt_Max_ok : Gen_C07.src_bt_Max =
  "{ return max(v0.root) }".
Proof. reflexivity. Qed.

(* pkg/btree/btree.go: (BTree).Len, body *)
Lemma src_bt_Len_ok : Gen_C07.src_bt_Len =
  "{ return v0.length }".
Proof. reflexivity. Qed.

(* pkg/btree/btree.go: (BTree).getRootLength, body *)
Lemma src_bt_getRootLength_ok : Gen_C07.src_bt_getRootLength =
  "{ if v0.root == nil { return 0 } return v0.root.length() }".
Proof. reflexivity. Qed.

(* server/core/basic_cluster.go: (BasicCluster).PutRegion, body -- the driver puts regions through it; on the observations of C07 it is RegionsInfo.SetRegion (the term is not observed) *)
Lemma src_bc_PutRegion_ok : src_bc_PutRegion =
  "{ v0.Lock() defer v0.Unlock() if v1.term == 0 { if v2 := v0.Regions.GetRegion(v1.GetID()); v2 != nil { v1.term = v2.term } } return v0.Regions.SetRegion(v1) }".
Proof. reflexivity. Qed.

(* server/cluster/cluster.go: (RaftCluster).DropCacheRegion, body *)
Lemma src_rc_DropCacheRegion_ok : src_rc_DropCacheRegion =
  "{ v0.RLock() defer v0.RUnlock() if v2 := v0.GetRegion(v1); v2 != nil { v0.core.RemoveRegion(v2) } }".
Proof. reflexivity. Qed.

(* ---- the ways into the region cache: every call site (outside tests) of the functions that write it.  The drivers go through
   processRegionHeartbeat / PutRegion / CheckAndPutLoadedRegion / DropCacheRegion; a new admin, recovery or feature path (or a second
   call in a listed function) changes one of these lists ---- *)
Lemma cache_writer_sites_PutRegion_ok : cache_writer_sites_PutRegion =
  ["pkg/mock/mockcluster/mockcluster.go:AddLeaderRegion"; "pkg/mock/mockcluster/mockcluster.go:AddLeaderRegionWithRange"; "pkg/mock/mockcluster/mockcluster.go:AddLeaderRegionWithWriteInfo"; "pkg/mock/mockcluster/mockcluster.go:AddRegionLeaderWithReadInfo"; "pkg/mock/mockcluster/mockcluster.go:AddRegionWithLearner"; "pkg/mock/mockcluster/mockcluster.go:AddRegionWithPeerReadInfo"; "pkg/mock/mockcluster/mockcluster.go:AddRegionWithReadInfo"; "pkg/mock/mockcluster/mockcluster.go:LoadRegion"; "pkg/mock/mockcluster/mockcluster.go:PutRegionStores"; "server/cluster/cluster.go:processRegionHeartbeat"; "server/cluster/cluster.go:putRegion"; "server/core/basic_cluster.go:CheckAndPutRegion"; "server/schedule/test_util.go:ApplyOperator"].
Proof. reflexivity. Qed.
Lemma cache_writer_sites_CheckAndPutRegion_ok : cache_writer_sites_CheckAndPutRegion =
  ["server/core/basic_cluster.go:CheckAndPutLoadedRegion"; "server/region_syncer/client.go:StartSyncWithLeader"].
Proof. reflexivity. Qed.
Lemma cache_writer_sites_CheckAndPutLoadedRegion_ok : cache_writer_sites_CheckAndPutLoadedRegion =
  ["server/cluster/cluster.go:LoadClusterInfo"; "server/region_syncer/client.go:StartSyncWithLeader"].
Proof. reflexivity. Qed.
Lemma cache_writer_sites_SetRegion_ok : cache_writer_sites_SetRegion =
  ["server/core/basic_cluster.go:PutRegion"; "server/schedule/range_cluster.go:GenRangeCluster"].
Proof. reflexivity. Qed.
Lemma cache_writer_sites_RemoveRegion_ok : cache_writer_sites_RemoveRegion =
  ["server/cluster/cluster.go:DropCacheRegion"; "server/core/basic_cluster.go:RemoveRegion"; "server/core/region.go:SetRegion"].
Proof. reflexivity. Qed.
Lemma cache_writer_sites_DropCacheRegion_ok : cache_writer_sites_DropCacheRegion =
  ["server/api/admin.go:HandleDropCacheRegion"].
Proof. reflexivity. Qed.
