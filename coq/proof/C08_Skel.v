(* C08 — structural obligations on builder.go / step.go / create_operator.go as they are now
   (regenerated gen/Gen_C08.v).  The model dispatches on plan_order / plan_prefs / leader_prefs /
   no_leader_roles; these lemmas pin the values the general proofs and the driver's helper table were
   written against. *)
From PDV Require Import lib.Skel gen.Gen_C08.

Lemma plan_order_ok : plan_order = ["planReplace"; "planPromotePeer"; "planDemotePeer"; "planRemovePeer"; "planAddPeer"].
Proof. reflexivity. Qed.

Lemma plan_prefs_ok : plan_prefs =
  ["planPreferReplaceByNearest"; "planPreferUpStoreAsLeader"; "planPreferOldPeerAsLeader";
   "planPreferAddOrPromoteTargetLeader"; "planPreferTargetLeader"; "planPreferLessLeaderTransfer"].
Proof. reflexivity. Qed.

Lemma leader_prefs_ok : leader_prefs =
  ["preferLeaderRoleAsLeader"; "preferUpStoreAsLeader"; "preferCurrentLeader"; "preferKeepVoterAsLeader"; "preferOldPeerAsLeader"].
Proof. reflexivity. Qed.

(* learners and demoting voters are never leader candidates *)
Lemma no_leader_roles_ok : no_leader_roles = ["PeerRole_Learner"; "PeerRole_DemotingVoter"].
Proof. reflexivity. Qed.

Lemma skel_allowLeader_ok : skel_allowLeader =
  [SwitchE [[Ret]]; IfE "peer.GetStoreId() == b.currentLeaderStoreID" [Ret] []; Call "GetStore"; IfE "store == nil" [Ret] [];
   IfE "ignoreClusterLimit" [Ret] []; Call "Target"; IfE "!stateFilter.Target(b.cluster.GetOpts(), store)" [Ret] [];
   IfE "len(b.rules) == 0" [Ret] [];
   ForE [Call "MatchLabelConstraints";
         IfE "(r.Role == placement.Leader || r.Role == placement.Voter) && placement.MatchLabelConstraints(store, r.LabelConstraints)" [Ret] []];
   Ret].
Proof. reflexivity. Qed.

(* joint path: learners first, target leader chosen, then one of three leader placements around a single
   enter/leave pair, removals last *)
Lemma skel_joint_ok : skel_buildStepsWithJointConsensus =
  [ForE [IfE "!core.IsLearner(peer)" [Call "execAddPeer"] [Call "execAddPeer"]];
   Call "setTargetLeaderIfNotExist"; IfE "b.targetLeaderStoreID == 0" [Ret] [];
   IfE "ok && !core.IsLearner(targetLeaderBefore)"
     [IfE "b.originLeaderStoreID != b.targetLeaderStoreID" [Call "execTransferLeader"] []; Call "execChangePeerV2"]
     [IfE "b.originLeaderStoreID == 0 || (ok && !core.IsLearner(originLeaderAfter))"
        [Call "execChangePeerV2"; IfE "b.originLeaderStoreID != b.targetLeaderStoreID" [Call "execTransferLeader"] []]
        [Call "execChangePeerV2"]];
   ForE [Call "execRemovePeer"]; Ret].
Proof. reflexivity. Qed.

(* leadership moves inside the joint state only in the third branch *)
Lemma joint_v2_args_ok : joint_v2_args = ["true, false"; "true, false"; "true, true"].
Proof. reflexivity. Qed.

Lemma skel_execChangePeerV2_ok : skel_execChangePeerV2 =
  [Assign "b.toPromote" "= newPeersMap()"; Assign "b.toDemote" "= newPeersMap()";
   IfE "needEnter" [Assign "b.steps" "= append(b.steps, step)"] [];
   IfE "needTransferLeader && b.originLeaderStoreID != b.targetLeaderStoreID" [Call "execTransferLeader"] [];
   Assign "b.steps" "= append(b.steps, ChangePeerV2Leave(step))"].
Proof. reflexivity. Qed.

(* non-joint path: per plan  transfer, add, promote, transfer, demote, remove — in this order *)
Lemma skel_nonjoint_ok : skel_buildStepsWithoutJointConsensus =
  [Call "initStepPlanPreferFuncs";
   ForE [Call "peerPlan"; Call "IsEmpty"; IfE "plan.IsEmpty()" [Ret] [];
         IfE "plan.leaderBeforeAdd != 0 && plan.leaderBeforeAdd != b.currentLeaderStoreID" [Call "execTransferLeader"] [];
         IfE "plan.add != nil" [Call "execAddPeer"] [];
         IfE "plan.promote != nil" [Call "execPromoteLearner"] [];
         IfE "plan.leaderBeforeRemove != 0 && plan.leaderBeforeRemove != b.currentLeaderStoreID" [Call "execTransferLeader"] [];
         IfE "plan.demote != nil" [Call "execDemoteFollower"] [];
         IfE "plan.remove != nil" [Call "execRemovePeer"] []];
   Call "setTargetLeaderIfNotExist";
   IfE "b.targetLeaderStoreID != 0 && b.currentLeaderStoreID != b.targetLeaderStoreID && b.currentPeers[b.targetLeaderStoreID] != nil"
     [Call "execTransferLeader"] [];
   IfE "len(b.steps) == 0" [Ret] []; Ret].
Proof. reflexivity. Qed.

(* planReplace: five alternatives (promote+demote, add voter+demote, add+remove of the same kind on a free store,
   add learner+promote+remove voter on a free store, add voter+demote+remove learner) *)
Lemma replace_guards_ok : replace_guards =
  ["!core.IsLearner(add)"; "core.IsLearner(remove) == core.IsLearner(add) && b.currentPeers[i] == nil"; "core.IsLearner(add)";
   "!core.IsLearner(remove) && b.currentPeers[j] == nil"; "core.IsLearner(remove)"; "!core.IsLearner(add) && j != k"].
Proof. reflexivity. Qed.

Lemma replace_candidates_ok : replace_candidates =
  ["best, stepPlan{promote: promote, demote: demote}"; "best, stepPlan{demote: demote, add: add}";
   "best, stepPlan{add: add, remove: remove}"; "best, stepPlan{promote: promote, add: add, remove: remove}";
   "best, stepPlan{demote: demote, add: add, remove: remove}"].
Proof. reflexivity. Qed.

Lemma skel_peerPlan_ok : skel_peerPlan =
  [Call "planReplace"; Call "IsEmpty"; IfE "!p.IsEmpty()" [Ret] []; Call "planPromotePeer"; Call "IsEmpty"; IfE "!p.IsEmpty()" [Ret] [];
   Call "planDemotePeer"; Call "IsEmpty"; IfE "!p.IsEmpty()" [Ret] []; Call "planRemovePeer"; Call "IsEmpty"; IfE "!p.IsEmpty()" [Ret] [];
   Call "planAddPeer"; Call "IsEmpty"; IfE "!p.IsEmpty()" [Ret] []; Ret].
Proof. reflexivity. Qed.

Lemma skel_planReplace_ok : skel_planReplace =
  [ForE [ForE [Call "planReplaceLeaders"]];
   ForE [ForE [IfE "!core.IsLearner(add)" [Call "planReplaceLeaders"] []]];
   ForE [ForE [IfE "core.IsLearner(remove) == core.IsLearner(add) && b.currentPeers[i] == nil" [Call "planReplaceLeaders"] []]];
   ForE [ForE [IfE "core.IsLearner(add)" [ForE [IfE "!core.IsLearner(remove) && b.currentPeers[j] == nil" [Call "planReplaceLeaders"] []]] []]];
   ForE [ForE [IfE "core.IsLearner(remove)" [ForE [IfE "!core.IsLearner(add) && j != k" [Call "planReplaceLeaders"] []]] []]];
   Ret].
Proof. reflexivity. Qed.

(* leaderBeforeAdd: an allowed current peer; leaderBeforeRemove: an allowed current peer, the promoted or the added
   peer - never the store that is demoted or removed *)
Lemma skel_planReplaceLeaders_ok : skel_planReplaceLeaders =
  [ForE [Call "allowLeader"; IfE "!b.allowLeader(b.currentPeers[leaderBeforeAdd], false)" [Cont] [];
         ForE [Call "allowLeader";
               IfE "leaderBeforeRemove != next.demote.GetStoreId() && leaderBeforeRemove != next.remove.GetStoreId() && b.allowLeader(b.currentPeers[leaderBeforeRemove], false)"
                 [Call "comparePlan"] []];
         Call "allowLeader";
         IfE "next.promote != nil && next.promote.GetStoreId() != next.demote.GetStoreId() && next.promote.GetStoreId() != next.remove.GetStoreId() && b.allowLeader(next.promote, false)"
           [Call "comparePlan"] [];
         Call "allowLeader";
         IfE "next.add != nil && next.add.GetStoreId() != next.demote.GetStoreId() && next.add.GetStoreId() != next.remove.GetStoreId() && b.allowLeader(next.add, false)"
           [Call "comparePlan"] []];
   Ret].
Proof. reflexivity. Qed.

Lemma skel_plan_single_ok :
  skel_planPromotePeer = [ForE [Ret]; Ret]
  /\ skel_planDemotePeer =
       [ForE [ForE [Call "allowLeader"; IfE "b.allowLeader(b.currentPeers[leader], false) && leader != d.GetStoreId()" [Call "comparePlan"] []]]; Ret]
  /\ skel_planRemovePeer =
       [ForE [ForE [Call "allowLeader"; IfE "b.allowLeader(b.currentPeers[leader], false) && leader != r.GetStoreId()" [Call "comparePlan"] []]]; Ret]
  /\ skel_planAddPeer =
       [ForE [IfE "b.currentPeers[i] != nil" [Cont] [];
              ForE [Call "allowLeader"; IfE "b.allowLeader(b.currentPeers[leader], false)" [Call "comparePlan"] []]]; Ret].
Proof. repeat split; reflexivity. Qed.

Lemma prepare_guards_ok : prepare_guards =
  ["!core.IsLearner(peer)"; "voterCount == 0"; "n == nil"; "o.GetId() != n.GetId()"; "core.IsLearner(o)"; "!core.IsLearner(n)";
   "core.IsLearner(n)"; "b.allowDemote"; "o == nil || (!b.allowDemote && !core.IsLearner(o) && core.IsLearner(n))";
   "n.GetId() == 0 || o != nil"; "err != nil"; "!ok || core.IsLearner(peer)"; "b.targetLeaderStoreID != 0";
   "!b.allowLeader(targetLeader, b.forceTargetLeader)";
   "len(b.toAdd)+len(b.toRemove)+len(b.toPromote)+len(b.toDemote) <= 1"].
Proof. reflexivity. Qed.

(* every step kind of step.go has a constructor in model/C08_Steps.v *)
Lemma step_kinds_ok : step_kinds =
  ["TransferLeader"; "AddPeer"; "AddLearner"; "PromoteLearner"; "RemovePeer"; "MergeRegion"; "SplitRegion";
   "AddLightPeer"; "AddLightLearner"; "DemoteFollower"; "ChangePeerV2Enter"; "ChangePeerV2Leave"].
Proof. reflexivity. Qed.

(* the call sequences of the Create*Operator helpers, as the driver's modelOps table assumes them *)
Lemma helper_calls_ok : helper_calls =
  [("CreateAddPeerOperator", ["NewBuilder"; "AddPeer"; "Build"]);
   ("CreatePromoteLearnerOperator", ["NewBuilder"; "PromoteLearner"; "Build"]);
   ("CreateRemovePeerOperator", ["NewBuilder"; "RemovePeer"; "Build"]);
   ("CreateTransferLeaderOperator", ["NewBuilder"; "SkipOriginJointStateCheck"; "SetLeader"; "Build"]);
   ("CreateForceTransferLeaderOperator", ["NewBuilder"; "SkipOriginJointStateCheck"; "SetLeader"; "EnableForceTargetLeader"; "Build"]);
   ("CreateMoveRegionOperator", ["NewBuilder"; "SetPeers"; "SetExpectedRoles"; "Build"]);
   ("CreateMovePeerOperator", ["NewBuilder"; "RemovePeer"; "AddPeer"; "Build"]);
   ("CreateReplaceLeaderPeerOperator", ["NewBuilder"; "RemovePeer"; "AddPeer"; "SetLeader"; "Build"]);
   ("CreateMoveLeaderOperator", ["NewBuilder"; "RemovePeer"; "AddPeer"; "SetLeader"; "Build"]);
   ("CreateMergeRegionOperator", ["NewBuilder"; "SetPeers"; "Build"]);
   ("CreateScatterRegionOperator", ["NewBuilder"; "SetPeers"; "SetLeader"; "EnableLightWeight"; "EnableForceTargetLeader"; "Build"]);
   ("CreateLeaveJointStateOperator", ["NewBuilder"; "SkipOriginJointStateCheck"])].
Proof. reflexivity. Qed.
