(* C08 — structural obligations on builder.go / step.go / create_operator.go as they are now
   (regenerated gen/Gen_C08.v).  The model dispatches on plan_order / plan_prefs / leader_prefs /
   no_leader_roles; these lemmas pin the values the general proofs and the driver's helper table were
   written against. *)
From PDV Require Import lib.Skel gen.Gen_C08.

Lemma plan_order_ok : plan_order =
  ["planReplace"; "planPromotePeer"; "planDemotePeer"; "planRemovePeer"; "planAddPeer"].
Proof. reflexivity. Qed.

Lemma plan_prefs_ok : plan_prefs =
  ["planPreferReplaceByNearest"; "planPreferUpStoreAsLeader"; "planPreferOldPeerAsLeader"; "planPreferAddOrPromoteTargetLeader"; "planPreferTargetLeader"; "planPreferLessLeaderTransfer"].
Proof. reflexivity. Qed.

Lemma leader_prefs_ok : leader_prefs =
  ["preferLeaderRoleAsLeader"; "preferUpStoreAsLeader"; "preferCurrentLeader"; "preferKeepVoterAsLeader"; "preferOldPeerAsLeader"].
Proof. reflexivity. Qed.

(* learners and demoting voters are never leader candidates *)
Lemma no_leader_roles_ok : no_leader_roles =
  ["PeerRole_Learner"; "PeerRole_DemotingVoter"].
Proof. reflexivity. Qed.

Lemma skel_allowLeader_ok : skel_allowLeader =
  [SwitchE [[Ret]]; IfE "peer.GetStoreId() == b.currentLeaderStoreID" [Ret] []; Call "GetStore"; IfE "(b.cluster.GetStore(peer.GetStoreId())) == nil" [Ret] []; IfE "ignoreClusterLimit" [Ret] []; Call "Target"; IfE "!(&filter.StoreStateFilter{ActionScope: ""operator-builder"", TransferLeader: true}).Target(b.cluster.GetOpts(), (b.cluster.GetStore(peer.GetStoreId())))" [Ret] []; IfE "len(b.rules) == 0" [Ret] []; ForE [Call "MatchLabelConstraints"; IfE "(each#v(b.rules).Role == placement.Leader || each#v(b.rules).Role == placement.Voter) && placement.MatchLabelConstraints((b.cluster.GetStore(peer.GetStoreId())), each#v(b.rules).LabelConstraints)" [Ret] []]; Ret].
Proof. reflexivity. Qed.

(* joint path: learners first, target leader chosen, then one of three leader placements around a single
   enter/leave pair, removals last *)
Lemma skel_joint_ok : skel_buildStepsWithJointConsensus =
  [ForE [IfE "!core.IsLearner((b.toAdd[each#v(b.toAdd.IDs())]))" [Call "execAddPeer"] [Call "execAddPeer"]]; Call "setTargetLeaderIfNotExist"; IfE "b.targetLeaderStoreID == 0" [Ret] []; IfE "(b.originPeers[b.targetLeaderStoreID])#1 && !core.IsLearner((b.originPeers[b.targetLeaderStoreID])#0)" [IfE "b.originLeaderStoreID != b.targetLeaderStoreID" [Call "execTransferLeader"] []; Call "execChangePeerV2"] [IfE "b.originLeaderStoreID == 0 || ((b.targetPeers[b.originLeaderStoreID])#1 && !core.IsLearner((b.targetPeers[b.originLeaderStoreID])#0))" [Call "execChangePeerV2"; IfE "b.originLeaderStoreID != b.targetLeaderStoreID" [Call "execTransferLeader"] []] [Call "execChangePeerV2"]]; ForE [Call "execRemovePeer"]; Ret].
Proof. reflexivity. Qed.

(* leadership moves inside the joint state only in the third branch *)
Lemma joint_v2_args_ok : joint_v2_args =
  ["true, false"; "true, false"; "true, true"].
Proof. reflexivity. Qed.

Lemma skel_execChangePeerV2_ok : skel_execChangePeerV2 =
  [Assign "b.toPromote" "= newPeersMap()"; Assign "b.toDemote" "= newPeersMap()"; IfE "needEnter" [Assign "b.steps" "= append(b.steps, (ChangePeerV2Enter{ PromoteLearners: make([]PromoteLearner, 0, len(b.toPromote)), DemoteVoters: make([]DemoteVoter, 0, len(b.toDemote)), }))"] []; IfE "needTransferLeader && b.originLeaderStoreID != b.targetLeaderStoreID" [Call "execTransferLeader"] []; Assign "b.steps" "= append(b.steps, ChangePeerV2Leave((ChangePeerV2Enter{ PromoteLearners: make([]PromoteLearner, 0, len(b.toPromote)), DemoteVoters: make([]DemoteVoter, 0, len(b.toDemote)), })))"].
Proof. reflexivity. Qed.

(* non-joint path: per plan  transfer, add, promote, transfer, demote, remove — in this order *)
Lemma skel_nonjoint_ok : skel_buildStepsWithoutJointConsensus =
  [Call "initStepPlanPreferFuncs"; ForE [Call "peerPlan"; Call "IsEmpty"; IfE "(b.peerPlan()).IsEmpty()" [Ret] []; IfE "(b.peerPlan()).leaderBeforeAdd != 0 && (b.peerPlan()).leaderBeforeAdd != b.currentLeaderStoreID" [Call "execTransferLeader"] []; IfE "(b.peerPlan()).add != nil" [Call "execAddPeer"] []; IfE "(b.peerPlan()).promote != nil" [Call "execPromoteLearner"] []; IfE "(b.peerPlan()).leaderBeforeRemove != 0 && (b.peerPlan()).leaderBeforeRemove != b.currentLeaderStoreID" [Call "execTransferLeader"] []; IfE "(b.peerPlan()).demote != nil" [Call "execDemoteFollower"] []; IfE "(b.peerPlan()).remove != nil" [Call "execRemovePeer"] []]; Call "setTargetLeaderIfNotExist"; IfE "b.targetLeaderStoreID != 0 && b.currentLeaderStoreID != b.targetLeaderStoreID && b.currentPeers[b.targetLeaderStoreID] != nil" [Call "execTransferLeader"] []; IfE "len(b.steps) == 0" [Ret] []; Ret].
Proof. reflexivity. Qed.

(* planReplace: five alternatives (promote+demote, add voter+demote, add+remove of the same kind on a free store,
   add learner+promote+remove voter on a free store, add voter+demote+remove learner) *)
Lemma replace_guards_ok : replace_guards =
  ["!core.IsLearner((b.toAdd[each#v(b.toAdd.IDs())]))"; "(core.IsLearner((b.toRemove[each#v(b.toRemove.IDs())])) == core.IsLearner((b.toAdd[each#v(b.toAdd.IDs())])) || (len(b.toAdd) == 1 && len(b.toRemove) == 1 && len(b.toPromote) == 0 && len(b.toDemote) == 0)) && b.currentPeers[each#v(b.toAdd.IDs())] == nil"; "core.IsLearner((b.toAdd[each#v(b.toAdd.IDs())]))"; "!core.IsLearner((b.toRemove[each#v(b.toRemove.IDs())])) && b.currentPeers[each#v(b.toAdd.IDs())] == nil"; "core.IsLearner((b.toRemove[each#v(b.toRemove.IDs())]))"; "!core.IsLearner((b.toAdd[each#v(b.toAdd.IDs())])) && each#v(b.toRemove.IDs()) != each#v(b.toAdd.IDs())"].
Proof. reflexivity. Qed.

Lemma replace_defs_ok : replace_defs =
  ["(len(b.toAdd) == 1 && len(b.toRemove) == 1 && len(b.toPromote) == 0 && len(b.toDemote) == 0) := len(b.toAdd) == 1 && len(b.toRemove) == 1 && len(b.toPromote) == 0 && len(b.toDemote) == 0"].
Proof. reflexivity. Qed.

Lemma replace_candidates_ok : replace_candidates =
  ["local1, stepPlan{(b.toPromote[each#v(b.toPromote.IDs())]): (b.toPromote[each#v(b.toPromote.IDs())]), (b.toDemote[each#v(b.toDemote.IDs())]): (b.toDemote[each#v(b.toDemote.IDs())])}"; "local1, stepPlan{(b.toDemote[each#v(b.toDemote.IDs())]): (b.toDemote[each#v(b.toDemote.IDs())]), (b.toAdd[each#v(b.toAdd.IDs())]): (b.toAdd[each#v(b.toAdd.IDs())])}"; "local1, stepPlan{(b.toAdd[each#v(b.toAdd.IDs())]): (b.toAdd[each#v(b.toAdd.IDs())]), (b.toRemove[each#v(b.toRemove.IDs())]): (b.toRemove[each#v(b.toRemove.IDs())])}"; "local1, stepPlan{(b.toPromote[each#v(b.toPromote.IDs())]): (b.toPromote[each#v(b.toPromote.IDs())]), (b.toAdd[each#v(b.toAdd.IDs())]): (b.toAdd[each#v(b.toAdd.IDs())]), (b.toRemove[each#v(b.toRemove.IDs())]): (b.toRemove[each#v(b.toRemove.IDs())])}"; "local1, stepPlan{(b.toDemote[each#v(b.toDemote.IDs())]): (b.toDemote[each#v(b.toDemote.IDs())]), (b.toAdd[each#v(b.toAdd.IDs())]): (b.toAdd[each#v(b.toAdd.IDs())]), (b.toRemove[each#v(b.toRemove.IDs())]): (b.toRemove[each#v(b.toRemove.IDs())])}"].
Proof. reflexivity. Qed.

Lemma skel_peerPlan_ok : skel_peerPlan =
  [Call "planReplace"; Call "IsEmpty"; IfE "!(b.planReplace()).IsEmpty()" [Ret] []; Call "planPromotePeer"; Call "IsEmpty"; IfE "!(b.planPromotePeer()).IsEmpty()" [Ret] []; Call "planDemotePeer"; Call "IsEmpty"; IfE "!(b.planDemotePeer()).IsEmpty()" [Ret] []; Call "planRemovePeer"; Call "IsEmpty"; IfE "!(b.planRemovePeer()).IsEmpty()" [Ret] []; Call "planAddPeer"; Call "IsEmpty"; IfE "!(b.planAddPeer()).IsEmpty()" [Ret] []; Ret].
Proof. reflexivity. Qed.

Lemma skel_planReplace_ok : skel_planReplace =
  [ForE [ForE [Call "planReplaceLeaders"]]; ForE [ForE [IfE "!core.IsLearner((b.toAdd[each#v(b.toAdd.IDs())]))" [Call "planReplaceLeaders"] []]]; ForE [ForE [IfE "(core.IsLearner((b.toRemove[each#v(b.toRemove.IDs())])) == core.IsLearner((b.toAdd[each#v(b.toAdd.IDs())])) || (len(b.toAdd) == 1 && len(b.toRemove) == 1 && len(b.toPromote) == 0 && len(b.toDemote) == 0)) && b.currentPeers[each#v(b.toAdd.IDs())] == nil" [Call "planReplaceLeaders"] []]]; ForE [ForE [IfE "core.IsLearner((b.toAdd[each#v(b.toAdd.IDs())]))" [ForE [IfE "!core.IsLearner((b.toRemove[each#v(b.toRemove.IDs())])) && b.currentPeers[each#v(b.toAdd.IDs())] == nil" [Call "planReplaceLeaders"] []]] []]]; ForE [ForE [IfE "core.IsLearner((b.toRemove[each#v(b.toRemove.IDs())]))" [ForE [IfE "!core.IsLearner((b.toAdd[each#v(b.toAdd.IDs())])) && each#v(b.toRemove.IDs()) != each#v(b.toAdd.IDs())" [Call "planReplaceLeaders"] []]] []]]; Ret].
Proof. reflexivity. Qed.

(* leaderBeforeAdd: an allowed current peer; leaderBeforeRemove: an allowed current peer, the promoted or the added
   peer - never the store that is demoted or removed *)
(* allowLeaderAfter: allowLeader with the given store as current leader (set, restored on return) *)
Lemma skel_allowLeaderAfter_ok : skel_allowLeaderAfter =
  [Assign "b.currentLeaderStoreID" "= leader"; DeferE [Assign "b.currentLeaderStoreID" "= (b.currentLeaderStoreID)"]; Call "allowLeader"; Ret].
Proof. reflexivity. Qed.

Lemma skel_planReplaceLeaders_ok : skel_planReplaceLeaders =
  [ForE [Call "allowLeader"; IfE "!b.allowLeader(b.currentPeers[each#v(b.currentPeers.IDs())], false)" [Cont] []; ForE [Call "allowLeaderAfter"; IfE "each#v2(b.currentPeers.IDs()) != next.demote.GetStoreId() && each#v2(b.currentPeers.IDs()) != next.remove.GetStoreId() && b.allowLeaderAfter(b.currentPeers[each#v2(b.currentPeers.IDs())], each#v(b.currentPeers.IDs()))" [Call "comparePlan"] []]; Call "allowLeaderAfter"; IfE "next.promote != nil && next.promote.GetStoreId() != next.demote.GetStoreId() && next.promote.GetStoreId() != next.remove.GetStoreId() && b.allowLeaderAfter(next.promote, each#v(b.currentPeers.IDs()))" [Call "comparePlan"] []; Call "allowLeaderAfter"; IfE "next.add != nil && next.add.GetStoreId() != next.demote.GetStoreId() && next.add.GetStoreId() != next.remove.GetStoreId() && b.allowLeaderAfter(next.add, each#v(b.currentPeers.IDs()))" [Call "comparePlan"] []]; Ret].
Proof. reflexivity. Qed.

Lemma skel_plan_single_ok :
  skel_planPromotePeer = [ForE [Ret]; Ret]
  /\ skel_planDemotePeer =
       [ForE [ForE [Call "allowLeader"; IfE "b.allowLeader(b.currentPeers[each#v(b.currentPeers.IDs())], false) && each#v(b.currentPeers.IDs()) != (b.toDemote[each#v(b.toDemote.IDs())]).GetStoreId()" [Call "comparePlan"] []]]; Ret]
  /\ skel_planRemovePeer =
       [ForE [ForE [Call "allowLeader"; IfE "b.allowLeader(b.currentPeers[each#v(b.currentPeers.IDs())], false) && each#v(b.currentPeers.IDs()) != (b.toRemove[each#v(b.toRemove.IDs())]).GetStoreId()" [Call "comparePlan"] []]]; Ret]
  /\ skel_planAddPeer =
       [ForE [IfE "b.currentPeers[each#v(b.toAdd.IDs())] != nil" [Cont] []; ForE [Call "allowLeader"; IfE "b.allowLeader(b.currentPeers[each#v(b.currentPeers.IDs())], false)" [Call "comparePlan"] []]]; Ret].
Proof. repeat split; reflexivity. Qed.

Lemma prepare_guards_ok : prepare_guards =
  ["!core.IsLearner(each#v(b.targetPeers))"; "local1 == 0"; "local2 == nil"; "each#v(b.originPeers).GetId() != local2.GetId()"; "core.IsLearner(each#v(b.originPeers))"; "!core.IsLearner(local2)"; "core.IsLearner(local2)"; "b.allowDemote"; "(b.originPeers[local3.GetStoreId()]) == nil || (!b.allowDemote && !core.IsLearner((b.originPeers[local3.GetStoreId()])) && core.IsLearner(local3))"; "local3.GetId() == 0 || (b.originPeers[local3.GetStoreId()]) != nil"; "(b.cluster.AllocID())#1 != nil"; "!(b.targetPeers[b.targetLeaderStoreID])#1 || core.IsLearner((b.targetPeers[b.targetLeaderStoreID])#0)"; "b.targetLeaderStoreID != 0"; "!b.allowLeader((b.targetPeers[b.targetLeaderStoreID]), b.forceTargetLeader)"; "len(b.toAdd)+len(b.toRemove)+len(b.toPromote)+len(b.toDemote) <= 1"].
Proof. reflexivity. Qed.

(* every step kind of step.go has a constructor in model/C08_Steps.v *)
Lemma step_kinds_ok : step_kinds =
  ["TransferLeader"; "AddPeer"; "AddLearner"; "PromoteLearner"; "RemovePeer"; "MergeRegion"; "SplitRegion"; "AddLightPeer"; "AddLightLearner"; "DemoteFollower"; "ChangePeerV2Enter"; "ChangePeerV2Leave"].
Proof. reflexivity. Qed.

(* the call sequences of the Create*Operator helpers, as the driver's modelOps table assumes them *)
Lemma helper_calls_ok : helper_calls =
  [("CreateAddPeerOperator", ["NewBuilder"; "AddPeer"; "Build"]);
   ("CreatePromoteLearnerOperator", ["NewBuilder"; "PromoteLearner"; "Build"]);
   ("CreateRemovePeerOperator", ["NewBuilder"; "RemovePeer"; "Build"]);
   ("CreateTransferLeaderOperator", ["NewBuilder"; "SkipOriginJointStateCheck"; "SetLeader"; "Build"]);
   ("CreateForceTransferLeaderOperator", ["NewBuilder"; "SkipOriginJointStateCheck"; "SetLeader"; "EnableForceTargetLeader"; "Build"]);
   ("CreateMoveRegionOperator", ["NewBuilder"; "SetPeers"; "SetExpectedRoles"; "Build"]);
   ("CreateMovePeerOperator", ["NewBuilder"; "RemovePeer"; "AddPeer"; "Build"]);
   ("CreateReplaceLeaderPeerOperator", ["NewBuilder"; "RemovePeer"; "AddPeer"; "SetLeader"; "Build"]);
   ("CreateMoveLeaderOperator", ["NewBuilder"; "RemovePeer"; "AddPeer"; "SetLeader"; "Build"]);
   ("CreateMergeRegionOperator", ["NewBuilder"; "SetPeers"; "Build"]);
   ("CreateScatterRegionOperator", ["NewBuilder"; "SetPeers"; "SetLeader"; "EnableLightWeight"; "EnableForceTargetLeader"; "Build"]);
   ("CreateLeaveJointStateOperator", ["NewBuilder"; "SkipOriginJointStateCheck"])].
Proof. reflexivity. Qed.

(* where peer ids come from: outside tests and mocks every metapb.Peer literal under server/ that sets Id copies the id of
   an existing peer - the only new id is the one prepareBuild takes from b.cluster.AllocID(); every other new peer
   (schedulers, checkers, handlers) reaches the builder with Id 0 *)
Lemma peer_ids_ok : peer_literals_with_id =
  ["server/core/region_option.go: WithLearners: each#v(learners).GetId()"; "server/schedule/filter/filters.go: createRegionForRuleFit: each#v(peers).Id"; "server/schedule/operator/builder.go: DemoteVoter: (b.targetPeers[storeID])#0.GetId()"; "server/schedule/operator/builder.go: PromoteLearner: (b.targetPeers[storeID])#0.GetId()"; "server/schedule/operator/builder.go: buildStepsWithJointConsensus: (b.toAdd[each#v(b.toAdd.IDs())]).GetId()"; "server/schedule/operator/builder.go: buildStepsWithJointConsensus: (b.toRemove[each#v(b.toRemove.IDs())]).GetId()"; "server/schedule/operator/builder.go: prepareBuild: (b.cluster.AllocID())#0"; "server/schedule/operator/builder.go: prepareBuild: each#v(b.originPeers).GetId()"; "server/schedule/operator/step.go: GetRequest: each#v(cpe.DemoteVoters).PeerID"; "server/schedule/operator/step.go: GetRequest: each#v(cpe.PromoteLearners).PeerID"; "server/schedule/operator_controller.go: addLearnerNode: id"; "server/schedule/operator_controller.go: addNode: id"].
Proof. reflexivity. Qed.

(* who may build on a region that is in a joint state: only the two leader-transfer helpers and the leave-joint helper name
   the option SkipOriginJointStateCheck, and no helper of create_operator.go lets its caller pass builder options.  The
   planner (prepareBuild and both build paths) is written for - and proved on - origins without IncomingVoter /
   DemotingVoter peers; an admin or recovery entry point that hands it a joint origin is a new way into the planner *)
Lemma skip_joint_check_sites_ok : skip_joint_check_sites =
  ["server/schedule/operator/create_operator.go:CreateForceTransferLeaderOperator"; "server/schedule/operator/create_operator.go:CreateLeaveJointStateOperator"; "server/schedule/operator/create_operator.go:CreateTransferLeaderOperator"].
Proof. reflexivity. Qed.
Lemma helpers_taking_builder_options_ok : helpers_taking_builder_options = [].
Proof. reflexivity. Qed.

(* the gRPC layer above the builder: Server.ScatterRegion hands the scatterer - and so the builder - the region PD learnt
   from heartbeats (leader, pending and down peers); the copy in the request is used only for a region PD does not know at
   all.  A plan is only as good as the leader it was built for: a leader taken from the request can be behind an election,
   which does not change the epoch *)
Lemma skel_grpc_ScatterRegion_ok : skel_grpc_ScatterRegion =
  [IfE "!s.isLocalRequest((getForwardedHost(ctx)))" [IfE "(s.getDelegateClient(ctx, (getForwardedHost(ctx))))#1 != nil" [Ret] []; Ret] []; IfE "(s.validateRequest(request.GetHeader())) != nil" [Ret] []; IfE "(s.GetRaftCluster()) == nil" [Ret] []; IfE "len(request.GetRegionsId()) > 0" [IfE "((s.GetRaftCluster()).GetRegionScatter().ScatterRegionsByID(request.GetRegionsId(), request.GetGroup(), int(request.GetRetryLimit())))#2 != nil" [Ret] []; IfE "len(((s.GetRaftCluster()).GetRegionScatter().ScatterRegionsByID(request.GetRegionsId(), request.GetGroup(), int(request.GetRetryLimit())))#1) > 0" [DeferE [Ret]] []; Ret] []; Call "GetRegion"; IfE "local3 == nil" [Call "GetRegion"; IfE "request.GetRegion() == nil" [Ret] []; Call "GetRegion"; Call "NewRegionInfo"] []; Call "Scatter"; IfE "((s.GetRaftCluster()).GetRegionScatter().Scatter(local3, request.GetGroup()))#1 != nil" [Ret] []; Ret].
Proof. reflexivity. Qed.
