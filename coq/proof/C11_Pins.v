(* C11 - every piece of source text, call chain, filter list and skeleton the translator regenerates from /repo (gen/Gen_C11.v),
   pinned to the value the model in model/C11_*.v was written against.  Log / metrics statements are dropped and function-local
   variable names are canonical (v1, v2, ...) in these values, so adding a log line or renaming a local does not touch them; any
   other edit of an anchored function breaks exactly one lemma here and the check then searches for a failing input. *)
From PDV Require Import lib.Skel lib.C10_Cluster gen.Gen_C11.
Local Open Scope string_scope.

Lemma pin_state_kinds : Gen_C11.state_kinds =
  ["leaderSource"; "regionSource"; "leaderTarget"; "regionTarget"; "scatterRegionTarget"].
Proof. reflexivity. Qed.

Lemma pin_src_excludedFilter_Target : Gen_C11.src_excludedFilter_Target =
  "{ _, v1 := f.targets[store.GetID()] return !v1 }".
Proof. reflexivity. Qed.

Lemma pin_src_storageThresholdFilter_Target : Gen_C11.src_storageThresholdFilter_Target =
  "{ return !store.IsLowSpace(opt.GetLowSpaceRatio()) }".
Proof. reflexivity. Qed.

Lemma pin_src_specialUseFilter_Target : Gen_C11.src_specialUseFilter_Target =
  "{ return !f.constraint.MatchStore(store) }".
Proof. reflexivity. Qed.

Lemma pin_src_isolationFilter_Target : Gen_C11.src_isolationFilter_Target =
  "{ if len(f.constraintSet) <= 0 { return true } for _, v1 := range f.constraintSet { v2 := true for v3, v4 := range v1 { v2 = store.GetLabelValue(f.locationLabels[v3]) == v4 && v2 } if len(v1) > 0 && v2 { return false } } return true }".
Proof. reflexivity. Qed.

Lemma pin_src_distinctScoreFilter_Target : Gen_C11.src_distinctScoreFilter_Target =
  "{ v1 := core.DistinctScore(f.labels, f.stores, store) switch f.policy { case locationSafeguard: return v1 >= f.safeScore case locationImprove: return v1 > f.safeScore default: return false } }".
Proof. reflexivity. Qed.

Lemma pin_src_labelConstraintFilter_Target : Gen_C11.src_labelConstraintFilter_Target =
  "{ return placement.MatchLabelConstraints(store, f.constraints) }".
Proof. reflexivity. Qed.

Lemma pin_src_engineFilter_Target : Gen_C11.src_engineFilter_Target =
  "{ return f.constraint.MatchStore(store) }".
Proof. reflexivity. Qed.

Lemma pin_src_ordinaryEngineFilter_Target : Gen_C11.src_ordinaryEngineFilter_Target =
  "{ return f.constraint.MatchStore(store) }".
Proof. reflexivity. Qed.

Lemma pin_src_NewIsolationFilter : Gen_C11.src_NewIsolationFilter =
  "{ v1 := &isolationFilter{ scope: scope, locationLabels: locationLabels, constraintSet: make([][]string, 0), } // Get which idx this isolationLevel at according to locationLabels var v2 int for v3, v4 := range locationLabels { if v4 == isolationLevel { v2 = v3 break } } for _, v5 := range regionStores { var v6 []string for v7 := 0; v7 <= v2; v7++ { v6 = append(v6, v5.GetLabelValue(locationLabels[v7])) } v1.constraintSet = append(v1.constraintSet, v6) } return v1 }".
Proof. reflexivity. Qed.

Lemma pin_src_newDistinctScoreFilter : Gen_C11.src_newDistinctScoreFilter =
  "{ v1 := make([]*core.StoreInfo, 0, len(stores)-1) for _, v2 := range stores { if v2.GetID() == source.GetID() { continue } v1 = append(v1, v2) } return &distinctScoreFilter{ scope: scope, labels: labels, stores: v1, safeScore: core.DistinctScore(labels, v1, source), policy: policy, srcStore: source.GetID(), } }".
Proof. reflexivity. Qed.

Lemma pin_src_NewSpecialUseFilter : Gen_C11.src_NewSpecialUseFilter =
  "{ var v1 []string for _, v2 := range allSpecialUses { if slice.NoneOf(allowUses, func(v3 int) bool { return allowUses[v3] == v2 }) { v1 = append(v1, v2) } } return &specialUseFilter{ scope: scope, constraint: placement.LabelConstraint{Key: SpecialUseKey, Op: ""in"", Values: v1}, } }".
Proof. reflexivity. Qed.

Lemma pin_src_DistinctScore : Gen_C11.src_DistinctScore =
  "{ var v1 float64 for _, v2 := range stores { if v2.GetID() == other.GetID() { continue } if v3 := v2.CompareLocation(other, labels); v3 != -1 { v1 += math.Pow(replicaBaseScore, float64(len(labels)-v3-1)) } } return v1 }".
Proof. reflexivity. Qed.

Lemma pin_src_CompareLocation : Gen_C11.src_CompareLocation =
  "{ for v1, v2 := range labels { v3, v4 := s.GetLabelValue(v2), other.GetLabelValue(v2) if v3 != """" && v4 != """" && !strings.EqualFold(v3, v4) { return v1 } } return -1 }".
Proof. reflexivity. Qed.

Lemma pin_src_GetLabelValue : Gen_C11.src_GetLabelValue =
  "{ for _, v1 := range s.GetLabels() { if strings.EqualFold(v1.GetKey(), key) { return v1.GetValue() } } return """" }".
Proof. reflexivity. Qed.

Lemma pin_scatter_candidate_filters : Gen_C11.scatter_candidate_filters =
  ["filter.NewExcludedFilter(r.name, nil, v2)"].
Proof. reflexivity. Qed.

Lemma pin_skel_scatterRegion : Gen_C11.skel_scatterRegion =
  [Call "NewOrdinaryEngineFilter"; ForE [Call "Target"]; DeferE [ForE [Call "selectCandidates"; Call "selectStore"]]; Call "selectAvailableLeaderStores"; Call "CreateScatterRegionOperator"; IfE "v20 != nil" [Call "Put"; Ret] []; IfE "v19 != nil" [Call "Put"] []; Ret].
Proof. reflexivity. Qed.

Lemma pin_skel_selectCandidates : Gen_C11.skel_selectCandidates =
  [IfE "v1 == nil" [Ret] []; Call "NewExcludedFilter"; Call "NewPlacementSafeguard"; ForE [Call "TotalCountByStore"]; ForE [Call "TotalCountByStore"; IfE "v14 < v9 || v9 == v10" [Call "Target"] []]; Ret].
Proof. reflexivity. Qed.

Lemma pin_skel_selectStore : Gen_C11.skel_selectStore =
  [IfE "len(candidates) < 1" [Ret] []; ForE [Call "Get"]; ForE [Call "Get"; IfE "v5 == sourceStoreID && context.selectedPeer.Get(sourceStoreID, group) <= v2" [Ret] []]; IfE "v1 == nil" [Ret] []; Ret].
Proof. reflexivity. Qed.

Lemma pin_skel_selectAvailableLeaderStores : Gen_C11.skel_selectAvailableLeaderStores =
  [DeferE [IfE "len(v3) == 0" [Ret] []; ForE [IfE "(v7.Role == placement.Leader || v7.Role == placement.Voter) && placement.MatchLabelConstraints(v6, v7.LabelConstraints)" [Ret] []]; Ret]; ForE [Call "Target"]; IfE "len(v1) == 0" [IfE "peers[v14] != nil && !core.IsLearner(peers[v14])" [Ret] []] []; ForE [Call "Get"]; Ret].
Proof. reflexivity. Qed.

Lemma pin_skel_Put : Gen_C11.skel_Put =
  [Call "NewOrdinaryEngineFilter"; ForE [Call "Target"; IfE "v1.Target(r.cluster.GetOpts(), v4)" [Call "Put"] [Call "Put"]]; Call "Put"].
Proof. reflexivity. Qed.

Lemma pin_src_selectStore : Gen_C11.src_selectStore =
  "{ if len(candidates) < 1 { return peer } var v1 *metapb.Peer v2 := uint64(math.MaxUint64) for _, v3 := range candidates { v4 := context.selectedPeer.Get(v3, group) if v4 < v2 { v2 = v4 v1 = &metapb.Peer{ StoreId: v3, Role: peer.GetRole(), } } } for _, v5 := range candidates { if v5 == sourceStoreID && context.selectedPeer.Get(sourceStoreID, group) <= v2 { return peer } } if v1 == nil { return peer } return v1 }".
Proof. reflexivity. Qed.

Lemma pin_src_selectCandidates : Gen_C11.src_selectCandidates =
  "{ v1 := r.cluster.GetStore(sourceStoreID) if v1 == nil { return nil } v2 := make(map[uint64]struct{}, len(selectedStores)+len(region.GetPeers())) for v3 := range selectedStores { v2[v3] = struct{}{} } for v4 := range region.GetStoreIds() { if v4 != sourceStoreID { v2[v4] = struct{}{} } } v5 := []filter.Filter{ filter.NewExcludedFilter(r.name, nil, v2), } v6 := filter.NewPlacementSafeguard(r.name, r.cluster, region, v1) v5 = append(v5, context.filters...) v5 = append(v5, v6) v7 := r.cluster.GetStores() v8 := make([]uint64, 0) v9 := uint64(0) v10 := uint64(math.MaxUint64) for _, v11 := range r.cluster.GetStores() { v12 := context.selectedPeer.TotalCountByStore(v11.GetID()) if v12 > v9 { v9 = v12 } if v12 < v10 { v10 = v12 } } for _, v13 := range v7 { v14 := context.selectedPeer.TotalCountByStore(v13.GetID()) if v14 < v9 || v9 == v10 { if filter.Target(r.cluster.GetOpts(), v13, v5) { v8 = append(v8, v13.GetID()) } } } return v8 }".
Proof. reflexivity. Qed.

Lemma pin_src_selectAvailableLeaderStores : Gen_C11.src_selectAvailableLeaderStores =
  "{ v1 := make([]uint64, 0) v2 := &filter.StoreStateFilter{ActionScope: r.name, TransferLeader: true} // With placement rules the leader has to be on a store that a leader or voter rule selects // (the same test as the operator builder's allowLeader, which the force flag skips too). var v3 []*placement.Rule if r.cluster.GetOpts().IsPlacementRulesEnabled() { for _, v4 := range r.cluster.FitRegion(region).RuleFits { v3 = append(v3, v4.Rule) } } v5 := func(v6 *core.StoreInfo) bool { if len(v3) == 0 { return true } for _, v7 := range v3 { if (v7.Role == placement.Leader || v7.Role == placement.Voter) && placement.MatchLabelConstraints(v6, v7.LabelConstraints) { return true } } return false } for v8, v9 := range peers { v10 := r.cluster.GetStore(v8) v11 := v10.GetLabelValue(filter.EngineKey) if len(v11) < 1 && !core.IsLearner(v9) && v2.Target(r.cluster.GetOpts(), v10) && v5(v10) { v1 = append(v1, v8) } } v12 := uint64(math.MaxUint64) v13 := uint64(0) if len(v1) == 0 { if v14 := region.GetLeader().GetStoreId(); peers[v14] != nil && !core.IsLearner(peers[v14]) { return v14 } for v15 := range peers { if len(r.cluster.GetStore(v15).GetLabelValue(filter.EngineKey)) < 1 { v1 = append(v1, v15) } } } for _, v16 := range v1 { v17 := context.selectedLeader.Get(v16, group) if v12 > v17 { v12 = v17 v13 = v16 } } return v13 }".
Proof. reflexivity. Qed.

Lemma pin_chain_CreateScatterRegionOperator : Gen_C11.chain_CreateScatterRegionOperator =
  ["NewBuilder(desc, cluster, origin)"; "SetPeers(targetPeers)"; "SetLeader(v4)"; "EnableLightWeight()"; "EnableForceTargetLeader()"; "Build(0)"].
Proof. reflexivity. Qed.

Lemma pin_chain_CreateMovePeerOperator : Gen_C11.chain_CreateMovePeerOperator =
  ["NewBuilder(desc, cluster, region)"; "RemovePeer(oldStore)"; "AddPeer(peer)"; "Build(kind)"].
Proof. reflexivity. Qed.

Lemma pin_chain_CreateTransferLeaderOperator : Gen_C11.chain_CreateTransferLeaderOperator =
  ["NewBuilder(desc, cluster, region, SkipOriginJointStateCheck)"; "SetLeader(targetStoreID)"; "Build(kind)"].
Proof. reflexivity. Qed.

Lemma pin_chain_CreateForceTransferLeaderOperator : Gen_C11.chain_CreateForceTransferLeaderOperator =
  ["NewBuilder(desc, cluster, region, SkipOriginJointStateCheck)"; "SetLeader(targetStoreID)"; "EnableForceTargetLeader()"; "Build(kind)"].
Proof. reflexivity. Qed.

Lemma pin_balance_region_filters : Gen_C11.balance_region_filters =
  ["filter.NewExcludedFilter(s.GetName(), nil, plan.region.GetStoreIds())"; "filter.NewPlacementSafeguard(s.GetName(), plan.cluster, plan.region, plan.source)"; "filter.NewRegionScoreFilter(s.GetName(), plan.source, plan.cluster.GetOpts())"; "filter.NewSpecialUseFilter(s.GetName())"; "&filter.StoreStateFilter{ActionScope: s.GetName(), MoveRegion: true}"].
Proof. reflexivity. Qed.

Lemma pin_balance_region_new_peer : Gen_C11.balance_region_new_peer =
  "&metapb.Peer{StoreId: plan.target.GetID(), Role: v6.Role}".
Proof. reflexivity. Qed.

Lemma pin_skel_transferPeer : Gen_C11.skel_transferPeer =
  [Call "NewCandidates"; Call "FilterTarget"; Call "Sort"; ForE [Call "shouldBalance"; Call "GetStorePeer"; Call "CreateMovePeerOperator"; IfE "v9 != nil" [Ret] []; Ret]; Ret].
Proof. reflexivity. Qed.

Lemma pin_src_hot_filterDstStores : Gen_C11.src_hot_filterDstStores =
  "{ var ( v1 []filter.Filter v2 []*core.StoreInfo ) v3 := bs.cluster.GetStore(bs.cur.srcStoreID) if v3 == nil { return nil } switch bs.opTy { case movePeer: v1 = []filter.Filter{ &filter.StoreStateFilter{ActionScope: bs.sche.GetName(), MoveRegion: true}, filter.NewExcludedFilter(bs.sche.GetName(), bs.cur.region.GetStoreIds(), bs.cur.region.GetStoreIds()), filter.NewSpecialUseFilter(bs.sche.GetName(), filter.SpecialUseHotRegion), filter.NewPlacementSafeguard(bs.sche.GetName(), bs.cluster, bs.cur.region, v3), } for v4 := range bs.stLoadDetail { v2 = append(v2, bs.cluster.GetStore(v4)) } case transferLeader: v1 = []filter.Filter{ &filter.StoreStateFilter{ActionScope: bs.sche.GetName(), TransferLeader: true}, filter.NewSpecialUseFilter(bs.sche.GetName(), filter.SpecialUseHotRegion), } if v5 := filter.NewPlacementLeaderSafeguard(bs.sche.GetName(), bs.cluster, bs.cur.region, v3); v5 != nil { v1 = append(v1, v5) } for _, v6 := range bs.cluster.GetFollowerStores(bs.cur.region) { if _, v7 := bs.stLoadDetail[v6.GetID()]; v7 { v2 = append(v2, v6) } } default: return nil } return bs.pickDstStores(v1, v2) }".
Proof. reflexivity. Qed.

Lemma pin_src_hot_pickDstStores : Gen_C11.src_hot_pickDstStores =
  "{ v1 := make(map[uint64]*storeLoadDetail, len(candidates)) v2 := bs.sche.conf.GetDstToleranceRatio() for _, v3 := range candidates { if filter.Target(bs.cluster.GetOpts(), v3, filters) { v4 := bs.stLoadDetail[v3.GetID()] v5 := v4.LoadPred.max().Loads if slice.AllOf(v5, func(v6 int) bool { if statistics.IsSelectedDim(v6) { return v5[v6]*v2 < v4.LoadPred.Expect.Loads[v6] } return true }) { v1[v3.GetID()] = bs.stLoadDetail[v3.GetID()] } } } return v1 }".
Proof. reflexivity. Qed.

Lemma pin_src_filter_Target : Gen_C11.src_filter_Target =
  "{ v1 := store.GetAddress() v2 := fmt.Sprintf(""%d"", store.GetID()) for _, v3 := range filters { if !v3.Target(opt, store) { v4, v5 := v3.(comparingFilter) v6 := v2 v7 := """" if v5 { v7 = fmt.Sprintf(""%d"", v4.GetSourceStoreID()) } return false } } return true }".
Proof. reflexivity. Qed.

Lemma pin_src_SelectTargetStores : Gen_C11.src_SelectTargetStores =
  "{ return filterStoresBy(stores, func(v1 *core.StoreInfo) bool { return slice.AllOf(filters, func(v2 int) bool { v3 := filters[v2] if !v3.Target(opt, v1) { v4, v5 := v3.(comparingFilter) v6 := fmt.Sprintf(""%d"", v1.GetID()) v7 := """" if v5 { v7 = fmt.Sprintf(""%d"", v4.GetSourceStoreID()) } return false } return true }) }) }".
Proof. reflexivity. Qed.

Lemma pin_shuffle_hot_filters : Gen_C11.shuffle_hot_filters =
  ["&filter.StoreStateFilter{ActionScope: s.GetName(), MoveRegion: true}"; "filter.NewExcludedFilter(s.GetName(), v4.GetStoreIds(), v4.GetStoreIds())"; "filter.NewPlacementSafeguard(s.GetName(), cluster, v4, v6)"].
Proof. reflexivity. Qed.

Lemma pin_chain_CreateMoveLeaderOperator : Gen_C11.chain_CreateMoveLeaderOperator =
  ["NewBuilder(desc, cluster, region)"; "RemovePeer(oldStore)"; "AddPeer(peer)"; "SetLeader(peer.GetStoreId())"; "Build(kind)"].
Proof. reflexivity. Qed.

Lemma pin_skel_grant_Schedule : Gen_C11.skel_grant_Schedule =
  [RLock "s.conf.mu"; DeferRUnlock "s.conf.mu"; ForE [Call "RandFollowerRegion"; Call "CreateForceTransferLeaderOperator"]; Ret].
Proof. reflexivity. Qed.

Lemma pin_skel_scatter_range_Schedule : Gen_C11.skel_scatter_range_Schedule =
  [Call "allowBalanceLeader"; IfE "l.allowBalanceLeader(cluster)" [Call "Schedule"; IfE "len(v2) > 0" [Call "SetDesc"; Ret] []] []; Call "allowBalanceRegion"; IfE "l.allowBalanceRegion(cluster)" [Call "Schedule"; IfE "len(v3) > 0" [Call "SetDesc"; Ret] []] []; Ret].
Proof. reflexivity. Qed.

Lemma pin_src_shuffle_scheduleAddPeer : Gen_C11.src_shuffle_scheduleAddPeer =
  "{ v1 := filter.NewPlacementSafeguard(s.GetName(), cluster, region, cluster.GetStore(oldPeer.GetStoreId())) v2 := filter.NewExcludedFilter(s.GetName(), nil, region.GetStoreIds()) v3 := filter.NewCandidates(cluster.GetStores()). FilterTarget(cluster.GetOpts(), s.filters...). FilterTarget(cluster.GetOpts(), v1, v2). RandomPick() if v3 == nil { return nil } return &metapb.Peer{StoreId: v3.GetID(), Role: oldPeer.GetRole()} }".
Proof. reflexivity. Qed.

Lemma pin_skel_transferLeaderOut : Gen_C11.skel_transferLeaderOut =
  [Call "RandLeaderRegion"; IfE "plan.region == nil" [Ret] []; Call "GetFollowerStores"; Call "NewPlacementLeaderSafeguard"; Call "SelectTargetStores"; DeferE [Ret]; ForE [Call "createOperator"; IfE "len(v9) > 0" [Ret] []]; Ret].
Proof. reflexivity. Qed.

Lemma pin_skel_transferLeaderIn : Gen_C11.skel_transferLeaderIn =
  [Call "RandFollowerRegion"; IfE "plan.region == nil" [Ret] []; Call "GetStore"; IfE "plan.source == nil" [Ret] []; Call "NewPlacementLeaderSafeguard"; Call "NewCandidates"; Call "FilterTarget"; Call "PickFirst"; IfE "v4 == nil" [Ret] []; Call "createOperator"; Ret].
Proof. reflexivity. Qed.

(* PersistOptions.CheckLabelProperty: two nested loops, `return true` on the first (entry, label) pair with equal key and value,
   `false` after both loops = lib/C10_Cluster.check_label_property (existsb over entries of existsb over labels) *)
Lemma pin_src_CheckLabelProperty : Gen_C11.src_CheckLabelProperty =
  "{ v1 := o.labelProperty.Load().(LabelPropertyConfig) for _, v2 := range v1[typ] { for _, v3 := range labels { if v3.Key == v2.Key && v3.Value == v2.Value { return true } } } return false }".
Proof. reflexivity. Qed.
