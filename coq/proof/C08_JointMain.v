(* C08 — the general theorem for the joint build path: for every region, every sequence of builder calls and
   every cluster, if the builder model takes the joint path and produces a plan, the checker accepts it. *)
From Coq Require Import String Sorting.Sorted.
From PDV Require Import lib.Base gen.Gen_C08 model.C08_Steps model.C08_Builder
     proof.C08_ListFacts proof.C08_PmapFacts proof.C08_SimPhases proof.C08_JointScript proof.C08_PrepareFacts
     proof.C08_JointBuild proof.C08_JointFacts proof.C08_Skel.
Local Open Scope list_scope.
Local Open Scope Z_scope.

(* ---------- what NewBuilder and the API calls keep ---------- *)
Lemma NJ_of_not_joint ps : existsb in_joint ps = false -> NJ ps.
Proof.
  intros H p Hp. destruct (prole p) eqn:E; auto; exfalso;
    assert (X : existsb in_joint ps = true) by (apply existsb_exists; exists p; split; [exact Hp|unfold in_joint; rewrite E; reflexivity]);
    congruence.
Qed.

Lemma pm_of_list_In l x : In x (pm_of_list l) -> In x l.
Proof.
  unfold pm_of_list.
  assert (G : forall l m, In x (fold_left pm_set l m) -> In x l \/ In x m).
  { clear l. induction l as [|p r IH]; intros m H; cbn [fold_left] in H; [right; exact H|].
    destruct (IH _ H) as [H1|H1]; [left; right; exact H1|]. apply pm_set_In in H1 as [->|H1]; [left; left; reflexivity|right; exact H1]. }
  intros H. destruct (G l [] H) as [H1|[]]; exact H1.
Qed.

Lemma pm_del_sorted m st : PSorted m -> PSorted (pm_del m st).
Proof.
  unfold PSorted, pm_del. induction 1 as [|p r Hs IH Hall]; cbn [filter]; [constructor|].
  destruct (negb (on_store st p)); [|exact IH]. constructor; [exact IH|].
  rewrite Forall_forall in *. intros x Hx. apply filter_In in Hx as [Hx _]. apply Hall. exact Hx.
Qed.

Record ApiInv (ps0 : list peer) (l0 : Z) (c : cluster) (b : bstate) : Prop := {
  ai_origin : b_origin b = pm_of_list ps0;
  ai_oleader : b_origin_leader b = l0;
  ai_cluster : b_cluster b = c;
  ai_allow : b_allow_demote b = joint_supported c;
  ai_joint : b_use_joint b = joint_supported c && joint_enabled c;
  ai_sorted : PSorted (b_target b);
  ai_nj : NJ (b_target b)
}.

Lemma api_op_inv ps0 l0 c b o b' : ApiInv ps0 l0 c b -> api_op b o = Some b' -> ApiInv ps0 l0 c b'.
Proof.
  intros [A1 A2 A3 A4 A5 A6 A7] H. destruct o; cbn [api_op] in H.
  - destruct ((pstore p =? 0) || in_joint p || is_some (pm_get (b_target b) (pstore p))) eqn:E; [discriminate|].
    inversion H; subst b'; clear H. constructor; cbn; auto; [apply pm_set_sorted; exact A6|].
    intros x Hx. apply pm_set_In in Hx as [->|Hx]; [|apply A7; exact Hx].
    apply orb_false_iff in E as [E _]. apply orb_false_iff in E as [_ E]. unfold in_joint in E. destruct (prole p); auto; discriminate.
  - destruct (negb (is_some (pm_get (b_target b) st)) || (b_tleader b =? st)); [discriminate|].
    inversion H; subst b'; clear H. constructor; cbn; auto; [apply pm_del_sorted; exact A6|].
    intros x Hx. apply A7. unfold pm_del in Hx. apply filter_In in Hx. tauto.
  - destruct (pm_get (b_target b) st) as [p|]; [|discriminate].
    destruct (negb (is_learner p) || memz st (b_unhealthy b)); [discriminate|].
    inversion H; subst b'; clear H. constructor; cbn; auto; [apply pm_set_sorted; exact A6|].
    intros x Hx. apply pm_set_In in Hx as [->|Hx]; [left; reflexivity|apply A7; exact Hx].
  - destruct (pm_get (b_target b) st) as [p|]; [|discriminate].
    destruct (is_learner p); [discriminate|].
    inversion H; subst b'; clear H. constructor; cbn; auto; [apply pm_set_sorted; exact A6|].
    intros x Hx. apply pm_set_In in Hx as [->|Hx]; [right; reflexivity|apply A7; exact Hx].
  - destruct (pm_get (b_target b) st) as [p|]; [|discriminate].
    destruct (is_learner p || memz st (b_unhealthy b)); [discriminate|].
    inversion H; subst b'; clear H. constructor; cbn; auto.
  - destruct (existsb (fun p => (pstore p =? 0) || in_joint p) ps) eqn:E; [discriminate|].
    inversion H; subst b'; clear H. constructor; cbn; auto; [apply pm_of_list_sorted|].
    intros x Hx. apply pm_of_list_In in Hx.
    assert (Ex : (pstore x =? 0) || in_joint x = false).
    { destruct ((pstore x =? 0) || in_joint x) eqn:E2; [|reflexivity].
      assert (X : existsb (fun p => (pstore p =? 0) || in_joint p) ps = true) by (apply existsb_exists; eauto). congruence. }
    apply orb_false_iff in Ex as [_ Ex]. unfold in_joint in Ex. destruct (prole x); auto; discriminate.
  - destruct (1 <? Z.of_nat (length (filter (fun e => xrole_eqb (snd e) XLeader) rs))); [discriminate|].
    destruct (Nat.eqb _ 0); [discriminate|].
    inversion H; subst b'; clear H. constructor; cbn; auto.
  - inversion H; subst b'; clear H. constructor; cbn; auto.
  - inversion H; subst b'; clear H. constructor; cbn; auto.
Qed.

Lemma api_ops_inv ps0 l0 c : forall os b b', ApiInv ps0 l0 c b -> api_ops b os = Some b' -> ApiInv ps0 l0 c b'.
Proof.
  induction os as [|o os IH]; intros b b' I H; cbn [api_ops] in H; [inversion H; subst; exact I|].
  destruct (api_op b o) as [b1|] eqn:E; [|discriminate]. eapply IH; [eapply api_op_inv; eauto|exact H].
Qed.

Lemma new_builder_inv i b0 :
  new_builder i = Some b0 -> ND (peers (i_region i)) -> NJ (peers (i_region i)) ->
  ApiInv (peers (i_region i)) (leader (i_region i)) (i_cluster i) b0.
Proof.
  unfold new_builder. intros H Hnd Hnj.
  destruct (existsb (fun p => pstore p =? 0) (peers (i_region i))); [discriminate|].
  destruct (negb (is_some (pm_get (pm_of_list (peers (i_region i))) (leader (i_region i))))); [discriminate|].
  destruct (negb (i_skip_joint_check i) && is_in_joint (i_region i)); [discriminate|].
  inversion H; subst b0; clear H. constructor; cbn; auto; [apply pm_of_list_sorted|].
  intros x Hx. apply Hnj. apply pm_of_list_In. exact Hx.
Qed.

(* ---------- the theorem ---------- *)
Theorem builder_joint_plan_ok_general_pf i b ss kl kr :
  nodup_stores (peers (i_region i)) = true ->
  is_in_joint (i_region i) = false ->
  (exists lp, get_store_peer (i_region i) (leader (i_region i)) = Some lp /\ prole lp = Voter) ->
  prepared i = Some b -> b_use_joint b = true -> build i = Built ss kl kr ->
  plan_ok (goal_of b) (i_region i) ss = true.
Proof.
  intros Hnd Hnj (lp & Hlp & Hlrole) Hprep Huj Hbuild.
  destruct (i_region i) as [ps0 l0 cv rg] eqn:Er. cbn [peers leader] in *.
  apply nodup_stores_ND in Hnd. unfold is_in_joint in Hnj. cbn [peers] in Hnj. apply NJ_of_not_joint in Hnj.
  unfold get_store_peer in Hlp; cbn [peers] in Hlp. fold (lk ps0 l0) in Hlp.
  (* unfold the pipeline *)
  unfold prepared in Hprep. unfold build in Hbuild.
  destruct (new_builder i) as [b0|] eqn:Enb; [|discriminate].
  destruct (api_ops b0 (i_ops i)) as [b1|] eqn:Eapi; [|discriminate].
  rewrite Hprep in Hbuild. rewrite Huj in Hbuild.
  destruct (build_joint b) as [bF|] eqn:Ebj; [|discriminate]. inversion Hbuild; subst ss kl kr; clear Hbuild.
  assert (I0 : ApiInv ps0 l0 (i_cluster i) b0).
  { pose proof (new_builder_inv i b0 Enb) as X. rewrite Er in X. cbn [peers leader] in X. apply X; assumption. }
  pose proof (api_ops_inv _ _ _ _ _ _ I0 Eapi) as [A1 A2 A3 A4 A5 A6 A7].
  pose proof (prepare_build_spec _ _ _ Hprep) as PF.
  destruct PF as [F1 F2 F3 F4 F5 F6 F7 F8 F9 F10 F11 F12 F13 F14 F15 F16 F17 F18 F19].
  destruct (F19 Huj) as (Huj1 & _).
  assert (Hallow : b_allow_demote b1 = true).
  { rewrite A4. rewrite A5 in Huj1. apply andb_true_iff in Huj1. tauto. }
  rewrite Hallow in F13, F15, F16. rewrite A1 in F13, F14, F15, F16.
  set (target := b_target b1) in *.
  set (alloc := i_alloc i) in *.
  (* the chosen leader is a voter of the target *)
  assert (Htl : Tvoter b (joint_tl b) = true).
  { unfold Tvoter, joint_tl, set_target_leader_if_not_exist.
    destruct (joint_adds_spec (b_add b) b) as (_ & _ & _ & _ & S5 & S6 & _).
    set (bx := fold_left joint_add_one (b_add b) b) in *.
    destruct (static_fields _ _ S5) as (_ & _ & _ & S4 & _).
    destruct (b_tleader bx =? 0) eqn:E0; cbn [negb].
    - cbn [b_tleader set_tleader]. destruct (pick_target_leader_spec bx) as [Hz|(p & Hp & Ha)].
      + (* no leader found: build_joint would have failed *)
        exfalso. unfold build_joint in Ebj. fold bx in Ebj. unfold set_target_leader_if_not_exist in Ebj. rewrite E0 in Ebj. cbn [negb] in Ebj.
        cbn [b_tleader set_tleader] in Ebj. rewrite Hz in Ebj. cbn in Ebj. discriminate.
      + rewrite S4 in Hp. rewrite Hp. destruct (allow_leader_role _ _ _ Ha) as [R|R]; unfold is_learner; rewrite R; reflexivity.
    - rewrite S6. destruct F18 as [Z0|(Et & p & Hp & Hl)].
      + rewrite S6 in E0. rewrite Z0 in E0. discriminate.
      + rewrite F4. fold target. rewrite Hp, Hl. reflexivity. }
  assert (Hl0 : b_origin_leader b <> 0).
  { rewrite F3, A2. intros C. apply lk_Some in Hlp as [Hin Hs]. rewrite C in Hs.
    unfold new_builder in Enb. rewrite Er in Enb. cbn [peers] in Enb.
    destruct (existsb (fun p => pstore p =? 0) ps0) eqn:E; [discriminate|].
    assert (X : existsb (fun p => pstore p =? 0) ps0 = true) by (apply existsb_exists; exists lp; split; [exact Hin|apply Z.eqb_eq; exact Hs]).
    congruence. }
  destruct (build_joint_steps b bF F11 (eq_trans F10 (eq_sym F3)) Hl0 Htl Ebj) as (Htl0 & m & Hsteps & Hmode).
  rewrite Hsteps. unfold plan_ok.
  (* instantiate the script theorem *)
  assert (Hadd : b_add b = cfold (f_add (pm_of_list ps0) true alloc) target []) by exact F16.
  assert (Hrem : b_remove b = cfold (f_rem target true) (pm_of_list ps0) []) by exact F13.
  assert (HP : joint_P b = pairs_of (cfold f_voter_add (cfold (f_add (pm_of_list ps0) true alloc) target [])
                                          (cfold (f_pro target) (pm_of_list ps0) []))).
  { unfold joint_P. rewrite Hadd, F14. reflexivity. }
  assert (HD : joint_D b = pairs_of (cfold f_voter_rem (cfold (f_rem target true) (pm_of_list ps0) [])
                                          (cfold (f_dem target true) (pm_of_list ps0) []))).
  { unfold joint_D. rewrite Hrem, F15. reflexivity. }
  rewrite HP, HD, Hadd, Hrem. rewrite F3, A2, F7.
  set (tl := joint_tl b) in *.
  assert (Htv : tvoter target tl = true) by (unfold tvoter; unfold Tvoter in Htl; rewrite F4 in Htl; exact Htl).
  replace (plan_check (goal_of b) (Region ps0 l0 cv rg) _) with (@None string); [reflexivity|]. symmetry.
  change (Region ps0 l0 cv rg) with (reg ps0 l0 rg cv).
  apply joint_script_ok.
  - exact Hnd.
  - exact Hnj.
  - exists lp. auto.
  - apply HA_nd; assumption.
  - intros a Ha. eapply HA_fresh; eauto.
  - intros x Hx. eapply HP_char; eauto.
  - intros x Hx. eapply HD_char; eauto.
  - apply HP_nodup; assumption.
  - apply HD_nodup; assumption.
  - intros x Hx. eapply HPD_disjoint; eauto.
  - apply rem_nd; assumption.
  - intros p Hp. assert (X : lk (post_joint (pairs_of (cfold f_voter_add (cfold (f_add (pm_of_list ps0) true alloc) target []) (cfold (f_pro target) (pm_of_list ps0) []))) (pairs_of (cfold f_voter_rem (cfold (f_rem target true) (pm_of_list ps0) []) (cfold (f_dem target true) (pm_of_list ps0) []))) (ps0 ++ map learner_of (cfold (f_add (pm_of_list ps0) true alloc) target []))) (pstore p) = Some (Peer (pstore p) (pid p) Learner) /\ pm_get target (pstore p) = None) by (eapply HR_char; eauto). exact (proj1 X).
  - intros p Hp C. assert (X : pm_get target (pstore p) = None) by (eapply rem_not_target; eauto). unfold tvoter in Htv. rewrite <- C in Htv. rewrite X in Htv. discriminate.
  - (* the leader *)
    assert (Hov : forall st, Ovoter b st = ovoter ps0 st).
    { intros st. unfold Ovoter, ovoter. rewrite F2, A1. rewrite (pm_of_list_get _ _ Hnd). reflexivity. }
    assert (Htvb : forall st, Tvoter b st = tvoter target st) by (intros st; unfold Tvoter, tvoter; rewrite F4; reflexivity).
    assert (HnotD : forall st, tvoter target st = true -> ~ In st (map fst (pairs_of (cfold f_voter_rem (cfold (f_rem target true) (pm_of_list ps0) [])
                                          (cfold (f_dem target true) (pm_of_list ps0) []))))).
    { intros st Ht C. assert (X : tvoter target st = false) by (eapply D_not_tvoter; eauto). congruence. }
    rewrite F3, A2 in Hmode. fold tl in Hmode.
    destruct m.
    + destruct Hmode as (Hne & Ho). split; [auto|]. split; [|apply HnotD; exact Htv].
      rewrite Hov in Ho. eapply ps1_at_ovoter; eauto.
    + destruct Hmode as (Hne & Ho & Ht). split; [auto|]. split; [apply HnotD; rewrite <- Htvb; exact Ht|].
      eapply ps4_at_voter; eauto.
    + destruct Hmode as (Hne & Ho & Ht). split; [auto|].
      rewrite Hov in Ho. eapply P_when; eauto.
    + split; [symmetry; exact Hmode|]. rewrite Hmode. apply HnotD. exact Htv.
  - (* voters of the origin *)
    unfold goal_of; cbn [g_min_voters]. rewrite F2, A1. unfold voters_old at 1, voters_new at 1.
    rewrite !(countb_pm_of_list _ _ Hnd). fold (voters_old ps0) (voters_new ps0). lia.
  - unfold goal_of; cbn [g_min_voters]. rewrite F2, A1. unfold voters_old at 1, voters_new at 1.
    rewrite !(countb_pm_of_list _ _ Hnd). fold (voters_old ps0) (voters_new ps0). lia.
  - erewrite voters_new_enter; eauto.
    unfold goal_of; cbn [g_min_voters]. rewrite F4. fold target. lia.
  - unfold goal_of; cbn [g_target]. rewrite F4. fold target.
    apply same_placement_lookup; [apply psF_nd; assumption|apply PSorted_ND; exact A6|].
    intros st. eapply final_lookup; eauto.
  - (* requested leader *)
    unfold goal_of; cbn [g_leader]. destruct (b_tleader b =? 0) eqn:E0; [left; apply Z.eqb_eq; exact E0|right].
    unfold tl, joint_tl, set_target_leader_if_not_exist.
    destruct (joint_adds_spec (b_add b) b) as (_ & _ & _ & _ & _ & S6 & _). rewrite S6, E0. cbn [negb]. rewrite S6. reflexivity.
Qed.
