(* C07 — L2: RegionsInfo.  Representation invariant: the whole state is determined by the sorted,
   disjoint main list T — every sub-tree is `filter (has_role f s) T` with its exact size sum — and
   SetRegion / RemoveRegion transform T exactly as the list specification says. *)
From Coq Require Import Permutation Sorting.Sorted.
From PDV Require Import lib.Base lib.C07_Key gen.Gen_C07 model.C07_BTreeSpec model.C07_Region proof.C07_Sorted proof.C07_Tree.
Local Open Scope Z_scope.

(* ------------------------------------------------------------------------------------------ *)
(* peers                                                                                        *)
Lemma ins_peer_perm p l : Permutation (p :: l) (ins_peer p l).
Proof.
  induction l as [|a l IH]; cbn; [reflexivity|].
  destruct (p_id p <? p_id a); [reflexivity|]. rewrite perm_swap. constructor. exact IH.
Qed.

Lemma sort_peers_perm l : Permutation l (sort_peers l).
Proof.
  unfold sort_peers. assert (G : forall acc, Permutation (l ++ acc) (fold_left (fun acc p => ins_peer p acc) l acc)).
  { induction l as [|a l IH]; intros acc; cbn; [reflexivity|].
    rewrite <- IH. rewrite <- ins_peer_perm. apply Permutation_middle. }
  specialize (G []). rewrite app_nil_r in G. exact G.
Qed.

Lemma existsb_perm {A} (f : A -> bool) l1 l2 : Permutation l1 l2 -> existsb f l1 = existsb f l2.
Proof.
  induction 1; cbn; try congruence.
  - destruct (f x), (f y); reflexivity.
Qed.

Lemma existsb_filter {A} (f g : A -> bool) l : existsb f (filter g l) = existsb (fun x => g x && f x) l.
Proof. induction l as [|a l IH]; cbn; [reflexivity|]. destruct (g a); cbn; rewrite IH; reflexivity. Qed.

Lemma existsb_ext' {A} (f g : A -> bool) l : (forall x, In x l -> f x = g x) -> existsb f l = existsb g l.
Proof.
  induction l as [|a l IH]; intros H; cbn; [reflexivity|].
  rewrite (H a (or_introl eq_refl)), IH; [reflexivity|]. intros x Hx; apply H; right; exact Hx.
Qed.

Lemma nodup_stores_spec l : nodup_stores l = true <-> NoDup (map p_store l).
Proof.
  induction l as [|a l IH]; cbn; [split; [constructor|reflexivity]|].
  rewrite andb_true_iff, negb_true_iff, IH. split.
  - intros [H1 H2]. constructor; [|exact H2]. intros Hin. apply in_map_iff in Hin as (q & Eq & Hq).
    assert (existsb (fun q0 => p_store q0 =? p_store a) l = true); [|congruence].
    apply existsb_exists. exists q. split; [exact Hq|]. apply Z.eqb_eq. exact Eq.
  - intros H. inversion H as [|? ? H1 H2]; subst. split; [|exact H2].
    destruct (existsb _ l) eqn:E; [|reflexivity]. exfalso. apply H1.
    apply existsb_exists in E as (q & Hq & Eq). apply Z.eqb_eq in Eq. apply in_map_iff. exists q. auto.
Qed.

Lemma NoDup_stores_filter g l : NoDup (map p_store l) -> NoDup (map p_store (filter g l)).
Proof.
  induction l as [|a l IH]; cbn; intros H; [constructor|]. inversion H; subst.
  destruct (g a); cbn; [constructor; auto|auto].
  intros Hin. apply in_map_iff in Hin as (q & Eq & Hq). apply filter_In in Hq as [Hq _].
  apply H2. apply in_map_iff. exists q. auto.
Qed.

Lemma NoDup_stores_sort l : NoDup (map p_store l) -> NoDup (map p_store (sort_peers l)).
Proof.
  intros H. eapply Permutation_NoDup; [|exact H]. apply Permutation_map. apply sort_peers_perm.
Qed.

(* the roles, in the shape of the loops of SetRegion *)
Lemma role_leader s r :
  has_role FLeader s r = existsb (fun p => is_leader r p && (p_store p =? s)) (voters r).
Proof.
  unfold voters. rewrite <- (existsb_perm _ _ _ (sort_peers_perm _)), existsb_filter. cbn.
  apply existsb_ext'. intros p _. unfold is_leader. destruct (p_learner p), (p_store p =? s), (p_id p =? r_leader r); reflexivity.
Qed.
Lemma role_follower s r :
  has_role FFollower s r = existsb (fun p => not_leader r p && (p_store p =? s)) (voters r).
Proof.
  unfold voters. rewrite <- (existsb_perm _ _ _ (sort_peers_perm _)), existsb_filter. cbn.
  apply existsb_ext'. intros p _. unfold not_leader, is_leader. destruct (p_learner p), (p_store p =? s), (p_id p =? r_leader r); reflexivity.
Qed.
Lemma role_learner s r :
  has_role FLearner s r = existsb (fun p => all_peers p && (p_store p =? s)) (learners_of r).
Proof.
  unfold learners_of. rewrite <- (existsb_perm _ _ _ (sort_peers_perm _)), existsb_filter. cbn.
  apply existsb_ext'. intros p _. reflexivity.
Qed.
Lemma role_pending s r :
  has_role FPending s r = existsb (fun p => all_peers p && (p_store p =? s)) (r_pending r).
Proof. cbn. apply existsb_ext'. intros p _. reflexivity. Qed.

Lemma wf_peers_parts r : wf_peers r = true ->
  pending_in_peers r = true /\ NoDup (map p_store (r_peers r)) /\ NoDup (map p_store (r_pending r)).
Proof.
  unfold wf_peers. rewrite !andb_true_iff, !nodup_stores_spec. tauto.
Qed.

Lemma voters_nodup r : wf_peers r = true -> NoDup (map p_store (voters r)).
Proof. intros W. apply wf_peers_parts in W as (_ & N & _). apply NoDup_stores_sort, NoDup_stores_filter, N. Qed.
Lemma learners_nodup r : wf_peers r = true -> NoDup (map p_store (learners_of r)).
Proof. intros W. apply wf_peers_parts in W as (_ & N & _). apply NoDup_stores_sort, NoDup_stores_filter, N. Qed.

(* a role on store s needs a peer on store s *)
Lemma role_needs_peer f s r : wf_peers r = true -> has_role f s r = true ->
  existsb (fun p => all_peers p && (p_store p =? s)) (r_peers r) = true.
Proof.
  intros W H. apply wf_peers_parts in W as (PP & _ & _).
  destruct f; cbn in H; apply existsb_exists in H as (p & Hp & Hc); apply existsb_exists.
  - exists p. split; [exact Hp|]. cbn. apply andb_true_iff in Hc as [Hc _]. apply andb_true_iff in Hc as [_ Hc]. exact Hc.
  - exists p. split; [exact Hp|]. cbn. apply andb_true_iff in Hc as [Hc _]. apply andb_true_iff in Hc as [_ Hc]. exact Hc.
  - exists p. split; [exact Hp|]. cbn. apply andb_true_iff in Hc as [_ Hc]. exact Hc.
  - unfold pending_in_peers in PP. rewrite forallb_forall in PP. specialize (PP p Hp).
    apply existsb_exists in PP as (q & Hq & Eq). exists q. split; [exact Hq|]. cbn.
    apply Z.eqb_eq in Eq. apply Z.eqb_eq in Hc. apply Z.eqb_eq. congruence.
Qed.

(* ------------------------------------------------------------------------------------------ *)
(* fam_fold touches the tree of store s exactly once when some selected peer sits on s          *)
Lemma fam_fold_once g c ps fm s : NoDup (map p_store ps) ->
  fam_fold g c ps fm s = if existsb (fun p => c p && (p_store p =? s)) ps then g (fm s) else fm s.
Proof.
  unfold fam_fold. revert fm. induction ps as [|p ps IH]; intros fm N; cbn; [reflexivity|].
  inversion N as [|? ? N1 N2]; subst. rewrite (IH _ N2).
  assert (NP : (p_store p =? s) = true -> existsb (fun p0 => c p0 && (p_store p0 =? s)) ps = false).
  { intros E. apply Z.eqb_eq in E. destruct (existsb _ ps) eqn:X; [|reflexivity]. exfalso. apply N1.
    apply existsb_exists in X as (q & Hq & Hc). apply andb_true_iff in Hc as [_ Hc]. apply Z.eqb_eq in Hc.
    apply in_map_iff. exists q. split; [congruence|exact Hq]. }
  destruct (c p); cbn.
  - unfold fam_set. destruct (Z.eqb_spec (p_store p) s) as [E|NE].
    + subst s. rewrite NP by reflexivity. rewrite Z.eqb_refl. reflexivity.
    + replace (s =? p_store p) with false by (symmetry; apply Z.eqb_neq; congruence). reflexivity.
  - reflexivity.
Qed.

(* ------------------------------------------------------------------------------------------ *)
(* sums                                                                                         *)
Lemma sum_size_cons a l : sum_size (a :: l) = r_size a + sum_size l.
Proof. reflexivity. Qed.

Lemma same_refl x : same x x = true.
Proof. unfold same. destruct (key_eqb_spec (r_start x) (r_start x)); congruence. Qed.

Lemma same_in_eq T x y : ssorted T -> In x T -> In y T -> same x y = true -> y = x.
Proof.
  intros S Hx Hy E. unfold same in E. destruct (key_eqb_spec (r_start y) (r_start x)) as [E'|]; [|discriminate].
  eapply ssorted_in_eq; eauto.
Qed.

Lemma filter_split_at T x (q : region -> bool) : ssorted T -> In x T ->
  exists T1 T2, T = T1 ++ x :: T2 /\ (forall y, In y T1 -> same x y = false) /\ (forall y, In y T2 -> same x y = false).
Proof.
  intros S Hx. apply in_split in Hx as (T1 & T2 & ->). exists T1, T2. split; [reflexivity|].
  apply ssorted_app_inv in S as (A & B & C). apply ssorted_inv in B as [B1 B2]. rewrite Forall_forall in B2.
  split; intros y Hy.
  - specialize (C y x Hy (or_introl eq_refl)). rreflect; try reflexivity. exfalso; korder.
  - specialize (B2 y Hy). rreflect; try reflexivity. exfalso; korder.
Qed.

Lemma filter_and_notsame T x q : ssorted T -> In x T ->
  exists T1 T2, T = T1 ++ x :: T2 /\
    filter (fun y => q y && negb (same x y)) T = filter q T1 ++ filter q T2 /\
    filter q T = filter q T1 ++ (if q x then [x] else []) ++ filter q T2 /\
    filter (fun y => q y || same x y) T = filter q T1 ++ x :: filter q T2 /\
    (forall y, In y T1 -> slt y x) /\ (forall y, In y T2 -> slt x y).
Proof.
  intros S Hx. destruct (filter_split_at T x q S Hx) as (T1 & T2 & -> & F1 & F2). exists T1, T2.
  split; [reflexivity|].
  assert (E1 : filter (fun y => q y && negb (same x y)) T1 = filter q T1).
  { apply filter_ext_in'. intros y Hy. rewrite (F1 y Hy). cbn. apply andb_true_r. }
  assert (E2 : filter (fun y => q y && negb (same x y)) T2 = filter q T2).
  { apply filter_ext_in'. intros y Hy. rewrite (F2 y Hy). cbn. apply andb_true_r. }
  assert (E3 : filter (fun y => q y || same x y) T1 = filter q T1).
  { apply filter_ext_in'. intros y Hy. rewrite (F1 y Hy). apply orb_false_r. }
  assert (E4 : filter (fun y => q y || same x y) T2 = filter q T2).
  { apply filter_ext_in'. intros y Hy. rewrite (F2 y Hy). apply orb_false_r. }
  apply ssorted_app_inv in S as (A & B & C). apply ssorted_inv in B as [B1 B2]. rewrite Forall_forall in B2.
  repeat split.
  - rewrite filter_app. cbn. rewrite same_refl, andb_false_r, E1, E2. reflexivity.
  - rewrite filter_app. cbn. destruct (q x); reflexivity.
  - rewrite filter_app. cbn. rewrite same_refl, orb_true_r, E3, E4. reflexivity.
  - intros y Hy. apply C; [exact Hy|left; reflexivity].
  - exact B2.
Qed.

Lemma sum_remove T x q : ssorted T -> In x T ->
  sum_size (filter (fun y => q y && negb (same x y)) T) = sum_size (filter q T) - (if q x then r_size x else 0).
Proof.
  intros S Hx. destruct (filter_and_notsame T x q S Hx) as (T1 & T2 & _ & E1 & E2 & _).
  rewrite E1, E2, !sum_size_app. destruct (q x); cbn; unfold sum_size; cbn; lia.
Qed.

Lemma sum_add T x q : ssorted T -> In x T -> q x = false ->
  sum_size (filter (fun y => q y || same x y) T) = sum_size (filter q T) + r_size x.
Proof.
  intros S Hx Q. destruct (filter_and_notsame T x q S Hx) as (T1 & T2 & _ & _ & E2 & E3 & _).
  rewrite E2, E3, Q, !sum_size_app. cbn [app]. rewrite sum_size_cons. unfold sum_size; cbn; lia.
Qed.

(* ------------------------------------------------------------------------------------------ *)
(* one sub-tree: adding the item                                                                *)
Lemma update_sub T q tot r : ds T -> In r T ->
  fst (update (RT (filter q T) tot) r) =
    RT (filter (fun y => q y || same r y) T) (tot + r_size r - if q r then r_size r else 0).
Proof.
  intros D Hr. pose proof (ds_valid _ _ D Hr) as V.
  rewrite (update_spec _ _ _ (ds_filter q _ D) V). cbn [fst].
  pose proof (ds_ssorted _ D) as S.
  assert (OV : forall y, In y T -> overlaps y r = same r y).
  { intros y Hy. destruct (overlaps y r) eqn:O.
    - rewrite (ds_overlaps_eq _ _ _ D Hy Hr O). symmetry; apply same_refl.
    - destruct (same r y) eqn:Sm; [|reflexivity]. rewrite (same_in_eq _ _ _ S Hr Hy Sm) in O.
      rewrite (valid_overlaps_self _ V) in O. discriminate. }
  rewrite !filter_filter.
  assert (E1 : filter (fun x => q x && negb (overlaps x r)) T = filter (fun y => q y && negb (same r y)) T).
  { apply filter_ext_in'. intros y Hy. rewrite (OV y Hy). reflexivity. }
  assert (E2 : filter (fun x => q x && overlaps x r) T = if q r then [r] else []).
  { destruct (filter_and_notsame T r q S Hr) as (T1 & T2 & -> & _ & _ & _ & L1 & L2).
    rewrite filter_app. cbn. rewrite (valid_overlaps_self _ V), andb_true_r.
    rewrite (filter_false_nil _ T1), (filter_false_nil _ T2).
    - destruct (q r); reflexivity.
    - intros y Hy. rewrite OV by (apply in_or_app; right; right; exact Hy).
      specialize (L2 y Hy). replace (same r y) with false; [apply andb_false_r|]. rreflect; try reflexivity. exfalso; korder.
    - intros y Hy. rewrite OV by (apply in_or_app; left; exact Hy).
      specialize (L1 y Hy). replace (same r y) with false; [apply andb_false_r|]. rreflect; try reflexivity. exfalso; korder. }
  rewrite E1, E2. f_equal.
  - destruct (filter_and_notsame T r q S Hr) as (T1 & T2 & _ & F1 & _ & F3 & L1 & L2).
    rewrite F1, F3. apply ins_region_middle.
    + intros y Hy. apply filter_In in Hy as [Hy _]. auto.
    + intros y Hy. apply filter_In in Hy as [Hy _]. auto.
  - destruct (q r); cbn; unfold sum_size; cbn; lia.
Qed.

(* ------------------------------------------------------------------------------------------ *)
(* representation                                                                               *)
Definition fams_rep (st : rinfo) (T : list region) (q : famk -> Z -> region -> bool) : Prop :=
  forall f s, fam_of st f s = RT (filter (q f s) T) (sum_size (filter (q f s) T)).

Definition trees_rep (st : rinfo) (T : list region) : Prop :=
  tree st = RT T (sum_size T) /\ fams_rep st T has_role /\ bad st = false.

Definition regs_rep (l : list (Z * region)) (L : list region) : Prop :=
  NoDup (map fst l) /\ forall id r, In (id, r) l <-> (In r L /\ r_id r = id).

Definition good (T : list region) : Prop :=
  ds T /\ NoDup (map r_id T) /\ forall x, In x T -> wf_peers x = true.

Definition Inv (st : rinfo) : Prop :=
  trees_rep st (items (tree st)) /\ regs_rep (regs st) (items (tree st)) /\ good (items (tree st)).

Lemma fams_rep_rebase st T T' q q' :
  (forall f s, filter (q f s) T = filter (q' f s) T') -> fams_rep st T q -> fams_rep st T' q'.
Proof. intros E H f s. rewrite (H f s), (E f s). reflexivity. Qed.

Lemma fams_rep_ext st T q q' :
  (forall f s y, In y T -> q f s y = q' f s y) -> fams_rep st T q -> fams_rep st T q'.
Proof. intros E. apply fams_rep_rebase. intros f s. apply filter_ext_in'. intros y Hy. apply E, Hy. Qed.

Lemma regs_rep_equiv l L L' : (forall x, In x L <-> In x L') -> regs_rep l L -> regs_rep l L'.
Proof. intros E [N H]. split; [exact N|]. intros id r. rewrite H, E. tauto. Qed.

Lemma nodup_ids_eq T x y : NoDup (map r_id T) -> In x T -> In y T -> r_id x = r_id y -> x = y.
Proof.
  induction T as [|a T IH]; intros N Hx Hy E; [destruct Hx|].
  cbn in N. inversion N as [|? ? N1 N2]; subst.
  destruct Hx as [<-|Hx], Hy as [<-|Hy]; auto.
  - exfalso. apply N1. rewrite E. apply in_map, Hy.
  - exfalso. apply N1. rewrite <- E. apply in_map, Hx.
Qed.

(* ---- the id map ---- *)
Lemma regs_get_in l id r : NoDup (map fst l) -> (regs_get l id = Some r <-> In (id, r) l).
Proof.
  induction l as [|[k v] l IH]; cbn; intros N; [split; [discriminate|tauto]|].
  inversion N as [|? ? N1 N2]; subst. destruct (Z.eqb_spec k id) as [->|NE].
  - split; [intros H; inversion H; auto|].
    intros [H|H]; [inversion H; reflexivity|]. exfalso. apply N1. apply in_map_iff. exists (id, r). auto.
  - rewrite (IH N2). split; [auto|]. intros [H|H]; [inversion H; congruence|exact H].
Qed.

Lemma regs_get_none l id : regs_get l id = None -> forall r, ~ In (id, r) l.
Proof.
  induction l as [|[k v] l IH]; cbn; intros H r; [tauto|].
  destruct (Z.eqb_spec k id) as [->|NE]; [discriminate|].
  intros [E|Hin]; [inversion E; congruence|]. eapply IH; eauto.
Qed.

Lemma regs_put_fst l id r : In id (map fst l) -> map fst (regs_put l id r) = map fst l.
Proof.
  induction l as [|[k v] l IH]; cbn; intros H; [destruct H|].
  destruct (Z.eqb_spec k id) as [->|NE]; cbn; [reflexivity|]. f_equal. apply IH. destruct H; [congruence|exact H].
Qed.

Lemma regs_put_in l id r k v : NoDup (map fst l) ->
  (In (k, v) (regs_put l id r) <-> (k = id /\ v = r) \/ (k <> id /\ In (k, v) l)).
Proof.
  induction l as [|[k0 v0] l IH]; cbn; intros N.
  - split; [intros [H|[]]; inversion H; auto | intros [[-> ->]|[_ []]]; auto].
  - inversion N as [|? ? N1 N2]; subst. destruct (Z.eqb_spec k0 id) as [->|NE]; cbn.
    + split.
      * intros [H|H]; [inversion H; auto|]. right. split; [|auto]. intros ->. apply N1. apply in_map_iff. exists (id, v). auto.
      * intros [[-> ->]|[NE [H|H]]]; auto. inversion H; congruence.
    + rewrite (IH N2). split.
      * intros [H|[H|H]]; [inversion H; subst; right; auto|auto|right; tauto].
      * intros [H|[NE' [H|H]]]; auto.
Qed.

Lemma regs_put_nodup l id r : NoDup (map fst l) -> NoDup (map fst (regs_put l id r)).
Proof.
  induction l as [|[k0 v0] l IH]; cbn; intros N; [constructor; [tauto|constructor]|].
  inversion N as [|? ? N1 N2]; subst. destruct (Z.eqb_spec k0 id) as [->|NE]; cbn; [exact N|].
  constructor; [|auto]. intros Hin. apply in_map_iff in Hin as ([k v] & E & Hin). cbn in E; subst k.
  apply regs_put_in in Hin; [|exact N2]. destruct Hin as [[-> _]|[_ Hin]]; [congruence|].
  apply N1. apply in_map_iff. exists (k0, v). auto.
Qed.

Lemma regs_del_in l id k v : NoDup (map fst l) ->
  (In (k, v) (regs_del l id) <-> k <> id /\ In (k, v) l).
Proof.
  induction l as [|[k0 v0] l IH]; cbn; intros N; [tauto|].
  inversion N as [|? ? N1 N2]; subst. destruct (Z.eqb_spec k0 id) as [->|NE]; cbn.
  - split.
    + intros H. split; [|auto]. intros ->. apply N1. apply in_map_iff. exists (id, v). auto.
    + intros [NE [H|H]]; [inversion H; congruence|exact H].
  - rewrite (IH N2). split.
    + intros [H|H]; [inversion H; subst; auto|tauto].
    + intros [NE' [H|H]]; auto.
Qed.

Lemma regs_del_nodup l id : NoDup (map fst l) -> NoDup (map fst (regs_del l id)).
Proof.
  induction l as [|[k0 v0] l IH]; cbn; intros N; [constructor|].
  inversion N as [|? ? N1 N2]; subst. destruct (Z.eqb_spec k0 id) as [->|NE]; cbn; [exact N2|].
  constructor; [|auto]. intros Hin. apply in_map_iff in Hin as ([k v] & E & Hin). cbn in E; subst k.
  apply regs_del_in in Hin as [_ Hin]; [|exact N2]. apply N1. apply in_map_iff. exists (k0, v). auto.
Qed.

Lemma regs_rep_get l L id r : regs_rep l L -> (regs_get l id = Some r <-> In r L /\ r_id r = id).
Proof. intros [N H]. rewrite (regs_get_in _ _ _ N). apply H. Qed.

Lemma regs_rep_get_none l L id : regs_rep l L -> regs_get l id = None -> forall x, In x L -> r_id x <> id.
Proof. intros [N H] G x Hx E. apply (regs_get_none _ _ G x). apply H. auto. Qed.

Lemma regs_rep_del l L id : regs_rep l L -> regs_rep (regs_del l id) (filter (fun y => negb (r_id y =? id)) L).
Proof.
  intros [N H]. split; [apply regs_del_nodup, N|]. intros k v. rewrite (regs_del_in _ _ _ _ N), H, filter_In.
  rewrite negb_true_iff, Z.eqb_neq. split; [intros [NE [Hv E]]; subst; auto | intros [[Hv NE] E]; subst; auto].
Qed.

Lemma regs_rep_put l L r :
  regs_rep l L -> regs_rep (regs_put l (r_id r) r) (r :: filter (fun y => negb (r_id y =? r_id r)) L).
Proof.
  intros [N H]. split; [apply regs_put_nodup, N|]. intros k v. rewrite (regs_put_in _ _ _ _ _ N), H. cbn.
  rewrite filter_In, negb_true_iff, Z.eqb_neq. split.
  - intros [[-> ->]|[NE [Hv E]]]; [auto|]. subst. auto.
  - intros [[<-|[Hv NE]] E]; [left; auto|right; subst; auto].
Qed.

Lemma regs_rep_perm l L : regs_rep l L -> NoDup (map r_id L) -> Permutation (map snd l) L.
Proof.
  intros [N H] NL.
  assert (E : map fst l = map r_id (map snd l)).
  { rewrite map_map. apply map_ext_in. intros [k v] Hin. cbn. destruct (proj1 (H k v) Hin). auto. }
  apply NoDup_Permutation.
  - rewrite E in N. apply NoDup_map_inv in N. exact N.
  - apply NoDup_map_inv in NL. exact NL.
  - intros v. rewrite in_map_iff. split.
    + intros ([k v'] & <- & Hin). apply H in Hin. tauto.
    + intros Hv. exists (r_id v, v). split; [reflexivity|]. apply H. auto.
Qed.

(* ------------------------------------------------------------------------------------------ *)
(* the loops over the sub-trees                                                                 *)
Lemma fam_of_remove st x f :
  fam_of (remove_from_subtrees st x) f = fam_fold (fun t => remove t x) all_peers (r_peers x) (fam_of st f).
Proof. destruct f; reflexivity. Qed.

Lemma remove_from_subtrees_rep st T q x :
  ds T -> In x T -> NoDup (map p_store (r_peers x)) ->
  (forall f s, q f s x = true -> existsb (fun p => all_peers p && (p_store p =? s)) (r_peers x) = true) ->
  fams_rep st T q ->
  fams_rep (remove_from_subtrees st x) T (fun f s y => q f s y && negb (same x y)).
Proof.
  intros D Hx N RP H f s. rewrite fam_of_remove, (fam_fold_once _ _ _ _ _ N), (H f s).
  pose proof (ds_ssorted _ D) as S.
  destruct (existsb _ (r_peers x)) eqn:E.
  - rewrite (remove_sub _ _ _ _ D Hx). f_equal. symmetry. apply sum_remove; auto.
  - assert (Q : q f s x = false).
    { destruct (q f s x) eqn:Q; [|reflexivity]. rewrite (RP f s Q) in E. discriminate. }
    assert (EF : filter (fun y => q f s y && negb (same x y)) T = filter (q f s) T).
    { apply filter_ext_in'. intros y Hy. destruct (q f s y) eqn:Qy; [|reflexivity]. cbn.
      destruct (same x y) eqn:Sm; [|reflexivity]. rewrite (same_in_eq _ _ _ S Hx Hy Sm) in Qy. congruence. }
    rewrite EF. reflexivity.
Qed.

Lemma remove_from_subtrees_other st x :
  regs (remove_from_subtrees st x) = regs st /\ tree (remove_from_subtrees st x) = tree st /\ bad (remove_from_subtrees st x) = bad st.
Proof. repeat split. Qed.

Lemma fam_of_add st r f :
  fam_of (add_to_subtrees st r) f =
  match f with
  | FLeader => fam_fold (fun t => fst (update t r)) (is_leader r) (voters r) (fam_of st f)
  | FFollower => fam_fold (fun t => fst (update t r)) (not_leader r) (voters r) (fam_of st f)
  | FLearner => fam_fold (fun t => fst (update t r)) all_peers (learners_of r) (fam_of st f)
  | FPending => fam_fold (fun t => fst (update t r)) all_peers (r_pending r) (fam_of st f)
  end.
Proof. destruct f; reflexivity. Qed.

Lemma role_as_loop f s r :
  has_role f s r =
  match f with
  | FLeader => existsb (fun p => is_leader r p && (p_store p =? s)) (voters r)
  | FFollower => existsb (fun p => not_leader r p && (p_store p =? s)) (voters r)
  | FLearner => existsb (fun p => all_peers p && (p_store p =? s)) (learners_of r)
  | FPending => existsb (fun p => all_peers p && (p_store p =? s)) (r_pending r)
  end.
Proof. destruct f; [apply role_leader|apply role_follower|apply role_learner|apply role_pending]. Qed.

Lemma add_to_subtrees_rep st T q r :
  ds T -> In r T -> wf_peers r = true -> (forall f s, q f s r = false) ->
  fams_rep st T q ->
  fams_rep (add_to_subtrees st r) T (fun f s y => q f s y || (same r y && has_role f s r)).
Proof.
  intros D Hr W Q H f s. pose proof (ds_ssorted _ D) as S.
  pose proof (wf_peers_parts _ W) as (_ & _ & NP).
  assert (G : fam_of (add_to_subtrees st r) f s =
              if has_role f s r then fst (update (fam_of st f s) r) else fam_of st f s).
  { rewrite fam_of_add, (role_as_loop f s r).
    destruct f; apply fam_fold_once; auto using voters_nodup, learners_nodup. }
  rewrite G, (H f s). destruct (has_role f s r).
  - rewrite (update_sub _ _ _ _ D Hr), (Q f s).
    assert (EF : filter (fun y => q f s y || same r y && true) T = filter (fun y => q f s y || same r y) T).
    { apply filter_ext_in'. intros y _. rewrite andb_true_r. reflexivity. }
    rewrite EF. f_equal. rewrite (sum_add _ _ _ S Hr (Q f s)). lia.
  - assert (EF : filter (fun y => q f s y || same r y && false) T = filter (q f s) T).
    { apply filter_ext_in'. intros y _. rewrite andb_false_r, orb_false_r. reflexivity. }
    rewrite EF. reflexivity.
Qed.

(* ------------------------------------------------------------------------------------------ *)
(* item.region = region                                                                         *)
Definition replf (r : region) (x : region) : region := if r_id x =? r_id r then r else x.

Lemma repl_items r t : items (repl (r_id r) r t) = map (replf r) (items t).
Proof. reflexivity. Qed.

Lemma map_replf_noop r l : (forall y, In y l -> r_id y <> r_id r) -> map (replf r) l = l.
Proof.
  induction l as [|a l IH]; intros H; cbn; [reflexivity|].
  unfold replf at 1. destruct (Z.eqb_spec (r_id a) (r_id r)) as [E|_]; [exfalso; eapply H; [left; reflexivity|exact E]|].
  f_equal. apply IH. intros y Hy; apply H; right; exact Hy.
Qed.

Lemma map_filter_comm {A} (g : A -> A) (q q' : A -> bool) l :
  (forall y, In y l -> q' (g y) = q y) -> map g (filter q l) = filter q' (map g l).
Proof.
  induction l as [|a l IH]; intros H; cbn; [reflexivity|].
  rewrite (H a (or_introl eq_refl)). destruct (q a); cbn; rewrite IH; auto; intros y Hy; apply H; right; exact Hy.
Qed.

(* the list with origin replaced in place by r *)
Lemma replace_split T origin r :
  NoDup (map r_id T) -> In origin T -> r_id origin = r_id r ->
  exists T1 T2, T = T1 ++ origin :: T2 /\ map (replf r) T = T1 ++ r :: T2 /\
    (forall y, In y (T1 ++ T2) -> r_id y <> r_id r).
Proof.
  intros N Ho E. apply in_split in Ho as (T1 & T2 & ->). exists T1, T2.
  assert (NI : forall y, In y (T1 ++ T2) -> r_id y <> r_id r).
  { intros y Hy Ey. rewrite map_app in N. cbn in N. apply NoDup_remove_2 in N. apply N.
    rewrite <- map_app. rewrite E, <- Ey. apply in_map, Hy. }
  split; [reflexivity|]. split; [|exact NI].
  rewrite map_app. cbn. unfold replf at 2. rewrite E, Z.eqb_refl.
  rewrite !map_replf_noop; [reflexivity| |]; intros y Hy; apply NI; apply in_or_app; auto.
Qed.

(* ------------------------------------------------------------------------------------------ *)
(* the specification of SetRegion / RemoveRegion on the main list                                *)
Definition keep (r x : region) : bool := negb (r_id x =? r_id r) && negb (overlaps x r).
Definition spec_tree (T : list region) (r : region) : list region := ins_region r (filter (keep r) T).
Definition displaced (T : list region) (r : region) : list region :=
  filter (fun x => negb (r_id x =? r_id r) && overlaps x r) T.

Lemma spec_tree_ds T r : ds T -> validP r -> ds (spec_tree T r).
Proof.
  intros D V. apply ins_region_ds; [apply ds_filter, D|exact V|].
  intros y Hy. apply filter_In in Hy as [_ K]. unfold keep in K. apply andb_true_iff in K as [_ K].
  apply negb_true_iff in K. exact K.
Qed.

Lemma spec_tree_in T r x : In x (spec_tree T r) <-> x = r \/ (In x T /\ keep r x = true).
Proof. unfold spec_tree. rewrite ins_region_in, filter_In. tauto. Qed.

Lemma keep_not_same T r y : ds T -> validP r -> In y T -> keep r y = true -> same r y = false.
Proof.
  intros D V Hy K. unfold keep in K. apply andb_true_iff in K as [_ K].
  eapply no_same_after_filter; eauto. apply filter_In. auto.
Qed.

Lemma spec_tree_perm T r : Permutation (r :: filter (keep r) T) (spec_tree T r).
Proof. apply ins_region_perm. Qed.

Lemma spec_tree_good T r : good T -> wf_region r = true -> good (spec_tree T r).
Proof.
  intros (D & N & W) WR. unfold wf_region in WR. apply andb_true_iff in WR as [V WP].
  split; [apply spec_tree_ds; auto|]. split.
  - eapply Permutation_NoDup; [apply Permutation_map, spec_tree_perm|]. cbn. constructor.
    + intros Hin. apply in_map_iff in Hin as (y & E & Hy). apply filter_In in Hy as [_ K].
      unfold keep in K. apply andb_true_iff in K as [K _]. apply negb_true_iff, Z.eqb_neq in K. congruence.
    + clear -N. induction T as [|a T IH]; cbn; [constructor|]. cbn in N. inversion N; subst.
      destruct (keep r a); cbn; [constructor; auto|auto].
      intros Hin. apply in_map_iff in Hin as (y & E & Hy). apply filter_In in Hy as [Hy _]. apply H1. rewrite <- E. apply in_map, Hy.
  - intros x Hx. apply spec_tree_in in Hx as [->|[Hx _]]; auto.
Qed.

Lemma filter_notsame_ins r L : (forall y, In y L -> same r y = false) ->
  filter (fun y => negb (same r y)) (ins_region r L) = L.
Proof.
  induction L as [|a L IH]; intros H; cbn.
  - rewrite same_refl. reflexivity.
  - destruct (rlt r a); cbn.
    + rewrite same_refl. cbn. rewrite (H a (or_introl eq_refl)). cbn. f_equal.
      apply filter_true_id. intros y Hy. rewrite (H y (or_intror Hy)). reflexivity.
    + rewrite (H a (or_introl eq_refl)). cbn. f_equal. apply IH. intros y Hy; apply H; right; exact Hy.
Qed.

Lemma sum_spec_tree T r : sum_size (spec_tree T r) = r_size r + sum_size (filter (keep r) T).
Proof. rewrite <- (sum_size_perm _ _ (spec_tree_perm T r)). reflexivity. Qed.

(* ------------------------------------------------------------------------------------------ *)
(* RemoveRegion of a cached region                                                              *)
Lemma remove_main T tot x : ds T -> In x T ->
  remove (RT T tot) x = RT (filter (fun y => negb (same x y)) T) (tot - r_size x).
Proof.
  intros D Hx. pose proof (remove_sub T (fun _ => true) tot x D Hx) as H.
  rewrite (filter_true_id (fun _ => true) T) in H by reflexivity. rewrite H. reflexivity.
Qed.

Lemma sum_remove_main T x : ssorted T -> In x T ->
  sum_size (filter (fun y => negb (same x y)) T) = sum_size T - r_size x.
Proof.
  intros S Hx. pose proof (sum_remove T x (fun _ => true) S Hx) as H. cbn in H.
  rewrite (filter_true_id (fun _ => true) T) in H by reflexivity. exact H.
Qed.

Lemma good_filter p T : good T -> good (filter p T).
Proof.
  intros (D & N & W). split; [apply ds_filter, D|]. split.
  - clear -N. induction T as [|a T IH]; cbn; [constructor|]. cbn in N. inversion N; subst.
    destruct (p a); cbn; [constructor; auto|auto].
    intros Hin. apply in_map_iff in Hin as (y & E & Hy). apply filter_In in Hy as [Hy _]. apply H1. rewrite <- E. apply in_map, Hy.
  - intros x Hx. apply filter_In in Hx as [Hx _]. auto.
Qed.

Lemma id_vs_same T x y : good T -> In x T -> In y T -> (r_id y =? r_id x) = same x y.
Proof.
  intros (D & N & _) Hx Hy. destruct (Z.eqb_spec (r_id y) (r_id x)) as [E|NE].
  - rewrite (nodup_ids_eq _ _ _ N Hy Hx E). symmetry; apply same_refl.
  - destruct (same x y) eqn:S; [|reflexivity]. rewrite (same_in_eq _ _ _ (ds_ssorted _ D) Hx Hy S) in NE. congruence.
Qed.

Lemma remove_region_rep st T x :
  trees_rep st T -> regs_rep (regs st) T -> good T -> In x T ->
  trees_rep (remove_region st x) (filter (fun y => negb (same x y)) T) /\
  regs_rep (regs (remove_region st x)) (filter (fun y => negb (same x y)) T) /\
  good (filter (fun y => negb (same x y)) T).
Proof.
  intros (HT & HF & HB) HR G Hx. pose proof G as (D & N & W).
  pose proof (wf_peers_parts _ (W x Hx)) as (_ & NP & _).
  unfold remove_region. set (st2 := RI _ _ _ _ _ _ _).
  destruct (remove_from_subtrees_other st2 x) as (E1 & E2 & E3).
  assert (F2 : fams_rep st2 T has_role).
  { intros f s. destruct f; [apply (HF FLeader s)|apply (HF FFollower s)|apply (HF FLearner s)|apply (HF FPending s)]. }
  pose proof (remove_from_subtrees_rep st2 T has_role x D Hx NP (fun f s => role_needs_peer f s x (W x Hx)) F2) as F3.
  split; [|split].
  - split; [|split].
    + rewrite E2. unfold st2; cbn. rewrite HT, (remove_main _ _ _ D Hx). f_equal.
      symmetry. apply sum_remove_main; [apply ds_ssorted, D|exact Hx].
    + eapply fams_rep_rebase; [|exact F3]. intros f s. cbn. rewrite filter_filter.
      apply filter_ext_in'. intros y _. apply andb_comm.
    + rewrite E3. exact HB.
  - rewrite E1. unfold st2; cbn. eapply regs_rep_equiv; [|apply regs_rep_del, HR].
    intros y. rewrite !filter_In. split; intros [Hy C]; (split; [exact Hy|]).
    + rewrite <- (id_vs_same _ _ _ G Hx Hy). exact C.
    + rewrite (id_vs_same _ _ _ G Hx Hy). exact C.
  - apply good_filter, G.
Qed.

(* ------------------------------------------------------------------------------------------ *)
(* the loop that removes the displaced regions after tree.update                                 *)
Lemma remove_overlapped_rep Tb T1 tot1 : good Tb -> ds T1 ->
  forall O st q L,
    (forall o, In o O -> In o Tb) -> NoDup (map r_id O) ->
    (forall o y, In o O -> In y T1 -> r_id y <> r_id o) ->
    tree st = RT T1 tot1 -> bad st = false -> regs_rep (regs st) L -> (forall o, In o O -> In o L) ->
    NoDup (map r_id L) ->
    fams_rep st Tb q -> (forall f s y, q f s y = true -> has_role f s y = true) ->
    let st' := remove_overlapped st O in
    tree st' = RT T1 tot1 /\ bad st' = false /\
    regs_rep (regs st') (filter (fun y => negb (existsb (fun o => r_id o =? r_id y) O)) L) /\
    fams_rep st' Tb (fun f s y => q f s y && negb (existsb (fun o => same o y) O)).
Proof.
  intros G D1. pose proof G as (Db & Nb & Wb).
  induction O as [|o O IH]; intros st q L HO NO NE HT HB HR HL NL HF HQ; cbn [remove_overlapped fold_left].
  - cbn. split; [exact HT|]. split; [exact HB|]. split.
    + eapply regs_rep_equiv; [|exact HR]. intros x. rewrite filter_In. cbn. tauto.
    + eapply fams_rep_ext; [|exact HF]. intros f s y _. rewrite andb_true_r. reflexivity.
  - assert (Ho : In o Tb) by (apply HO; left; reflexivity).
    assert (GR : get_region st (r_id o) = Some o).
    { unfold get_region. apply (regs_rep_get _ _ _ _ HR). split; [apply HL; left; reflexivity|reflexivity]. }
    rewrite GR.
    pose proof (wf_peers_parts _ (Wb o Ho)) as (_ & NP & _).
    set (st1 := remove_region st o).
    assert (T1' : tree st1 = RT T1 tot1).
    { unfold st1, remove_region. cbn. rewrite HT. apply remove_noop; [exact D1|]. intros y Hy. apply NE; [left; reflexivity|exact Hy]. }
    assert (B1 : bad st1 = false) by exact HB.
    assert (R1 : regs_rep (regs st1) (filter (fun y => negb (r_id y =? r_id o)) L)).
    { unfold st1, remove_region. cbn. apply regs_rep_del, HR. }
    assert (F1 : fams_rep st1 Tb (fun f s y => q f s y && negb (same o y))).
    { unfold st1, remove_region. apply (remove_from_subtrees_rep _ Tb q o Db Ho NP).
      - intros f s Q. apply (role_needs_peer f s o (Wb o Ho)). apply HQ, Q.
      - intros f s. destruct f; [apply (HF FLeader s)|apply (HF FFollower s)|apply (HF FLearner s)|apply (HF FPending s)]. }
    cbn in NO. inversion NO as [|? ? NO1 NO2]; subst.
    assert (P1 : forall o', In o' O -> In o' Tb) by (intros o' Ho'; apply HO; right; exact Ho').
    assert (P2 : forall o' y, In o' O -> In y T1 -> r_id y <> r_id o').
    { intros o' y Ho' Hy. apply NE; [right; exact Ho'|exact Hy]. }
    assert (P3 : forall o', In o' O -> In o' (filter (fun y => negb (r_id y =? r_id o)) L)).
    { intros o' Ho'. apply filter_In. split; [apply HL; right; exact Ho'|].
      apply negb_true_iff, Z.eqb_neq. intros E. apply NO1. rewrite <- E. apply in_map, Ho'. }
    assert (P4 : NoDup (map r_id (filter (fun y => negb (r_id y =? r_id o)) L))).
    { clear -NL. induction L as [|a L IH]; cbn; [constructor|]. cbn in NL. inversion NL; subst.
      destruct (negb _); cbn; [constructor; auto|auto].
      intros Hin. apply in_map_iff in Hin as (y & E & Hy). apply filter_In in Hy as [Hy _]. apply H1. rewrite <- E. apply in_map, Hy. }
    assert (P5 : forall f s y, q f s y && negb (same o y) = true -> has_role f s y = true).
    { intros f s y Q. apply andb_true_iff in Q as [Q _]. apply HQ, Q. }
    destruct (IH st1 _ _ P1 NO2 P2 T1' B1 R1 P3 P4 F1 P5) as (A & B & C & E).
    fold (remove_overlapped st1 O). split; [exact A|]. split; [exact B|]. split.
    + eapply regs_rep_equiv; [|exact C]. intros x. rewrite !filter_In. cbn [existsb].
      rewrite !negb_true_iff, orb_false_iff. rewrite (Z.eqb_sym (r_id o) (r_id x)). tauto.
    + eapply fams_rep_ext; [|exact E]. intros f s y _. cbn [existsb]. rewrite negb_orb, andb_assoc. reflexivity.
Qed.

(* ------------------------------------------------------------------------------------------ *)
(* the common tail of SetRegion when the range is new or changed:
   tree.update, RemoveRegion of every displaced region, the item added to its sub-trees        *)
Definition tail (st3 : rinfo) (r : region) : rinfo * list region :=
  let '(t', ov) := update (tree st3) r in
  (add_to_subtrees (remove_overlapped (set_tree st3 t') ov) r, ov).

Lemma fams_rep_set_tree st t T q : fams_rep st T q -> fams_rep (set_tree st t) T q.
Proof. intros H f s. destruct f; [apply (H FLeader s)|apply (H FFollower s)|apply (H FLearner s)|apply (H FPending s)]. Qed.

Lemma tail_rep st3 T0 r :
  tree st3 = RT T0 (sum_size T0) -> fams_rep st3 T0 has_role -> bad st3 = false ->
  regs_rep (regs st3) (r :: T0) -> good T0 -> (forall y, In y T0 -> r_id y <> r_id r) ->
  validP r -> wf_peers r = true ->
  let T' := ins_region r (filter (fun x => negb (overlaps x r)) T0) in
  trees_rep (fst (tail st3 r)) T' /\ regs_rep (regs (fst (tail st3 r))) T' /\
  snd (tail st3 r) = filter (fun x => overlaps x r) T0.
Proof.
  intros HT HF HB HR G NI V WP T'. pose proof G as (D & N & W).
  unfold tail. rewrite HT, (update_spec _ _ _ D V).
  set (ov := filter (fun x => overlaps x r) T0).
  set (tot1 := sum_size T0 + r_size r - sum_size ov).
  fold T'. cbn [fst snd].
  assert (D' : ds T') by (apply update_ds; auto).
  assert (NS : forall y, In y (filter (fun x => negb (overlaps x r)) T0) -> same r y = false).
  { intros y Hy. apply (no_same_after_filter T0 r y D V Hy). }
  assert (InT' : forall y, In y T' <-> y = r \/ In y (filter (fun x => negb (overlaps x r)) T0)).
  { intros y. unfold T'. apply ins_region_in. }
  (* the loop over the displaced regions *)
  destruct (remove_overlapped_rep T0 T' tot1 G D' ov (set_tree st3 (RT T' tot1)) has_role (r :: T0)) as (A & B & C & E).
  - intros o Ho. apply filter_In in Ho. tauto.
  - clear -N. induction T0 as [|a T0 IH]; cbn; [constructor|]. cbn in N. inversion N; subst.
    destruct (overlaps a r); cbn; [constructor; auto|auto].
    intros Hin. apply in_map_iff in Hin as (y & E & Hy). apply filter_In in Hy as [Hy _]. apply H1. rewrite <- E. apply in_map, Hy.
  - intros o y Ho Hy. apply filter_In in Ho as [Ho Oo]. apply InT' in Hy as [->|Hy].
    + intros E. apply (NI o Ho). congruence.
    + apply filter_In in Hy as [Hy Oy]. intros E. rewrite (nodup_ids_eq _ _ _ N Hy Ho E), Oo in Oy. discriminate.
  - reflexivity.
  - exact HB.
  - exact HR.
  - intros o Ho. apply filter_In in Ho as [Ho _]. right; exact Ho.
  - cbn. constructor; [|exact N]. intros Hin. apply in_map_iff in Hin as (y & E & Hy). apply (NI y Hy E).
  - apply fams_rep_set_tree, HF.
  - auto.
  - set (st4 := remove_overlapped (set_tree st3 (RT T' tot1)) ov) in *.
    (* sub-trees of st4, re-based on T' *)
    assert (F4 : fams_rep st4 T' (fun f s y => has_role f s y && negb (same r y))).
    { eapply fams_rep_rebase; [|exact E]. intros f s. cbn.
      transitivity (filter (has_role f s) (filter (fun y => negb (same r y)) T')).
      - unfold T'. rewrite (filter_notsame_ins _ _ NS), filter_filter.
        apply filter_ext_in'. intros y Hy. rewrite andb_comm. f_equal. f_equal.
        destruct (overlaps y r) eqn:O.
        + apply existsb_exists. exists y. split; [apply filter_In; auto|apply same_refl].
        + destruct (existsb _ ov) eqn:X; [|reflexivity]. apply existsb_exists in X as (o & Ho & So).
          apply filter_In in Ho as [Ho Oo]. rewrite (same_in_eq _ _ _ (ds_ssorted _ D) Ho Hy So), Oo in O. discriminate.
      - rewrite filter_filter. apply filter_ext_in'. intros y _. apply andb_comm. }
    assert (Hr : In r T') by (apply InT'; left; reflexivity).
    pose proof (add_to_subtrees_rep st4 T' (fun f s y => has_role f s y && negb (same r y)) r D' Hr WP) as F5.
    split; [|split].
    + split; [|split].
      * change (tree (add_to_subtrees st4 r)) with (tree st4). rewrite A. f_equal.
        unfold tot1, T'. rewrite <- (sum_size_perm _ _ (ins_region_perm r _)), sum_size_cons.
        rewrite (sum_size_filter_split (fun x => overlaps x r) T0). fold ov. lia.
      * eapply fams_rep_ext; [|apply F5].
        -- intros f s y Hy. cbn. destruct (same r y) eqn:Sm.
           ++ rewrite (same_in_eq _ _ _ (ds_ssorted _ D') Hr Hy Sm). rewrite andb_false_r. reflexivity.
           ++ rewrite andb_true_r, orb_false_r. reflexivity.
        -- intros f s. rewrite same_refl. apply andb_false_r.
        -- exact F4.
      * exact B.
    + change (regs (add_to_subtrees st4 r)) with (regs st4). eapply regs_rep_equiv; [|exact C].
      intros y. rewrite InT', !filter_In. cbn [In]. split.
      * intros [[<-|Hy] X]; [left; reflexivity|]. right. split; [exact Hy|].
        apply negb_true_iff. destruct (overlaps y r) eqn:O; [|reflexivity]. exfalso.
        apply negb_true_iff in X. assert (existsb (fun o => r_id o =? r_id y) ov = true); [|congruence].
        apply existsb_exists. exists y. split; [apply filter_In; auto|apply Z.eqb_refl].
      * intros [->|[Hy O]].
        -- split; [left; reflexivity|]. apply negb_true_iff. destruct (existsb _ ov) eqn:X; [|reflexivity].
           apply existsb_exists in X as (o & Ho & Eo). apply filter_In in Ho as [Ho _]. apply Z.eqb_eq in Eo. exfalso. eapply NI; eauto.
        -- split; [right; exact Hy|]. apply negb_true_iff. destruct (existsb _ ov) eqn:X; [|reflexivity].
           apply existsb_exists in X as (o & Ho & Eo). apply filter_In in Ho as [Ho Oo]. apply Z.eqb_eq in Eo.
           rewrite (nodup_ids_eq _ _ _ N Ho Hy Eo) in Oo. apply negb_true_iff in O. congruence.
    + reflexivity.
Qed.

(* ------------------------------------------------------------------------------------------ *)
(* unchanged peers: shouldRemoveFromSubTree = false means the same roles on every store          *)
Lemma spe_existsb a b (c c' : peer -> bool) :
  sorted_peers_equal a b = true ->
  (forall p p', p_store p = p_store p' -> p_id p = p_id p' -> c p = c' p') ->
  existsb c a = existsb c' b.
Proof.
  revert b. induction a as [|x a IH]; intros [|y b]; cbn; try discriminate; [reflexivity|].
  intros H Hc. apply andb_true_iff in H as [H H3]. apply andb_true_iff in H as [H1 H2].
  apply Z.eqb_eq in H1. apply Z.eqb_eq in H2. rewrite (Hc x y H1 H2), (IH b H3 Hc). reflexivity.
Qed.

Lemma same_roles r origin : should_remove r origin = false -> forall f s, has_role f s r = has_role f s origin.
Proof.
  unfold should_remove. intros H f s.
  apply orb_false_iff in H as [H H4]. apply orb_false_iff in H as [H H3]. apply orb_false_iff in H as [H1 H2].
  apply negb_false_iff in H1, H2, H3, H4. apply Z.eqb_eq in H1.
  rewrite !role_as_loop. symmetry. destruct f.
  - apply (spe_existsb _ _ _ _ H2). intros p p' E1 E2. unfold is_leader. rewrite E1, E2, H1. reflexivity.
  - apply (spe_existsb _ _ _ _ H2). intros p p' E1 E2. unfold not_leader, is_leader. rewrite E1, E2, H1. reflexivity.
  - apply (spe_existsb _ _ _ _ H3). intros p p' E1 E2. rewrite E1. reflexivity.
  - apply (spe_existsb _ _ _ _ H4). intros p p' E1 E2. rewrite E1. reflexivity.
Qed.

(* ------------------------------------------------------------------------------------------ *)
(* same key range: the item is replaced in place                                                 *)
Section SameRange.
  Variables (T : list region) (origin r : region).
  Hypothesis G : good T.
  Hypothesis Ho : In origin T.
  Hypothesis Eid : r_id origin = r_id r.
  Hypothesis Es : r_start origin = r_start r.
  Hypothesis Ee : r_end origin = r_end r.
  Hypothesis V : validP r.

  Let T'' := map (replf r) T.

  Lemma sr_overlaps y : overlaps y r = overlaps y origin.
  Proof. unfold overlaps. rewrite Es, Ee. reflexivity. Qed.

  Lemma sr_same y : same r y = same origin y.
  Proof. unfold same. rewrite Es. reflexivity. Qed.

  Lemma sr_keep y : In y T -> keep r y = negb (same origin y).
  Proof.
    intros Hy. unfold keep. rewrite sr_overlaps. rewrite <- Eid, (id_vs_same _ _ _ G Ho Hy).
    destruct (same origin y) eqn:S; [reflexivity|]. cbn.
    destruct G as (D & _ & _). destruct (overlaps y origin) eqn:O; [|reflexivity].
    rewrite (ds_overlaps_eq _ _ _ D Hy Ho O), same_refl in S. discriminate.
  Qed.

  Lemma sr_spec_tree : spec_tree T r = T''.
  Proof.
    destruct G as (D & N & _). pose proof (ds_ssorted _ D) as S.
    destruct (replace_split T origin r N Ho Eid) as (T1 & T2 & ET & ET'' & NI).
    unfold spec_tree, T''. rewrite ET''.
    assert (EF : filter (keep r) T = T1 ++ T2).
    { rewrite (filter_ext_in' (keep r) (fun y => negb (same origin y)) T sr_keep).
      rewrite ET in S |- *. apply ssorted_app_inv in S as (A & B & C). apply ssorted_inv in B as [B1 B2].
      rewrite Forall_forall in B2. rewrite filter_app. cbn. rewrite same_refl. cbn.
      rewrite !filter_true_id; [reflexivity| |].
      - intros y Hy. specialize (B2 y Hy). apply negb_true_iff. rreflect; try reflexivity. exfalso; korder.
      - intros y Hy. specialize (C y origin Hy (or_introl eq_refl)). apply negb_true_iff. rreflect; try reflexivity. exfalso; korder. }
    rewrite EF. rewrite ET in S. apply ssorted_app_inv in S as (A & B & C). apply ssorted_inv in B as [B1 B2].
    rewrite Forall_forall in B2. apply ins_region_middle.
    - intros y Hy. specialize (C y origin Hy (or_introl eq_refl)). unfold slt in *. rewrite <- Es. exact C.
    - intros y Hy. specialize (B2 y Hy). unfold slt in *. rewrite <- Es. exact B2.
  Qed.

  Lemma sr_in_r : In r T''.
  Proof. unfold T''. apply in_map_iff. exists origin. split; [|exact Ho]. unfold replf. rewrite Eid, Z.eqb_refl. reflexivity. Qed.

  Lemma sr_displaced : displaced T r = [].
  Proof.
    unfold displaced. apply filter_false_nil. intros y Hy.
    destruct G as (D & _ & _). rewrite sr_overlaps. rewrite <- Eid, (id_vs_same _ _ _ G Ho Hy).
    destruct (same origin y) eqn:S; [reflexivity|]. cbn.
    destruct (overlaps y origin) eqn:O; [|reflexivity].
    rewrite (ds_overlaps_eq _ _ _ D Hy Ho O), same_refl in S. discriminate.
  Qed.

  Lemma sr_sum (q : region -> bool) : q r = q origin ->
    sum_size (filter q T'') = sum_size (filter q T) + (if q r then r_size r - r_size origin else 0).
  Proof.
    intros Q. destruct G as (D & N & _).
    destruct (replace_split T origin r N Ho Eid) as (T1 & T2 & ET & ET'' & NI).
    unfold T''. rewrite ET'', ET, !filter_app, !sum_size_app. cbn. rewrite <- Q.
    destruct (q r); cbn; rewrite ?sum_size_cons; lia.
  Qed.

  Lemma sr_sum_all : sum_size T'' = sum_size T + r_size r - r_size origin.
  Proof.
    pose proof (sr_sum (fun _ => true) eq_refl) as H. cbn in H.
    rewrite !(filter_true_id (fun _ => true)) in H by reflexivity. lia.
  Qed.

  (* sub-tree lists that do not contain the item are not touched by the assignment *)
  Lemma sr_filter_notsame (q : region -> bool) :
    filter (fun y => q y && negb (same origin y)) T = filter (fun y => q y && negb (same r y)) T''.
  Proof.
    unfold T''. rewrite <- (map_filter_comm (replf r) (fun y => q y && negb (same origin y))).
    - symmetry. apply map_replf_noop. intros y Hy. apply filter_In in Hy as [Hy C].
      apply andb_true_iff in C as [_ C]. apply negb_true_iff in C.
      rewrite <- Eid. intros E. apply Z.eqb_eq in E. rewrite (id_vs_same _ _ _ G Ho Hy) in E. congruence.
    - intros y Hy. unfold replf. destruct (Z.eqb_spec (r_id y) (r_id r)) as [E|NE].
      + rewrite same_refl. rewrite andb_false_r. rewrite <- Eid in E. apply Z.eqb_eq in E.
        rewrite (id_vs_same _ _ _ G Ho Hy) in E. rewrite E. rewrite andb_false_r. reflexivity.
      + rewrite sr_same. reflexivity.
  Qed.

  Lemma sr_filter_same_roles (q : region -> bool) : q r = q origin ->
    map (replf r) (filter q T) = filter q T''.
  Proof.
    intros Q. unfold T''. apply map_filter_comm. intros y Hy. unfold replf.
    destruct (Z.eqb_spec (r_id y) (r_id r)) as [E|NE]; [|reflexivity].
    destruct G as (_ & N & _). rewrite <- Eid in E. rewrite (nodup_ids_eq _ _ _ N Hy Ho E). exact Q.
  Qed.
End SameRange.

(* ------------------------------------------------------------------------------------------ *)
(* SetRegion                                                                                    *)
Lemma fam_of_assign st r f s : fam_of (assign st r) f s = repl (r_id r) r (fam_of st f s).
Proof. destruct f; reflexivity. Qed.

Lemma fam_of_stat st origin r f :
  fam_of (update_subtree_stat st origin r) f =
  match f with
  | FLeader => fam_fold (stat_if_present origin r) (is_leader r) (voters r) (fam_of st f)
  | FFollower => fam_fold (stat_if_present origin r) (not_leader r) (voters r) (fam_of st f)
  | FLearner => fam_fold (stat_if_present origin r) all_peers (learners_of r) (fam_of st f)
  | FPending => fam_fold (stat_if_present origin r) all_peers (r_pending r) (fam_of st f)
  end.
Proof. destruct f; reflexivity. Qed.

Lemma wf_region_parts r : wf_region r = true -> validP r /\ wf_peers r = true.
Proof. unfold wf_region. rewrite andb_true_iff. tauto. Qed.

Lemma set_region_new st T r :
  trees_rep st T -> regs_rep (regs st) T -> good T -> wf_region r = true ->
  get_region st (r_id r) = None ->
  trees_rep (fst (set_region st r)) (spec_tree T r) /\ regs_rep (regs (fst (set_region st r))) (spec_tree T r) /\
  snd (set_region st r) = displaced T r.
Proof.
  intros (HT & HF & HB) HR G WR GN. apply wf_region_parts in WR as [V WP].
  pose proof (regs_rep_get_none _ _ _ HR GN) as NI.
  unfold set_region. rewrite GN.
  set (st3 := RI (regs_put (regs st) (r_id r) r) (tree st) (leaders st) (followers st) (learners st) (pendings st) (bad st)).
  change (let '(t', ov) := update (tree st3) r in (add_to_subtrees (remove_overlapped (set_tree st3 t') ov) r, ov)) with (tail st3 r).
  assert (EK : filter (keep r) T = filter (fun x => negb (overlaps x r)) T).
  { apply filter_ext_in'. intros y Hy. unfold keep. replace (r_id y =? r_id r) with false; [reflexivity|].
    symmetry. apply Z.eqb_neq. apply NI, Hy. }
  assert (ED : displaced T r = filter (fun x => overlaps x r) T).
  { apply filter_ext_in'. intros y Hy. replace (r_id y =? r_id r) with false; [reflexivity|].
    symmetry. apply Z.eqb_neq. apply NI, Hy. }
  unfold spec_tree. rewrite EK, ED.
  apply (tail_rep st3 T r); auto.
  eapply regs_rep_equiv; [|apply regs_rep_put, HR]. intros y. cbn. rewrite filter_In. split.
  - intros [E|[Hy _]]; auto.
  - intros [E|Hy]; [auto|]. right. split; [exact Hy|]. apply negb_true_iff, Z.eqb_neq. apply NI, Hy.
Qed.

Lemma set_region_range_changed st T r origin :
  trees_rep st T -> regs_rep (regs st) T -> good T -> wf_region r = true ->
  get_region st (r_id r) = Some origin ->
  negb (key_eqb (r_start origin) (r_start r)) || negb (key_eqb (r_end origin) (r_end r)) = true ->
  trees_rep (fst (set_region st r)) (spec_tree T r) /\ regs_rep (regs (fst (set_region st r))) (spec_tree T r) /\
  snd (set_region st r) = displaced T r.
Proof.
  intros (HT & HF & HB) HR G WR GS RC. apply wf_region_parts in WR as [V WP].
  pose proof G as (D & N & W). pose proof (ds_ssorted _ D) as S.
  apply (regs_rep_get _ _ _ _ HR) in GS as GS'. destruct GS' as [Ho Eid].
  pose proof (wf_peers_parts _ (W origin Ho)) as (_ & NP & _).
  set (T0 := filter (fun y => negb (same origin y)) T).
  assert (IDS : forall y, In y T -> negb (r_id y =? r_id r) = negb (same origin y)).
  { intros y Hy. rewrite <- Eid, (id_vs_same _ _ _ G Ho Hy). reflexivity. }
  unfold set_region. rewrite GS, RC. cbn [negb].
  set (st1 := set_tree st (remove (tree st) origin)).
  set (st2 := remove_from_subtrees st1 origin).
  set (st3 := assign st2 r).
  assert (ETail : (let '(st4, ov) := let '(t', ov) := update (tree st3) r in (remove_overlapped (set_tree st3 t') ov, ov) in
                   (add_to_subtrees st4 r, ov)) = tail st3 r).
  { unfold tail. destruct (update (tree st3) r). reflexivity. }
  rewrite ETail.
  (* st1 .. st3 *)
  assert (T1 : tree st1 = RT T0 (sum_size T0)).
  { unfold st1. cbn. rewrite HT, (remove_main _ _ _ D Ho). f_equal. symmetry. apply sum_remove_main; auto. }
  assert (F1 : fams_rep st1 T has_role) by (apply fams_rep_set_tree, HF).
  assert (F2 : fams_rep st2 T0 has_role).
  { eapply fams_rep_rebase; [|apply (remove_from_subtrees_rep st1 T has_role origin D Ho NP (fun f s => role_needs_peer f s origin (W origin Ho)) F1)].
    intros f s. cbn. unfold T0. rewrite filter_filter. apply filter_ext_in'. intros y _. apply andb_comm. }
  assert (NI0 : forall y, In y T0 -> r_id y <> r_id r).
  { intros y Hy. apply filter_In in Hy as [Hy C]. rewrite <- (IDS y Hy) in C. apply negb_true_iff, Z.eqb_neq in C. exact C. }
  assert (T3 : tree st3 = RT T0 (sum_size T0)).
  { unfold st3, assign. cbn [tree]. change (tree st2) with (tree st1). rewrite T1. unfold repl. cbn [items total].
    fold (replf r). rewrite (map_replf_noop r T0 NI0). reflexivity. }
  assert (F3 : fams_rep st3 T0 has_role).
  { intros f s. unfold st3. rewrite fam_of_assign, (F2 f s). unfold repl. cbn [items total]. fold (replf r).
    rewrite map_replf_noop; [reflexivity|]. intros y Hy. apply filter_In in Hy as [Hy _]. apply NI0, Hy. }
  assert (R3 : regs_rep (regs st3) (r :: T0)).
  { unfold st3, assign. cbn [regs]. change (regs st2) with (regs st).
    eapply regs_rep_equiv; [|apply regs_rep_put, HR]. intros y. cbn. unfold T0. rewrite !filter_In. split.
    - intros [E|[Hy C]]; [auto|]. right. split; [exact Hy|]. rewrite <- (IDS y Hy). exact C.
    - intros [E|[Hy C]]; [auto|]. right. split; [exact Hy|]. rewrite (IDS y Hy). exact C. }
  assert (EK : filter (keep r) T = filter (fun x => negb (overlaps x r)) T0).
  { unfold T0. rewrite filter_filter. apply filter_ext_in'. intros y Hy. unfold keep. rewrite (IDS y Hy). reflexivity. }
  assert (ED : displaced T r = filter (fun x => overlaps x r) T0).
  { unfold T0, displaced. rewrite filter_filter. apply filter_ext_in'. intros y Hy. rewrite (IDS y Hy). reflexivity. }
  unfold spec_tree. rewrite EK, ED.
  apply (tail_rep st3 T0 r); auto.
  apply good_filter, G.
Qed.

Lemma set_region_same_range st T r origin :
  trees_rep st T -> regs_rep (regs st) T -> good T -> wf_region r = true ->
  get_region st (r_id r) = Some origin ->
  negb (key_eqb (r_start origin) (r_start r)) || negb (key_eqb (r_end origin) (r_end r)) = false ->
  trees_rep (fst (set_region st r)) (spec_tree T r) /\ regs_rep (regs (fst (set_region st r))) (spec_tree T r) /\
  snd (set_region st r) = displaced T r.
Proof.
  intros (HT & HF & HB) HR G WR GS RC. apply wf_region_parts in WR as [V WP].
  pose proof G as (D & N & W). pose proof (ds_ssorted _ D) as S.
  apply (regs_rep_get _ _ _ _ HR) in GS as GS'. destruct GS' as [Ho Eid].
  pose proof (wf_peers_parts _ (W origin Ho)) as (_ & NP & _).
  apply orb_false_iff in RC as [RC1 RC2]. apply negb_false_iff in RC1, RC2.
  destruct (key_eqb_spec (r_start origin) (r_start r)) as [Es|]; [|discriminate].
  destruct (key_eqb_spec (r_end origin) (r_end r)) as [Ee|]; [|discriminate].
  set (T'' := map (replf r) T).
  assert (ET : spec_tree T r = T'') by (apply (sr_spec_tree T origin r G Ho Eid Es Ee)).
  assert (D'' : ds T'') by (rewrite <- ET; apply spec_tree_ds; auto).
  assert (Hr : In r T'') by (apply (sr_in_r T origin r Ho Eid)).
  assert (RG : regs_rep (regs_put (regs st) (r_id r) r) T'').
  { rewrite <- ET. eapply regs_rep_equiv; [|apply regs_rep_put, HR]. intros y.
    rewrite spec_tree_in. cbn. rewrite filter_In. split.
    - intros [E|[Hy C]]; [auto|]. right. split; [exact Hy|].
      rewrite (sr_keep T origin r G Ho Eid Es Ee y Hy). rewrite <- Eid, (id_vs_same _ _ _ G Ho Hy) in C. exact C.
    - intros [E|[Hy C]]; [auto|]. right. split; [exact Hy|].
      rewrite (sr_keep T origin r G Ho Eid Es Ee y Hy) in C. rewrite <- Eid, (id_vs_same _ _ _ G Ho Hy). exact C. }
  unfold set_region. rewrite GS.
  replace (negb (key_eqb (r_start origin) (r_start r)) || negb (key_eqb (r_end origin) (r_end r))) with false
    by (destruct (key_eqb_spec (r_start origin) (r_start r)), (key_eqb_spec (r_end origin) (r_end r)); try reflexivity; contradiction).
  cbn [negb]. rewrite (sr_displaced T origin r G Ho Eid Es Ee), ET.
  destruct (should_remove r origin) eqn:SR; cbn [negb fst snd].
  - (* the peers changed: out of every sub-tree, new RegionInfo, back into the sub-trees *)
    set (st2 := remove_from_subtrees st origin).
    set (st3 := assign st2 r).
    set (st4 := set_tree st3 (update_stat (tree st3) origin r)).
    assert (F2 : fams_rep st2 T (fun f s y => has_role f s y && negb (same origin y))).
    { apply (remove_from_subtrees_rep st T has_role origin D Ho NP (fun f s => role_needs_peer f s origin (W origin Ho)) HF). }
    assert (F3 : fams_rep st3 T'' (fun f s y => has_role f s y && negb (same r y))).
    { intros f s. unfold st3. rewrite fam_of_assign, (F2 f s). unfold repl. cbn [items total]. fold (replf r).
      unfold T''. rewrite <- (sr_filter_notsame T origin r G Ho Eid Es (has_role f s)).
      rewrite map_replf_noop; [reflexivity|]. intros y Hy. apply filter_In in Hy as [Hy C].
      apply andb_true_iff in C as [_ C]. apply negb_true_iff in C. rewrite <- Eid. intros E. apply Z.eqb_eq in E.
      rewrite (id_vs_same _ _ _ G Ho Hy) in E. congruence. }
    assert (T4 : tree st4 = RT T'' (sum_size T'')).
    { unfold st4, st3, assign. cbn. change (tree st2) with (tree st). rewrite HT.
      unfold update_stat, repl. cbn [items total]. fold (replf r). unfold T''.
      f_equal. rewrite (sr_sum_all T origin r G Ho Eid). reflexivity. }
    assert (F4 : fams_rep st4 T'' (fun f s y => has_role f s y && negb (same r y))) by (apply fams_rep_set_tree, F3).
    pose proof (add_to_subtrees_rep st4 T'' (fun f s y => has_role f s y && negb (same r y)) r D'' Hr WP) as F5.
    split; [|split; [|reflexivity]].
    + split; [|split].
      * exact T4.
      * eapply fams_rep_ext; [|apply F5].
        -- intros f s y Hy. cbn. destruct (same r y) eqn:Sm.
           ++ rewrite (same_in_eq _ _ _ (ds_ssorted _ D'') Hr Hy Sm). rewrite andb_false_r. reflexivity.
           ++ rewrite andb_true_r, orb_false_r. reflexivity.
        -- intros f s. rewrite same_refl. apply andb_false_r.
        -- exact F4.
      * exact HB.
    + exact RG.
  - (* nothing but statistics changed: the new RegionInfo in place, counters adjusted *)
    set (st3 := assign st r).
    set (st4 := set_tree st3 (update_stat (tree st3) origin r)).
    pose proof (same_roles _ _ SR) as RO.
    assert (T4 : tree st4 = RT T'' (sum_size T'')).
    { unfold st4, st3, assign. cbn. rewrite HT.
      unfold update_stat, repl. cbn [items total]. fold (replf r). unfold T''.
      f_equal. rewrite (sr_sum_all T origin r G Ho Eid). reflexivity. }
    assert (F4 : forall f s, fam_of st4 f s = RT (filter (has_role f s) T'') (sum_size (filter (has_role f s) T))).
    { intros f s. change (fam_of st4 f s) with (fam_of st3 f s). unfold st3. rewrite fam_of_assign, (HF f s).
      unfold repl. cbn [items total]. fold (replf r).
      unfold T''. rewrite (sr_filter_same_roles T origin r G Ho Eid (has_role f s) (RO f s)). reflexivity. }
    pose proof (wf_peers_parts _ WP) as (_ & _ & NPP).
    split; [|split; [|reflexivity]].
    + split; [|split].
      * exact T4.
      * intros f s.
        assert (GG : fam_of (update_subtree_stat st4 origin r) f s =
                     if has_role f s r then stat_if_present origin r (fam_of st4 f s) else fam_of st4 f s).
        { rewrite fam_of_stat, (role_as_loop f s r).
          destruct f; apply fam_fold_once; auto using voters_nodup, learners_nodup. }
        rewrite GG, (F4 f s). unfold T''.
        rewrite (sr_sum T origin r G Ho Eid (has_role f s) (RO f s)). fold T''.
        destruct (has_role f s r) eqn:HRr.
        -- unfold stat_if_present.
           assert (In r (filter (has_role f s) T'')) by (apply filter_In; auto).
           destruct (filter (has_role f s) T'') as [|a l] eqn:EF; [destruct H|].
           unfold rt_len. cbn [items length]. replace (Z.of_nat (Datatypes.S (length l)) =? 0) with false by (symmetry; apply Z.eqb_neq; lia).
           unfold update_stat. cbn [items total]. f_equal. lia.
        -- f_equal. lia.
      * exact HB.
    + exact RG.
Qed.

Theorem set_region_rep st T r :
  trees_rep st T -> regs_rep (regs st) T -> good T -> wf_region r = true ->
  trees_rep (fst (set_region st r)) (spec_tree T r) /\ regs_rep (regs (fst (set_region st r))) (spec_tree T r) /\
  snd (set_region st r) = displaced T r.
Proof.
  intros HT HR G WR. destruct (get_region st (r_id r)) as [origin|] eqn:GS.
  - destruct (negb (key_eqb (r_start origin) (r_start r)) || negb (key_eqb (r_end origin) (r_end r))) eqn:RC.
    + eapply set_region_range_changed; eauto.
    + eapply set_region_same_range; eauto.
  - apply set_region_new; auto.
Qed.
