(* C17 — the paging loop of LoadStores / loadRegions visits every item below math.MaxUint64 exactly once, in
   id order, for every page limit, every LoadRange fault pattern and every callback that deletes only ids it has
   already been shown. *)
From Coq Require Import ZifyBool ZifyNat.
From PDV Require Import lib.Base lib.C17_Map gen.Gen_C17 model.C17_Storage.
Local Open Scope Z_scope.
Local Open Scope list_scope.

Lemma two64_val : two64 = 18446744073709551616.
Proof. reflexivity. Qed.
Lemma max_id_val : max_id = 18446744073709551615.
Proof. reflexivity. Qed.
Lemma next_id_small k : 0 <= k < max_id -> next_id k = k + 1.
Proof. intros H. unfold next_id. rewrite max_id_val in H. rewrite two64_val. apply Z.mod_small. lia. Qed.
(* the wrap that makes an inclusive upper bound dangerous: after 2^64-1 the scan would restart at 0; the loop
   therefore stops when nextID == 0 *)
Lemma next_id_wraps : next_id max_id = 0.
Proof. reflexivity. Qed.
Lemma next_id_zero k : 0 <= k < two64 -> (next_id k = 0 <-> k = max_id).
Proof.
  intros H. split; [|intros ->; reflexivity]. intros E.
  destruct (Z.eq_dec k max_id) as [->|Hne]; [reflexivity|].
  rewrite next_id_small in E by (unfold max_id in *; lia). lia.
Qed.
Lemma range_end_val : range_end = max_id + 1.
Proof. reflexivity. Qed.

(* 20 zero-padded decimal digits hold every uint64: key order = id order *)
Lemma pad_covers_uint64 : two64 <= 10 ^ Gen_C17.store_key_pad /\ two64 <= 10 ^ Gen_C17.region_key_pad /\
                          two64 <= 10 ^ Gen_C17.leader_weight_key_pad /\ two64 <= 10 ^ Gen_C17.region_weight_key_pad.
Proof. repeat split; vm_compute; discriminate. Qed.

Section Loop.
  Context {V C : Type}.
  Variable fails : nat -> amap V -> bool.
  Variable cb : C -> Z * V -> C * list Z.
  Variable min_limit : Z.
  Hypothesis min_pos : 1 <= min_limit.

  (* J c b : the callback state c only refers to ids < b; then what it asks to delete lies behind the scan *)
  Variable J : C -> Z -> Prop.
  Hypothesis J_mono : forall c b b', J c b -> b <= b' -> J c b'.
  Hypothesis J_step : forall c it, J c (fst it) ->
    (forall d, In d (snd (cb c it)) -> d <= fst it) /\ J (fst (cb c it)) (fst it + 1).

  Definition todo (m : amap V) (next : Z) : amap V := filter (in_range next range_end) m.
  Notation step := (step_item cb no_rw).

  Definition fst3 {X Y W} (t : X * Y * W) : X := fst (fst t).
  Definition snd3 {X Y W} (t : X * Y * W) : Y := snd (fst t).
  Definition thd3 {X Y W} (t : X * Y * W) : W := snd t.

  Lemma filter_del_below (m : amap V) d b hi : d < b ->
    filter (in_range b hi) (del m d) = filter (in_range b hi) m.
  Proof.
    intros Hd. induction m as [|[k v] r IH]; cbn [del filter]; [reflexivity|].
    destruct (d =? k) eqn:E.
    - apply Z.eqb_eq in E; subst k. unfold in_range at 2; cbn [fst].
      replace (b <=? d) with false by (symmetry; lia). reflexivity.
    - destruct (d <? k); [reflexivity|]. cbn [filter]. rewrite IH. reflexivity.
  Qed.

  Lemma filter_dels_below (dels : list Z) : forall (m : amap V) b hi, (forall d, In d dels -> d < b) ->
    filter (in_range b hi) (fold_left del dels m) = filter (in_range b hi) m.
  Proof.
    induction dels as [|d ds IH]; intros m b hi H; cbn [fold_left]; [reflexivity|].
    rewrite IH by (intros d' Hd'; apply H; right; exact Hd').
    apply filter_del_below. apply H. left. reflexivity.
  Qed.

  Lemma dels_sorted (dels : list Z) : forall (m : amap V) lo, sorted_from lo m -> sorted_from lo (fold_left del dels m).
  Proof. induction dels as [|d ds IH]; intros m lo H; cbn [fold_left]; [exact H|]. apply IH. apply del_sorted. exact H. Qed.

  (* items of a page: keys strictly increasing, >= lo, < 2^64 *)
  Fixpoint page_ok (lo : Z) (p : amap V) : Prop :=
    match p with [] => True | (k, _) :: r => lo <= k < range_end /\ page_ok (k + 1) r end.

  Lemma page_ok_filter lo b (m : amap V) : sorted_from b m -> 0 <= lo -> page_ok lo (todo m lo).
  Proof.
    revert lo b; induction m as [|[k v] r IH]; intros lo b Hs Hlo; cbn [todo filter page_ok]; [exact I|].
    destruct Hs as [H1 H2]. unfold in_range at 1; cbn [fst].
    destruct ((lo <=? k) && (k <? range_end)) eqn:E.
    - cbn [page_ok]. split; [lia|].
      assert (G : filter (in_range lo range_end) r = filter (in_range (k + 1) range_end) r).
      { rewrite (filter_all_from lo range_end r (k + 1) H2) by lia.
        rewrite (filter_all_from (k + 1) range_end r (k + 1) H2) by lia. reflexivity. }
      rewrite G. apply (IH (k + 1) (k + 1) H2). lia.
    - apply (IH lo (k + 1) H2 Hlo).
  Qed.

  Lemma page_ok_firstn n : forall lo (p : amap V), page_ok lo p -> page_ok lo (firstn n p).
  Proof.
    induction n as [|n IH]; intros lo [|[k v] r] H; cbn [firstn page_ok]; auto.
    destruct H as [H1 H2]. split; [exact H1|]. apply IH. exact H2.
  Qed.

  (* processing a page: storage changes only behind the last key of the page *)
  Lemma step_item_eq m c nx (it : Z * V) :
    step (m, c, nx) it = (fold_left del (snd (cb c it)) m, fst (cb c it), next_id (fst it)).
  Proof. unfold step_item. destruct (cb c it); reflexivity. Qed.

  Lemma process_page : forall (p : amap V) lo0 lo m c nx,
    page_ok lo p -> 0 <= lo -> sorted_from lo0 m -> J c lo ->
    let r := fold_left step p (m, c, nx) in
    sorted_from lo0 (fst3 r) /\
    (p = [] -> r = (m, c, nx)) /\
    (forall b hi, (forall k v, In (k, v) p -> k < b) -> lo <= b ->
       filter (in_range b hi) (fst3 r) = filter (in_range b hi) m) /\
    (forall k v r0, p = r0 ++ [(k, v)] -> thd3 r = next_id k /\ J (snd3 r) (k + 1)).
  Proof.
    induction p as [|[k v] p IH]; intros lo0 lo m c nx Hp Hlo Hs HJ r.
    - subst r. cbn [fold_left fst3 snd3 thd3 fst snd].
      split; [exact Hs|]. split; [reflexivity|]. split; [reflexivity|].
      intros kk vv rr E; destruct rr; discriminate.
    - destruct Hp as [Hk Hp].
      subst r. cbn [fold_left]. rewrite step_item_eq. cbn [fst].
      assert (HJk : J c k) by (apply (J_mono c lo k HJ); lia).
      destruct (J_step c (k, v) HJk) as [Hd HJ']. cbn [fst] in Hd, HJ'.
      set (c' := fst (cb c (k, v))) in *. set (dels := snd (cb c (k, v))) in *.
      specialize (IH lo0 (k + 1) (fold_left del dels m) c' (next_id k) Hp ltac:(lia) (dels_sorted dels m lo0 Hs) HJ').
      cbv zeta in IH. destruct IH as (I1 & I3 & I4 & I5).
      split; [exact I1|]. split; [discriminate|]. split.
      + intros b hi Hb Hlob.
        rewrite I4.
        * apply filter_dels_below. intros d Hdin. specialize (Hd d Hdin).
          specialize (Hb k v (or_introl eq_refl)). lia.
        * intros k' v' Hin. apply (Hb k' v'). right. exact Hin.
        * specialize (Hb k v (or_introl eq_refl)). lia.
      + intros k' v' r0 E. destruct r0 as [|x r0].
        * cbn in E. inversion E; subst. cbn [fold_left thd3 snd3 fst snd]. split; [reflexivity|exact HJ'].
        * cbn in E. inversion E; subst. apply (I5 k' v' r0 eq_refl).
  Qed.

  (* the third component (nextID) never influences storage or callback state *)
  Lemma fold_step_nx : forall (p : amap V) m c nx nx',
    fst (fold_left step p (m, c, nx)) = fst (fold_left step p (m, c, nx')).
  Proof.
    induction p as [|it p IH]; intros m c nx nx'; cbn [fold_left]; [reflexivity|].
    rewrite !step_item_eq. reflexivity.
  Qed.

  Definition final (m : amap V) (c : C) (items : amap V) : amap V * C := fst (fold_left step items (m, c, 0)).

  Lemma page_ok_last : forall (p : amap V) lo k v, page_ok lo (p ++ [(k, v)]) ->
    forall k' v', In (k', v') (p ++ [(k, v)]) -> k' <= k.
  Proof.
    induction p as [|[k0 v0] p IH]; intros lo k v H k' v' Hin; cbn [app] in *.
    - destruct Hin as [E|[]]. inversion E; subst. lia.
    - destruct H as [H1 H2]. destruct Hin as [E|Hin].
      + inversion E; subst k' v'.
        assert (G : forall (q : amap V) b, page_ok b q -> forall a w, In (a, w) q -> b <= a).
        { clear. induction q as [|[a0 w0] q IHq]; intros b Hq a w Hin; [contradiction|].
          destruct Hq as [Hq1 Hq2]. destruct Hin as [E|Hin]; [inversion E; subst; lia|].
          specialize (IHq _ Hq2 _ _ Hin). lia. }
        specialize (G _ _ H2 k v). assert (In (k, v) (p ++ [(k, v)])) by (apply in_or_app; right; left; reflexivity).
        specialize (G H). lia.
      + apply (IH _ _ _ H2 _ _ Hin).
  Qed.

  Lemma nth_error_firstn_lt {X} : forall n (l : list X) i, (i < n)%nat -> nth_error (firstn n l) i = nth_error l i.
  Proof.
    induction n as [|n IH]; intros l i Hi; [lia|]. destruct l as [|x l]; [destruct i; reflexivity|].
    destruct i as [|i]; [reflexivity|]. cbn. apply IH. lia.
  Qed.

  Lemma firstn_short {X} n (l : list X) : (length (firstn n l) < n)%nat -> firstn n l = l.
  Proof.
    intros H. rewrite firstn_length in H. apply firstn_all2. lia.
  Qed.

  Lemma log2_half limit : 2 <= limit -> (Z.to_nat (Z.log2 (limit / 2)) < Z.to_nat (Z.log2 limit))%nat.
  Proof.
    intros H. assert (H0 : 0 < limit / 2) by (apply Z.div_str_pos; lia).
    pose proof (Z.div_mod limit 2 ltac:(lia)) as E.
    pose proof (Z.mod_pos_bound limit 2 ltac:(lia)) as B.
    pose proof (Z.log2_nonneg (limit / 2)) as N.
    assert (L : Z.log2 limit = Z.succ (Z.log2 (limit / 2))).
    { destruct (Z.eq_dec (limit mod 2) 0) as [Z0|Z1].
      - rewrite E at 1. rewrite Z0, Z.add_0_r. apply Z.log2_double. exact H0.
      - assert (limit mod 2 = 1) by lia. rewrite E at 1. rewrite H1. apply Z.log2_succ_double. exact H0. }
    lia.
  Qed.

  Theorem page_loop_spec : forall fuel m next limit call c acc lo0,
    sorted_from lo0 m -> 0 <= next -> J c next -> 1 <= limit ->
    (length (todo m next) + Z.to_nat (Z.log2 limit) < fuel)%nat ->
    let res := page_loop fails cb no_rw min_limit fuel m next limit call c acc in
    fst (fst (fst res)) <> RDiverged /\
    (fst (fst (fst res)) = RDone ->
       snd (fst (fst res)) = acc ++ todo m next /\ (snd (fst res), snd res) = final m c (todo m next)) /\
    sorted_from lo0 (snd (fst res)).
  Proof.
    induction fuel as [|fuel IH]; intros m next limit call c acc lo0 Hs Hn HJ Hl Hf; [lia|].
    cbn [page_loop]. set (page := range m next range_end limit).
    assert (Hpage : page = firstn (Z.to_nat limit) (todo m next)) by reflexivity.
    destruct (fails call page) eqn:Ef.
    - (* LoadRange failed: halve and retry, or give up *)
      destruct (min_limit <=? limit / 2) eqn:Em.
      + apply IH; try assumption; [lia|].
        assert (2 <= limit).
        { destruct (Z.le_gt_cases 2 limit) as [G|G]; [exact G|].
          assert (limit = 1) by lia. subst limit. cbn in Em. lia. }
        pose proof (log2_half limit H). lia.
      + cbn [fst snd]. split; [discriminate|]. split; [discriminate|exact Hs].
    - pose proof (page_ok_firstn (Z.to_nat limit) next (todo m next) (page_ok_filter next lo0 m Hs Hn)) as Hok.
      rewrite <- Hpage in Hok.
      pose proof (process_page page lo0 next m c next Hok Hn Hs HJ) as P. cbv zeta in P.
      destruct P as (P1 & P2 & P3 & P4).
      destruct (fold_left step page (m, c, next)) as [[m' c'] next'] eqn:Efold.
      cbn [fst3 snd3 thd3 fst snd] in P1, P3, P4.
      assert (Hfinal_page : fst (fold_left step page (m, c, 0)) = (m', c')).
      { rewrite (fold_step_nx page m c 0 next), Efold. reflexivity. }
      destruct (Z.of_nat (length page) <? limit) eqn:Elen.
      + (* short page: done *)
        cbn [orb fst snd]. split; [discriminate|]. split; [|exact P1]. intros _.
        assert (Hall : page = todo m next).
        { rewrite Hpage. apply firstn_short. rewrite <- Hpage. lia. }
        split; [rewrite Hall; reflexivity|].
        unfold final. rewrite <- Hall. rewrite Hfinal_page. reflexivity.
      + (* full page *)
        cbn [orb].
        assert (Hlen : length page = Z.to_nat limit).
        { pose proof (firstn_le_length (Z.to_nat limit) (todo m next)) as G. rewrite <- Hpage in G. lia. }
        destruct (exists_last (l := page)) as (r0 & [k v] & Elast).
        { intros E. rewrite E in Hlen. cbn in Hlen. lia. }
        destruct (P4 k v r0 Elast) as [Hnext HJ'].
        assert (Hkeys : forall k' v', In (k', v') page -> k' < k + 1).
        { intros k' v' Hin. rewrite Elast in Hok, Hin. pose proof (page_ok_last r0 next k v Hok k' v' Hin). lia. }
        assert (Hkb : next <= k < range_end).
        { rewrite Elast in Hok. clear - Hok.
          assert (G : forall (q : amap V) b, page_ok b q -> forall a w, In (a, w) q -> b <= a < range_end).
          { induction q as [|[a0 w0] q IHq]; intros b Hq a w Hin; [contradiction|].
            destruct Hq as [Hq1 Hq2]. destruct Hin as [E|Hin]; [inversion E; subst; lia|].
            specialize (IHq _ Hq2 _ _ Hin). lia. }
          apply (G _ _ Hok k v). apply in_or_app. right. left. reflexivity. }
        (* what lies behind the page *)
        assert (Hskip : skipn (length page) (todo m next) = filter (in_range (k + 1) range_end) m).
        { assert (Hnth : nth_error (todo m next) (length r0) = Some (k, v)).
          { assert (G : nth_error page (length r0) = Some (k, v)).
            { rewrite Elast. rewrite nth_error_app2 by lia. rewrite Nat.sub_diag. reflexivity. }
            rewrite Hpage in G. rewrite nth_error_firstn_lt in G; [exact G|].
            rewrite <- Hlen, Elast, app_length. cbn. lia. }
          assert (Hlp : length page = S (length r0)).
          { rewrite Elast, app_length. cbn. lia. }
          rewrite Hlp. symmetry.
          apply (filter_split_after next range_end m lo0 (length r0) Hs) with (v := v); [|exact Hnth].
          apply nth_error_Some. unfold todo in Hnth. rewrite Hnth. discriminate. }
        assert (Hsplit0 : todo m next = page ++ skipn (length page) (todo m next)).
        { rewrite Hlen. rewrite Hpage. symmetry. apply firstn_skipn. }
        destruct (next' =? 0) eqn:Ez.
        * (* nextID wrapped: the page ended at the largest id, nothing can lie behind it *)
          apply Z.eqb_eq in Ez. rewrite Hnext in Ez.
          assert (Hk : k = max_id) by (apply next_id_zero; [unfold range_end in Hkb; lia|exact Ez]).
          assert (Hnil : filter (in_range (k + 1) range_end) m = []).
          { rewrite Hk, <- range_end_val. clear. induction m as [|[a w] r IHr]; cbn [filter]; [reflexivity|].
            unfold in_range at 1; cbn [fst].
            replace ((range_end <=? a) && (a <? range_end)) with false by (symmetry; lia). exact IHr. }
          assert (Hall : page = todo m next) by (rewrite Hsplit0, Hskip, Hnil, app_nil_r; reflexivity).
          cbn [fst snd]. split; [discriminate|]. split; [|exact P1]. intros _.
          split; [rewrite Hall; reflexivity|].
          unfold final. rewrite <- Hall. rewrite Hfinal_page. reflexivity.
        * (* continue right after the last key of the page *)
          apply Z.eqb_neq in Ez. rewrite Hnext in Ez.
          assert (Hk : k <> max_id) by (intros ->; apply Ez; reflexivity).
          assert (Hnext' : next' = k + 1).
          { rewrite Hnext. apply next_id_small. unfold range_end, max_id in *. lia. }
          assert (Htodo' : todo m' next' = skipn (length page) (todo m next)).
          { unfold todo at 1. rewrite Hnext'. rewrite (P3 (k + 1) range_end Hkeys ltac:(lia)). symmetry. exact Hskip. }
          assert (Hsplit : todo m next = page ++ todo m' next') by (rewrite Htodo'; exact Hsplit0).
          assert (Hmeasure : (length (todo m' next') + Z.to_nat (Z.log2 limit) < fuel)%nat).
          { rewrite Hsplit, app_length in Hf. lia. }
          specialize (IH m' next' limit (S call) c' (acc ++ page) lo0 P1 ltac:(lia)
                         ltac:(rewrite Hnext'; exact HJ') Hl Hmeasure).
          cbv zeta in IH. destruct IH as (I1 & I2 & I3).
          split; [exact I1|]. split; [|exact I3]. intros Hd. destruct (I2 Hd) as [A B].
          split.
          -- rewrite A, Hsplit, app_assoc. reflexivity.
          -- rewrite B. unfold final. rewrite Hsplit. rewrite fold_left_app.
             destruct (fold_left step page (m, c, 0)) as [[m2 c2] nx2] eqn:E0.
             cbn [fst] in Hfinal_page. inversion Hfinal_page; subst m2 c2. apply fold_step_nx.
  Qed.
End Loop.
