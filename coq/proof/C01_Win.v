(* C01/C02 proofs, layer 2: the stored window W, lastSavedTime and the physical time in memory. *)
From Coq Require Import ZArith List Bool Lia.
From PDV Require Import lib.Base gen.Gen_C01 model.C01_Tso proof.C01_Ctl.
Import ListNotations.
Local Open Scope Z_scope.

(* side conditions on the constants the translator regenerates and on the configuration *)
Lemma guard_pos : 0 < guard. Proof. reflexivity. Qed.
Lemma guard_ge_ms : ns_per_ms <= guard. Proof. unfold guard, ns_per_ms, UpdateTimestampGuard; lia. Qed.

Definition Cfg (s : state) : Prop := guard < interval s.

Definition synced (x : mem) : bool :=
  match phys x with Some _ => true | None => false end || negb (idle_upd (upd x)) || negb (idle_ur (ur x))
  || match syn x with SPendSet _ => true | _ => false end.

Record Win (s : state) : Prop := {
  w_d1  : forall m, owner s = Some m -> synced (mems s m) = true ->
            exists w, W s = Some w /\ last_saved (mems s m) = Some w;
  w_d1b : forall m sv, last_saved (mems s m) = Some sv -> exists w, W s = Some w /\ sv <= w;
  w_d2  : forall m p, phys (mems s m) = Some p -> exists sv, last_saved (mems s m) = Some sv /\ p + guard < sv;
  w_d3s : forall m n, syn (mems s m) = SPendSet n -> exists sv, last_saved (mems s m) = Some sv /\ n + guard < sv;
  w_d3u : forall m n, upd (mems s m) = UPendSet n -> exists sv, last_saved (mems s m) = Some sv /\ n + guard < sv;
  w_d3r : forall m p l, ur (mems s m) = RSaved p l -> exists sv, last_saved (mems s m) = Some sv /\ p + guard < sv;
  w_d4  : forall m last, owner s = Some m -> syn (mems s m) = SLoaded last -> W s = last;
  w_du  : forall m n, upd (mems s m) = UDecided n -> need_save (mems s m) n = true;
  w_dr  : forall m p l, ur (mems s m) = RDeciding p l -> need_save (mems s m) p = true;
  w_mx  : forall m n p l, upd (mems s m) = UDecided n -> ur (mems s m) = RDeciding p l -> False
}.

Lemma win_init iv gap : Win (init iv gap).
Proof. constructor; cbn; intros; try discriminate. Qed.

Definition opt_le (a b : option Z) : Prop :=
  match a, b with None, _ => True | Some x, Some y => x <= y | Some _, None => False end.

Lemma opt_le_refl a : opt_le a a. Proof. destruct a; cbn; lia. Qed.

(* a label that rewrites only member m's record, and the window only through m's own LeaderTxn *)
Lemma win_set_mem s m x w :
  Win s ->
  (w = W s \/ (owner s = Some m /\ opt_le (W s) w /\ w <> None)) ->
  (owner s = Some m -> synced x = true -> exists wv, w = Some wv /\ last_saved x = Some wv) ->
  (forall sv, last_saved x = Some sv -> exists wv, w = Some wv /\ sv <= wv) ->
  (forall p, phys x = Some p -> exists sv, last_saved x = Some sv /\ p + guard < sv) ->
  (forall n, syn x = SPendSet n -> exists sv, last_saved x = Some sv /\ n + guard < sv) ->
  (forall n, upd x = UPendSet n -> exists sv, last_saved x = Some sv /\ n + guard < sv) ->
  (forall p l, ur x = RSaved p l -> exists sv, last_saved x = Some sv /\ p + guard < sv) ->
  (forall last, owner s = Some m -> syn x = SLoaded last -> w = last) ->
  (forall n, upd x = UDecided n -> need_save x n = true) ->
  (forall p l, ur x = RDeciding p l -> need_save x p = true) ->
  (forall n p l, upd x = UDecided n -> ur x = RDeciding p l -> False) ->
  Win (State w (owner s) (upd_f (mems s) m x) (recs s) (clock s) (interval s) (gap_ms s)).
Proof.
  intros [D1 D1b D2 D3s D3u D3r D4 Du Dr Mx] Hw H1 H1b H2 H3s H3u H3r H4 Hu Hr Hmx.
  constructor; cbn; unfold upd_f; intros m'.
  - destruct (Nat.eqb_spec m' m); subst; [exact H1|].
    intros Ho Hs. destruct Hw as [->|(Ho' & _)]; [apply D1; assumption|congruence].
  - destruct (Nat.eqb_spec m' m); subst; [exact H1b|].
    intros sv Hsv. destruct (D1b _ _ Hsv) as (w0 & Hw0 & Hle).
    destruct Hw as [->|(_ & Hle' & Hnn)]; [eauto|].
    rewrite Hw0 in Hle'. destruct w as [wv|]; [|contradiction]. cbn in Hle'. exists wv. split; [reflexivity|lia].
  - destruct (Nat.eqb_spec m' m); subst; [exact H2|apply D2].
  - destruct (Nat.eqb_spec m' m); subst; [exact H3s|apply D3s].
  - destruct (Nat.eqb_spec m' m); subst; [exact H3u|apply D3u].
  - destruct (Nat.eqb_spec m' m); subst; [exact H3r|apply D3r].
  - destruct (Nat.eqb_spec m' m); subst; [exact H4|].
    intros last Ho Hs. destruct Hw as [->|(Ho' & _)]; [eapply D4; eassumption|congruence].
  - destruct (Nat.eqb_spec m' m); subst; [exact Hu|apply Du].
  - destruct (Nat.eqb_spec m' m); subst; [exact Hr|apply Dr].
  - destruct (Nat.eqb_spec m' m); subst; [exact Hmx|apply Mx].
Qed.

Arguments Z.shiftr : simpl never.
Arguments Z.land : simpl never.
Arguments Z.ones : simpl never.
Arguments Z.div : simpl never.
Arguments save_txn : simpl never.
Arguments set_physical : simpl never.
Arguments need_save : simpl never.
Arguments busy : simpl never.
Arguments has_pending : simpl never.
Arguments save_busy : simpl never.
Arguments locked : simpl never.
Arguments synced : simpl never.

(* Win does not look at validity, control state, logical counters, records or the clock *)
Lemma win_ext s s' :
  Win s -> W s' = W s -> owner s' = owner s ->
  (forall m, phys (mems s' m) = phys (mems s m) /\ last_saved (mems s' m) = last_saved (mems s m) /\
             syn (mems s' m) = syn (mems s m) /\ upd (mems s' m) = upd (mems s m) /\ ur (mems s' m) = ur (mems s m)) ->
  Win s'.
Proof.
  intros [D1 D1b D2 D3s D3u D3r D4 Du Dr Mx] HW HO HF.
  constructor; intros m; destruct (HF m) as (F1 & F2 & F3 & F4 & F5);
    unfold need_save, synced; rewrite ?HW, ?HO, ?F1, ?F2, ?F3, ?F4, ?F5.
  - apply D1.
  - apply D1b.
  - apply D2.
  - apply D3s.
  - apply D3u.
  - apply D3r.
  - apply D4.
  - apply Du.
  - apply Dr.
  - apply Mx.
Qed.

Lemma save_txn_cases s m o t :
  (fst (save_txn s m o t) = s /\ snd (save_txn s m o t) = false) \/
  (owner s = Some m /\ fst (save_txn s m o t) = set_W s (Some t) /\ (o = Ok -> snd (save_txn s m o t) = true) /\
   (snd (save_txn s m o t) = true -> o = Ok) /\ o <> ErrNotApplied).
Proof.
  unfold save_txn. destruct (is_owner s m) eqn:Eo.
  - apply is_owner_true in Eo. destruct o; cbn; [right|left|right]; repeat split; auto; try discriminate; try congruence.
  - destruct o; cbn; left; auto.
Qed.

Lemma synced_with_valid x v : synced (with_valid x v) = synced x. Proof. reflexivity. Qed.
Lemma synced_with_ctl x c : synced (with_ctl x c) = synced x. Proof. reflexivity. Qed.

Ltac inj :=
  repeat match goal with
  | H : Some _ = Some _ |- _ => inversion H; subst; clear H
  | H : (_, _) = (_, _) |- _ => inversion H; subst; clear H
  | H : None = Some _ |- _ => discriminate H
  | H : Some _ = None |- _ => discriminate H
  | H : true = false |- _ => discriminate H
  | H : false = true |- _ => discriminate H
  | H : SPendSet _ = SPendSet _ |- _ => inversion H; subst; clear H
  | H : UPendSet _ = UPendSet _ |- _ => inversion H; subst; clear H
  | H : UDecided _ = UDecided _ |- _ => inversion H; subst; clear H
  | H : RSaved _ _ = RSaved _ _ |- _ => inversion H; subst; clear H
  | H : RDeciding _ _ = RDeciding _ _ |- _ => inversion H; subst; clear H
  | H : SLoaded _ = SLoaded _ |- _ => inversion H; subst; clear H
  end.

Ltac win11 := apply win_set_mem; [assumption | | cbn | cbn | cbn | cbn | cbn | cbn | cbn | cbn | cbn | cbn].
Ltac stdw := auto; try discriminate; try (intros; discriminate); try solve [unfold need_save in *; cbn; eauto].

(* the restriction of step_r, at the level of step0 *)
Definition allowed (l : label) : Prop :=
  match l with LURSave _ ErrApplied | LUpdSave _ ErrApplied => False | _ => True end.

Lemma need_save_false x n : need_save x n = false -> exists sv, last_saved x = Some sv /\ n + guard < sv.
Proof.
  unfold need_save. destruct (last_saved x) as [sv|]; [|discriminate].
  intros H. apply Z.leb_gt in H. exists sv. split; [reflexivity|lia].
Qed.

Lemma need_save_true_le x n sv : need_save x n = true -> last_saved x = Some sv -> sv - n <= guard.
Proof. unfold need_save. intros H E. rewrite E in H. apply Z.leb_le in H. exact H. Qed.

Lemma synced_of_phys x p : phys x = Some p -> synced x = true.
Proof. unfold synced. intros ->. reflexivity. Qed.
Lemma synced_of_upd x : idle_upd (upd x) = false -> synced x = true.
Proof. unfold synced. intros ->. cbn. rewrite orb_true_r. reflexivity. Qed.
Lemma synced_of_ur x : idle_ur (ur x) = false -> synced x = true.
Proof. unfold synced. intros ->. cbn. rewrite !orb_true_r. reflexivity. Qed.
Lemma synced_of_pendset x n : syn x = SPendSet n -> synced x = true.
Proof. unfold synced. intros ->. rewrite !orb_true_r. reflexivity. Qed.

Lemma win_step0 s l s' :
  Ctl s -> Cfg s -> Win s -> allowed l -> step0 s l = Some s' -> Win s'.
Proof.
  intros C G I A H. pose proof I as [D1 D1b D2 D3s D3u D3r D4 Du Dr Mx].
  pose proof C as [E2 NONE FL SYN UR PEND]. pose proof guard_pos as Hgp. unfold Cfg in G.
  destruct l; cbn in H.
  - (* LElect *)
    destruct (owner s) eqn:Eo; [discriminate|]. destruct (busy s m) eqn:Eb; [discriminate|]. inj.
    unfold busy in Eb. apply orb_false_iff in Eb as [Eb Ep]. apply negb_false_iff in Eb.
    apply andb_true_iff in Eb as [Eb Hiu]. apply andb_true_iff in Eb as [Eb Hiup]. apply andb_true_iff in Eb as [Hic His].
    assert (Hn : phys (mems s m) = None) by (apply NONE; destruct (ctl (mems s m)); try discriminate; reflexivity).
    constructor; cbn; unfold upd_f; intros m'.
    + intros Ho. inversion Ho; subst m'; clear Ho. rewrite Nat.eqb_refl. unfold synced; cbn. rewrite Hn, Hiup, Hiu. cbn.
      destruct (syn (mems s m)); try discriminate.
    + destruct (Nat.eqb_spec m' m); subst; cbn; apply D1b.
    + destruct (Nat.eqb_spec m' m); subst; cbn; apply D2.
    + destruct (Nat.eqb_spec m' m); subst; cbn; apply D3s.
    + destruct (Nat.eqb_spec m' m); subst; cbn; apply D3u.
    + destruct (Nat.eqb_spec m' m); subst; cbn; apply D3r.
    + intros last Ho. inversion Ho; subst m'; clear Ho. rewrite Nat.eqb_refl. cbn. destruct (syn (mems s m)); discriminate.
    + destruct (Nat.eqb_spec m' m); subst; cbn; apply Du.
    + destruct (Nat.eqb_spec m' m); subst; cbn; apply Dr.
    + destruct (Nat.eqb_spec m' m); subst; cbn; apply Mx.
  - (* LValidOff *)
    inj. apply (win_ext s); auto. intros m'. cbn. unfold upd_f. destruct (Nat.eqb_spec m' m); subst; cbn; auto.
  - (* LValidOn *)
    destruct (is_owner s m || negb (busy s m)); [|discriminate]. inj.
    apply (win_ext s); auto. intros m'. cbn. unfold upd_f. destruct (Nat.eqb_spec m' m); subst; cbn; auto.
  - (* LOwnerGone *)
    destruct (owner s) as [m|] eqn:Eo; [|discriminate]. destruct (valid (mems s m)); [discriminate|]. inj.
    constructor; cbn; try discriminate; auto.
  - (* LSyncLoad *)
    destruct (ctl (mems s m)) eqn:Ec; try discriminate. destruct (syn (mems s m)) eqn:Es; try discriminate.
    destruct (save_busy (mems s m)); [discriminate|]. inj. unfold set_mem.
    destruct (FL m) as [Hu Hr]; [rewrite Ec; reflexivity|].
    win11; stdw; eauto.
    all: try solve [ intros Ho Hs; apply D1; [exact Ho|]; unfold synced in *; cbn in *; rewrite Es; exact Hs ].
    all: try solve [ intros last Ho Hl; inj; reflexivity ].
  - (* LSyncSave *)
    destruct (syn (mems s m)) as [|last|] eqn:Es; try discriminate.
    set (next := match last with Some l0 => if now - l0 <? guard then l0 + guard else now | None => now end) in *.
    set (t := next + interval s) in *.
    assert (Hnext : forall l0, last = Some l0 -> l0 + guard <= next).
    { intros l0 ->. subst next. destruct (now - l0 <? guard) eqn:E; [lia|]. apply Z.ltb_ge in E. lia. }
    pose proof (SYN m) as Hc. rewrite Es in Hc. specialize (Hc eq_refl).
    destruct (FL m) as [Hu Hr]; [rewrite Hc; reflexivity|].
    assert (Hn : phys (mems s m) = None) by (apply NONE; rewrite Hc; reflexivity).
    destruct (save_txn s m o t) as [s1 acked] eqn:Et.
    destruct (save_txn_cases s m o t) as [(Hs1 & Hack)|(Ho & Hs1 & Hack1 & Hack2 & Hna)]; rewrite Et in *; cbn in Hs1; subst s1.
    + (* nothing applied *)
      cbn in Hack. subst acked. inj. unfold set_mem.
      win11; stdw; eauto.
      all: try solve [ intros Ho Hs; unfold synced in Hs; cbn in Hs; rewrite Hn, Hu, Hr in Hs; discriminate ].
    + (* applied by the owner: the window moves up *)
      assert (Hle : opt_le (W s) (Some t)).
      { rewrite (D4 _ _ Ho Es). destruct last as [l0|]; cbn; [|exact Logic.I]. specialize (Hnext _ eq_refl). subst t. lia. }
      destruct acked; inj; unfold set_mem, set_W; cbn.
      * win11; stdw; eauto.
        all: try solve [ right; repeat split; auto; discriminate ].
        all: try solve [ intros _ _; exists t; auto ].
        all: try solve [ intros sv Hsv; exists t; split; [reflexivity|]; inversion Hsv; lia ].
        all: try solve [ intros n Hn'; inj; exists t; split; [reflexivity|subst t; lia] ].
        all: try solve [ intros p Hp; rewrite Hn in Hp; discriminate ].
        all: try solve [ intros n Hx; rewrite Hu in Hx; discriminate ].
        all: try solve [ intros p l Hx; rewrite Hr in Hx; discriminate ].
      * win11; stdw; eauto.
        all: try solve [ right; repeat split; auto; discriminate ].
        all: try solve [ intros _ Hs; unfold synced in Hs; cbn in Hs; rewrite Hn, Hu, Hr in Hs; discriminate ].
        all: try solve [ intros sv Hsv; destruct (D1b _ _ Hsv) as (w0 & Hw0 & Hl0); rewrite Hw0 in Hle; cbn in Hle;
                         exists t; split; [reflexivity|lia] ].
  - (* LSyncSet *)
    destruct (syn (mems s m)) as [| |next] eqn:Es; try discriminate.
    destruct (locked (mems s m)) eqn:El; [discriminate|]. inj. unfold set_mem.
    pose proof (SYN m) as Hc. rewrite Es in Hc. specialize (Hc eq_refl).
    destruct (FL m) as [Hu Hr]; [rewrite Hc; reflexivity|].
    assert (Hn : phys (mems s m) = None) by (apply NONE; rewrite Hc; reflexivity).
    destruct (D3s _ _ Es) as (sv & Hsv & Hlt).
    unfold set_physical. rewrite Hn. cbn.
    win11; stdw; eauto.
    all: try solve [ intros Ho _; apply D1; [exact Ho|]; eapply synced_of_pendset; eauto ].
    all: try solve [ intros p Hp; inj; eauto ].
  - (* LUpdRead *)
    destruct (upd (mems s m)) eqn:Eu; try discriminate.
    destruct (valid (mems s m) && negb (locked (mems s m))) eqn:Ev; [|discriminate].
    destruct (phys (mems s m)) as [p|] eqn:Ep; [|inj; exact I].
    assert (Hgen : forall n, Win (set_mem s m (with_upd (mems s m) (URead n)))).
    { intros n. unfold set_mem. win11; stdw; eauto.
      all: try solve [ intros Ho _; apply D1; [exact Ho|]; eapply synced_of_phys; eauto ]. }
    destruct (guard <? now - p); [inj; apply Hgen|].
    destruct (_ <? logical (mems s m)); inj; [apply Hgen|exact I].
  - (* LUpdDecide *)
    destruct (upd (mems s m)) as [|next| |] eqn:Eu; try discriminate.
    destruct (save_busy (mems s m)) eqn:Esb; [discriminate|].
    assert (Hsy : synced (mems s m) = true) by (apply synced_of_upd; rewrite Eu; reflexivity).
    destruct (need_save (mems s m) next) eqn:Ens; inj; unfold set_mem.
    + win11; stdw; eauto.
      all: try solve [ intros Ho _; apply D1; assumption ].
      all: try solve [ intros n Hx; inj; exact Ens ].
      all: try solve [ intros n p l _ Hx; unfold save_busy in Esb; rewrite Hx in Esb;
                       destruct (syn (mems s m)); try discriminate; rewrite Eu in Esb; discriminate ].
    + destruct (need_save_false _ _ Ens) as (sv & Hsv & Hlt).
      win11; stdw; eauto.
      all: try solve [ intros Ho _; apply D1; assumption ].
      all: try solve [ intros n Hx; inj; eauto ].
  - (* LUpdSave *)
    destruct (upd (mems s m)) as [| |next|] eqn:Eu; try discriminate.
    set (t := next + interval s) in *.
    assert (Hsy : synced (mems s m) = true) by (apply synced_of_upd; rewrite Eu; reflexivity).
    destruct (save_txn s m o t) as [s1 acked] eqn:Et.
    destruct (save_txn_cases s m o t) as [(Hs1 & Hack)|(Ho & Hs1 & Hack1 & Hack2 & Hna)]; rewrite Et in *; cbn in Hs1; subst s1.
    + cbn in Hack. subst acked. inj. unfold set_mem.
      win11; stdw; eauto.
      all: try solve [ intros Ho _; apply D1; assumption ].
    + assert (o = Ok) by (destruct o; [reflexivity|congruence|destruct A]). subst o.
      cbn in Hack1. specialize (Hack1 eq_refl). subst acked. inj. unfold set_mem, set_W; cbn.
      destruct (D1 _ Ho Hsy) as (w0 & Hw0 & Hls).
      pose proof (need_save_true_le _ _ _ (Du _ _ Eu) Hls) as Hns.
      win11; stdw; eauto.
      all: try solve [ right; repeat split; auto; [rewrite Hw0; cbn; subst t; lia|discriminate] ].
      all: try solve [ intros _ _; exists t; auto ].
      all: try solve [ intros sv Hsv; exists t; split; [reflexivity|]; inversion Hsv; lia ].
      all: try solve [ intros n Hx; inj; exists t; split; [reflexivity|subst t; lia] ].
      all: try solve [ intros p Hp; destruct (D2 _ _ Hp) as (sv & Hsv & Hlt); rewrite Hls in Hsv; inj;
                       exists t; split; [reflexivity|subst t; lia] ].
      all: try solve [ intros n Hx; destruct (D3s _ _ Hx) as (sv & Hsv & Hlt); rewrite Hls in Hsv; inj;
                       exists t; split; [reflexivity|subst t; lia] ].
      all: try solve [ intros p l Hx; destruct (D3r _ _ _ Hx) as (sv & Hsv & Hlt); rewrite Hls in Hsv; inj;
                       exists t; split; [reflexivity|subst t; lia] ].
      all: try solve [ intros p l Hx; exfalso; eapply Mx; eauto ].
      all: try solve [ intros last _ Hx; pose proof (SYN m) as Hc; rewrite Hx in Hc; specialize (Hc eq_refl);
                       destruct (FL m) as [Hu' Hr']; [rewrite Hc; reflexivity|]; congruence ].
  - (* LUpdSet *)
    destruct (upd (mems s m)) as [| | |next] eqn:Eu; try discriminate.
    destruct (locked (mems s m)) eqn:El; [discriminate|]. inj. unfold set_mem.
    destruct (D3u _ _ Eu) as (sv & Hsv & Hlt).
    assert (Hsy : synced (mems s m) = true) by (apply synced_of_upd; rewrite Eu; reflexivity).
    destruct (set_physical_fields (mems s m) next false) as (F1 & F2 & F3 & F4 & F5 & F6).
    win11; rewrite ?F1, ?F2, ?F3, ?F4, ?F5, ?F6; stdw; eauto.
    all: try solve [ intros Ho _; apply D1; assumption ].
    all: try solve [ intros p; unfold set_physical; destruct (phys (mems s m)) as [p0|] eqn:Ep;
                     [destruct (0 <? _); cbn; intros Hp; inj; eauto | cbn; rewrite Ep; discriminate] ].
    all: try solve [ intros p l Hx; unfold locked in El; rewrite Hx in El; discriminate ].
    all: try solve [ intros n p l _ Hx; unfold locked in El; rewrite Hx in El; discriminate ].
  - (* LURBegin *)
    destruct (ur (mems s m)) eqn:Er; try discriminate.
    destruct (valid (mems s m)) eqn:Ev; [|inj; exact I].
    destruct (phys (mems s m)) as [p|] eqn:Ep; [|inj; exact I].
    destruct (_ - ms p <? 0); [inj; exact I|].
    destruct ((_ =? 0) && _); [inj; exact I|].
    destruct (gap_ms s <=? _); inj; [exact I|].
    unfold set_mem. win11; stdw; eauto.
    all: try solve [ intros Ho _; apply D1; [exact Ho|]; eapply synced_of_phys; eauto ].
  - (* LURDecide *)
    destruct (ur (mems s m)) as [|p l0| |] eqn:Er; try discriminate.
    destruct (save_busy (mems s m)) eqn:Esb; [discriminate|].
    assert (Hsy : synced (mems s m) = true) by (apply synced_of_ur; rewrite Er; reflexivity).
    destruct (need_save (mems s m) p) eqn:Ens; inj; unfold set_mem.
    + win11; stdw; eauto.
      all: try solve [ intros Ho _; apply D1; assumption ].
      all: try solve [ intros p' l' Hx; inj; exact Ens ].
      all: try solve [ intros n p' l' Hx _; unfold save_busy in Esb; rewrite Hx in Esb;
                       destruct (syn (mems s m)); discriminate ].
    + destruct (need_save_false _ _ Ens) as (sv & Hsv & Hlt).
      win11; stdw; eauto.
      all: try solve [ intros Ho _; apply D1; assumption ].
      all: try solve [ intros p' l' Hx; inj; eauto ].
  - (* LURSave *)
    destruct (ur (mems s m)) as [| |p l0|] eqn:Er; try discriminate.
    set (t := p + interval s) in *.
    assert (Hsy : synced (mems s m) = true) by (apply synced_of_ur; rewrite Er; reflexivity).
    destruct (save_txn s m o t) as [s1 acked] eqn:Et.
    destruct (save_txn_cases s m o t) as [(Hs1 & Hack)|(Ho & Hs1 & Hack1 & Hack2 & Hna)]; rewrite Et in *; cbn in Hs1; subst s1.
    + cbn in Hack. subst acked. inj. unfold set_mem.
      win11; stdw; eauto.
      all: try solve [ intros Ho _; apply D1; assumption ].
    + assert (o = Ok) by (destruct o; [reflexivity|congruence|destruct A]). subst o.
      cbn in Hack1. specialize (Hack1 eq_refl). subst acked. inj. unfold set_mem, set_W; cbn.
      destruct (D1 _ Ho Hsy) as (w0 & Hw0 & Hls).
      pose proof (need_save_true_le _ _ _ (Dr _ _ _ Er) Hls) as Hns.
      win11; stdw; eauto.
      all: try solve [ right; repeat split; auto; [rewrite Hw0; cbn; subst t; lia|discriminate] ].
      all: try solve [ intros _ _; exists t; auto ].
      all: try solve [ intros sv Hsv; exists t; split; [reflexivity|]; inversion Hsv; lia ].
      all: try solve [ intros p' l' Hx; inj; exists t; split; [reflexivity|subst t; lia] ].
      all: try solve [ intros p' Hp; destruct (D2 _ _ Hp) as (sv & Hsv & Hlt); rewrite Hls in Hsv; inj;
                       exists t; split; [reflexivity|subst t; lia] ].
      all: try solve [ intros n Hx; destruct (D3s _ _ Hx) as (sv & Hsv & Hlt); rewrite Hls in Hsv; inj;
                       exists t; split; [reflexivity|subst t; lia] ].
      all: try solve [ intros n Hx; destruct (D3u _ _ Hx) as (sv & Hsv & Hlt); rewrite Hls in Hsv; inj;
                       exists t; split; [reflexivity|subst t; lia] ].
      all: try solve [ intros n Hx; exfalso; eapply Mx; eauto ].
      all: try solve [ intros last _ Hx; pose proof (SYN m) as Hc; rewrite Hx in Hc; specialize (Hc eq_refl);
                       destruct (FL m) as [Hu' Hr']; [rewrite Hc; reflexivity|]; congruence ].
  - (* LUREnd *)
    destruct (ur (mems s m)) as [| | |p l0] eqn:Er; try discriminate. inj. unfold set_mem.
    destruct (D3r _ _ _ Er) as (sv & Hsv & Hlt).
    assert (Hsy : synced (mems s m) = true) by (apply synced_of_ur; rewrite Er; reflexivity).
    win11; stdw; eauto.
    all: try solve [ intros Ho _; apply D1; assumption ].
    all: try solve [ intros p' Hp; inj; eauto ].
  - (* LGen *)
    destruct (phys (mems s m)) as [p|] eqn:Ep; [|discriminate].
    destruct (negb (locked (mems s m)) && (0 <? count)); [|discriminate]. inj.
    apply (win_ext s); auto. intros m'. cbn. unfold upd_f. destruct (Nat.eqb_spec m' m); subst; cbn; auto.
  - (* LRespond *)
    destruct (nth_error (recs s) i) as [r|]; [|discriminate].
    destruct (Nat.eqb (gm r) m && is_pending r); [|discriminate]. inj.
    apply (win_ext s); auto.
  - (* LReset *)
    destruct (locked (mems s m)) eqn:El; [discriminate|]. inj. unfold set_mem.
    win11; stdw; eauto.
    all: try solve [ intros Ho Hs; apply D1; [exact Ho|]; unfold synced in *; cbn in Hs;
                     destruct (phys (mems s m)); [reflexivity|exact Hs] ].
  - (* LTermEnd *)
    destruct (locked (mems s m)) eqn:El; [discriminate|].
    destruct (ctl (mems s m)); try discriminate; inj; unfold set_mem; win11; stdw; eauto.
    all: try solve [ intros Ho Hs; apply D1; [exact Ho|]; unfold synced in *; cbn in Hs;
                     destruct (phys (mems s m)); [reflexivity|exact Hs] ].
Qed.

(* the stored window never decreases (under `allowed`) *)
Lemma wmono_step0 s l s' :
  Ctl s -> Cfg s -> Win s -> allowed l -> step0 s l = Some s' -> opt_le (W s) (W s').
Proof.
  intros C G I A H. pose proof I as [D1 D1b D2 D3s D3u D3r D4 Du Dr Mx].
  pose proof guard_pos as Hgp. unfold Cfg in G.
  assert (Hrefl : W s' = W s -> opt_le (W s) (W s')) by (intros ->; apply opt_le_refl).
  destruct l; cbn in H.
  - destruct (owner s); [discriminate|]. destruct (busy s m); [discriminate|]. inj. apply Hrefl; reflexivity.
  - inj. apply Hrefl; reflexivity.
  - destruct (is_owner s m || negb (busy s m)); [|discriminate]. inj. apply Hrefl; reflexivity.
  - destruct (owner s) as [m|]; [|discriminate]. destruct (valid (mems s m)); [discriminate|]. inj. apply Hrefl; reflexivity.
  - destruct (ctl (mems s m)); try discriminate. destruct (syn (mems s m)); try discriminate.
    destruct (save_busy (mems s m)); [discriminate|]. inj. apply Hrefl; reflexivity.
  - destruct (syn (mems s m)) as [|last|] eqn:Es; try discriminate.
    set (next := match last with Some l0 => if now - l0 <? guard then l0 + guard else now | None => now end) in *.
    set (t := next + interval s) in *.
    assert (Hnext : forall l0, last = Some l0 -> l0 + guard <= next).
    { intros l0 ->. subst next. destruct (now - l0 <? guard) eqn:E; [lia|]. apply Z.ltb_ge in E. lia. }
    destruct (save_txn s m o t) as [s1 acked] eqn:Et.
    destruct (save_txn_cases s m o t) as [(Hs1 & Hack)|(Ho & Hs1 & Hack1 & Hack2 & Hna)]; rewrite Et in *; cbn in Hs1; subst s1.
    + destruct acked; inj; apply Hrefl; reflexivity.
    + assert (Hle : opt_le (W s) (Some t)).
      { rewrite (D4 _ _ Ho Es). destruct last as [l0|]; cbn; [|exact Logic.I]. specialize (Hnext _ eq_refl). subst t. lia. }
      destruct acked; inj; exact Hle.
  - destruct (syn (mems s m)); try discriminate. destruct (locked (mems s m)); [discriminate|]. inj. apply Hrefl; reflexivity.
  - destruct (upd (mems s m)); try discriminate.
    destruct (valid (mems s m) && negb (locked (mems s m))); [|discriminate].
    destruct (phys (mems s m)) as [p|]; [|inj; apply Hrefl; reflexivity].
    destruct (guard <? now - p); [inj; apply Hrefl; reflexivity|].
    destruct (_ <? logical (mems s m)); inj; apply Hrefl; reflexivity.
  - destruct (upd (mems s m)); try discriminate. destruct (save_busy (mems s m)); [discriminate|].
    destruct (need_save (mems s m) next); inj; apply Hrefl; reflexivity.
  - destruct (upd (mems s m)) as [| |next|] eqn:Eu; try discriminate.
    set (t := next + interval s) in *.
    assert (Hsy : synced (mems s m) = true) by (apply synced_of_upd; rewrite Eu; reflexivity).
    destruct (save_txn s m o t) as [s1 acked] eqn:Et.
    destruct (save_txn_cases s m o t) as [(Hs1 & Hack)|(Ho & Hs1 & Hack1 & Hack2 & Hna)]; rewrite Et in *; cbn in Hs1; subst s1.
    + destruct acked; inj; apply Hrefl; reflexivity.
    + destruct (D1 _ Ho Hsy) as (w0 & Hw0 & Hls).
      pose proof (need_save_true_le _ _ _ (Du _ _ Eu) Hls) as Hns.
      assert (Hle : opt_le (W s) (Some t)) by (rewrite Hw0; cbn; subst t; lia).
      destruct acked; inj; exact Hle.
  - destruct (upd (mems s m)); try discriminate. destruct (locked (mems s m)); [discriminate|]. inj. apply Hrefl; reflexivity.
  - destruct (ur (mems s m)); try discriminate.
    destruct (valid (mems s m)); [|inj; apply Hrefl; reflexivity].
    destruct (phys (mems s m)) as [p|]; [|inj; apply Hrefl; reflexivity].
    destruct (_ - ms p <? 0); [inj; apply Hrefl; reflexivity|].
    destruct ((_ =? 0) && _); [inj; apply Hrefl; reflexivity|].
    destruct (gap_ms s <=? _); inj; apply Hrefl; reflexivity.
  - destruct (ur (mems s m)); try discriminate. destruct (save_busy (mems s m)); [discriminate|].
    destruct (need_save (mems s m) p); inj; apply Hrefl; reflexivity.
  - destruct (ur (mems s m)) as [| |p l0|] eqn:Er; try discriminate.
    set (t := p + interval s) in *.
    assert (Hsy : synced (mems s m) = true) by (apply synced_of_ur; rewrite Er; reflexivity).
    destruct (save_txn s m o t) as [s1 acked] eqn:Et.
    destruct (save_txn_cases s m o t) as [(Hs1 & Hack)|(Ho & Hs1 & Hack1 & Hack2 & Hna)]; rewrite Et in *; cbn in Hs1; subst s1.
    + destruct acked; inj; apply Hrefl; reflexivity.
    + destruct (D1 _ Ho Hsy) as (w0 & Hw0 & Hls).
      pose proof (need_save_true_le _ _ _ (Dr _ _ _ Er) Hls) as Hns.
      assert (Hle : opt_le (W s) (Some t)) by (rewrite Hw0; cbn; subst t; lia).
      destruct acked; inj; exact Hle.
  - destruct (ur (mems s m)); try discriminate. inj. apply Hrefl; reflexivity.
  - destruct (phys (mems s m)); [|discriminate]. destruct (negb (locked (mems s m)) && (0 <? count)); [|discriminate].
    inj. apply Hrefl; reflexivity.
  - destruct (nth_error (recs s) i) as [r|]; [|discriminate].
    destruct (Nat.eqb (gm r) m && is_pending r); [|discriminate]. inj. apply Hrefl; reflexivity.
  - destruct (locked (mems s m)); [discriminate|]. inj. apply Hrefl; reflexivity.
  - destruct (locked (mems s m)); [discriminate|]. destruct (ctl (mems s m)); try discriminate; inj; apply Hrefl; reflexivity.
Qed.
