(* C01/C02 proofs, layer 2: the stored window W, lastSavedTime and the physical time in memory. *)
From Coq Require Import ZArith List Bool Lia.
From PDV Require Import lib.Base gen.Gen_C01 model.C01_Tso proof.C01_Ctl.
Import ListNotations.
Local Open Scope Z_scope.

(* side conditions on the constants the translator regenerates and on the configuration *)
Lemma guard_pos : 0 < guard. Proof. reflexivity. Qed.
Lemma guard_ge_ms : ns_per_ms <= guard. Proof. unfold guard, ns_per_ms, UpdateTimestampGuard; lia. Qed.

Definition Cfg (s : state) : Prop := guard < interval s.

Definition synced (x : mem) : bool :=
  match phys x with Some _ => true | None => false end || negb (idle_upd (upd x)) || negb (idle_ur (ur x))
  || match syn x with SPendSet _ => true | _ => false end.

Record Win (s : state) : Prop := {
  w_d1  : forall m, owner s = Some m -> synced (mems s m) = true -> unsure (mems s m) = false ->
            exists w, W s = Some w /\ last_saved (mems s m) = Some w;
  w_d1b : forall m sv, last_saved (mems s m) = Some sv -> exists w, W s = Some w /\ sv <= w;
  w_d2  : forall m p, phys (mems s m) = Some p -> exists sv, last_saved (mems s m) = Some sv /\ p + guard < sv;
  w_d3s : forall m n, syn (mems s m) = SPendSet n -> exists sv, last_saved (mems s m) = Some sv /\ n + guard < sv;
  w_d3u : forall m n, upd (mems s m) = UPendSet n -> exists sv, last_saved (mems s m) = Some sv /\ n + guard < sv;
  w_d3r : forall m p l, ur (mems s m) = RSaved p l -> exists sv, last_saved (mems s m) = Some sv /\ p + guard < sv;
  w_d4  : forall m last, owner s = Some m -> syn (mems s m) = SLoaded last -> W s = last;
  w_du  : forall m n, upd (mems s m) = UDecided n -> need_save (mems s m) n = true;
  w_dr  : forall m p l, ur (mems s m) = RDeciding p l -> need_save (mems s m) p = true;
  w_mx  : forall m n p l, upd (mems s m) = UDecided n -> ur (mems s m) = RDeciding p l -> False;
  w_su  : forall m n, upd (mems s m) = UDecided n -> unsure (mems s m) = false;
  w_sr  : forall m p l, ur (mems s m) = RDeciding p l -> unsure (mems s m) = false;
  w_ls  : forall m, idle_upd (upd (mems s m)) = false \/ idle_ur (ur (mems s m)) = false ->
            exists sv, last_saved (mems s m) = Some sv
}.

Lemma win_init iv gap : Win (init iv gap).
Proof. constructor; cbn; intros; try discriminate. destruct H; discriminate. Qed.

Definition opt_le (a b : option Z) : Prop :=
  match a, b with None, _ => True | Some x, Some y => x <= y | Some _, None => False end.

Lemma opt_le_refl a : opt_le a a. Proof. destruct a; cbn; lia. Qed.

(* a label that rewrites only member m's record, and the window only through m's own LeaderTxn *)
Lemma win_set_mem s m x w :
  Win s ->
  (w = W s \/ (owner s = Some m /\ opt_le (W s) w /\ w <> None)) ->
  (owner s = Some m -> synced x = true -> unsure x = false -> exists wv, w = Some wv /\ last_saved x = Some wv) ->
  (forall sv, last_saved x = Some sv -> exists wv, w = Some wv /\ sv <= wv) ->
  (forall p, phys x = Some p -> exists sv, last_saved x = Some sv /\ p + guard < sv) ->
  (forall n, syn x = SPendSet n -> exists sv, last_saved x = Some sv /\ n + guard < sv) ->
  (forall n, upd x = UPendSet n -> exists sv, last_saved x = Some sv /\ n + guard < sv) ->
  (forall p l, ur x = RSaved p l -> exists sv, last_saved x = Some sv /\ p + guard < sv) ->
  (forall last, owner s = Some m -> syn x = SLoaded last -> w = last) ->
  (forall n, upd x = UDecided n -> need_save x n = true) ->
  (forall p l, ur x = RDeciding p l -> need_save x p = true) ->
  (forall n p l, upd x = UDecided n -> ur x = RDeciding p l -> False) ->
  (forall n, upd x = UDecided n -> unsure x = false) ->
  (forall p l, ur x = RDeciding p l -> unsure x = false) ->
  (idle_upd (upd x) = false \/ idle_ur (ur x) = false -> exists sv, last_saved x = Some sv) ->
  Win (State w (owner s) (upd_f (mems s) m x) (recs s) (clock s) (interval s) (gap_ms s)).
Proof.
  intros [D1 D1b D2 D3s D3u D3r D4 Du Dr Mx Su Sr Ls] Hw H1 H1b H2 H3s H3u H3r H4 Hu Hr Hmx Hsu Hsr Hls.
  constructor; cbn; unfold upd_f; intros m'.
  - destruct (Nat.eqb_spec m' m); subst; [exact H1|].
    intros Ho Hs Hun. destruct Hw as [->|(Ho' & _)]; [apply D1; assumption|congruence].
  - destruct (Nat.eqb_spec m' m); subst; [exact H1b|].
    intros sv Hsv. destruct (D1b _ _ Hsv) as (w0 & Hw0 & Hle).
    destruct Hw as [->|(_ & Hle' & Hnn)]; [eauto|].
    rewrite Hw0 in Hle'. destruct w as [wv|]; [|contradiction]. cbn in Hle'. exists wv. split; [reflexivity|lia].
  - destruct (Nat.eqb_spec m' m); subst; [exact H2|apply D2].
  - destruct (Nat.eqb_spec m' m); subst; [exact H3s|apply D3s].
  - destruct (Nat.eqb_spec m' m); subst; [exact H3u|apply D3u].
  - destruct (Nat.eqb_spec m' m); subst; [exact H3r|apply D3r].
  - destruct (Nat.eqb_spec m' m); subst; [exact H4|].
    intros last Ho Hs. destruct Hw as [->|(Ho' & _)]; [eapply D4; eassumption|congruence].
  - destruct (Nat.eqb_spec m' m); subst; [exact Hu|apply Du].
  - destruct (Nat.eqb_spec m' m); subst; [exact Hr|apply Dr].
  - destruct (Nat.eqb_spec m' m); subst; [exact Hmx|apply Mx].
  - destruct (Nat.eqb_spec m' m); subst; [exact Hsu|apply Su].
  - destruct (Nat.eqb_spec m' m); subst; [exact Hsr|apply Sr].
  - destruct (Nat.eqb_spec m' m); subst; [exact Hls|apply Ls].
Qed.

Arguments Z.shiftr : simpl never.
Arguments Z.land : simpl never.
Arguments Z.ones : simpl never.
Arguments Z.div : simpl never.
Arguments save_txn : simpl never.
Arguments set_physical : simpl never.
Arguments need_save : simpl never.
Arguments busy : simpl never.
Arguments has_pending : simpl never.
Arguments save_busy : simpl never.
Arguments locked : simpl never.
Arguments synced : simpl never.

(* Win does not look at validity, control state, logical counters, records or the clock *)
Lemma win_ext s s' :
  Win s -> W s' = W s -> owner s' = owner s ->
  (forall m, phys (mems s' m) = phys (mems s m) /\ last_saved (mems s' m) = last_saved (mems s m) /\
             syn (mems s' m) = syn (mems s m) /\ upd (mems s' m) = upd (mems s m) /\ ur (mems s' m) = ur (mems s m) /\
             unsure (mems s' m) = unsure (mems s m)) ->
  Win s'.
Proof.
  intros [D1 D1b D2 D3s D3u D3r D4 Du Dr Mx Su Sr Ls] HW HO HF.
  constructor; intros m; destruct (HF m) as (F1 & F2 & F3 & F4 & F5 & F6);
    unfold need_save, synced; rewrite ?HW, ?HO, ?F1, ?F2, ?F3, ?F4, ?F5, ?F6.
  - apply D1.
  - apply D1b.
  - apply D2.
  - apply D3s.
  - apply D3u.
  - apply D3r.
  - apply D4.
  - apply Du.
  - apply Dr.
  - apply Mx.
  - apply Su.
  - apply Sr.
  - apply Ls.
Qed.

Lemma save_txn_cases s m o t :
  (fst (save_txn s m o t) = s /\ snd (save_txn s m o t) = false) \/
  (owner s = Some m /\ fst (save_txn s m o t) = set_W s (Some t) /\ (o = Ok -> snd (save_txn s m o t) = true) /\
   (snd (save_txn s m o t) = true -> o = Ok) /\ o <> ErrNotApplied).
Proof.
  unfold save_txn. destruct (is_owner s m) eqn:Eo.
  - apply is_owner_true in Eo. destruct o; cbn; [right|left|right]; repeat split; auto; try discriminate; try congruence.
  - destruct o; cbn; left; auto.
Qed.

Lemma synced_with_valid x v : synced (with_valid x v) = synced x. Proof. reflexivity. Qed.
Lemma synced_with_ctl x c : synced (with_ctl x c) = synced x. Proof. reflexivity. Qed.

Ltac inj :=
  repeat match goal with
  | H : Some _ = Some _ |- _ => inversion H; subst; clear H
  | H : (_, _) = (_, _) |- _ => inversion H; subst; clear H
  | H : None = Some _ |- _ => discriminate H
  | H : Some _ = None |- _ => discriminate H
  | H : true = false |- _ => discriminate H
  | H : false = true |- _ => discriminate H
  | H : SPendSet _ = SPendSet _ |- _ => inversion H; subst; clear H
  | H : UPendSet _ = UPendSet _ |- _ => inversion H; subst; clear H
  | H : UDecided _ = UDecided _ |- _ => inversion H; subst; clear H
  | H : RSaved _ _ = RSaved _ _ |- _ => inversion H; subst; clear H
  | H : RDeciding _ _ = RDeciding _ _ |- _ => inversion H; subst; clear H
  | H : SLoaded _ = SLoaded _ |- _ => inversion H; subst; clear H
  end.

Ltac win11 := apply win_set_mem; [assumption | | cbn | cbn | cbn | cbn | cbn | cbn | cbn | cbn | cbn | cbn | cbn | cbn | cbn].
Ltac stdw := auto; try discriminate; try (intros; discriminate); try solve [unfold need_save in *; cbn; eauto]; try solve [intros; congruence].

Lemma need_save_false x n : need_save x n = false -> exists sv, last_saved x = Some sv /\ n + guard < sv.
Proof.
  unfold need_save. destruct (last_saved x) as [sv|]; [|discriminate].
  intros H. apply Z.leb_gt in H. exists sv. split; [reflexivity|lia].
Qed.

Lemma need_save_true_le x n sv : need_save x n = true -> last_saved x = Some sv -> sv - n <= guard.
Proof. unfold need_save. intros H E. rewrite E in H. apply Z.leb_le in H. exact H. Qed.

Lemma synced_of_phys x p : phys x = Some p -> synced x = true.
Proof. unfold synced. intros ->. reflexivity. Qed.
Lemma synced_of_upd x : idle_upd (upd x) = false -> synced x = true.
Proof. unfold synced. intros ->. cbn. rewrite orb_true_r. reflexivity. Qed.
Lemma synced_of_ur x : idle_ur (ur x) = false -> synced x = true.
Proof. unfold synced. intros ->. cbn. rewrite !orb_true_r. reflexivity. Qed.
Lemma synced_of_pendset x n : syn x = SPendSet n -> synced x = true.
Proof. unfold synced. intros ->. rewrite !orb_true_r. reflexivity. Qed.

Lemma set_physical_unsure x n f : unsure (set_physical x n f) = unsure x.
Proof. unfold set_physical. destruct (phys x); [destruct (0 <? _)|destruct f]; reflexivity. Qed.

(* refreshLastSavedTime: what the reload establishes *)
Lemma refreshed_facts s m :
  Win s -> (exists sv, last_saved (mems s m) = Some sv) ->
  let y := refreshed (mems s m) (W s) in
  (owner s = Some m -> synced (mems s m) = true -> exists wv, W s = Some wv /\ last_saved y = Some wv) /\
  (forall sv, last_saved y = Some sv -> exists wv, W s = Some wv /\ sv <= wv) /\
  (forall sv, last_saved (mems s m) = Some sv -> exists sv', last_saved y = Some sv' /\ sv <= sv').
Proof.
  intros I [sv0 Hs0] y. pose proof I as [D1 D1b _ _ _ _ _ _ _ _ _ _ _].
  destruct (D1b _ _ Hs0) as (w0 & Hw0 & Hle0).
  subst y. unfold refreshed, refreshed_saved. cbn [last_saved]. rewrite Hw0, Hs0.
  destruct (unsure (mems s m)) eqn:U.
  - rewrite Z.max_r by lia. repeat split.
    + intros _ _. exists w0. auto.
    + intros sv Hsv. inversion Hsv; subst. exists sv. split; [reflexivity|lia].
    + intros sv Hsv. inversion Hsv; subst. exists w0. split; [reflexivity|lia].
  - repeat split.
    + intros Ho Hsy. destruct (D1 _ Ho Hsy U) as (w1 & Hw1 & Hl1). rewrite Hw0 in Hw1. rewrite Hs0 in Hl1.
      inversion Hw1; inversion Hl1; subst. exists w1. auto.
    + intros sv Hsv. inversion Hsv; subst. exists w0. auto.
    + intros sv Hsv. inversion Hsv; subst. exists sv. split; [reflexivity|lia].
Qed.

Lemma win_step0 s l s' :
  Ctl s -> Cfg s -> Win s -> step0 s l = Some s' -> Win s'.
Proof.
  intros C G I H. pose proof I as [D1 D1b D2 D3s D3u D3r D4 Du Dr Mx Su Sr Ls].
  pose proof C as [E2 NONE FL SYN UR PEND]. pose proof guard_pos as Hgp. unfold Cfg in G.
  destruct l; cbn in H.
  - (* LElect *)
    destruct (owner s) eqn:Eo; [discriminate|]. destruct (busy s m) eqn:Eb; [discriminate|]. inj.
    unfold busy in Eb. apply orb_false_iff in Eb as [Eb Ep]. apply negb_false_iff in Eb.
    apply andb_true_iff in Eb as [Eb Hiu]. apply andb_true_iff in Eb as [Eb Hiup]. apply andb_true_iff in Eb as [Hic His].
    assert (Hn : phys (mems s m) = None) by (apply NONE; destruct (ctl (mems s m)); try discriminate; reflexivity).
    constructor; cbn; unfold upd_f; intros m'.
    + intros Ho. inversion Ho; subst m'; clear Ho. rewrite Nat.eqb_refl. unfold synced; cbn. rewrite Hn, Hiup, Hiu. cbn.
      destruct (syn (mems s m)); try discriminate.
    + destruct (Nat.eqb_spec m' m); subst; cbn; apply D1b.
    + destruct (Nat.eqb_spec m' m); subst; cbn; apply D2.
    + destruct (Nat.eqb_spec m' m); subst; cbn; apply D3s.
    + destruct (Nat.eqb_spec m' m); subst; cbn; apply D3u.
    + destruct (Nat.eqb_spec m' m); subst; cbn; apply D3r.
    + intros last Ho. inversion Ho; subst m'; clear Ho. rewrite Nat.eqb_refl. cbn. destruct (syn (mems s m)); discriminate.
    + destruct (Nat.eqb_spec m' m); subst; cbn; apply Du.
    + destruct (Nat.eqb_spec m' m); subst; cbn; apply Dr.
    + destruct (Nat.eqb_spec m' m); subst; cbn; apply Mx.
    + destruct (Nat.eqb_spec m' m); subst; cbn; apply Su.
    + destruct (Nat.eqb_spec m' m); subst; cbn; apply Sr.
    + destruct (Nat.eqb_spec m' m); subst; cbn; apply Ls.
  - (* LValidOff *)
    inj. apply (win_ext s); auto. intros m'. cbn. unfold upd_f. destruct (Nat.eqb_spec m' m); subst; cbn; auto 10.
  - (* LValidOn *)
    destruct (is_owner s m || negb (busy s m)); [|discriminate]. inj.
    apply (win_ext s); auto. intros m'. cbn. unfold upd_f. destruct (Nat.eqb_spec m' m); subst; cbn; auto 10.
  - (* LOwnerGone *)
    destruct (owner s) as [m|] eqn:Eo; [|discriminate]. destruct (valid (mems s m)); [discriminate|]. inj.
    constructor; cbn; try discriminate; auto.
  - (* LSyncLoad *)
    destruct (ctl (mems s m)) eqn:Ec; try discriminate. destruct (syn (mems s m)) eqn:Es; try discriminate.
    destruct (save_busy (mems s m)); [discriminate|]. inj. unfold set_mem.
    destruct (FL m) as [Hu Hr]; [rewrite Ec; reflexivity|].
    win11; stdw; eauto.
    all: try solve [ intros Ho Hs Hun; apply D1; [exact Ho| unfold synced in *; cbn in *; rewrite Es; exact Hs | exact Hun] ].
    all: try solve [ intros last Ho Hl; inj; reflexivity ].
  - (* LSyncSave *)
    destruct (syn (mems s m)) as [|last|] eqn:Es; try discriminate.
    set (next := match last with Some l0 => if now - l0 <? guard then l0 + guard else now | None => now end) in *.
    set (t := next + interval s) in *.
    assert (Hnext : forall l0, last = Some l0 -> l0 + guard <= next).
    { intros l0 ->. subst next. destruct (now - l0 <? guard) eqn:E; [lia|]. apply Z.ltb_ge in E. lia. }
    pose proof (SYN m) as Hc. rewrite Es in Hc. specialize (Hc eq_refl).
    destruct (FL m) as [Hu Hr]; [rewrite Hc; reflexivity|].
    assert (Hn : phys (mems s m) = None) by (apply NONE; rewrite Hc; reflexivity).
    destruct (save_txn s m o t) as [s1 acked] eqn:Et.
    destruct (save_txn_cases s m o t) as [(Hs1 & Hack)|(Ho & Hs1 & Hack1 & Hack2 & Hna)]; rewrite Et in *; cbn in Hs1; subst s1.
    + (* nothing applied *)
      cbn in Hack. subst acked. inj. unfold set_mem.
      win11; stdw; eauto.
      all: try solve [ intros Ho Hs; unfold synced in Hs; cbn in Hs; rewrite Hn, Hu, Hr in Hs; discriminate ].
    + (* applied by the owner: the window moves up *)
      assert (Hle : opt_le (W s) (Some t)).
      { rewrite (D4 _ _ Ho Es). destruct last as [l0|]; cbn; [|exact Logic.I]. specialize (Hnext _ eq_refl). subst t. lia. }
      destruct acked; inj; unfold set_mem, set_W; cbn.
      * win11; stdw; eauto.
        all: try solve [ right; repeat split; auto; discriminate ].
        all: try solve [ intros _ _ _; exists t; auto ].
        all: try solve [ intros sv Hsv; exists t; split; [reflexivity|]; inversion Hsv; lia ].
        all: try solve [ intros n Hn'; inj; exists t; split; [reflexivity|subst t; lia] ].
        all: try solve [ intros p Hp; rewrite Hn in Hp; discriminate ].
        all: try solve [ intros n Hx; rewrite Hu in Hx; discriminate ].
        all: try solve [ intros p l Hx; rewrite Hr in Hx; discriminate ].
      * win11; stdw; eauto.
        all: try solve [ right; repeat split; auto; discriminate ].
        all: try solve [ intros _ Hs; unfold synced in Hs; cbn in Hs; rewrite Hn, Hu, Hr in Hs; discriminate ].
        all: try solve [ intros sv Hsv; destruct (D1b _ _ Hsv) as (w0 & Hw0 & Hl0); rewrite Hw0 in Hle; cbn in Hle;
                         exists t; split; [reflexivity|lia] ].
  - (* LSyncSet *)
    destruct (syn (mems s m)) as [| |next] eqn:Es; try discriminate.
    destruct (locked (mems s m)) eqn:El; [discriminate|]. inj. unfold set_mem.
    pose proof (SYN m) as Hc. rewrite Es in Hc. specialize (Hc eq_refl).
    destruct (FL m) as [Hu Hr]; [rewrite Hc; reflexivity|].
    assert (Hn : phys (mems s m) = None) by (apply NONE; rewrite Hc; reflexivity).
    destruct (D3s _ _ Es) as (sv & Hsv & Hlt).
    unfold set_physical. rewrite Hn. cbn.
    win11; stdw; eauto.
    all: try solve [ intros Ho _ Hun; apply D1; [exact Ho| eapply synced_of_pendset; eauto | exact Hun] ].
    all: try solve [ intros p Hp; inj; eauto ].
  - (* LUpdRead *)
    destruct (upd (mems s m)) eqn:Eu; try discriminate.
    destruct (valid (mems s m) && negb (locked (mems s m))) eqn:Ev; [|discriminate].
    destruct (phys (mems s m)) as [p|] eqn:Ep; [|inj; exact I].
    assert (Hgen : forall n, Win (set_mem s m (with_upd (mems s m) (URead n)))).
    { intros n. unfold set_mem. win11; stdw; eauto.
      all: try solve [ intros Ho _ Hun; apply D1; [exact Ho| eapply synced_of_phys; eauto | exact Hun] ].
      all: try solve [ intros _; destruct (D2 _ _ Ep) as (sv & Hsv & _); eauto ]. }
    destruct (guard <? now - p); [inj; apply Hgen|].
    destruct (_ <? logical (mems s m)); inj; [apply Hgen|exact I].
  - (* LUpdDecide *)
    destruct (upd (mems s m)) as [|next| |] eqn:Eu; try discriminate.
    destruct (save_busy (mems s m)) eqn:Esb; [discriminate|].
    assert (Hsy : synced (mems s m) = true) by (apply synced_of_upd; rewrite Eu; reflexivity).
    assert (Hex : exists sv, last_saved (mems s m) = Some sv) by (apply Ls; left; rewrite Eu; reflexivity).
    destruct (refreshed_facts s m I Hex) as (Y1 & Y1b & Yge).
    assert (Hnr : forall p l, ur (mems s m) = RDeciding p l -> False).
    { intros p l Hx. unfold save_busy in Esb. rewrite Hx in Esb. destruct (syn (mems s m)); try discriminate; rewrite Eu in Esb; discriminate. }
    cbv zeta in Y1, Y1b, Yge.
    remember (refreshed (mems s m) (W s)) as y eqn:Ey.
    assert (Fy : phys y = phys (mems s m) /\ syn y = syn (mems s m) /\ upd y = upd (mems s m) /\ ur y = ur (mems s m) /\ unsure y = false)
      by (rewrite Ey; cbn; auto).
    destruct Fy as (Fp & Fs & Fu & Fr & Fun).
    destruct (need_save y next) eqn:Ens; inj; unfold set_mem.
    + apply win_set_mem; [assumption | left; reflexivity | cbn | cbn | cbn | cbn | cbn | cbn | cbn | cbn | cbn | cbn | cbn | cbn | cbn].
      * intros Ho _ _. apply Y1; assumption.
      * exact Y1b.
      * intros p Hp. rewrite ?Fp in Hp. destruct (D2 _ _ Hp) as (sv & Hsv & Hlt). destruct (Yge _ Hsv) as (sv' & Hsv' & Hle). exists sv'. split; [exact Hsv'|lia].
      * intros n Hx. rewrite ?Fs in Hx. destruct (D3s _ _ Hx) as (sv & Hsv & Hlt). destruct (Yge _ Hsv) as (sv' & Hsv' & Hle). exists sv'. split; [exact Hsv'|lia].
      * intros n Hx; discriminate.
      * intros p l Hx. rewrite ?Fr in Hx. destruct (D3r _ _ _ Hx) as (sv & Hsv & Hlt). destruct (Yge _ Hsv) as (sv' & Hsv' & Hle). exists sv'. split; [exact Hsv'|lia].
      * intros last Ho Hx. rewrite ?Fs in Hx. eapply D4; eauto.
      * intros n Hx. inj. exact Ens.
      * intros p l Hx. rewrite ?Fr in Hx. destruct (Hnr _ _ Hx).
      * intros n p l _ Hx. rewrite ?Fr in Hx. destruct (Hnr _ _ Hx).
      * intros n _. first [reflexivity | exact Fun].
      * intros p l _. first [reflexivity | exact Fun].
      * intros _. destruct Hex as (sv & Hsv). destruct (Yge _ Hsv) as (sv' & Hsv' & _). eauto.
    + destruct (need_save_false _ _ Ens) as (svn & Hsvn & Hltn).
      apply win_set_mem; [assumption | left; reflexivity | cbn | cbn | cbn | cbn | cbn | cbn | cbn | cbn | cbn | cbn | cbn | cbn | cbn].
      * intros Ho _ _. apply Y1; assumption.
      * exact Y1b.
      * intros p Hp. rewrite ?Fp in Hp. destruct (D2 _ _ Hp) as (sv & Hsv & Hlt). destruct (Yge _ Hsv) as (sv' & Hsv' & Hle). exists sv'. split; [exact Hsv'|lia].
      * intros n Hx. rewrite ?Fs in Hx. destruct (D3s _ _ Hx) as (sv & Hsv & Hlt). destruct (Yge _ Hsv) as (sv' & Hsv' & Hle). exists sv'. split; [exact Hsv'|lia].
      * intros n Hx. inj. exists svn. split; [exact Hsvn|exact Hltn].
      * intros p l Hx. rewrite ?Fr in Hx. destruct (D3r _ _ _ Hx) as (sv & Hsv & Hlt). destruct (Yge _ Hsv) as (sv' & Hsv' & Hle). exists sv'. split; [exact Hsv'|lia].
      * intros last Ho Hx. rewrite ?Fs in Hx. eapply D4; eauto.
      * intros n Hx; discriminate.
      * intros p l Hx. rewrite ?Fr in Hx. destruct (Hnr _ _ Hx).
      * intros n p l Hx; discriminate.
      * intros n Hx; discriminate.
      * intros p l _. first [reflexivity | exact Fun].
      * intros _. exists svn. exact Hsvn.
  - (* LUpdSave *)
    destruct (upd (mems s m)) as [| |next|] eqn:Eu; try discriminate.
    set (t := next + interval s) in *.
    assert (Hsy : synced (mems s m) = true) by (apply synced_of_upd; rewrite Eu; reflexivity).
    destruct (save_txn s m o t) as [s1 acked] eqn:Et.
    destruct (save_txn_cases s m o t) as [(Hs1 & Hack)|(Ho & Hs1 & Hack1 & Hack2 & Hna)]; rewrite Et in *; cbn in Hs1; subst s1.
    + cbn in Hack. subst acked. inj. unfold set_mem.
      win11; stdw; eauto.
      all: try solve [ intros Ho _ Hun; apply D1; assumption ].
      all: try solve [ intros; exfalso; eapply Mx; eauto ].
      all: try solve [ intros [Hx|Hx]; [discriminate Hx || (apply Ls; left; exact Hx) | discriminate Hx || (apply Ls; right; exact Hx)] ].
    + destruct (D1 _ Ho Hsy (Su _ _ Eu)) as (w0 & Hw0 & Hls).
      pose proof (need_save_true_le _ _ _ (Du _ _ Eu) Hls) as Hns.
      assert (Hw0t : w0 < t) by (subst t; lia).
      destruct acked.
      * (* acknowledged *)
        inj. unfold set_mem, set_W; cbn.
      win11; stdw; eauto.
      all: try solve [ right; repeat split; auto; [rewrite Hw0; cbn; subst t; lia|discriminate] ].
      all: try solve [ intros _ _ _; exists t; auto ].
      all: try solve [ intros sv Hsv; exists t; split; [reflexivity|]; inversion Hsv; lia ].
      all: try solve [ intros n Hx; inj; exists t; split; [reflexivity|subst t; lia] ].
      all: try solve [ intros p Hp; destruct (D2 _ _ Hp) as (sv & Hsv & Hlt); rewrite Hls in Hsv; inj;
                       exists t; split; [reflexivity|subst t; lia] ].
      all: try solve [ intros n Hx; destruct (D3s _ _ Hx) as (sv & Hsv & Hlt); rewrite Hls in Hsv; inj;
                       exists t; split; [reflexivity|subst t; lia] ].
      all: try solve [ intros p l Hx; destruct (D3r _ _ _ Hx) as (sv & Hsv & Hlt); rewrite Hls in Hsv; inj;
                       exists t; split; [reflexivity|subst t; lia] ].
      all: try solve [ intros p l Hx; exfalso; eapply Mx; eauto ].
      all: try solve [ intros last _ Hx; pose proof (SYN m) as Hc; rewrite Hx in Hc; specialize (Hc eq_refl);
                       destruct (FL m) as [Hu' Hr']; [rewrite Hc; reflexivity|]; congruence ].
      all: try solve [ intros; exfalso; eapply Mx; eauto ].
      all: try solve [ intros _; exists t; reflexivity ].
      * (* applied although an error was returned: lastSavedTime stays behind, the uncertainty mark is set *)
        assert (o = ErrApplied) by (destruct o; [specialize (Hack1 eq_refl); discriminate | congruence | reflexivity]). subst o.
        inj. unfold set_mem, set_W; cbn.
        apply win_set_mem; [assumption | right; repeat split; [exact Ho | rewrite Hw0; cbn; lia | discriminate]
                           | cbn | cbn | cbn | cbn | cbn | cbn | cbn | cbn | cbn | cbn | cbn | cbn | cbn].
        -- intros _ _ Hun; discriminate Hun.
        -- intros sv Hsv. rewrite Hls in Hsv. inversion Hsv; subst. exists t. split; [reflexivity|lia].
        -- intros p Hp. apply D2; exact Hp.
        -- intros n Hx. apply D3s; exact Hx.
        -- intros n Hx; discriminate Hx.
        -- intros p l Hx. apply (D3r _ _ _ Hx).
        -- intros last _ Hx; pose proof (SYN m) as Hc; rewrite Hx in Hc; specialize (Hc eq_refl);
           destruct (FL m) as [Hu' Hr']; [rewrite Hc; reflexivity|]; congruence.
        -- intros n Hx; discriminate Hx.
        -- intros p l Hx. exfalso. eapply Mx; eauto.
        -- intros n p l Hx; discriminate Hx.
        -- intros n Hx; discriminate Hx.
        -- intros p l Hx. exfalso. eapply Mx; eauto.
        -- intros [Hx|Hx]; [discriminate Hx | apply Ls; right; exact Hx].
  - (* LUpdSet *)
    destruct (upd (mems s m)) as [| | |next] eqn:Eu; try discriminate.
    destruct (locked (mems s m)) eqn:El; [discriminate|]. inj. unfold set_mem.
    destruct (D3u _ _ Eu) as (sv & Hsv & Hlt).
    assert (Hsy : synced (mems s m) = true) by (apply synced_of_upd; rewrite Eu; reflexivity).
    destruct (set_physical_fields (mems s m) next false) as (F1 & F2 & F3 & F4 & F5 & F6).
    pose proof (set_physical_unsure (mems s m) next false) as F7.
    win11; rewrite ?F1, ?F2, ?F3, ?F4, ?F5, ?F6, ?F7; stdw; eauto.
    all: try solve [ intros Ho _ Hun; apply D1; assumption ].
    all: try solve [ intros [Hx|Hx]; [discriminate Hx | apply Ls; right; exact Hx] ].
    all: try solve [ intros p; unfold set_physical; destruct (phys (mems s m)) as [p0|] eqn:Ep;
                     [destruct (0 <? _); cbn; intros Hp; inj; eauto | cbn; rewrite Ep; discriminate] ].
    all: try solve [ intros p l Hx; unfold locked in El; rewrite Hx in El; discriminate ].
    all: try solve [ intros n p l _ Hx; unfold locked in El; rewrite Hx in El; discriminate ].
  - (* LURBegin *)
    destruct (ur (mems s m)) eqn:Er; try discriminate.
    destruct (valid (mems s m)) eqn:Ev; [|inj; exact I].
    destruct (phys (mems s m)) as [p|] eqn:Ep; [|inj; exact I].
    destruct (_ - ms p <? 0); [inj; exact I|].
    destruct ((_ =? 0) && _); [inj; exact I|].
    destruct (gap_ms s <=? _); inj; [exact I|].
    unfold set_mem. win11; stdw; eauto.
    all: try solve [ intros Ho _ Hun; apply D1; [exact Ho| eapply synced_of_phys; eauto | exact Hun] ].
    all: try solve [ intros _; destruct (D2 _ _ Ep) as (sv & Hsv & _); eauto ].
  - (* LURDecide *)
    destruct (ur (mems s m)) as [|p l0| |] eqn:Er; try discriminate.
    destruct (save_busy (mems s m)) eqn:Esb; [discriminate|].
    assert (Hsy : synced (mems s m) = true) by (apply synced_of_ur; rewrite Er; reflexivity).
    assert (Hex : exists sv, last_saved (mems s m) = Some sv) by (apply Ls; right; rewrite Er; reflexivity).
    destruct (refreshed_facts s m I Hex) as (Y1 & Y1b & Yge).
    assert (Hnu : forall n, upd (mems s m) = UDecided n -> False).
    { intros n Hx. unfold save_busy in Esb. rewrite Hx in Esb. destruct (syn (mems s m)); discriminate. }
    cbv zeta in Y1, Y1b, Yge.
    remember (refreshed (mems s m) (W s)) as y eqn:Ey.
    assert (Fy : phys y = phys (mems s m) /\ syn y = syn (mems s m) /\ upd y = upd (mems s m) /\ ur y = ur (mems s m) /\ unsure y = false)
      by (rewrite Ey; cbn; auto).
    destruct Fy as (Fp & Fs & Fu & Fr & Fun).
    destruct (need_save y p) eqn:Ens; inj; unfold set_mem.
    + apply win_set_mem; [assumption | left; reflexivity | cbn | cbn | cbn | cbn | cbn | cbn | cbn | cbn | cbn | cbn | cbn | cbn | cbn].
      * intros Ho _ _. apply Y1; assumption.
      * exact Y1b.
      * intros q Hp. rewrite ?Fp in Hp. destruct (D2 _ _ Hp) as (sv & Hsv & Hlt). destruct (Yge _ Hsv) as (sv' & Hsv' & Hle). exists sv'. split; [exact Hsv'|lia].
      * intros n Hx. rewrite ?Fs in Hx. destruct (D3s _ _ Hx) as (sv & Hsv & Hlt). destruct (Yge _ Hsv) as (sv' & Hsv' & Hle). exists sv'. split; [exact Hsv'|lia].
      * intros n Hx. rewrite ?Fu in Hx. destruct (D3u _ _ Hx) as (sv & Hsv & Hlt). destruct (Yge _ Hsv) as (sv' & Hsv' & Hle). exists sv'. split; [exact Hsv'|lia].
      * intros q l Hx; discriminate.
      * intros last Ho Hx. rewrite ?Fs in Hx. eapply D4; eauto.
      * intros n Hx. rewrite ?Fu in Hx. destruct (Hnu _ Hx).
      * intros q l Hx. inj. exact Ens.
      * intros n q l Hx _. rewrite ?Fu in Hx. destruct (Hnu _ Hx).
      * intros n _. first [reflexivity | exact Fun].
      * intros q l _. first [reflexivity | exact Fun].
      * intros _. destruct Hex as (sv & Hsv). destruct (Yge _ Hsv) as (sv' & Hsv' & _). eauto.
    + destruct (need_save_false _ _ Ens) as (svn & Hsvn & Hltn).
      apply win_set_mem; [assumption | left; reflexivity | cbn | cbn | cbn | cbn | cbn | cbn | cbn | cbn | cbn | cbn | cbn | cbn | cbn].
      * intros Ho _ _. apply Y1; assumption.
      * exact Y1b.
      * intros q Hp. rewrite ?Fp in Hp. destruct (D2 _ _ Hp) as (sv & Hsv & Hlt). destruct (Yge _ Hsv) as (sv' & Hsv' & Hle). exists sv'. split; [exact Hsv'|lia].
      * intros n Hx. rewrite ?Fs in Hx. destruct (D3s _ _ Hx) as (sv & Hsv & Hlt). destruct (Yge _ Hsv) as (sv' & Hsv' & Hle). exists sv'. split; [exact Hsv'|lia].
      * intros n Hx. rewrite ?Fu in Hx. destruct (D3u _ _ Hx) as (sv & Hsv & Hlt). destruct (Yge _ Hsv) as (sv' & Hsv' & Hle). exists sv'. split; [exact Hsv'|lia].
      * intros q l Hx. inj. exists svn. split; [exact Hsvn|exact Hltn].
      * intros last Ho Hx. rewrite ?Fs in Hx. eapply D4; eauto.
      * intros n Hx. rewrite ?Fu in Hx. destruct (Hnu _ Hx).
      * intros q l Hx; discriminate.
      * intros n q l _ Hx; discriminate.
      * intros n Hx. rewrite ?Fu in Hx. destruct (Hnu _ Hx).
      * intros q l Hx; discriminate.
      * intros _. exists svn. exact Hsvn.
  - (* LURSave *)
    destruct (ur (mems s m)) as [| |p l0|] eqn:Er; try discriminate.
    set (t := p + interval s) in *.
    assert (Hsy : synced (mems s m) = true) by (apply synced_of_ur; rewrite Er; reflexivity).
    destruct (save_txn s m o t) as [s1 acked] eqn:Et.
    destruct (save_txn_cases s m o t) as [(Hs1 & Hack)|(Ho & Hs1 & Hack1 & Hack2 & Hna)]; rewrite Et in *; cbn in Hs1; subst s1.
    + cbn in Hack. subst acked. inj. unfold set_mem.
      win11; stdw; eauto.
      all: try solve [ intros Ho _ Hun; apply D1; assumption ].
      all: try solve [ intros; exfalso; eapply Mx; eauto ].
      all: try solve [ intros [Hx|Hx]; [discriminate Hx || (apply Ls; left; exact Hx) | discriminate Hx || (apply Ls; right; exact Hx)] ].
    + destruct (D1 _ Ho Hsy (Sr _ _ _ Er)) as (w0 & Hw0 & Hls).
      pose proof (need_save_true_le _ _ _ (Dr _ _ _ Er) Hls) as Hns.
      assert (Hw0t : w0 < t) by (subst t; lia).
      destruct acked.
      * (* acknowledged *)
        inj. unfold set_mem, set_W; cbn.
      win11; stdw; eauto.
      all: try solve [ right; repeat split; auto; [rewrite Hw0; cbn; subst t; lia|discriminate] ].
      all: try solve [ intros _ _ _; exists t; auto ].
      all: try solve [ intros sv Hsv; exists t; split; [reflexivity|]; inversion Hsv; lia ].
      all: try solve [ intros p' l' Hx; inj; exists t; split; [reflexivity|subst t; lia] ].
      all: try solve [ intros p' Hp; destruct (D2 _ _ Hp) as (sv & Hsv & Hlt); rewrite Hls in Hsv; inj;
                       exists t; split; [reflexivity|subst t; lia] ].
      all: try solve [ intros n Hx; destruct (D3s _ _ Hx) as (sv & Hsv & Hlt); rewrite Hls in Hsv; inj;
                       exists t; split; [reflexivity|subst t; lia] ].
      all: try solve [ intros n Hx; destruct (D3u _ _ Hx) as (sv & Hsv & Hlt); rewrite Hls in Hsv; inj;
                       exists t; split; [reflexivity|subst t; lia] ].
      all: try solve [ intros n Hx; exfalso; eapply Mx; eauto ].
      all: try solve [ intros last _ Hx; pose proof (SYN m) as Hc; rewrite Hx in Hc; specialize (Hc eq_refl);
                       destruct (FL m) as [Hu' Hr']; [rewrite Hc; reflexivity|]; congruence ].
      all: try solve [ intros; exfalso; eapply Mx; eauto ].
      all: try solve [ intros _; exists t; reflexivity ].
      * (* applied although an error was returned: lastSavedTime stays behind, the uncertainty mark is set *)
        assert (o = ErrApplied) by (destruct o; [specialize (Hack1 eq_refl); discriminate | congruence | reflexivity]). subst o.
        inj. unfold set_mem, set_W; cbn.
        apply win_set_mem; [assumption | right; repeat split; [exact Ho | rewrite Hw0; cbn; lia | discriminate]
                           | cbn | cbn | cbn | cbn | cbn | cbn | cbn | cbn | cbn | cbn | cbn | cbn | cbn].
        -- intros _ _ Hun; discriminate Hun.
        -- intros sv Hsv. rewrite Hls in Hsv. inversion Hsv; subst. exists t. split; [reflexivity|lia].
        -- intros q Hp. apply D2; exact Hp.
        -- intros n Hx. apply D3s; exact Hx.
        -- intros n Hx. apply D3u; exact Hx.
        -- intros q l Hx; discriminate Hx.
        -- intros last _ Hx; pose proof (SYN m) as Hc; rewrite Hx in Hc; specialize (Hc eq_refl);
           destruct (FL m) as [Hu' Hr']; [rewrite Hc; reflexivity|]; congruence.
        -- intros n Hx. exfalso. eapply Mx; eauto.
        -- intros q l Hx; discriminate Hx.
        -- intros n q l _ Hx; discriminate Hx.
        -- intros n Hx. exfalso. eapply Mx; eauto.
        -- intros q l Hx; discriminate Hx.
        -- intros [Hx|Hx]; [apply Ls; left; exact Hx | discriminate Hx].
  - (* LUREnd *)
    destruct (ur (mems s m)) as [| | |p l0] eqn:Er; try discriminate. inj. unfold set_mem.
    destruct (D3r _ _ _ Er) as (sv & Hsv & Hlt).
    assert (Hsy : synced (mems s m) = true) by (apply synced_of_ur; rewrite Er; reflexivity).
    win11; stdw; eauto.
    all: try solve [ intros Ho _ Hun; apply D1; assumption ].
    all: try solve [ intros p' Hp; inj; eauto ].
  - (* LGen *)
    destruct (phys (mems s m)) as [p|] eqn:Ep; [|discriminate].
    destruct (negb (locked (mems s m)) && (0 <? count)); [|discriminate]. inj.
    apply (win_ext s); auto. intros m'. cbn. unfold upd_f. destruct (Nat.eqb_spec m' m); subst; cbn; auto 10.
  - (* LRespond *)
    destruct (nth_error (recs s) i) as [r|]; [|discriminate].
    destruct (Nat.eqb (gm r) m && is_pending r); [|discriminate]. inj.
    apply (win_ext s); auto. intros m'. cbn. auto 10.
  - (* LReset *)
    destruct (locked (mems s m)) eqn:El; [discriminate|]. inj. unfold set_mem.
    win11; stdw; eauto.
    all: try solve [ intros Ho Hs Hun; apply D1; [exact Ho| unfold synced in *; cbn in Hs;
                     destruct (phys (mems s m)); [reflexivity|exact Hs] | exact Hun] ].
  - (* LTermEnd *)
    destruct (locked (mems s m)) eqn:El; [discriminate|].
    destruct (ctl (mems s m)); try discriminate; inj; unfold set_mem; win11; stdw; eauto.
    all: try solve [ intros Ho Hs Hun; apply D1; [exact Ho| unfold synced in *; cbn in Hs;
                     destruct (phys (mems s m)); [reflexivity|exact Hs] | exact Hun] ].
  - (* LUpdAbort *)
    destruct (upd (mems s m)) as [|next| |] eqn:Eu; try discriminate.
    destruct (save_busy (mems s m)); [discriminate|]. destruct (unsure (mems s m)) eqn:Un; [|discriminate]. inj. unfold set_mem.
    win11; stdw; eauto.
    all: try solve [ intros _ _ Hun; congruence ].
    all: try solve [ intros [Hx|Hx]; [discriminate Hx | apply Ls; right; exact Hx] ].
  - (* LURAbort *)
    destruct (ur (mems s m)) as [|p l0| |] eqn:Er; try discriminate.
    destruct (save_busy (mems s m)); [discriminate|]. destruct (unsure (mems s m)) eqn:Un; [|discriminate]. inj. unfold set_mem.
    win11; stdw; eauto.
    all: try solve [ intros _ _ Hun; congruence ].
    all: try solve [ intros [Hx|Hx]; [apply Ls; left; exact Hx | discriminate Hx] ].
Qed.

(* the stored window never decreases, whatever the storage outcomes *)
Lemma wmono_step0 s l s' :
  Ctl s -> Cfg s -> Win s -> step0 s l = Some s' -> opt_le (W s) (W s').
Proof.
  intros C G I H. pose proof I as [D1 D1b D2 D3s D3u D3r D4 Du Dr Mx Su Sr Ls].
  pose proof guard_pos as Hgp. unfold Cfg in G.
  assert (Hrefl : W s' = W s -> opt_le (W s) (W s')) by (intros ->; apply opt_le_refl).
  destruct l; cbn in H.
  - destruct (owner s); [discriminate|]. destruct (busy s m); [discriminate|]. inj. apply Hrefl; reflexivity.
  - inj. apply Hrefl; reflexivity.
  - destruct (is_owner s m || negb (busy s m)); [|discriminate]. inj. apply Hrefl; reflexivity.
  - destruct (owner s) as [m|]; [|discriminate]. destruct (valid (mems s m)); [discriminate|]. inj. apply Hrefl; reflexivity.
  - destruct (ctl (mems s m)); try discriminate. destruct (syn (mems s m)); try discriminate.
    destruct (save_busy (mems s m)); [discriminate|]. inj. apply Hrefl; reflexivity.
  - destruct (syn (mems s m)) as [|last|] eqn:Es; try discriminate.
    set (next := match last with Some l0 => if now - l0 <? guard then l0 + guard else now | None => now end) in *.
    set (t := next + interval s) in *.
    assert (Hnext : forall l0, last = Some l0 -> l0 + guard <= next).
    { intros l0 ->. subst next. destruct (now - l0 <? guard) eqn:E; [lia|]. apply Z.ltb_ge in E. lia. }
    destruct (save_txn s m o t) as [s1 acked] eqn:Et.
    destruct (save_txn_cases s m o t) as [(Hs1 & Hack)|(Ho & Hs1 & Hack1 & Hack2 & Hna)]; rewrite Et in *; cbn in Hs1; subst s1.
    + destruct acked; inj; apply Hrefl; reflexivity.
    + assert (Hle : opt_le (W s) (Some t)).
      { rewrite (D4 _ _ Ho Es). destruct last as [l0|]; cbn; [|exact Logic.I]. specialize (Hnext _ eq_refl). subst t. lia. }
      destruct acked; inj; exact Hle.
  - destruct (syn (mems s m)); try discriminate. destruct (locked (mems s m)); [discriminate|]. inj. apply Hrefl; reflexivity.
  - destruct (upd (mems s m)); try discriminate.
    destruct (valid (mems s m) && negb (locked (mems s m))); [|discriminate].
    destruct (phys (mems s m)) as [p|]; [|inj; apply Hrefl; reflexivity].
    destruct (guard <? now - p); [inj; apply Hrefl; reflexivity|].
    destruct (_ <? logical (mems s m)); inj; apply Hrefl; reflexivity.
  - destruct (upd (mems s m)); try discriminate. destruct (save_busy (mems s m)); [discriminate|].
    destruct (need_save (refreshed (mems s m) (W s)) next); inj; apply Hrefl; reflexivity.
  - destruct (upd (mems s m)) as [| |next|] eqn:Eu; try discriminate.
    set (t := next + interval s) in *.
    assert (Hsy : synced (mems s m) = true) by (apply synced_of_upd; rewrite Eu; reflexivity).
    destruct (save_txn s m o t) as [s1 acked] eqn:Et.
    destruct (save_txn_cases s m o t) as [(Hs1 & Hack)|(Ho & Hs1 & Hack1 & Hack2 & Hna)]; rewrite Et in *; cbn in Hs1; subst s1.
    + destruct acked; inj; apply Hrefl; reflexivity.
    + destruct (D1 _ Ho Hsy (Su _ _ Eu)) as (w0 & Hw0 & Hls).
      pose proof (need_save_true_le _ _ _ (Du _ _ Eu) Hls) as Hns.
      assert (Hle : opt_le (W s) (Some t)) by (rewrite Hw0; cbn; subst t; lia).
      destruct acked; inj; exact Hle.
  - destruct (upd (mems s m)); try discriminate. destruct (locked (mems s m)); [discriminate|]. inj. apply Hrefl; reflexivity.
  - destruct (ur (mems s m)); try discriminate.
    destruct (valid (mems s m)); [|inj; apply Hrefl; reflexivity].
    destruct (phys (mems s m)) as [p|]; [|inj; apply Hrefl; reflexivity].
    destruct (_ - ms p <? 0); [inj; apply Hrefl; reflexivity|].
    destruct ((_ =? 0) && _); [inj; apply Hrefl; reflexivity|].
    destruct (gap_ms s <=? _); inj; apply Hrefl; reflexivity.
  - destruct (ur (mems s m)); try discriminate. destruct (save_busy (mems s m)); [discriminate|].
    destruct (need_save (refreshed (mems s m) (W s)) p); inj; apply Hrefl; reflexivity.
  - destruct (ur (mems s m)) as [| |p l0|] eqn:Er; try discriminate.
    set (t := p + interval s) in *.
    assert (Hsy : synced (mems s m) = true) by (apply synced_of_ur; rewrite Er; reflexivity).
    destruct (save_txn s m o t) as [s1 acked] eqn:Et.
    destruct (save_txn_cases s m o t) as [(Hs1 & Hack)|(Ho & Hs1 & Hack1 & Hack2 & Hna)]; rewrite Et in *; cbn in Hs1; subst s1.
    + destruct acked; inj; apply Hrefl; reflexivity.
    + destruct (D1 _ Ho Hsy (Sr _ _ _ Er)) as (w0 & Hw0 & Hls).
      pose proof (need_save_true_le _ _ _ (Dr _ _ _ Er) Hls) as Hns.
      assert (Hle : opt_le (W s) (Some t)) by (rewrite Hw0; cbn; subst t; lia).
      destruct acked; inj; exact Hle.
  - destruct (ur (mems s m)); try discriminate. inj. apply Hrefl; reflexivity.
  - destruct (phys (mems s m)); [|discriminate]. destruct (negb (locked (mems s m)) && (0 <? count)); [|discriminate].
    inj. apply Hrefl; reflexivity.
  - destruct (nth_error (recs s) i) as [r|]; [|discriminate].
    destruct (Nat.eqb (gm r) m && is_pending r); [|discriminate]. inj. apply Hrefl; reflexivity.
  - destruct (locked (mems s m)); [discriminate|]. inj. apply Hrefl; reflexivity.
  - destruct (locked (mems s m)); [discriminate|]. destruct (ctl (mems s m)); try discriminate; inj; apply Hrefl; reflexivity.
  - destruct (upd (mems s m)); try discriminate. destruct (save_busy (mems s m)); [discriminate|].
    destruct (unsure (mems s m)); [|discriminate]. inj. apply Hrefl; reflexivity.
  - destruct (ur (mems s m)); try discriminate. destruct (save_busy (mems s m)); [discriminate|].
    destruct (unsure (mems s m)); [|discriminate]. inj. apply Hrefl; reflexivity.
Qed.
