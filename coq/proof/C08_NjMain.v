(* C08 — the general theorem for the non-joint build path: for every region (any number of peers), every
   sequence of builder calls, every cluster and every allocator answer with pairwise distinct peer ids, if the
   builder model takes the non-joint path and produces a plan, the checker accepts it. *)
From Coq Require Import String Sorting.Sorted.
From PDV Require Import lib.Base gen.Gen_C08 model.C08_Steps model.C08_Builder
     proof.C08_ListFacts proof.C08_PmapFacts proof.C08_SimPhases proof.C08_JointScript proof.C08_PrepareFacts
     proof.C08_JointBuild proof.C08_JointFacts proof.C08_JointMain
     proof.C08_NjPhases proof.C08_StepSpec proof.C08_NjSteps proof.C08_NjPlans proof.C08_NjApply proof.C08_Skel.
Local Open Scope list_scope.
Local Open Scope Z_scope.

(* ---------- the pending maps right after prepareBuild ---------- *)
Section Initial.
  Variables (ps0 : list peer) (T : pmap) (allow : bool) (alloc : list (Z * Z)).
  Hypotheses (Hnd0 : ND ps0) (Hnj0 : NJ ps0) (Hst : PSorted T) (Hnjt : NJ T).
  Hypothesis Hnz0 : forall p, In p ps0 -> pstore p <> 0.
  Hypothesis HnzT : forall p, In p T -> pstore p <> 0.

  Let origin := pm_of_list ps0.
  Let rem := cfold (f_rem T allow) origin [].
  Let pro := cfold (f_pro T) origin [].
  Let dem := cfold (f_dem T allow) origin [].
  Let add := cfold (f_add origin allow alloc) T [].

  Lemma o_get st : pm_get origin st = lk ps0 st.
  Proof. apply pm_of_list_get. exact Hnd0. Qed.
  Lemma o_nd : ND origin.
  Proof. apply PSorted_ND, pm_of_list_sorted. Qed.

  Lemma i_rem st : pm_get rem st = match lk ps0 st with Some o => f_rem T allow o | None => None end.
  Proof.
    unfold rem. rewrite cfold_get; [| |apply o_nd].
    - fold (pm_get origin st). rewrite o_get. destruct (lk ps0 st) as [o|]; [|reflexivity]. destruct (f_rem T allow o); reflexivity.
    - intros o n. unfold f_rem. destruct (pm_get T (pstore o)) as [n0|]; [|intros H; inversion H; reflexivity].
      destruct (is_learner o); [discriminate|]. destruct (is_learner (retarget o n0)); [|discriminate].
      destruct allow; [discriminate|]. intros H; inversion H; reflexivity.
  Qed.

  Lemma i_pro st : pm_get pro st = match lk ps0 st with Some o => f_pro T o | None => None end.
  Proof.
    unfold pro. rewrite cfold_get; [| |apply o_nd].
    - fold (pm_get origin st). rewrite o_get. destruct (lk ps0 st) as [o|]; [|reflexivity]. destruct (f_pro T o); reflexivity.
    - intros o n. unfold f_pro. destruct (pm_get T (pstore o)) as [n0|] eqn:Et; [|discriminate].
      destruct (is_learner o); [|discriminate]. destruct (negb (is_learner (retarget o n0))); [|discriminate].
      intros H; inversion H. apply retarget_store. apply (lk_Some _ _ _ Et).
  Qed.

  Lemma i_dem st : pm_get dem st = match lk ps0 st with Some o => f_dem T allow o | None => None end.
  Proof.
    unfold dem. rewrite cfold_get; [| |apply o_nd].
    - fold (pm_get origin st). rewrite o_get. destruct (lk ps0 st) as [o|]; [|reflexivity]. destruct (f_dem T allow o); reflexivity.
    - intros o n. unfold f_dem. destruct (pm_get T (pstore o)) as [n0|] eqn:Et; [|discriminate].
      destruct (is_learner o); [discriminate|]. destruct (is_learner (retarget o n0)); [|discriminate].
      destruct allow; [|discriminate]. intros H; inversion H. apply retarget_store. apply (lk_Some _ _ _ Et).
  Qed.

  Lemma i_add st : pm_get add st = match pm_get T st with Some n => f_add origin allow alloc n | None => None end.
  Proof.
    unfold add. rewrite cfold_get; [| |apply PSorted_ND; exact Hst].
    - change (lk T st) with (pm_get T st). destruct (pm_get T st) as [n|]; [|reflexivity]. destruct (f_add origin allow alloc n); reflexivity.
    - intros o n. unfold f_add. match goal with |- (if ?c then _ else _) = _ -> _ => destruct c end; [|discriminate].
      intros H; inversion H. match goal with |- pstore (if ?c then _ else _) = _ => destruct c end; reflexivity.
  Qed.

  Lemma initial_at st : PIat T (lk ps0 st, pm_get add st, pm_get rem st, pm_get pro st, pm_get dem st) st.
  Proof.
    rewrite i_add, i_rem, i_pro, i_dem.
    destruct (lk ps0 st) as [o|] eqn:Eo.
    - (* the store holds a peer *)
      pose proof (lk_Some _ _ _ Eo) as [Hino Hso].
      pose proof (Hnz0 o Hino) as Hz. rewrite Hso in Hz.
      pose proof (Hnj0 o Hino) as Hro.
      unfold f_rem, f_pro, f_dem. rewrite Hso.
      destruct (pm_get T st) as [n0|] eqn:Et.
      + pose proof (lk_Some _ _ _ Et) as [Hinn Hsn]. pose proof (Hnjt n0 Hinn) as Hrn.
        assert (Ert : retarget o n0 = Peer st (pid o) (prole n0)).
        { rewrite retarget_eta by congruence. rewrite Hso. reflexivity. }
        rewrite retarget_learner. unfold f_add. rewrite Hsn, o_get, Eo. cbn [is_some negb orb olearner orole].
        unfold olearner. cbn [orole]. rewrite orb_true_r. change (role_eqb (prole o) Learner) with (is_learner o).
        destruct Hro as [Ro|Ro], Hrn as [Rn|Rn]; unfold is_learner; rewrite Ro, Rn; cbn [role_eqb negb andb]; rewrite ?Ert;
          destruct allow; cbn [negb andb].
        all: unfold PIat; rewrite ?Et; cbn [option_map].
        all: split; [|split; [|split; [|split; [|split]]]].
        all: try (intros ? C; discriminate C).
        all: try (cbn; rewrite ?Ro, ?Rn; reflexivity).
        all: try (intros o' C; inversion C; subst o'; solve [auto]).
        all: try (intros n C; inversion C; subst n; exists o; rewrite ?Rn; solve [auto]).
        all: try (intros x C; inversion C; subst x; cbn [pstore prole]; rewrite ?Rn; repeat split; auto; right; split; [discriminate|reflexivity]).
      + (* not in the target: removed *)
        unfold PIat. rewrite Et. split; [|split; [|split; [|split; [|split]]]]; try (intros ? C; discriminate C).
        * intros x C. inversion C; subst x. auto.
        * cbn. reflexivity.
        * intros o' C. inversion C; subst o'. auto.
    - (* the store is free *)
      destruct (pm_get T st) as [n|] eqn:Et.
      + pose proof (lk_Some _ _ _ Et) as [Hinn Hsn]. pose proof (Hnjt n Hinn) as Hrn. pose proof (HnzT n Hinn) as Hz. rewrite Hsn in Hz.
        unfold f_add. rewrite Hsn, o_get, Eo. cbn [is_some negb orb]. unfold PIat. rewrite Et.
        split; [|split; [|split; [|split; [|split]]]]; try (intros ? C; discriminate C).
        * intros x C. inversion C; subst x. rewrite orb_false_r.
          destruct (pid n =? 0); cbn [pstore prole]; repeat split; auto.
        * cbn. rewrite orb_false_r. destruct (pid n =? 0); reflexivity.
      + unfold PIat. rewrite Et. split; [|split; [|split; [|split; [|split]]]]; try (intros ? C; discriminate C). reflexivity.
  Qed.
End Initial.

(* ---------- target stores are never store 0 ---------- *)
Definition TNz (b : bstate) : Prop := forall p, In p (b_target b) -> pstore p <> 0.

Lemma api_op_nz b o b' : TNz b -> api_op b o = Some b' -> TNz b'.
Proof.
  intros N H. destruct o; cbn [api_op] in H.
  - destruct ((pstore p =? 0) || in_joint p || is_some (pm_get (b_target b) (pstore p))) eqn:E; [discriminate|].
    inversion H; subst b'; clear H. intros x Hx. cbn in Hx. apply pm_set_In in Hx as [->|Hx]; [|apply N; exact Hx].
    apply orb_false_iff in E as [E _]. apply orb_false_iff in E as [E _]. apply Z.eqb_neq in E. exact E.
  - destruct (negb (is_some (pm_get (b_target b) st)) || (b_tleader b =? st)); [discriminate|].
    inversion H; subst b'; clear H. intros x Hx. cbn in Hx. apply N. unfold pm_del in Hx. apply filter_In in Hx. tauto.
  - destruct (pm_get (b_target b) st) as [p|] eqn:Ep; [|discriminate].
    destruct (negb (is_learner p) || memz st (b_unhealthy b)); [discriminate|].
    inversion H; subst b'; clear H. intros x Hx. cbn in Hx. apply pm_set_In in Hx as [->|Hx]; [|apply N; exact Hx].
    cbn. apply N. apply (lk_Some _ _ _ Ep).
  - destruct (pm_get (b_target b) st) as [p|] eqn:Ep; [|discriminate].
    destruct (is_learner p); [discriminate|].
    inversion H; subst b'; clear H. intros x Hx. cbn in Hx. apply pm_set_In in Hx as [->|Hx]; [|apply N; exact Hx].
    cbn. apply N. apply (lk_Some _ _ _ Ep).
  - destruct (pm_get (b_target b) st) as [p|]; [|discriminate].
    destruct (is_learner p || memz st (b_unhealthy b)); [discriminate|].
    inversion H; subst b'; clear H. exact N.
  - destruct (existsb (fun p => (pstore p =? 0) || in_joint p) ps) eqn:E; [discriminate|].
    inversion H; subst b'; clear H. intros x Hx. cbn in Hx. apply pm_of_list_In in Hx.
    destruct (pstore x =? 0) eqn:E0; [|apply Z.eqb_neq; exact E0].
    assert (X : existsb (fun p => (pstore p =? 0) || in_joint p) ps = true) by (apply existsb_exists; exists x; split; [exact Hx|rewrite E0; reflexivity]).
    congruence.
  - destruct (1 <? Z.of_nat (length (filter (fun e => xrole_eqb (snd e) XLeader) rs))); [discriminate|].
    destruct (Nat.eqb _ 0); [discriminate|].
    inversion H; subst b'; clear H. exact N.
  - inversion H; subst b'; clear H. exact N.
  - inversion H; subst b'; clear H. exact N.
Qed.

Lemma api_ops_nz : forall os b b', TNz b -> api_ops b os = Some b' -> TNz b'.
Proof.
  induction os as [|o os IH]; intros b b' N H; cbn [api_ops] in H; [inversion H; subst; exact N|].
  destruct (api_op b o) as [b1|] eqn:E; [|discriminate]. eapply IH; [eapply api_op_nz; eauto|exact H].
Qed.

(* ---------- the loop ---------- *)
Lemma apply_plan_static b p : b_target (apply_plan b p) = b_target b /\ b_tleader (apply_plan b p) = b_tleader b.
Proof.
  unfold apply_plan. destruct (p_add p), (p_promote p), (p_demote p), (p_remove p);
    repeat match goal with |- context [if ?c then _ else _] => destruct c end; split; reflexivity.
Qed.

Section Loop.
  Variables (T : pmap) (g : goal) (r0 : region).
  Hypothesis HTs : PSorted T.
  Hypothesis HTnj : NJ T.
  Hypothesis HTv : g_min_voters g <= voters_new T.

  Lemma loop_ok : forall fuel b r bF,
    Sim g r0 b r -> PInv T b -> nonjoint_loop fuel b = BOk bF ->
    exists rF, Sim g r0 bF rF /\ PInv T bF /\ pending bF = 0%nat /\ b_target bF = b_target b /\ b_tleader bF = b_tleader b.
  Proof.
    induction fuel as [|f IH]; intros b r bF S P H; cbn [nonjoint_loop] in H.
    - destruct (Nat.eqb (pending b) 0) eqn:E; [|discriminate]. inversion H; subst bF. apply Nat.eqb_eq in E. exists r.
      split; [exact S|split; [exact P|auto]].
    - destruct (Nat.eqb (pending b) 0) eqn:E.
      + inversion H; subst bF. apply Nat.eqb_eq in E. exists r. split; [exact S|split; [exact P|auto]].
      + destruct (plan_is_empty (peer_plan b)) eqn:Ee; [discriminate|].
        pose proof (peer_plan_spec b Ee) as K.
        pose proof (plan_kind_ok T g r0 HTs HTnj HTv b r (peer_plan b) S P K) as OK.
        destruct (apply_plan_ok T g r0 b r (peer_plan b) S P OK) as (r' & S' & P').
        destruct (IH _ _ _ S' P' H) as (rF & SF & PF & E0 & Et & El).
        destruct (apply_plan_static b (peer_plan b)) as [Et' El'].
        exists rF. split; [exact SF|split; [exact PF|split; [exact E0|split; congruence]]].
  Qed.
End Loop.

(* ---------- after the loop: the final leader transfer and the final state ---------- *)
Lemma pending_zero b : pending b = 0%nat -> b_add b = [] /\ b_remove b = [] /\ b_promote b = [] /\ b_demote b = [].
Proof.
  unfold pending. intros H.
  destruct (b_add b), (b_remove b), (b_promote b), (b_demote b); cbn [length] in H; try lia. auto.
Qed.

Section Final.
  Variables (T : pmap) (g : goal) (r0 : region).
  Hypothesis HTs : PSorted T.
  Hypothesis HTnj : NJ T.

  Lemma final_ok bF rF :
    Sim g r0 bF rF -> PInv T bF -> pending bF = 0%nat -> b_target bF = T ->
    g_target g = placement T -> g_leader g = b_tleader bF ->
    (b_tleader bF = 0 \/ exists p, pm_get T (b_tleader bF) = Some p /\ is_learner p = false) ->
    let b2 := set_target_leader_if_not_exist bF in
    let b3 := if negb (b_tleader b2 =? 0) && negb (b_cur_leader b2 =? b_tleader b2) && is_some (pm_get (b_cur b2) (b_tleader b2))
              then set_kinds (exec_transfer b2 (b_tleader b2)) true (b_kregion b2) else b2 in
    plan_check g r0 (b_steps b3) = None.
  Proof.
    intros S P Hp0 HT Hgt Hgl Htl b2 b3.
    destruct (pending_zero _ Hp0) as (Ea & Er & Epr & Ed).
    (* at the end the current peers have the target's roles, store by store *)
    assert (Hroles : forall st, option_map prole (pm_get (b_cur bF) st) = option_map prole (pm_get T st)).
    { intros st. pose proof (pi_at _ _ P st) as Q. unfold look, PIat in Q. rewrite Ea, Er, Epr, Ed in Q.
      destruct Q as (_ & _ & _ & _ & Qf & _). exact Qf. }
    (* b2 differs from bF in the target leader only *)
    assert (S2 : Sim g r0 b2 rF).
    { unfold b2, set_target_leader_if_not_exist. destruct (negb (b_tleader bF =? 0)); [exact S|].
      eapply Sim_same; [..|exact S]; reflexivity. }
    assert (P2 : PInv T b2).
    { unfold b2, set_target_leader_if_not_exist. destruct (negb (b_tleader bF =? 0)); [exact P|].
      eapply PInv_same; [..|exact P]; reflexivity. }
    assert (Hcur2 : b_cur b2 = b_cur bF /\ b_cur_leader b2 = b_cur_leader bF).
    { unfold b2, set_target_leader_if_not_exist. destruct (negb (b_tleader bF =? 0)); split; reflexivity. }
    destruct Hcur2 as [Hc2 Hl2].
    (* the leader PD aims at, if any, is a voter of the target *)
    assert (Htl2 : b_tleader b2 = 0 \/ exists p, pm_get T (b_tleader b2) = Some p /\ prole p = Voter).
    { unfold b2, set_target_leader_if_not_exist. destruct (b_tleader bF =? 0) eqn:E0; cbn [negb].
      - cbn [b_tleader set_tleader]. destruct (pick_target_leader_spec bF) as [Hz|(p & Hp & Ha)]; [left; exact Hz|right].
        rewrite HT in Hp. exists p. split; [exact Hp|].
        destruct (HTnj p (proj1 (lk_Some _ _ _ Hp))) as [R|R]; [exact R|].
        destruct (allow_leader_role _ _ _ Ha) as [R'|R']; congruence.
      - right. destruct Htl as [Hz|(p & Hp & Hl)]; [apply Z.eqb_neq in E0; contradiction|].
        exists p. split; [exact Hp|]. destruct (HTnj p (proj1 (lk_Some _ _ _ Hp))) as [R|R]; [exact R|].
        apply is_learner_role in R. congruence. }
    (* the region reached, and the plan's execution up to it *)
    assert (Hend : exists r3, Sim g r0 b3 r3 /\ peers r3 = peers rF
                              /\ (b_tleader b2 <> 0 -> leader r3 = b_tleader b2)).
    { unfold b3. destruct (b_tleader b2 =? 0) eqn:E0; cbn [negb andb].
      - exists rF. split; [exact S2|split; [reflexivity|]]. intros C. apply Z.eqb_eq in E0. contradiction.
      - destruct (b_cur_leader b2 =? b_tleader b2) eqn:E1; cbn [negb andb].
        + exists rF. split; [exact S2|split; [reflexivity|]]. intros _. apply Z.eqb_eq in E1. rewrite (sim_leader _ _ _ _ S2). exact E1.
        + destruct Htl2 as [Hz|(p & Hp & Hro)]; [apply Z.eqb_neq in E0; contradiction|].
          (* the target's voter is a current voter *)
          pose proof (Hroles (b_tleader b2)) as Hr. rewrite Hp in Hr. cbn [option_map] in Hr.
          destruct (pm_get (b_cur bF) (b_tleader b2)) as [q|] eqn:Eq; [|discriminate]. cbn [option_map] in Hr.
          rewrite Hc2, Eq. cbn [is_some].
          assert (Hq : pm_get (b_cur b2) (b_tleader b2) = Some q) by (rewrite Hc2; exact Eq).
          assert (Hqr : prole q = Voter) by congruence.
          assert (Hne : b_tleader b2 <> b_cur_leader b2) by (apply Z.eqb_neq in E1; auto).
          destruct (step_transfer T g r0 b2 rF (b_tleader b2) q S2 P2 Hq Hqr Hne) as [S3 _].
          exists (set_leader rF (b_tleader b2)). split; [|split; [reflexivity|intros _; reflexivity]].
          eapply Sim_same; [..|exact S3]; reflexivity. }
    destruct Hend as (r3 & S3 & Hpeers & Hlead).
    pose proof (sim_pc _ _ _ _ S3 []) as E. rewrite app_nil_r in E. rewrite E. cbn [plan_check].
    (* the final state *)
    destruct S3 as [_ I3 N3 C3 L3 _]. destruct I3 as [Hnd3 (lp & Hlp & Hll) _ _].
    unfold final_violation.
    assert (Hsame : same_placement (placement (peers r3)) (g_target g) = true).
    { rewrite Hgt. apply same_placement_lookup; [exact Hnd3|apply PSorted_ND; exact HTs|].
      intros st. rewrite Hpeers, (sim_cur _ _ _ _ S). apply Hroles. }
    rewrite Hsame. cbn [negb].
    assert (Hleader : negb (g_leader g =? 0) && negb (leader r3 =? g_leader g) = false).
    { rewrite Hgl. destruct (b_tleader bF =? 0) eqn:E0; [reflexivity|]. cbn [negb andb].
      assert (Eb : b_tleader b2 = b_tleader bF) by (unfold b2, set_target_leader_if_not_exist; rewrite E0; reflexivity).
      rewrite <- Eb. rewrite Hlead by (rewrite Eb; apply Z.eqb_neq; exact E0). rewrite Z.eqb_refl. reflexivity. }
    rewrite Hleader.
    unfold get_store_peer. fold (lk (peers r3) (leader r3)). rewrite Hlp.
    assert (Hv : new_voter lp = true).
    { destruct (N3 lp (proj1 (lk_Some _ _ _ Hlp))) as [R|R]; [unfold new_voter; rewrite R; reflexivity|].
      apply is_learner_role in R. congruence. }
    rewrite Hv. reflexivity.
  Qed.
End Final.

(* ---------- the theorem ---------- *)
Theorem builder_nonjoint_plan_ok_general_pf i b ss kl kr :
  nodup_stores (peers (i_region i)) = true ->
  is_in_joint (i_region i) = false ->
  (exists lp, get_store_peer (i_region i) (leader (i_region i)) = Some lp /\ prole lp = Voter) ->
  prepared i = Some b -> b_use_joint b = false ->
  NoDup (map pid (peers (i_region i)) ++ map pid (b_add b)) ->
  build i = Built ss kl kr ->
  plan_ok (goal_of b) (i_region i) ss = true.
Proof.
  intros Hnd Hnj (lp & Hlp & Hlrole) Hprep Huj Hids Hbuild.
  destruct (i_region i) as [ps0 l0 cv rg] eqn:Er. cbn [peers leader] in *.
  apply nodup_stores_ND in Hnd. unfold is_in_joint in Hnj. cbn [peers] in Hnj. apply NJ_of_not_joint in Hnj.
  unfold get_store_peer in Hlp; cbn [peers] in Hlp. fold (lk ps0 l0) in Hlp.
  unfold prepared in Hprep. unfold build in Hbuild.
  destruct (new_builder i) as [b0|] eqn:Enb; [|discriminate].
  destruct (api_ops b0 (i_ops i)) as [b1|] eqn:Eapi; [|discriminate].
  rewrite Hprep in Hbuild. rewrite Huj in Hbuild.
  assert (I0 : ApiInv ps0 l0 (i_cluster i) b0).
  { pose proof (new_builder_inv i b0 Enb) as X. rewrite Er in X. cbn [peers leader] in X. apply X; assumption. }
  pose proof (api_ops_inv _ _ _ _ _ _ I0 Eapi) as [A1 A2 A3 A4 A5 A6 A7].
  (* stores are non-zero *)
  assert (Hnz0 : forall p, In p ps0 -> pstore p <> 0).
  { intros p Hp. unfold new_builder in Enb. rewrite Er in Enb. cbn [peers] in Enb.
    destruct (existsb (fun p => pstore p =? 0) ps0) eqn:E; [discriminate|].
    destruct (pstore p =? 0) eqn:E0; [|apply Z.eqb_neq; exact E0].
    assert (X : existsb (fun p => pstore p =? 0) ps0 = true) by (apply existsb_exists; exists p; auto). congruence. }
  assert (N0 : TNz b0).
  { intros p Hp. apply Hnz0. unfold new_builder in Enb. rewrite Er in Enb. cbn [peers leader] in Enb.
    destruct (existsb (fun p => pstore p =? 0) ps0); [discriminate|].
    destruct (negb (is_some (pm_get (pm_of_list ps0) l0))); [discriminate|].
    destruct (negb (i_skip_joint_check i) && is_in_joint (Region ps0 l0 cv rg)); [discriminate|].
    inversion Enb; subst b0. cbn in Hp. apply pm_of_list_In. exact Hp. }
  pose proof (api_ops_nz _ _ _ N0 Eapi) as N1.
  pose proof (prepare_build_spec _ _ _ Hprep) as PF.
  destruct PF as [F1 F2 F3 F4 F5 F6 F7 F8 F9 F10 F11 F12 F13 F14 F15 F16 F17 F18 F19].
  set (T := b_target b1) in *. set (alloc := i_alloc i) in *.
  set (g := goal_of b). set (r0 := Region ps0 l0 cv rg).
  assert (HTv : g_min_voters g <= voters_new T).
  { unfold g, goal_of; cbn [g_min_voters]. rewrite F4. fold T. lia. }
  (* the starting point *)
  assert (S0 : Sim g r0 b r0).
  { constructor.
    - intros rest. rewrite F11. reflexivity.
    - constructor.
      + exact Hnd.
      + exists lp. split; [exact Hlp|]. unfold is_learner. rewrite Hlrole. reflexivity.
      + unfold g, goal_of; cbn [g_min_voters peers r0]. rewrite F2, A1. unfold voters_old at 1, voters_new at 1.
        rewrite !(countb_pm_of_list _ _ Hnd). fold (voters_old ps0) (voters_new ps0). lia.
      + unfold g, goal_of; cbn [g_min_voters peers r0]. rewrite F2, A1. unfold voters_old at 1, voters_new at 1.
        rewrite !(countb_pm_of_list _ _ Hnd). fold (voters_old ps0) (voters_new ps0). lia.
    - exact Hnj.
    - intros st. cbn [peers r0]. rewrite F9, A1. symmetry. apply pm_of_list_get. exact Hnd.
    - cbn [leader r0]. rewrite F10, A2. reflexivity.
    - exact Hids. }
  assert (P0 : PInv T b).
  { constructor.
    - rewrite F9, A1. apply pm_of_list_sorted.
    - rewrite F16. apply cfold_sorted. constructor.
    - rewrite F13. apply cfold_sorted. constructor.
    - rewrite F14. apply cfold_sorted. constructor.
    - rewrite F15. apply cfold_sorted. constructor.
    - intros st. unfold look. rewrite F9, F16, F13, F14, F15, A1. fold T alloc.
      rewrite (pm_of_list_get _ _ Hnd).
      apply initial_at; auto. }
  (* the loop and the end *)
  unfold build_nonjoint in Hbuild.
  destruct (nonjoint_loop (pending b) b) as [bF| |] eqn:Eloop; [|discriminate|discriminate].
  destruct (loop_ok T g r0 A6 A7 HTv _ _ _ _ S0 P0 Eloop) as (rF & SF & PF' & E0 & EtF & ElF).
  cbv zeta in Hbuild.
  match type of Hbuild with (match (match b_steps ?B3 with _ => _ end) with _ => _ end) = _ =>
    set (b3 := B3) in *;
    assert (Hss : ss = b_steps b3) by (destruct (b_steps b3) eqn:Es; [discriminate|inversion Hbuild; congruence]) end.
  rewrite Hss. unfold plan_ok.
  match goal with |- negb (is_some ?X) = true => assert (HX : X = None); [|rewrite HX; reflexivity] end.
  apply (final_ok T g r0 A6 A7 bF rF SF PF' E0).
  - rewrite EtF. exact F4.
  - unfold g, goal_of; cbn [g_target]. rewrite F4. reflexivity.
  - unfold g, goal_of; cbn [g_leader]. symmetry. exact ElF.
  - rewrite ElF. destruct F18 as [Z0|(Et & p & Hp & Hl)]; [left; exact Z0|right]. exists p. auto.
Qed.
