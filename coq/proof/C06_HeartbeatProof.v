(* C06 — invariants of heartbeat processing over all interleavings of heartbeat threads. *)
From Coq Require Import Permutation Sorting.Sorted.
From PDV Require Import lib.Base lib.C07_Key gen.Gen_C06 model.C07_BTreeSpec model.C07_Region
  proof.C07_Sorted proof.C07_Tree proof.C07_RegionProof proof.C07_Spec model.C06_Heartbeat.
Local Open Scope Z_scope.

(* ---- the labelled transition system: any number of threads, any schedule ---- *)
Inductive hlabel :=
| LBegin (t : Z) (r : region)      (* a thread starts a heartbeat: first precheck, flags *)
| LStep (t : Z)                    (* its next atomic section *)
| LFlush.                          (* RegionStorage flushes its batch (timer, size, Flush) *)

(* a heartbeat of the domain: a well-formed region (C07) and a raft term that is a uint64 *)
Definition hb_ok (r : region) : bool := wf_region r && (0 <=? r_term r).
Lemma hb_ok_parts r : hb_ok r = true -> wf_region r = true /\ 0 <= r_term r.
Proof. unfold hb_ok. intros H. apply andb_true_iff in H as [W T]. apply Z.leb_le in T. auto. Qed.

Definition hl_step (h : hstate) (l : hlabel) : option hstate :=
  match l with
  | LBegin t r =>
      if hb_ok r
      then match begin h t r with (_, HBad) => None | (h', _) => Some h' end
      else None
  | LStep t => match step h t with (_, HBad) => None | (h', _) => Some h' end
  | LFlush => Some (HState (h_cache h) (flush (h_store h)) (h_threads h))
  end.

Definition cached (c : rinfo) : list region := items (tree c).

Definition threads_wf (h : hstate) : Prop :=
  forall t r fl, In (t, PLock r fl) (h_threads h) -> hb_ok r = true /\ f_cache fl = true.

Definition HInv (h : hstate) : Prop := Inv (h_cache h) /\ threads_wf h.

Lemma th_get_in l t p : th_get l t = Some p -> In (t, p) l.
Proof.
  induction l as [|[k v] l IH]; cbn; [discriminate|].
  destruct (Z.eqb_spec k t) as [->|]; [intros H; inversion H; auto|auto].
Qed.
Lemma th_del_in l t x : In x (th_del l t) -> In x l.
Proof.
  induction l as [|[k v] l IH]; cbn; [tauto|].
  destruct (k =? t); [auto|]. intros [H|H]; auto.
Qed.
Lemma th_set_in l t p x : In x (th_set l t p) -> x = (t, p) \/ In x l.
Proof. unfold th_set. intros [H|H]; [auto|right; eapply th_del_in; eauto]. Qed.

Lemma Inv_set c r : Inv c -> wf_region r = true ->
  Inv (fst (set_region c r)) /\ cached (fst (set_region c r)) = spec_tree (cached c) r /\
  snd (set_region c r) = displaced (cached c) r.
Proof.
  intros (HT & HR & G) W. destruct (set_region_rep c _ r HT HR G W) as (A & B & C).
  pose proof (trees_rep_items _ _ A) as E. split; [|split; [exact E|exact C]].
  eapply Inv_intro; eauto. apply spec_tree_good; auto.
Qed.

Lemma keep_term_fields c r :
  let r' := keep_term c r in
  r_id r' = r_id r /\ r_start r' = r_start r /\ r_end r' = r_end r /\ r_peers r' = r_peers r /\ r_leader r' = r_leader r /\
  r_pending r' = r_pending r /\ r_size r' = r_size r /\ r_ver r' = r_ver r /\ r_confver r' = r_confver r /\ r_stamp r' = r_stamp r.
Proof. unfold keep_term. destruct (r_term r =? 0); [destruct (get_region c (r_id r))|]; cbn; repeat split; reflexivity. Qed.

Lemma keep_term_id c r : r_id (keep_term c r) = r_id r.
Proof. apply keep_term_fields. Qed.

Lemma wf_keep_term c r : wf_region (keep_term c r) = wf_region r.
Proof.
  destruct (keep_term_fields c r) as (E1 & E2 & E3 & E4 & E5 & E6 & _).
  unfold wf_region, valid_range, wf_peers, pending_in_peers. rewrite E2, E3, E4, E6. reflexivity.
Qed.

Lemma displaced_keep_term l c r : displaced l (keep_term c r) = displaced l r.
Proof.
  destruct (keep_term_fields c r) as (E1 & E2 & E3 & _). unfold displaced. apply filter_ext. intros x.
  unfold overlaps. rewrite E1, E2, E3. reflexivity.
Qed.

Lemma keep_keep_term c r x : keep (keep_term c r) x = keep r x.
Proof.
  destruct (keep_term_fields c r) as (E1 & E2 & E3 & _). unfold keep, overlaps. rewrite E1, E2, E3. reflexivity.
Qed.

Lemma Inv_put c r : Inv c -> wf_region r = true ->
  Inv (fst (put_region c r)) /\ cached (fst (put_region c r)) = spec_tree (cached c) (keep_term c r) /\
  snd (put_region c r) = displaced (cached c) r.
Proof.
  intros I W. unfold put_region. rewrite <- (wf_keep_term c r) in W.
  destruct (Inv_set c _ I W) as (A & B & C). rewrite displaced_keep_term in C. auto.
Qed.

(* a heartbeat that is not answered at once always updates the cache: saveKV and isNew imply saveCache *)
Lemma flags_kv_cache r origin : f_kv (compute_flags r origin) = true -> f_cache (compute_flags r origin) = true.
Proof.
  destruct origin as [o|]; cbn; [|reflexivity]. intros H.
  apply orb_true_iff in H as [H|H]; [apply orb_true_iff in H as [H|H]|]; rewrite H; rewrite ?orb_true_r; reflexivity.
Qed.
Lemma flags_new_cache r origin : f_new (compute_flags r origin) = true -> f_cache (compute_flags r origin) = true.
Proof.
  destruct origin as [o|]; cbn; [|reflexivity]. intros H. apply andb_true_iff in H as [H _].
  rewrite H; rewrite ?orb_true_r; reflexivity.
Qed.
Lemma flags_not_early r origin :
  negb (f_kv (compute_flags r origin)) && negb (f_cache (compute_flags r origin)) && negb (f_new (compute_flags r origin)) = false ->
  f_cache (compute_flags r origin) = true.
Proof.
  intros H. destruct (f_cache (compute_flags r origin)) eqn:FC; [reflexivity|]. exfalso.
  destruct (f_kv (compute_flags r origin)) eqn:FK; [rewrite (flags_kv_cache _ _ FK) in FC; discriminate|].
  destruct (f_new (compute_flags r origin)) eqn:FN; [rewrite (flags_new_cache _ _ FN) in FC; discriminate|].
  discriminate H.
Qed.

Lemma HInv_init wb : HInv (h_init wb).
Proof. split; [apply Inv_empty|]. intros t r fl []. Qed.

Lemma HInv_step h l h' : HInv h -> hl_step h l = Some h' -> HInv h'.
Proof.
  intros [I TW] H. destruct l as [t r|t|]; cbn in H.
  - destruct (hb_ok r) eqn:W; [|discriminate]. unfold begin in H.
    destruct (th_get (h_threads h) t); [discriminate|].
    destruct (precheck (h_cache h) r) as [origin err]. destruct err; [inversion H; subst; split; auto|].
    destruct (negb _ && negb _ && negb _) eqn:ND; inversion H; subst; [split; auto|].
    split; [exact I|]. intros t0 r0 fl0 Hin. cbn in Hin.
    apply th_set_in in Hin as [E|Hin]; [inversion E; subst; split; [exact W|apply flags_not_early, ND]|eauto].
  - unfold step in H. destruct (th_get (h_threads h) t) as [[r fl|todo]|] eqn:TG; [| |discriminate].
    + destruct (TW _ _ _ (th_get_in _ _ _ TG)) as [W FCt]. destruct (hb_ok_parts _ W) as [Ww _].
      destruct (f_cache fl).
      * destruct (precheck (h_cache h) r) as [origin err]. destruct err.
        -- inversion H; subst. split; [exact I|]. intros t0 r0 fl0 Hin. apply th_del_in in Hin. eauto.
        -- destruct (Inv_put _ r I Ww) as (I' & _ & _).
           destruct (put_region (h_cache h) r) as [c' ov] eqn:SR. cbn [fst snd] in *.
           destruct (store_ops ov r fl) eqn:SO; inversion H; subst; (split; [exact I'|]); intros t0 r0 fl0 Hin.
           ++ apply th_del_in in Hin. eauto.
           ++ apply th_set_in in Hin as [E|Hin]; [inversion E|eauto].
      * destruct (store_ops [] r fl) eqn:SO; inversion H; subst; (split; [exact I|]); intros t0 r0 fl0 Hin.
        -- apply th_del_in in Hin. eauto.
        -- apply th_set_in in Hin as [E|Hin]; [inversion E|eauto].
    + destruct todo as [|o rest].
      * inversion H; subst. split; [exact I|]. intros t0 r0 fl0 Hin. apply th_del_in in Hin. eauto.
      * destruct rest; inversion H; subst; (split; [exact I|]); intros t0 r0 fl0 Hin.
        -- apply th_del_in in Hin. eauto.
        -- apply th_set_in in Hin as [E|Hin]; [inversion E|eauto].
  - inversion H; subst. split; [exact I|exact TW].
Qed.

Theorem HInv_exec wb ls : HInv (exec hl_step (h_init wb) ls).
Proof. apply (invariant_exec hl_step HInv); [intros; eapply HInv_step; eauto|apply HInv_init]. Qed.

(* ---- no two served regions overlap ---- *)
Theorem no_overlap_pf wb ls : ds (cached (h_cache (exec hl_step (h_init wb) ls))).
Proof. destruct (HInv_exec wb ls) as [(_ & _ & (D & _)) _]. exact D. Qed.

(* ---- what a label does to the cache: nothing, or one accepted put ---- *)
Definition accepted (c : rinfo) (r : region) : Prop := snd (precheck c r) = false.

Lemma step_cache h l h' : hl_step h l = Some h' ->
  h_cache h' = h_cache h \/
  exists t r fl, l = LStep t /\ In (t, PLock r fl) (h_threads h) /\ accepted (h_cache h) r /\
                 h_cache h' = fst (put_region (h_cache h) r).
Proof.
  intros H. destruct l as [t r|t|]; cbn in H.
  - left. destruct (hb_ok r); [|discriminate]. unfold begin in H.
    destruct (th_get (h_threads h) t); [discriminate|].
    destruct (precheck (h_cache h) r) as [origin err]. destruct err; [inversion H; reflexivity|].
    destruct (negb _ && negb _ && negb _); inversion H; reflexivity.
  - unfold step in H. destruct (th_get (h_threads h) t) as [[r fl|todo]|] eqn:TG; [| |discriminate].
    + destruct (f_cache fl).
      * destruct (precheck (h_cache h) r) as [origin err] eqn:PC. destruct err; [left; inversion H; reflexivity|].
        right. exists t, r, fl. split; [reflexivity|]. split; [apply th_get_in, TG|]. split; [unfold accepted; rewrite PC; reflexivity|].
        destruct (put_region (h_cache h) r) as [c' ov]. cbn. destruct (store_ops ov r fl); inversion H; reflexivity.
      * left. destruct (store_ops [] r fl); inversion H; reflexivity.
    + left. destruct todo as [|o rest]; [inversion H; reflexivity|]. destruct rest; inversion H; reflexivity.
  - left. inversion H; reflexivity.
Qed.

(* ---- epochs never go back for a served id: version, conf_ver and term (a heartbeat that reports no term keeps
        the served one) ---- *)
Definition epoch_le (x x' : region) : Prop :=
  r_ver x <= r_ver x' /\ r_confver x <= r_confver x' /\ r_term x <= r_term x'.

Lemma precheck_origin c r : fst (relevant c r) = get_region c (r_id r).
Proof. reflexivity. Qed.

Lemma accepted_origin c r o : accepted c r -> 0 <= r_term r -> get_region c (r_id r) = Some o -> epoch_le o (keep_term c r).
Proof.
  unfold accepted, precheck. destruct (relevant c r) as [origin ov] eqn:RL.
  pose proof (precheck_origin c r) as PO. rewrite RL in PO. cbn in PO. subst origin.
  intros A T G. rewrite G in A. destruct (existsb _ ov); [discriminate|].
  destruct ((0 <? r_term r) && (r_term r <? r_term o) || (r_ver r <? r_ver o) || (r_confver r <? r_confver o)) eqn:B; [discriminate|].
  apply orb_false_iff in B as [B B3]. apply orb_false_iff in B as [B1 B2].
  apply Z.ltb_ge in B2, B3.
  destruct (keep_term_fields c r) as (_ & _ & _ & _ & _ & _ & _ & EV & EC & _). unfold epoch_le. rewrite EV, EC.
  split; [lia|]. split; [lia|].
  unfold keep_term. rewrite G. destruct (Z.eqb_spec (r_term r) 0) as [Z0|NZ]; [cbn; lia|].
  apply andb_false_iff in B1 as [B1|B1]; apply Z.ltb_ge in B1; lia.
Qed.

Lemma get_after_set c r id x' : Inv c -> wf_region r = true ->
  get_region (fst (set_region c r)) id = Some x' ->
  (id = r_id r /\ x' = r) \/ (id <> r_id r /\ get_region c id = Some x').
Proof.
  intros I W G. destruct (Inv_set c r I W) as (I' & E & _).
  destruct I' as (_ & HR' & (_ & N' & _)). destruct I as (_ & HR & _).
  apply (regs_rep_get _ _ _ _ HR') in G as [Hx Eid]. fold (cached (fst (set_region c r))) in Hx. rewrite E in Hx.
  apply spec_tree_in in Hx as [->|[Hx K]].
  - left. auto.
  - right. unfold keep in K. apply andb_true_iff in K as [K _]. apply negb_true_iff, Z.eqb_neq in K.
    split; [congruence|]. apply (regs_rep_get _ _ _ _ HR). auto.
Qed.

Lemma get_after_put c r id x' : Inv c -> wf_region r = true ->
  get_region (fst (put_region c r)) id = Some x' ->
  (id = r_id r /\ x' = keep_term c r) \/ (id <> r_id r /\ get_region c id = Some x').
Proof.
  intros I W G. unfold put_region in G. rewrite <- (wf_keep_term c r) in W.
  apply (get_after_set _ _ _ _ I W) in G. rewrite keep_term_id in G. exact G.
Qed.

Theorem epoch_monotone_step_pf h l h' id x x' :
  HInv h -> hl_step h l = Some h' ->
  get_region (h_cache h) id = Some x -> get_region (h_cache h') id = Some x' -> epoch_le x x'.
Proof.
  intros [I TW] H G G'. destruct (step_cache _ _ _ H) as [E|(t & r & fl & _ & Hin & A & E)].
  - rewrite E in G'. assert (x' = x) by congruence. subst. unfold epoch_le. lia.
  - destruct (hb_ok_parts _ (proj1 (TW _ _ _ Hin))) as [W T].
    rewrite E in G'. apply (get_after_put _ _ _ _ I W) in G' as [[-> ->]|[_ G']].
    + eapply accepted_origin; eauto.
    + assert (x' = x) by congruence. subst. unfold epoch_le. lia.
Qed.

(* ---- a rejected heartbeat changes nothing ---- *)
Theorem rejected_unchanged_begin_pf h t r h' : begin h t r = (h', HErr) -> h' = h.
Proof.
  unfold begin. destruct (th_get (h_threads h) t); [intros H; inversion H|].
  destruct (precheck (h_cache h) r) as [origin err]. destruct err; [intros H; inversion H; reflexivity|].
  destruct (negb _ && negb _ && negb _); intros H; inversion H.
Qed.

Theorem rejected_unchanged_step_pf h t h' : step h t = (h', HErr) ->
  h_cache h' = h_cache h /\ h_store h' = h_store h.
Proof.
  unfold step. destruct (th_get (h_threads h) t) as [[r fl|todo]|]; [| |intros H; inversion H].
  - destruct (f_cache fl).
    + destruct (precheck (h_cache h) r) as [origin err]. destruct err; [intros H; inversion H; auto|].
      destruct (put_region (h_cache h) r) as [c' ov]. destruct (store_ops ov r fl); intros H; inversion H.
    + destruct (store_ops [] r fl); intros H; inversion H.
  - destruct todo as [|o rest]; [intros H; inversion H|]. destruct rest; intros H; inversion H.
Qed.

(* ---- the regions displaced by an accepted put leave the cache in the same atomic section ---- *)
Theorem displaced_gone_from_cache_pf c r x : Inv c -> wf_region r = true ->
  In x (snd (set_region c r)) -> get_region (fst (set_region c r)) (r_id x) = None /\ In x (cached c).
Proof.
  intros I W Hx. destruct (Inv_set c r I W) as (I' & E & C). rewrite C in Hx.
  unfold displaced in Hx. apply filter_In in Hx as [HxT K]. apply andb_true_iff in K as [K1 K2].
  split; [|exact HxT]. destruct I' as (_ & HR' & _). destruct I as (_ & _ & (_ & N & _)).
  destruct (get_region (fst (set_region c r)) (r_id x)) as [y|] eqn:G; [|reflexivity]. exfalso.
  apply (regs_rep_get _ _ _ _ HR') in G as [Hy Ey]. fold (cached (fst (set_region c r))) in Hy. rewrite E in Hy.
  apply spec_tree_in in Hy as [->|[Hy KY]].
  - apply negb_true_iff, Z.eqb_neq in K1. congruence.
  - rewrite (nodup_ids_eq _ _ _ N Hy HxT Ey) in KY. unfold keep in KY. rewrite K2 in KY. rewrite andb_false_r in KY. discriminate.
Qed.

Theorem displaced_gone_from_cache_put_pf c r x : Inv c -> wf_region r = true ->
  In x (snd (put_region c r)) -> get_region (fst (put_region c r)) (r_id x) = None /\ In x (cached c).
Proof. intros I W. unfold put_region. rewrite <- (wf_keep_term c r) in W. apply displaced_gone_from_cache_pf; assumption. Qed.

(* ---- the first and the second precheck reject exactly the stale heartbeats of the statement ---- *)
Definition origin_stale (r x : region) : bool :=
  ((0 <? r_term r) && (r_term r <? r_term x)) || (r_ver r <? r_ver x) || (r_confver r <? r_confver x).

(* staler than the cached region of the same id, or older in version than a cached region it overlaps *)
Definition stale_spec (l : list region) (r : region) : bool :=
  existsb (fun x => if r_id x =? r_id r then origin_stale r x else overlaps x r && (r_ver r <? r_ver x)) l.

Lemma precheck_unfold c r :
  snd (precheck c r) =
  let '(origin, ov) := relevant c r in
  existsb (fun item => r_ver r <? r_ver item) ov || match origin with Some o => origin_stale r o | None => false end.
Proof.
  unfold precheck. destruct (relevant c r) as [origin ov]. destruct (existsb _ ov); [reflexivity|].
  destruct origin as [o|]; [|reflexivity]. cbn [orb]. unfold origin_stale.
  destruct ((0 <? r_term r) && (r_term r <? r_term o) || (r_ver r <? r_ver o) || (r_confver r <? r_confver o)); reflexivity.
Qed.

Theorem precheck_is_stale_pf c r : Inv c -> valid_range r = true ->
  snd (precheck c r) = stale_spec (cached c) r.
Proof.
  intros I V. pose proof I as (HT & HR & G). pose proof G as (D & N & _).
  assert (TR : tree c = RT (cached c) (sum_size (cached c))) by (destruct HT as (H & _); exact H).
  rewrite precheck_unfold. unfold relevant.
  apply eq_true_iff_eq. unfold stale_spec. rewrite existsb_exists.
  destruct (get_region c (r_id r)) as [o|] eqn:GO.
  - apply (regs_rep_get _ _ _ _ HR) in GO as [Ho Eid]. fold (cached c) in Ho.
    assert (IDO : forall x, In x (cached c) -> (r_id x =? r_id r) = true -> x = o).
    { intros x Hx E. apply Z.eqb_eq in E. apply (nodup_ids_eq _ _ _ N Hx Ho). congruence. }
    destruct (negb (key_eqb (r_start o) (r_start r)) || negb (key_eqb (r_end o) (r_end r))) eqn:RC.
    + rewrite TR, (get_overlaps_spec _ _ _ D V), existsb_filter, orb_true_iff, existsb_exists. split.
      * intros [(x & Hx & C)|OS].
        -- apply andb_true_iff in C as [O L]. destruct (r_id x =? r_id r) eqn:E.
           ++ rewrite (IDO x Hx E) in *. exists o. split; [exact Ho|]. rewrite <- Eid, Z.eqb_refl.
              unfold origin_stale. rewrite L. rewrite orb_true_r. reflexivity.
           ++ exists x. split; [exact Hx|]. rewrite E, O, L. reflexivity.
        -- exists o. split; [exact Ho|]. rewrite <- Eid, Z.eqb_refl. exact OS.
      * intros (x & Hx & C). destruct (r_id x =? r_id r) eqn:E.
        -- rewrite (IDO x Hx E) in C. right; exact C.
        -- left. exists x. split; [exact Hx|exact C].
    + cbn [existsb orb]. apply orb_false_iff in RC as [RC1 RC2]. apply negb_false_iff in RC1, RC2.
      destruct (key_eqb_spec (r_start o) (r_start r)) as [Es|]; [|discriminate].
      destruct (key_eqb_spec (r_end o) (r_end r)) as [Ee|]; [|discriminate].
      split.
      * intros OS. exists o. split; [exact Ho|]. rewrite <- Eid, Z.eqb_refl. exact OS.
      * intros (x & Hx & C). destruct (r_id x =? r_id r) eqn:E.
        -- rewrite (IDO x Hx E) in C. exact C.
        -- exfalso. apply andb_true_iff in C as [O _].
           rewrite (sr_overlaps o r Es Ee x) in O. rewrite (ds_overlaps_eq _ _ _ D Hx Ho O) in E.
           rewrite Eid, Z.eqb_refl in E. discriminate.
  - pose proof (regs_rep_get_none _ _ _ HR GO) as NI. fold (cached c) in NI.
    rewrite TR, (get_overlaps_spec _ _ _ D V), existsb_filter, orb_false_r, existsb_exists. split.
    + intros (x & Hx & C). exists x. split; [exact Hx|].
      replace (r_id x =? r_id r) with false by (symmetry; apply Z.eqb_neq, NI, Hx). exact C.
    + intros (x & Hx & C). exists x. split; [exact Hx|].
      replace (r_id x =? r_id r) with false in C by (symmetry; apply Z.eqb_neq, NI, Hx). exact C.
Qed.

(* a stale heartbeat is answered with an error by whichever check it meets, and nothing changes *)
Theorem stale_rejected_begin_pf h t r : HInv h -> valid_range r = true -> th_get (h_threads h) t = None ->
  stale_spec (cached (h_cache h)) r = true -> begin h t r = (h, HErr).
Proof.
  intros [I _] V TG S. rewrite <- (precheck_is_stale_pf _ _ I V) in S. unfold begin. rewrite TG.
  destruct (precheck (h_cache h) r) as [origin err]. cbn in S. subst err. reflexivity.
Qed.

Theorem stale_rejected_step_pf h t r fl : HInv h -> th_get (h_threads h) t = Some (PLock r fl) ->
  stale_spec (cached (h_cache h)) r = true ->
  exists h', step h t = (h', HErr) /\ h_cache h' = h_cache h /\ h_store h' = h_store h.
Proof.
  intros [I TW] TG S. destruct (TW _ _ _ (th_get_in _ _ _ TG)) as [W0 FC]. destruct (hb_ok_parts _ W0) as [W _].
  apply wf_region_parts in W as [V _].
  rewrite <- (precheck_is_stale_pf _ _ I V) in S. unfold step. rewrite TG, FC.
  destruct (precheck (h_cache h) r) as [origin err]. cbn in S. subst err. eexists. split; [reflexivity|]. split; reflexivity.
Qed.

(* ---- epochs over a whole execution, while the id stays served ---- *)
Definition next (h : hstate) (l : hlabel) : hstate := match hl_step h l with Some h' => h' | None => h end.

Fixpoint always_served (id : Z) (h : hstate) (ls : list hlabel) : Prop :=
  get_region (h_cache h) id <> None /\
  match ls with [] => True | l :: r => always_served id (next h l) r end.

Lemma exec_next h l ls : exec hl_step h (l :: ls) = exec hl_step (next h l) ls.
Proof. unfold next. cbn. destruct (hl_step h l); reflexivity. Qed.

Lemma HInv_next h l : HInv h -> HInv (next h l).
Proof. intros I. unfold next. destruct (hl_step h l) eqn:E; [eapply HInv_step; eauto|exact I]. Qed.

Lemma epoch_le_next h l id x y : HInv h ->
  get_region (h_cache h) id = Some x -> get_region (h_cache (next h l)) id = Some y -> epoch_le x y.
Proof.
  intros I G G'. unfold next in G'. destruct (hl_step h l) eqn:E.
  - eapply epoch_monotone_step_pf; eauto.
  - assert (y = x) by congruence. subst. unfold epoch_le. lia.
Qed.

(* version, conf_ver and term along a whole execution, for as long as the id stays served *)
Theorem epochs_monotone_chain_pf ls : forall h id x x', HInv h -> always_served id h ls ->
  get_region (h_cache h) id = Some x -> get_region (h_cache (exec hl_step h ls)) id = Some x' ->
  epoch_le x x'.
Proof.
  induction ls as [|l ls IH]; intros h id x x' I AS G G'.
  - cbn in G'. assert (x' = x) by congruence. subst. unfold epoch_le. lia.
  - rewrite exec_next in G'. destruct AS as [_ AS]. pose proof AS as AS'.
    destruct ls as [|l2 ls2]; destruct AS' as [NN _];
      (destruct (get_region (h_cache (next h l)) id) as [y|] eqn:GY; [|congruence]);
      destruct (epoch_le_next _ _ _ _ _ I G GY) as (V1 & C1 & T1);
      destruct (IH _ _ _ _ (HInv_next _ l I) AS GY G') as (V2 & C2 & T2); unfold epoch_le; lia.
Qed.

(* regression: the history that showed the served term going 5 -> 0 -> 3 before /repo 9338658 (a heartbeat without
   term, then a smaller reported term).  Now the term-less heartbeat keeps term 5 and the third one is rejected. *)
Definition term_gap_region (term stamp : Z) : region :=
  Region 1 (K [97]) (K [99]) [Peer 11 1 false; Peer 12 2 false] 11 [] 10 1 1 term stamp.

Example term_gap_behaves :
  let h1 := exec hl_step (h_init false) [LBegin 1 (term_gap_region 5 1); LStep 1; LStep 1] in
  let h2 := exec hl_step h1 [LBegin 1 (term_gap_region 0 2); LStep 1; LStep 1] in
  option_map r_term (get_region (h_cache h2) 1) = Some 5 /\
  snd (begin h2 1 (term_gap_region 3 3)) = HErr.
Proof. vm_compute. auto. Qed.

(* ---- an acknowledged reported term is remembered: after a heartbeat with a reported term was answered without an
        error - at once because nothing changed, or by its locked section - the served term of its id is at least that
        term (so the heartbeat of the leader of an older term is stale from then on) ---- *)
Lemma flags_no_change_term r o :
  negb (f_kv (compute_flags r (Some o))) && negb (f_cache (compute_flags r (Some o))) && negb (f_new (compute_flags r (Some o))) = true ->
  r_term r <= r_term o.
Proof.
  cbn. intros H. apply andb_true_iff in H as [H _]. apply andb_true_iff in H as [_ H]. apply negb_true_iff in H.
  repeat (apply orb_false_iff in H as [H ?]). apply Z.ltb_ge. assumption.
Qed.

Theorem acknowledged_term_begin_pf h t r h' : begin h t r = (h', HOk) ->
  exists x, get_region (h_cache h') (r_id r) = Some x /\ r_term r <= r_term x.
Proof.
  unfold begin. destruct (th_get (h_threads h) t); [discriminate|].
  destruct (precheck (h_cache h) r) as [origin err] eqn:PC. destruct err; [discriminate|].
  destruct (negb _ && negb _ && negb _) eqn:ND; [|discriminate]. intros E. inversion E; subst h'.
  assert (EO : origin = get_region (h_cache h) (r_id r)).
  { unfold precheck in PC. destruct (relevant (h_cache h) r) as [og ov] eqn:RL.
    pose proof (precheck_origin (h_cache h) r) as PO. rewrite RL in PO. cbn in PO. subst og.
    destruct (existsb _ ov); [inversion PC|]. destruct (get_region (h_cache h) (r_id r)) as [o|]; [|inversion PC; reflexivity].
    destruct (_ || _ || _); inversion PC; reflexivity. }
  destruct origin as [o|]; [|cbn in ND; discriminate].
  exists o. split; [symmetry; exact EO|]. apply flags_no_change_term, ND.
Qed.

Theorem acknowledged_term_step_pf h t r fl h' res : HInv h -> th_get (h_threads h) t = Some (PLock r fl) ->
  0 < r_term r -> step h t = (h', res) -> res <> HErr ->
  exists x, get_region (h_cache h') (r_id r) = Some x /\ r_term r <= r_term x.
Proof.
  intros [I TW] TG TP ST NE. destruct (TW _ _ _ (th_get_in _ _ _ TG)) as [W0 FC]. destruct (hb_ok_parts _ W0) as [W _].
  unfold step in ST. rewrite TG, FC in ST.
  destruct (precheck (h_cache h) r) as [origin err]. destruct err; [inversion ST; subst; congruence|].
  pose proof (served_nonempty := fun c => get_after_put c r (r_id r)).
  destruct (Inv_put _ r I W) as (I' & ET & _).
  assert (G : get_region (fst (put_region (h_cache h) r)) (r_id r) = Some (keep_term (h_cache h) r)).
  { destruct I' as (_ & HR' & (_ & N' & _)).
    apply (regs_rep_get _ _ _ _ HR'). split; [|apply keep_term_id].
    fold (cached (fst (put_region (h_cache h) r))). rewrite ET. apply spec_tree_in. left; reflexivity. }
  assert (TK : r_term (keep_term (h_cache h) r) = r_term r).
  { unfold keep_term. destruct (Z.eqb_spec (r_term r) 0); [lia|reflexivity]. }
  destruct (put_region (h_cache h) r) as [c' ov]. cbn [fst] in G.
  exists (keep_term (h_cache h) r). split; [|lia].
  destruct (store_ops ov r fl); inversion ST; subst; exact G.
Qed.

(* ---- without "the id stays served" the clause is false: a region that is displaced from the cache (here by a split
        child that reports first) leaves no memory of its epoch and term; a delayed heartbeat of it that covers only keys
        whose present owner has not reported yet is accepted and the id is served again older than it was served ---- *)
Definition epochs_monotone_across_displacement : Prop :=
  forall wb ls1 ls2 id x x',
    let h1 := exec hl_step (h_init wb) ls1 in
    get_region (h_cache h1) id = Some x -> get_region (h_cache (exec hl_step h1 ls2)) id = Some x' ->
    r_ver x <= r_ver x' /\ r_term x <= r_term x'.

Definition gap_peers (id : Z) : list peer := [Peer (id * 10 + 1) 1 false; Peer (id * 10 + 2) 2 false; Peer (id * 10 + 3) 3 false].
Definition gap_region (id : Z) (s e : list Z) (leader ver term stamp : Z) : region :=
  Region id (K s) (K e) (gap_peers id) leader [] 10 ver 1 term stamp.
Definition gap_hb (r : region) : list hlabel := [LBegin 1 r; LStep 1; LStep 1; LStep 1; LStep 1].

Definition gap_prefix : list hlabel :=
  gap_hb (gap_region 1 [] [99] 11 2 6 1) ++ gap_hb (gap_region 2 [99] [] 21 2 6 2) ++     (* 1 = ["","c") v2 t6, 2 = ["c","") *)
  gap_hb (gap_region 1 [] [] 12 3 7 3) ++                                                   (* leader moves, 2 merged into 1 *)
  gap_hb (gap_region 1 [109] [] 12 4 7 4).                                                  (* 1 splits at "m", keeps ["m","") v4 *)
Definition gap_suffix : list hlabel :=
  gap_hb (gap_region 4 [109] [116] 41 5 7 5) ++                                             (* child ["m","t") v5 reports first: displaces 1 *)
  gap_hb (gap_region 1 [] [99] 11 2 6 6).                                                   (* the delayed heartbeat of step 1 *)

Theorem epochs_monotone_across_displacement_refuted_pf : ~ epochs_monotone_across_displacement.
Proof.
  intros H. specialize (H false gap_prefix gap_suffix 1 (gap_region 1 [109] [] 12 4 7 4) (gap_region 1 [] [99] 11 2 6 6)).
  cbn zeta in H.
  assert (G1 : get_region (h_cache (exec hl_step (h_init false) gap_prefix)) 1 = Some (gap_region 1 [109] [] 12 4 7 4)) by (vm_compute; reflexivity).
  assert (G2 : get_region (h_cache (exec hl_step (exec hl_step (h_init false) gap_prefix) gap_suffix)) 1 = Some (gap_region 1 [] [99] 11 2 6 6))
    by (vm_compute; reflexivity).
  destruct (H G1 G2) as [V _]. vm_compute in V. apply V. reflexivity.
Qed.
